//@unit sm9_g2
//@serves C09 C10 C13 C16 C17 C20
//@source gm-sm9/src/points.rs
//@include-spec sm2_math
//@include-spec sm9_math
//@include-spec sm9_fp2
//@section spec
use core::fmt::Debug;
// ---------------------------------------------------------------- representation predicates / abstraction of a G2 point (vocabulary shared with unit sm9_key)
// an Fp2 element held as two Montgomery-form limb arrays, decoded
spec fn f2v(a: Fp2) -> F2 { F2 { c0: fe9(a.c0@), c1: fe9(a.c1@) } }
spec fn ok2(a: Fp2) -> bool { canon9(a.c0@) && canon9(a.c1@) }
// Jacobian coordinates (X, Y, Z) over Fp2 denote (X / Z^2, Y / Z^3); Z == 0 is the point at infinity
pub open spec fn jac2(x: F2, y: F2, z: F2) -> Pt2 {
    if z == m2_zero() { Pt2::Inf } else {
        let zi = m2_inv(z);
        Pt2::Aff { x: m2_mul(m2_mul(x, zi), zi), y: m2_mul(m2_mul(m2_mul(y, zi), zi), zi) }
    }
}
spec fn wf2(q: TwistPoint) -> bool { ok2(q.x) && ok2(q.y) && ok2(q.z) }
spec fn abs2(q: TwistPoint) -> Pt2 { jac2(f2v(q.x), f2v(q.y), f2v(q.z)) }
spec fn valid2(q: TwistPoint) -> bool { wf2(q) && on_curve2(abs2(q)) }
pub open spec fn pt2_x(q: Pt2) -> F2 { match q { Pt2::Inf => m2_zero(), Pt2::Aff { x, y } => x } }
pub open spec fn pt2_y(q: Pt2) -> F2 { match q { Pt2::Inf => m2_zero(), Pt2::Aff { x, y } => y } }
//@section code gm-sm9/src/u256.rs
type U256 = [u64; 4];
//@section code gm-sm9/src/fields/fp.rs
type Fp = U256;
//@stub-trait sm9_fp FieldElement
//@section code gm-sm9/src/fields/fp2.rs
#[derive(Debug, Copy, Clone)]
struct Fp2 {
    c0: Fp,
    c1: Fp,
}
impl Eq for Fp2 {}
//@stub sm9_fp2 Fp2::eq
//@stub-trait sm9_fp2 FieldElement
//@stub sm9_fp2 Fp2::fp_mul_fp
//@stub sm9_fp2 Fp2::conjugate
//@extract gm-sm9/src/lib.rs SM9_TWIST_POINT_MONT_P2
//@section spec local
use vstd::std_specs::cmp::PartialEqSpec;
impl vstd::std_specs::cmp::PartialEqSpecImpl for Fp2 {
    open spec fn obeys_eq_spec() -> bool { true }
    closed spec fn eq_spec(&self, other: &Self) -> bool { self.c0@ == other.c0@ && self.c1@ == other.c1@ }
}
//@section code gm-sm9/src/points.rs
#[derive(Copy, Debug, Clone)]
struct TwistPoint {
    x: Fp2,
    y: Fp2,
    z: Fp2,
}

const SM9_U256_MONT_G2: TwistPoint = TwistPoint {
    x: Fp2 {
        c0: [
            0x260226a68ce2da8f,
            0x7ee5645edbf6c06b,
            0xf8f57c82b1495444,
            0x61fcf018bc47c4d1,
        ],
        c1: [
            0xdb6db4822750a8a6,
            0x84c6135a5121f134,
            0x1874032f88791d41,
            0x905112f2b85f3a37,
        ],
    },

    y: Fp2 {
        c0: [
            0xc03f138f9171c24a,
            0x92fbab45a15a3ca7,
            0x2445561e2ff77cdb,
            0x108495e0c0f62ece,
        ],
        c1: [
            0xf7b82dac4c89bfbb,
            0x3706f3f6a49dc12f,
            0x1e29de93d3eef769,
            0x81e448c3c76a5d53,
        ],
    },

    z: Fp2 {
        c0: [
            0x1a9064d81caeba83,
            0xde0d6cb4e5851124,
            0x29fc54b00a7138ba,
            0x49bffffffd5c590e,
        ],
        c1: [0, 0, 0, 0],
    },
};

impl TwistPoint {
    #[verifier::external_body]
    fn zero() -> (r: Self)
        ensures wf2(r), abs2(r) == Pt2::Inf, valid2(r)
    {
        Self {
            x: Fp2::one(),
            y: Fp2::one(),
            z: Fp2::zero(),
        }
    }

    #[verifier::external_body]
    fn point_double(&self) -> (r: Self)
        requires valid2(*self)
        ensures valid2(r), abs2(r) == g2_add(abs2(*self), abs2(*self))
    {
        if self.z.is_zero() {
            return self.clone();
        }

        let x1 = self.x;
        let y1 = self.y;
        let z1 = self.z;

        let mut t2 = x1.fp_sqr().fp_triple();
        let mut y3 = y1.fp_double();
        let mut z3 = y3.fp_mul(&z1);
        y3 = y3.fp_sqr();
        let t3 = y3.fp_mul(&x1);
        y3 = y3.fp_sqr();
        y3 = y3.fp_div2();

        let mut x3 = t2.fp_sqr();
        let mut t1 = t3.fp_double();
        x3 = x3.fp_sub(&t1);
        t1 = t3.fp_sub(&x3);

        t1 = t1.fp_mul(&t2);
        y3 = t1.fp_sub(&y3);

        Self {
            x: x3,
            y: y3,
            z: z3,
        }
    }
}
//@section spec local
use vstd::arithmetic::div_mod::*;
use vstd::arithmetic::mul::*;
// ---------------------------------------------------------------- R = Z[u]/(u^2 + 2): exact arithmetic on pairs of integers (no reduction mod p)
// (opaque: the curve-level lemmas treat them as symbols; only the generated wrappers qr_* and the toolkit unfold them)
#[verifier::opaque]
spec fn q_c(k: int) -> F2 { F2 { c0: k, c1: 0 } }
#[verifier::opaque]
spec fn q_add(a: F2, b: F2) -> F2 { F2 { c0: a.c0 + b.c0, c1: a.c1 + b.c1 } }
#[verifier::opaque]
spec fn q_sub(a: F2, b: F2) -> F2 { F2 { c0: a.c0 - b.c0, c1: a.c1 - b.c1 } }
#[verifier::opaque]
spec fn q_mul(a: F2, b: F2) -> F2 { F2 { c0: a.c0 * b.c0 - 2 * (a.c1 * b.c1), c1: a.c0 * b.c1 + a.c1 * b.c0 } }
#[verifier::opaque]
spec fn q_k(k: int, a: F2) -> F2 { F2 { c0: k * a.c0, c1: k * a.c1 } }
// congruence mod p (both coefficients), and being congruent to 0
spec fn qc(a: F2, b: F2) -> bool { a.c0 % P9() == b.c0 % P9() && a.c1 % P9() == b.c1 % P9() }
spec fn qz(a: F2) -> bool { a.c0 % P9() == 0 && a.c1 % P9() == 0 }
// ---------------------------------------------------------------- integers mod p
proof fn i_diff(a: int, b: int) ensures ((a - b) % P9() == 0) == (a % P9() == b % P9())
{
    f2_pos(); f2_small(0);
    if (a - b) % P9() == 0 { f2_cong_add(a - b, 0, b, b); }
    if a % P9() == b % P9() { f2_cong_add(a, b, b, b); }
}
proof fn i_lin(e: int, k: int) requires e % P9() == 0 ensures (e * k) % P9() == 0, (k * e) % P9() == 0
{ f2_pos(); f2_small(0); f2_cong_mul(e, 0, k); assert(0 * k == 0 && k * 0 == 0); }
// cancelling the factor 2 (p is odd)
proof fn i_cancel2(a: int, b: int) requires (a + a) % P9() == (2 * b) % P9() ensures a % P9() == b % P9()
{
    f2_pos(); f2_small(2);
    i_diff(a + a, 2 * b);
    assert(a + a - 2 * b == 2 * (a - b));
    if (a - b) % P9() != 0 { f2_nz_mul(2, a - b); }
    i_diff(a, b);
}
// ---------------------------------------------------------------- congruence toolkit on pairs
proof fn t2_ok_eq(a: F2, b: F2) requires m2_ok(a), m2_ok(b), qc(a, b) ensures a == b
{ f2_small(a.c0); f2_small(a.c1); f2_small(b.c0); f2_small(b.c1); }
proof fn t2_zero(a: F2) requires m2_ok(a) ensures qz(a) == (a == m2_zero())
{ f2_small(a.c0); f2_small(a.c1); }
// r is (a op b) reduced, the operands are known up to congruence: r == a2 op b2 (mod p)
proof fn t2_cm(r: F2, a: F2, b: F2, a2: F2, b2: F2) requires r == m2_mul(a, b), qc(a, a2), qc(b, b2) ensures qc(r, q_mul(a2, b2)), m2_ok(r)
{
    reveal(q_mul);
    f2_cong_mul(a.c0, a2.c0, b.c0); f2_cong_mul(b.c0, b2.c0, a2.c0);
    f2_cong_mul(a.c1, a2.c1, b.c1); f2_cong_mul(b.c1, b2.c1, a2.c1);
    f2_cong_mul(a.c1 * b.c1, a2.c1 * b2.c1, 2);
    f2_cong_add(a.c0 * b.c0, a2.c0 * b2.c0, 2 * (a.c1 * b.c1), 2 * (a2.c1 * b2.c1));
    f2_modmod(a.c0 * b.c0 - 2 * (a.c1 * b.c1));
    f2_cong_mul(a.c0, a2.c0, b.c1); f2_cong_mul(b.c1, b2.c1, a2.c0);
    f2_cong_mul(a.c1, a2.c1, b.c0); f2_cong_mul(b.c0, b2.c0, a2.c1);
    f2_cong_add(a.c0 * b.c1, a2.c0 * b2.c1, a.c1 * b.c0, a2.c1 * b2.c0);
    f2_modmod(a.c0 * b.c1 + a.c1 * b.c0);
    f2_range(a.c0 * b.c0 - 2 * (a.c1 * b.c1)); f2_range(a.c0 * b.c1 + a.c1 * b.c0);
}
proof fn t2_ca(r: F2, a: F2, b: F2, a2: F2, b2: F2) requires r == m2_add(a, b), qc(a, a2), qc(b, b2) ensures qc(r, q_add(a2, b2)), m2_ok(r)
{
    reveal(q_add);
    f2_cong_add(a.c0, a2.c0, b.c0, b2.c0); f2_cong_add(a.c1, a2.c1, b.c1, b2.c1);
    f2_modmod(a.c0 + b.c0); f2_modmod(a.c1 + b.c1); f2_range(a.c0 + b.c0); f2_range(a.c1 + b.c1);
}
proof fn t2_cs(r: F2, a: F2, b: F2, a2: F2, b2: F2) requires r == m2_sub(a, b), qc(a, a2), qc(b, b2) ensures qc(r, q_sub(a2, b2)), m2_ok(r)
{
    reveal(q_sub);
    f2_cong_add(a.c0, a2.c0, b.c0, b2.c0); f2_cong_add(a.c1, a2.c1, b.c1, b2.c1);
    f2_modmod(a.c0 - b.c0); f2_modmod(a.c1 - b.c1); f2_range(a.c0 - b.c0); f2_range(a.c1 - b.c1);
}
// the code's negation (p - a) % p
proof fn t2_cn(r: F2, a: F2, a2: F2) requires r == m2_neg(a), qc(a, a2) ensures qc(r, q_sub(q_c(0), a2)), m2_ok(r)
{
    reveal(q_sub); reveal(q_c);
    f2_cn(r.c0, a.c0, a2.c0); f2_cn(r.c1, a.c1, a2.c1);
    f2_range(P9() - a.c0); f2_range(P9() - a.c1);
}
// d + d == y and y == 2 h (mod p): d == h (mod p)
proof fn t2_half(d: F2, y: F2, h: F2) requires m2_add(d, d) == y, qc(y, q_k(2, h)) ensures qc(d, h)
{
    reveal(q_k);
    f2_modmod(d.c0 + d.c0); f2_modmod(d.c1 + d.c1);
    i_cancel2(d.c0, h.c0); i_cancel2(d.c1, h.c1);
}
proof fn t2_cong_mul(a: F2, b: F2, c: F2) requires qc(a, b) ensures qc(q_mul(a, c), q_mul(b, c)), qc(q_mul(c, a), q_mul(c, b))
{
    t2_cm(m2_mul(a, c), a, c, a, c); t2_cm(m2_mul(a, c), a, c, b, c);
    t2_cm(m2_mul(c, a), c, a, c, a); t2_cm(m2_mul(c, a), c, a, c, b);
}
proof fn t2_cong_add(a: F2, b: F2, c: F2, d: F2) requires qc(a, b), qc(c, d) ensures qc(q_add(a, c), q_add(b, d)), qc(q_sub(a, c), q_sub(b, d))
{
    t2_ca(m2_add(a, c), a, c, a, c); t2_ca(m2_add(a, c), a, c, b, d);
    t2_cs(m2_sub(a, c), a, c, a, c); t2_cs(m2_sub(a, c), a, c, b, d);
}
// a == b (mod p)  <==>  a - b == 0 (mod p)
proof fn t2_diff(a: F2, b: F2) ensures qz(q_sub(a, b)) == qc(a, b)
{ reveal(q_sub); i_diff(a.c0, b.c0); i_diff(a.c1, b.c1); }
// combinations of things that vanish mod p vanish mod p
proof fn t2_lin1(e: F2, k: F2) requires qz(e) ensures qz(q_mul(e, k))
{
    reveal(q_mul);
    f2_pos(); f2_small(0);
    i_lin(e.c0, k.c0); i_lin(e.c1, k.c1); i_lin(e.c1 * k.c1, 2); i_lin(e.c0, k.c1); i_lin(e.c1, k.c0);
    f2_cong_add(e.c0 * k.c0, 0, 2 * (e.c1 * k.c1), 0);
    f2_cong_add(e.c0 * k.c1, 0, e.c1 * k.c0, 0);
}
proof fn t2_lin2(e1: F2, k1: F2, e2: F2, k2: F2) requires qz(e1), qz(e2)
    ensures qz(q_add(q_mul(e1, k1), q_mul(e2, k2))), qz(q_sub(q_mul(e1, k1), q_mul(e2, k2)))
{
    t2_lin1(e1, k1); t2_lin1(e2, k2);
    reveal(q_add); reveal(q_sub);
    f2_pos(); f2_small(0);
    let u = q_mul(e1, k1); let v = q_mul(e2, k2);
    f2_cong_add(u.c0, 0, v.c0, 0); f2_cong_add(u.c1, 0, v.c1, 0);
}
// multiplying by something == 1 (mod p)
proof fn t2_unit(x: F2, u: F2) requires qc(u, q_c(1)) ensures qc(q_mul(x, u), x)
{
    t2_cong_mul(u, q_c(1), x);
    reveal(q_mul); reveal(q_c);
    assert(x.c0 * 1 - 2 * (x.c1 * 0) == x.c0 && x.c0 * 0 + x.c1 * 1 == x.c1);
}
// q + q vanishes exactly when q does (p is odd)
proof fn t2_dbl_z(a: F2) ensures qz(q_add(a, a)) == qz(a)
{
    reveal(q_add);
    f2_pos(); f2_small(0);
    if qz(a) { f2_cong_add(a.c0, 0, a.c0, 0); f2_cong_add(a.c1, 0, a.c1, 0); }
    if qz(q_add(a, a)) { assert(2 * 0 == 0); i_cancel2(a.c0, 0); i_cancel2(a.c1, 0); }
}
// ---------------------------------------------------------------- Fp2 is a field: u^2 + 2 is irreducible mod p (-2 is not a square)
// square-and-multiply exponentiation (evaluated by the interpreter on the 256-bit exponents below), equal to pow_mod
spec fn pow_sm(x: int, e: int, m: int) -> int decreases e
{
    if e <= 0 { 1int % m } else { let h = pow_sm(x, e / 2, m); let s = (h * h) % m; if e % 2 == 1 { (s * x) % m } else { s } }
}
proof fn pw_range(x: int, e: nat) ensures 0 <= pow_mod(x, e, P9()) < P9(), pow_mod(x, e, P9()) % P9() == pow_mod(x, e, P9())
{
    f2_pos();
    if e == 0 { f2_range(1); } else { f2_range(pow_mod(x, (e - 1) as nat, P9()) * x); }
    f2_small(pow_mod(x, e, P9()));
}
proof fn pw_add(x: int, a: nat, b: nat) ensures pow_mod(x, a + b, P9()) == (pow_mod(x, a, P9()) * pow_mod(x, b, P9())) % P9() decreases b
{
    f2_pos();
    let p = P9(); let pa = pow_mod(x, a, p);
    pw_range(x, a);
    if b == 0 {
        f2_small(1);
        assert(pa * 1 == pa);
    } else {
        let b1 = (b - 1) as nat; let pb1 = pow_mod(x, b1, p);
        pw_add(x, a, b1);
        assert(pow_mod(x, a + b, p) == (pow_mod(x, (a + b1) as nat, p) * x) % p);
        f2_modmod(pa * pb1);
        f2_cong_mul((pa * pb1) % p, pa * pb1, x);
        f2_modmod(pb1 * x);
        f2_cong_mul((pb1 * x) % p, pb1 * x, pa);
        assert((pa * pb1) * x == pa * (pb1 * x)) by(nonlinear_arith);
    }
}
proof fn pw_sm(x: int, e: int) requires e >= 0 ensures pow_sm(x, e, P9()) == pow_mod(x, e as nat, P9()) decreases e
{
    if e > 0 {
        let h = e / 2;
        pw_sm(x, h);
        pw_add(x, h as nat, h as nat);
        if e % 2 == 1 { assert(e == 2 * h + 1); assert(pow_mod(x, e as nat, P9()) == (pow_mod(x, (2 * h) as nat, P9()) * x) % P9()); } else { assert(e == 2 * h); }
    }
}
// x^(k e) == (x^k)^e
proof fn pw_pow(x: int, k: nat, e: nat) ensures pow_mod(x, k * e, P9()) == pow_mod(pow_mod(x, k, P9()), e, P9()) decreases e
{
    if e == 0 { assert(k * 0 == 0); } else {
        let e1 = (e - 1) as nat;
        pw_pow(x, k, e1);
        assert(k * e == k * e1 + k) by(nonlinear_arith) requires e == e1 + 1;
        pw_add(x, k * e1, k);
    }
}
// Fermat (through ax9_inv_p)
proof fn pw_fermat(w: int) requires w % P9() != 0 ensures pow_mod(w, (P9() - 1) as nat, P9()) == 1
{
    f2_pos();
    ax9_inv_p(w);
    assert(pow_mod(w, (P9() - 1) as nat, P9()) == (pow_mod(w, (P9() - 2) as nat, P9()) * w) % P9());
    assert(inv_p9(w) * w == w * inv_p9(w)) by(nonlinear_arith);
}
proof fn pw_two(w: int) ensures pow_mod(w, 2, P9()) == (w * w) % P9(), pow_mod(w, 3, P9()) == (w * w * w) % P9()
{
    let p = P9();
    f2_pos(); f2_small(1);
    assert(pow_mod(w, 0, p) == 1);
    assert(pow_mod(w, 1, p) == (pow_mod(w, 0, p) * w) % p);
    assert(1 * w == w);
    assert(pow_mod(w, 2, p) == (pow_mod(w, 1, p) * w) % p);
    f2_modmod(w);
    f2_cong_mul(w % p, w, w);
    assert(pow_mod(w, 3, p) == (pow_mod(w, 2, p) * w) % p);
    f2_modmod(w * w);
    f2_cong_mul((w * w) % p, w * w, w);
}
// no square root of -2 mod p: (-2)^((p-1)/2) == -1
proof fn fp_nonres(w: int) requires (w * w + 2) % P9() == 0 ensures false
{
    let p = P9(); let e = (p - 1) / 2;
    f2_pos(); f2_small(0); f2_small(2);
    if w % p == 0 { i_lin(w, w); f2_cong_add(w * w, 0, 2, 2); }
    pw_fermat(w);
    assert(P9() % 2 == 1) by(compute);
    assert(2 * e == p - 1);
    pw_pow(w, 2, e as nat);
    pw_two(w);
    // w^2 == -2 == p - 2
    i_diff(w * w, 0 - 2);
    f2_shift(0 - 2, 1);
    f2_modmod(w * w);
    f2_pow_cong(pow_mod(w, 2, p), p - 2, e as nat);
    pw_sm(p - 2, e);
    assert(pow_sm(P9() - 2, (P9() - 1) / 2, P9()) == P9() - 1) by(compute);
}
// the norm a0^2 + 2 a1^2 vanishes mod p only for a == 0
proof fn t2_norm_nz(a: F2) requires (a.c0 * a.c0 + 2 * (a.c1 * a.c1)) % P9() == 0 ensures qz(a)
{
    let p = P9(); let a0 = a.c0; let a1 = a.c1; let n = a0 * a0 + 2 * (a1 * a1);
    f2_pos(); f2_small(0); f2_small(1); f2_small(2);
    if a1 % p != 0 {
        ax9_inv_p(a1);
        let i = inv_p9(a1); let w = a0 * i; let u = a1 * i;
        assert(n * (i * i) == w * w + 2 * (u * u)) by(nonlinear_arith) requires n == a0 * a0 + 2 * (a1 * a1), w == a0 * i, u == a1 * i;
        i_lin(n, i * i);
        f2_cong_mul(u, 1, u);
        assert(1 * u == u);
        f2_cong_mul(u * u, 1, 2);
        f2_cong_add(w * w, w * w, 2 * (u * u), 2int);
        fp_nonres(w);
    }
    i_lin(a1, a1); i_lin(a1 * a1, 2);
    f2_cong_add(a0 * a0, a0 * a0, 2 * (a1 * a1), 0);
    if a0 % p != 0 { f2_nz_mul(a0, a0); }
}
// m2_inv is the inverse of everything that is not 0
proof fn t2_inv(a: F2) requires !qz(a) ensures qc(q_mul(a, m2_inv(a)), q_c(1)), m2_ok(m2_inv(a))
{
    reveal(q_mul); reveal(q_c);
    f2_pos(); f2_small(1); f2_small(0);
    let v = seq![a.c0, a.c1];
    assert(v[0] == a.c0 && v[1] == a.c1);
    if f2_norm(v) % P9() == 0 { t2_norm_nz(a); }
    f2_lemma_inv(v);
    let i = f2_inv(v); let j = m2_inv(a);
    assert(i[0] == j.c0 && i[1] == j.c1);
    assert(f2_mul(v, i)[0] == f2_one()[0] && f2_mul(v, i)[1] == f2_one()[1]);
    f2_range(a.c0 * inv_p9(f2_norm(v))); f2_range((P9() - a.c1) * inv_p9(f2_norm(v)));
}
// no zero divisors
proof fn t2_nz_mul(a: F2, b: F2) requires !qz(a), !qz(b) ensures !qz(q_mul(a, b))
{
    if qz(q_mul(a, b)) {
        let ai = m2_inv(a);
        t2_inv(a);
        t2_lin1(q_mul(a, b), ai);
        qr_assoc(a, b, ai);
        t2_unit(b, q_mul(a, ai));
    }
}
// ---------------------------------------------------------------- the twist has no point of order two: 50 = Norm(-5u) is not a cube mod p
#[verifier::external_body]
proof fn ring_norm_mul(a0: int, a1: int, b0: int, b1: int)
    ensures (a0 * b0 - 2 * (a1 * b1)) * (a0 * b0 - 2 * (a1 * b1)) + 2 * ((a0 * b1 + a1 * b0) * (a0 * b1 + a1 * b0))
        == (a0 * a0 + 2 * (a1 * a1)) * (b0 * b0 + 2 * (b1 * b1))
{ }
spec fn q_norm(a: F2) -> int { a.c0 * a.c0 + 2 * (a.c1 * a.c1) }
proof fn t2_norm_cong(a: F2, b: F2) requires qc(a, b) ensures q_norm(a) % P9() == q_norm(b) % P9()
{
    f2_cong_mul(a.c0, b.c0, a.c0); f2_cong_mul(a.c0, b.c0, b.c0);
    f2_cong_mul(a.c1, b.c1, a.c1); f2_cong_mul(a.c1, b.c1, b.c1);
    f2_cong_mul(a.c1 * a.c1, b.c1 * b.c1, 2);
    f2_cong_add(a.c0 * a.c0, b.c0 * b.c0, 2 * (a.c1 * a.c1), 2 * (b.c1 * b.c1));
}
proof fn fp_50_noncube(n: int) requires (n * n * n) % P9() == 50 ensures false
{
    let p = P9(); let e = (p - 1) / 3;
    f2_pos(); f2_small(0);
    if n % p == 0 { i_lin(n, n * n); assert(n * (n * n) == n * n * n) by(nonlinear_arith); }
    pw_fermat(n);
    assert(P9() % 3 == 1) by(compute);
    assert(3 * e == p - 1);
    pw_pow(n, 3, e as nat);
    pw_two(n);
    assert(50int % P9() == 50) by(compute);
    f2_modmod(n * n * n);
    f2_pow_cong(pow_mod(n, 3, p), 50, e as nat);
    pw_sm(50, e);
    assert(pow_sm(50, (P9() - 1) / 3, P9()) != 1) by(compute);
}
proof fn g2_y_nz(x: F2, y: F2) requires on_curve2(Pt2::Aff { x: x, y: y }) ensures y != m2_zero()
{
    if y == m2_zero() {
        reveal(q_mul);
        let p = P9();
        f2_pos(); f2_small(0);
        assert(0 * 0 - 2 * (0 * 0) == 0 && 0 * 0 + 0 * 0 == 0);
        assert(m2_mul(y, y) == m2_zero());
        let xx = m2_mul(x, x); let c = m2_mul(xx, x);
        t2_cm(xx, x, x, x, x); t2_cm(c, xx, x, q_mul(x, x), x);
        let x3 = q_mul(q_mul(x, x), x);
        // c == -5u
        f2_small(c.c0); f2_small(c.c1);
        assert(c.c0 == 0);
        assert((c.c1 + 5) % p == 0);
        t2_norm_cong(x3, c);
        // Norm(c) == 50
        i_diff(c.c1, 0 - 5);
        f2_cong_mul(c.c1, 0 - 5, c.c1); f2_cong_mul(c.c1, 0 - 5, 0 - 5);
        f2_cong_mul(c.c1 * c.c1, (0 - 5) * (0 - 5), 2);
        assert(2 * ((0 - 5) * (0 - 5)) == 50);
        assert(c.c0 * c.c0 == 0);
        assert(50int % P9() == 50) by(compute);
        // Norm(x^3) == Norm(x)^3
        let n = q_norm(x); let x2 = q_mul(x, x);
        ring_norm_mul(x.c0, x.c1, x.c0, x.c1);
        ring_norm_mul(x2.c0, x2.c1, x.c0, x.c1);
        assert(q_norm(x3) == n * n * n);
        fp_50_noncube(n);
    }
}
// BEGIN GENERATED by tools/gen_sm9_g2.py (polynomial identities over Z[u]/(u^2+2): wrappers + ring axioms; programs: rel + chain)
// x / z^2 = xa gives back x = xa z^2
proof fn qr_par2(xa: F2, x: F2, z: F2, zi: F2)
    ensures q_sub(q_mul(q_mul(xa, z), z), x)
        == q_add(q_mul(q_sub(xa, q_mul(q_mul(x, zi), zi)), q_mul(z, z)), q_mul(q_sub(q_mul(z, zi), q_c(1)), q_mul(x, q_add(q_mul(z, zi), q_c(1)))))
{
    reveal(q_add); reveal(q_sub); reveal(q_mul); reveal(q_k); reveal(q_c);
    ring_par2_0(xa.c0, xa.c1, x.c0, x.c1, z.c0, z.c1, zi.c0, zi.c1); ring_par2_1(xa.c0, xa.c1, x.c0, x.c1, z.c0, z.c1, zi.c0, zi.c1);
}
#[verifier::external_body]
proof fn ring_par2_0(xa0: int, xa1: int, x0: int, x1: int, z0: int, z1: int, zi0: int, zi1: int)
    ensures (((xa0) * (z0) - 2 * ((xa1) * (z1))) * (z0) - 2 * (((xa0) * (z1) + (xa1) * (z0)) * (z1))) - (x0)
        == (((xa0) - (((x0) * (zi0) - 2 * ((x1) * (zi1))) * (zi0) - 2 * (((x0) * (zi1) + (x1) * (zi0)) * (zi1)))) * ((z0) * (z0) - 2 * ((z1) * (z1))) - 2 * (((xa1) - (((x0) * (zi0) - 2 * ((x1) * (zi1))) * (zi1) + ((x0) * (zi1) + (x1) * (zi0)) * (zi0))) * ((z0) * (z1) + (z1) * (z0)))) + ((((z0) * (zi0) - 2 * ((z1) * (zi1))) - (1)) * ((x0) * (((z0) * (zi0) - 2 * ((z1) * (zi1))) + (1)) - 2 * ((x1) * (((z0) * (zi1) + (z1) * (zi0)) + (0)))) - 2 * ((((z0) * (zi1) + (z1) * (zi0)) - (0)) * ((x0) * (((z0) * (zi1) + (z1) * (zi0)) + (0)) + (x1) * (((z0) * (zi0) - 2 * ((z1) * (zi1))) + (1)))))
{ }
#[verifier::external_body]
proof fn ring_par2_1(xa0: int, xa1: int, x0: int, x1: int, z0: int, z1: int, zi0: int, zi1: int)
    ensures (((xa0) * (z0) - 2 * ((xa1) * (z1))) * (z1) + ((xa0) * (z1) + (xa1) * (z0)) * (z0)) - (x1)
        == (((xa0) - (((x0) * (zi0) - 2 * ((x1) * (zi1))) * (zi0) - 2 * (((x0) * (zi1) + (x1) * (zi0)) * (zi1)))) * ((z0) * (z1) + (z1) * (z0)) + ((xa1) - (((x0) * (zi0) - 2 * ((x1) * (zi1))) * (zi1) + ((x0) * (zi1) + (x1) * (zi0)) * (zi0))) * ((z0) * (z0) - 2 * ((z1) * (z1)))) + ((((z0) * (zi0) - 2 * ((z1) * (zi1))) - (1)) * ((x0) * (((z0) * (zi1) + (z1) * (zi0)) + (0)) + (x1) * (((z0) * (zi0) - 2 * ((z1) * (zi1))) + (1))) + (((z0) * (zi1) + (z1) * (zi0)) - (0)) * ((x0) * (((z0) * (zi0) - 2 * ((z1) * (zi1))) + (1)) - 2 * ((x1) * (((z0) * (zi1) + (z1) * (zi0)) + (0)))))
{ }
proof fn qr_par3(ya: F2, y: F2, z: F2, zi: F2)
    ensures q_sub(q_mul(q_mul(q_mul(ya, z), z), z), y)
        == q_add(q_mul(q_sub(ya, q_mul(q_mul(q_mul(y, zi), zi), zi)), q_mul(q_mul(z, z), z)), q_mul(q_sub(q_mul(z, zi), q_c(1)), q_mul(y, q_add(q_add(q_mul(q_mul(z, zi), q_mul(z, zi)), q_mul(z, zi)), q_c(1)))))
{
    reveal(q_add); reveal(q_sub); reveal(q_mul); reveal(q_k); reveal(q_c);
    ring_par3_0(ya.c0, ya.c1, y.c0, y.c1, z.c0, z.c1, zi.c0, zi.c1); ring_par3_1(ya.c0, ya.c1, y.c0, y.c1, z.c0, z.c1, zi.c0, zi.c1);
}
#[verifier::external_body]
proof fn ring_par3_0(ya0: int, ya1: int, y0: int, y1: int, z0: int, z1: int, zi0: int, zi1: int)
    ensures ((((ya0) * (z0) - 2 * ((ya1) * (z1))) * (z0) - 2 * (((ya0) * (z1) + (ya1) * (z0)) * (z1))) * (z0) - 2 * ((((ya0) * (z0) - 2 * ((ya1) * (z1))) * (z1) + ((ya0) * (z1) + (ya1) * (z0)) * (z0)) * (z1))) - (y0)
        == (((ya0) - ((((y0) * (zi0) - 2 * ((y1) * (zi1))) * (zi0) - 2 * (((y0) * (zi1) + (y1) * (zi0)) * (zi1))) * (zi0) - 2 * ((((y0) * (zi0) - 2 * ((y1) * (zi1))) * (zi1) + ((y0) * (zi1) + (y1) * (zi0)) * (zi0)) * (zi1)))) * (((z0) * (z0) - 2 * ((z1) * (z1))) * (z0) - 2 * (((z0) * (z1) + (z1) * (z0)) * (z1))) - 2 * (((ya1) - ((((y0) * (zi0) - 2 * ((y1) * (zi1))) * (zi0) - 2 * (((y0) * (zi1) + (y1) * (zi0)) * (zi1))) * (zi1) + (((y0) * (zi0) - 2 * ((y1) * (zi1))) * (zi1) + ((y0) * (zi1) + (y1) * (zi0)) * (zi0)) * (zi0))) * (((z0) * (z0) - 2 * ((z1) * (z1))) * (z1) + ((z0) * (z1) + (z1) * (z0)) * (z0)))) + ((((z0) * (zi0) - 2 * ((z1) * (zi1))) - (1)) * ((y0) * (((((z0) * (zi0) - 2 * ((z1) * (zi1))) * ((z0) * (zi0) - 2 * ((z1) * (zi1))) - 2 * (((z0) * (zi1) + (z1) * (zi0)) * ((z0) * (zi1) + (z1) * (zi0)))) + ((z0) * (zi0) - 2 * ((z1) * (zi1)))) + (1)) - 2 * ((y1) * (((((z0) * (zi0) - 2 * ((z1) * (zi1))) * ((z0) * (zi1) + (z1) * (zi0)) + ((z0) * (zi1) + (z1) * (zi0)) * ((z0) * (zi0) - 2 * ((z1) * (zi1)))) + ((z0) * (zi1) + (z1) * (zi0))) + (0)))) - 2 * ((((z0) * (zi1) + (z1) * (zi0)) - (0)) * ((y0) * (((((z0) * (zi0) - 2 * ((z1) * (zi1))) * ((z0) * (zi1) + (z1) * (zi0)) + ((z0) * (zi1) + (z1) * (zi0)) * ((z0) * (zi0) - 2 * ((z1) * (zi1)))) + ((z0) * (zi1) + (z1) * (zi0))) + (0)) + (y1) * (((((z0) * (zi0) - 2 * ((z1) * (zi1))) * ((z0) * (zi0) - 2 * ((z1) * (zi1))) - 2 * (((z0) * (zi1) + (z1) * (zi0)) * ((z0) * (zi1) + (z1) * (zi0)))) + ((z0) * (zi0) - 2 * ((z1) * (zi1)))) + (1)))))
{ }
#[verifier::external_body]
proof fn ring_par3_1(ya0: int, ya1: int, y0: int, y1: int, z0: int, z1: int, zi0: int, zi1: int)
    ensures ((((ya0) * (z0) - 2 * ((ya1) * (z1))) * (z0) - 2 * (((ya0) * (z1) + (ya1) * (z0)) * (z1))) * (z1) + (((ya0) * (z0) - 2 * ((ya1) * (z1))) * (z1) + ((ya0) * (z1) + (ya1) * (z0)) * (z0)) * (z0)) - (y1)
        == (((ya0) - ((((y0) * (zi0) - 2 * ((y1) * (zi1))) * (zi0) - 2 * (((y0) * (zi1) + (y1) * (zi0)) * (zi1))) * (zi0) - 2 * ((((y0) * (zi0) - 2 * ((y1) * (zi1))) * (zi1) + ((y0) * (zi1) + (y1) * (zi0)) * (zi0)) * (zi1)))) * (((z0) * (z0) - 2 * ((z1) * (z1))) * (z1) + ((z0) * (z1) + (z1) * (z0)) * (z0)) + ((ya1) - ((((y0) * (zi0) - 2 * ((y1) * (zi1))) * (zi0) - 2 * (((y0) * (zi1) + (y1) * (zi0)) * (zi1))) * (zi1) + (((y0) * (zi0) - 2 * ((y1) * (zi1))) * (zi1) + ((y0) * (zi1) + (y1) * (zi0)) * (zi0)) * (zi0))) * (((z0) * (z0) - 2 * ((z1) * (z1))) * (z0) - 2 * (((z0) * (z1) + (z1) * (z0)) * (z1)))) + ((((z0) * (zi0) - 2 * ((z1) * (zi1))) - (1)) * ((y0) * (((((z0) * (zi0) - 2 * ((z1) * (zi1))) * ((z0) * (zi1) + (z1) * (zi0)) + ((z0) * (zi1) + (z1) * (zi0)) * ((z0) * (zi0) - 2 * ((z1) * (zi1)))) + ((z0) * (zi1) + (z1) * (zi0))) + (0)) + (y1) * (((((z0) * (zi0) - 2 * ((z1) * (zi1))) * ((z0) * (zi0) - 2 * ((z1) * (zi1))) - 2 * (((z0) * (zi1) + (z1) * (zi0)) * ((z0) * (zi1) + (z1) * (zi0)))) + ((z0) * (zi0) - 2 * ((z1) * (zi1)))) + (1))) + (((z0) * (zi1) + (z1) * (zi0)) - (0)) * ((y0) * (((((z0) * (zi0) - 2 * ((z1) * (zi1))) * ((z0) * (zi0) - 2 * ((z1) * (zi1))) - 2 * (((z0) * (zi1) + (z1) * (zi0)) * ((z0) * (zi1) + (z1) * (zi0)))) + ((z0) * (zi0) - 2 * ((z1) * (zi1)))) + (1)) - 2 * ((y1) * (((((z0) * (zi0) - 2 * ((z1) * (zi1))) * ((z0) * (zi1) + (z1) * (zi0)) + ((z0) * (zi1) + (z1) * (zi0)) * ((z0) * (zi0) - 2 * ((z1) * (zi1)))) + ((z0) * (zi1) + (z1) * (zi0))) + (0)))))
{ }
// a = b z^2 gives a / z^2 = b
proof fn qr_div2(a: F2, b: F2, z: F2, w: F2)
    ensures q_sub(q_mul(q_mul(a, w), w), b)
        == q_add(q_mul(q_sub(a, q_mul(b, q_mul(z, z))), q_mul(w, w)), q_mul(q_sub(q_mul(z, w), q_c(1)), q_mul(b, q_add(q_mul(z, w), q_c(1)))))
{
    reveal(q_add); reveal(q_sub); reveal(q_mul); reveal(q_k); reveal(q_c);
    ring_div2_0(a.c0, a.c1, b.c0, b.c1, z.c0, z.c1, w.c0, w.c1); ring_div2_1(a.c0, a.c1, b.c0, b.c1, z.c0, z.c1, w.c0, w.c1);
}
#[verifier::external_body]
proof fn ring_div2_0(a0: int, a1: int, b0: int, b1: int, z0: int, z1: int, w0: int, w1: int)
    ensures (((a0) * (w0) - 2 * ((a1) * (w1))) * (w0) - 2 * (((a0) * (w1) + (a1) * (w0)) * (w1))) - (b0)
        == (((a0) - ((b0) * ((z0) * (z0) - 2 * ((z1) * (z1))) - 2 * ((b1) * ((z0) * (z1) + (z1) * (z0))))) * ((w0) * (w0) - 2 * ((w1) * (w1))) - 2 * (((a1) - ((b0) * ((z0) * (z1) + (z1) * (z0)) + (b1) * ((z0) * (z0) - 2 * ((z1) * (z1))))) * ((w0) * (w1) + (w1) * (w0)))) + ((((z0) * (w0) - 2 * ((z1) * (w1))) - (1)) * ((b0) * (((z0) * (w0) - 2 * ((z1) * (w1))) + (1)) - 2 * ((b1) * (((z0) * (w1) + (z1) * (w0)) + (0)))) - 2 * ((((z0) * (w1) + (z1) * (w0)) - (0)) * ((b0) * (((z0) * (w1) + (z1) * (w0)) + (0)) + (b1) * (((z0) * (w0) - 2 * ((z1) * (w1))) + (1)))))
{ }
#[verifier::external_body]
proof fn ring_div2_1(a0: int, a1: int, b0: int, b1: int, z0: int, z1: int, w0: int, w1: int)
    ensures (((a0) * (w0) - 2 * ((a1) * (w1))) * (w1) + ((a0) * (w1) + (a1) * (w0)) * (w0)) - (b1)
        == (((a0) - ((b0) * ((z0) * (z0) - 2 * ((z1) * (z1))) - 2 * ((b1) * ((z0) * (z1) + (z1) * (z0))))) * ((w0) * (w1) + (w1) * (w0)) + ((a1) - ((b0) * ((z0) * (z1) + (z1) * (z0)) + (b1) * ((z0) * (z0) - 2 * ((z1) * (z1))))) * ((w0) * (w0) - 2 * ((w1) * (w1)))) + ((((z0) * (w0) - 2 * ((z1) * (w1))) - (1)) * ((b0) * (((z0) * (w1) + (z1) * (w0)) + (0)) + (b1) * (((z0) * (w0) - 2 * ((z1) * (w1))) + (1))) + (((z0) * (w1) + (z1) * (w0)) - (0)) * ((b0) * (((z0) * (w0) - 2 * ((z1) * (w1))) + (1)) - 2 * ((b1) * (((z0) * (w1) + (z1) * (w0)) + (0)))))
{ }
proof fn qr_div3(a: F2, b: F2, z: F2, w: F2)
    ensures q_sub(q_mul(q_mul(q_mul(a, w), w), w), b)
        == q_add(q_mul(q_sub(a, q_mul(b, q_mul(q_mul(z, z), z))), q_mul(q_mul(w, w), w)), q_mul(q_sub(q_mul(z, w), q_c(1)), q_mul(b, q_add(q_add(q_mul(q_mul(z, w), q_mul(z, w)), q_mul(z, w)), q_c(1)))))
{
    reveal(q_add); reveal(q_sub); reveal(q_mul); reveal(q_k); reveal(q_c);
    ring_div3_0(a.c0, a.c1, b.c0, b.c1, z.c0, z.c1, w.c0, w.c1); ring_div3_1(a.c0, a.c1, b.c0, b.c1, z.c0, z.c1, w.c0, w.c1);
}
#[verifier::external_body]
proof fn ring_div3_0(a0: int, a1: int, b0: int, b1: int, z0: int, z1: int, w0: int, w1: int)
    ensures ((((a0) * (w0) - 2 * ((a1) * (w1))) * (w0) - 2 * (((a0) * (w1) + (a1) * (w0)) * (w1))) * (w0) - 2 * ((((a0) * (w0) - 2 * ((a1) * (w1))) * (w1) + ((a0) * (w1) + (a1) * (w0)) * (w0)) * (w1))) - (b0)
        == (((a0) - ((b0) * (((z0) * (z0) - 2 * ((z1) * (z1))) * (z0) - 2 * (((z0) * (z1) + (z1) * (z0)) * (z1))) - 2 * ((b1) * (((z0) * (z0) - 2 * ((z1) * (z1))) * (z1) + ((z0) * (z1) + (z1) * (z0)) * (z0))))) * (((w0) * (w0) - 2 * ((w1) * (w1))) * (w0) - 2 * (((w0) * (w1) + (w1) * (w0)) * (w1))) - 2 * (((a1) - ((b0) * (((z0) * (z0) - 2 * ((z1) * (z1))) * (z1) + ((z0) * (z1) + (z1) * (z0)) * (z0)) + (b1) * (((z0) * (z0) - 2 * ((z1) * (z1))) * (z0) - 2 * (((z0) * (z1) + (z1) * (z0)) * (z1))))) * (((w0) * (w0) - 2 * ((w1) * (w1))) * (w1) + ((w0) * (w1) + (w1) * (w0)) * (w0)))) + ((((z0) * (w0) - 2 * ((z1) * (w1))) - (1)) * ((b0) * (((((z0) * (w0) - 2 * ((z1) * (w1))) * ((z0) * (w0) - 2 * ((z1) * (w1))) - 2 * (((z0) * (w1) + (z1) * (w0)) * ((z0) * (w1) + (z1) * (w0)))) + ((z0) * (w0) - 2 * ((z1) * (w1)))) + (1)) - 2 * ((b1) * (((((z0) * (w0) - 2 * ((z1) * (w1))) * ((z0) * (w1) + (z1) * (w0)) + ((z0) * (w1) + (z1) * (w0)) * ((z0) * (w0) - 2 * ((z1) * (w1)))) + ((z0) * (w1) + (z1) * (w0))) + (0)))) - 2 * ((((z0) * (w1) + (z1) * (w0)) - (0)) * ((b0) * (((((z0) * (w0) - 2 * ((z1) * (w1))) * ((z0) * (w1) + (z1) * (w0)) + ((z0) * (w1) + (z1) * (w0)) * ((z0) * (w0) - 2 * ((z1) * (w1)))) + ((z0) * (w1) + (z1) * (w0))) + (0)) + (b1) * (((((z0) * (w0) - 2 * ((z1) * (w1))) * ((z0) * (w0) - 2 * ((z1) * (w1))) - 2 * (((z0) * (w1) + (z1) * (w0)) * ((z0) * (w1) + (z1) * (w0)))) + ((z0) * (w0) - 2 * ((z1) * (w1)))) + (1)))))
{ }
#[verifier::external_body]
proof fn ring_div3_1(a0: int, a1: int, b0: int, b1: int, z0: int, z1: int, w0: int, w1: int)
    ensures ((((a0) * (w0) - 2 * ((a1) * (w1))) * (w0) - 2 * (((a0) * (w1) + (a1) * (w0)) * (w1))) * (w1) + (((a0) * (w0) - 2 * ((a1) * (w1))) * (w1) + ((a0) * (w1) + (a1) * (w0)) * (w0)) * (w0)) - (b1)
        == (((a0) - ((b0) * (((z0) * (z0) - 2 * ((z1) * (z1))) * (z0) - 2 * (((z0) * (z1) + (z1) * (z0)) * (z1))) - 2 * ((b1) * (((z0) * (z0) - 2 * ((z1) * (z1))) * (z1) + ((z0) * (z1) + (z1) * (z0)) * (z0))))) * (((w0) * (w0) - 2 * ((w1) * (w1))) * (w1) + ((w0) * (w1) + (w1) * (w0)) * (w0)) + ((a1) - ((b0) * (((z0) * (z0) - 2 * ((z1) * (z1))) * (z1) + ((z0) * (z1) + (z1) * (z0)) * (z0)) + (b1) * (((z0) * (z0) - 2 * ((z1) * (z1))) * (z0) - 2 * (((z0) * (z1) + (z1) * (z0)) * (z1))))) * (((w0) * (w0) - 2 * ((w1) * (w1))) * (w0) - 2 * (((w0) * (w1) + (w1) * (w0)) * (w1)))) + ((((z0) * (w0) - 2 * ((z1) * (w1))) - (1)) * ((b0) * (((((z0) * (w0) - 2 * ((z1) * (w1))) * ((z0) * (w1) + (z1) * (w0)) + ((z0) * (w1) + (z1) * (w0)) * ((z0) * (w0) - 2 * ((z1) * (w1)))) + ((z0) * (w1) + (z1) * (w0))) + (0)) + (b1) * (((((z0) * (w0) - 2 * ((z1) * (w1))) * ((z0) * (w0) - 2 * ((z1) * (w1))) - 2 * (((z0) * (w1) + (z1) * (w0)) * ((z0) * (w1) + (z1) * (w0)))) + ((z0) * (w0) - 2 * ((z1) * (w1)))) + (1))) + (((z0) * (w1) + (z1) * (w0)) - (0)) * ((b0) * (((((z0) * (w0) - 2 * ((z1) * (w1))) * ((z0) * (w0) - 2 * ((z1) * (w1))) - 2 * (((z0) * (w1) + (z1) * (w0)) * ((z0) * (w1) + (z1) * (w0)))) + ((z0) * (w0) - 2 * ((z1) * (w1)))) + (1)) - 2 * ((b1) * (((((z0) * (w0) - 2 * ((z1) * (w1))) * ((z0) * (w1) + (z1) * (w0)) + ((z0) * (w1) + (z1) * (w0)) * ((z0) * (w0) - 2 * ((z1) * (w1)))) + ((z0) * (w1) + (z1) * (w0))) + (0)))))
{ }
proof fn qr_sqdiff(a: F2, b: F2)
    ensures q_mul(q_sub(a, b), q_add(a, b))
        == q_sub(q_mul(a, a), q_mul(b, b))
{
    reveal(q_add); reveal(q_sub); reveal(q_mul); reveal(q_k); reveal(q_c);
    ring_sqdiff_0(a.c0, a.c1, b.c0, b.c1); ring_sqdiff_1(a.c0, a.c1, b.c0, b.c1);
}
#[verifier::external_body]
proof fn ring_sqdiff_0(a0: int, a1: int, b0: int, b1: int)
    ensures ((a0) - (b0)) * ((a0) + (b0)) - 2 * (((a1) - (b1)) * ((a1) + (b1)))
        == ((a0) * (a0) - 2 * ((a1) * (a1))) - ((b0) * (b0) - 2 * ((b1) * (b1)))
{ }
#[verifier::external_body]
proof fn ring_sqdiff_1(a0: int, a1: int, b0: int, b1: int)
    ensures ((a0) - (b0)) * ((a1) + (b1)) + ((a1) - (b1)) * ((a0) + (b0))
        == ((a0) * (a1) + (a1) * (a0)) - ((b0) * (b1) + (b1) * (b0))
{ }
// (a b) c = b (a c)
proof fn qr_assoc(a: F2, b: F2, c: F2)
    ensures q_mul(q_mul(a, b), c)
        == q_mul(b, q_mul(a, c))
{
    reveal(q_add); reveal(q_sub); reveal(q_mul); reveal(q_k); reveal(q_c);
    ring_assoc_0(a.c0, a.c1, b.c0, b.c1, c.c0, c.c1); ring_assoc_1(a.c0, a.c1, b.c0, b.c1, c.c0, c.c1);
}
#[verifier::external_body]
proof fn ring_assoc_0(a0: int, a1: int, b0: int, b1: int, c0: int, c1: int)
    ensures ((a0) * (b0) - 2 * ((a1) * (b1))) * (c0) - 2 * (((a0) * (b1) + (a1) * (b0)) * (c1))
        == (b0) * ((a0) * (c0) - 2 * ((a1) * (c1))) - 2 * ((b1) * ((a0) * (c1) + (a1) * (c0)))
{ }
#[verifier::external_body]
proof fn ring_assoc_1(a0: int, a1: int, b0: int, b1: int, c0: int, c1: int)
    ensures ((a0) * (b0) - 2 * ((a1) * (b1))) * (c1) + ((a0) * (b1) + (a1) * (b0)) * (c0)
        == (b0) * ((a0) * (c1) + (a1) * (c0)) + (b1) * ((a0) * (c0) - 2 * ((a1) * (c1)))
{ }
// a c - b c = (a - b) c
proof fn qr_dist(a: F2, b: F2, c: F2)
    ensures q_sub(q_mul(a, c), q_mul(b, c))
        == q_mul(q_sub(a, b), c)
{
    reveal(q_add); reveal(q_sub); reveal(q_mul); reveal(q_k); reveal(q_c);
    ring_dist_0(a.c0, a.c1, b.c0, b.c1, c.c0, c.c1); ring_dist_1(a.c0, a.c1, b.c0, b.c1, c.c0, c.c1);
}
#[verifier::external_body]
proof fn ring_dist_0(a0: int, a1: int, b0: int, b1: int, c0: int, c1: int)
    ensures ((a0) * (c0) - 2 * ((a1) * (c1))) - ((b0) * (c0) - 2 * ((b1) * (c1)))
        == ((a0) - (b0)) * (c0) - 2 * (((a1) - (b1)) * (c1))
{ }
#[verifier::external_body]
proof fn ring_dist_1(a0: int, a1: int, b0: int, b1: int, c0: int, c1: int)
    ensures ((a0) * (c1) + (a1) * (c0)) - ((b0) * (c1) + (b1) * (c0))
        == ((a0) - (b0)) * (c1) + ((a1) - (b1)) * (c0)
{ }
proof fn qr_dista(a: F2, b: F2, c: F2)
    ensures q_add(q_mul(a, c), q_mul(b, c))
        == q_mul(q_add(a, b), c)
{
    reveal(q_add); reveal(q_sub); reveal(q_mul); reveal(q_k); reveal(q_c);
    ring_dista_0(a.c0, a.c1, b.c0, b.c1, c.c0, c.c1); ring_dista_1(a.c0, a.c1, b.c0, b.c1, c.c0, c.c1);
}
#[verifier::external_body]
proof fn ring_dista_0(a0: int, a1: int, b0: int, b1: int, c0: int, c1: int)
    ensures ((a0) * (c0) - 2 * ((a1) * (c1))) + ((b0) * (c0) - 2 * ((b1) * (c1)))
        == ((a0) + (b0)) * (c0) - 2 * (((a1) + (b1)) * (c1))
{ }
#[verifier::external_body]
proof fn ring_dista_1(a0: int, a1: int, b0: int, b1: int, c0: int, c1: int)
    ensures ((a0) * (c1) + (a1) * (c0)) + ((b0) * (c1) + (b1) * (c0))
        == ((a0) + (b0)) * (c1) + ((a1) + (b1)) * (c0)
{ }
// lam = n / d gives lam d = n
proof fn qr_slope(lam: F2, n: F2, d: F2, dd: F2)
    ensures q_sub(q_mul(lam, d), n)
        == q_add(q_mul(q_sub(lam, q_mul(n, dd)), d), q_mul(q_sub(q_mul(d, dd), q_c(1)), n))
{
    reveal(q_add); reveal(q_sub); reveal(q_mul); reveal(q_k); reveal(q_c);
    ring_slope_0(lam.c0, lam.c1, n.c0, n.c1, d.c0, d.c1, dd.c0, dd.c1); ring_slope_1(lam.c0, lam.c1, n.c0, n.c1, d.c0, d.c1, dd.c0, dd.c1);
}
#[verifier::external_body]
proof fn ring_slope_0(lam0: int, lam1: int, n0: int, n1: int, d0: int, d1: int, dd0: int, dd1: int)
    ensures ((lam0) * (d0) - 2 * ((lam1) * (d1))) - (n0)
        == (((lam0) - ((n0) * (dd0) - 2 * ((n1) * (dd1)))) * (d0) - 2 * (((lam1) - ((n0) * (dd1) + (n1) * (dd0))) * (d1))) + ((((d0) * (dd0) - 2 * ((d1) * (dd1))) - (1)) * (n0) - 2 * ((((d0) * (dd1) + (d1) * (dd0)) - (0)) * (n1)))
{ }
#[verifier::external_body]
proof fn ring_slope_1(lam0: int, lam1: int, n0: int, n1: int, d0: int, d1: int, dd0: int, dd1: int)
    ensures ((lam0) * (d1) + (lam1) * (d0)) - (n1)
        == (((lam0) - ((n0) * (dd0) - 2 * ((n1) * (dd1)))) * (d1) + ((lam1) - ((n0) * (dd1) + (n1) * (dd0))) * (d0)) + ((((d0) * (dd0) - 2 * ((d1) * (dd1))) - (1)) * (n1) + (((d0) * (dd1) + (d1) * (dd0)) - (0)) * (n0))
{ }
proof fn qr_tan_x(xa: F2, ya: F2, lam: F2, W: F2)
    ensures q_sub(q_mul(q_sub(q_sub(q_mul(lam, lam), xa), xa), q_mul(q_mul(q_add(ya, ya), W), q_mul(q_add(ya, ya), W))), q_mul(q_sub(q_mul(q_add(q_add(q_mul(xa, xa), q_mul(xa, xa)), q_mul(xa, xa)), q_add(q_add(q_mul(xa, xa), q_mul(xa, xa)), q_mul(xa, xa))), q_add(q_mul(q_mul(q_add(ya, ya), q_add(ya, ya)), xa), q_mul(q_mul(q_add(ya, ya), q_add(ya, ya)), xa))), q_mul(W, W)))
        == q_mul(q_sub(q_mul(lam, q_add(ya, ya)), q_add(q_add(q_mul(xa, xa), q_mul(xa, xa)), q_mul(xa, xa))), q_mul(q_add(q_mul(lam, q_add(ya, ya)), q_add(q_add(q_mul(xa, xa), q_mul(xa, xa)), q_mul(xa, xa))), q_mul(W, W)))
{
    reveal(q_add); reveal(q_sub); reveal(q_mul); reveal(q_k); reveal(q_c);
    ring_tan_x_0(xa.c0, xa.c1, ya.c0, ya.c1, lam.c0, lam.c1, W.c0, W.c1); ring_tan_x_1(xa.c0, xa.c1, ya.c0, ya.c1, lam.c0, lam.c1, W.c0, W.c1);
}
#[verifier::external_body]
proof fn ring_tan_x_0(xa0: int, xa1: int, ya0: int, ya1: int, lam0: int, lam1: int, W0: int, W1: int)
    ensures (((((lam0) * (lam0) - 2 * ((lam1) * (lam1))) - (xa0)) - (xa0)) * ((((ya0) + (ya0)) * (W0) - 2 * (((ya1) + (ya1)) * (W1))) * (((ya0) + (ya0)) * (W0) - 2 * (((ya1) + (ya1)) * (W1))) - 2 * ((((ya0) + (ya0)) * (W1) + ((ya1) + (ya1)) * (W0)) * (((ya0) + (ya0)) * (W1) + ((ya1) + (ya1)) * (W0)))) - 2 * (((((lam0) * (lam1) + (lam1) * (lam0)) - (xa1)) - (xa1)) * ((((ya0) + (ya0)) * (W0) - 2 * (((ya1) + (ya1)) * (W1))) * (((ya0) + (ya0)) * (W1) + ((ya1) + (ya1)) * (W0)) + (((ya0) + (ya0)) * (W1) + ((ya1) + (ya1)) * (W0)) * (((ya0) + (ya0)) * (W0) - 2 * (((ya1) + (ya1)) * (W1)))))) - (((((((xa0) * (xa0) - 2 * ((xa1) * (xa1))) + ((xa0) * (xa0) - 2 * ((xa1) * (xa1)))) + ((xa0) * (xa0) - 2 * ((xa1) * (xa1)))) * ((((xa0) * (xa0) - 2 * ((xa1) * (xa1))) + ((xa0) * (xa0) - 2 * ((xa1) * (xa1)))) + ((xa0) * (xa0) - 2 * ((xa1) * (xa1)))) - 2 * (((((xa0) * (xa1) + (xa1) * (xa0)) + ((xa0) * (xa1) + (xa1) * (xa0))) + ((xa0) * (xa1) + (xa1) * (xa0))) * ((((xa0) * (xa1) + (xa1) * (xa0)) + ((xa0) * (xa1) + (xa1) * (xa0))) + ((xa0) * (xa1) + (xa1) * (xa0))))) - (((((ya0) + (ya0)) * ((ya0) + (ya0)) - 2 * (((ya1) + (ya1)) * ((ya1) + (ya1)))) * (xa0) - 2 * ((((ya0) + (ya0)) * ((ya1) + (ya1)) + ((ya1) + (ya1)) * ((ya0) + (ya0))) * (xa1))) + ((((ya0) + (ya0)) * ((ya0) + (ya0)) - 2 * (((ya1) + (ya1)) * ((ya1) + (ya1)))) * (xa0) - 2 * ((((ya0) + (ya0)) * ((ya1) + (ya1)) + ((ya1) + (ya1)) * ((ya0) + (ya0))) * (xa1))))) * ((W0) * (W0) - 2 * ((W1) * (W1))) - 2 * (((((((xa0) * (xa0) - 2 * ((xa1) * (xa1))) + ((xa0) * (xa0) - 2 * ((xa1) * (xa1)))) + ((xa0) * (xa0) - 2 * ((xa1) * (xa1)))) * ((((xa0) * (xa1) + (xa1) * (xa0)) + ((xa0) * (xa1) + (xa1) * (xa0))) + ((xa0) * (xa1) + (xa1) * (xa0))) + ((((xa0) * (xa1) + (xa1) * (xa0)) + ((xa0) * (xa1) + (xa1) * (xa0))) + ((xa0) * (xa1) + (xa1) * (xa0))) * ((((xa0) * (xa0) - 2 * ((xa1) * (xa1))) + ((xa0) * (xa0) - 2 * ((xa1) * (xa1)))) + ((xa0) * (xa0) - 2 * ((xa1) * (xa1))))) - (((((ya0) + (ya0)) * ((ya0) + (ya0)) - 2 * (((ya1) + (ya1)) * ((ya1) + (ya1)))) * (xa1) + (((ya0) + (ya0)) * ((ya1) + (ya1)) + ((ya1) + (ya1)) * ((ya0) + (ya0))) * (xa0)) + ((((ya0) + (ya0)) * ((ya0) + (ya0)) - 2 * (((ya1) + (ya1)) * ((ya1) + (ya1)))) * (xa1) + (((ya0) + (ya0)) * ((ya1) + (ya1)) + ((ya1) + (ya1)) * ((ya0) + (ya0))) * (xa0)))) * ((W0) * (W1) + (W1) * (W0))))
        == (((lam0) * ((ya0) + (ya0)) - 2 * ((lam1) * ((ya1) + (ya1)))) - ((((xa0) * (xa0) - 2 * ((xa1) * (xa1))) + ((xa0) * (xa0) - 2 * ((xa1) * (xa1)))) + ((xa0) * (xa0) - 2 * ((xa1) * (xa1))))) * ((((lam0) * ((ya0) + (ya0)) - 2 * ((lam1) * ((ya1) + (ya1)))) + ((((xa0) * (xa0) - 2 * ((xa1) * (xa1))) + ((xa0) * (xa0) - 2 * ((xa1) * (xa1)))) + ((xa0) * (xa0) - 2 * ((xa1) * (xa1))))) * ((W0) * (W0) - 2 * ((W1) * (W1))) - 2 * ((((lam0) * ((ya1) + (ya1)) + (lam1) * ((ya0) + (ya0))) + ((((xa0) * (xa1) + (xa1) * (xa0)) + ((xa0) * (xa1) + (xa1) * (xa0))) + ((xa0) * (xa1) + (xa1) * (xa0)))) * ((W0) * (W1) + (W1) * (W0)))) - 2 * ((((lam0) * ((ya1) + (ya1)) + (lam1) * ((ya0) + (ya0))) - ((((xa0) * (xa1) + (xa1) * (xa0)) + ((xa0) * (xa1) + (xa1) * (xa0))) + ((xa0) * (xa1) + (xa1) * (xa0)))) * ((((lam0) * ((ya0) + (ya0)) - 2 * ((lam1) * ((ya1) + (ya1)))) + ((((xa0) * (xa0) - 2 * ((xa1) * (xa1))) + ((xa0) * (xa0) - 2 * ((xa1) * (xa1)))) + ((xa0) * (xa0) - 2 * ((xa1) * (xa1))))) * ((W0) * (W1) + (W1) * (W0)) + (((lam0) * ((ya1) + (ya1)) + (lam1) * ((ya0) + (ya0))) + ((((xa0) * (xa1) + (xa1) * (xa0)) + ((xa0) * (xa1) + (xa1) * (xa0))) + ((xa0) * (xa1) + (xa1) * (xa0)))) * ((W0) * (W0) - 2 * ((W1) * (W1)))))
{ }
#[verifier::external_body]
proof fn ring_tan_x_1(xa0: int, xa1: int, ya0: int, ya1: int, lam0: int, lam1: int, W0: int, W1: int)
    ensures (((((lam0) * (lam0) - 2 * ((lam1) * (lam1))) - (xa0)) - (xa0)) * ((((ya0) + (ya0)) * (W0) - 2 * (((ya1) + (ya1)) * (W1))) * (((ya0) + (ya0)) * (W1) + ((ya1) + (ya1)) * (W0)) + (((ya0) + (ya0)) * (W1) + ((ya1) + (ya1)) * (W0)) * (((ya0) + (ya0)) * (W0) - 2 * (((ya1) + (ya1)) * (W1)))) + ((((lam0) * (lam1) + (lam1) * (lam0)) - (xa1)) - (xa1)) * ((((ya0) + (ya0)) * (W0) - 2 * (((ya1) + (ya1)) * (W1))) * (((ya0) + (ya0)) * (W0) - 2 * (((ya1) + (ya1)) * (W1))) - 2 * ((((ya0) + (ya0)) * (W1) + ((ya1) + (ya1)) * (W0)) * (((ya0) + (ya0)) * (W1) + ((ya1) + (ya1)) * (W0))))) - (((((((xa0) * (xa0) - 2 * ((xa1) * (xa1))) + ((xa0) * (xa0) - 2 * ((xa1) * (xa1)))) + ((xa0) * (xa0) - 2 * ((xa1) * (xa1)))) * ((((xa0) * (xa0) - 2 * ((xa1) * (xa1))) + ((xa0) * (xa0) - 2 * ((xa1) * (xa1)))) + ((xa0) * (xa0) - 2 * ((xa1) * (xa1)))) - 2 * (((((xa0) * (xa1) + (xa1) * (xa0)) + ((xa0) * (xa1) + (xa1) * (xa0))) + ((xa0) * (xa1) + (xa1) * (xa0))) * ((((xa0) * (xa1) + (xa1) * (xa0)) + ((xa0) * (xa1) + (xa1) * (xa0))) + ((xa0) * (xa1) + (xa1) * (xa0))))) - (((((ya0) + (ya0)) * ((ya0) + (ya0)) - 2 * (((ya1) + (ya1)) * ((ya1) + (ya1)))) * (xa0) - 2 * ((((ya0) + (ya0)) * ((ya1) + (ya1)) + ((ya1) + (ya1)) * ((ya0) + (ya0))) * (xa1))) + ((((ya0) + (ya0)) * ((ya0) + (ya0)) - 2 * (((ya1) + (ya1)) * ((ya1) + (ya1)))) * (xa0) - 2 * ((((ya0) + (ya0)) * ((ya1) + (ya1)) + ((ya1) + (ya1)) * ((ya0) + (ya0))) * (xa1))))) * ((W0) * (W1) + (W1) * (W0)) + ((((((xa0) * (xa0) - 2 * ((xa1) * (xa1))) + ((xa0) * (xa0) - 2 * ((xa1) * (xa1)))) + ((xa0) * (xa0) - 2 * ((xa1) * (xa1)))) * ((((xa0) * (xa1) + (xa1) * (xa0)) + ((xa0) * (xa1) + (xa1) * (xa0))) + ((xa0) * (xa1) + (xa1) * (xa0))) + ((((xa0) * (xa1) + (xa1) * (xa0)) + ((xa0) * (xa1) + (xa1) * (xa0))) + ((xa0) * (xa1) + (xa1) * (xa0))) * ((((xa0) * (xa0) - 2 * ((xa1) * (xa1))) + ((xa0) * (xa0) - 2 * ((xa1) * (xa1)))) + ((xa0) * (xa0) - 2 * ((xa1) * (xa1))))) - (((((ya0) + (ya0)) * ((ya0) + (ya0)) - 2 * (((ya1) + (ya1)) * ((ya1) + (ya1)))) * (xa1) + (((ya0) + (ya0)) * ((ya1) + (ya1)) + ((ya1) + (ya1)) * ((ya0) + (ya0))) * (xa0)) + ((((ya0) + (ya0)) * ((ya0) + (ya0)) - 2 * (((ya1) + (ya1)) * ((ya1) + (ya1)))) * (xa1) + (((ya0) + (ya0)) * ((ya1) + (ya1)) + ((ya1) + (ya1)) * ((ya0) + (ya0))) * (xa0)))) * ((W0) * (W0) - 2 * ((W1) * (W1))))
        == (((lam0) * ((ya0) + (ya0)) - 2 * ((lam1) * ((ya1) + (ya1)))) - ((((xa0) * (xa0) - 2 * ((xa1) * (xa1))) + ((xa0) * (xa0) - 2 * ((xa1) * (xa1)))) + ((xa0) * (xa0) - 2 * ((xa1) * (xa1))))) * ((((lam0) * ((ya0) + (ya0)) - 2 * ((lam1) * ((ya1) + (ya1)))) + ((((xa0) * (xa0) - 2 * ((xa1) * (xa1))) + ((xa0) * (xa0) - 2 * ((xa1) * (xa1)))) + ((xa0) * (xa0) - 2 * ((xa1) * (xa1))))) * ((W0) * (W1) + (W1) * (W0)) + (((lam0) * ((ya1) + (ya1)) + (lam1) * ((ya0) + (ya0))) + ((((xa0) * (xa1) + (xa1) * (xa0)) + ((xa0) * (xa1) + (xa1) * (xa0))) + ((xa0) * (xa1) + (xa1) * (xa0)))) * ((W0) * (W0) - 2 * ((W1) * (W1)))) + (((lam0) * ((ya1) + (ya1)) + (lam1) * ((ya0) + (ya0))) - ((((xa0) * (xa1) + (xa1) * (xa0)) + ((xa0) * (xa1) + (xa1) * (xa0))) + ((xa0) * (xa1) + (xa1) * (xa0)))) * ((((lam0) * ((ya0) + (ya0)) - 2 * ((lam1) * ((ya1) + (ya1)))) + ((((xa0) * (xa0) - 2 * ((xa1) * (xa1))) + ((xa0) * (xa0) - 2 * ((xa1) * (xa1)))) + ((xa0) * (xa0) - 2 * ((xa1) * (xa1))))) * ((W0) * (W0) - 2 * ((W1) * (W1))) - 2 * ((((lam0) * ((ya1) + (ya1)) + (lam1) * ((ya0) + (ya0))) + ((((xa0) * (xa1) + (xa1) * (xa0)) + ((xa0) * (xa1) + (xa1) * (xa0))) + ((xa0) * (xa1) + (xa1) * (xa0)))) * ((W0) * (W1) + (W1) * (W0))))
{ }
proof fn qr_tan_y(xa: F2, ya: F2, lam: F2, s: F2, W: F2)
    ensures q_sub(q_mul(q_sub(q_mul(lam, q_sub(xa, s)), ya), q_mul(q_mul(q_mul(q_add(ya, ya), W), q_mul(q_add(ya, ya), W)), q_mul(q_add(ya, ya), W))), q_mul(q_sub(q_mul(q_add(q_add(q_mul(xa, xa), q_mul(xa, xa)), q_mul(xa, xa)), q_sub(q_mul(q_mul(q_add(ya, ya), q_add(ya, ya)), xa), q_sub(q_mul(q_add(q_add(q_mul(xa, xa), q_mul(xa, xa)), q_mul(xa, xa)), q_add(q_add(q_mul(xa, xa), q_mul(xa, xa)), q_mul(xa, xa))), q_add(q_mul(q_mul(q_add(ya, ya), q_add(ya, ya)), xa), q_mul(q_mul(q_add(ya, ya), q_add(ya, ya)), xa))))), q_k(8, q_mul(q_mul(ya, ya), q_mul(ya, ya)))), q_mul(q_mul(W, W), W)))
        == q_sub(q_mul(q_sub(q_mul(lam, q_add(ya, ya)), q_add(q_add(q_mul(xa, xa), q_mul(xa, xa)), q_mul(xa, xa))), q_mul(q_mul(q_mul(W, W), W), q_sub(q_mul(q_mul(q_add(ya, ya), q_add(ya, ya)), xa), q_sub(q_mul(q_add(q_add(q_mul(xa, xa), q_mul(xa, xa)), q_mul(xa, xa)), q_add(q_add(q_mul(xa, xa), q_mul(xa, xa)), q_mul(xa, xa))), q_add(q_mul(q_mul(q_add(ya, ya), q_add(ya, ya)), xa), q_mul(q_mul(q_add(ya, ya), q_add(ya, ya)), xa)))))), q_mul(q_sub(q_mul(s, q_mul(q_mul(q_add(ya, ya), W), q_mul(q_add(ya, ya), W))), q_mul(q_sub(q_mul(q_add(q_add(q_mul(xa, xa), q_mul(xa, xa)), q_mul(xa, xa)), q_add(q_add(q_mul(xa, xa), q_mul(xa, xa)), q_mul(xa, xa))), q_add(q_mul(q_mul(q_add(ya, ya), q_add(ya, ya)), xa), q_mul(q_mul(q_add(ya, ya), q_add(ya, ya)), xa))), q_mul(W, W))), q_mul(lam, q_mul(q_add(ya, ya), W))))
{
    reveal(q_add); reveal(q_sub); reveal(q_mul); reveal(q_k); reveal(q_c);
    ring_tan_y_0(xa.c0, xa.c1, ya.c0, ya.c1, lam.c0, lam.c1, s.c0, s.c1, W.c0, W.c1); ring_tan_y_1(xa.c0, xa.c1, ya.c0, ya.c1, lam.c0, lam.c1, s.c0, s.c1, W.c0, W.c1);
}
#[verifier::external_body]
proof fn ring_tan_y_0(xa0: int, xa1: int, ya0: int, ya1: int, lam0: int, lam1: int, s0: int, s1: int, W0: int, W1: int)
    ensures ((((lam0) * ((xa0) - (s0)) - 2 * ((lam1) * ((xa1) - (s1)))) - (ya0)) * (((((ya0) + (ya0)) * (W0) - 2 * (((ya1) + (ya1)) * (W1))) * (((ya0) + (ya0)) * (W0) - 2 * (((ya1) + (ya1)) * (W1))) - 2 * ((((ya0) + (ya0)) * (W1) + ((ya1) + (ya1)) * (W0)) * (((ya0) + (ya0)) * (W1) + ((ya1) + (ya1)) * (W0)))) * (((ya0) + (ya0)) * (W0) - 2 * (((ya1) + (ya1)) * (W1))) - 2 * (((((ya0) + (ya0)) * (W0) - 2 * (((ya1) + (ya1)) * (W1))) * (((ya0) + (ya0)) * (W1) + ((ya1) + (ya1)) * (W0)) + (((ya0) + (ya0)) * (W1) + ((ya1) + (ya1)) * (W0)) * (((ya0) + (ya0)) * (W0) - 2 * (((ya1) + (ya1)) * (W1)))) * (((ya0) + (ya0)) * (W1) + ((ya1) + (ya1)) * (W0)))) - 2 * ((((lam0) * ((xa1) - (s1)) + (lam1) * ((xa0) - (s0))) - (ya1)) * (((((ya0) + (ya0)) * (W0) - 2 * (((ya1) + (ya1)) * (W1))) * (((ya0) + (ya0)) * (W0) - 2 * (((ya1) + (ya1)) * (W1))) - 2 * ((((ya0) + (ya0)) * (W1) + ((ya1) + (ya1)) * (W0)) * (((ya0) + (ya0)) * (W1) + ((ya1) + (ya1)) * (W0)))) * (((ya0) + (ya0)) * (W1) + ((ya1) + (ya1)) * (W0)) + ((((ya0) + (ya0)) * (W0) - 2 * (((ya1) + (ya1)) * (W1))) * (((ya0) + (ya0)) * (W1) + ((ya1) + (ya1)) * (W0)) + (((ya0) + (ya0)) * (W1) + ((ya1) + (ya1)) * (W0)) * (((ya0) + (ya0)) * (W0) - 2 * (((ya1) + (ya1)) * (W1)))) * (((ya0) + (ya0)) * (W0) - 2 * (((ya1) + (ya1)) * (W1)))))) - (((((((xa0) * (xa0) - 2 * ((xa1) * (xa1))) + ((xa0) * (xa0) - 2 * ((xa1) * (xa1)))) + ((xa0) * (xa0) - 2 * ((xa1) * (xa1)))) * (((((ya0) + (ya0)) * ((ya0) + (ya0)) - 2 * (((ya1) + (ya1)) * ((ya1) + (ya1)))) * (xa0) - 2 * ((((ya0) + (ya0)) * ((ya1) + (ya1)) + ((ya1) + (ya1)) * ((ya0) + (ya0))) * (xa1))) - ((((((xa0) * (xa0) - 2 * ((xa1) * (xa1))) + ((xa0) * (xa0) - 2 * ((xa1) * (xa1)))) + ((xa0) * (xa0) - 2 * ((xa1) * (xa1)))) * ((((xa0) * (xa0) - 2 * ((xa1) * (xa1))) + ((xa0) * (xa0) - 2 * ((xa1) * (xa1)))) + ((xa0) * (xa0) - 2 * ((xa1) * (xa1)))) - 2 * (((((xa0) * (xa1) + (xa1) * (xa0)) + ((xa0) * (xa1) + (xa1) * (xa0))) + ((xa0) * (xa1) + (xa1) * (xa0))) * ((((xa0) * (xa1) + (xa1) * (xa0)) + ((xa0) * (xa1) + (xa1) * (xa0))) + ((xa0) * (xa1) + (xa1) * (xa0))))) - (((((ya0) + (ya0)) * ((ya0) + (ya0)) - 2 * (((ya1) + (ya1)) * ((ya1) + (ya1)))) * (xa0) - 2 * ((((ya0) + (ya0)) * ((ya1) + (ya1)) + ((ya1) + (ya1)) * ((ya0) + (ya0))) * (xa1))) + ((((ya0) + (ya0)) * ((ya0) + (ya0)) - 2 * (((ya1) + (ya1)) * ((ya1) + (ya1)))) * (xa0) - 2 * ((((ya0) + (ya0)) * ((ya1) + (ya1)) + ((ya1) + (ya1)) * ((ya0) + (ya0))) * (xa1)))))) - 2 * (((((xa0) * (xa1) + (xa1) * (xa0)) + ((xa0) * (xa1) + (xa1) * (xa0))) + ((xa0) * (xa1) + (xa1) * (xa0))) * (((((ya0) + (ya0)) * ((ya0) + (ya0)) - 2 * (((ya1) + (ya1)) * ((ya1) + (ya1)))) * (xa1) + (((ya0) + (ya0)) * ((ya1) + (ya1)) + ((ya1) + (ya1)) * ((ya0) + (ya0))) * (xa0)) - ((((((xa0) * (xa0) - 2 * ((xa1) * (xa1))) + ((xa0) * (xa0) - 2 * ((xa1) * (xa1)))) + ((xa0) * (xa0) - 2 * ((xa1) * (xa1)))) * ((((xa0) * (xa1) + (xa1) * (xa0)) + ((xa0) * (xa1) + (xa1) * (xa0))) + ((xa0) * (xa1) + (xa1) * (xa0))) + ((((xa0) * (xa1) + (xa1) * (xa0)) + ((xa0) * (xa1) + (xa1) * (xa0))) + ((xa0) * (xa1) + (xa1) * (xa0))) * ((((xa0) * (xa0) - 2 * ((xa1) * (xa1))) + ((xa0) * (xa0) - 2 * ((xa1) * (xa1)))) + ((xa0) * (xa0) - 2 * ((xa1) * (xa1))))) - (((((ya0) + (ya0)) * ((ya0) + (ya0)) - 2 * (((ya1) + (ya1)) * ((ya1) + (ya1)))) * (xa1) + (((ya0) + (ya0)) * ((ya1) + (ya1)) + ((ya1) + (ya1)) * ((ya0) + (ya0))) * (xa0)) + ((((ya0) + (ya0)) * ((ya0) + (ya0)) - 2 * (((ya1) + (ya1)) * ((ya1) + (ya1)))) * (xa1) + (((ya0) + (ya0)) * ((ya1) + (ya1)) + ((ya1) + (ya1)) * ((ya0) + (ya0))) * (xa0))))))) - (8 * (((ya0) * (ya0) - 2 * ((ya1) * (ya1))) * ((ya0) * (ya0) - 2 * ((ya1) * (ya1))) - 2 * (((ya0) * (ya1) + (ya1) * (ya0)) * ((ya0) * (ya1) + (ya1) * (ya0)))))) * (((W0) * (W0) - 2 * ((W1) * (W1))) * (W0) - 2 * (((W0) * (W1) + (W1) * (W0)) * (W1))) - 2 * (((((((xa0) * (xa0) - 2 * ((xa1) * (xa1))) + ((xa0) * (xa0) - 2 * ((xa1) * (xa1)))) + ((xa0) * (xa0) - 2 * ((xa1) * (xa1)))) * (((((ya0) + (ya0)) * ((ya0) + (ya0)) - 2 * (((ya1) + (ya1)) * ((ya1) + (ya1)))) * (xa1) + (((ya0) + (ya0)) * ((ya1) + (ya1)) + ((ya1) + (ya1)) * ((ya0) + (ya0))) * (xa0)) - ((((((xa0) * (xa0) - 2 * ((xa1) * (xa1))) + ((xa0) * (xa0) - 2 * ((xa1) * (xa1)))) + ((xa0) * (xa0) - 2 * ((xa1) * (xa1)))) * ((((xa0) * (xa1) + (xa1) * (xa0)) + ((xa0) * (xa1) + (xa1) * (xa0))) + ((xa0) * (xa1) + (xa1) * (xa0))) + ((((xa0) * (xa1) + (xa1) * (xa0)) + ((xa0) * (xa1) + (xa1) * (xa0))) + ((xa0) * (xa1) + (xa1) * (xa0))) * ((((xa0) * (xa0) - 2 * ((xa1) * (xa1))) + ((xa0) * (xa0) - 2 * ((xa1) * (xa1)))) + ((xa0) * (xa0) - 2 * ((xa1) * (xa1))))) - (((((ya0) + (ya0)) * ((ya0) + (ya0)) - 2 * (((ya1) + (ya1)) * ((ya1) + (ya1)))) * (xa1) + (((ya0) + (ya0)) * ((ya1) + (ya1)) + ((ya1) + (ya1)) * ((ya0) + (ya0))) * (xa0)) + ((((ya0) + (ya0)) * ((ya0) + (ya0)) - 2 * (((ya1) + (ya1)) * ((ya1) + (ya1)))) * (xa1) + (((ya0) + (ya0)) * ((ya1) + (ya1)) + ((ya1) + (ya1)) * ((ya0) + (ya0))) * (xa0))))) + ((((xa0) * (xa1) + (xa1) * (xa0)) + ((xa0) * (xa1) + (xa1) * (xa0))) + ((xa0) * (xa1) + (xa1) * (xa0))) * (((((ya0) + (ya0)) * ((ya0) + (ya0)) - 2 * (((ya1) + (ya1)) * ((ya1) + (ya1)))) * (xa0) - 2 * ((((ya0) + (ya0)) * ((ya1) + (ya1)) + ((ya1) + (ya1)) * ((ya0) + (ya0))) * (xa1))) - ((((((xa0) * (xa0) - 2 * ((xa1) * (xa1))) + ((xa0) * (xa0) - 2 * ((xa1) * (xa1)))) + ((xa0) * (xa0) - 2 * ((xa1) * (xa1)))) * ((((xa0) * (xa0) - 2 * ((xa1) * (xa1))) + ((xa0) * (xa0) - 2 * ((xa1) * (xa1)))) + ((xa0) * (xa0) - 2 * ((xa1) * (xa1)))) - 2 * (((((xa0) * (xa1) + (xa1) * (xa0)) + ((xa0) * (xa1) + (xa1) * (xa0))) + ((xa0) * (xa1) + (xa1) * (xa0))) * ((((xa0) * (xa1) + (xa1) * (xa0)) + ((xa0) * (xa1) + (xa1) * (xa0))) + ((xa0) * (xa1) + (xa1) * (xa0))))) - (((((ya0) + (ya0)) * ((ya0) + (ya0)) - 2 * (((ya1) + (ya1)) * ((ya1) + (ya1)))) * (xa0) - 2 * ((((ya0) + (ya0)) * ((ya1) + (ya1)) + ((ya1) + (ya1)) * ((ya0) + (ya0))) * (xa1))) + ((((ya0) + (ya0)) * ((ya0) + (ya0)) - 2 * (((ya1) + (ya1)) * ((ya1) + (ya1)))) * (xa0) - 2 * ((((ya0) + (ya0)) * ((ya1) + (ya1)) + ((ya1) + (ya1)) * ((ya0) + (ya0))) * (xa1))))))) - (8 * (((ya0) * (ya0) - 2 * ((ya1) * (ya1))) * ((ya0) * (ya1) + (ya1) * (ya0)) + ((ya0) * (ya1) + (ya1) * (ya0)) * ((ya0) * (ya0) - 2 * ((ya1) * (ya1)))))) * (((W0) * (W0) - 2 * ((W1) * (W1))) * (W1) + ((W0) * (W1) + (W1) * (W0)) * (W0))))
        == ((((lam0) * ((ya0) + (ya0)) - 2 * ((lam1) * ((ya1) + (ya1)))) - ((((xa0) * (xa0) - 2 * ((xa1) * (xa1))) + ((xa0) * (xa0) - 2 * ((xa1) * (xa1)))) + ((xa0) * (xa0) - 2 * ((xa1) * (xa1))))) * ((((W0) * (W0) - 2 * ((W1) * (W1))) * (W0) - 2 * (((W0) * (W1) + (W1) * (W0)) * (W1))) * (((((ya0) + (ya0)) * ((ya0) + (ya0)) - 2 * (((ya1) + (ya1)) * ((ya1) + (ya1)))) * (xa0) - 2 * ((((ya0) + (ya0)) * ((ya1) + (ya1)) + ((ya1) + (ya1)) * ((ya0) + (ya0))) * (xa1))) - ((((((xa0) * (xa0) - 2 * ((xa1) * (xa1))) + ((xa0) * (xa0) - 2 * ((xa1) * (xa1)))) + ((xa0) * (xa0) - 2 * ((xa1) * (xa1)))) * ((((xa0) * (xa0) - 2 * ((xa1) * (xa1))) + ((xa0) * (xa0) - 2 * ((xa1) * (xa1)))) + ((xa0) * (xa0) - 2 * ((xa1) * (xa1)))) - 2 * (((((xa0) * (xa1) + (xa1) * (xa0)) + ((xa0) * (xa1) + (xa1) * (xa0))) + ((xa0) * (xa1) + (xa1) * (xa0))) * ((((xa0) * (xa1) + (xa1) * (xa0)) + ((xa0) * (xa1) + (xa1) * (xa0))) + ((xa0) * (xa1) + (xa1) * (xa0))))) - (((((ya0) + (ya0)) * ((ya0) + (ya0)) - 2 * (((ya1) + (ya1)) * ((ya1) + (ya1)))) * (xa0) - 2 * ((((ya0) + (ya0)) * ((ya1) + (ya1)) + ((ya1) + (ya1)) * ((ya0) + (ya0))) * (xa1))) + ((((ya0) + (ya0)) * ((ya0) + (ya0)) - 2 * (((ya1) + (ya1)) * ((ya1) + (ya1)))) * (xa0) - 2 * ((((ya0) + (ya0)) * ((ya1) + (ya1)) + ((ya1) + (ya1)) * ((ya0) + (ya0))) * (xa1)))))) - 2 * ((((W0) * (W0) - 2 * ((W1) * (W1))) * (W1) + ((W0) * (W1) + (W1) * (W0)) * (W0)) * (((((ya0) + (ya0)) * ((ya0) + (ya0)) - 2 * (((ya1) + (ya1)) * ((ya1) + (ya1)))) * (xa1) + (((ya0) + (ya0)) * ((ya1) + (ya1)) + ((ya1) + (ya1)) * ((ya0) + (ya0))) * (xa0)) - ((((((xa0) * (xa0) - 2 * ((xa1) * (xa1))) + ((xa0) * (xa0) - 2 * ((xa1) * (xa1)))) + ((xa0) * (xa0) - 2 * ((xa1) * (xa1)))) * ((((xa0) * (xa1) + (xa1) * (xa0)) + ((xa0) * (xa1) + (xa1) * (xa0))) + ((xa0) * (xa1) + (xa1) * (xa0))) + ((((xa0) * (xa1) + (xa1) * (xa0)) + ((xa0) * (xa1) + (xa1) * (xa0))) + ((xa0) * (xa1) + (xa1) * (xa0))) * ((((xa0) * (xa0) - 2 * ((xa1) * (xa1))) + ((xa0) * (xa0) - 2 * ((xa1) * (xa1)))) + ((xa0) * (xa0) - 2 * ((xa1) * (xa1))))) - (((((ya0) + (ya0)) * ((ya0) + (ya0)) - 2 * (((ya1) + (ya1)) * ((ya1) + (ya1)))) * (xa1) + (((ya0) + (ya0)) * ((ya1) + (ya1)) + ((ya1) + (ya1)) * ((ya0) + (ya0))) * (xa0)) + ((((ya0) + (ya0)) * ((ya0) + (ya0)) - 2 * (((ya1) + (ya1)) * ((ya1) + (ya1)))) * (xa1) + (((ya0) + (ya0)) * ((ya1) + (ya1)) + ((ya1) + (ya1)) * ((ya0) + (ya0))) * (xa0))))))) - 2 * ((((lam0) * ((ya1) + (ya1)) + (lam1) * ((ya0) + (ya0))) - ((((xa0) * (xa1) + (xa1) * (xa0)) + ((xa0) * (xa1) + (xa1) * (xa0))) + ((xa0) * (xa1) + (xa1) * (xa0)))) * ((((W0) * (W0) - 2 * ((W1) * (W1))) * (W0) - 2 * (((W0) * (W1) + (W1) * (W0)) * (W1))) * (((((ya0) + (ya0)) * ((ya0) + (ya0)) - 2 * (((ya1) + (ya1)) * ((ya1) + (ya1)))) * (xa1) + (((ya0) + (ya0)) * ((ya1) + (ya1)) + ((ya1) + (ya1)) * ((ya0) + (ya0))) * (xa0)) - ((((((xa0) * (xa0) - 2 * ((xa1) * (xa1))) + ((xa0) * (xa0) - 2 * ((xa1) * (xa1)))) + ((xa0) * (xa0) - 2 * ((xa1) * (xa1)))) * ((((xa0) * (xa1) + (xa1) * (xa0)) + ((xa0) * (xa1) + (xa1) * (xa0))) + ((xa0) * (xa1) + (xa1) * (xa0))) + ((((xa0) * (xa1) + (xa1) * (xa0)) + ((xa0) * (xa1) + (xa1) * (xa0))) + ((xa0) * (xa1) + (xa1) * (xa0))) * ((((xa0) * (xa0) - 2 * ((xa1) * (xa1))) + ((xa0) * (xa0) - 2 * ((xa1) * (xa1)))) + ((xa0) * (xa0) - 2 * ((xa1) * (xa1))))) - (((((ya0) + (ya0)) * ((ya0) + (ya0)) - 2 * (((ya1) + (ya1)) * ((ya1) + (ya1)))) * (xa1) + (((ya0) + (ya0)) * ((ya1) + (ya1)) + ((ya1) + (ya1)) * ((ya0) + (ya0))) * (xa0)) + ((((ya0) + (ya0)) * ((ya0) + (ya0)) - 2 * (((ya1) + (ya1)) * ((ya1) + (ya1)))) * (xa1) + (((ya0) + (ya0)) * ((ya1) + (ya1)) + ((ya1) + (ya1)) * ((ya0) + (ya0))) * (xa0))))) + (((W0) * (W0) - 2 * ((W1) * (W1))) * (W1) + ((W0) * (W1) + (W1) * (W0)) * (W0)) * (((((ya0) + (ya0)) * ((ya0) + (ya0)) - 2 * (((ya1) + (ya1)) * ((ya1) + (ya1)))) * (xa0) - 2 * ((((ya0) + (ya0)) * ((ya1) + (ya1)) + ((ya1) + (ya1)) * ((ya0) + (ya0))) * (xa1))) - ((((((xa0) * (xa0) - 2 * ((xa1) * (xa1))) + ((xa0) * (xa0) - 2 * ((xa1) * (xa1)))) + ((xa0) * (xa0) - 2 * ((xa1) * (xa1)))) * ((((xa0) * (xa0) - 2 * ((xa1) * (xa1))) + ((xa0) * (xa0) - 2 * ((xa1) * (xa1)))) + ((xa0) * (xa0) - 2 * ((xa1) * (xa1)))) - 2 * (((((xa0) * (xa1) + (xa1) * (xa0)) + ((xa0) * (xa1) + (xa1) * (xa0))) + ((xa0) * (xa1) + (xa1) * (xa0))) * ((((xa0) * (xa1) + (xa1) * (xa0)) + ((xa0) * (xa1) + (xa1) * (xa0))) + ((xa0) * (xa1) + (xa1) * (xa0))))) - (((((ya0) + (ya0)) * ((ya0) + (ya0)) - 2 * (((ya1) + (ya1)) * ((ya1) + (ya1)))) * (xa0) - 2 * ((((ya0) + (ya0)) * ((ya1) + (ya1)) + ((ya1) + (ya1)) * ((ya0) + (ya0))) * (xa1))) + ((((ya0) + (ya0)) * ((ya0) + (ya0)) - 2 * (((ya1) + (ya1)) * ((ya1) + (ya1)))) * (xa0) - 2 * ((((ya0) + (ya0)) * ((ya1) + (ya1)) + ((ya1) + (ya1)) * ((ya0) + (ya0))) * (xa1))))))))) - ((((s0) * ((((ya0) + (ya0)) * (W0) - 2 * (((ya1) + (ya1)) * (W1))) * (((ya0) + (ya0)) * (W0) - 2 * (((ya1) + (ya1)) * (W1))) - 2 * ((((ya0) + (ya0)) * (W1) + ((ya1) + (ya1)) * (W0)) * (((ya0) + (ya0)) * (W1) + ((ya1) + (ya1)) * (W0)))) - 2 * ((s1) * ((((ya0) + (ya0)) * (W0) - 2 * (((ya1) + (ya1)) * (W1))) * (((ya0) + (ya0)) * (W1) + ((ya1) + (ya1)) * (W0)) + (((ya0) + (ya0)) * (W1) + ((ya1) + (ya1)) * (W0)) * (((ya0) + (ya0)) * (W0) - 2 * (((ya1) + (ya1)) * (W1)))))) - (((((((xa0) * (xa0) - 2 * ((xa1) * (xa1))) + ((xa0) * (xa0) - 2 * ((xa1) * (xa1)))) + ((xa0) * (xa0) - 2 * ((xa1) * (xa1)))) * ((((xa0) * (xa0) - 2 * ((xa1) * (xa1))) + ((xa0) * (xa0) - 2 * ((xa1) * (xa1)))) + ((xa0) * (xa0) - 2 * ((xa1) * (xa1)))) - 2 * (((((xa0) * (xa1) + (xa1) * (xa0)) + ((xa0) * (xa1) + (xa1) * (xa0))) + ((xa0) * (xa1) + (xa1) * (xa0))) * ((((xa0) * (xa1) + (xa1) * (xa0)) + ((xa0) * (xa1) + (xa1) * (xa0))) + ((xa0) * (xa1) + (xa1) * (xa0))))) - (((((ya0) + (ya0)) * ((ya0) + (ya0)) - 2 * (((ya1) + (ya1)) * ((ya1) + (ya1)))) * (xa0) - 2 * ((((ya0) + (ya0)) * ((ya1) + (ya1)) + ((ya1) + (ya1)) * ((ya0) + (ya0))) * (xa1))) + ((((ya0) + (ya0)) * ((ya0) + (ya0)) - 2 * (((ya1) + (ya1)) * ((ya1) + (ya1)))) * (xa0) - 2 * ((((ya0) + (ya0)) * ((ya1) + (ya1)) + ((ya1) + (ya1)) * ((ya0) + (ya0))) * (xa1))))) * ((W0) * (W0) - 2 * ((W1) * (W1))) - 2 * (((((((xa0) * (xa0) - 2 * ((xa1) * (xa1))) + ((xa0) * (xa0) - 2 * ((xa1) * (xa1)))) + ((xa0) * (xa0) - 2 * ((xa1) * (xa1)))) * ((((xa0) * (xa1) + (xa1) * (xa0)) + ((xa0) * (xa1) + (xa1) * (xa0))) + ((xa0) * (xa1) + (xa1) * (xa0))) + ((((xa0) * (xa1) + (xa1) * (xa0)) + ((xa0) * (xa1) + (xa1) * (xa0))) + ((xa0) * (xa1) + (xa1) * (xa0))) * ((((xa0) * (xa0) - 2 * ((xa1) * (xa1))) + ((xa0) * (xa0) - 2 * ((xa1) * (xa1)))) + ((xa0) * (xa0) - 2 * ((xa1) * (xa1))))) - (((((ya0) + (ya0)) * ((ya0) + (ya0)) - 2 * (((ya1) + (ya1)) * ((ya1) + (ya1)))) * (xa1) + (((ya0) + (ya0)) * ((ya1) + (ya1)) + ((ya1) + (ya1)) * ((ya0) + (ya0))) * (xa0)) + ((((ya0) + (ya0)) * ((ya0) + (ya0)) - 2 * (((ya1) + (ya1)) * ((ya1) + (ya1)))) * (xa1) + (((ya0) + (ya0)) * ((ya1) + (ya1)) + ((ya1) + (ya1)) * ((ya0) + (ya0))) * (xa0)))) * ((W0) * (W1) + (W1) * (W0))))) * ((lam0) * (((ya0) + (ya0)) * (W0) - 2 * (((ya1) + (ya1)) * (W1))) - 2 * ((lam1) * (((ya0) + (ya0)) * (W1) + ((ya1) + (ya1)) * (W0)))) - 2 * ((((s0) * ((((ya0) + (ya0)) * (W0) - 2 * (((ya1) + (ya1)) * (W1))) * (((ya0) + (ya0)) * (W1) + ((ya1) + (ya1)) * (W0)) + (((ya0) + (ya0)) * (W1) + ((ya1) + (ya1)) * (W0)) * (((ya0) + (ya0)) * (W0) - 2 * (((ya1) + (ya1)) * (W1)))) + (s1) * ((((ya0) + (ya0)) * (W0) - 2 * (((ya1) + (ya1)) * (W1))) * (((ya0) + (ya0)) * (W0) - 2 * (((ya1) + (ya1)) * (W1))) - 2 * ((((ya0) + (ya0)) * (W1) + ((ya1) + (ya1)) * (W0)) * (((ya0) + (ya0)) * (W1) + ((ya1) + (ya1)) * (W0))))) - (((((((xa0) * (xa0) - 2 * ((xa1) * (xa1))) + ((xa0) * (xa0) - 2 * ((xa1) * (xa1)))) + ((xa0) * (xa0) - 2 * ((xa1) * (xa1)))) * ((((xa0) * (xa0) - 2 * ((xa1) * (xa1))) + ((xa0) * (xa0) - 2 * ((xa1) * (xa1)))) + ((xa0) * (xa0) - 2 * ((xa1) * (xa1)))) - 2 * (((((xa0) * (xa1) + (xa1) * (xa0)) + ((xa0) * (xa1) + (xa1) * (xa0))) + ((xa0) * (xa1) + (xa1) * (xa0))) * ((((xa0) * (xa1) + (xa1) * (xa0)) + ((xa0) * (xa1) + (xa1) * (xa0))) + ((xa0) * (xa1) + (xa1) * (xa0))))) - (((((ya0) + (ya0)) * ((ya0) + (ya0)) - 2 * (((ya1) + (ya1)) * ((ya1) + (ya1)))) * (xa0) - 2 * ((((ya0) + (ya0)) * ((ya1) + (ya1)) + ((ya1) + (ya1)) * ((ya0) + (ya0))) * (xa1))) + ((((ya0) + (ya0)) * ((ya0) + (ya0)) - 2 * (((ya1) + (ya1)) * ((ya1) + (ya1)))) * (xa0) - 2 * ((((ya0) + (ya0)) * ((ya1) + (ya1)) + ((ya1) + (ya1)) * ((ya0) + (ya0))) * (xa1))))) * ((W0) * (W1) + (W1) * (W0)) + ((((((xa0) * (xa0) - 2 * ((xa1) * (xa1))) + ((xa0) * (xa0) - 2 * ((xa1) * (xa1)))) + ((xa0) * (xa0) - 2 * ((xa1) * (xa1)))) * ((((xa0) * (xa1) + (xa1) * (xa0)) + ((xa0) * (xa1) + (xa1) * (xa0))) + ((xa0) * (xa1) + (xa1) * (xa0))) + ((((xa0) * (xa1) + (xa1) * (xa0)) + ((xa0) * (xa1) + (xa1) * (xa0))) + ((xa0) * (xa1) + (xa1) * (xa0))) * ((((xa0) * (xa0) - 2 * ((xa1) * (xa1))) + ((xa0) * (xa0) - 2 * ((xa1) * (xa1)))) + ((xa0) * (xa0) - 2 * ((xa1) * (xa1))))) - (((((ya0) + (ya0)) * ((ya0) + (ya0)) - 2 * (((ya1) + (ya1)) * ((ya1) + (ya1)))) * (xa1) + (((ya0) + (ya0)) * ((ya1) + (ya1)) + ((ya1) + (ya1)) * ((ya0) + (ya0))) * (xa0)) + ((((ya0) + (ya0)) * ((ya0) + (ya0)) - 2 * (((ya1) + (ya1)) * ((ya1) + (ya1)))) * (xa1) + (((ya0) + (ya0)) * ((ya1) + (ya1)) + ((ya1) + (ya1)) * ((ya0) + (ya0))) * (xa0)))) * ((W0) * (W0) - 2 * ((W1) * (W1))))) * ((lam0) * (((ya0) + (ya0)) * (W1) + ((ya1) + (ya1)) * (W0)) + (lam1) * (((ya0) + (ya0)) * (W0) - 2 * (((ya1) + (ya1)) * (W1))))))
{ }
#[verifier::external_body]
proof fn ring_tan_y_1(xa0: int, xa1: int, ya0: int, ya1: int, lam0: int, lam1: int, s0: int, s1: int, W0: int, W1: int)
    ensures ((((lam0) * ((xa0) - (s0)) - 2 * ((lam1) * ((xa1) - (s1)))) - (ya0)) * (((((ya0) + (ya0)) * (W0) - 2 * (((ya1) + (ya1)) * (W1))) * (((ya0) + (ya0)) * (W0) - 2 * (((ya1) + (ya1)) * (W1))) - 2 * ((((ya0) + (ya0)) * (W1) + ((ya1) + (ya1)) * (W0)) * (((ya0) + (ya0)) * (W1) + ((ya1) + (ya1)) * (W0)))) * (((ya0) + (ya0)) * (W1) + ((ya1) + (ya1)) * (W0)) + ((((ya0) + (ya0)) * (W0) - 2 * (((ya1) + (ya1)) * (W1))) * (((ya0) + (ya0)) * (W1) + ((ya1) + (ya1)) * (W0)) + (((ya0) + (ya0)) * (W1) + ((ya1) + (ya1)) * (W0)) * (((ya0) + (ya0)) * (W0) - 2 * (((ya1) + (ya1)) * (W1)))) * (((ya0) + (ya0)) * (W0) - 2 * (((ya1) + (ya1)) * (W1)))) + (((lam0) * ((xa1) - (s1)) + (lam1) * ((xa0) - (s0))) - (ya1)) * (((((ya0) + (ya0)) * (W0) - 2 * (((ya1) + (ya1)) * (W1))) * (((ya0) + (ya0)) * (W0) - 2 * (((ya1) + (ya1)) * (W1))) - 2 * ((((ya0) + (ya0)) * (W1) + ((ya1) + (ya1)) * (W0)) * (((ya0) + (ya0)) * (W1) + ((ya1) + (ya1)) * (W0)))) * (((ya0) + (ya0)) * (W0) - 2 * (((ya1) + (ya1)) * (W1))) - 2 * (((((ya0) + (ya0)) * (W0) - 2 * (((ya1) + (ya1)) * (W1))) * (((ya0) + (ya0)) * (W1) + ((ya1) + (ya1)) * (W0)) + (((ya0) + (ya0)) * (W1) + ((ya1) + (ya1)) * (W0)) * (((ya0) + (ya0)) * (W0) - 2 * (((ya1) + (ya1)) * (W1)))) * (((ya0) + (ya0)) * (W1) + ((ya1) + (ya1)) * (W0))))) - (((((((xa0) * (xa0) - 2 * ((xa1) * (xa1))) + ((xa0) * (xa0) - 2 * ((xa1) * (xa1)))) + ((xa0) * (xa0) - 2 * ((xa1) * (xa1)))) * (((((ya0) + (ya0)) * ((ya0) + (ya0)) - 2 * (((ya1) + (ya1)) * ((ya1) + (ya1)))) * (xa0) - 2 * ((((ya0) + (ya0)) * ((ya1) + (ya1)) + ((ya1) + (ya1)) * ((ya0) + (ya0))) * (xa1))) - ((((((xa0) * (xa0) - 2 * ((xa1) * (xa1))) + ((xa0) * (xa0) - 2 * ((xa1) * (xa1)))) + ((xa0) * (xa0) - 2 * ((xa1) * (xa1)))) * ((((xa0) * (xa0) - 2 * ((xa1) * (xa1))) + ((xa0) * (xa0) - 2 * ((xa1) * (xa1)))) + ((xa0) * (xa0) - 2 * ((xa1) * (xa1)))) - 2 * (((((xa0) * (xa1) + (xa1) * (xa0)) + ((xa0) * (xa1) + (xa1) * (xa0))) + ((xa0) * (xa1) + (xa1) * (xa0))) * ((((xa0) * (xa1) + (xa1) * (xa0)) + ((xa0) * (xa1) + (xa1) * (xa0))) + ((xa0) * (xa1) + (xa1) * (xa0))))) - (((((ya0) + (ya0)) * ((ya0) + (ya0)) - 2 * (((ya1) + (ya1)) * ((ya1) + (ya1)))) * (xa0) - 2 * ((((ya0) + (ya0)) * ((ya1) + (ya1)) + ((ya1) + (ya1)) * ((ya0) + (ya0))) * (xa1))) + ((((ya0) + (ya0)) * ((ya0) + (ya0)) - 2 * (((ya1) + (ya1)) * ((ya1) + (ya1)))) * (xa0) - 2 * ((((ya0) + (ya0)) * ((ya1) + (ya1)) + ((ya1) + (ya1)) * ((ya0) + (ya0))) * (xa1)))))) - 2 * (((((xa0) * (xa1) + (xa1) * (xa0)) + ((xa0) * (xa1) + (xa1) * (xa0))) + ((xa0) * (xa1) + (xa1) * (xa0))) * (((((ya0) + (ya0)) * ((ya0) + (ya0)) - 2 * (((ya1) + (ya1)) * ((ya1) + (ya1)))) * (xa1) + (((ya0) + (ya0)) * ((ya1) + (ya1)) + ((ya1) + (ya1)) * ((ya0) + (ya0))) * (xa0)) - ((((((xa0) * (xa0) - 2 * ((xa1) * (xa1))) + ((xa0) * (xa0) - 2 * ((xa1) * (xa1)))) + ((xa0) * (xa0) - 2 * ((xa1) * (xa1)))) * ((((xa0) * (xa1) + (xa1) * (xa0)) + ((xa0) * (xa1) + (xa1) * (xa0))) + ((xa0) * (xa1) + (xa1) * (xa0))) + ((((xa0) * (xa1) + (xa1) * (xa0)) + ((xa0) * (xa1) + (xa1) * (xa0))) + ((xa0) * (xa1) + (xa1) * (xa0))) * ((((xa0) * (xa0) - 2 * ((xa1) * (xa1))) + ((xa0) * (xa0) - 2 * ((xa1) * (xa1)))) + ((xa0) * (xa0) - 2 * ((xa1) * (xa1))))) - (((((ya0) + (ya0)) * ((ya0) + (ya0)) - 2 * (((ya1) + (ya1)) * ((ya1) + (ya1)))) * (xa1) + (((ya0) + (ya0)) * ((ya1) + (ya1)) + ((ya1) + (ya1)) * ((ya0) + (ya0))) * (xa0)) + ((((ya0) + (ya0)) * ((ya0) + (ya0)) - 2 * (((ya1) + (ya1)) * ((ya1) + (ya1)))) * (xa1) + (((ya0) + (ya0)) * ((ya1) + (ya1)) + ((ya1) + (ya1)) * ((ya0) + (ya0))) * (xa0))))))) - (8 * (((ya0) * (ya0) - 2 * ((ya1) * (ya1))) * ((ya0) * (ya0) - 2 * ((ya1) * (ya1))) - 2 * (((ya0) * (ya1) + (ya1) * (ya0)) * ((ya0) * (ya1) + (ya1) * (ya0)))))) * (((W0) * (W0) - 2 * ((W1) * (W1))) * (W1) + ((W0) * (W1) + (W1) * (W0)) * (W0)) + ((((((xa0) * (xa0) - 2 * ((xa1) * (xa1))) + ((xa0) * (xa0) - 2 * ((xa1) * (xa1)))) + ((xa0) * (xa0) - 2 * ((xa1) * (xa1)))) * (((((ya0) + (ya0)) * ((ya0) + (ya0)) - 2 * (((ya1) + (ya1)) * ((ya1) + (ya1)))) * (xa1) + (((ya0) + (ya0)) * ((ya1) + (ya1)) + ((ya1) + (ya1)) * ((ya0) + (ya0))) * (xa0)) - ((((((xa0) * (xa0) - 2 * ((xa1) * (xa1))) + ((xa0) * (xa0) - 2 * ((xa1) * (xa1)))) + ((xa0) * (xa0) - 2 * ((xa1) * (xa1)))) * ((((xa0) * (xa1) + (xa1) * (xa0)) + ((xa0) * (xa1) + (xa1) * (xa0))) + ((xa0) * (xa1) + (xa1) * (xa0))) + ((((xa0) * (xa1) + (xa1) * (xa0)) + ((xa0) * (xa1) + (xa1) * (xa0))) + ((xa0) * (xa1) + (xa1) * (xa0))) * ((((xa0) * (xa0) - 2 * ((xa1) * (xa1))) + ((xa0) * (xa0) - 2 * ((xa1) * (xa1)))) + ((xa0) * (xa0) - 2 * ((xa1) * (xa1))))) - (((((ya0) + (ya0)) * ((ya0) + (ya0)) - 2 * (((ya1) + (ya1)) * ((ya1) + (ya1)))) * (xa1) + (((ya0) + (ya0)) * ((ya1) + (ya1)) + ((ya1) + (ya1)) * ((ya0) + (ya0))) * (xa0)) + ((((ya0) + (ya0)) * ((ya0) + (ya0)) - 2 * (((ya1) + (ya1)) * ((ya1) + (ya1)))) * (xa1) + (((ya0) + (ya0)) * ((ya1) + (ya1)) + ((ya1) + (ya1)) * ((ya0) + (ya0))) * (xa0))))) + ((((xa0) * (xa1) + (xa1) * (xa0)) + ((xa0) * (xa1) + (xa1) * (xa0))) + ((xa0) * (xa1) + (xa1) * (xa0))) * (((((ya0) + (ya0)) * ((ya0) + (ya0)) - 2 * (((ya1) + (ya1)) * ((ya1) + (ya1)))) * (xa0) - 2 * ((((ya0) + (ya0)) * ((ya1) + (ya1)) + ((ya1) + (ya1)) * ((ya0) + (ya0))) * (xa1))) - ((((((xa0) * (xa0) - 2 * ((xa1) * (xa1))) + ((xa0) * (xa0) - 2 * ((xa1) * (xa1)))) + ((xa0) * (xa0) - 2 * ((xa1) * (xa1)))) * ((((xa0) * (xa0) - 2 * ((xa1) * (xa1))) + ((xa0) * (xa0) - 2 * ((xa1) * (xa1)))) + ((xa0) * (xa0) - 2 * ((xa1) * (xa1)))) - 2 * (((((xa0) * (xa1) + (xa1) * (xa0)) + ((xa0) * (xa1) + (xa1) * (xa0))) + ((xa0) * (xa1) + (xa1) * (xa0))) * ((((xa0) * (xa1) + (xa1) * (xa0)) + ((xa0) * (xa1) + (xa1) * (xa0))) + ((xa0) * (xa1) + (xa1) * (xa0))))) - (((((ya0) + (ya0)) * ((ya0) + (ya0)) - 2 * (((ya1) + (ya1)) * ((ya1) + (ya1)))) * (xa0) - 2 * ((((ya0) + (ya0)) * ((ya1) + (ya1)) + ((ya1) + (ya1)) * ((ya0) + (ya0))) * (xa1))) + ((((ya0) + (ya0)) * ((ya0) + (ya0)) - 2 * (((ya1) + (ya1)) * ((ya1) + (ya1)))) * (xa0) - 2 * ((((ya0) + (ya0)) * ((ya1) + (ya1)) + ((ya1) + (ya1)) * ((ya0) + (ya0))) * (xa1))))))) - (8 * (((ya0) * (ya0) - 2 * ((ya1) * (ya1))) * ((ya0) * (ya1) + (ya1) * (ya0)) + ((ya0) * (ya1) + (ya1) * (ya0)) * ((ya0) * (ya0) - 2 * ((ya1) * (ya1)))))) * (((W0) * (W0) - 2 * ((W1) * (W1))) * (W0) - 2 * (((W0) * (W1) + (W1) * (W0)) * (W1))))
        == ((((lam0) * ((ya0) + (ya0)) - 2 * ((lam1) * ((ya1) + (ya1)))) - ((((xa0) * (xa0) - 2 * ((xa1) * (xa1))) + ((xa0) * (xa0) - 2 * ((xa1) * (xa1)))) + ((xa0) * (xa0) - 2 * ((xa1) * (xa1))))) * ((((W0) * (W0) - 2 * ((W1) * (W1))) * (W0) - 2 * (((W0) * (W1) + (W1) * (W0)) * (W1))) * (((((ya0) + (ya0)) * ((ya0) + (ya0)) - 2 * (((ya1) + (ya1)) * ((ya1) + (ya1)))) * (xa1) + (((ya0) + (ya0)) * ((ya1) + (ya1)) + ((ya1) + (ya1)) * ((ya0) + (ya0))) * (xa0)) - ((((((xa0) * (xa0) - 2 * ((xa1) * (xa1))) + ((xa0) * (xa0) - 2 * ((xa1) * (xa1)))) + ((xa0) * (xa0) - 2 * ((xa1) * (xa1)))) * ((((xa0) * (xa1) + (xa1) * (xa0)) + ((xa0) * (xa1) + (xa1) * (xa0))) + ((xa0) * (xa1) + (xa1) * (xa0))) + ((((xa0) * (xa1) + (xa1) * (xa0)) + ((xa0) * (xa1) + (xa1) * (xa0))) + ((xa0) * (xa1) + (xa1) * (xa0))) * ((((xa0) * (xa0) - 2 * ((xa1) * (xa1))) + ((xa0) * (xa0) - 2 * ((xa1) * (xa1)))) + ((xa0) * (xa0) - 2 * ((xa1) * (xa1))))) - (((((ya0) + (ya0)) * ((ya0) + (ya0)) - 2 * (((ya1) + (ya1)) * ((ya1) + (ya1)))) * (xa1) + (((ya0) + (ya0)) * ((ya1) + (ya1)) + ((ya1) + (ya1)) * ((ya0) + (ya0))) * (xa0)) + ((((ya0) + (ya0)) * ((ya0) + (ya0)) - 2 * (((ya1) + (ya1)) * ((ya1) + (ya1)))) * (xa1) + (((ya0) + (ya0)) * ((ya1) + (ya1)) + ((ya1) + (ya1)) * ((ya0) + (ya0))) * (xa0))))) + (((W0) * (W0) - 2 * ((W1) * (W1))) * (W1) + ((W0) * (W1) + (W1) * (W0)) * (W0)) * (((((ya0) + (ya0)) * ((ya0) + (ya0)) - 2 * (((ya1) + (ya1)) * ((ya1) + (ya1)))) * (xa0) - 2 * ((((ya0) + (ya0)) * ((ya1) + (ya1)) + ((ya1) + (ya1)) * ((ya0) + (ya0))) * (xa1))) - ((((((xa0) * (xa0) - 2 * ((xa1) * (xa1))) + ((xa0) * (xa0) - 2 * ((xa1) * (xa1)))) + ((xa0) * (xa0) - 2 * ((xa1) * (xa1)))) * ((((xa0) * (xa0) - 2 * ((xa1) * (xa1))) + ((xa0) * (xa0) - 2 * ((xa1) * (xa1)))) + ((xa0) * (xa0) - 2 * ((xa1) * (xa1)))) - 2 * (((((xa0) * (xa1) + (xa1) * (xa0)) + ((xa0) * (xa1) + (xa1) * (xa0))) + ((xa0) * (xa1) + (xa1) * (xa0))) * ((((xa0) * (xa1) + (xa1) * (xa0)) + ((xa0) * (xa1) + (xa1) * (xa0))) + ((xa0) * (xa1) + (xa1) * (xa0))))) - (((((ya0) + (ya0)) * ((ya0) + (ya0)) - 2 * (((ya1) + (ya1)) * ((ya1) + (ya1)))) * (xa0) - 2 * ((((ya0) + (ya0)) * ((ya1) + (ya1)) + ((ya1) + (ya1)) * ((ya0) + (ya0))) * (xa1))) + ((((ya0) + (ya0)) * ((ya0) + (ya0)) - 2 * (((ya1) + (ya1)) * ((ya1) + (ya1)))) * (xa0) - 2 * ((((ya0) + (ya0)) * ((ya1) + (ya1)) + ((ya1) + (ya1)) * ((ya0) + (ya0))) * (xa1))))))) + (((lam0) * ((ya1) + (ya1)) + (lam1) * ((ya0) + (ya0))) - ((((xa0) * (xa1) + (xa1) * (xa0)) + ((xa0) * (xa1) + (xa1) * (xa0))) + ((xa0) * (xa1) + (xa1) * (xa0)))) * ((((W0) * (W0) - 2 * ((W1) * (W1))) * (W0) - 2 * (((W0) * (W1) + (W1) * (W0)) * (W1))) * (((((ya0) + (ya0)) * ((ya0) + (ya0)) - 2 * (((ya1) + (ya1)) * ((ya1) + (ya1)))) * (xa0) - 2 * ((((ya0) + (ya0)) * ((ya1) + (ya1)) + ((ya1) + (ya1)) * ((ya0) + (ya0))) * (xa1))) - ((((((xa0) * (xa0) - 2 * ((xa1) * (xa1))) + ((xa0) * (xa0) - 2 * ((xa1) * (xa1)))) + ((xa0) * (xa0) - 2 * ((xa1) * (xa1)))) * ((((xa0) * (xa0) - 2 * ((xa1) * (xa1))) + ((xa0) * (xa0) - 2 * ((xa1) * (xa1)))) + ((xa0) * (xa0) - 2 * ((xa1) * (xa1)))) - 2 * (((((xa0) * (xa1) + (xa1) * (xa0)) + ((xa0) * (xa1) + (xa1) * (xa0))) + ((xa0) * (xa1) + (xa1) * (xa0))) * ((((xa0) * (xa1) + (xa1) * (xa0)) + ((xa0) * (xa1) + (xa1) * (xa0))) + ((xa0) * (xa1) + (xa1) * (xa0))))) - (((((ya0) + (ya0)) * ((ya0) + (ya0)) - 2 * (((ya1) + (ya1)) * ((ya1) + (ya1)))) * (xa0) - 2 * ((((ya0) + (ya0)) * ((ya1) + (ya1)) + ((ya1) + (ya1)) * ((ya0) + (ya0))) * (xa1))) + ((((ya0) + (ya0)) * ((ya0) + (ya0)) - 2 * (((ya1) + (ya1)) * ((ya1) + (ya1)))) * (xa0) - 2 * ((((ya0) + (ya0)) * ((ya1) + (ya1)) + ((ya1) + (ya1)) * ((ya0) + (ya0))) * (xa1)))))) - 2 * ((((W0) * (W0) - 2 * ((W1) * (W1))) * (W1) + ((W0) * (W1) + (W1) * (W0)) * (W0)) * (((((ya0) + (ya0)) * ((ya0) + (ya0)) - 2 * (((ya1) + (ya1)) * ((ya1) + (ya1)))) * (xa1) + (((ya0) + (ya0)) * ((ya1) + (ya1)) + ((ya1) + (ya1)) * ((ya0) + (ya0))) * (xa0)) - ((((((xa0) * (xa0) - 2 * ((xa1) * (xa1))) + ((xa0) * (xa0) - 2 * ((xa1) * (xa1)))) + ((xa0) * (xa0) - 2 * ((xa1) * (xa1)))) * ((((xa0) * (xa1) + (xa1) * (xa0)) + ((xa0) * (xa1) + (xa1) * (xa0))) + ((xa0) * (xa1) + (xa1) * (xa0))) + ((((xa0) * (xa1) + (xa1) * (xa0)) + ((xa0) * (xa1) + (xa1) * (xa0))) + ((xa0) * (xa1) + (xa1) * (xa0))) * ((((xa0) * (xa0) - 2 * ((xa1) * (xa1))) + ((xa0) * (xa0) - 2 * ((xa1) * (xa1)))) + ((xa0) * (xa0) - 2 * ((xa1) * (xa1))))) - (((((ya0) + (ya0)) * ((ya0) + (ya0)) - 2 * (((ya1) + (ya1)) * ((ya1) + (ya1)))) * (xa1) + (((ya0) + (ya0)) * ((ya1) + (ya1)) + ((ya1) + (ya1)) * ((ya0) + (ya0))) * (xa0)) + ((((ya0) + (ya0)) * ((ya0) + (ya0)) - 2 * (((ya1) + (ya1)) * ((ya1) + (ya1)))) * (xa1) + (((ya0) + (ya0)) * ((ya1) + (ya1)) + ((ya1) + (ya1)) * ((ya0) + (ya0))) * (xa0)))))))) - ((((s0) * ((((ya0) + (ya0)) * (W0) - 2 * (((ya1) + (ya1)) * (W1))) * (((ya0) + (ya0)) * (W0) - 2 * (((ya1) + (ya1)) * (W1))) - 2 * ((((ya0) + (ya0)) * (W1) + ((ya1) + (ya1)) * (W0)) * (((ya0) + (ya0)) * (W1) + ((ya1) + (ya1)) * (W0)))) - 2 * ((s1) * ((((ya0) + (ya0)) * (W0) - 2 * (((ya1) + (ya1)) * (W1))) * (((ya0) + (ya0)) * (W1) + ((ya1) + (ya1)) * (W0)) + (((ya0) + (ya0)) * (W1) + ((ya1) + (ya1)) * (W0)) * (((ya0) + (ya0)) * (W0) - 2 * (((ya1) + (ya1)) * (W1)))))) - (((((((xa0) * (xa0) - 2 * ((xa1) * (xa1))) + ((xa0) * (xa0) - 2 * ((xa1) * (xa1)))) + ((xa0) * (xa0) - 2 * ((xa1) * (xa1)))) * ((((xa0) * (xa0) - 2 * ((xa1) * (xa1))) + ((xa0) * (xa0) - 2 * ((xa1) * (xa1)))) + ((xa0) * (xa0) - 2 * ((xa1) * (xa1)))) - 2 * (((((xa0) * (xa1) + (xa1) * (xa0)) + ((xa0) * (xa1) + (xa1) * (xa0))) + ((xa0) * (xa1) + (xa1) * (xa0))) * ((((xa0) * (xa1) + (xa1) * (xa0)) + ((xa0) * (xa1) + (xa1) * (xa0))) + ((xa0) * (xa1) + (xa1) * (xa0))))) - (((((ya0) + (ya0)) * ((ya0) + (ya0)) - 2 * (((ya1) + (ya1)) * ((ya1) + (ya1)))) * (xa0) - 2 * ((((ya0) + (ya0)) * ((ya1) + (ya1)) + ((ya1) + (ya1)) * ((ya0) + (ya0))) * (xa1))) + ((((ya0) + (ya0)) * ((ya0) + (ya0)) - 2 * (((ya1) + (ya1)) * ((ya1) + (ya1)))) * (xa0) - 2 * ((((ya0) + (ya0)) * ((ya1) + (ya1)) + ((ya1) + (ya1)) * ((ya0) + (ya0))) * (xa1))))) * ((W0) * (W0) - 2 * ((W1) * (W1))) - 2 * (((((((xa0) * (xa0) - 2 * ((xa1) * (xa1))) + ((xa0) * (xa0) - 2 * ((xa1) * (xa1)))) + ((xa0) * (xa0) - 2 * ((xa1) * (xa1)))) * ((((xa0) * (xa1) + (xa1) * (xa0)) + ((xa0) * (xa1) + (xa1) * (xa0))) + ((xa0) * (xa1) + (xa1) * (xa0))) + ((((xa0) * (xa1) + (xa1) * (xa0)) + ((xa0) * (xa1) + (xa1) * (xa0))) + ((xa0) * (xa1) + (xa1) * (xa0))) * ((((xa0) * (xa0) - 2 * ((xa1) * (xa1))) + ((xa0) * (xa0) - 2 * ((xa1) * (xa1)))) + ((xa0) * (xa0) - 2 * ((xa1) * (xa1))))) - (((((ya0) + (ya0)) * ((ya0) + (ya0)) - 2 * (((ya1) + (ya1)) * ((ya1) + (ya1)))) * (xa1) + (((ya0) + (ya0)) * ((ya1) + (ya1)) + ((ya1) + (ya1)) * ((ya0) + (ya0))) * (xa0)) + ((((ya0) + (ya0)) * ((ya0) + (ya0)) - 2 * (((ya1) + (ya1)) * ((ya1) + (ya1)))) * (xa1) + (((ya0) + (ya0)) * ((ya1) + (ya1)) + ((ya1) + (ya1)) * ((ya0) + (ya0))) * (xa0)))) * ((W0) * (W1) + (W1) * (W0))))) * ((lam0) * (((ya0) + (ya0)) * (W1) + ((ya1) + (ya1)) * (W0)) + (lam1) * (((ya0) + (ya0)) * (W0) - 2 * (((ya1) + (ya1)) * (W1)))) + (((s0) * ((((ya0) + (ya0)) * (W0) - 2 * (((ya1) + (ya1)) * (W1))) * (((ya0) + (ya0)) * (W1) + ((ya1) + (ya1)) * (W0)) + (((ya0) + (ya0)) * (W1) + ((ya1) + (ya1)) * (W0)) * (((ya0) + (ya0)) * (W0) - 2 * (((ya1) + (ya1)) * (W1)))) + (s1) * ((((ya0) + (ya0)) * (W0) - 2 * (((ya1) + (ya1)) * (W1))) * (((ya0) + (ya0)) * (W0) - 2 * (((ya1) + (ya1)) * (W1))) - 2 * ((((ya0) + (ya0)) * (W1) + ((ya1) + (ya1)) * (W0)) * (((ya0) + (ya0)) * (W1) + ((ya1) + (ya1)) * (W0))))) - (((((((xa0) * (xa0) - 2 * ((xa1) * (xa1))) + ((xa0) * (xa0) - 2 * ((xa1) * (xa1)))) + ((xa0) * (xa0) - 2 * ((xa1) * (xa1)))) * ((((xa0) * (xa0) - 2 * ((xa1) * (xa1))) + ((xa0) * (xa0) - 2 * ((xa1) * (xa1)))) + ((xa0) * (xa0) - 2 * ((xa1) * (xa1)))) - 2 * (((((xa0) * (xa1) + (xa1) * (xa0)) + ((xa0) * (xa1) + (xa1) * (xa0))) + ((xa0) * (xa1) + (xa1) * (xa0))) * ((((xa0) * (xa1) + (xa1) * (xa0)) + ((xa0) * (xa1) + (xa1) * (xa0))) + ((xa0) * (xa1) + (xa1) * (xa0))))) - (((((ya0) + (ya0)) * ((ya0) + (ya0)) - 2 * (((ya1) + (ya1)) * ((ya1) + (ya1)))) * (xa0) - 2 * ((((ya0) + (ya0)) * ((ya1) + (ya1)) + ((ya1) + (ya1)) * ((ya0) + (ya0))) * (xa1))) + ((((ya0) + (ya0)) * ((ya0) + (ya0)) - 2 * (((ya1) + (ya1)) * ((ya1) + (ya1)))) * (xa0) - 2 * ((((ya0) + (ya0)) * ((ya1) + (ya1)) + ((ya1) + (ya1)) * ((ya0) + (ya0))) * (xa1))))) * ((W0) * (W1) + (W1) * (W0)) + ((((((xa0) * (xa0) - 2 * ((xa1) * (xa1))) + ((xa0) * (xa0) - 2 * ((xa1) * (xa1)))) + ((xa0) * (xa0) - 2 * ((xa1) * (xa1)))) * ((((xa0) * (xa1) + (xa1) * (xa0)) + ((xa0) * (xa1) + (xa1) * (xa0))) + ((xa0) * (xa1) + (xa1) * (xa0))) + ((((xa0) * (xa1) + (xa1) * (xa0)) + ((xa0) * (xa1) + (xa1) * (xa0))) + ((xa0) * (xa1) + (xa1) * (xa0))) * ((((xa0) * (xa0) - 2 * ((xa1) * (xa1))) + ((xa0) * (xa0) - 2 * ((xa1) * (xa1)))) + ((xa0) * (xa0) - 2 * ((xa1) * (xa1))))) - (((((ya0) + (ya0)) * ((ya0) + (ya0)) - 2 * (((ya1) + (ya1)) * ((ya1) + (ya1)))) * (xa1) + (((ya0) + (ya0)) * ((ya1) + (ya1)) + ((ya1) + (ya1)) * ((ya0) + (ya0))) * (xa0)) + ((((ya0) + (ya0)) * ((ya0) + (ya0)) - 2 * (((ya1) + (ya1)) * ((ya1) + (ya1)))) * (xa1) + (((ya0) + (ya0)) * ((ya1) + (ya1)) + ((ya1) + (ya1)) * ((ya0) + (ya0))) * (xa0)))) * ((W0) * (W0) - 2 * ((W1) * (W1))))) * ((lam0) * (((ya0) + (ya0)) * (W0) - 2 * (((ya1) + (ya1)) * (W1))) - 2 * ((lam1) * (((ya0) + (ya0)) * (W1) + ((ya1) + (ya1)) * (W0)))))
{ }
proof fn qr_chord_x(x1: F2, y1: F2, x2: F2, y2: F2, lam: F2, W: F2)
    ensures q_sub(q_mul(q_sub(q_sub(q_mul(lam, lam), x1), x2), q_mul(q_mul(q_sub(x2, x1), W), q_mul(q_sub(x2, x1), W))), q_mul(q_sub(q_mul(q_sub(y2, y1), q_sub(y2, y1)), q_mul(q_add(x1, x2), q_mul(q_sub(x2, x1), q_sub(x2, x1)))), q_mul(W, W)))
        == q_mul(q_sub(q_mul(lam, q_sub(x2, x1)), q_sub(y2, y1)), q_mul(q_add(q_mul(lam, q_sub(x2, x1)), q_sub(y2, y1)), q_mul(W, W)))
{
    reveal(q_add); reveal(q_sub); reveal(q_mul); reveal(q_k); reveal(q_c);
    ring_chord_x_0(x1.c0, x1.c1, y1.c0, y1.c1, x2.c0, x2.c1, y2.c0, y2.c1, lam.c0, lam.c1, W.c0, W.c1); ring_chord_x_1(x1.c0, x1.c1, y1.c0, y1.c1, x2.c0, x2.c1, y2.c0, y2.c1, lam.c0, lam.c1, W.c0, W.c1);
}
#[verifier::external_body]
proof fn ring_chord_x_0(x10: int, x11: int, y10: int, y11: int, x20: int, x21: int, y20: int, y21: int, lam0: int, lam1: int, W0: int, W1: int)
    ensures (((((lam0) * (lam0) - 2 * ((lam1) * (lam1))) - (x10)) - (x20)) * ((((x20) - (x10)) * (W0) - 2 * (((x21) - (x11)) * (W1))) * (((x20) - (x10)) * (W0) - 2 * (((x21) - (x11)) * (W1))) - 2 * ((((x20) - (x10)) * (W1) + ((x21) - (x11)) * (W0)) * (((x20) - (x10)) * (W1) + ((x21) - (x11)) * (W0)))) - 2 * (((((lam0) * (lam1) + (lam1) * (lam0)) - (x11)) - (x21)) * ((((x20) - (x10)) * (W0) - 2 * (((x21) - (x11)) * (W1))) * (((x20) - (x10)) * (W1) + ((x21) - (x11)) * (W0)) + (((x20) - (x10)) * (W1) + ((x21) - (x11)) * (W0)) * (((x20) - (x10)) * (W0) - 2 * (((x21) - (x11)) * (W1)))))) - (((((y20) - (y10)) * ((y20) - (y10)) - 2 * (((y21) - (y11)) * ((y21) - (y11)))) - (((x10) + (x20)) * (((x20) - (x10)) * ((x20) - (x10)) - 2 * (((x21) - (x11)) * ((x21) - (x11)))) - 2 * (((x11) + (x21)) * (((x20) - (x10)) * ((x21) - (x11)) + ((x21) - (x11)) * ((x20) - (x10)))))) * ((W0) * (W0) - 2 * ((W1) * (W1))) - 2 * (((((y20) - (y10)) * ((y21) - (y11)) + ((y21) - (y11)) * ((y20) - (y10))) - (((x10) + (x20)) * (((x20) - (x10)) * ((x21) - (x11)) + ((x21) - (x11)) * ((x20) - (x10))) + ((x11) + (x21)) * (((x20) - (x10)) * ((x20) - (x10)) - 2 * (((x21) - (x11)) * ((x21) - (x11)))))) * ((W0) * (W1) + (W1) * (W0))))
        == (((lam0) * ((x20) - (x10)) - 2 * ((lam1) * ((x21) - (x11)))) - ((y20) - (y10))) * ((((lam0) * ((x20) - (x10)) - 2 * ((lam1) * ((x21) - (x11)))) + ((y20) - (y10))) * ((W0) * (W0) - 2 * ((W1) * (W1))) - 2 * ((((lam0) * ((x21) - (x11)) + (lam1) * ((x20) - (x10))) + ((y21) - (y11))) * ((W0) * (W1) + (W1) * (W0)))) - 2 * ((((lam0) * ((x21) - (x11)) + (lam1) * ((x20) - (x10))) - ((y21) - (y11))) * ((((lam0) * ((x20) - (x10)) - 2 * ((lam1) * ((x21) - (x11)))) + ((y20) - (y10))) * ((W0) * (W1) + (W1) * (W0)) + (((lam0) * ((x21) - (x11)) + (lam1) * ((x20) - (x10))) + ((y21) - (y11))) * ((W0) * (W0) - 2 * ((W1) * (W1)))))
{ }
#[verifier::external_body]
proof fn ring_chord_x_1(x10: int, x11: int, y10: int, y11: int, x20: int, x21: int, y20: int, y21: int, lam0: int, lam1: int, W0: int, W1: int)
    ensures (((((lam0) * (lam0) - 2 * ((lam1) * (lam1))) - (x10)) - (x20)) * ((((x20) - (x10)) * (W0) - 2 * (((x21) - (x11)) * (W1))) * (((x20) - (x10)) * (W1) + ((x21) - (x11)) * (W0)) + (((x20) - (x10)) * (W1) + ((x21) - (x11)) * (W0)) * (((x20) - (x10)) * (W0) - 2 * (((x21) - (x11)) * (W1)))) + ((((lam0) * (lam1) + (lam1) * (lam0)) - (x11)) - (x21)) * ((((x20) - (x10)) * (W0) - 2 * (((x21) - (x11)) * (W1))) * (((x20) - (x10)) * (W0) - 2 * (((x21) - (x11)) * (W1))) - 2 * ((((x20) - (x10)) * (W1) + ((x21) - (x11)) * (W0)) * (((x20) - (x10)) * (W1) + ((x21) - (x11)) * (W0))))) - (((((y20) - (y10)) * ((y20) - (y10)) - 2 * (((y21) - (y11)) * ((y21) - (y11)))) - (((x10) + (x20)) * (((x20) - (x10)) * ((x20) - (x10)) - 2 * (((x21) - (x11)) * ((x21) - (x11)))) - 2 * (((x11) + (x21)) * (((x20) - (x10)) * ((x21) - (x11)) + ((x21) - (x11)) * ((x20) - (x10)))))) * ((W0) * (W1) + (W1) * (W0)) + ((((y20) - (y10)) * ((y21) - (y11)) + ((y21) - (y11)) * ((y20) - (y10))) - (((x10) + (x20)) * (((x20) - (x10)) * ((x21) - (x11)) + ((x21) - (x11)) * ((x20) - (x10))) + ((x11) + (x21)) * (((x20) - (x10)) * ((x20) - (x10)) - 2 * (((x21) - (x11)) * ((x21) - (x11)))))) * ((W0) * (W0) - 2 * ((W1) * (W1))))
        == (((lam0) * ((x20) - (x10)) - 2 * ((lam1) * ((x21) - (x11)))) - ((y20) - (y10))) * ((((lam0) * ((x20) - (x10)) - 2 * ((lam1) * ((x21) - (x11)))) + ((y20) - (y10))) * ((W0) * (W1) + (W1) * (W0)) + (((lam0) * ((x21) - (x11)) + (lam1) * ((x20) - (x10))) + ((y21) - (y11))) * ((W0) * (W0) - 2 * ((W1) * (W1)))) + (((lam0) * ((x21) - (x11)) + (lam1) * ((x20) - (x10))) - ((y21) - (y11))) * ((((lam0) * ((x20) - (x10)) - 2 * ((lam1) * ((x21) - (x11)))) + ((y20) - (y10))) * ((W0) * (W0) - 2 * ((W1) * (W1))) - 2 * ((((lam0) * ((x21) - (x11)) + (lam1) * ((x20) - (x10))) + ((y21) - (y11))) * ((W0) * (W1) + (W1) * (W0))))
{ }
proof fn qr_chord_y(x1: F2, y1: F2, x2: F2, y2: F2, lam: F2, s: F2, W: F2)
    ensures q_sub(q_mul(q_sub(q_mul(lam, q_sub(x1, s)), y1), q_mul(q_mul(q_mul(q_sub(x2, x1), W), q_mul(q_sub(x2, x1), W)), q_mul(q_sub(x2, x1), W))), q_mul(q_sub(q_mul(q_sub(y2, y1), q_sub(q_mul(x1, q_mul(q_sub(x2, x1), q_sub(x2, x1))), q_sub(q_mul(q_sub(y2, y1), q_sub(y2, y1)), q_mul(q_add(x1, x2), q_mul(q_sub(x2, x1), q_sub(x2, x1)))))), q_mul(y1, q_mul(q_mul(q_sub(x2, x1), q_sub(x2, x1)), q_sub(x2, x1)))), q_mul(q_mul(W, W), W)))
        == q_sub(q_mul(q_sub(q_mul(lam, q_sub(x2, x1)), q_sub(y2, y1)), q_mul(q_mul(q_mul(W, W), W), q_sub(q_mul(x1, q_mul(q_sub(x2, x1), q_sub(x2, x1))), q_sub(q_mul(q_sub(y2, y1), q_sub(y2, y1)), q_mul(q_add(x1, x2), q_mul(q_sub(x2, x1), q_sub(x2, x1))))))), q_mul(q_sub(q_mul(s, q_mul(q_mul(q_sub(x2, x1), W), q_mul(q_sub(x2, x1), W))), q_mul(q_sub(q_mul(q_sub(y2, y1), q_sub(y2, y1)), q_mul(q_add(x1, x2), q_mul(q_sub(x2, x1), q_sub(x2, x1)))), q_mul(W, W))), q_mul(lam, q_mul(q_sub(x2, x1), W))))
{
    reveal(q_add); reveal(q_sub); reveal(q_mul); reveal(q_k); reveal(q_c);
    ring_chord_y_0(x1.c0, x1.c1, y1.c0, y1.c1, x2.c0, x2.c1, y2.c0, y2.c1, lam.c0, lam.c1, s.c0, s.c1, W.c0, W.c1); ring_chord_y_1(x1.c0, x1.c1, y1.c0, y1.c1, x2.c0, x2.c1, y2.c0, y2.c1, lam.c0, lam.c1, s.c0, s.c1, W.c0, W.c1);
}
#[verifier::external_body]
proof fn ring_chord_y_0(x10: int, x11: int, y10: int, y11: int, x20: int, x21: int, y20: int, y21: int, lam0: int, lam1: int, s0: int, s1: int, W0: int, W1: int)
    ensures ((((lam0) * ((x10) - (s0)) - 2 * ((lam1) * ((x11) - (s1)))) - (y10)) * (((((x20) - (x10)) * (W0) - 2 * (((x21) - (x11)) * (W1))) * (((x20) - (x10)) * (W0) - 2 * (((x21) - (x11)) * (W1))) - 2 * ((((x20) - (x10)) * (W1) + ((x21) - (x11)) * (W0)) * (((x20) - (x10)) * (W1) + ((x21) - (x11)) * (W0)))) * (((x20) - (x10)) * (W0) - 2 * (((x21) - (x11)) * (W1))) - 2 * (((((x20) - (x10)) * (W0) - 2 * (((x21) - (x11)) * (W1))) * (((x20) - (x10)) * (W1) + ((x21) - (x11)) * (W0)) + (((x20) - (x10)) * (W1) + ((x21) - (x11)) * (W0)) * (((x20) - (x10)) * (W0) - 2 * (((x21) - (x11)) * (W1)))) * (((x20) - (x10)) * (W1) + ((x21) - (x11)) * (W0)))) - 2 * ((((lam0) * ((x11) - (s1)) + (lam1) * ((x10) - (s0))) - (y11)) * (((((x20) - (x10)) * (W0) - 2 * (((x21) - (x11)) * (W1))) * (((x20) - (x10)) * (W0) - 2 * (((x21) - (x11)) * (W1))) - 2 * ((((x20) - (x10)) * (W1) + ((x21) - (x11)) * (W0)) * (((x20) - (x10)) * (W1) + ((x21) - (x11)) * (W0)))) * (((x20) - (x10)) * (W1) + ((x21) - (x11)) * (W0)) + ((((x20) - (x10)) * (W0) - 2 * (((x21) - (x11)) * (W1))) * (((x20) - (x10)) * (W1) + ((x21) - (x11)) * (W0)) + (((x20) - (x10)) * (W1) + ((x21) - (x11)) * (W0)) * (((x20) - (x10)) * (W0) - 2 * (((x21) - (x11)) * (W1)))) * (((x20) - (x10)) * (W0) - 2 * (((x21) - (x11)) * (W1)))))) - (((((y20) - (y10)) * (((x10) * (((x20) - (x10)) * ((x20) - (x10)) - 2 * (((x21) - (x11)) * ((x21) - (x11)))) - 2 * ((x11) * (((x20) - (x10)) * ((x21) - (x11)) + ((x21) - (x11)) * ((x20) - (x10))))) - ((((y20) - (y10)) * ((y20) - (y10)) - 2 * (((y21) - (y11)) * ((y21) - (y11)))) - (((x10) + (x20)) * (((x20) - (x10)) * ((x20) - (x10)) - 2 * (((x21) - (x11)) * ((x21) - (x11)))) - 2 * (((x11) + (x21)) * (((x20) - (x10)) * ((x21) - (x11)) + ((x21) - (x11)) * ((x20) - (x10))))))) - 2 * (((y21) - (y11)) * (((x10) * (((x20) - (x10)) * ((x21) - (x11)) + ((x21) - (x11)) * ((x20) - (x10))) + (x11) * (((x20) - (x10)) * ((x20) - (x10)) - 2 * (((x21) - (x11)) * ((x21) - (x11))))) - ((((y20) - (y10)) * ((y21) - (y11)) + ((y21) - (y11)) * ((y20) - (y10))) - (((x10) + (x20)) * (((x20) - (x10)) * ((x21) - (x11)) + ((x21) - (x11)) * ((x20) - (x10))) + ((x11) + (x21)) * (((x20) - (x10)) * ((x20) - (x10)) - 2 * (((x21) - (x11)) * ((x21) - (x11))))))))) - ((y10) * ((((x20) - (x10)) * ((x20) - (x10)) - 2 * (((x21) - (x11)) * ((x21) - (x11)))) * ((x20) - (x10)) - 2 * ((((x20) - (x10)) * ((x21) - (x11)) + ((x21) - (x11)) * ((x20) - (x10))) * ((x21) - (x11)))) - 2 * ((y11) * ((((x20) - (x10)) * ((x20) - (x10)) - 2 * (((x21) - (x11)) * ((x21) - (x11)))) * ((x21) - (x11)) + (((x20) - (x10)) * ((x21) - (x11)) + ((x21) - (x11)) * ((x20) - (x10))) * ((x20) - (x10)))))) * (((W0) * (W0) - 2 * ((W1) * (W1))) * (W0) - 2 * (((W0) * (W1) + (W1) * (W0)) * (W1))) - 2 * (((((y20) - (y10)) * (((x10) * (((x20) - (x10)) * ((x21) - (x11)) + ((x21) - (x11)) * ((x20) - (x10))) + (x11) * (((x20) - (x10)) * ((x20) - (x10)) - 2 * (((x21) - (x11)) * ((x21) - (x11))))) - ((((y20) - (y10)) * ((y21) - (y11)) + ((y21) - (y11)) * ((y20) - (y10))) - (((x10) + (x20)) * (((x20) - (x10)) * ((x21) - (x11)) + ((x21) - (x11)) * ((x20) - (x10))) + ((x11) + (x21)) * (((x20) - (x10)) * ((x20) - (x10)) - 2 * (((x21) - (x11)) * ((x21) - (x11))))))) + ((y21) - (y11)) * (((x10) * (((x20) - (x10)) * ((x20) - (x10)) - 2 * (((x21) - (x11)) * ((x21) - (x11)))) - 2 * ((x11) * (((x20) - (x10)) * ((x21) - (x11)) + ((x21) - (x11)) * ((x20) - (x10))))) - ((((y20) - (y10)) * ((y20) - (y10)) - 2 * (((y21) - (y11)) * ((y21) - (y11)))) - (((x10) + (x20)) * (((x20) - (x10)) * ((x20) - (x10)) - 2 * (((x21) - (x11)) * ((x21) - (x11)))) - 2 * (((x11) + (x21)) * (((x20) - (x10)) * ((x21) - (x11)) + ((x21) - (x11)) * ((x20) - (x10)))))))) - ((y10) * ((((x20) - (x10)) * ((x20) - (x10)) - 2 * (((x21) - (x11)) * ((x21) - (x11)))) * ((x21) - (x11)) + (((x20) - (x10)) * ((x21) - (x11)) + ((x21) - (x11)) * ((x20) - (x10))) * ((x20) - (x10))) + (y11) * ((((x20) - (x10)) * ((x20) - (x10)) - 2 * (((x21) - (x11)) * ((x21) - (x11)))) * ((x20) - (x10)) - 2 * ((((x20) - (x10)) * ((x21) - (x11)) + ((x21) - (x11)) * ((x20) - (x10))) * ((x21) - (x11)))))) * (((W0) * (W0) - 2 * ((W1) * (W1))) * (W1) + ((W0) * (W1) + (W1) * (W0)) * (W0))))
        == ((((lam0) * ((x20) - (x10)) - 2 * ((lam1) * ((x21) - (x11)))) - ((y20) - (y10))) * ((((W0) * (W0) - 2 * ((W1) * (W1))) * (W0) - 2 * (((W0) * (W1) + (W1) * (W0)) * (W1))) * (((x10) * (((x20) - (x10)) * ((x20) - (x10)) - 2 * (((x21) - (x11)) * ((x21) - (x11)))) - 2 * ((x11) * (((x20) - (x10)) * ((x21) - (x11)) + ((x21) - (x11)) * ((x20) - (x10))))) - ((((y20) - (y10)) * ((y20) - (y10)) - 2 * (((y21) - (y11)) * ((y21) - (y11)))) - (((x10) + (x20)) * (((x20) - (x10)) * ((x20) - (x10)) - 2 * (((x21) - (x11)) * ((x21) - (x11)))) - 2 * (((x11) + (x21)) * (((x20) - (x10)) * ((x21) - (x11)) + ((x21) - (x11)) * ((x20) - (x10))))))) - 2 * ((((W0) * (W0) - 2 * ((W1) * (W1))) * (W1) + ((W0) * (W1) + (W1) * (W0)) * (W0)) * (((x10) * (((x20) - (x10)) * ((x21) - (x11)) + ((x21) - (x11)) * ((x20) - (x10))) + (x11) * (((x20) - (x10)) * ((x20) - (x10)) - 2 * (((x21) - (x11)) * ((x21) - (x11))))) - ((((y20) - (y10)) * ((y21) - (y11)) + ((y21) - (y11)) * ((y20) - (y10))) - (((x10) + (x20)) * (((x20) - (x10)) * ((x21) - (x11)) + ((x21) - (x11)) * ((x20) - (x10))) + ((x11) + (x21)) * (((x20) - (x10)) * ((x20) - (x10)) - 2 * (((x21) - (x11)) * ((x21) - (x11))))))))) - 2 * ((((lam0) * ((x21) - (x11)) + (lam1) * ((x20) - (x10))) - ((y21) - (y11))) * ((((W0) * (W0) - 2 * ((W1) * (W1))) * (W0) - 2 * (((W0) * (W1) + (W1) * (W0)) * (W1))) * (((x10) * (((x20) - (x10)) * ((x21) - (x11)) + ((x21) - (x11)) * ((x20) - (x10))) + (x11) * (((x20) - (x10)) * ((x20) - (x10)) - 2 * (((x21) - (x11)) * ((x21) - (x11))))) - ((((y20) - (y10)) * ((y21) - (y11)) + ((y21) - (y11)) * ((y20) - (y10))) - (((x10) + (x20)) * (((x20) - (x10)) * ((x21) - (x11)) + ((x21) - (x11)) * ((x20) - (x10))) + ((x11) + (x21)) * (((x20) - (x10)) * ((x20) - (x10)) - 2 * (((x21) - (x11)) * ((x21) - (x11))))))) + (((W0) * (W0) - 2 * ((W1) * (W1))) * (W1) + ((W0) * (W1) + (W1) * (W0)) * (W0)) * (((x10) * (((x20) - (x10)) * ((x20) - (x10)) - 2 * (((x21) - (x11)) * ((x21) - (x11)))) - 2 * ((x11) * (((x20) - (x10)) * ((x21) - (x11)) + ((x21) - (x11)) * ((x20) - (x10))))) - ((((y20) - (y10)) * ((y20) - (y10)) - 2 * (((y21) - (y11)) * ((y21) - (y11)))) - (((x10) + (x20)) * (((x20) - (x10)) * ((x20) - (x10)) - 2 * (((x21) - (x11)) * ((x21) - (x11)))) - 2 * (((x11) + (x21)) * (((x20) - (x10)) * ((x21) - (x11)) + ((x21) - (x11)) * ((x20) - (x10)))))))))) - ((((s0) * ((((x20) - (x10)) * (W0) - 2 * (((x21) - (x11)) * (W1))) * (((x20) - (x10)) * (W0) - 2 * (((x21) - (x11)) * (W1))) - 2 * ((((x20) - (x10)) * (W1) + ((x21) - (x11)) * (W0)) * (((x20) - (x10)) * (W1) + ((x21) - (x11)) * (W0)))) - 2 * ((s1) * ((((x20) - (x10)) * (W0) - 2 * (((x21) - (x11)) * (W1))) * (((x20) - (x10)) * (W1) + ((x21) - (x11)) * (W0)) + (((x20) - (x10)) * (W1) + ((x21) - (x11)) * (W0)) * (((x20) - (x10)) * (W0) - 2 * (((x21) - (x11)) * (W1)))))) - (((((y20) - (y10)) * ((y20) - (y10)) - 2 * (((y21) - (y11)) * ((y21) - (y11)))) - (((x10) + (x20)) * (((x20) - (x10)) * ((x20) - (x10)) - 2 * (((x21) - (x11)) * ((x21) - (x11)))) - 2 * (((x11) + (x21)) * (((x20) - (x10)) * ((x21) - (x11)) + ((x21) - (x11)) * ((x20) - (x10)))))) * ((W0) * (W0) - 2 * ((W1) * (W1))) - 2 * (((((y20) - (y10)) * ((y21) - (y11)) + ((y21) - (y11)) * ((y20) - (y10))) - (((x10) + (x20)) * (((x20) - (x10)) * ((x21) - (x11)) + ((x21) - (x11)) * ((x20) - (x10))) + ((x11) + (x21)) * (((x20) - (x10)) * ((x20) - (x10)) - 2 * (((x21) - (x11)) * ((x21) - (x11)))))) * ((W0) * (W1) + (W1) * (W0))))) * ((lam0) * (((x20) - (x10)) * (W0) - 2 * (((x21) - (x11)) * (W1))) - 2 * ((lam1) * (((x20) - (x10)) * (W1) + ((x21) - (x11)) * (W0)))) - 2 * ((((s0) * ((((x20) - (x10)) * (W0) - 2 * (((x21) - (x11)) * (W1))) * (((x20) - (x10)) * (W1) + ((x21) - (x11)) * (W0)) + (((x20) - (x10)) * (W1) + ((x21) - (x11)) * (W0)) * (((x20) - (x10)) * (W0) - 2 * (((x21) - (x11)) * (W1)))) + (s1) * ((((x20) - (x10)) * (W0) - 2 * (((x21) - (x11)) * (W1))) * (((x20) - (x10)) * (W0) - 2 * (((x21) - (x11)) * (W1))) - 2 * ((((x20) - (x10)) * (W1) + ((x21) - (x11)) * (W0)) * (((x20) - (x10)) * (W1) + ((x21) - (x11)) * (W0))))) - (((((y20) - (y10)) * ((y20) - (y10)) - 2 * (((y21) - (y11)) * ((y21) - (y11)))) - (((x10) + (x20)) * (((x20) - (x10)) * ((x20) - (x10)) - 2 * (((x21) - (x11)) * ((x21) - (x11)))) - 2 * (((x11) + (x21)) * (((x20) - (x10)) * ((x21) - (x11)) + ((x21) - (x11)) * ((x20) - (x10)))))) * ((W0) * (W1) + (W1) * (W0)) + ((((y20) - (y10)) * ((y21) - (y11)) + ((y21) - (y11)) * ((y20) - (y10))) - (((x10) + (x20)) * (((x20) - (x10)) * ((x21) - (x11)) + ((x21) - (x11)) * ((x20) - (x10))) + ((x11) + (x21)) * (((x20) - (x10)) * ((x20) - (x10)) - 2 * (((x21) - (x11)) * ((x21) - (x11)))))) * ((W0) * (W0) - 2 * ((W1) * (W1))))) * ((lam0) * (((x20) - (x10)) * (W1) + ((x21) - (x11)) * (W0)) + (lam1) * (((x20) - (x10)) * (W0) - 2 * (((x21) - (x11)) * (W1))))))
{ }
#[verifier::external_body]
proof fn ring_chord_y_1(x10: int, x11: int, y10: int, y11: int, x20: int, x21: int, y20: int, y21: int, lam0: int, lam1: int, s0: int, s1: int, W0: int, W1: int)
    ensures ((((lam0) * ((x10) - (s0)) - 2 * ((lam1) * ((x11) - (s1)))) - (y10)) * (((((x20) - (x10)) * (W0) - 2 * (((x21) - (x11)) * (W1))) * (((x20) - (x10)) * (W0) - 2 * (((x21) - (x11)) * (W1))) - 2 * ((((x20) - (x10)) * (W1) + ((x21) - (x11)) * (W0)) * (((x20) - (x10)) * (W1) + ((x21) - (x11)) * (W0)))) * (((x20) - (x10)) * (W1) + ((x21) - (x11)) * (W0)) + ((((x20) - (x10)) * (W0) - 2 * (((x21) - (x11)) * (W1))) * (((x20) - (x10)) * (W1) + ((x21) - (x11)) * (W0)) + (((x20) - (x10)) * (W1) + ((x21) - (x11)) * (W0)) * (((x20) - (x10)) * (W0) - 2 * (((x21) - (x11)) * (W1)))) * (((x20) - (x10)) * (W0) - 2 * (((x21) - (x11)) * (W1)))) + (((lam0) * ((x11) - (s1)) + (lam1) * ((x10) - (s0))) - (y11)) * (((((x20) - (x10)) * (W0) - 2 * (((x21) - (x11)) * (W1))) * (((x20) - (x10)) * (W0) - 2 * (((x21) - (x11)) * (W1))) - 2 * ((((x20) - (x10)) * (W1) + ((x21) - (x11)) * (W0)) * (((x20) - (x10)) * (W1) + ((x21) - (x11)) * (W0)))) * (((x20) - (x10)) * (W0) - 2 * (((x21) - (x11)) * (W1))) - 2 * (((((x20) - (x10)) * (W0) - 2 * (((x21) - (x11)) * (W1))) * (((x20) - (x10)) * (W1) + ((x21) - (x11)) * (W0)) + (((x20) - (x10)) * (W1) + ((x21) - (x11)) * (W0)) * (((x20) - (x10)) * (W0) - 2 * (((x21) - (x11)) * (W1)))) * (((x20) - (x10)) * (W1) + ((x21) - (x11)) * (W0))))) - (((((y20) - (y10)) * (((x10) * (((x20) - (x10)) * ((x20) - (x10)) - 2 * (((x21) - (x11)) * ((x21) - (x11)))) - 2 * ((x11) * (((x20) - (x10)) * ((x21) - (x11)) + ((x21) - (x11)) * ((x20) - (x10))))) - ((((y20) - (y10)) * ((y20) - (y10)) - 2 * (((y21) - (y11)) * ((y21) - (y11)))) - (((x10) + (x20)) * (((x20) - (x10)) * ((x20) - (x10)) - 2 * (((x21) - (x11)) * ((x21) - (x11)))) - 2 * (((x11) + (x21)) * (((x20) - (x10)) * ((x21) - (x11)) + ((x21) - (x11)) * ((x20) - (x10))))))) - 2 * (((y21) - (y11)) * (((x10) * (((x20) - (x10)) * ((x21) - (x11)) + ((x21) - (x11)) * ((x20) - (x10))) + (x11) * (((x20) - (x10)) * ((x20) - (x10)) - 2 * (((x21) - (x11)) * ((x21) - (x11))))) - ((((y20) - (y10)) * ((y21) - (y11)) + ((y21) - (y11)) * ((y20) - (y10))) - (((x10) + (x20)) * (((x20) - (x10)) * ((x21) - (x11)) + ((x21) - (x11)) * ((x20) - (x10))) + ((x11) + (x21)) * (((x20) - (x10)) * ((x20) - (x10)) - 2 * (((x21) - (x11)) * ((x21) - (x11))))))))) - ((y10) * ((((x20) - (x10)) * ((x20) - (x10)) - 2 * (((x21) - (x11)) * ((x21) - (x11)))) * ((x20) - (x10)) - 2 * ((((x20) - (x10)) * ((x21) - (x11)) + ((x21) - (x11)) * ((x20) - (x10))) * ((x21) - (x11)))) - 2 * ((y11) * ((((x20) - (x10)) * ((x20) - (x10)) - 2 * (((x21) - (x11)) * ((x21) - (x11)))) * ((x21) - (x11)) + (((x20) - (x10)) * ((x21) - (x11)) + ((x21) - (x11)) * ((x20) - (x10))) * ((x20) - (x10)))))) * (((W0) * (W0) - 2 * ((W1) * (W1))) * (W1) + ((W0) * (W1) + (W1) * (W0)) * (W0)) + ((((y20) - (y10)) * (((x10) * (((x20) - (x10)) * ((x21) - (x11)) + ((x21) - (x11)) * ((x20) - (x10))) + (x11) * (((x20) - (x10)) * ((x20) - (x10)) - 2 * (((x21) - (x11)) * ((x21) - (x11))))) - ((((y20) - (y10)) * ((y21) - (y11)) + ((y21) - (y11)) * ((y20) - (y10))) - (((x10) + (x20)) * (((x20) - (x10)) * ((x21) - (x11)) + ((x21) - (x11)) * ((x20) - (x10))) + ((x11) + (x21)) * (((x20) - (x10)) * ((x20) - (x10)) - 2 * (((x21) - (x11)) * ((x21) - (x11))))))) + ((y21) - (y11)) * (((x10) * (((x20) - (x10)) * ((x20) - (x10)) - 2 * (((x21) - (x11)) * ((x21) - (x11)))) - 2 * ((x11) * (((x20) - (x10)) * ((x21) - (x11)) + ((x21) - (x11)) * ((x20) - (x10))))) - ((((y20) - (y10)) * ((y20) - (y10)) - 2 * (((y21) - (y11)) * ((y21) - (y11)))) - (((x10) + (x20)) * (((x20) - (x10)) * ((x20) - (x10)) - 2 * (((x21) - (x11)) * ((x21) - (x11)))) - 2 * (((x11) + (x21)) * (((x20) - (x10)) * ((x21) - (x11)) + ((x21) - (x11)) * ((x20) - (x10)))))))) - ((y10) * ((((x20) - (x10)) * ((x20) - (x10)) - 2 * (((x21) - (x11)) * ((x21) - (x11)))) * ((x21) - (x11)) + (((x20) - (x10)) * ((x21) - (x11)) + ((x21) - (x11)) * ((x20) - (x10))) * ((x20) - (x10))) + (y11) * ((((x20) - (x10)) * ((x20) - (x10)) - 2 * (((x21) - (x11)) * ((x21) - (x11)))) * ((x20) - (x10)) - 2 * ((((x20) - (x10)) * ((x21) - (x11)) + ((x21) - (x11)) * ((x20) - (x10))) * ((x21) - (x11)))))) * (((W0) * (W0) - 2 * ((W1) * (W1))) * (W0) - 2 * (((W0) * (W1) + (W1) * (W0)) * (W1))))
        == ((((lam0) * ((x20) - (x10)) - 2 * ((lam1) * ((x21) - (x11)))) - ((y20) - (y10))) * ((((W0) * (W0) - 2 * ((W1) * (W1))) * (W0) - 2 * (((W0) * (W1) + (W1) * (W0)) * (W1))) * (((x10) * (((x20) - (x10)) * ((x21) - (x11)) + ((x21) - (x11)) * ((x20) - (x10))) + (x11) * (((x20) - (x10)) * ((x20) - (x10)) - 2 * (((x21) - (x11)) * ((x21) - (x11))))) - ((((y20) - (y10)) * ((y21) - (y11)) + ((y21) - (y11)) * ((y20) - (y10))) - (((x10) + (x20)) * (((x20) - (x10)) * ((x21) - (x11)) + ((x21) - (x11)) * ((x20) - (x10))) + ((x11) + (x21)) * (((x20) - (x10)) * ((x20) - (x10)) - 2 * (((x21) - (x11)) * ((x21) - (x11))))))) + (((W0) * (W0) - 2 * ((W1) * (W1))) * (W1) + ((W0) * (W1) + (W1) * (W0)) * (W0)) * (((x10) * (((x20) - (x10)) * ((x20) - (x10)) - 2 * (((x21) - (x11)) * ((x21) - (x11)))) - 2 * ((x11) * (((x20) - (x10)) * ((x21) - (x11)) + ((x21) - (x11)) * ((x20) - (x10))))) - ((((y20) - (y10)) * ((y20) - (y10)) - 2 * (((y21) - (y11)) * ((y21) - (y11)))) - (((x10) + (x20)) * (((x20) - (x10)) * ((x20) - (x10)) - 2 * (((x21) - (x11)) * ((x21) - (x11)))) - 2 * (((x11) + (x21)) * (((x20) - (x10)) * ((x21) - (x11)) + ((x21) - (x11)) * ((x20) - (x10)))))))) + (((lam0) * ((x21) - (x11)) + (lam1) * ((x20) - (x10))) - ((y21) - (y11))) * ((((W0) * (W0) - 2 * ((W1) * (W1))) * (W0) - 2 * (((W0) * (W1) + (W1) * (W0)) * (W1))) * (((x10) * (((x20) - (x10)) * ((x20) - (x10)) - 2 * (((x21) - (x11)) * ((x21) - (x11)))) - 2 * ((x11) * (((x20) - (x10)) * ((x21) - (x11)) + ((x21) - (x11)) * ((x20) - (x10))))) - ((((y20) - (y10)) * ((y20) - (y10)) - 2 * (((y21) - (y11)) * ((y21) - (y11)))) - (((x10) + (x20)) * (((x20) - (x10)) * ((x20) - (x10)) - 2 * (((x21) - (x11)) * ((x21) - (x11)))) - 2 * (((x11) + (x21)) * (((x20) - (x10)) * ((x21) - (x11)) + ((x21) - (x11)) * ((x20) - (x10))))))) - 2 * ((((W0) * (W0) - 2 * ((W1) * (W1))) * (W1) + ((W0) * (W1) + (W1) * (W0)) * (W0)) * (((x10) * (((x20) - (x10)) * ((x21) - (x11)) + ((x21) - (x11)) * ((x20) - (x10))) + (x11) * (((x20) - (x10)) * ((x20) - (x10)) - 2 * (((x21) - (x11)) * ((x21) - (x11))))) - ((((y20) - (y10)) * ((y21) - (y11)) + ((y21) - (y11)) * ((y20) - (y10))) - (((x10) + (x20)) * (((x20) - (x10)) * ((x21) - (x11)) + ((x21) - (x11)) * ((x20) - (x10))) + ((x11) + (x21)) * (((x20) - (x10)) * ((x20) - (x10)) - 2 * (((x21) - (x11)) * ((x21) - (x11)))))))))) - ((((s0) * ((((x20) - (x10)) * (W0) - 2 * (((x21) - (x11)) * (W1))) * (((x20) - (x10)) * (W0) - 2 * (((x21) - (x11)) * (W1))) - 2 * ((((x20) - (x10)) * (W1) + ((x21) - (x11)) * (W0)) * (((x20) - (x10)) * (W1) + ((x21) - (x11)) * (W0)))) - 2 * ((s1) * ((((x20) - (x10)) * (W0) - 2 * (((x21) - (x11)) * (W1))) * (((x20) - (x10)) * (W1) + ((x21) - (x11)) * (W0)) + (((x20) - (x10)) * (W1) + ((x21) - (x11)) * (W0)) * (((x20) - (x10)) * (W0) - 2 * (((x21) - (x11)) * (W1)))))) - (((((y20) - (y10)) * ((y20) - (y10)) - 2 * (((y21) - (y11)) * ((y21) - (y11)))) - (((x10) + (x20)) * (((x20) - (x10)) * ((x20) - (x10)) - 2 * (((x21) - (x11)) * ((x21) - (x11)))) - 2 * (((x11) + (x21)) * (((x20) - (x10)) * ((x21) - (x11)) + ((x21) - (x11)) * ((x20) - (x10)))))) * ((W0) * (W0) - 2 * ((W1) * (W1))) - 2 * (((((y20) - (y10)) * ((y21) - (y11)) + ((y21) - (y11)) * ((y20) - (y10))) - (((x10) + (x20)) * (((x20) - (x10)) * ((x21) - (x11)) + ((x21) - (x11)) * ((x20) - (x10))) + ((x11) + (x21)) * (((x20) - (x10)) * ((x20) - (x10)) - 2 * (((x21) - (x11)) * ((x21) - (x11)))))) * ((W0) * (W1) + (W1) * (W0))))) * ((lam0) * (((x20) - (x10)) * (W1) + ((x21) - (x11)) * (W0)) + (lam1) * (((x20) - (x10)) * (W0) - 2 * (((x21) - (x11)) * (W1)))) + (((s0) * ((((x20) - (x10)) * (W0) - 2 * (((x21) - (x11)) * (W1))) * (((x20) - (x10)) * (W1) + ((x21) - (x11)) * (W0)) + (((x20) - (x10)) * (W1) + ((x21) - (x11)) * (W0)) * (((x20) - (x10)) * (W0) - 2 * (((x21) - (x11)) * (W1)))) + (s1) * ((((x20) - (x10)) * (W0) - 2 * (((x21) - (x11)) * (W1))) * (((x20) - (x10)) * (W0) - 2 * (((x21) - (x11)) * (W1))) - 2 * ((((x20) - (x10)) * (W1) + ((x21) - (x11)) * (W0)) * (((x20) - (x10)) * (W1) + ((x21) - (x11)) * (W0))))) - (((((y20) - (y10)) * ((y20) - (y10)) - 2 * (((y21) - (y11)) * ((y21) - (y11)))) - (((x10) + (x20)) * (((x20) - (x10)) * ((x20) - (x10)) - 2 * (((x21) - (x11)) * ((x21) - (x11)))) - 2 * (((x11) + (x21)) * (((x20) - (x10)) * ((x21) - (x11)) + ((x21) - (x11)) * ((x20) - (x10)))))) * ((W0) * (W1) + (W1) * (W0)) + ((((y20) - (y10)) * ((y21) - (y11)) + ((y21) - (y11)) * ((y20) - (y10))) - (((x10) + (x20)) * (((x20) - (x10)) * ((x21) - (x11)) + ((x21) - (x11)) * ((x20) - (x10))) + ((x11) + (x21)) * (((x20) - (x10)) * ((x20) - (x10)) - 2 * (((x21) - (x11)) * ((x21) - (x11)))))) * ((W0) * (W0) - 2 * ((W1) * (W1))))) * ((lam0) * (((x20) - (x10)) * (W0) - 2 * (((x21) - (x11)) * (W1))) - 2 * ((lam1) * (((x20) - (x10)) * (W1) + ((x21) - (x11)) * (W0)))))
{ }
proof fn qr_dbl_half(Yp: F2)
    ensures q_mul(q_mul(q_add(Yp, Yp), q_add(Yp, Yp)), q_mul(q_add(Yp, Yp), q_add(Yp, Yp)))
        == q_k(2, q_k(8, q_mul(q_mul(Yp, Yp), q_mul(Yp, Yp))))
{
    reveal(q_add); reveal(q_sub); reveal(q_mul); reveal(q_k); reveal(q_c);
    ring_dbl_half_0(Yp.c0, Yp.c1); ring_dbl_half_1(Yp.c0, Yp.c1);
}
#[verifier::external_body]
proof fn ring_dbl_half_0(Yp0: int, Yp1: int)
    ensures (((Yp0) + (Yp0)) * ((Yp0) + (Yp0)) - 2 * (((Yp1) + (Yp1)) * ((Yp1) + (Yp1)))) * (((Yp0) + (Yp0)) * ((Yp0) + (Yp0)) - 2 * (((Yp1) + (Yp1)) * ((Yp1) + (Yp1)))) - 2 * ((((Yp0) + (Yp0)) * ((Yp1) + (Yp1)) + ((Yp1) + (Yp1)) * ((Yp0) + (Yp0))) * (((Yp0) + (Yp0)) * ((Yp1) + (Yp1)) + ((Yp1) + (Yp1)) * ((Yp0) + (Yp0))))
        == 2 * (8 * (((Yp0) * (Yp0) - 2 * ((Yp1) * (Yp1))) * ((Yp0) * (Yp0) - 2 * ((Yp1) * (Yp1))) - 2 * (((Yp0) * (Yp1) + (Yp1) * (Yp0)) * ((Yp0) * (Yp1) + (Yp1) * (Yp0)))))
{ }
#[verifier::external_body]
proof fn ring_dbl_half_1(Yp0: int, Yp1: int)
    ensures (((Yp0) + (Yp0)) * ((Yp0) + (Yp0)) - 2 * (((Yp1) + (Yp1)) * ((Yp1) + (Yp1)))) * (((Yp0) + (Yp0)) * ((Yp1) + (Yp1)) + ((Yp1) + (Yp1)) * ((Yp0) + (Yp0))) + (((Yp0) + (Yp0)) * ((Yp1) + (Yp1)) + ((Yp1) + (Yp1)) * ((Yp0) + (Yp0))) * (((Yp0) + (Yp0)) * ((Yp0) + (Yp0)) - 2 * (((Yp1) + (Yp1)) * ((Yp1) + (Yp1))))
        == 2 * (8 * (((Yp0) * (Yp0) - 2 * ((Yp1) * (Yp1))) * ((Yp0) * (Yp1) + (Yp1) * (Yp0)) + ((Yp0) * (Yp1) + (Yp1) * (Yp0)) * ((Yp0) * (Yp0) - 2 * ((Yp1) * (Yp1)))))
{ }
// TwistPoint::point_double: the field operations of the code (every one reduced mod p; d is the result of fp_div2)
spec fn dbl_rel(X: F2, Y: F2, Z: F2, m: F2, y2: F2, z3: F2, y4: F2, s: F2, y16: F2, d: F2, m2: F2, s2: F2, x3: F2, d1: F2, d2: F2, y3: F2) -> bool {
    m == m2_add(m2_add(m2_mul(X, X), m2_mul(X, X)), m2_mul(X, X))
    && y2 == m2_add(Y, Y)
    && z3 == m2_mul(y2, Z)
    && y4 == m2_mul(y2, y2)
    && s == m2_mul(y4, X)
    && y16 == m2_mul(y4, y4)
    && m2_add(d, d) == y16
    && m2 == m2_mul(m, m)
    && s2 == m2_add(s, s)
    && x3 == m2_sub(m2, s2)
    && d1 == m2_sub(s, x3)
    && d2 == m2_mul(d1, m)
    && y3 == m2_sub(d2, d)
}
proof fn dbl_chain(X: F2, Y: F2, Z: F2, m: F2, y2: F2, z3: F2, y4: F2, s: F2, y16: F2, d: F2, m2: F2, s2: F2, x3: F2, d1: F2, d2: F2, y3: F2, Xp: F2, Yp: F2, Zp: F2)
    requires dbl_rel(X, Y, Z, m, y2, z3, y4, s, y16, d, m2, s2, x3, d1, d2, y3),
        qc(X, Xp),
        qc(Y, Yp),
        qc(Z, Zp)
    ensures qc(x3, q_sub(q_mul(q_add(q_add(q_mul(Xp, Xp), q_mul(Xp, Xp)), q_mul(Xp, Xp)), q_add(q_add(q_mul(Xp, Xp), q_mul(Xp, Xp)), q_mul(Xp, Xp))), q_add(q_mul(q_mul(q_add(Yp, Yp), q_add(Yp, Yp)), Xp), q_mul(q_mul(q_add(Yp, Yp), q_add(Yp, Yp)), Xp)))),
        qc(y3, q_sub(q_mul(q_sub(q_mul(q_mul(q_add(Yp, Yp), q_add(Yp, Yp)), Xp), q_sub(q_mul(q_add(q_add(q_mul(Xp, Xp), q_mul(Xp, Xp)), q_mul(Xp, Xp)), q_add(q_add(q_mul(Xp, Xp), q_mul(Xp, Xp)), q_mul(Xp, Xp))), q_add(q_mul(q_mul(q_add(Yp, Yp), q_add(Yp, Yp)), Xp), q_mul(q_mul(q_add(Yp, Yp), q_add(Yp, Yp)), Xp)))), q_add(q_add(q_mul(Xp, Xp), q_mul(Xp, Xp)), q_mul(Xp, Xp))), q_k(8, q_mul(q_mul(Yp, Yp), q_mul(Yp, Yp))))),
        qc(z3, q_mul(q_add(Yp, Yp), Zp)),
        m2_ok(x3),
        m2_ok(y3),
        m2_ok(z3)
{
    let a1 = m2_mul(X, X);
    t2_cm(a1, X, X, Xp, Xp);
    let m1 = m2_add(m2_mul(X, X), m2_mul(X, X));
    t2_ca(m1, a1, a1, q_mul(Xp, Xp), q_mul(Xp, Xp));
    t2_ca(m, m1, a1, q_add(q_mul(Xp, Xp), q_mul(Xp, Xp)), q_mul(Xp, Xp));
    t2_ca(y2, Y, Y, Yp, Yp);
    t2_cm(z3, y2, Z, q_add(Yp, Yp), Zp);
    t2_cm(y4, y2, y2, q_add(Yp, Yp), q_add(Yp, Yp));
    t2_cm(s, y4, X, q_mul(q_add(Yp, Yp), q_add(Yp, Yp)), Xp);
    t2_cm(y16, y4, y4, q_mul(q_add(Yp, Yp), q_add(Yp, Yp)), q_mul(q_add(Yp, Yp), q_add(Yp, Yp)));
    qr_dbl_half(Yp);
    t2_half(d, y16, q_k(8, q_mul(q_mul(Yp, Yp), q_mul(Yp, Yp))));
    t2_cm(m2, m, m, q_add(q_add(q_mul(Xp, Xp), q_mul(Xp, Xp)), q_mul(Xp, Xp)), q_add(q_add(q_mul(Xp, Xp), q_mul(Xp, Xp)), q_mul(Xp, Xp)));
    t2_ca(s2, s, s, q_mul(q_mul(q_add(Yp, Yp), q_add(Yp, Yp)), Xp), q_mul(q_mul(q_add(Yp, Yp), q_add(Yp, Yp)), Xp));
    t2_cs(x3, m2, s2, q_mul(q_add(q_add(q_mul(Xp, Xp), q_mul(Xp, Xp)), q_mul(Xp, Xp)), q_add(q_add(q_mul(Xp, Xp), q_mul(Xp, Xp)), q_mul(Xp, Xp))), q_add(q_mul(q_mul(q_add(Yp, Yp), q_add(Yp, Yp)), Xp), q_mul(q_mul(q_add(Yp, Yp), q_add(Yp, Yp)), Xp)));
    t2_cs(d1, s, x3, q_mul(q_mul(q_add(Yp, Yp), q_add(Yp, Yp)), Xp), q_sub(q_mul(q_add(q_add(q_mul(Xp, Xp), q_mul(Xp, Xp)), q_mul(Xp, Xp)), q_add(q_add(q_mul(Xp, Xp), q_mul(Xp, Xp)), q_mul(Xp, Xp))), q_add(q_mul(q_mul(q_add(Yp, Yp), q_add(Yp, Yp)), Xp), q_mul(q_mul(q_add(Yp, Yp), q_add(Yp, Yp)), Xp))));
    t2_cm(d2, d1, m, q_sub(q_mul(q_mul(q_add(Yp, Yp), q_add(Yp, Yp)), Xp), q_sub(q_mul(q_add(q_add(q_mul(Xp, Xp), q_mul(Xp, Xp)), q_mul(Xp, Xp)), q_add(q_add(q_mul(Xp, Xp), q_mul(Xp, Xp)), q_mul(Xp, Xp))), q_add(q_mul(q_mul(q_add(Yp, Yp), q_add(Yp, Yp)), Xp), q_mul(q_mul(q_add(Yp, Yp), q_add(Yp, Yp)), Xp)))), q_add(q_add(q_mul(Xp, Xp), q_mul(Xp, Xp)), q_mul(Xp, Xp)));
    t2_cs(y3, d2, d, q_mul(q_sub(q_mul(q_mul(q_add(Yp, Yp), q_add(Yp, Yp)), Xp), q_sub(q_mul(q_add(q_add(q_mul(Xp, Xp), q_mul(Xp, Xp)), q_mul(Xp, Xp)), q_add(q_add(q_mul(Xp, Xp), q_mul(Xp, Xp)), q_mul(Xp, Xp))), q_add(q_mul(q_mul(q_add(Yp, Yp), q_add(Yp, Yp)), Xp), q_mul(q_mul(q_add(Yp, Yp), q_add(Yp, Yp)), Xp)))), q_add(q_add(q_mul(Xp, Xp), q_mul(Xp, Xp)), q_mul(Xp, Xp))), q_k(8, q_mul(q_mul(Yp, Yp), q_mul(Yp, Yp))));
}
proof fn qr_dF_m(xa: F2, z: F2)
    ensures q_add(q_add(q_mul(q_mul(q_mul(xa, z), z), q_mul(q_mul(xa, z), z)), q_mul(q_mul(q_mul(xa, z), z), q_mul(q_mul(xa, z), z))), q_mul(q_mul(q_mul(xa, z), z), q_mul(q_mul(xa, z), z)))
        == q_mul(q_add(q_add(q_mul(xa, xa), q_mul(xa, xa)), q_mul(xa, xa)), q_mul(q_mul(z, z), q_mul(z, z)))
{
    reveal(q_add); reveal(q_sub); reveal(q_mul); reveal(q_k); reveal(q_c);
    ring_dF_m_0(xa.c0, xa.c1, z.c0, z.c1); ring_dF_m_1(xa.c0, xa.c1, z.c0, z.c1);
}
#[verifier::external_body]
proof fn ring_dF_m_0(xa0: int, xa1: int, z0: int, z1: int)
    ensures (((((xa0) * (z0) - 2 * ((xa1) * (z1))) * (z0) - 2 * (((xa0) * (z1) + (xa1) * (z0)) * (z1))) * (((xa0) * (z0) - 2 * ((xa1) * (z1))) * (z0) - 2 * (((xa0) * (z1) + (xa1) * (z0)) * (z1))) - 2 * ((((xa0) * (z0) - 2 * ((xa1) * (z1))) * (z1) + ((xa0) * (z1) + (xa1) * (z0)) * (z0)) * (((xa0) * (z0) - 2 * ((xa1) * (z1))) * (z1) + ((xa0) * (z1) + (xa1) * (z0)) * (z0)))) + ((((xa0) * (z0) - 2 * ((xa1) * (z1))) * (z0) - 2 * (((xa0) * (z1) + (xa1) * (z0)) * (z1))) * (((xa0) * (z0) - 2 * ((xa1) * (z1))) * (z0) - 2 * (((xa0) * (z1) + (xa1) * (z0)) * (z1))) - 2 * ((((xa0) * (z0) - 2 * ((xa1) * (z1))) * (z1) + ((xa0) * (z1) + (xa1) * (z0)) * (z0)) * (((xa0) * (z0) - 2 * ((xa1) * (z1))) * (z1) + ((xa0) * (z1) + (xa1) * (z0)) * (z0))))) + ((((xa0) * (z0) - 2 * ((xa1) * (z1))) * (z0) - 2 * (((xa0) * (z1) + (xa1) * (z0)) * (z1))) * (((xa0) * (z0) - 2 * ((xa1) * (z1))) * (z0) - 2 * (((xa0) * (z1) + (xa1) * (z0)) * (z1))) - 2 * ((((xa0) * (z0) - 2 * ((xa1) * (z1))) * (z1) + ((xa0) * (z1) + (xa1) * (z0)) * (z0)) * (((xa0) * (z0) - 2 * ((xa1) * (z1))) * (z1) + ((xa0) * (z1) + (xa1) * (z0)) * (z0))))
        == ((((xa0) * (xa0) - 2 * ((xa1) * (xa1))) + ((xa0) * (xa0) - 2 * ((xa1) * (xa1)))) + ((xa0) * (xa0) - 2 * ((xa1) * (xa1)))) * (((z0) * (z0) - 2 * ((z1) * (z1))) * ((z0) * (z0) - 2 * ((z1) * (z1))) - 2 * (((z0) * (z1) + (z1) * (z0)) * ((z0) * (z1) + (z1) * (z0)))) - 2 * (((((xa0) * (xa1) + (xa1) * (xa0)) + ((xa0) * (xa1) + (xa1) * (xa0))) + ((xa0) * (xa1) + (xa1) * (xa0))) * (((z0) * (z0) - 2 * ((z1) * (z1))) * ((z0) * (z1) + (z1) * (z0)) + ((z0) * (z1) + (z1) * (z0)) * ((z0) * (z0) - 2 * ((z1) * (z1)))))
{ }
#[verifier::external_body]
proof fn ring_dF_m_1(xa0: int, xa1: int, z0: int, z1: int)
    ensures (((((xa0) * (z0) - 2 * ((xa1) * (z1))) * (z0) - 2 * (((xa0) * (z1) + (xa1) * (z0)) * (z1))) * (((xa0) * (z0) - 2 * ((xa1) * (z1))) * (z1) + ((xa0) * (z1) + (xa1) * (z0)) * (z0)) + (((xa0) * (z0) - 2 * ((xa1) * (z1))) * (z1) + ((xa0) * (z1) + (xa1) * (z0)) * (z0)) * (((xa0) * (z0) - 2 * ((xa1) * (z1))) * (z0) - 2 * (((xa0) * (z1) + (xa1) * (z0)) * (z1)))) + ((((xa0) * (z0) - 2 * ((xa1) * (z1))) * (z0) - 2 * (((xa0) * (z1) + (xa1) * (z0)) * (z1))) * (((xa0) * (z0) - 2 * ((xa1) * (z1))) * (z1) + ((xa0) * (z1) + (xa1) * (z0)) * (z0)) + (((xa0) * (z0) - 2 * ((xa1) * (z1))) * (z1) + ((xa0) * (z1) + (xa1) * (z0)) * (z0)) * (((xa0) * (z0) - 2 * ((xa1) * (z1))) * (z0) - 2 * (((xa0) * (z1) + (xa1) * (z0)) * (z1))))) + ((((xa0) * (z0) - 2 * ((xa1) * (z1))) * (z0) - 2 * (((xa0) * (z1) + (xa1) * (z0)) * (z1))) * (((xa0) * (z0) - 2 * ((xa1) * (z1))) * (z1) + ((xa0) * (z1) + (xa1) * (z0)) * (z0)) + (((xa0) * (z0) - 2 * ((xa1) * (z1))) * (z1) + ((xa0) * (z1) + (xa1) * (z0)) * (z0)) * (((xa0) * (z0) - 2 * ((xa1) * (z1))) * (z0) - 2 * (((xa0) * (z1) + (xa1) * (z0)) * (z1))))
        == ((((xa0) * (xa0) - 2 * ((xa1) * (xa1))) + ((xa0) * (xa0) - 2 * ((xa1) * (xa1)))) + ((xa0) * (xa0) - 2 * ((xa1) * (xa1)))) * (((z0) * (z0) - 2 * ((z1) * (z1))) * ((z0) * (z1) + (z1) * (z0)) + ((z0) * (z1) + (z1) * (z0)) * ((z0) * (z0) - 2 * ((z1) * (z1)))) + ((((xa0) * (xa1) + (xa1) * (xa0)) + ((xa0) * (xa1) + (xa1) * (xa0))) + ((xa0) * (xa1) + (xa1) * (xa0))) * (((z0) * (z0) - 2 * ((z1) * (z1))) * ((z0) * (z0) - 2 * ((z1) * (z1))) - 2 * (((z0) * (z1) + (z1) * (z0)) * ((z0) * (z1) + (z1) * (z0))))
{ }
proof fn qr_dF_s(xa: F2, ya: F2, z: F2)
    ensures q_mul(q_mul(q_add(q_mul(q_mul(q_mul(ya, z), z), z), q_mul(q_mul(q_mul(ya, z), z), z)), q_add(q_mul(q_mul(q_mul(ya, z), z), z), q_mul(q_mul(q_mul(ya, z), z), z))), q_mul(q_mul(xa, z), z))
        == q_mul(q_mul(q_mul(q_add(ya, ya), q_add(ya, ya)), xa), q_mul(q_mul(q_mul(z, z), q_mul(z, z)), q_mul(q_mul(z, z), q_mul(z, z))))
{
    reveal(q_add); reveal(q_sub); reveal(q_mul); reveal(q_k); reveal(q_c);
    ring_dF_s_0(xa.c0, xa.c1, ya.c0, ya.c1, z.c0, z.c1); ring_dF_s_1(xa.c0, xa.c1, ya.c0, ya.c1, z.c0, z.c1);
}
#[verifier::external_body]
proof fn ring_dF_s_0(xa0: int, xa1: int, ya0: int, ya1: int, z0: int, z1: int)
    ensures ((((((ya0) * (z0) - 2 * ((ya1) * (z1))) * (z0) - 2 * (((ya0) * (z1) + (ya1) * (z0)) * (z1))) * (z0) - 2 * ((((ya0) * (z0) - 2 * ((ya1) * (z1))) * (z1) + ((ya0) * (z1) + (ya1) * (z0)) * (z0)) * (z1))) + ((((ya0) * (z0) - 2 * ((ya1) * (z1))) * (z0) - 2 * (((ya0) * (z1) + (ya1) * (z0)) * (z1))) * (z0) - 2 * ((((ya0) * (z0) - 2 * ((ya1) * (z1))) * (z1) + ((ya0) * (z1) + (ya1) * (z0)) * (z0)) * (z1)))) * (((((ya0) * (z0) - 2 * ((ya1) * (z1))) * (z0) - 2 * (((ya0) * (z1) + (ya1) * (z0)) * (z1))) * (z0) - 2 * ((((ya0) * (z0) - 2 * ((ya1) * (z1))) * (z1) + ((ya0) * (z1) + (ya1) * (z0)) * (z0)) * (z1))) + ((((ya0) * (z0) - 2 * ((ya1) * (z1))) * (z0) - 2 * (((ya0) * (z1) + (ya1) * (z0)) * (z1))) * (z0) - 2 * ((((ya0) * (z0) - 2 * ((ya1) * (z1))) * (z1) + ((ya0) * (z1) + (ya1) * (z0)) * (z0)) * (z1)))) - 2 * ((((((ya0) * (z0) - 2 * ((ya1) * (z1))) * (z0) - 2 * (((ya0) * (z1) + (ya1) * (z0)) * (z1))) * (z1) + (((ya0) * (z0) - 2 * ((ya1) * (z1))) * (z1) + ((ya0) * (z1) + (ya1) * (z0)) * (z0)) * (z0)) + ((((ya0) * (z0) - 2 * ((ya1) * (z1))) * (z0) - 2 * (((ya0) * (z1) + (ya1) * (z0)) * (z1))) * (z1) + (((ya0) * (z0) - 2 * ((ya1) * (z1))) * (z1) + ((ya0) * (z1) + (ya1) * (z0)) * (z0)) * (z0))) * (((((ya0) * (z0) - 2 * ((ya1) * (z1))) * (z0) - 2 * (((ya0) * (z1) + (ya1) * (z0)) * (z1))) * (z1) + (((ya0) * (z0) - 2 * ((ya1) * (z1))) * (z1) + ((ya0) * (z1) + (ya1) * (z0)) * (z0)) * (z0)) + ((((ya0) * (z0) - 2 * ((ya1) * (z1))) * (z0) - 2 * (((ya0) * (z1) + (ya1) * (z0)) * (z1))) * (z1) + (((ya0) * (z0) - 2 * ((ya1) * (z1))) * (z1) + ((ya0) * (z1) + (ya1) * (z0)) * (z0)) * (z0))))) * (((xa0) * (z0) - 2 * ((xa1) * (z1))) * (z0) - 2 * (((xa0) * (z1) + (xa1) * (z0)) * (z1))) - 2 * (((((((ya0) * (z0) - 2 * ((ya1) * (z1))) * (z0) - 2 * (((ya0) * (z1) + (ya1) * (z0)) * (z1))) * (z0) - 2 * ((((ya0) * (z0) - 2 * ((ya1) * (z1))) * (z1) + ((ya0) * (z1) + (ya1) * (z0)) * (z0)) * (z1))) + ((((ya0) * (z0) - 2 * ((ya1) * (z1))) * (z0) - 2 * (((ya0) * (z1) + (ya1) * (z0)) * (z1))) * (z0) - 2 * ((((ya0) * (z0) - 2 * ((ya1) * (z1))) * (z1) + ((ya0) * (z1) + (ya1) * (z0)) * (z0)) * (z1)))) * (((((ya0) * (z0) - 2 * ((ya1) * (z1))) * (z0) - 2 * (((ya0) * (z1) + (ya1) * (z0)) * (z1))) * (z1) + (((ya0) * (z0) - 2 * ((ya1) * (z1))) * (z1) + ((ya0) * (z1) + (ya1) * (z0)) * (z0)) * (z0)) + ((((ya0) * (z0) - 2 * ((ya1) * (z1))) * (z0) - 2 * (((ya0) * (z1) + (ya1) * (z0)) * (z1))) * (z1) + (((ya0) * (z0) - 2 * ((ya1) * (z1))) * (z1) + ((ya0) * (z1) + (ya1) * (z0)) * (z0)) * (z0))) + (((((ya0) * (z0) - 2 * ((ya1) * (z1))) * (z0) - 2 * (((ya0) * (z1) + (ya1) * (z0)) * (z1))) * (z1) + (((ya0) * (z0) - 2 * ((ya1) * (z1))) * (z1) + ((ya0) * (z1) + (ya1) * (z0)) * (z0)) * (z0)) + ((((ya0) * (z0) - 2 * ((ya1) * (z1))) * (z0) - 2 * (((ya0) * (z1) + (ya1) * (z0)) * (z1))) * (z1) + (((ya0) * (z0) - 2 * ((ya1) * (z1))) * (z1) + ((ya0) * (z1) + (ya1) * (z0)) * (z0)) * (z0))) * (((((ya0) * (z0) - 2 * ((ya1) * (z1))) * (z0) - 2 * (((ya0) * (z1) + (ya1) * (z0)) * (z1))) * (z0) - 2 * ((((ya0) * (z0) - 2 * ((ya1) * (z1))) * (z1) + ((ya0) * (z1) + (ya1) * (z0)) * (z0)) * (z1))) + ((((ya0) * (z0) - 2 * ((ya1) * (z1))) * (z0) - 2 * (((ya0) * (z1) + (ya1) * (z0)) * (z1))) * (z0) - 2 * ((((ya0) * (z0) - 2 * ((ya1) * (z1))) * (z1) + ((ya0) * (z1) + (ya1) * (z0)) * (z0)) * (z1))))) * (((xa0) * (z0) - 2 * ((xa1) * (z1))) * (z1) + ((xa0) * (z1) + (xa1) * (z0)) * (z0)))
        == ((((ya0) + (ya0)) * ((ya0) + (ya0)) - 2 * (((ya1) + (ya1)) * ((ya1) + (ya1)))) * (xa0) - 2 * ((((ya0) + (ya0)) * ((ya1) + (ya1)) + ((ya1) + (ya1)) * ((ya0) + (ya0))) * (xa1))) * ((((z0) * (z0) - 2 * ((z1) * (z1))) * ((z0) * (z0) - 2 * ((z1) * (z1))) - 2 * (((z0) * (z1) + (z1) * (z0)) * ((z0) * (z1) + (z1) * (z0)))) * (((z0) * (z0) - 2 * ((z1) * (z1))) * ((z0) * (z0) - 2 * ((z1) * (z1))) - 2 * (((z0) * (z1) + (z1) * (z0)) * ((z0) * (z1) + (z1) * (z0)))) - 2 * ((((z0) * (z0) - 2 * ((z1) * (z1))) * ((z0) * (z1) + (z1) * (z0)) + ((z0) * (z1) + (z1) * (z0)) * ((z0) * (z0) - 2 * ((z1) * (z1)))) * (((z0) * (z0) - 2 * ((z1) * (z1))) * ((z0) * (z1) + (z1) * (z0)) + ((z0) * (z1) + (z1) * (z0)) * ((z0) * (z0) - 2 * ((z1) * (z1)))))) - 2 * (((((ya0) + (ya0)) * ((ya0) + (ya0)) - 2 * (((ya1) + (ya1)) * ((ya1) + (ya1)))) * (xa1) + (((ya0) + (ya0)) * ((ya1) + (ya1)) + ((ya1) + (ya1)) * ((ya0) + (ya0))) * (xa0)) * ((((z0) * (z0) - 2 * ((z1) * (z1))) * ((z0) * (z0) - 2 * ((z1) * (z1))) - 2 * (((z0) * (z1) + (z1) * (z0)) * ((z0) * (z1) + (z1) * (z0)))) * (((z0) * (z0) - 2 * ((z1) * (z1))) * ((z0) * (z1) + (z1) * (z0)) + ((z0) * (z1) + (z1) * (z0)) * ((z0) * (z0) - 2 * ((z1) * (z1)))) + (((z0) * (z0) - 2 * ((z1) * (z1))) * ((z0) * (z1) + (z1) * (z0)) + ((z0) * (z1) + (z1) * (z0)) * ((z0) * (z0) - 2 * ((z1) * (z1)))) * (((z0) * (z0) - 2 * ((z1) * (z1))) * ((z0) * (z0) - 2 * ((z1) * (z1))) - 2 * (((z0) * (z1) + (z1) * (z0)) * ((z0) * (z1) + (z1) * (z0))))))
{ }
#[verifier::external_body]
proof fn ring_dF_s_1(xa0: int, xa1: int, ya0: int, ya1: int, z0: int, z1: int)
    ensures ((((((ya0) * (z0) - 2 * ((ya1) * (z1))) * (z0) - 2 * (((ya0) * (z1) + (ya1) * (z0)) * (z1))) * (z0) - 2 * ((((ya0) * (z0) - 2 * ((ya1) * (z1))) * (z1) + ((ya0) * (z1) + (ya1) * (z0)) * (z0)) * (z1))) + ((((ya0) * (z0) - 2 * ((ya1) * (z1))) * (z0) - 2 * (((ya0) * (z1) + (ya1) * (z0)) * (z1))) * (z0) - 2 * ((((ya0) * (z0) - 2 * ((ya1) * (z1))) * (z1) + ((ya0) * (z1) + (ya1) * (z0)) * (z0)) * (z1)))) * (((((ya0) * (z0) - 2 * ((ya1) * (z1))) * (z0) - 2 * (((ya0) * (z1) + (ya1) * (z0)) * (z1))) * (z0) - 2 * ((((ya0) * (z0) - 2 * ((ya1) * (z1))) * (z1) + ((ya0) * (z1) + (ya1) * (z0)) * (z0)) * (z1))) + ((((ya0) * (z0) - 2 * ((ya1) * (z1))) * (z0) - 2 * (((ya0) * (z1) + (ya1) * (z0)) * (z1))) * (z0) - 2 * ((((ya0) * (z0) - 2 * ((ya1) * (z1))) * (z1) + ((ya0) * (z1) + (ya1) * (z0)) * (z0)) * (z1)))) - 2 * ((((((ya0) * (z0) - 2 * ((ya1) * (z1))) * (z0) - 2 * (((ya0) * (z1) + (ya1) * (z0)) * (z1))) * (z1) + (((ya0) * (z0) - 2 * ((ya1) * (z1))) * (z1) + ((ya0) * (z1) + (ya1) * (z0)) * (z0)) * (z0)) + ((((ya0) * (z0) - 2 * ((ya1) * (z1))) * (z0) - 2 * (((ya0) * (z1) + (ya1) * (z0)) * (z1))) * (z1) + (((ya0) * (z0) - 2 * ((ya1) * (z1))) * (z1) + ((ya0) * (z1) + (ya1) * (z0)) * (z0)) * (z0))) * (((((ya0) * (z0) - 2 * ((ya1) * (z1))) * (z0) - 2 * (((ya0) * (z1) + (ya1) * (z0)) * (z1))) * (z1) + (((ya0) * (z0) - 2 * ((ya1) * (z1))) * (z1) + ((ya0) * (z1) + (ya1) * (z0)) * (z0)) * (z0)) + ((((ya0) * (z0) - 2 * ((ya1) * (z1))) * (z0) - 2 * (((ya0) * (z1) + (ya1) * (z0)) * (z1))) * (z1) + (((ya0) * (z0) - 2 * ((ya1) * (z1))) * (z1) + ((ya0) * (z1) + (ya1) * (z0)) * (z0)) * (z0))))) * (((xa0) * (z0) - 2 * ((xa1) * (z1))) * (z1) + ((xa0) * (z1) + (xa1) * (z0)) * (z0)) + ((((((ya0) * (z0) - 2 * ((ya1) * (z1))) * (z0) - 2 * (((ya0) * (z1) + (ya1) * (z0)) * (z1))) * (z0) - 2 * ((((ya0) * (z0) - 2 * ((ya1) * (z1))) * (z1) + ((ya0) * (z1) + (ya1) * (z0)) * (z0)) * (z1))) + ((((ya0) * (z0) - 2 * ((ya1) * (z1))) * (z0) - 2 * (((ya0) * (z1) + (ya1) * (z0)) * (z1))) * (z0) - 2 * ((((ya0) * (z0) - 2 * ((ya1) * (z1))) * (z1) + ((ya0) * (z1) + (ya1) * (z0)) * (z0)) * (z1)))) * (((((ya0) * (z0) - 2 * ((ya1) * (z1))) * (z0) - 2 * (((ya0) * (z1) + (ya1) * (z0)) * (z1))) * (z1) + (((ya0) * (z0) - 2 * ((ya1) * (z1))) * (z1) + ((ya0) * (z1) + (ya1) * (z0)) * (z0)) * (z0)) + ((((ya0) * (z0) - 2 * ((ya1) * (z1))) * (z0) - 2 * (((ya0) * (z1) + (ya1) * (z0)) * (z1))) * (z1) + (((ya0) * (z0) - 2 * ((ya1) * (z1))) * (z1) + ((ya0) * (z1) + (ya1) * (z0)) * (z0)) * (z0))) + (((((ya0) * (z0) - 2 * ((ya1) * (z1))) * (z0) - 2 * (((ya0) * (z1) + (ya1) * (z0)) * (z1))) * (z1) + (((ya0) * (z0) - 2 * ((ya1) * (z1))) * (z1) + ((ya0) * (z1) + (ya1) * (z0)) * (z0)) * (z0)) + ((((ya0) * (z0) - 2 * ((ya1) * (z1))) * (z0) - 2 * (((ya0) * (z1) + (ya1) * (z0)) * (z1))) * (z1) + (((ya0) * (z0) - 2 * ((ya1) * (z1))) * (z1) + ((ya0) * (z1) + (ya1) * (z0)) * (z0)) * (z0))) * (((((ya0) * (z0) - 2 * ((ya1) * (z1))) * (z0) - 2 * (((ya0) * (z1) + (ya1) * (z0)) * (z1))) * (z0) - 2 * ((((ya0) * (z0) - 2 * ((ya1) * (z1))) * (z1) + ((ya0) * (z1) + (ya1) * (z0)) * (z0)) * (z1))) + ((((ya0) * (z0) - 2 * ((ya1) * (z1))) * (z0) - 2 * (((ya0) * (z1) + (ya1) * (z0)) * (z1))) * (z0) - 2 * ((((ya0) * (z0) - 2 * ((ya1) * (z1))) * (z1) + ((ya0) * (z1) + (ya1) * (z0)) * (z0)) * (z1))))) * (((xa0) * (z0) - 2 * ((xa1) * (z1))) * (z0) - 2 * (((xa0) * (z1) + (xa1) * (z0)) * (z1)))
        == ((((ya0) + (ya0)) * ((ya0) + (ya0)) - 2 * (((ya1) + (ya1)) * ((ya1) + (ya1)))) * (xa0) - 2 * ((((ya0) + (ya0)) * ((ya1) + (ya1)) + ((ya1) + (ya1)) * ((ya0) + (ya0))) * (xa1))) * ((((z0) * (z0) - 2 * ((z1) * (z1))) * ((z0) * (z0) - 2 * ((z1) * (z1))) - 2 * (((z0) * (z1) + (z1) * (z0)) * ((z0) * (z1) + (z1) * (z0)))) * (((z0) * (z0) - 2 * ((z1) * (z1))) * ((z0) * (z1) + (z1) * (z0)) + ((z0) * (z1) + (z1) * (z0)) * ((z0) * (z0) - 2 * ((z1) * (z1)))) + (((z0) * (z0) - 2 * ((z1) * (z1))) * ((z0) * (z1) + (z1) * (z0)) + ((z0) * (z1) + (z1) * (z0)) * ((z0) * (z0) - 2 * ((z1) * (z1)))) * (((z0) * (z0) - 2 * ((z1) * (z1))) * ((z0) * (z0) - 2 * ((z1) * (z1))) - 2 * (((z0) * (z1) + (z1) * (z0)) * ((z0) * (z1) + (z1) * (z0))))) + ((((ya0) + (ya0)) * ((ya0) + (ya0)) - 2 * (((ya1) + (ya1)) * ((ya1) + (ya1)))) * (xa1) + (((ya0) + (ya0)) * ((ya1) + (ya1)) + ((ya1) + (ya1)) * ((ya0) + (ya0))) * (xa0)) * ((((z0) * (z0) - 2 * ((z1) * (z1))) * ((z0) * (z0) - 2 * ((z1) * (z1))) - 2 * (((z0) * (z1) + (z1) * (z0)) * ((z0) * (z1) + (z1) * (z0)))) * (((z0) * (z0) - 2 * ((z1) * (z1))) * ((z0) * (z0) - 2 * ((z1) * (z1))) - 2 * (((z0) * (z1) + (z1) * (z0)) * ((z0) * (z1) + (z1) * (z0)))) - 2 * ((((z0) * (z0) - 2 * ((z1) * (z1))) * ((z0) * (z1) + (z1) * (z0)) + ((z0) * (z1) + (z1) * (z0)) * ((z0) * (z0) - 2 * ((z1) * (z1)))) * (((z0) * (z0) - 2 * ((z1) * (z1))) * ((z0) * (z1) + (z1) * (z0)) + ((z0) * (z1) + (z1) * (z0)) * ((z0) * (z0) - 2 * ((z1) * (z1))))))
{ }
proof fn qr_dF_d(ya: F2, z: F2)
    ensures q_k(8, q_mul(q_mul(q_mul(q_mul(q_mul(ya, z), z), z), q_mul(q_mul(q_mul(ya, z), z), z)), q_mul(q_mul(q_mul(q_mul(ya, z), z), z), q_mul(q_mul(q_mul(ya, z), z), z))))
        == q_mul(q_k(8, q_mul(q_mul(ya, ya), q_mul(ya, ya))), q_mul(q_mul(q_mul(q_mul(z, z), q_mul(z, z)), q_mul(q_mul(z, z), q_mul(z, z))), q_mul(q_mul(z, z), q_mul(z, z))))
{
    reveal(q_add); reveal(q_sub); reveal(q_mul); reveal(q_k); reveal(q_c);
    ring_dF_d_0(ya.c0, ya.c1, z.c0, z.c1); ring_dF_d_1(ya.c0, ya.c1, z.c0, z.c1);
}
#[verifier::external_body]
proof fn ring_dF_d_0(ya0: int, ya1: int, z0: int, z1: int)
    ensures 8 * ((((((ya0) * (z0) - 2 * ((ya1) * (z1))) * (z0) - 2 * (((ya0) * (z1) + (ya1) * (z0)) * (z1))) * (z0) - 2 * ((((ya0) * (z0) - 2 * ((ya1) * (z1))) * (z1) + ((ya0) * (z1) + (ya1) * (z0)) * (z0)) * (z1))) * ((((ya0) * (z0) - 2 * ((ya1) * (z1))) * (z0) - 2 * (((ya0) * (z1) + (ya1) * (z0)) * (z1))) * (z0) - 2 * ((((ya0) * (z0) - 2 * ((ya1) * (z1))) * (z1) + ((ya0) * (z1) + (ya1) * (z0)) * (z0)) * (z1))) - 2 * (((((ya0) * (z0) - 2 * ((ya1) * (z1))) * (z0) - 2 * (((ya0) * (z1) + (ya1) * (z0)) * (z1))) * (z1) + (((ya0) * (z0) - 2 * ((ya1) * (z1))) * (z1) + ((ya0) * (z1) + (ya1) * (z0)) * (z0)) * (z0)) * ((((ya0) * (z0) - 2 * ((ya1) * (z1))) * (z0) - 2 * (((ya0) * (z1) + (ya1) * (z0)) * (z1))) * (z1) + (((ya0) * (z0) - 2 * ((ya1) * (z1))) * (z1) + ((ya0) * (z1) + (ya1) * (z0)) * (z0)) * (z0)))) * (((((ya0) * (z0) - 2 * ((ya1) * (z1))) * (z0) - 2 * (((ya0) * (z1) + (ya1) * (z0)) * (z1))) * (z0) - 2 * ((((ya0) * (z0) - 2 * ((ya1) * (z1))) * (z1) + ((ya0) * (z1) + (ya1) * (z0)) * (z0)) * (z1))) * ((((ya0) * (z0) - 2 * ((ya1) * (z1))) * (z0) - 2 * (((ya0) * (z1) + (ya1) * (z0)) * (z1))) * (z0) - 2 * ((((ya0) * (z0) - 2 * ((ya1) * (z1))) * (z1) + ((ya0) * (z1) + (ya1) * (z0)) * (z0)) * (z1))) - 2 * (((((ya0) * (z0) - 2 * ((ya1) * (z1))) * (z0) - 2 * (((ya0) * (z1) + (ya1) * (z0)) * (z1))) * (z1) + (((ya0) * (z0) - 2 * ((ya1) * (z1))) * (z1) + ((ya0) * (z1) + (ya1) * (z0)) * (z0)) * (z0)) * ((((ya0) * (z0) - 2 * ((ya1) * (z1))) * (z0) - 2 * (((ya0) * (z1) + (ya1) * (z0)) * (z1))) * (z1) + (((ya0) * (z0) - 2 * ((ya1) * (z1))) * (z1) + ((ya0) * (z1) + (ya1) * (z0)) * (z0)) * (z0)))) - 2 * ((((((ya0) * (z0) - 2 * ((ya1) * (z1))) * (z0) - 2 * (((ya0) * (z1) + (ya1) * (z0)) * (z1))) * (z0) - 2 * ((((ya0) * (z0) - 2 * ((ya1) * (z1))) * (z1) + ((ya0) * (z1) + (ya1) * (z0)) * (z0)) * (z1))) * ((((ya0) * (z0) - 2 * ((ya1) * (z1))) * (z0) - 2 * (((ya0) * (z1) + (ya1) * (z0)) * (z1))) * (z1) + (((ya0) * (z0) - 2 * ((ya1) * (z1))) * (z1) + ((ya0) * (z1) + (ya1) * (z0)) * (z0)) * (z0)) + ((((ya0) * (z0) - 2 * ((ya1) * (z1))) * (z0) - 2 * (((ya0) * (z1) + (ya1) * (z0)) * (z1))) * (z1) + (((ya0) * (z0) - 2 * ((ya1) * (z1))) * (z1) + ((ya0) * (z1) + (ya1) * (z0)) * (z0)) * (z0)) * ((((ya0) * (z0) - 2 * ((ya1) * (z1))) * (z0) - 2 * (((ya0) * (z1) + (ya1) * (z0)) * (z1))) * (z0) - 2 * ((((ya0) * (z0) - 2 * ((ya1) * (z1))) * (z1) + ((ya0) * (z1) + (ya1) * (z0)) * (z0)) * (z1)))) * (((((ya0) * (z0) - 2 * ((ya1) * (z1))) * (z0) - 2 * (((ya0) * (z1) + (ya1) * (z0)) * (z1))) * (z0) - 2 * ((((ya0) * (z0) - 2 * ((ya1) * (z1))) * (z1) + ((ya0) * (z1) + (ya1) * (z0)) * (z0)) * (z1))) * ((((ya0) * (z0) - 2 * ((ya1) * (z1))) * (z0) - 2 * (((ya0) * (z1) + (ya1) * (z0)) * (z1))) * (z1) + (((ya0) * (z0) - 2 * ((ya1) * (z1))) * (z1) + ((ya0) * (z1) + (ya1) * (z0)) * (z0)) * (z0)) + ((((ya0) * (z0) - 2 * ((ya1) * (z1))) * (z0) - 2 * (((ya0) * (z1) + (ya1) * (z0)) * (z1))) * (z1) + (((ya0) * (z0) - 2 * ((ya1) * (z1))) * (z1) + ((ya0) * (z1) + (ya1) * (z0)) * (z0)) * (z0)) * ((((ya0) * (z0) - 2 * ((ya1) * (z1))) * (z0) - 2 * (((ya0) * (z1) + (ya1) * (z0)) * (z1))) * (z0) - 2 * ((((ya0) * (z0) - 2 * ((ya1) * (z1))) * (z1) + ((ya0) * (z1) + (ya1) * (z0)) * (z0)) * (z1))))))
        == (8 * (((ya0) * (ya0) - 2 * ((ya1) * (ya1))) * ((ya0) * (ya0) - 2 * ((ya1) * (ya1))) - 2 * (((ya0) * (ya1) + (ya1) * (ya0)) * ((ya0) * (ya1) + (ya1) * (ya0))))) * (((((z0) * (z0) - 2 * ((z1) * (z1))) * ((z0) * (z0) - 2 * ((z1) * (z1))) - 2 * (((z0) * (z1) + (z1) * (z0)) * ((z0) * (z1) + (z1) * (z0)))) * (((z0) * (z0) - 2 * ((z1) * (z1))) * ((z0) * (z0) - 2 * ((z1) * (z1))) - 2 * (((z0) * (z1) + (z1) * (z0)) * ((z0) * (z1) + (z1) * (z0)))) - 2 * ((((z0) * (z0) - 2 * ((z1) * (z1))) * ((z0) * (z1) + (z1) * (z0)) + ((z0) * (z1) + (z1) * (z0)) * ((z0) * (z0) - 2 * ((z1) * (z1)))) * (((z0) * (z0) - 2 * ((z1) * (z1))) * ((z0) * (z1) + (z1) * (z0)) + ((z0) * (z1) + (z1) * (z0)) * ((z0) * (z0) - 2 * ((z1) * (z1)))))) * (((z0) * (z0) - 2 * ((z1) * (z1))) * ((z0) * (z0) - 2 * ((z1) * (z1))) - 2 * (((z0) * (z1) + (z1) * (z0)) * ((z0) * (z1) + (z1) * (z0)))) - 2 * (((((z0) * (z0) - 2 * ((z1) * (z1))) * ((z0) * (z0) - 2 * ((z1) * (z1))) - 2 * (((z0) * (z1) + (z1) * (z0)) * ((z0) * (z1) + (z1) * (z0)))) * (((z0) * (z0) - 2 * ((z1) * (z1))) * ((z0) * (z1) + (z1) * (z0)) + ((z0) * (z1) + (z1) * (z0)) * ((z0) * (z0) - 2 * ((z1) * (z1)))) + (((z0) * (z0) - 2 * ((z1) * (z1))) * ((z0) * (z1) + (z1) * (z0)) + ((z0) * (z1) + (z1) * (z0)) * ((z0) * (z0) - 2 * ((z1) * (z1)))) * (((z0) * (z0) - 2 * ((z1) * (z1))) * ((z0) * (z0) - 2 * ((z1) * (z1))) - 2 * (((z0) * (z1) + (z1) * (z0)) * ((z0) * (z1) + (z1) * (z0))))) * (((z0) * (z0) - 2 * ((z1) * (z1))) * ((z0) * (z1) + (z1) * (z0)) + ((z0) * (z1) + (z1) * (z0)) * ((z0) * (z0) - 2 * ((z1) * (z1)))))) - 2 * ((8 * (((ya0) * (ya0) - 2 * ((ya1) * (ya1))) * ((ya0) * (ya1) + (ya1) * (ya0)) + ((ya0) * (ya1) + (ya1) * (ya0)) * ((ya0) * (ya0) - 2 * ((ya1) * (ya1))))) * (((((z0) * (z0) - 2 * ((z1) * (z1))) * ((z0) * (z0) - 2 * ((z1) * (z1))) - 2 * (((z0) * (z1) + (z1) * (z0)) * ((z0) * (z1) + (z1) * (z0)))) * (((z0) * (z0) - 2 * ((z1) * (z1))) * ((z0) * (z0) - 2 * ((z1) * (z1))) - 2 * (((z0) * (z1) + (z1) * (z0)) * ((z0) * (z1) + (z1) * (z0)))) - 2 * ((((z0) * (z0) - 2 * ((z1) * (z1))) * ((z0) * (z1) + (z1) * (z0)) + ((z0) * (z1) + (z1) * (z0)) * ((z0) * (z0) - 2 * ((z1) * (z1)))) * (((z0) * (z0) - 2 * ((z1) * (z1))) * ((z0) * (z1) + (z1) * (z0)) + ((z0) * (z1) + (z1) * (z0)) * ((z0) * (z0) - 2 * ((z1) * (z1)))))) * (((z0) * (z0) - 2 * ((z1) * (z1))) * ((z0) * (z1) + (z1) * (z0)) + ((z0) * (z1) + (z1) * (z0)) * ((z0) * (z0) - 2 * ((z1) * (z1)))) + ((((z0) * (z0) - 2 * ((z1) * (z1))) * ((z0) * (z0) - 2 * ((z1) * (z1))) - 2 * (((z0) * (z1) + (z1) * (z0)) * ((z0) * (z1) + (z1) * (z0)))) * (((z0) * (z0) - 2 * ((z1) * (z1))) * ((z0) * (z1) + (z1) * (z0)) + ((z0) * (z1) + (z1) * (z0)) * ((z0) * (z0) - 2 * ((z1) * (z1)))) + (((z0) * (z0) - 2 * ((z1) * (z1))) * ((z0) * (z1) + (z1) * (z0)) + ((z0) * (z1) + (z1) * (z0)) * ((z0) * (z0) - 2 * ((z1) * (z1)))) * (((z0) * (z0) - 2 * ((z1) * (z1))) * ((z0) * (z0) - 2 * ((z1) * (z1))) - 2 * (((z0) * (z1) + (z1) * (z0)) * ((z0) * (z1) + (z1) * (z0))))) * (((z0) * (z0) - 2 * ((z1) * (z1))) * ((z0) * (z0) - 2 * ((z1) * (z1))) - 2 * (((z0) * (z1) + (z1) * (z0)) * ((z0) * (z1) + (z1) * (z0))))))
{ }
#[verifier::external_body]
proof fn ring_dF_d_1(ya0: int, ya1: int, z0: int, z1: int)
    ensures 8 * ((((((ya0) * (z0) - 2 * ((ya1) * (z1))) * (z0) - 2 * (((ya0) * (z1) + (ya1) * (z0)) * (z1))) * (z0) - 2 * ((((ya0) * (z0) - 2 * ((ya1) * (z1))) * (z1) + ((ya0) * (z1) + (ya1) * (z0)) * (z0)) * (z1))) * ((((ya0) * (z0) - 2 * ((ya1) * (z1))) * (z0) - 2 * (((ya0) * (z1) + (ya1) * (z0)) * (z1))) * (z0) - 2 * ((((ya0) * (z0) - 2 * ((ya1) * (z1))) * (z1) + ((ya0) * (z1) + (ya1) * (z0)) * (z0)) * (z1))) - 2 * (((((ya0) * (z0) - 2 * ((ya1) * (z1))) * (z0) - 2 * (((ya0) * (z1) + (ya1) * (z0)) * (z1))) * (z1) + (((ya0) * (z0) - 2 * ((ya1) * (z1))) * (z1) + ((ya0) * (z1) + (ya1) * (z0)) * (z0)) * (z0)) * ((((ya0) * (z0) - 2 * ((ya1) * (z1))) * (z0) - 2 * (((ya0) * (z1) + (ya1) * (z0)) * (z1))) * (z1) + (((ya0) * (z0) - 2 * ((ya1) * (z1))) * (z1) + ((ya0) * (z1) + (ya1) * (z0)) * (z0)) * (z0)))) * (((((ya0) * (z0) - 2 * ((ya1) * (z1))) * (z0) - 2 * (((ya0) * (z1) + (ya1) * (z0)) * (z1))) * (z0) - 2 * ((((ya0) * (z0) - 2 * ((ya1) * (z1))) * (z1) + ((ya0) * (z1) + (ya1) * (z0)) * (z0)) * (z1))) * ((((ya0) * (z0) - 2 * ((ya1) * (z1))) * (z0) - 2 * (((ya0) * (z1) + (ya1) * (z0)) * (z1))) * (z1) + (((ya0) * (z0) - 2 * ((ya1) * (z1))) * (z1) + ((ya0) * (z1) + (ya1) * (z0)) * (z0)) * (z0)) + ((((ya0) * (z0) - 2 * ((ya1) * (z1))) * (z0) - 2 * (((ya0) * (z1) + (ya1) * (z0)) * (z1))) * (z1) + (((ya0) * (z0) - 2 * ((ya1) * (z1))) * (z1) + ((ya0) * (z1) + (ya1) * (z0)) * (z0)) * (z0)) * ((((ya0) * (z0) - 2 * ((ya1) * (z1))) * (z0) - 2 * (((ya0) * (z1) + (ya1) * (z0)) * (z1))) * (z0) - 2 * ((((ya0) * (z0) - 2 * ((ya1) * (z1))) * (z1) + ((ya0) * (z1) + (ya1) * (z0)) * (z0)) * (z1)))) + (((((ya0) * (z0) - 2 * ((ya1) * (z1))) * (z0) - 2 * (((ya0) * (z1) + (ya1) * (z0)) * (z1))) * (z0) - 2 * ((((ya0) * (z0) - 2 * ((ya1) * (z1))) * (z1) + ((ya0) * (z1) + (ya1) * (z0)) * (z0)) * (z1))) * ((((ya0) * (z0) - 2 * ((ya1) * (z1))) * (z0) - 2 * (((ya0) * (z1) + (ya1) * (z0)) * (z1))) * (z1) + (((ya0) * (z0) - 2 * ((ya1) * (z1))) * (z1) + ((ya0) * (z1) + (ya1) * (z0)) * (z0)) * (z0)) + ((((ya0) * (z0) - 2 * ((ya1) * (z1))) * (z0) - 2 * (((ya0) * (z1) + (ya1) * (z0)) * (z1))) * (z1) + (((ya0) * (z0) - 2 * ((ya1) * (z1))) * (z1) + ((ya0) * (z1) + (ya1) * (z0)) * (z0)) * (z0)) * ((((ya0) * (z0) - 2 * ((ya1) * (z1))) * (z0) - 2 * (((ya0) * (z1) + (ya1) * (z0)) * (z1))) * (z0) - 2 * ((((ya0) * (z0) - 2 * ((ya1) * (z1))) * (z1) + ((ya0) * (z1) + (ya1) * (z0)) * (z0)) * (z1)))) * (((((ya0) * (z0) - 2 * ((ya1) * (z1))) * (z0) - 2 * (((ya0) * (z1) + (ya1) * (z0)) * (z1))) * (z0) - 2 * ((((ya0) * (z0) - 2 * ((ya1) * (z1))) * (z1) + ((ya0) * (z1) + (ya1) * (z0)) * (z0)) * (z1))) * ((((ya0) * (z0) - 2 * ((ya1) * (z1))) * (z0) - 2 * (((ya0) * (z1) + (ya1) * (z0)) * (z1))) * (z0) - 2 * ((((ya0) * (z0) - 2 * ((ya1) * (z1))) * (z1) + ((ya0) * (z1) + (ya1) * (z0)) * (z0)) * (z1))) - 2 * (((((ya0) * (z0) - 2 * ((ya1) * (z1))) * (z0) - 2 * (((ya0) * (z1) + (ya1) * (z0)) * (z1))) * (z1) + (((ya0) * (z0) - 2 * ((ya1) * (z1))) * (z1) + ((ya0) * (z1) + (ya1) * (z0)) * (z0)) * (z0)) * ((((ya0) * (z0) - 2 * ((ya1) * (z1))) * (z0) - 2 * (((ya0) * (z1) + (ya1) * (z0)) * (z1))) * (z1) + (((ya0) * (z0) - 2 * ((ya1) * (z1))) * (z1) + ((ya0) * (z1) + (ya1) * (z0)) * (z0)) * (z0)))))
        == (8 * (((ya0) * (ya0) - 2 * ((ya1) * (ya1))) * ((ya0) * (ya0) - 2 * ((ya1) * (ya1))) - 2 * (((ya0) * (ya1) + (ya1) * (ya0)) * ((ya0) * (ya1) + (ya1) * (ya0))))) * (((((z0) * (z0) - 2 * ((z1) * (z1))) * ((z0) * (z0) - 2 * ((z1) * (z1))) - 2 * (((z0) * (z1) + (z1) * (z0)) * ((z0) * (z1) + (z1) * (z0)))) * (((z0) * (z0) - 2 * ((z1) * (z1))) * ((z0) * (z0) - 2 * ((z1) * (z1))) - 2 * (((z0) * (z1) + (z1) * (z0)) * ((z0) * (z1) + (z1) * (z0)))) - 2 * ((((z0) * (z0) - 2 * ((z1) * (z1))) * ((z0) * (z1) + (z1) * (z0)) + ((z0) * (z1) + (z1) * (z0)) * ((z0) * (z0) - 2 * ((z1) * (z1)))) * (((z0) * (z0) - 2 * ((z1) * (z1))) * ((z0) * (z1) + (z1) * (z0)) + ((z0) * (z1) + (z1) * (z0)) * ((z0) * (z0) - 2 * ((z1) * (z1)))))) * (((z0) * (z0) - 2 * ((z1) * (z1))) * ((z0) * (z1) + (z1) * (z0)) + ((z0) * (z1) + (z1) * (z0)) * ((z0) * (z0) - 2 * ((z1) * (z1)))) + ((((z0) * (z0) - 2 * ((z1) * (z1))) * ((z0) * (z0) - 2 * ((z1) * (z1))) - 2 * (((z0) * (z1) + (z1) * (z0)) * ((z0) * (z1) + (z1) * (z0)))) * (((z0) * (z0) - 2 * ((z1) * (z1))) * ((z0) * (z1) + (z1) * (z0)) + ((z0) * (z1) + (z1) * (z0)) * ((z0) * (z0) - 2 * ((z1) * (z1)))) + (((z0) * (z0) - 2 * ((z1) * (z1))) * ((z0) * (z1) + (z1) * (z0)) + ((z0) * (z1) + (z1) * (z0)) * ((z0) * (z0) - 2 * ((z1) * (z1)))) * (((z0) * (z0) - 2 * ((z1) * (z1))) * ((z0) * (z0) - 2 * ((z1) * (z1))) - 2 * (((z0) * (z1) + (z1) * (z0)) * ((z0) * (z1) + (z1) * (z0))))) * (((z0) * (z0) - 2 * ((z1) * (z1))) * ((z0) * (z0) - 2 * ((z1) * (z1))) - 2 * (((z0) * (z1) + (z1) * (z0)) * ((z0) * (z1) + (z1) * (z0))))) + (8 * (((ya0) * (ya0) - 2 * ((ya1) * (ya1))) * ((ya0) * (ya1) + (ya1) * (ya0)) + ((ya0) * (ya1) + (ya1) * (ya0)) * ((ya0) * (ya0) - 2 * ((ya1) * (ya1))))) * (((((z0) * (z0) - 2 * ((z1) * (z1))) * ((z0) * (z0) - 2 * ((z1) * (z1))) - 2 * (((z0) * (z1) + (z1) * (z0)) * ((z0) * (z1) + (z1) * (z0)))) * (((z0) * (z0) - 2 * ((z1) * (z1))) * ((z0) * (z0) - 2 * ((z1) * (z1))) - 2 * (((z0) * (z1) + (z1) * (z0)) * ((z0) * (z1) + (z1) * (z0)))) - 2 * ((((z0) * (z0) - 2 * ((z1) * (z1))) * ((z0) * (z1) + (z1) * (z0)) + ((z0) * (z1) + (z1) * (z0)) * ((z0) * (z0) - 2 * ((z1) * (z1)))) * (((z0) * (z0) - 2 * ((z1) * (z1))) * ((z0) * (z1) + (z1) * (z0)) + ((z0) * (z1) + (z1) * (z0)) * ((z0) * (z0) - 2 * ((z1) * (z1)))))) * (((z0) * (z0) - 2 * ((z1) * (z1))) * ((z0) * (z0) - 2 * ((z1) * (z1))) - 2 * (((z0) * (z1) + (z1) * (z0)) * ((z0) * (z1) + (z1) * (z0)))) - 2 * (((((z0) * (z0) - 2 * ((z1) * (z1))) * ((z0) * (z0) - 2 * ((z1) * (z1))) - 2 * (((z0) * (z1) + (z1) * (z0)) * ((z0) * (z1) + (z1) * (z0)))) * (((z0) * (z0) - 2 * ((z1) * (z1))) * ((z0) * (z1) + (z1) * (z0)) + ((z0) * (z1) + (z1) * (z0)) * ((z0) * (z0) - 2 * ((z1) * (z1)))) + (((z0) * (z0) - 2 * ((z1) * (z1))) * ((z0) * (z1) + (z1) * (z0)) + ((z0) * (z1) + (z1) * (z0)) * ((z0) * (z0) - 2 * ((z1) * (z1)))) * (((z0) * (z0) - 2 * ((z1) * (z1))) * ((z0) * (z0) - 2 * ((z1) * (z1))) - 2 * (((z0) * (z1) + (z1) * (z0)) * ((z0) * (z1) + (z1) * (z0))))) * (((z0) * (z0) - 2 * ((z1) * (z1))) * ((z0) * (z1) + (z1) * (z0)) + ((z0) * (z1) + (z1) * (z0)) * ((z0) * (z0) - 2 * ((z1) * (z1))))))
{ }
proof fn qr_dF_z(ya: F2, z: F2)
    ensures q_mul(q_add(q_mul(q_mul(q_mul(ya, z), z), z), q_mul(q_mul(q_mul(ya, z), z), z)), z)
        == q_mul(q_add(ya, ya), q_mul(q_mul(z, z), q_mul(z, z)))
{
    reveal(q_add); reveal(q_sub); reveal(q_mul); reveal(q_k); reveal(q_c);
    ring_dF_z_0(ya.c0, ya.c1, z.c0, z.c1); ring_dF_z_1(ya.c0, ya.c1, z.c0, z.c1);
}
#[verifier::external_body]
proof fn ring_dF_z_0(ya0: int, ya1: int, z0: int, z1: int)
    ensures (((((ya0) * (z0) - 2 * ((ya1) * (z1))) * (z0) - 2 * (((ya0) * (z1) + (ya1) * (z0)) * (z1))) * (z0) - 2 * ((((ya0) * (z0) - 2 * ((ya1) * (z1))) * (z1) + ((ya0) * (z1) + (ya1) * (z0)) * (z0)) * (z1))) + ((((ya0) * (z0) - 2 * ((ya1) * (z1))) * (z0) - 2 * (((ya0) * (z1) + (ya1) * (z0)) * (z1))) * (z0) - 2 * ((((ya0) * (z0) - 2 * ((ya1) * (z1))) * (z1) + ((ya0) * (z1) + (ya1) * (z0)) * (z0)) * (z1)))) * (z0) - 2 * ((((((ya0) * (z0) - 2 * ((ya1) * (z1))) * (z0) - 2 * (((ya0) * (z1) + (ya1) * (z0)) * (z1))) * (z1) + (((ya0) * (z0) - 2 * ((ya1) * (z1))) * (z1) + ((ya0) * (z1) + (ya1) * (z0)) * (z0)) * (z0)) + ((((ya0) * (z0) - 2 * ((ya1) * (z1))) * (z0) - 2 * (((ya0) * (z1) + (ya1) * (z0)) * (z1))) * (z1) + (((ya0) * (z0) - 2 * ((ya1) * (z1))) * (z1) + ((ya0) * (z1) + (ya1) * (z0)) * (z0)) * (z0))) * (z1))
        == ((ya0) + (ya0)) * (((z0) * (z0) - 2 * ((z1) * (z1))) * ((z0) * (z0) - 2 * ((z1) * (z1))) - 2 * (((z0) * (z1) + (z1) * (z0)) * ((z0) * (z1) + (z1) * (z0)))) - 2 * (((ya1) + (ya1)) * (((z0) * (z0) - 2 * ((z1) * (z1))) * ((z0) * (z1) + (z1) * (z0)) + ((z0) * (z1) + (z1) * (z0)) * ((z0) * (z0) - 2 * ((z1) * (z1)))))
{ }
#[verifier::external_body]
proof fn ring_dF_z_1(ya0: int, ya1: int, z0: int, z1: int)
    ensures (((((ya0) * (z0) - 2 * ((ya1) * (z1))) * (z0) - 2 * (((ya0) * (z1) + (ya1) * (z0)) * (z1))) * (z0) - 2 * ((((ya0) * (z0) - 2 * ((ya1) * (z1))) * (z1) + ((ya0) * (z1) + (ya1) * (z0)) * (z0)) * (z1))) + ((((ya0) * (z0) - 2 * ((ya1) * (z1))) * (z0) - 2 * (((ya0) * (z1) + (ya1) * (z0)) * (z1))) * (z0) - 2 * ((((ya0) * (z0) - 2 * ((ya1) * (z1))) * (z1) + ((ya0) * (z1) + (ya1) * (z0)) * (z0)) * (z1)))) * (z1) + (((((ya0) * (z0) - 2 * ((ya1) * (z1))) * (z0) - 2 * (((ya0) * (z1) + (ya1) * (z0)) * (z1))) * (z1) + (((ya0) * (z0) - 2 * ((ya1) * (z1))) * (z1) + ((ya0) * (z1) + (ya1) * (z0)) * (z0)) * (z0)) + ((((ya0) * (z0) - 2 * ((ya1) * (z1))) * (z0) - 2 * (((ya0) * (z1) + (ya1) * (z0)) * (z1))) * (z1) + (((ya0) * (z0) - 2 * ((ya1) * (z1))) * (z1) + ((ya0) * (z1) + (ya1) * (z0)) * (z0)) * (z0))) * (z0)
        == ((ya0) + (ya0)) * (((z0) * (z0) - 2 * ((z1) * (z1))) * ((z0) * (z1) + (z1) * (z0)) + ((z0) * (z1) + (z1) * (z0)) * ((z0) * (z0) - 2 * ((z1) * (z1)))) + ((ya1) + (ya1)) * (((z0) * (z0) - 2 * ((z1) * (z1))) * ((z0) * (z0) - 2 * ((z1) * (z1))) - 2 * (((z0) * (z1) + (z1) * (z0)) * ((z0) * (z1) + (z1) * (z0))))
{ }
proof fn qr_dG_x(Tv: F2, S4v: F2, W: F2)
    ensures q_sub(q_mul(q_mul(Tv, W), q_mul(Tv, W)), q_add(q_mul(S4v, q_mul(W, W)), q_mul(S4v, q_mul(W, W))))
        == q_mul(q_sub(q_mul(Tv, Tv), q_add(S4v, S4v)), q_mul(W, W))
{
    reveal(q_add); reveal(q_sub); reveal(q_mul); reveal(q_k); reveal(q_c);
    ring_dG_x_0(Tv.c0, Tv.c1, S4v.c0, S4v.c1, W.c0, W.c1); ring_dG_x_1(Tv.c0, Tv.c1, S4v.c0, S4v.c1, W.c0, W.c1);
}
#[verifier::external_body]
proof fn ring_dG_x_0(Tv0: int, Tv1: int, S4v0: int, S4v1: int, W0: int, W1: int)
    ensures (((Tv0) * (W0) - 2 * ((Tv1) * (W1))) * ((Tv0) * (W0) - 2 * ((Tv1) * (W1))) - 2 * (((Tv0) * (W1) + (Tv1) * (W0)) * ((Tv0) * (W1) + (Tv1) * (W0)))) - (((S4v0) * ((W0) * (W0) - 2 * ((W1) * (W1))) - 2 * ((S4v1) * ((W0) * (W1) + (W1) * (W0)))) + ((S4v0) * ((W0) * (W0) - 2 * ((W1) * (W1))) - 2 * ((S4v1) * ((W0) * (W1) + (W1) * (W0)))))
        == (((Tv0) * (Tv0) - 2 * ((Tv1) * (Tv1))) - ((S4v0) + (S4v0))) * ((W0) * (W0) - 2 * ((W1) * (W1))) - 2 * ((((Tv0) * (Tv1) + (Tv1) * (Tv0)) - ((S4v1) + (S4v1))) * ((W0) * (W1) + (W1) * (W0)))
{ }
#[verifier::external_body]
proof fn ring_dG_x_1(Tv0: int, Tv1: int, S4v0: int, S4v1: int, W0: int, W1: int)
    ensures (((Tv0) * (W0) - 2 * ((Tv1) * (W1))) * ((Tv0) * (W1) + (Tv1) * (W0)) + ((Tv0) * (W1) + (Tv1) * (W0)) * ((Tv0) * (W0) - 2 * ((Tv1) * (W1)))) - (((S4v0) * ((W0) * (W1) + (W1) * (W0)) + (S4v1) * ((W0) * (W0) - 2 * ((W1) * (W1)))) + ((S4v0) * ((W0) * (W1) + (W1) * (W0)) + (S4v1) * ((W0) * (W0) - 2 * ((W1) * (W1)))))
        == (((Tv0) * (Tv0) - 2 * ((Tv1) * (Tv1))) - ((S4v0) + (S4v0))) * ((W0) * (W1) + (W1) * (W0)) + (((Tv0) * (Tv1) + (Tv1) * (Tv0)) - ((S4v1) + (S4v1))) * ((W0) * (W0) - 2 * ((W1) * (W1)))
{ }
proof fn qr_dG_y(Tv: F2, S4v: F2, x3nv: F2, D8v: F2, W: F2)
    ensures q_sub(q_mul(q_sub(q_mul(S4v, q_mul(W, W)), q_mul(x3nv, q_mul(W, W))), q_mul(Tv, W)), q_mul(D8v, q_mul(q_mul(W, W), W)))
        == q_mul(q_sub(q_mul(Tv, q_sub(S4v, x3nv)), D8v), q_mul(q_mul(W, W), W))
{
    reveal(q_add); reveal(q_sub); reveal(q_mul); reveal(q_k); reveal(q_c);
    ring_dG_y_0(Tv.c0, Tv.c1, S4v.c0, S4v.c1, x3nv.c0, x3nv.c1, D8v.c0, D8v.c1, W.c0, W.c1); ring_dG_y_1(Tv.c0, Tv.c1, S4v.c0, S4v.c1, x3nv.c0, x3nv.c1, D8v.c0, D8v.c1, W.c0, W.c1);
}
#[verifier::external_body]
proof fn ring_dG_y_0(Tv0: int, Tv1: int, S4v0: int, S4v1: int, x3nv0: int, x3nv1: int, D8v0: int, D8v1: int, W0: int, W1: int)
    ensures ((((S4v0) * ((W0) * (W0) - 2 * ((W1) * (W1))) - 2 * ((S4v1) * ((W0) * (W1) + (W1) * (W0)))) - ((x3nv0) * ((W0) * (W0) - 2 * ((W1) * (W1))) - 2 * ((x3nv1) * ((W0) * (W1) + (W1) * (W0))))) * ((Tv0) * (W0) - 2 * ((Tv1) * (W1))) - 2 * ((((S4v0) * ((W0) * (W1) + (W1) * (W0)) + (S4v1) * ((W0) * (W0) - 2 * ((W1) * (W1)))) - ((x3nv0) * ((W0) * (W1) + (W1) * (W0)) + (x3nv1) * ((W0) * (W0) - 2 * ((W1) * (W1))))) * ((Tv0) * (W1) + (Tv1) * (W0)))) - ((D8v0) * (((W0) * (W0) - 2 * ((W1) * (W1))) * (W0) - 2 * (((W0) * (W1) + (W1) * (W0)) * (W1))) - 2 * ((D8v1) * (((W0) * (W0) - 2 * ((W1) * (W1))) * (W1) + ((W0) * (W1) + (W1) * (W0)) * (W0))))
        == (((Tv0) * ((S4v0) - (x3nv0)) - 2 * ((Tv1) * ((S4v1) - (x3nv1)))) - (D8v0)) * (((W0) * (W0) - 2 * ((W1) * (W1))) * (W0) - 2 * (((W0) * (W1) + (W1) * (W0)) * (W1))) - 2 * ((((Tv0) * ((S4v1) - (x3nv1)) + (Tv1) * ((S4v0) - (x3nv0))) - (D8v1)) * (((W0) * (W0) - 2 * ((W1) * (W1))) * (W1) + ((W0) * (W1) + (W1) * (W0)) * (W0)))
{ }
#[verifier::external_body]
proof fn ring_dG_y_1(Tv0: int, Tv1: int, S4v0: int, S4v1: int, x3nv0: int, x3nv1: int, D8v0: int, D8v1: int, W0: int, W1: int)
    ensures ((((S4v0) * ((W0) * (W0) - 2 * ((W1) * (W1))) - 2 * ((S4v1) * ((W0) * (W1) + (W1) * (W0)))) - ((x3nv0) * ((W0) * (W0) - 2 * ((W1) * (W1))) - 2 * ((x3nv1) * ((W0) * (W1) + (W1) * (W0))))) * ((Tv0) * (W1) + (Tv1) * (W0)) + (((S4v0) * ((W0) * (W1) + (W1) * (W0)) + (S4v1) * ((W0) * (W0) - 2 * ((W1) * (W1)))) - ((x3nv0) * ((W0) * (W1) + (W1) * (W0)) + (x3nv1) * ((W0) * (W0) - 2 * ((W1) * (W1))))) * ((Tv0) * (W0) - 2 * ((Tv1) * (W1)))) - ((D8v0) * (((W0) * (W0) - 2 * ((W1) * (W1))) * (W1) + ((W0) * (W1) + (W1) * (W0)) * (W0)) + (D8v1) * (((W0) * (W0) - 2 * ((W1) * (W1))) * (W0) - 2 * (((W0) * (W1) + (W1) * (W0)) * (W1))))
        == (((Tv0) * ((S4v0) - (x3nv0)) - 2 * ((Tv1) * ((S4v1) - (x3nv1)))) - (D8v0)) * (((W0) * (W0) - 2 * ((W1) * (W1))) * (W1) + ((W0) * (W1) + (W1) * (W0)) * (W0)) + (((Tv0) * ((S4v1) - (x3nv1)) + (Tv1) * ((S4v0) - (x3nv0))) - (D8v1)) * (((W0) * (W0) - 2 * ((W1) * (W1))) * (W0) - 2 * (((W0) * (W1) + (W1) * (W0)) * (W1)))
{ }
// twist_point_add_full, both operands finite: the cross-multiplied coordinates and their differences
spec fn af1_rel(X1: F2, Y1: F2, Z1: F2, X2: F2, Y2: F2, Z2: F2, t1: F2, t2: F2, u2: F2, u1: F2, t5: F2, h: F2, t1c: F2, s2: F2, t2c: F2, s1: F2, t6: F2, r: F2) -> bool {
    t1 == m2_mul(Z1, Z1)
    && t2 == m2_mul(Z2, Z2)
    && u2 == m2_mul(X2, t1)
    && u1 == m2_mul(X1, t2)
    && t5 == m2_add(u2, u1)
    && h == m2_sub(u2, u1)
    && t1c == m2_mul(t1, Z1)
    && s2 == m2_mul(t1c, Y2)
    && t2c == m2_mul(t2, Z2)
    && s1 == m2_mul(t2c, Y1)
    && t6 == m2_add(s2, s1)
    && r == m2_sub(s2, s1)
}
proof fn af1_chain(X1: F2, Y1: F2, Z1: F2, X2: F2, Y2: F2, Z2: F2, t1: F2, t2: F2, u2: F2, u1: F2, t5: F2, h: F2, t1c: F2, s2: F2, t2c: F2, s1: F2, t6: F2, r: F2, X1p: F2, Y1p: F2, Z1p: F2, X2p: F2, Y2p: F2, Z2p: F2)
    requires af1_rel(X1, Y1, Z1, X2, Y2, Z2, t1, t2, u2, u1, t5, h, t1c, s2, t2c, s1, t6, r),
        qc(X1, X1p),
        qc(Y1, Y1p),
        qc(Z1, Z1p),
        qc(X2, X2p),
        qc(Y2, Y2p),
        qc(Z2, Z2p)
    ensures qc(u1, q_mul(X1p, q_mul(Z2p, Z2p))),
        qc(u2, q_mul(X2p, q_mul(Z1p, Z1p))),
        qc(s1, q_mul(q_mul(q_mul(Z2p, Z2p), Z2p), Y1p)),
        qc(s2, q_mul(q_mul(q_mul(Z1p, Z1p), Z1p), Y2p)),
        qc(t5, q_add(q_mul(X2p, q_mul(Z1p, Z1p)), q_mul(X1p, q_mul(Z2p, Z2p)))),
        qc(h, q_sub(q_mul(X2p, q_mul(Z1p, Z1p)), q_mul(X1p, q_mul(Z2p, Z2p)))),
        qc(t6, q_add(q_mul(q_mul(q_mul(Z1p, Z1p), Z1p), Y2p), q_mul(q_mul(q_mul(Z2p, Z2p), Z2p), Y1p))),
        qc(r, q_sub(q_mul(q_mul(q_mul(Z1p, Z1p), Z1p), Y2p), q_mul(q_mul(q_mul(Z2p, Z2p), Z2p), Y1p))),
        m2_ok(u1),
        m2_ok(u2),
        m2_ok(s1),
        m2_ok(s2),
        m2_ok(t5),
        m2_ok(h),
        m2_ok(t6),
        m2_ok(r)
{
    t2_cm(t1, Z1, Z1, Z1p, Z1p);
    t2_cm(t2, Z2, Z2, Z2p, Z2p);
    t2_cm(u2, X2, t1, X2p, q_mul(Z1p, Z1p));
    t2_cm(u1, X1, t2, X1p, q_mul(Z2p, Z2p));
    t2_ca(t5, u2, u1, q_mul(X2p, q_mul(Z1p, Z1p)), q_mul(X1p, q_mul(Z2p, Z2p)));
    t2_cs(h, u2, u1, q_mul(X2p, q_mul(Z1p, Z1p)), q_mul(X1p, q_mul(Z2p, Z2p)));
    t2_cm(t1c, t1, Z1, q_mul(Z1p, Z1p), Z1p);
    t2_cm(s2, t1c, Y2, q_mul(q_mul(Z1p, Z1p), Z1p), Y2p);
    t2_cm(t2c, t2, Z2, q_mul(Z2p, Z2p), Z2p);
    t2_cm(s1, t2c, Y1, q_mul(q_mul(Z2p, Z2p), Z2p), Y1p);
    t2_ca(t6, s2, s1, q_mul(q_mul(q_mul(Z1p, Z1p), Z1p), Y2p), q_mul(q_mul(q_mul(Z2p, Z2p), Z2p), Y1p));
    t2_cs(r, s2, s1, q_mul(q_mul(q_mul(Z1p, Z1p), Z1p), Y2p), q_mul(q_mul(q_mul(Z2p, Z2p), Z2p), Y1p));
}
proof fn qr_af_u1(x1: F2, z1: F2, z2: F2)
    ensures q_mul(q_mul(q_mul(x1, z1), z1), q_mul(z2, z2))
        == q_mul(x1, q_mul(q_mul(z1, z2), q_mul(z1, z2)))
{
    reveal(q_add); reveal(q_sub); reveal(q_mul); reveal(q_k); reveal(q_c);
    ring_af_u1_0(x1.c0, x1.c1, z1.c0, z1.c1, z2.c0, z2.c1); ring_af_u1_1(x1.c0, x1.c1, z1.c0, z1.c1, z2.c0, z2.c1);
}
#[verifier::external_body]
proof fn ring_af_u1_0(x10: int, x11: int, z10: int, z11: int, z20: int, z21: int)
    ensures (((x10) * (z10) - 2 * ((x11) * (z11))) * (z10) - 2 * (((x10) * (z11) + (x11) * (z10)) * (z11))) * ((z20) * (z20) - 2 * ((z21) * (z21))) - 2 * ((((x10) * (z10) - 2 * ((x11) * (z11))) * (z11) + ((x10) * (z11) + (x11) * (z10)) * (z10)) * ((z20) * (z21) + (z21) * (z20)))
        == (x10) * (((z10) * (z20) - 2 * ((z11) * (z21))) * ((z10) * (z20) - 2 * ((z11) * (z21))) - 2 * (((z10) * (z21) + (z11) * (z20)) * ((z10) * (z21) + (z11) * (z20)))) - 2 * ((x11) * (((z10) * (z20) - 2 * ((z11) * (z21))) * ((z10) * (z21) + (z11) * (z20)) + ((z10) * (z21) + (z11) * (z20)) * ((z10) * (z20) - 2 * ((z11) * (z21)))))
{ }
#[verifier::external_body]
proof fn ring_af_u1_1(x10: int, x11: int, z10: int, z11: int, z20: int, z21: int)
    ensures (((x10) * (z10) - 2 * ((x11) * (z11))) * (z10) - 2 * (((x10) * (z11) + (x11) * (z10)) * (z11))) * ((z20) * (z21) + (z21) * (z20)) + (((x10) * (z10) - 2 * ((x11) * (z11))) * (z11) + ((x10) * (z11) + (x11) * (z10)) * (z10)) * ((z20) * (z20) - 2 * ((z21) * (z21)))
        == (x10) * (((z10) * (z20) - 2 * ((z11) * (z21))) * ((z10) * (z21) + (z11) * (z20)) + ((z10) * (z21) + (z11) * (z20)) * ((z10) * (z20) - 2 * ((z11) * (z21)))) + (x11) * (((z10) * (z20) - 2 * ((z11) * (z21))) * ((z10) * (z20) - 2 * ((z11) * (z21))) - 2 * (((z10) * (z21) + (z11) * (z20)) * ((z10) * (z21) + (z11) * (z20))))
{ }
proof fn qr_af_u2(x2: F2, z1: F2, z2: F2)
    ensures q_mul(q_mul(q_mul(x2, z2), z2), q_mul(z1, z1))
        == q_mul(x2, q_mul(q_mul(z1, z2), q_mul(z1, z2)))
{
    reveal(q_add); reveal(q_sub); reveal(q_mul); reveal(q_k); reveal(q_c);
    ring_af_u2_0(x2.c0, x2.c1, z1.c0, z1.c1, z2.c0, z2.c1); ring_af_u2_1(x2.c0, x2.c1, z1.c0, z1.c1, z2.c0, z2.c1);
}
#[verifier::external_body]
proof fn ring_af_u2_0(x20: int, x21: int, z10: int, z11: int, z20: int, z21: int)
    ensures (((x20) * (z20) - 2 * ((x21) * (z21))) * (z20) - 2 * (((x20) * (z21) + (x21) * (z20)) * (z21))) * ((z10) * (z10) - 2 * ((z11) * (z11))) - 2 * ((((x20) * (z20) - 2 * ((x21) * (z21))) * (z21) + ((x20) * (z21) + (x21) * (z20)) * (z20)) * ((z10) * (z11) + (z11) * (z10)))
        == (x20) * (((z10) * (z20) - 2 * ((z11) * (z21))) * ((z10) * (z20) - 2 * ((z11) * (z21))) - 2 * (((z10) * (z21) + (z11) * (z20)) * ((z10) * (z21) + (z11) * (z20)))) - 2 * ((x21) * (((z10) * (z20) - 2 * ((z11) * (z21))) * ((z10) * (z21) + (z11) * (z20)) + ((z10) * (z21) + (z11) * (z20)) * ((z10) * (z20) - 2 * ((z11) * (z21)))))
{ }
#[verifier::external_body]
proof fn ring_af_u2_1(x20: int, x21: int, z10: int, z11: int, z20: int, z21: int)
    ensures (((x20) * (z20) - 2 * ((x21) * (z21))) * (z20) - 2 * (((x20) * (z21) + (x21) * (z20)) * (z21))) * ((z10) * (z11) + (z11) * (z10)) + (((x20) * (z20) - 2 * ((x21) * (z21))) * (z21) + ((x20) * (z21) + (x21) * (z20)) * (z20)) * ((z10) * (z10) - 2 * ((z11) * (z11)))
        == (x20) * (((z10) * (z20) - 2 * ((z11) * (z21))) * ((z10) * (z21) + (z11) * (z20)) + ((z10) * (z21) + (z11) * (z20)) * ((z10) * (z20) - 2 * ((z11) * (z21)))) + (x21) * (((z10) * (z20) - 2 * ((z11) * (z21))) * ((z10) * (z20) - 2 * ((z11) * (z21))) - 2 * (((z10) * (z21) + (z11) * (z20)) * ((z10) * (z21) + (z11) * (z20))))
{ }
proof fn qr_af_s1(y1: F2, z1: F2, z2: F2)
    ensures q_mul(q_mul(q_mul(z2, z2), z2), q_mul(q_mul(q_mul(y1, z1), z1), z1))
        == q_mul(y1, q_mul(q_mul(q_mul(z1, z2), q_mul(z1, z2)), q_mul(z1, z2)))
{
    reveal(q_add); reveal(q_sub); reveal(q_mul); reveal(q_k); reveal(q_c);
    ring_af_s1_0(y1.c0, y1.c1, z1.c0, z1.c1, z2.c0, z2.c1); ring_af_s1_1(y1.c0, y1.c1, z1.c0, z1.c1, z2.c0, z2.c1);
}
#[verifier::external_body]
proof fn ring_af_s1_0(y10: int, y11: int, z10: int, z11: int, z20: int, z21: int)
    ensures (((z20) * (z20) - 2 * ((z21) * (z21))) * (z20) - 2 * (((z20) * (z21) + (z21) * (z20)) * (z21))) * ((((y10) * (z10) - 2 * ((y11) * (z11))) * (z10) - 2 * (((y10) * (z11) + (y11) * (z10)) * (z11))) * (z10) - 2 * ((((y10) * (z10) - 2 * ((y11) * (z11))) * (z11) + ((y10) * (z11) + (y11) * (z10)) * (z10)) * (z11))) - 2 * ((((z20) * (z20) - 2 * ((z21) * (z21))) * (z21) + ((z20) * (z21) + (z21) * (z20)) * (z20)) * ((((y10) * (z10) - 2 * ((y11) * (z11))) * (z10) - 2 * (((y10) * (z11) + (y11) * (z10)) * (z11))) * (z11) + (((y10) * (z10) - 2 * ((y11) * (z11))) * (z11) + ((y10) * (z11) + (y11) * (z10)) * (z10)) * (z10)))
        == (y10) * ((((z10) * (z20) - 2 * ((z11) * (z21))) * ((z10) * (z20) - 2 * ((z11) * (z21))) - 2 * (((z10) * (z21) + (z11) * (z20)) * ((z10) * (z21) + (z11) * (z20)))) * ((z10) * (z20) - 2 * ((z11) * (z21))) - 2 * ((((z10) * (z20) - 2 * ((z11) * (z21))) * ((z10) * (z21) + (z11) * (z20)) + ((z10) * (z21) + (z11) * (z20)) * ((z10) * (z20) - 2 * ((z11) * (z21)))) * ((z10) * (z21) + (z11) * (z20)))) - 2 * ((y11) * ((((z10) * (z20) - 2 * ((z11) * (z21))) * ((z10) * (z20) - 2 * ((z11) * (z21))) - 2 * (((z10) * (z21) + (z11) * (z20)) * ((z10) * (z21) + (z11) * (z20)))) * ((z10) * (z21) + (z11) * (z20)) + (((z10) * (z20) - 2 * ((z11) * (z21))) * ((z10) * (z21) + (z11) * (z20)) + ((z10) * (z21) + (z11) * (z20)) * ((z10) * (z20) - 2 * ((z11) * (z21)))) * ((z10) * (z20) - 2 * ((z11) * (z21)))))
{ }
#[verifier::external_body]
proof fn ring_af_s1_1(y10: int, y11: int, z10: int, z11: int, z20: int, z21: int)
    ensures (((z20) * (z20) - 2 * ((z21) * (z21))) * (z20) - 2 * (((z20) * (z21) + (z21) * (z20)) * (z21))) * ((((y10) * (z10) - 2 * ((y11) * (z11))) * (z10) - 2 * (((y10) * (z11) + (y11) * (z10)) * (z11))) * (z11) + (((y10) * (z10) - 2 * ((y11) * (z11))) * (z11) + ((y10) * (z11) + (y11) * (z10)) * (z10)) * (z10)) + (((z20) * (z20) - 2 * ((z21) * (z21))) * (z21) + ((z20) * (z21) + (z21) * (z20)) * (z20)) * ((((y10) * (z10) - 2 * ((y11) * (z11))) * (z10) - 2 * (((y10) * (z11) + (y11) * (z10)) * (z11))) * (z10) - 2 * ((((y10) * (z10) - 2 * ((y11) * (z11))) * (z11) + ((y10) * (z11) + (y11) * (z10)) * (z10)) * (z11)))
        == (y10) * ((((z10) * (z20) - 2 * ((z11) * (z21))) * ((z10) * (z20) - 2 * ((z11) * (z21))) - 2 * (((z10) * (z21) + (z11) * (z20)) * ((z10) * (z21) + (z11) * (z20)))) * ((z10) * (z21) + (z11) * (z20)) + (((z10) * (z20) - 2 * ((z11) * (z21))) * ((z10) * (z21) + (z11) * (z20)) + ((z10) * (z21) + (z11) * (z20)) * ((z10) * (z20) - 2 * ((z11) * (z21)))) * ((z10) * (z20) - 2 * ((z11) * (z21)))) + (y11) * ((((z10) * (z20) - 2 * ((z11) * (z21))) * ((z10) * (z20) - 2 * ((z11) * (z21))) - 2 * (((z10) * (z21) + (z11) * (z20)) * ((z10) * (z21) + (z11) * (z20)))) * ((z10) * (z20) - 2 * ((z11) * (z21))) - 2 * ((((z10) * (z20) - 2 * ((z11) * (z21))) * ((z10) * (z21) + (z11) * (z20)) + ((z10) * (z21) + (z11) * (z20)) * ((z10) * (z20) - 2 * ((z11) * (z21)))) * ((z10) * (z21) + (z11) * (z20))))
{ }
proof fn qr_af_s2(y2: F2, z1: F2, z2: F2)
    ensures q_mul(q_mul(q_mul(z1, z1), z1), q_mul(q_mul(q_mul(y2, z2), z2), z2))
        == q_mul(y2, q_mul(q_mul(q_mul(z1, z2), q_mul(z1, z2)), q_mul(z1, z2)))
{
    reveal(q_add); reveal(q_sub); reveal(q_mul); reveal(q_k); reveal(q_c);
    ring_af_s2_0(y2.c0, y2.c1, z1.c0, z1.c1, z2.c0, z2.c1); ring_af_s2_1(y2.c0, y2.c1, z1.c0, z1.c1, z2.c0, z2.c1);
}
#[verifier::external_body]
proof fn ring_af_s2_0(y20: int, y21: int, z10: int, z11: int, z20: int, z21: int)
    ensures (((z10) * (z10) - 2 * ((z11) * (z11))) * (z10) - 2 * (((z10) * (z11) + (z11) * (z10)) * (z11))) * ((((y20) * (z20) - 2 * ((y21) * (z21))) * (z20) - 2 * (((y20) * (z21) + (y21) * (z20)) * (z21))) * (z20) - 2 * ((((y20) * (z20) - 2 * ((y21) * (z21))) * (z21) + ((y20) * (z21) + (y21) * (z20)) * (z20)) * (z21))) - 2 * ((((z10) * (z10) - 2 * ((z11) * (z11))) * (z11) + ((z10) * (z11) + (z11) * (z10)) * (z10)) * ((((y20) * (z20) - 2 * ((y21) * (z21))) * (z20) - 2 * (((y20) * (z21) + (y21) * (z20)) * (z21))) * (z21) + (((y20) * (z20) - 2 * ((y21) * (z21))) * (z21) + ((y20) * (z21) + (y21) * (z20)) * (z20)) * (z20)))
        == (y20) * ((((z10) * (z20) - 2 * ((z11) * (z21))) * ((z10) * (z20) - 2 * ((z11) * (z21))) - 2 * (((z10) * (z21) + (z11) * (z20)) * ((z10) * (z21) + (z11) * (z20)))) * ((z10) * (z20) - 2 * ((z11) * (z21))) - 2 * ((((z10) * (z20) - 2 * ((z11) * (z21))) * ((z10) * (z21) + (z11) * (z20)) + ((z10) * (z21) + (z11) * (z20)) * ((z10) * (z20) - 2 * ((z11) * (z21)))) * ((z10) * (z21) + (z11) * (z20)))) - 2 * ((y21) * ((((z10) * (z20) - 2 * ((z11) * (z21))) * ((z10) * (z20) - 2 * ((z11) * (z21))) - 2 * (((z10) * (z21) + (z11) * (z20)) * ((z10) * (z21) + (z11) * (z20)))) * ((z10) * (z21) + (z11) * (z20)) + (((z10) * (z20) - 2 * ((z11) * (z21))) * ((z10) * (z21) + (z11) * (z20)) + ((z10) * (z21) + (z11) * (z20)) * ((z10) * (z20) - 2 * ((z11) * (z21)))) * ((z10) * (z20) - 2 * ((z11) * (z21)))))
{ }
#[verifier::external_body]
proof fn ring_af_s2_1(y20: int, y21: int, z10: int, z11: int, z20: int, z21: int)
    ensures (((z10) * (z10) - 2 * ((z11) * (z11))) * (z10) - 2 * (((z10) * (z11) + (z11) * (z10)) * (z11))) * ((((y20) * (z20) - 2 * ((y21) * (z21))) * (z20) - 2 * (((y20) * (z21) + (y21) * (z20)) * (z21))) * (z21) + (((y20) * (z20) - 2 * ((y21) * (z21))) * (z21) + ((y20) * (z21) + (y21) * (z20)) * (z20)) * (z20)) + (((z10) * (z10) - 2 * ((z11) * (z11))) * (z11) + ((z10) * (z11) + (z11) * (z10)) * (z10)) * ((((y20) * (z20) - 2 * ((y21) * (z21))) * (z20) - 2 * (((y20) * (z21) + (y21) * (z20)) * (z21))) * (z20) - 2 * ((((y20) * (z20) - 2 * ((y21) * (z21))) * (z21) + ((y20) * (z21) + (y21) * (z20)) * (z20)) * (z21)))
        == (y20) * ((((z10) * (z20) - 2 * ((z11) * (z21))) * ((z10) * (z20) - 2 * ((z11) * (z21))) - 2 * (((z10) * (z21) + (z11) * (z20)) * ((z10) * (z21) + (z11) * (z20)))) * ((z10) * (z21) + (z11) * (z20)) + (((z10) * (z20) - 2 * ((z11) * (z21))) * ((z10) * (z21) + (z11) * (z20)) + ((z10) * (z21) + (z11) * (z20)) * ((z10) * (z20) - 2 * ((z11) * (z21)))) * ((z10) * (z20) - 2 * ((z11) * (z21)))) + (y21) * ((((z10) * (z20) - 2 * ((z11) * (z21))) * ((z10) * (z20) - 2 * ((z11) * (z21))) - 2 * (((z10) * (z21) + (z11) * (z20)) * ((z10) * (z21) + (z11) * (z20)))) * ((z10) * (z20) - 2 * ((z11) * (z21))) - 2 * ((((z10) * (z20) - 2 * ((z11) * (z21))) * ((z10) * (z21) + (z11) * (z20)) + ((z10) * (z21) + (z11) * (z20)) * ((z10) * (z20) - 2 * ((z11) * (z21)))) * ((z10) * (z21) + (z11) * (z20))))
{ }
// twist_point_add_full: the generic branch
spec fn af2_rel(u1: F2, s1: F2, t5: F2, h: F2, r: F2, Z1: F2, Z2: F2, r2: F2, t7a: F2, z3: F2, h2: F2, t5b: F2, h3: F2, v: F2, x3: F2, t4b: F2, y3a: F2, s1h: F2, y3: F2) -> bool {
    r2 == m2_mul(r, r)
    && t7a == m2_mul(h, Z1)
    && z3 == m2_mul(t7a, Z2)
    && h2 == m2_mul(h, h)
    && t5b == m2_mul(t5, h2)
    && h3 == m2_mul(h, h2)
    && v == m2_mul(u1, h2)
    && x3 == m2_sub(r2, t5b)
    && t4b == m2_sub(v, x3)
    && y3a == m2_mul(r, t4b)
    && s1h == m2_mul(s1, h3)
    && y3 == m2_sub(y3a, s1h)
}
proof fn af2_chain(u1: F2, s1: F2, t5: F2, h: F2, r: F2, Z1: F2, Z2: F2, r2: F2, t7a: F2, z3: F2, h2: F2, t5b: F2, h3: F2, v: F2, x3: F2, t4b: F2, y3a: F2, s1h: F2, y3: F2, u1p: F2, s1p: F2, t5p: F2, hp: F2, rp: F2, Z1p: F2, Z2p: F2)
    requires af2_rel(u1, s1, t5, h, r, Z1, Z2, r2, t7a, z3, h2, t5b, h3, v, x3, t4b, y3a, s1h, y3),
        qc(u1, u1p),
        qc(s1, s1p),
        qc(t5, t5p),
        qc(h, hp),
        qc(r, rp),
        qc(Z1, Z1p),
        qc(Z2, Z2p)
    ensures qc(x3, q_sub(q_mul(rp, rp), q_mul(t5p, q_mul(hp, hp)))),
        qc(y3, q_sub(q_mul(rp, q_sub(q_mul(u1p, q_mul(hp, hp)), q_sub(q_mul(rp, rp), q_mul(t5p, q_mul(hp, hp))))), q_mul(s1p, q_mul(hp, q_mul(hp, hp))))),
        qc(z3, q_mul(q_mul(hp, Z1p), Z2p)),
        m2_ok(x3),
        m2_ok(y3),
        m2_ok(z3)
{
    t2_cm(r2, r, r, rp, rp);
    t2_cm(t7a, h, Z1, hp, Z1p);
    t2_cm(z3, t7a, Z2, q_mul(hp, Z1p), Z2p);
    t2_cm(h2, h, h, hp, hp);
    t2_cm(t5b, t5, h2, t5p, q_mul(hp, hp));
    t2_cm(h3, h, h2, hp, q_mul(hp, hp));
    t2_cm(v, u1, h2, u1p, q_mul(hp, hp));
    t2_cs(x3, r2, t5b, q_mul(rp, rp), q_mul(t5p, q_mul(hp, hp)));
    t2_cs(t4b, v, x3, q_mul(u1p, q_mul(hp, hp)), q_sub(q_mul(rp, rp), q_mul(t5p, q_mul(hp, hp))));
    t2_cm(y3a, r, t4b, rp, q_sub(q_mul(u1p, q_mul(hp, hp)), q_sub(q_mul(rp, rp), q_mul(t5p, q_mul(hp, hp)))));
    t2_cm(s1h, s1, h3, s1p, q_mul(hp, q_mul(hp, hp)));
    t2_cs(y3, y3a, s1h, q_mul(rp, q_sub(q_mul(u1p, q_mul(hp, hp)), q_sub(q_mul(rp, rp), q_mul(t5p, q_mul(hp, hp))))), q_mul(s1p, q_mul(hp, q_mul(hp, hp))));
}
proof fn qr_af_z(dxv: F2, z1: F2, z2: F2)
    ensures q_mul(q_mul(q_mul(dxv, q_mul(q_mul(z1, z2), q_mul(z1, z2))), z1), z2)
        == q_mul(dxv, q_mul(q_mul(q_mul(z1, z2), q_mul(z1, z2)), q_mul(z1, z2)))
{
    reveal(q_add); reveal(q_sub); reveal(q_mul); reveal(q_k); reveal(q_c);
    ring_af_z_0(dxv.c0, dxv.c1, z1.c0, z1.c1, z2.c0, z2.c1); ring_af_z_1(dxv.c0, dxv.c1, z1.c0, z1.c1, z2.c0, z2.c1);
}
#[verifier::external_body]
proof fn ring_af_z_0(dxv0: int, dxv1: int, z10: int, z11: int, z20: int, z21: int)
    ensures (((dxv0) * (((z10) * (z20) - 2 * ((z11) * (z21))) * ((z10) * (z20) - 2 * ((z11) * (z21))) - 2 * (((z10) * (z21) + (z11) * (z20)) * ((z10) * (z21) + (z11) * (z20)))) - 2 * ((dxv1) * (((z10) * (z20) - 2 * ((z11) * (z21))) * ((z10) * (z21) + (z11) * (z20)) + ((z10) * (z21) + (z11) * (z20)) * ((z10) * (z20) - 2 * ((z11) * (z21)))))) * (z10) - 2 * (((dxv0) * (((z10) * (z20) - 2 * ((z11) * (z21))) * ((z10) * (z21) + (z11) * (z20)) + ((z10) * (z21) + (z11) * (z20)) * ((z10) * (z20) - 2 * ((z11) * (z21)))) + (dxv1) * (((z10) * (z20) - 2 * ((z11) * (z21))) * ((z10) * (z20) - 2 * ((z11) * (z21))) - 2 * (((z10) * (z21) + (z11) * (z20)) * ((z10) * (z21) + (z11) * (z20))))) * (z11))) * (z20) - 2 * ((((dxv0) * (((z10) * (z20) - 2 * ((z11) * (z21))) * ((z10) * (z20) - 2 * ((z11) * (z21))) - 2 * (((z10) * (z21) + (z11) * (z20)) * ((z10) * (z21) + (z11) * (z20)))) - 2 * ((dxv1) * (((z10) * (z20) - 2 * ((z11) * (z21))) * ((z10) * (z21) + (z11) * (z20)) + ((z10) * (z21) + (z11) * (z20)) * ((z10) * (z20) - 2 * ((z11) * (z21)))))) * (z11) + ((dxv0) * (((z10) * (z20) - 2 * ((z11) * (z21))) * ((z10) * (z21) + (z11) * (z20)) + ((z10) * (z21) + (z11) * (z20)) * ((z10) * (z20) - 2 * ((z11) * (z21)))) + (dxv1) * (((z10) * (z20) - 2 * ((z11) * (z21))) * ((z10) * (z20) - 2 * ((z11) * (z21))) - 2 * (((z10) * (z21) + (z11) * (z20)) * ((z10) * (z21) + (z11) * (z20))))) * (z10)) * (z21))
        == (dxv0) * ((((z10) * (z20) - 2 * ((z11) * (z21))) * ((z10) * (z20) - 2 * ((z11) * (z21))) - 2 * (((z10) * (z21) + (z11) * (z20)) * ((z10) * (z21) + (z11) * (z20)))) * ((z10) * (z20) - 2 * ((z11) * (z21))) - 2 * ((((z10) * (z20) - 2 * ((z11) * (z21))) * ((z10) * (z21) + (z11) * (z20)) + ((z10) * (z21) + (z11) * (z20)) * ((z10) * (z20) - 2 * ((z11) * (z21)))) * ((z10) * (z21) + (z11) * (z20)))) - 2 * ((dxv1) * ((((z10) * (z20) - 2 * ((z11) * (z21))) * ((z10) * (z20) - 2 * ((z11) * (z21))) - 2 * (((z10) * (z21) + (z11) * (z20)) * ((z10) * (z21) + (z11) * (z20)))) * ((z10) * (z21) + (z11) * (z20)) + (((z10) * (z20) - 2 * ((z11) * (z21))) * ((z10) * (z21) + (z11) * (z20)) + ((z10) * (z21) + (z11) * (z20)) * ((z10) * (z20) - 2 * ((z11) * (z21)))) * ((z10) * (z20) - 2 * ((z11) * (z21)))))
{ }
#[verifier::external_body]
proof fn ring_af_z_1(dxv0: int, dxv1: int, z10: int, z11: int, z20: int, z21: int)
    ensures (((dxv0) * (((z10) * (z20) - 2 * ((z11) * (z21))) * ((z10) * (z20) - 2 * ((z11) * (z21))) - 2 * (((z10) * (z21) + (z11) * (z20)) * ((z10) * (z21) + (z11) * (z20)))) - 2 * ((dxv1) * (((z10) * (z20) - 2 * ((z11) * (z21))) * ((z10) * (z21) + (z11) * (z20)) + ((z10) * (z21) + (z11) * (z20)) * ((z10) * (z20) - 2 * ((z11) * (z21)))))) * (z10) - 2 * (((dxv0) * (((z10) * (z20) - 2 * ((z11) * (z21))) * ((z10) * (z21) + (z11) * (z20)) + ((z10) * (z21) + (z11) * (z20)) * ((z10) * (z20) - 2 * ((z11) * (z21)))) + (dxv1) * (((z10) * (z20) - 2 * ((z11) * (z21))) * ((z10) * (z20) - 2 * ((z11) * (z21))) - 2 * (((z10) * (z21) + (z11) * (z20)) * ((z10) * (z21) + (z11) * (z20))))) * (z11))) * (z21) + (((dxv0) * (((z10) * (z20) - 2 * ((z11) * (z21))) * ((z10) * (z20) - 2 * ((z11) * (z21))) - 2 * (((z10) * (z21) + (z11) * (z20)) * ((z10) * (z21) + (z11) * (z20)))) - 2 * ((dxv1) * (((z10) * (z20) - 2 * ((z11) * (z21))) * ((z10) * (z21) + (z11) * (z20)) + ((z10) * (z21) + (z11) * (z20)) * ((z10) * (z20) - 2 * ((z11) * (z21)))))) * (z11) + ((dxv0) * (((z10) * (z20) - 2 * ((z11) * (z21))) * ((z10) * (z21) + (z11) * (z20)) + ((z10) * (z21) + (z11) * (z20)) * ((z10) * (z20) - 2 * ((z11) * (z21)))) + (dxv1) * (((z10) * (z20) - 2 * ((z11) * (z21))) * ((z10) * (z20) - 2 * ((z11) * (z21))) - 2 * (((z10) * (z21) + (z11) * (z20)) * ((z10) * (z21) + (z11) * (z20))))) * (z10)) * (z20)
        == (dxv0) * ((((z10) * (z20) - 2 * ((z11) * (z21))) * ((z10) * (z20) - 2 * ((z11) * (z21))) - 2 * (((z10) * (z21) + (z11) * (z20)) * ((z10) * (z21) + (z11) * (z20)))) * ((z10) * (z21) + (z11) * (z20)) + (((z10) * (z20) - 2 * ((z11) * (z21))) * ((z10) * (z21) + (z11) * (z20)) + ((z10) * (z21) + (z11) * (z20)) * ((z10) * (z20) - 2 * ((z11) * (z21)))) * ((z10) * (z20) - 2 * ((z11) * (z21)))) + (dxv1) * ((((z10) * (z20) - 2 * ((z11) * (z21))) * ((z10) * (z20) - 2 * ((z11) * (z21))) - 2 * (((z10) * (z21) + (z11) * (z20)) * ((z10) * (z21) + (z11) * (z20)))) * ((z10) * (z20) - 2 * ((z11) * (z21))) - 2 * ((((z10) * (z20) - 2 * ((z11) * (z21))) * ((z10) * (z21) + (z11) * (z20)) + ((z10) * (z21) + (z11) * (z20)) * ((z10) * (z20) - 2 * ((z11) * (z21)))) * ((z10) * (z21) + (z11) * (z20))))
{ }
proof fn qr_af_x(x1: F2, x2: F2, dyv: F2, t: F2)
    ensures q_sub(q_mul(q_mul(dyv, q_mul(q_mul(t, t), t)), q_mul(dyv, q_mul(q_mul(t, t), t))), q_mul(q_add(q_mul(x2, q_mul(t, t)), q_mul(x1, q_mul(t, t))), q_mul(q_mul(q_sub(x2, x1), q_mul(t, t)), q_mul(q_sub(x2, x1), q_mul(t, t)))))
        == q_mul(q_sub(q_mul(dyv, dyv), q_mul(q_add(x1, x2), q_mul(q_sub(x2, x1), q_sub(x2, x1)))), q_mul(q_mul(q_mul(t, t), t), q_mul(q_mul(t, t), t)))
{
    reveal(q_add); reveal(q_sub); reveal(q_mul); reveal(q_k); reveal(q_c);
    ring_af_x_0(x1.c0, x1.c1, x2.c0, x2.c1, dyv.c0, dyv.c1, t.c0, t.c1); ring_af_x_1(x1.c0, x1.c1, x2.c0, x2.c1, dyv.c0, dyv.c1, t.c0, t.c1);
}
#[verifier::external_body]
proof fn ring_af_x_0(x10: int, x11: int, x20: int, x21: int, dyv0: int, dyv1: int, t0: int, t1: int)
    ensures (((dyv0) * (((t0) * (t0) - 2 * ((t1) * (t1))) * (t0) - 2 * (((t0) * (t1) + (t1) * (t0)) * (t1))) - 2 * ((dyv1) * (((t0) * (t0) - 2 * ((t1) * (t1))) * (t1) + ((t0) * (t1) + (t1) * (t0)) * (t0)))) * ((dyv0) * (((t0) * (t0) - 2 * ((t1) * (t1))) * (t0) - 2 * (((t0) * (t1) + (t1) * (t0)) * (t1))) - 2 * ((dyv1) * (((t0) * (t0) - 2 * ((t1) * (t1))) * (t1) + ((t0) * (t1) + (t1) * (t0)) * (t0)))) - 2 * (((dyv0) * (((t0) * (t0) - 2 * ((t1) * (t1))) * (t1) + ((t0) * (t1) + (t1) * (t0)) * (t0)) + (dyv1) * (((t0) * (t0) - 2 * ((t1) * (t1))) * (t0) - 2 * (((t0) * (t1) + (t1) * (t0)) * (t1)))) * ((dyv0) * (((t0) * (t0) - 2 * ((t1) * (t1))) * (t1) + ((t0) * (t1) + (t1) * (t0)) * (t0)) + (dyv1) * (((t0) * (t0) - 2 * ((t1) * (t1))) * (t0) - 2 * (((t0) * (t1) + (t1) * (t0)) * (t1)))))) - ((((x20) * ((t0) * (t0) - 2 * ((t1) * (t1))) - 2 * ((x21) * ((t0) * (t1) + (t1) * (t0)))) + ((x10) * ((t0) * (t0) - 2 * ((t1) * (t1))) - 2 * ((x11) * ((t0) * (t1) + (t1) * (t0))))) * ((((x20) - (x10)) * ((t0) * (t0) - 2 * ((t1) * (t1))) - 2 * (((x21) - (x11)) * ((t0) * (t1) + (t1) * (t0)))) * (((x20) - (x10)) * ((t0) * (t0) - 2 * ((t1) * (t1))) - 2 * (((x21) - (x11)) * ((t0) * (t1) + (t1) * (t0)))) - 2 * ((((x20) - (x10)) * ((t0) * (t1) + (t1) * (t0)) + ((x21) - (x11)) * ((t0) * (t0) - 2 * ((t1) * (t1)))) * (((x20) - (x10)) * ((t0) * (t1) + (t1) * (t0)) + ((x21) - (x11)) * ((t0) * (t0) - 2 * ((t1) * (t1)))))) - 2 * ((((x20) * ((t0) * (t1) + (t1) * (t0)) + (x21) * ((t0) * (t0) - 2 * ((t1) * (t1)))) + ((x10) * ((t0) * (t1) + (t1) * (t0)) + (x11) * ((t0) * (t0) - 2 * ((t1) * (t1))))) * ((((x20) - (x10)) * ((t0) * (t0) - 2 * ((t1) * (t1))) - 2 * (((x21) - (x11)) * ((t0) * (t1) + (t1) * (t0)))) * (((x20) - (x10)) * ((t0) * (t1) + (t1) * (t0)) + ((x21) - (x11)) * ((t0) * (t0) - 2 * ((t1) * (t1)))) + (((x20) - (x10)) * ((t0) * (t1) + (t1) * (t0)) + ((x21) - (x11)) * ((t0) * (t0) - 2 * ((t1) * (t1)))) * (((x20) - (x10)) * ((t0) * (t0) - 2 * ((t1) * (t1))) - 2 * (((x21) - (x11)) * ((t0) * (t1) + (t1) * (t0)))))))
        == (((dyv0) * (dyv0) - 2 * ((dyv1) * (dyv1))) - (((x10) + (x20)) * (((x20) - (x10)) * ((x20) - (x10)) - 2 * (((x21) - (x11)) * ((x21) - (x11)))) - 2 * (((x11) + (x21)) * (((x20) - (x10)) * ((x21) - (x11)) + ((x21) - (x11)) * ((x20) - (x10)))))) * ((((t0) * (t0) - 2 * ((t1) * (t1))) * (t0) - 2 * (((t0) * (t1) + (t1) * (t0)) * (t1))) * (((t0) * (t0) - 2 * ((t1) * (t1))) * (t0) - 2 * (((t0) * (t1) + (t1) * (t0)) * (t1))) - 2 * ((((t0) * (t0) - 2 * ((t1) * (t1))) * (t1) + ((t0) * (t1) + (t1) * (t0)) * (t0)) * (((t0) * (t0) - 2 * ((t1) * (t1))) * (t1) + ((t0) * (t1) + (t1) * (t0)) * (t0)))) - 2 * ((((dyv0) * (dyv1) + (dyv1) * (dyv0)) - (((x10) + (x20)) * (((x20) - (x10)) * ((x21) - (x11)) + ((x21) - (x11)) * ((x20) - (x10))) + ((x11) + (x21)) * (((x20) - (x10)) * ((x20) - (x10)) - 2 * (((x21) - (x11)) * ((x21) - (x11)))))) * ((((t0) * (t0) - 2 * ((t1) * (t1))) * (t0) - 2 * (((t0) * (t1) + (t1) * (t0)) * (t1))) * (((t0) * (t0) - 2 * ((t1) * (t1))) * (t1) + ((t0) * (t1) + (t1) * (t0)) * (t0)) + (((t0) * (t0) - 2 * ((t1) * (t1))) * (t1) + ((t0) * (t1) + (t1) * (t0)) * (t0)) * (((t0) * (t0) - 2 * ((t1) * (t1))) * (t0) - 2 * (((t0) * (t1) + (t1) * (t0)) * (t1)))))
{ }
#[verifier::external_body]
proof fn ring_af_x_1(x10: int, x11: int, x20: int, x21: int, dyv0: int, dyv1: int, t0: int, t1: int)
    ensures (((dyv0) * (((t0) * (t0) - 2 * ((t1) * (t1))) * (t0) - 2 * (((t0) * (t1) + (t1) * (t0)) * (t1))) - 2 * ((dyv1) * (((t0) * (t0) - 2 * ((t1) * (t1))) * (t1) + ((t0) * (t1) + (t1) * (t0)) * (t0)))) * ((dyv0) * (((t0) * (t0) - 2 * ((t1) * (t1))) * (t1) + ((t0) * (t1) + (t1) * (t0)) * (t0)) + (dyv1) * (((t0) * (t0) - 2 * ((t1) * (t1))) * (t0) - 2 * (((t0) * (t1) + (t1) * (t0)) * (t1)))) + ((dyv0) * (((t0) * (t0) - 2 * ((t1) * (t1))) * (t1) + ((t0) * (t1) + (t1) * (t0)) * (t0)) + (dyv1) * (((t0) * (t0) - 2 * ((t1) * (t1))) * (t0) - 2 * (((t0) * (t1) + (t1) * (t0)) * (t1)))) * ((dyv0) * (((t0) * (t0) - 2 * ((t1) * (t1))) * (t0) - 2 * (((t0) * (t1) + (t1) * (t0)) * (t1))) - 2 * ((dyv1) * (((t0) * (t0) - 2 * ((t1) * (t1))) * (t1) + ((t0) * (t1) + (t1) * (t0)) * (t0))))) - ((((x20) * ((t0) * (t0) - 2 * ((t1) * (t1))) - 2 * ((x21) * ((t0) * (t1) + (t1) * (t0)))) + ((x10) * ((t0) * (t0) - 2 * ((t1) * (t1))) - 2 * ((x11) * ((t0) * (t1) + (t1) * (t0))))) * ((((x20) - (x10)) * ((t0) * (t0) - 2 * ((t1) * (t1))) - 2 * (((x21) - (x11)) * ((t0) * (t1) + (t1) * (t0)))) * (((x20) - (x10)) * ((t0) * (t1) + (t1) * (t0)) + ((x21) - (x11)) * ((t0) * (t0) - 2 * ((t1) * (t1)))) + (((x20) - (x10)) * ((t0) * (t1) + (t1) * (t0)) + ((x21) - (x11)) * ((t0) * (t0) - 2 * ((t1) * (t1)))) * (((x20) - (x10)) * ((t0) * (t0) - 2 * ((t1) * (t1))) - 2 * (((x21) - (x11)) * ((t0) * (t1) + (t1) * (t0))))) + (((x20) * ((t0) * (t1) + (t1) * (t0)) + (x21) * ((t0) * (t0) - 2 * ((t1) * (t1)))) + ((x10) * ((t0) * (t1) + (t1) * (t0)) + (x11) * ((t0) * (t0) - 2 * ((t1) * (t1))))) * ((((x20) - (x10)) * ((t0) * (t0) - 2 * ((t1) * (t1))) - 2 * (((x21) - (x11)) * ((t0) * (t1) + (t1) * (t0)))) * (((x20) - (x10)) * ((t0) * (t0) - 2 * ((t1) * (t1))) - 2 * (((x21) - (x11)) * ((t0) * (t1) + (t1) * (t0)))) - 2 * ((((x20) - (x10)) * ((t0) * (t1) + (t1) * (t0)) + ((x21) - (x11)) * ((t0) * (t0) - 2 * ((t1) * (t1)))) * (((x20) - (x10)) * ((t0) * (t1) + (t1) * (t0)) + ((x21) - (x11)) * ((t0) * (t0) - 2 * ((t1) * (t1)))))))
        == (((dyv0) * (dyv0) - 2 * ((dyv1) * (dyv1))) - (((x10) + (x20)) * (((x20) - (x10)) * ((x20) - (x10)) - 2 * (((x21) - (x11)) * ((x21) - (x11)))) - 2 * (((x11) + (x21)) * (((x20) - (x10)) * ((x21) - (x11)) + ((x21) - (x11)) * ((x20) - (x10)))))) * ((((t0) * (t0) - 2 * ((t1) * (t1))) * (t0) - 2 * (((t0) * (t1) + (t1) * (t0)) * (t1))) * (((t0) * (t0) - 2 * ((t1) * (t1))) * (t1) + ((t0) * (t1) + (t1) * (t0)) * (t0)) + (((t0) * (t0) - 2 * ((t1) * (t1))) * (t1) + ((t0) * (t1) + (t1) * (t0)) * (t0)) * (((t0) * (t0) - 2 * ((t1) * (t1))) * (t0) - 2 * (((t0) * (t1) + (t1) * (t0)) * (t1)))) + (((dyv0) * (dyv1) + (dyv1) * (dyv0)) - (((x10) + (x20)) * (((x20) - (x10)) * ((x21) - (x11)) + ((x21) - (x11)) * ((x20) - (x10))) + ((x11) + (x21)) * (((x20) - (x10)) * ((x20) - (x10)) - 2 * (((x21) - (x11)) * ((x21) - (x11)))))) * ((((t0) * (t0) - 2 * ((t1) * (t1))) * (t0) - 2 * (((t0) * (t1) + (t1) * (t0)) * (t1))) * (((t0) * (t0) - 2 * ((t1) * (t1))) * (t0) - 2 * (((t0) * (t1) + (t1) * (t0)) * (t1))) - 2 * ((((t0) * (t0) - 2 * ((t1) * (t1))) * (t1) + ((t0) * (t1) + (t1) * (t0)) * (t0)) * (((t0) * (t0) - 2 * ((t1) * (t1))) * (t1) + ((t0) * (t1) + (t1) * (t0)) * (t0))))
{ }
proof fn qr_af_y(x1: F2, y1: F2, dxv: F2, dyv: F2, x3nv: F2, t: F2)
    ensures q_sub(q_mul(q_mul(dyv, q_mul(q_mul(t, t), t)), q_sub(q_mul(q_mul(x1, q_mul(t, t)), q_mul(q_mul(dxv, q_mul(t, t)), q_mul(dxv, q_mul(t, t)))), q_mul(x3nv, q_mul(q_mul(q_mul(t, t), t), q_mul(q_mul(t, t), t))))), q_mul(q_mul(y1, q_mul(q_mul(t, t), t)), q_mul(q_mul(dxv, q_mul(t, t)), q_mul(q_mul(dxv, q_mul(t, t)), q_mul(dxv, q_mul(t, t))))))
        == q_mul(q_sub(q_mul(dyv, q_sub(q_mul(x1, q_mul(dxv, dxv)), x3nv)), q_mul(y1, q_mul(q_mul(dxv, dxv), dxv))), q_mul(q_mul(q_mul(q_mul(t, t), t), q_mul(q_mul(t, t), t)), q_mul(q_mul(t, t), t)))
{
    reveal(q_add); reveal(q_sub); reveal(q_mul); reveal(q_k); reveal(q_c);
    ring_af_y_0(x1.c0, x1.c1, y1.c0, y1.c1, dxv.c0, dxv.c1, dyv.c0, dyv.c1, x3nv.c0, x3nv.c1, t.c0, t.c1); ring_af_y_1(x1.c0, x1.c1, y1.c0, y1.c1, dxv.c0, dxv.c1, dyv.c0, dyv.c1, x3nv.c0, x3nv.c1, t.c0, t.c1);
}
#[verifier::external_body]
proof fn ring_af_y_0(x10: int, x11: int, y10: int, y11: int, dxv0: int, dxv1: int, dyv0: int, dyv1: int, x3nv0: int, x3nv1: int, t0: int, t1: int)
    ensures (((dyv0) * (((t0) * (t0) - 2 * ((t1) * (t1))) * (t0) - 2 * (((t0) * (t1) + (t1) * (t0)) * (t1))) - 2 * ((dyv1) * (((t0) * (t0) - 2 * ((t1) * (t1))) * (t1) + ((t0) * (t1) + (t1) * (t0)) * (t0)))) * ((((x10) * ((t0) * (t0) - 2 * ((t1) * (t1))) - 2 * ((x11) * ((t0) * (t1) + (t1) * (t0)))) * (((dxv0) * ((t0) * (t0) - 2 * ((t1) * (t1))) - 2 * ((dxv1) * ((t0) * (t1) + (t1) * (t0)))) * ((dxv0) * ((t0) * (t0) - 2 * ((t1) * (t1))) - 2 * ((dxv1) * ((t0) * (t1) + (t1) * (t0)))) - 2 * (((dxv0) * ((t0) * (t1) + (t1) * (t0)) + (dxv1) * ((t0) * (t0) - 2 * ((t1) * (t1)))) * ((dxv0) * ((t0) * (t1) + (t1) * (t0)) + (dxv1) * ((t0) * (t0) - 2 * ((t1) * (t1)))))) - 2 * (((x10) * ((t0) * (t1) + (t1) * (t0)) + (x11) * ((t0) * (t0) - 2 * ((t1) * (t1)))) * (((dxv0) * ((t0) * (t0) - 2 * ((t1) * (t1))) - 2 * ((dxv1) * ((t0) * (t1) + (t1) * (t0)))) * ((dxv0) * ((t0) * (t1) + (t1) * (t0)) + (dxv1) * ((t0) * (t0) - 2 * ((t1) * (t1)))) + ((dxv0) * ((t0) * (t1) + (t1) * (t0)) + (dxv1) * ((t0) * (t0) - 2 * ((t1) * (t1)))) * ((dxv0) * ((t0) * (t0) - 2 * ((t1) * (t1))) - 2 * ((dxv1) * ((t0) * (t1) + (t1) * (t0))))))) - ((x3nv0) * ((((t0) * (t0) - 2 * ((t1) * (t1))) * (t0) - 2 * (((t0) * (t1) + (t1) * (t0)) * (t1))) * (((t0) * (t0) - 2 * ((t1) * (t1))) * (t0) - 2 * (((t0) * (t1) + (t1) * (t0)) * (t1))) - 2 * ((((t0) * (t0) - 2 * ((t1) * (t1))) * (t1) + ((t0) * (t1) + (t1) * (t0)) * (t0)) * (((t0) * (t0) - 2 * ((t1) * (t1))) * (t1) + ((t0) * (t1) + (t1) * (t0)) * (t0)))) - 2 * ((x3nv1) * ((((t0) * (t0) - 2 * ((t1) * (t1))) * (t0) - 2 * (((t0) * (t1) + (t1) * (t0)) * (t1))) * (((t0) * (t0) - 2 * ((t1) * (t1))) * (t1) + ((t0) * (t1) + (t1) * (t0)) * (t0)) + (((t0) * (t0) - 2 * ((t1) * (t1))) * (t1) + ((t0) * (t1) + (t1) * (t0)) * (t0)) * (((t0) * (t0) - 2 * ((t1) * (t1))) * (t0) - 2 * (((t0) * (t1) + (t1) * (t0)) * (t1))))))) - 2 * (((dyv0) * (((t0) * (t0) - 2 * ((t1) * (t1))) * (t1) + ((t0) * (t1) + (t1) * (t0)) * (t0)) + (dyv1) * (((t0) * (t0) - 2 * ((t1) * (t1))) * (t0) - 2 * (((t0) * (t1) + (t1) * (t0)) * (t1)))) * ((((x10) * ((t0) * (t0) - 2 * ((t1) * (t1))) - 2 * ((x11) * ((t0) * (t1) + (t1) * (t0)))) * (((dxv0) * ((t0) * (t0) - 2 * ((t1) * (t1))) - 2 * ((dxv1) * ((t0) * (t1) + (t1) * (t0)))) * ((dxv0) * ((t0) * (t1) + (t1) * (t0)) + (dxv1) * ((t0) * (t0) - 2 * ((t1) * (t1)))) + ((dxv0) * ((t0) * (t1) + (t1) * (t0)) + (dxv1) * ((t0) * (t0) - 2 * ((t1) * (t1)))) * ((dxv0) * ((t0) * (t0) - 2 * ((t1) * (t1))) - 2 * ((dxv1) * ((t0) * (t1) + (t1) * (t0))))) + ((x10) * ((t0) * (t1) + (t1) * (t0)) + (x11) * ((t0) * (t0) - 2 * ((t1) * (t1)))) * (((dxv0) * ((t0) * (t0) - 2 * ((t1) * (t1))) - 2 * ((dxv1) * ((t0) * (t1) + (t1) * (t0)))) * ((dxv0) * ((t0) * (t0) - 2 * ((t1) * (t1))) - 2 * ((dxv1) * ((t0) * (t1) + (t1) * (t0)))) - 2 * (((dxv0) * ((t0) * (t1) + (t1) * (t0)) + (dxv1) * ((t0) * (t0) - 2 * ((t1) * (t1)))) * ((dxv0) * ((t0) * (t1) + (t1) * (t0)) + (dxv1) * ((t0) * (t0) - 2 * ((t1) * (t1))))))) - ((x3nv0) * ((((t0) * (t0) - 2 * ((t1) * (t1))) * (t0) - 2 * (((t0) * (t1) + (t1) * (t0)) * (t1))) * (((t0) * (t0) - 2 * ((t1) * (t1))) * (t1) + ((t0) * (t1) + (t1) * (t0)) * (t0)) + (((t0) * (t0) - 2 * ((t1) * (t1))) * (t1) + ((t0) * (t1) + (t1) * (t0)) * (t0)) * (((t0) * (t0) - 2 * ((t1) * (t1))) * (t0) - 2 * (((t0) * (t1) + (t1) * (t0)) * (t1)))) + (x3nv1) * ((((t0) * (t0) - 2 * ((t1) * (t1))) * (t0) - 2 * (((t0) * (t1) + (t1) * (t0)) * (t1))) * (((t0) * (t0) - 2 * ((t1) * (t1))) * (t0) - 2 * (((t0) * (t1) + (t1) * (t0)) * (t1))) - 2 * ((((t0) * (t0) - 2 * ((t1) * (t1))) * (t1) + ((t0) * (t1) + (t1) * (t0)) * (t0)) * (((t0) * (t0) - 2 * ((t1) * (t1))) * (t1) + ((t0) * (t1) + (t1) * (t0)) * (t0)))))))) - (((y10) * (((t0) * (t0) - 2 * ((t1) * (t1))) * (t0) - 2 * (((t0) * (t1) + (t1) * (t0)) * (t1))) - 2 * ((y11) * (((t0) * (t0) - 2 * ((t1) * (t1))) * (t1) + ((t0) * (t1) + (t1) * (t0)) * (t0)))) * (((dxv0) * ((t0) * (t0) - 2 * ((t1) * (t1))) - 2 * ((dxv1) * ((t0) * (t1) + (t1) * (t0)))) * (((dxv0) * ((t0) * (t0) - 2 * ((t1) * (t1))) - 2 * ((dxv1) * ((t0) * (t1) + (t1) * (t0)))) * ((dxv0) * ((t0) * (t0) - 2 * ((t1) * (t1))) - 2 * ((dxv1) * ((t0) * (t1) + (t1) * (t0)))) - 2 * (((dxv0) * ((t0) * (t1) + (t1) * (t0)) + (dxv1) * ((t0) * (t0) - 2 * ((t1) * (t1)))) * ((dxv0) * ((t0) * (t1) + (t1) * (t0)) + (dxv1) * ((t0) * (t0) - 2 * ((t1) * (t1)))))) - 2 * (((dxv0) * ((t0) * (t1) + (t1) * (t0)) + (dxv1) * ((t0) * (t0) - 2 * ((t1) * (t1)))) * (((dxv0) * ((t0) * (t0) - 2 * ((t1) * (t1))) - 2 * ((dxv1) * ((t0) * (t1) + (t1) * (t0)))) * ((dxv0) * ((t0) * (t1) + (t1) * (t0)) + (dxv1) * ((t0) * (t0) - 2 * ((t1) * (t1)))) + ((dxv0) * ((t0) * (t1) + (t1) * (t0)) + (dxv1) * ((t0) * (t0) - 2 * ((t1) * (t1)))) * ((dxv0) * ((t0) * (t0) - 2 * ((t1) * (t1))) - 2 * ((dxv1) * ((t0) * (t1) + (t1) * (t0))))))) - 2 * (((y10) * (((t0) * (t0) - 2 * ((t1) * (t1))) * (t1) + ((t0) * (t1) + (t1) * (t0)) * (t0)) + (y11) * (((t0) * (t0) - 2 * ((t1) * (t1))) * (t0) - 2 * (((t0) * (t1) + (t1) * (t0)) * (t1)))) * (((dxv0) * ((t0) * (t0) - 2 * ((t1) * (t1))) - 2 * ((dxv1) * ((t0) * (t1) + (t1) * (t0)))) * (((dxv0) * ((t0) * (t0) - 2 * ((t1) * (t1))) - 2 * ((dxv1) * ((t0) * (t1) + (t1) * (t0)))) * ((dxv0) * ((t0) * (t1) + (t1) * (t0)) + (dxv1) * ((t0) * (t0) - 2 * ((t1) * (t1)))) + ((dxv0) * ((t0) * (t1) + (t1) * (t0)) + (dxv1) * ((t0) * (t0) - 2 * ((t1) * (t1)))) * ((dxv0) * ((t0) * (t0) - 2 * ((t1) * (t1))) - 2 * ((dxv1) * ((t0) * (t1) + (t1) * (t0))))) + ((dxv0) * ((t0) * (t1) + (t1) * (t0)) + (dxv1) * ((t0) * (t0) - 2 * ((t1) * (t1)))) * (((dxv0) * ((t0) * (t0) - 2 * ((t1) * (t1))) - 2 * ((dxv1) * ((t0) * (t1) + (t1) * (t0)))) * ((dxv0) * ((t0) * (t0) - 2 * ((t1) * (t1))) - 2 * ((dxv1) * ((t0) * (t1) + (t1) * (t0)))) - 2 * (((dxv0) * ((t0) * (t1) + (t1) * (t0)) + (dxv1) * ((t0) * (t0) - 2 * ((t1) * (t1)))) * ((dxv0) * ((t0) * (t1) + (t1) * (t0)) + (dxv1) * ((t0) * (t0) - 2 * ((t1) * (t1)))))))))
        == (((dyv0) * (((x10) * ((dxv0) * (dxv0) - 2 * ((dxv1) * (dxv1))) - 2 * ((x11) * ((dxv0) * (dxv1) + (dxv1) * (dxv0)))) - (x3nv0)) - 2 * ((dyv1) * (((x10) * ((dxv0) * (dxv1) + (dxv1) * (dxv0)) + (x11) * ((dxv0) * (dxv0) - 2 * ((dxv1) * (dxv1)))) - (x3nv1)))) - ((y10) * (((dxv0) * (dxv0) - 2 * ((dxv1) * (dxv1))) * (dxv0) - 2 * (((dxv0) * (dxv1) + (dxv1) * (dxv0)) * (dxv1))) - 2 * ((y11) * (((dxv0) * (dxv0) - 2 * ((dxv1) * (dxv1))) * (dxv1) + ((dxv0) * (dxv1) + (dxv1) * (dxv0)) * (dxv0))))) * (((((t0) * (t0) - 2 * ((t1) * (t1))) * (t0) - 2 * (((t0) * (t1) + (t1) * (t0)) * (t1))) * (((t0) * (t0) - 2 * ((t1) * (t1))) * (t0) - 2 * (((t0) * (t1) + (t1) * (t0)) * (t1))) - 2 * ((((t0) * (t0) - 2 * ((t1) * (t1))) * (t1) + ((t0) * (t1) + (t1) * (t0)) * (t0)) * (((t0) * (t0) - 2 * ((t1) * (t1))) * (t1) + ((t0) * (t1) + (t1) * (t0)) * (t0)))) * (((t0) * (t0) - 2 * ((t1) * (t1))) * (t0) - 2 * (((t0) * (t1) + (t1) * (t0)) * (t1))) - 2 * (((((t0) * (t0) - 2 * ((t1) * (t1))) * (t0) - 2 * (((t0) * (t1) + (t1) * (t0)) * (t1))) * (((t0) * (t0) - 2 * ((t1) * (t1))) * (t1) + ((t0) * (t1) + (t1) * (t0)) * (t0)) + (((t0) * (t0) - 2 * ((t1) * (t1))) * (t1) + ((t0) * (t1) + (t1) * (t0)) * (t0)) * (((t0) * (t0) - 2 * ((t1) * (t1))) * (t0) - 2 * (((t0) * (t1) + (t1) * (t0)) * (t1)))) * (((t0) * (t0) - 2 * ((t1) * (t1))) * (t1) + ((t0) * (t1) + (t1) * (t0)) * (t0)))) - 2 * ((((dyv0) * (((x10) * ((dxv0) * (dxv1) + (dxv1) * (dxv0)) + (x11) * ((dxv0) * (dxv0) - 2 * ((dxv1) * (dxv1)))) - (x3nv1)) + (dyv1) * (((x10) * ((dxv0) * (dxv0) - 2 * ((dxv1) * (dxv1))) - 2 * ((x11) * ((dxv0) * (dxv1) + (dxv1) * (dxv0)))) - (x3nv0))) - ((y10) * (((dxv0) * (dxv0) - 2 * ((dxv1) * (dxv1))) * (dxv1) + ((dxv0) * (dxv1) + (dxv1) * (dxv0)) * (dxv0)) + (y11) * (((dxv0) * (dxv0) - 2 * ((dxv1) * (dxv1))) * (dxv0) - 2 * (((dxv0) * (dxv1) + (dxv1) * (dxv0)) * (dxv1))))) * (((((t0) * (t0) - 2 * ((t1) * (t1))) * (t0) - 2 * (((t0) * (t1) + (t1) * (t0)) * (t1))) * (((t0) * (t0) - 2 * ((t1) * (t1))) * (t0) - 2 * (((t0) * (t1) + (t1) * (t0)) * (t1))) - 2 * ((((t0) * (t0) - 2 * ((t1) * (t1))) * (t1) + ((t0) * (t1) + (t1) * (t0)) * (t0)) * (((t0) * (t0) - 2 * ((t1) * (t1))) * (t1) + ((t0) * (t1) + (t1) * (t0)) * (t0)))) * (((t0) * (t0) - 2 * ((t1) * (t1))) * (t1) + ((t0) * (t1) + (t1) * (t0)) * (t0)) + ((((t0) * (t0) - 2 * ((t1) * (t1))) * (t0) - 2 * (((t0) * (t1) + (t1) * (t0)) * (t1))) * (((t0) * (t0) - 2 * ((t1) * (t1))) * (t1) + ((t0) * (t1) + (t1) * (t0)) * (t0)) + (((t0) * (t0) - 2 * ((t1) * (t1))) * (t1) + ((t0) * (t1) + (t1) * (t0)) * (t0)) * (((t0) * (t0) - 2 * ((t1) * (t1))) * (t0) - 2 * (((t0) * (t1) + (t1) * (t0)) * (t1)))) * (((t0) * (t0) - 2 * ((t1) * (t1))) * (t0) - 2 * (((t0) * (t1) + (t1) * (t0)) * (t1)))))
{ }
#[verifier::external_body]
proof fn ring_af_y_1(x10: int, x11: int, y10: int, y11: int, dxv0: int, dxv1: int, dyv0: int, dyv1: int, x3nv0: int, x3nv1: int, t0: int, t1: int)
    ensures (((dyv0) * (((t0) * (t0) - 2 * ((t1) * (t1))) * (t0) - 2 * (((t0) * (t1) + (t1) * (t0)) * (t1))) - 2 * ((dyv1) * (((t0) * (t0) - 2 * ((t1) * (t1))) * (t1) + ((t0) * (t1) + (t1) * (t0)) * (t0)))) * ((((x10) * ((t0) * (t0) - 2 * ((t1) * (t1))) - 2 * ((x11) * ((t0) * (t1) + (t1) * (t0)))) * (((dxv0) * ((t0) * (t0) - 2 * ((t1) * (t1))) - 2 * ((dxv1) * ((t0) * (t1) + (t1) * (t0)))) * ((dxv0) * ((t0) * (t1) + (t1) * (t0)) + (dxv1) * ((t0) * (t0) - 2 * ((t1) * (t1)))) + ((dxv0) * ((t0) * (t1) + (t1) * (t0)) + (dxv1) * ((t0) * (t0) - 2 * ((t1) * (t1)))) * ((dxv0) * ((t0) * (t0) - 2 * ((t1) * (t1))) - 2 * ((dxv1) * ((t0) * (t1) + (t1) * (t0))))) + ((x10) * ((t0) * (t1) + (t1) * (t0)) + (x11) * ((t0) * (t0) - 2 * ((t1) * (t1)))) * (((dxv0) * ((t0) * (t0) - 2 * ((t1) * (t1))) - 2 * ((dxv1) * ((t0) * (t1) + (t1) * (t0)))) * ((dxv0) * ((t0) * (t0) - 2 * ((t1) * (t1))) - 2 * ((dxv1) * ((t0) * (t1) + (t1) * (t0)))) - 2 * (((dxv0) * ((t0) * (t1) + (t1) * (t0)) + (dxv1) * ((t0) * (t0) - 2 * ((t1) * (t1)))) * ((dxv0) * ((t0) * (t1) + (t1) * (t0)) + (dxv1) * ((t0) * (t0) - 2 * ((t1) * (t1))))))) - ((x3nv0) * ((((t0) * (t0) - 2 * ((t1) * (t1))) * (t0) - 2 * (((t0) * (t1) + (t1) * (t0)) * (t1))) * (((t0) * (t0) - 2 * ((t1) * (t1))) * (t1) + ((t0) * (t1) + (t1) * (t0)) * (t0)) + (((t0) * (t0) - 2 * ((t1) * (t1))) * (t1) + ((t0) * (t1) + (t1) * (t0)) * (t0)) * (((t0) * (t0) - 2 * ((t1) * (t1))) * (t0) - 2 * (((t0) * (t1) + (t1) * (t0)) * (t1)))) + (x3nv1) * ((((t0) * (t0) - 2 * ((t1) * (t1))) * (t0) - 2 * (((t0) * (t1) + (t1) * (t0)) * (t1))) * (((t0) * (t0) - 2 * ((t1) * (t1))) * (t0) - 2 * (((t0) * (t1) + (t1) * (t0)) * (t1))) - 2 * ((((t0) * (t0) - 2 * ((t1) * (t1))) * (t1) + ((t0) * (t1) + (t1) * (t0)) * (t0)) * (((t0) * (t0) - 2 * ((t1) * (t1))) * (t1) + ((t0) * (t1) + (t1) * (t0)) * (t0)))))) + ((dyv0) * (((t0) * (t0) - 2 * ((t1) * (t1))) * (t1) + ((t0) * (t1) + (t1) * (t0)) * (t0)) + (dyv1) * (((t0) * (t0) - 2 * ((t1) * (t1))) * (t0) - 2 * (((t0) * (t1) + (t1) * (t0)) * (t1)))) * ((((x10) * ((t0) * (t0) - 2 * ((t1) * (t1))) - 2 * ((x11) * ((t0) * (t1) + (t1) * (t0)))) * (((dxv0) * ((t0) * (t0) - 2 * ((t1) * (t1))) - 2 * ((dxv1) * ((t0) * (t1) + (t1) * (t0)))) * ((dxv0) * ((t0) * (t0) - 2 * ((t1) * (t1))) - 2 * ((dxv1) * ((t0) * (t1) + (t1) * (t0)))) - 2 * (((dxv0) * ((t0) * (t1) + (t1) * (t0)) + (dxv1) * ((t0) * (t0) - 2 * ((t1) * (t1)))) * ((dxv0) * ((t0) * (t1) + (t1) * (t0)) + (dxv1) * ((t0) * (t0) - 2 * ((t1) * (t1)))))) - 2 * (((x10) * ((t0) * (t1) + (t1) * (t0)) + (x11) * ((t0) * (t0) - 2 * ((t1) * (t1)))) * (((dxv0) * ((t0) * (t0) - 2 * ((t1) * (t1))) - 2 * ((dxv1) * ((t0) * (t1) + (t1) * (t0)))) * ((dxv0) * ((t0) * (t1) + (t1) * (t0)) + (dxv1) * ((t0) * (t0) - 2 * ((t1) * (t1)))) + ((dxv0) * ((t0) * (t1) + (t1) * (t0)) + (dxv1) * ((t0) * (t0) - 2 * ((t1) * (t1)))) * ((dxv0) * ((t0) * (t0) - 2 * ((t1) * (t1))) - 2 * ((dxv1) * ((t0) * (t1) + (t1) * (t0))))))) - ((x3nv0) * ((((t0) * (t0) - 2 * ((t1) * (t1))) * (t0) - 2 * (((t0) * (t1) + (t1) * (t0)) * (t1))) * (((t0) * (t0) - 2 * ((t1) * (t1))) * (t0) - 2 * (((t0) * (t1) + (t1) * (t0)) * (t1))) - 2 * ((((t0) * (t0) - 2 * ((t1) * (t1))) * (t1) + ((t0) * (t1) + (t1) * (t0)) * (t0)) * (((t0) * (t0) - 2 * ((t1) * (t1))) * (t1) + ((t0) * (t1) + (t1) * (t0)) * (t0)))) - 2 * ((x3nv1) * ((((t0) * (t0) - 2 * ((t1) * (t1))) * (t0) - 2 * (((t0) * (t1) + (t1) * (t0)) * (t1))) * (((t0) * (t0) - 2 * ((t1) * (t1))) * (t1) + ((t0) * (t1) + (t1) * (t0)) * (t0)) + (((t0) * (t0) - 2 * ((t1) * (t1))) * (t1) + ((t0) * (t1) + (t1) * (t0)) * (t0)) * (((t0) * (t0) - 2 * ((t1) * (t1))) * (t0) - 2 * (((t0) * (t1) + (t1) * (t0)) * (t1)))))))) - (((y10) * (((t0) * (t0) - 2 * ((t1) * (t1))) * (t0) - 2 * (((t0) * (t1) + (t1) * (t0)) * (t1))) - 2 * ((y11) * (((t0) * (t0) - 2 * ((t1) * (t1))) * (t1) + ((t0) * (t1) + (t1) * (t0)) * (t0)))) * (((dxv0) * ((t0) * (t0) - 2 * ((t1) * (t1))) - 2 * ((dxv1) * ((t0) * (t1) + (t1) * (t0)))) * (((dxv0) * ((t0) * (t0) - 2 * ((t1) * (t1))) - 2 * ((dxv1) * ((t0) * (t1) + (t1) * (t0)))) * ((dxv0) * ((t0) * (t1) + (t1) * (t0)) + (dxv1) * ((t0) * (t0) - 2 * ((t1) * (t1)))) + ((dxv0) * ((t0) * (t1) + (t1) * (t0)) + (dxv1) * ((t0) * (t0) - 2 * ((t1) * (t1)))) * ((dxv0) * ((t0) * (t0) - 2 * ((t1) * (t1))) - 2 * ((dxv1) * ((t0) * (t1) + (t1) * (t0))))) + ((dxv0) * ((t0) * (t1) + (t1) * (t0)) + (dxv1) * ((t0) * (t0) - 2 * ((t1) * (t1)))) * (((dxv0) * ((t0) * (t0) - 2 * ((t1) * (t1))) - 2 * ((dxv1) * ((t0) * (t1) + (t1) * (t0)))) * ((dxv0) * ((t0) * (t0) - 2 * ((t1) * (t1))) - 2 * ((dxv1) * ((t0) * (t1) + (t1) * (t0)))) - 2 * (((dxv0) * ((t0) * (t1) + (t1) * (t0)) + (dxv1) * ((t0) * (t0) - 2 * ((t1) * (t1)))) * ((dxv0) * ((t0) * (t1) + (t1) * (t0)) + (dxv1) * ((t0) * (t0) - 2 * ((t1) * (t1))))))) + ((y10) * (((t0) * (t0) - 2 * ((t1) * (t1))) * (t1) + ((t0) * (t1) + (t1) * (t0)) * (t0)) + (y11) * (((t0) * (t0) - 2 * ((t1) * (t1))) * (t0) - 2 * (((t0) * (t1) + (t1) * (t0)) * (t1)))) * (((dxv0) * ((t0) * (t0) - 2 * ((t1) * (t1))) - 2 * ((dxv1) * ((t0) * (t1) + (t1) * (t0)))) * (((dxv0) * ((t0) * (t0) - 2 * ((t1) * (t1))) - 2 * ((dxv1) * ((t0) * (t1) + (t1) * (t0)))) * ((dxv0) * ((t0) * (t0) - 2 * ((t1) * (t1))) - 2 * ((dxv1) * ((t0) * (t1) + (t1) * (t0)))) - 2 * (((dxv0) * ((t0) * (t1) + (t1) * (t0)) + (dxv1) * ((t0) * (t0) - 2 * ((t1) * (t1)))) * ((dxv0) * ((t0) * (t1) + (t1) * (t0)) + (dxv1) * ((t0) * (t0) - 2 * ((t1) * (t1)))))) - 2 * (((dxv0) * ((t0) * (t1) + (t1) * (t0)) + (dxv1) * ((t0) * (t0) - 2 * ((t1) * (t1)))) * (((dxv0) * ((t0) * (t0) - 2 * ((t1) * (t1))) - 2 * ((dxv1) * ((t0) * (t1) + (t1) * (t0)))) * ((dxv0) * ((t0) * (t1) + (t1) * (t0)) + (dxv1) * ((t0) * (t0) - 2 * ((t1) * (t1)))) + ((dxv0) * ((t0) * (t1) + (t1) * (t0)) + (dxv1) * ((t0) * (t0) - 2 * ((t1) * (t1)))) * ((dxv0) * ((t0) * (t0) - 2 * ((t1) * (t1))) - 2 * ((dxv1) * ((t0) * (t1) + (t1) * (t0))))))))
        == (((dyv0) * (((x10) * ((dxv0) * (dxv0) - 2 * ((dxv1) * (dxv1))) - 2 * ((x11) * ((dxv0) * (dxv1) + (dxv1) * (dxv0)))) - (x3nv0)) - 2 * ((dyv1) * (((x10) * ((dxv0) * (dxv1) + (dxv1) * (dxv0)) + (x11) * ((dxv0) * (dxv0) - 2 * ((dxv1) * (dxv1)))) - (x3nv1)))) - ((y10) * (((dxv0) * (dxv0) - 2 * ((dxv1) * (dxv1))) * (dxv0) - 2 * (((dxv0) * (dxv1) + (dxv1) * (dxv0)) * (dxv1))) - 2 * ((y11) * (((dxv0) * (dxv0) - 2 * ((dxv1) * (dxv1))) * (dxv1) + ((dxv0) * (dxv1) + (dxv1) * (dxv0)) * (dxv0))))) * (((((t0) * (t0) - 2 * ((t1) * (t1))) * (t0) - 2 * (((t0) * (t1) + (t1) * (t0)) * (t1))) * (((t0) * (t0) - 2 * ((t1) * (t1))) * (t0) - 2 * (((t0) * (t1) + (t1) * (t0)) * (t1))) - 2 * ((((t0) * (t0) - 2 * ((t1) * (t1))) * (t1) + ((t0) * (t1) + (t1) * (t0)) * (t0)) * (((t0) * (t0) - 2 * ((t1) * (t1))) * (t1) + ((t0) * (t1) + (t1) * (t0)) * (t0)))) * (((t0) * (t0) - 2 * ((t1) * (t1))) * (t1) + ((t0) * (t1) + (t1) * (t0)) * (t0)) + ((((t0) * (t0) - 2 * ((t1) * (t1))) * (t0) - 2 * (((t0) * (t1) + (t1) * (t0)) * (t1))) * (((t0) * (t0) - 2 * ((t1) * (t1))) * (t1) + ((t0) * (t1) + (t1) * (t0)) * (t0)) + (((t0) * (t0) - 2 * ((t1) * (t1))) * (t1) + ((t0) * (t1) + (t1) * (t0)) * (t0)) * (((t0) * (t0) - 2 * ((t1) * (t1))) * (t0) - 2 * (((t0) * (t1) + (t1) * (t0)) * (t1)))) * (((t0) * (t0) - 2 * ((t1) * (t1))) * (t0) - 2 * (((t0) * (t1) + (t1) * (t0)) * (t1)))) + (((dyv0) * (((x10) * ((dxv0) * (dxv1) + (dxv1) * (dxv0)) + (x11) * ((dxv0) * (dxv0) - 2 * ((dxv1) * (dxv1)))) - (x3nv1)) + (dyv1) * (((x10) * ((dxv0) * (dxv0) - 2 * ((dxv1) * (dxv1))) - 2 * ((x11) * ((dxv0) * (dxv1) + (dxv1) * (dxv0)))) - (x3nv0))) - ((y10) * (((dxv0) * (dxv0) - 2 * ((dxv1) * (dxv1))) * (dxv1) + ((dxv0) * (dxv1) + (dxv1) * (dxv0)) * (dxv0)) + (y11) * (((dxv0) * (dxv0) - 2 * ((dxv1) * (dxv1))) * (dxv0) - 2 * (((dxv0) * (dxv1) + (dxv1) * (dxv0)) * (dxv1))))) * (((((t0) * (t0) - 2 * ((t1) * (t1))) * (t0) - 2 * (((t0) * (t1) + (t1) * (t0)) * (t1))) * (((t0) * (t0) - 2 * ((t1) * (t1))) * (t0) - 2 * (((t0) * (t1) + (t1) * (t0)) * (t1))) - 2 * ((((t0) * (t0) - 2 * ((t1) * (t1))) * (t1) + ((t0) * (t1) + (t1) * (t0)) * (t0)) * (((t0) * (t0) - 2 * ((t1) * (t1))) * (t1) + ((t0) * (t1) + (t1) * (t0)) * (t0)))) * (((t0) * (t0) - 2 * ((t1) * (t1))) * (t0) - 2 * (((t0) * (t1) + (t1) * (t0)) * (t1))) - 2 * (((((t0) * (t0) - 2 * ((t1) * (t1))) * (t0) - 2 * (((t0) * (t1) + (t1) * (t0)) * (t1))) * (((t0) * (t0) - 2 * ((t1) * (t1))) * (t1) + ((t0) * (t1) + (t1) * (t0)) * (t0)) + (((t0) * (t0) - 2 * ((t1) * (t1))) * (t1) + ((t0) * (t1) + (t1) * (t0)) * (t0)) * (((t0) * (t0) - 2 * ((t1) * (t1))) * (t0) - 2 * (((t0) * (t1) + (t1) * (t0)) * (t1)))) * (((t0) * (t0) - 2 * ((t1) * (t1))) * (t1) + ((t0) * (t1) + (t1) * (t0)) * (t0))))
{ }
// TwistPoint::point_add with rhs.z == 1, both operands finite: the differences
spec fn ma1_rel(X1: F2, Y1: F2, Z1: F2, X2: F2, Y2: F2, t1: F2, t2: F2, u: F2, s: F2, h: F2, r: F2) -> bool {
    t1 == m2_mul(Z1, Z1)
    && t2 == m2_mul(t1, Z1)
    && u == m2_mul(t1, X2)
    && s == m2_mul(t2, Y2)
    && h == m2_sub(u, X1)
    && r == m2_sub(s, Y1)
}
proof fn ma1_chain(X1: F2, Y1: F2, Z1: F2, X2: F2, Y2: F2, t1: F2, t2: F2, u: F2, s: F2, h: F2, r: F2, X1p: F2, Y1p: F2, Z1p: F2, X2p: F2, Y2p: F2)
    requires ma1_rel(X1, Y1, Z1, X2, Y2, t1, t2, u, s, h, r),
        qc(X1, X1p),
        qc(Y1, Y1p),
        qc(Z1, Z1p),
        qc(X2, X2p),
        qc(Y2, Y2p)
    ensures qc(h, q_sub(q_mul(q_mul(Z1p, Z1p), X2p), X1p)),
        qc(r, q_sub(q_mul(q_mul(q_mul(Z1p, Z1p), Z1p), Y2p), Y1p)),
        m2_ok(h),
        m2_ok(r)
{
    t2_cm(t1, Z1, Z1, Z1p, Z1p);
    t2_cm(t2, t1, Z1, q_mul(Z1p, Z1p), Z1p);
    t2_cm(u, t1, X2, q_mul(Z1p, Z1p), X2p);
    t2_cm(s, t2, Y2, q_mul(q_mul(Z1p, Z1p), Z1p), Y2p);
    t2_cs(h, u, X1, q_mul(q_mul(Z1p, Z1p), X2p), X1p);
    t2_cs(r, s, Y1, q_mul(q_mul(q_mul(Z1p, Z1p), Z1p), Y2p), Y1p);
}
proof fn qr_ma_h(x1: F2, x2: F2, z: F2)
    ensures q_sub(q_mul(q_mul(z, z), x2), q_mul(q_mul(x1, z), z))
        == q_mul(q_sub(x2, x1), q_mul(z, z))
{
    reveal(q_add); reveal(q_sub); reveal(q_mul); reveal(q_k); reveal(q_c);
    ring_ma_h_0(x1.c0, x1.c1, x2.c0, x2.c1, z.c0, z.c1); ring_ma_h_1(x1.c0, x1.c1, x2.c0, x2.c1, z.c0, z.c1);
}
#[verifier::external_body]
proof fn ring_ma_h_0(x10: int, x11: int, x20: int, x21: int, z0: int, z1: int)
    ensures (((z0) * (z0) - 2 * ((z1) * (z1))) * (x20) - 2 * (((z0) * (z1) + (z1) * (z0)) * (x21))) - (((x10) * (z0) - 2 * ((x11) * (z1))) * (z0) - 2 * (((x10) * (z1) + (x11) * (z0)) * (z1)))
        == ((x20) - (x10)) * ((z0) * (z0) - 2 * ((z1) * (z1))) - 2 * (((x21) - (x11)) * ((z0) * (z1) + (z1) * (z0)))
{ }
#[verifier::external_body]
proof fn ring_ma_h_1(x10: int, x11: int, x20: int, x21: int, z0: int, z1: int)
    ensures (((z0) * (z0) - 2 * ((z1) * (z1))) * (x21) + ((z0) * (z1) + (z1) * (z0)) * (x20)) - (((x10) * (z0) - 2 * ((x11) * (z1))) * (z1) + ((x10) * (z1) + (x11) * (z0)) * (z0))
        == ((x20) - (x10)) * ((z0) * (z1) + (z1) * (z0)) + ((x21) - (x11)) * ((z0) * (z0) - 2 * ((z1) * (z1)))
{ }
proof fn qr_ma_r(y1: F2, y2: F2, z: F2)
    ensures q_sub(q_mul(q_mul(q_mul(z, z), z), y2), q_mul(q_mul(q_mul(y1, z), z), z))
        == q_mul(q_sub(y2, y1), q_mul(q_mul(z, z), z))
{
    reveal(q_add); reveal(q_sub); reveal(q_mul); reveal(q_k); reveal(q_c);
    ring_ma_r_0(y1.c0, y1.c1, y2.c0, y2.c1, z.c0, z.c1); ring_ma_r_1(y1.c0, y1.c1, y2.c0, y2.c1, z.c0, z.c1);
}
#[verifier::external_body]
proof fn ring_ma_r_0(y10: int, y11: int, y20: int, y21: int, z0: int, z1: int)
    ensures ((((z0) * (z0) - 2 * ((z1) * (z1))) * (z0) - 2 * (((z0) * (z1) + (z1) * (z0)) * (z1))) * (y20) - 2 * ((((z0) * (z0) - 2 * ((z1) * (z1))) * (z1) + ((z0) * (z1) + (z1) * (z0)) * (z0)) * (y21))) - ((((y10) * (z0) - 2 * ((y11) * (z1))) * (z0) - 2 * (((y10) * (z1) + (y11) * (z0)) * (z1))) * (z0) - 2 * ((((y10) * (z0) - 2 * ((y11) * (z1))) * (z1) + ((y10) * (z1) + (y11) * (z0)) * (z0)) * (z1)))
        == ((y20) - (y10)) * (((z0) * (z0) - 2 * ((z1) * (z1))) * (z0) - 2 * (((z0) * (z1) + (z1) * (z0)) * (z1))) - 2 * (((y21) - (y11)) * (((z0) * (z0) - 2 * ((z1) * (z1))) * (z1) + ((z0) * (z1) + (z1) * (z0)) * (z0)))
{ }
#[verifier::external_body]
proof fn ring_ma_r_1(y10: int, y11: int, y20: int, y21: int, z0: int, z1: int)
    ensures ((((z0) * (z0) - 2 * ((z1) * (z1))) * (z0) - 2 * (((z0) * (z1) + (z1) * (z0)) * (z1))) * (y21) + (((z0) * (z0) - 2 * ((z1) * (z1))) * (z1) + ((z0) * (z1) + (z1) * (z0)) * (z0)) * (y20)) - ((((y10) * (z0) - 2 * ((y11) * (z1))) * (z0) - 2 * (((y10) * (z1) + (y11) * (z0)) * (z1))) * (z1) + (((y10) * (z0) - 2 * ((y11) * (z1))) * (z1) + ((y10) * (z1) + (y11) * (z0)) * (z0)) * (z0))
        == ((y20) - (y10)) * (((z0) * (z0) - 2 * ((z1) * (z1))) * (z1) + ((z0) * (z1) + (z1) * (z0)) * (z0)) + ((y21) - (y11)) * (((z0) * (z0) - 2 * ((z1) * (z1))) * (z0) - 2 * (((z0) * (z1) + (z1) * (z0)) * (z1)))
{ }
// TwistPoint::point_add: the generic branch
spec fn ma2_rel(h: F2, r: F2, X1: F2, Y1: F2, Z1: F2, z3: F2, h2: F2, h3: F2, v: F2, v2: F2, r2: F2, xa: F2, x3: F2, t3b: F2, t3c: F2, t4b: F2, y3: F2) -> bool {
    z3 == m2_mul(Z1, h)
    && h2 == m2_mul(h, h)
    && h3 == m2_mul(h2, h)
    && v == m2_mul(h2, X1)
    && v2 == m2_add(v, v)
    && r2 == m2_mul(r, r)
    && xa == m2_sub(r2, v2)
    && x3 == m2_sub(xa, h3)
    && t3b == m2_sub(v, x3)
    && t3c == m2_mul(t3b, r)
    && t4b == m2_mul(h3, Y1)
    && y3 == m2_sub(t3c, t4b)
}
proof fn ma2_chain(h: F2, r: F2, X1: F2, Y1: F2, Z1: F2, z3: F2, h2: F2, h3: F2, v: F2, v2: F2, r2: F2, xa: F2, x3: F2, t3b: F2, t3c: F2, t4b: F2, y3: F2, hp: F2, rp: F2, X1p: F2, Y1p: F2, Z1p: F2)
    requires ma2_rel(h, r, X1, Y1, Z1, z3, h2, h3, v, v2, r2, xa, x3, t3b, t3c, t4b, y3),
        qc(h, hp),
        qc(r, rp),
        qc(X1, X1p),
        qc(Y1, Y1p),
        qc(Z1, Z1p)
    ensures qc(x3, q_sub(q_sub(q_mul(rp, rp), q_add(q_mul(q_mul(hp, hp), X1p), q_mul(q_mul(hp, hp), X1p))), q_mul(q_mul(hp, hp), hp))),
        qc(y3, q_sub(q_mul(q_sub(q_mul(q_mul(hp, hp), X1p), q_sub(q_sub(q_mul(rp, rp), q_add(q_mul(q_mul(hp, hp), X1p), q_mul(q_mul(hp, hp), X1p))), q_mul(q_mul(hp, hp), hp))), rp), q_mul(q_mul(q_mul(hp, hp), hp), Y1p))),
        qc(z3, q_mul(Z1p, hp)),
        m2_ok(x3),
        m2_ok(y3),
        m2_ok(z3)
{
    t2_cm(z3, Z1, h, Z1p, hp);
    t2_cm(h2, h, h, hp, hp);
    t2_cm(h3, h2, h, q_mul(hp, hp), hp);
    t2_cm(v, h2, X1, q_mul(hp, hp), X1p);
    t2_ca(v2, v, v, q_mul(q_mul(hp, hp), X1p), q_mul(q_mul(hp, hp), X1p));
    t2_cm(r2, r, r, rp, rp);
    t2_cs(xa, r2, v2, q_mul(rp, rp), q_add(q_mul(q_mul(hp, hp), X1p), q_mul(q_mul(hp, hp), X1p)));
    t2_cs(x3, xa, h3, q_sub(q_mul(rp, rp), q_add(q_mul(q_mul(hp, hp), X1p), q_mul(q_mul(hp, hp), X1p))), q_mul(q_mul(hp, hp), hp));
    t2_cs(t3b, v, x3, q_mul(q_mul(hp, hp), X1p), q_sub(q_sub(q_mul(rp, rp), q_add(q_mul(q_mul(hp, hp), X1p), q_mul(q_mul(hp, hp), X1p))), q_mul(q_mul(hp, hp), hp)));
    t2_cm(t3c, t3b, r, q_sub(q_mul(q_mul(hp, hp), X1p), q_sub(q_sub(q_mul(rp, rp), q_add(q_mul(q_mul(hp, hp), X1p), q_mul(q_mul(hp, hp), X1p))), q_mul(q_mul(hp, hp), hp))), rp);
    t2_cm(t4b, h3, Y1, q_mul(q_mul(hp, hp), hp), Y1p);
    t2_cs(y3, t3c, t4b, q_mul(q_sub(q_mul(q_mul(hp, hp), X1p), q_sub(q_sub(q_mul(rp, rp), q_add(q_mul(q_mul(hp, hp), X1p), q_mul(q_mul(hp, hp), X1p))), q_mul(q_mul(hp, hp), hp))), rp), q_mul(q_mul(q_mul(hp, hp), hp), Y1p));
}
proof fn qr_ma_z(dxv: F2, z: F2)
    ensures q_mul(z, q_mul(dxv, q_mul(z, z)))
        == q_mul(dxv, q_mul(q_mul(z, z), z))
{
    reveal(q_add); reveal(q_sub); reveal(q_mul); reveal(q_k); reveal(q_c);
    ring_ma_z_0(dxv.c0, dxv.c1, z.c0, z.c1); ring_ma_z_1(dxv.c0, dxv.c1, z.c0, z.c1);
}
#[verifier::external_body]
proof fn ring_ma_z_0(dxv0: int, dxv1: int, z0: int, z1: int)
    ensures (z0) * ((dxv0) * ((z0) * (z0) - 2 * ((z1) * (z1))) - 2 * ((dxv1) * ((z0) * (z1) + (z1) * (z0)))) - 2 * ((z1) * ((dxv0) * ((z0) * (z1) + (z1) * (z0)) + (dxv1) * ((z0) * (z0) - 2 * ((z1) * (z1)))))
        == (dxv0) * (((z0) * (z0) - 2 * ((z1) * (z1))) * (z0) - 2 * (((z0) * (z1) + (z1) * (z0)) * (z1))) - 2 * ((dxv1) * (((z0) * (z0) - 2 * ((z1) * (z1))) * (z1) + ((z0) * (z1) + (z1) * (z0)) * (z0)))
{ }
#[verifier::external_body]
proof fn ring_ma_z_1(dxv0: int, dxv1: int, z0: int, z1: int)
    ensures (z0) * ((dxv0) * ((z0) * (z1) + (z1) * (z0)) + (dxv1) * ((z0) * (z0) - 2 * ((z1) * (z1)))) + (z1) * ((dxv0) * ((z0) * (z0) - 2 * ((z1) * (z1))) - 2 * ((dxv1) * ((z0) * (z1) + (z1) * (z0))))
        == (dxv0) * (((z0) * (z0) - 2 * ((z1) * (z1))) * (z1) + ((z0) * (z1) + (z1) * (z0)) * (z0)) + (dxv1) * (((z0) * (z0) - 2 * ((z1) * (z1))) * (z0) - 2 * (((z0) * (z1) + (z1) * (z0)) * (z1)))
{ }
proof fn qr_ma_x(x1: F2, x2: F2, dyv: F2, z: F2)
    ensures q_sub(q_sub(q_mul(q_mul(dyv, q_mul(q_mul(z, z), z)), q_mul(dyv, q_mul(q_mul(z, z), z))), q_add(q_mul(q_mul(q_mul(q_sub(x2, x1), q_mul(z, z)), q_mul(q_sub(x2, x1), q_mul(z, z))), q_mul(q_mul(x1, z), z)), q_mul(q_mul(q_mul(q_sub(x2, x1), q_mul(z, z)), q_mul(q_sub(x2, x1), q_mul(z, z))), q_mul(q_mul(x1, z), z)))), q_mul(q_mul(q_mul(q_sub(x2, x1), q_mul(z, z)), q_mul(q_sub(x2, x1), q_mul(z, z))), q_mul(q_sub(x2, x1), q_mul(z, z))))
        == q_mul(q_sub(q_mul(dyv, dyv), q_mul(q_add(x1, x2), q_mul(q_sub(x2, x1), q_sub(x2, x1)))), q_mul(q_mul(q_mul(z, z), z), q_mul(q_mul(z, z), z)))
{
    reveal(q_add); reveal(q_sub); reveal(q_mul); reveal(q_k); reveal(q_c);
    ring_ma_x_0(x1.c0, x1.c1, x2.c0, x2.c1, dyv.c0, dyv.c1, z.c0, z.c1); ring_ma_x_1(x1.c0, x1.c1, x2.c0, x2.c1, dyv.c0, dyv.c1, z.c0, z.c1);
}
#[verifier::external_body]
proof fn ring_ma_x_0(x10: int, x11: int, x20: int, x21: int, dyv0: int, dyv1: int, z0: int, z1: int)
    ensures ((((dyv0) * (((z0) * (z0) - 2 * ((z1) * (z1))) * (z0) - 2 * (((z0) * (z1) + (z1) * (z0)) * (z1))) - 2 * ((dyv1) * (((z0) * (z0) - 2 * ((z1) * (z1))) * (z1) + ((z0) * (z1) + (z1) * (z0)) * (z0)))) * ((dyv0) * (((z0) * (z0) - 2 * ((z1) * (z1))) * (z0) - 2 * (((z0) * (z1) + (z1) * (z0)) * (z1))) - 2 * ((dyv1) * (((z0) * (z0) - 2 * ((z1) * (z1))) * (z1) + ((z0) * (z1) + (z1) * (z0)) * (z0)))) - 2 * (((dyv0) * (((z0) * (z0) - 2 * ((z1) * (z1))) * (z1) + ((z0) * (z1) + (z1) * (z0)) * (z0)) + (dyv1) * (((z0) * (z0) - 2 * ((z1) * (z1))) * (z0) - 2 * (((z0) * (z1) + (z1) * (z0)) * (z1)))) * ((dyv0) * (((z0) * (z0) - 2 * ((z1) * (z1))) * (z1) + ((z0) * (z1) + (z1) * (z0)) * (z0)) + (dyv1) * (((z0) * (z0) - 2 * ((z1) * (z1))) * (z0) - 2 * (((z0) * (z1) + (z1) * (z0)) * (z1)))))) - ((((((x20) - (x10)) * ((z0) * (z0) - 2 * ((z1) * (z1))) - 2 * (((x21) - (x11)) * ((z0) * (z1) + (z1) * (z0)))) * (((x20) - (x10)) * ((z0) * (z0) - 2 * ((z1) * (z1))) - 2 * (((x21) - (x11)) * ((z0) * (z1) + (z1) * (z0)))) - 2 * ((((x20) - (x10)) * ((z0) * (z1) + (z1) * (z0)) + ((x21) - (x11)) * ((z0) * (z0) - 2 * ((z1) * (z1)))) * (((x20) - (x10)) * ((z0) * (z1) + (z1) * (z0)) + ((x21) - (x11)) * ((z0) * (z0) - 2 * ((z1) * (z1)))))) * (((x10) * (z0) - 2 * ((x11) * (z1))) * (z0) - 2 * (((x10) * (z1) + (x11) * (z0)) * (z1))) - 2 * (((((x20) - (x10)) * ((z0) * (z0) - 2 * ((z1) * (z1))) - 2 * (((x21) - (x11)) * ((z0) * (z1) + (z1) * (z0)))) * (((x20) - (x10)) * ((z0) * (z1) + (z1) * (z0)) + ((x21) - (x11)) * ((z0) * (z0) - 2 * ((z1) * (z1)))) + (((x20) - (x10)) * ((z0) * (z1) + (z1) * (z0)) + ((x21) - (x11)) * ((z0) * (z0) - 2 * ((z1) * (z1)))) * (((x20) - (x10)) * ((z0) * (z0) - 2 * ((z1) * (z1))) - 2 * (((x21) - (x11)) * ((z0) * (z1) + (z1) * (z0))))) * (((x10) * (z0) - 2 * ((x11) * (z1))) * (z1) + ((x10) * (z1) + (x11) * (z0)) * (z0)))) + (((((x20) - (x10)) * ((z0) * (z0) - 2 * ((z1) * (z1))) - 2 * (((x21) - (x11)) * ((z0) * (z1) + (z1) * (z0)))) * (((x20) - (x10)) * ((z0) * (z0) - 2 * ((z1) * (z1))) - 2 * (((x21) - (x11)) * ((z0) * (z1) + (z1) * (z0)))) - 2 * ((((x20) - (x10)) * ((z0) * (z1) + (z1) * (z0)) + ((x21) - (x11)) * ((z0) * (z0) - 2 * ((z1) * (z1)))) * (((x20) - (x10)) * ((z0) * (z1) + (z1) * (z0)) + ((x21) - (x11)) * ((z0) * (z0) - 2 * ((z1) * (z1)))))) * (((x10) * (z0) - 2 * ((x11) * (z1))) * (z0) - 2 * (((x10) * (z1) + (x11) * (z0)) * (z1))) - 2 * (((((x20) - (x10)) * ((z0) * (z0) - 2 * ((z1) * (z1))) - 2 * (((x21) - (x11)) * ((z0) * (z1) + (z1) * (z0)))) * (((x20) - (x10)) * ((z0) * (z1) + (z1) * (z0)) + ((x21) - (x11)) * ((z0) * (z0) - 2 * ((z1) * (z1)))) + (((x20) - (x10)) * ((z0) * (z1) + (z1) * (z0)) + ((x21) - (x11)) * ((z0) * (z0) - 2 * ((z1) * (z1)))) * (((x20) - (x10)) * ((z0) * (z0) - 2 * ((z1) * (z1))) - 2 * (((x21) - (x11)) * ((z0) * (z1) + (z1) * (z0))))) * (((x10) * (z0) - 2 * ((x11) * (z1))) * (z1) + ((x10) * (z1) + (x11) * (z0)) * (z0)))))) - (((((x20) - (x10)) * ((z0) * (z0) - 2 * ((z1) * (z1))) - 2 * (((x21) - (x11)) * ((z0) * (z1) + (z1) * (z0)))) * (((x20) - (x10)) * ((z0) * (z0) - 2 * ((z1) * (z1))) - 2 * (((x21) - (x11)) * ((z0) * (z1) + (z1) * (z0)))) - 2 * ((((x20) - (x10)) * ((z0) * (z1) + (z1) * (z0)) + ((x21) - (x11)) * ((z0) * (z0) - 2 * ((z1) * (z1)))) * (((x20) - (x10)) * ((z0) * (z1) + (z1) * (z0)) + ((x21) - (x11)) * ((z0) * (z0) - 2 * ((z1) * (z1)))))) * (((x20) - (x10)) * ((z0) * (z0) - 2 * ((z1) * (z1))) - 2 * (((x21) - (x11)) * ((z0) * (z1) + (z1) * (z0)))) - 2 * (((((x20) - (x10)) * ((z0) * (z0) - 2 * ((z1) * (z1))) - 2 * (((x21) - (x11)) * ((z0) * (z1) + (z1) * (z0)))) * (((x20) - (x10)) * ((z0) * (z1) + (z1) * (z0)) + ((x21) - (x11)) * ((z0) * (z0) - 2 * ((z1) * (z1)))) + (((x20) - (x10)) * ((z0) * (z1) + (z1) * (z0)) + ((x21) - (x11)) * ((z0) * (z0) - 2 * ((z1) * (z1)))) * (((x20) - (x10)) * ((z0) * (z0) - 2 * ((z1) * (z1))) - 2 * (((x21) - (x11)) * ((z0) * (z1) + (z1) * (z0))))) * (((x20) - (x10)) * ((z0) * (z1) + (z1) * (z0)) + ((x21) - (x11)) * ((z0) * (z0) - 2 * ((z1) * (z1))))))
        == (((dyv0) * (dyv0) - 2 * ((dyv1) * (dyv1))) - (((x10) + (x20)) * (((x20) - (x10)) * ((x20) - (x10)) - 2 * (((x21) - (x11)) * ((x21) - (x11)))) - 2 * (((x11) + (x21)) * (((x20) - (x10)) * ((x21) - (x11)) + ((x21) - (x11)) * ((x20) - (x10)))))) * ((((z0) * (z0) - 2 * ((z1) * (z1))) * (z0) - 2 * (((z0) * (z1) + (z1) * (z0)) * (z1))) * (((z0) * (z0) - 2 * ((z1) * (z1))) * (z0) - 2 * (((z0) * (z1) + (z1) * (z0)) * (z1))) - 2 * ((((z0) * (z0) - 2 * ((z1) * (z1))) * (z1) + ((z0) * (z1) + (z1) * (z0)) * (z0)) * (((z0) * (z0) - 2 * ((z1) * (z1))) * (z1) + ((z0) * (z1) + (z1) * (z0)) * (z0)))) - 2 * ((((dyv0) * (dyv1) + (dyv1) * (dyv0)) - (((x10) + (x20)) * (((x20) - (x10)) * ((x21) - (x11)) + ((x21) - (x11)) * ((x20) - (x10))) + ((x11) + (x21)) * (((x20) - (x10)) * ((x20) - (x10)) - 2 * (((x21) - (x11)) * ((x21) - (x11)))))) * ((((z0) * (z0) - 2 * ((z1) * (z1))) * (z0) - 2 * (((z0) * (z1) + (z1) * (z0)) * (z1))) * (((z0) * (z0) - 2 * ((z1) * (z1))) * (z1) + ((z0) * (z1) + (z1) * (z0)) * (z0)) + (((z0) * (z0) - 2 * ((z1) * (z1))) * (z1) + ((z0) * (z1) + (z1) * (z0)) * (z0)) * (((z0) * (z0) - 2 * ((z1) * (z1))) * (z0) - 2 * (((z0) * (z1) + (z1) * (z0)) * (z1)))))
{ }
#[verifier::external_body]
proof fn ring_ma_x_1(x10: int, x11: int, x20: int, x21: int, dyv0: int, dyv1: int, z0: int, z1: int)
    ensures ((((dyv0) * (((z0) * (z0) - 2 * ((z1) * (z1))) * (z0) - 2 * (((z0) * (z1) + (z1) * (z0)) * (z1))) - 2 * ((dyv1) * (((z0) * (z0) - 2 * ((z1) * (z1))) * (z1) + ((z0) * (z1) + (z1) * (z0)) * (z0)))) * ((dyv0) * (((z0) * (z0) - 2 * ((z1) * (z1))) * (z1) + ((z0) * (z1) + (z1) * (z0)) * (z0)) + (dyv1) * (((z0) * (z0) - 2 * ((z1) * (z1))) * (z0) - 2 * (((z0) * (z1) + (z1) * (z0)) * (z1)))) + ((dyv0) * (((z0) * (z0) - 2 * ((z1) * (z1))) * (z1) + ((z0) * (z1) + (z1) * (z0)) * (z0)) + (dyv1) * (((z0) * (z0) - 2 * ((z1) * (z1))) * (z0) - 2 * (((z0) * (z1) + (z1) * (z0)) * (z1)))) * ((dyv0) * (((z0) * (z0) - 2 * ((z1) * (z1))) * (z0) - 2 * (((z0) * (z1) + (z1) * (z0)) * (z1))) - 2 * ((dyv1) * (((z0) * (z0) - 2 * ((z1) * (z1))) * (z1) + ((z0) * (z1) + (z1) * (z0)) * (z0))))) - ((((((x20) - (x10)) * ((z0) * (z0) - 2 * ((z1) * (z1))) - 2 * (((x21) - (x11)) * ((z0) * (z1) + (z1) * (z0)))) * (((x20) - (x10)) * ((z0) * (z0) - 2 * ((z1) * (z1))) - 2 * (((x21) - (x11)) * ((z0) * (z1) + (z1) * (z0)))) - 2 * ((((x20) - (x10)) * ((z0) * (z1) + (z1) * (z0)) + ((x21) - (x11)) * ((z0) * (z0) - 2 * ((z1) * (z1)))) * (((x20) - (x10)) * ((z0) * (z1) + (z1) * (z0)) + ((x21) - (x11)) * ((z0) * (z0) - 2 * ((z1) * (z1)))))) * (((x10) * (z0) - 2 * ((x11) * (z1))) * (z1) + ((x10) * (z1) + (x11) * (z0)) * (z0)) + ((((x20) - (x10)) * ((z0) * (z0) - 2 * ((z1) * (z1))) - 2 * (((x21) - (x11)) * ((z0) * (z1) + (z1) * (z0)))) * (((x20) - (x10)) * ((z0) * (z1) + (z1) * (z0)) + ((x21) - (x11)) * ((z0) * (z0) - 2 * ((z1) * (z1)))) + (((x20) - (x10)) * ((z0) * (z1) + (z1) * (z0)) + ((x21) - (x11)) * ((z0) * (z0) - 2 * ((z1) * (z1)))) * (((x20) - (x10)) * ((z0) * (z0) - 2 * ((z1) * (z1))) - 2 * (((x21) - (x11)) * ((z0) * (z1) + (z1) * (z0))))) * (((x10) * (z0) - 2 * ((x11) * (z1))) * (z0) - 2 * (((x10) * (z1) + (x11) * (z0)) * (z1)))) + (((((x20) - (x10)) * ((z0) * (z0) - 2 * ((z1) * (z1))) - 2 * (((x21) - (x11)) * ((z0) * (z1) + (z1) * (z0)))) * (((x20) - (x10)) * ((z0) * (z0) - 2 * ((z1) * (z1))) - 2 * (((x21) - (x11)) * ((z0) * (z1) + (z1) * (z0)))) - 2 * ((((x20) - (x10)) * ((z0) * (z1) + (z1) * (z0)) + ((x21) - (x11)) * ((z0) * (z0) - 2 * ((z1) * (z1)))) * (((x20) - (x10)) * ((z0) * (z1) + (z1) * (z0)) + ((x21) - (x11)) * ((z0) * (z0) - 2 * ((z1) * (z1)))))) * (((x10) * (z0) - 2 * ((x11) * (z1))) * (z1) + ((x10) * (z1) + (x11) * (z0)) * (z0)) + ((((x20) - (x10)) * ((z0) * (z0) - 2 * ((z1) * (z1))) - 2 * (((x21) - (x11)) * ((z0) * (z1) + (z1) * (z0)))) * (((x20) - (x10)) * ((z0) * (z1) + (z1) * (z0)) + ((x21) - (x11)) * ((z0) * (z0) - 2 * ((z1) * (z1)))) + (((x20) - (x10)) * ((z0) * (z1) + (z1) * (z0)) + ((x21) - (x11)) * ((z0) * (z0) - 2 * ((z1) * (z1)))) * (((x20) - (x10)) * ((z0) * (z0) - 2 * ((z1) * (z1))) - 2 * (((x21) - (x11)) * ((z0) * (z1) + (z1) * (z0))))) * (((x10) * (z0) - 2 * ((x11) * (z1))) * (z0) - 2 * (((x10) * (z1) + (x11) * (z0)) * (z1)))))) - (((((x20) - (x10)) * ((z0) * (z0) - 2 * ((z1) * (z1))) - 2 * (((x21) - (x11)) * ((z0) * (z1) + (z1) * (z0)))) * (((x20) - (x10)) * ((z0) * (z0) - 2 * ((z1) * (z1))) - 2 * (((x21) - (x11)) * ((z0) * (z1) + (z1) * (z0)))) - 2 * ((((x20) - (x10)) * ((z0) * (z1) + (z1) * (z0)) + ((x21) - (x11)) * ((z0) * (z0) - 2 * ((z1) * (z1)))) * (((x20) - (x10)) * ((z0) * (z1) + (z1) * (z0)) + ((x21) - (x11)) * ((z0) * (z0) - 2 * ((z1) * (z1)))))) * (((x20) - (x10)) * ((z0) * (z1) + (z1) * (z0)) + ((x21) - (x11)) * ((z0) * (z0) - 2 * ((z1) * (z1)))) + ((((x20) - (x10)) * ((z0) * (z0) - 2 * ((z1) * (z1))) - 2 * (((x21) - (x11)) * ((z0) * (z1) + (z1) * (z0)))) * (((x20) - (x10)) * ((z0) * (z1) + (z1) * (z0)) + ((x21) - (x11)) * ((z0) * (z0) - 2 * ((z1) * (z1)))) + (((x20) - (x10)) * ((z0) * (z1) + (z1) * (z0)) + ((x21) - (x11)) * ((z0) * (z0) - 2 * ((z1) * (z1)))) * (((x20) - (x10)) * ((z0) * (z0) - 2 * ((z1) * (z1))) - 2 * (((x21) - (x11)) * ((z0) * (z1) + (z1) * (z0))))) * (((x20) - (x10)) * ((z0) * (z0) - 2 * ((z1) * (z1))) - 2 * (((x21) - (x11)) * ((z0) * (z1) + (z1) * (z0)))))
        == (((dyv0) * (dyv0) - 2 * ((dyv1) * (dyv1))) - (((x10) + (x20)) * (((x20) - (x10)) * ((x20) - (x10)) - 2 * (((x21) - (x11)) * ((x21) - (x11)))) - 2 * (((x11) + (x21)) * (((x20) - (x10)) * ((x21) - (x11)) + ((x21) - (x11)) * ((x20) - (x10)))))) * ((((z0) * (z0) - 2 * ((z1) * (z1))) * (z0) - 2 * (((z0) * (z1) + (z1) * (z0)) * (z1))) * (((z0) * (z0) - 2 * ((z1) * (z1))) * (z1) + ((z0) * (z1) + (z1) * (z0)) * (z0)) + (((z0) * (z0) - 2 * ((z1) * (z1))) * (z1) + ((z0) * (z1) + (z1) * (z0)) * (z0)) * (((z0) * (z0) - 2 * ((z1) * (z1))) * (z0) - 2 * (((z0) * (z1) + (z1) * (z0)) * (z1)))) + (((dyv0) * (dyv1) + (dyv1) * (dyv0)) - (((x10) + (x20)) * (((x20) - (x10)) * ((x21) - (x11)) + ((x21) - (x11)) * ((x20) - (x10))) + ((x11) + (x21)) * (((x20) - (x10)) * ((x20) - (x10)) - 2 * (((x21) - (x11)) * ((x21) - (x11)))))) * ((((z0) * (z0) - 2 * ((z1) * (z1))) * (z0) - 2 * (((z0) * (z1) + (z1) * (z0)) * (z1))) * (((z0) * (z0) - 2 * ((z1) * (z1))) * (z0) - 2 * (((z0) * (z1) + (z1) * (z0)) * (z1))) - 2 * ((((z0) * (z0) - 2 * ((z1) * (z1))) * (z1) + ((z0) * (z1) + (z1) * (z0)) * (z0)) * (((z0) * (z0) - 2 * ((z1) * (z1))) * (z1) + ((z0) * (z1) + (z1) * (z0)) * (z0))))
{ }
proof fn qr_ma_y(x1: F2, y1: F2, dxv: F2, dyv: F2, x3nv: F2, z: F2)
    ensures q_sub(q_mul(q_sub(q_mul(q_mul(q_mul(dxv, q_mul(z, z)), q_mul(dxv, q_mul(z, z))), q_mul(q_mul(x1, z), z)), q_mul(x3nv, q_mul(q_mul(q_mul(z, z), z), q_mul(q_mul(z, z), z)))), q_mul(dyv, q_mul(q_mul(z, z), z))), q_mul(q_mul(q_mul(q_mul(dxv, q_mul(z, z)), q_mul(dxv, q_mul(z, z))), q_mul(dxv, q_mul(z, z))), q_mul(q_mul(q_mul(y1, z), z), z)))
        == q_mul(q_sub(q_mul(dyv, q_sub(q_mul(x1, q_mul(dxv, dxv)), x3nv)), q_mul(y1, q_mul(q_mul(dxv, dxv), dxv))), q_mul(q_mul(q_mul(q_mul(z, z), z), q_mul(q_mul(z, z), z)), q_mul(q_mul(z, z), z)))
{
    reveal(q_add); reveal(q_sub); reveal(q_mul); reveal(q_k); reveal(q_c);
    ring_ma_y_0(x1.c0, x1.c1, y1.c0, y1.c1, dxv.c0, dxv.c1, dyv.c0, dyv.c1, x3nv.c0, x3nv.c1, z.c0, z.c1); ring_ma_y_1(x1.c0, x1.c1, y1.c0, y1.c1, dxv.c0, dxv.c1, dyv.c0, dyv.c1, x3nv.c0, x3nv.c1, z.c0, z.c1);
}
#[verifier::external_body]
proof fn ring_ma_y_0(x10: int, x11: int, y10: int, y11: int, dxv0: int, dxv1: int, dyv0: int, dyv1: int, x3nv0: int, x3nv1: int, z0: int, z1: int)
    ensures ((((((dxv0) * ((z0) * (z0) - 2 * ((z1) * (z1))) - 2 * ((dxv1) * ((z0) * (z1) + (z1) * (z0)))) * ((dxv0) * ((z0) * (z0) - 2 * ((z1) * (z1))) - 2 * ((dxv1) * ((z0) * (z1) + (z1) * (z0)))) - 2 * (((dxv0) * ((z0) * (z1) + (z1) * (z0)) + (dxv1) * ((z0) * (z0) - 2 * ((z1) * (z1)))) * ((dxv0) * ((z0) * (z1) + (z1) * (z0)) + (dxv1) * ((z0) * (z0) - 2 * ((z1) * (z1)))))) * (((x10) * (z0) - 2 * ((x11) * (z1))) * (z0) - 2 * (((x10) * (z1) + (x11) * (z0)) * (z1))) - 2 * ((((dxv0) * ((z0) * (z0) - 2 * ((z1) * (z1))) - 2 * ((dxv1) * ((z0) * (z1) + (z1) * (z0)))) * ((dxv0) * ((z0) * (z1) + (z1) * (z0)) + (dxv1) * ((z0) * (z0) - 2 * ((z1) * (z1)))) + ((dxv0) * ((z0) * (z1) + (z1) * (z0)) + (dxv1) * ((z0) * (z0) - 2 * ((z1) * (z1)))) * ((dxv0) * ((z0) * (z0) - 2 * ((z1) * (z1))) - 2 * ((dxv1) * ((z0) * (z1) + (z1) * (z0))))) * (((x10) * (z0) - 2 * ((x11) * (z1))) * (z1) + ((x10) * (z1) + (x11) * (z0)) * (z0)))) - ((x3nv0) * ((((z0) * (z0) - 2 * ((z1) * (z1))) * (z0) - 2 * (((z0) * (z1) + (z1) * (z0)) * (z1))) * (((z0) * (z0) - 2 * ((z1) * (z1))) * (z0) - 2 * (((z0) * (z1) + (z1) * (z0)) * (z1))) - 2 * ((((z0) * (z0) - 2 * ((z1) * (z1))) * (z1) + ((z0) * (z1) + (z1) * (z0)) * (z0)) * (((z0) * (z0) - 2 * ((z1) * (z1))) * (z1) + ((z0) * (z1) + (z1) * (z0)) * (z0)))) - 2 * ((x3nv1) * ((((z0) * (z0) - 2 * ((z1) * (z1))) * (z0) - 2 * (((z0) * (z1) + (z1) * (z0)) * (z1))) * (((z0) * (z0) - 2 * ((z1) * (z1))) * (z1) + ((z0) * (z1) + (z1) * (z0)) * (z0)) + (((z0) * (z0) - 2 * ((z1) * (z1))) * (z1) + ((z0) * (z1) + (z1) * (z0)) * (z0)) * (((z0) * (z0) - 2 * ((z1) * (z1))) * (z0) - 2 * (((z0) * (z1) + (z1) * (z0)) * (z1))))))) * ((dyv0) * (((z0) * (z0) - 2 * ((z1) * (z1))) * (z0) - 2 * (((z0) * (z1) + (z1) * (z0)) * (z1))) - 2 * ((dyv1) * (((z0) * (z0) - 2 * ((z1) * (z1))) * (z1) + ((z0) * (z1) + (z1) * (z0)) * (z0)))) - 2 * ((((((dxv0) * ((z0) * (z0) - 2 * ((z1) * (z1))) - 2 * ((dxv1) * ((z0) * (z1) + (z1) * (z0)))) * ((dxv0) * ((z0) * (z0) - 2 * ((z1) * (z1))) - 2 * ((dxv1) * ((z0) * (z1) + (z1) * (z0)))) - 2 * (((dxv0) * ((z0) * (z1) + (z1) * (z0)) + (dxv1) * ((z0) * (z0) - 2 * ((z1) * (z1)))) * ((dxv0) * ((z0) * (z1) + (z1) * (z0)) + (dxv1) * ((z0) * (z0) - 2 * ((z1) * (z1)))))) * (((x10) * (z0) - 2 * ((x11) * (z1))) * (z1) + ((x10) * (z1) + (x11) * (z0)) * (z0)) + (((dxv0) * ((z0) * (z0) - 2 * ((z1) * (z1))) - 2 * ((dxv1) * ((z0) * (z1) + (z1) * (z0)))) * ((dxv0) * ((z0) * (z1) + (z1) * (z0)) + (dxv1) * ((z0) * (z0) - 2 * ((z1) * (z1)))) + ((dxv0) * ((z0) * (z1) + (z1) * (z0)) + (dxv1) * ((z0) * (z0) - 2 * ((z1) * (z1)))) * ((dxv0) * ((z0) * (z0) - 2 * ((z1) * (z1))) - 2 * ((dxv1) * ((z0) * (z1) + (z1) * (z0))))) * (((x10) * (z0) - 2 * ((x11) * (z1))) * (z0) - 2 * (((x10) * (z1) + (x11) * (z0)) * (z1)))) - ((x3nv0) * ((((z0) * (z0) - 2 * ((z1) * (z1))) * (z0) - 2 * (((z0) * (z1) + (z1) * (z0)) * (z1))) * (((z0) * (z0) - 2 * ((z1) * (z1))) * (z1) + ((z0) * (z1) + (z1) * (z0)) * (z0)) + (((z0) * (z0) - 2 * ((z1) * (z1))) * (z1) + ((z0) * (z1) + (z1) * (z0)) * (z0)) * (((z0) * (z0) - 2 * ((z1) * (z1))) * (z0) - 2 * (((z0) * (z1) + (z1) * (z0)) * (z1)))) + (x3nv1) * ((((z0) * (z0) - 2 * ((z1) * (z1))) * (z0) - 2 * (((z0) * (z1) + (z1) * (z0)) * (z1))) * (((z0) * (z0) - 2 * ((z1) * (z1))) * (z0) - 2 * (((z0) * (z1) + (z1) * (z0)) * (z1))) - 2 * ((((z0) * (z0) - 2 * ((z1) * (z1))) * (z1) + ((z0) * (z1) + (z1) * (z0)) * (z0)) * (((z0) * (z0) - 2 * ((z1) * (z1))) * (z1) + ((z0) * (z1) + (z1) * (z0)) * (z0)))))) * ((dyv0) * (((z0) * (z0) - 2 * ((z1) * (z1))) * (z1) + ((z0) * (z1) + (z1) * (z0)) * (z0)) + (dyv1) * (((z0) * (z0) - 2 * ((z1) * (z1))) * (z0) - 2 * (((z0) * (z1) + (z1) * (z0)) * (z1)))))) - (((((dxv0) * ((z0) * (z0) - 2 * ((z1) * (z1))) - 2 * ((dxv1) * ((z0) * (z1) + (z1) * (z0)))) * ((dxv0) * ((z0) * (z0) - 2 * ((z1) * (z1))) - 2 * ((dxv1) * ((z0) * (z1) + (z1) * (z0)))) - 2 * (((dxv0) * ((z0) * (z1) + (z1) * (z0)) + (dxv1) * ((z0) * (z0) - 2 * ((z1) * (z1)))) * ((dxv0) * ((z0) * (z1) + (z1) * (z0)) + (dxv1) * ((z0) * (z0) - 2 * ((z1) * (z1)))))) * ((dxv0) * ((z0) * (z0) - 2 * ((z1) * (z1))) - 2 * ((dxv1) * ((z0) * (z1) + (z1) * (z0)))) - 2 * ((((dxv0) * ((z0) * (z0) - 2 * ((z1) * (z1))) - 2 * ((dxv1) * ((z0) * (z1) + (z1) * (z0)))) * ((dxv0) * ((z0) * (z1) + (z1) * (z0)) + (dxv1) * ((z0) * (z0) - 2 * ((z1) * (z1)))) + ((dxv0) * ((z0) * (z1) + (z1) * (z0)) + (dxv1) * ((z0) * (z0) - 2 * ((z1) * (z1)))) * ((dxv0) * ((z0) * (z0) - 2 * ((z1) * (z1))) - 2 * ((dxv1) * ((z0) * (z1) + (z1) * (z0))))) * ((dxv0) * ((z0) * (z1) + (z1) * (z0)) + (dxv1) * ((z0) * (z0) - 2 * ((z1) * (z1)))))) * ((((y10) * (z0) - 2 * ((y11) * (z1))) * (z0) - 2 * (((y10) * (z1) + (y11) * (z0)) * (z1))) * (z0) - 2 * ((((y10) * (z0) - 2 * ((y11) * (z1))) * (z1) + ((y10) * (z1) + (y11) * (z0)) * (z0)) * (z1))) - 2 * (((((dxv0) * ((z0) * (z0) - 2 * ((z1) * (z1))) - 2 * ((dxv1) * ((z0) * (z1) + (z1) * (z0)))) * ((dxv0) * ((z0) * (z0) - 2 * ((z1) * (z1))) - 2 * ((dxv1) * ((z0) * (z1) + (z1) * (z0)))) - 2 * (((dxv0) * ((z0) * (z1) + (z1) * (z0)) + (dxv1) * ((z0) * (z0) - 2 * ((z1) * (z1)))) * ((dxv0) * ((z0) * (z1) + (z1) * (z0)) + (dxv1) * ((z0) * (z0) - 2 * ((z1) * (z1)))))) * ((dxv0) * ((z0) * (z1) + (z1) * (z0)) + (dxv1) * ((z0) * (z0) - 2 * ((z1) * (z1)))) + (((dxv0) * ((z0) * (z0) - 2 * ((z1) * (z1))) - 2 * ((dxv1) * ((z0) * (z1) + (z1) * (z0)))) * ((dxv0) * ((z0) * (z1) + (z1) * (z0)) + (dxv1) * ((z0) * (z0) - 2 * ((z1) * (z1)))) + ((dxv0) * ((z0) * (z1) + (z1) * (z0)) + (dxv1) * ((z0) * (z0) - 2 * ((z1) * (z1)))) * ((dxv0) * ((z0) * (z0) - 2 * ((z1) * (z1))) - 2 * ((dxv1) * ((z0) * (z1) + (z1) * (z0))))) * ((dxv0) * ((z0) * (z0) - 2 * ((z1) * (z1))) - 2 * ((dxv1) * ((z0) * (z1) + (z1) * (z0))))) * ((((y10) * (z0) - 2 * ((y11) * (z1))) * (z0) - 2 * (((y10) * (z1) + (y11) * (z0)) * (z1))) * (z1) + (((y10) * (z0) - 2 * ((y11) * (z1))) * (z1) + ((y10) * (z1) + (y11) * (z0)) * (z0)) * (z0))))
        == (((dyv0) * (((x10) * ((dxv0) * (dxv0) - 2 * ((dxv1) * (dxv1))) - 2 * ((x11) * ((dxv0) * (dxv1) + (dxv1) * (dxv0)))) - (x3nv0)) - 2 * ((dyv1) * (((x10) * ((dxv0) * (dxv1) + (dxv1) * (dxv0)) + (x11) * ((dxv0) * (dxv0) - 2 * ((dxv1) * (dxv1)))) - (x3nv1)))) - ((y10) * (((dxv0) * (dxv0) - 2 * ((dxv1) * (dxv1))) * (dxv0) - 2 * (((dxv0) * (dxv1) + (dxv1) * (dxv0)) * (dxv1))) - 2 * ((y11) * (((dxv0) * (dxv0) - 2 * ((dxv1) * (dxv1))) * (dxv1) + ((dxv0) * (dxv1) + (dxv1) * (dxv0)) * (dxv0))))) * (((((z0) * (z0) - 2 * ((z1) * (z1))) * (z0) - 2 * (((z0) * (z1) + (z1) * (z0)) * (z1))) * (((z0) * (z0) - 2 * ((z1) * (z1))) * (z0) - 2 * (((z0) * (z1) + (z1) * (z0)) * (z1))) - 2 * ((((z0) * (z0) - 2 * ((z1) * (z1))) * (z1) + ((z0) * (z1) + (z1) * (z0)) * (z0)) * (((z0) * (z0) - 2 * ((z1) * (z1))) * (z1) + ((z0) * (z1) + (z1) * (z0)) * (z0)))) * (((z0) * (z0) - 2 * ((z1) * (z1))) * (z0) - 2 * (((z0) * (z1) + (z1) * (z0)) * (z1))) - 2 * (((((z0) * (z0) - 2 * ((z1) * (z1))) * (z0) - 2 * (((z0) * (z1) + (z1) * (z0)) * (z1))) * (((z0) * (z0) - 2 * ((z1) * (z1))) * (z1) + ((z0) * (z1) + (z1) * (z0)) * (z0)) + (((z0) * (z0) - 2 * ((z1) * (z1))) * (z1) + ((z0) * (z1) + (z1) * (z0)) * (z0)) * (((z0) * (z0) - 2 * ((z1) * (z1))) * (z0) - 2 * (((z0) * (z1) + (z1) * (z0)) * (z1)))) * (((z0) * (z0) - 2 * ((z1) * (z1))) * (z1) + ((z0) * (z1) + (z1) * (z0)) * (z0)))) - 2 * ((((dyv0) * (((x10) * ((dxv0) * (dxv1) + (dxv1) * (dxv0)) + (x11) * ((dxv0) * (dxv0) - 2 * ((dxv1) * (dxv1)))) - (x3nv1)) + (dyv1) * (((x10) * ((dxv0) * (dxv0) - 2 * ((dxv1) * (dxv1))) - 2 * ((x11) * ((dxv0) * (dxv1) + (dxv1) * (dxv0)))) - (x3nv0))) - ((y10) * (((dxv0) * (dxv0) - 2 * ((dxv1) * (dxv1))) * (dxv1) + ((dxv0) * (dxv1) + (dxv1) * (dxv0)) * (dxv0)) + (y11) * (((dxv0) * (dxv0) - 2 * ((dxv1) * (dxv1))) * (dxv0) - 2 * (((dxv0) * (dxv1) + (dxv1) * (dxv0)) * (dxv1))))) * (((((z0) * (z0) - 2 * ((z1) * (z1))) * (z0) - 2 * (((z0) * (z1) + (z1) * (z0)) * (z1))) * (((z0) * (z0) - 2 * ((z1) * (z1))) * (z0) - 2 * (((z0) * (z1) + (z1) * (z0)) * (z1))) - 2 * ((((z0) * (z0) - 2 * ((z1) * (z1))) * (z1) + ((z0) * (z1) + (z1) * (z0)) * (z0)) * (((z0) * (z0) - 2 * ((z1) * (z1))) * (z1) + ((z0) * (z1) + (z1) * (z0)) * (z0)))) * (((z0) * (z0) - 2 * ((z1) * (z1))) * (z1) + ((z0) * (z1) + (z1) * (z0)) * (z0)) + ((((z0) * (z0) - 2 * ((z1) * (z1))) * (z0) - 2 * (((z0) * (z1) + (z1) * (z0)) * (z1))) * (((z0) * (z0) - 2 * ((z1) * (z1))) * (z1) + ((z0) * (z1) + (z1) * (z0)) * (z0)) + (((z0) * (z0) - 2 * ((z1) * (z1))) * (z1) + ((z0) * (z1) + (z1) * (z0)) * (z0)) * (((z0) * (z0) - 2 * ((z1) * (z1))) * (z0) - 2 * (((z0) * (z1) + (z1) * (z0)) * (z1)))) * (((z0) * (z0) - 2 * ((z1) * (z1))) * (z0) - 2 * (((z0) * (z1) + (z1) * (z0)) * (z1)))))
{ }
#[verifier::external_body]
proof fn ring_ma_y_1(x10: int, x11: int, y10: int, y11: int, dxv0: int, dxv1: int, dyv0: int, dyv1: int, x3nv0: int, x3nv1: int, z0: int, z1: int)
    ensures ((((((dxv0) * ((z0) * (z0) - 2 * ((z1) * (z1))) - 2 * ((dxv1) * ((z0) * (z1) + (z1) * (z0)))) * ((dxv0) * ((z0) * (z0) - 2 * ((z1) * (z1))) - 2 * ((dxv1) * ((z0) * (z1) + (z1) * (z0)))) - 2 * (((dxv0) * ((z0) * (z1) + (z1) * (z0)) + (dxv1) * ((z0) * (z0) - 2 * ((z1) * (z1)))) * ((dxv0) * ((z0) * (z1) + (z1) * (z0)) + (dxv1) * ((z0) * (z0) - 2 * ((z1) * (z1)))))) * (((x10) * (z0) - 2 * ((x11) * (z1))) * (z0) - 2 * (((x10) * (z1) + (x11) * (z0)) * (z1))) - 2 * ((((dxv0) * ((z0) * (z0) - 2 * ((z1) * (z1))) - 2 * ((dxv1) * ((z0) * (z1) + (z1) * (z0)))) * ((dxv0) * ((z0) * (z1) + (z1) * (z0)) + (dxv1) * ((z0) * (z0) - 2 * ((z1) * (z1)))) + ((dxv0) * ((z0) * (z1) + (z1) * (z0)) + (dxv1) * ((z0) * (z0) - 2 * ((z1) * (z1)))) * ((dxv0) * ((z0) * (z0) - 2 * ((z1) * (z1))) - 2 * ((dxv1) * ((z0) * (z1) + (z1) * (z0))))) * (((x10) * (z0) - 2 * ((x11) * (z1))) * (z1) + ((x10) * (z1) + (x11) * (z0)) * (z0)))) - ((x3nv0) * ((((z0) * (z0) - 2 * ((z1) * (z1))) * (z0) - 2 * (((z0) * (z1) + (z1) * (z0)) * (z1))) * (((z0) * (z0) - 2 * ((z1) * (z1))) * (z0) - 2 * (((z0) * (z1) + (z1) * (z0)) * (z1))) - 2 * ((((z0) * (z0) - 2 * ((z1) * (z1))) * (z1) + ((z0) * (z1) + (z1) * (z0)) * (z0)) * (((z0) * (z0) - 2 * ((z1) * (z1))) * (z1) + ((z0) * (z1) + (z1) * (z0)) * (z0)))) - 2 * ((x3nv1) * ((((z0) * (z0) - 2 * ((z1) * (z1))) * (z0) - 2 * (((z0) * (z1) + (z1) * (z0)) * (z1))) * (((z0) * (z0) - 2 * ((z1) * (z1))) * (z1) + ((z0) * (z1) + (z1) * (z0)) * (z0)) + (((z0) * (z0) - 2 * ((z1) * (z1))) * (z1) + ((z0) * (z1) + (z1) * (z0)) * (z0)) * (((z0) * (z0) - 2 * ((z1) * (z1))) * (z0) - 2 * (((z0) * (z1) + (z1) * (z0)) * (z1))))))) * ((dyv0) * (((z0) * (z0) - 2 * ((z1) * (z1))) * (z1) + ((z0) * (z1) + (z1) * (z0)) * (z0)) + (dyv1) * (((z0) * (z0) - 2 * ((z1) * (z1))) * (z0) - 2 * (((z0) * (z1) + (z1) * (z0)) * (z1)))) + (((((dxv0) * ((z0) * (z0) - 2 * ((z1) * (z1))) - 2 * ((dxv1) * ((z0) * (z1) + (z1) * (z0)))) * ((dxv0) * ((z0) * (z0) - 2 * ((z1) * (z1))) - 2 * ((dxv1) * ((z0) * (z1) + (z1) * (z0)))) - 2 * (((dxv0) * ((z0) * (z1) + (z1) * (z0)) + (dxv1) * ((z0) * (z0) - 2 * ((z1) * (z1)))) * ((dxv0) * ((z0) * (z1) + (z1) * (z0)) + (dxv1) * ((z0) * (z0) - 2 * ((z1) * (z1)))))) * (((x10) * (z0) - 2 * ((x11) * (z1))) * (z1) + ((x10) * (z1) + (x11) * (z0)) * (z0)) + (((dxv0) * ((z0) * (z0) - 2 * ((z1) * (z1))) - 2 * ((dxv1) * ((z0) * (z1) + (z1) * (z0)))) * ((dxv0) * ((z0) * (z1) + (z1) * (z0)) + (dxv1) * ((z0) * (z0) - 2 * ((z1) * (z1)))) + ((dxv0) * ((z0) * (z1) + (z1) * (z0)) + (dxv1) * ((z0) * (z0) - 2 * ((z1) * (z1)))) * ((dxv0) * ((z0) * (z0) - 2 * ((z1) * (z1))) - 2 * ((dxv1) * ((z0) * (z1) + (z1) * (z0))))) * (((x10) * (z0) - 2 * ((x11) * (z1))) * (z0) - 2 * (((x10) * (z1) + (x11) * (z0)) * (z1)))) - ((x3nv0) * ((((z0) * (z0) - 2 * ((z1) * (z1))) * (z0) - 2 * (((z0) * (z1) + (z1) * (z0)) * (z1))) * (((z0) * (z0) - 2 * ((z1) * (z1))) * (z1) + ((z0) * (z1) + (z1) * (z0)) * (z0)) + (((z0) * (z0) - 2 * ((z1) * (z1))) * (z1) + ((z0) * (z1) + (z1) * (z0)) * (z0)) * (((z0) * (z0) - 2 * ((z1) * (z1))) * (z0) - 2 * (((z0) * (z1) + (z1) * (z0)) * (z1)))) + (x3nv1) * ((((z0) * (z0) - 2 * ((z1) * (z1))) * (z0) - 2 * (((z0) * (z1) + (z1) * (z0)) * (z1))) * (((z0) * (z0) - 2 * ((z1) * (z1))) * (z0) - 2 * (((z0) * (z1) + (z1) * (z0)) * (z1))) - 2 * ((((z0) * (z0) - 2 * ((z1) * (z1))) * (z1) + ((z0) * (z1) + (z1) * (z0)) * (z0)) * (((z0) * (z0) - 2 * ((z1) * (z1))) * (z1) + ((z0) * (z1) + (z1) * (z0)) * (z0)))))) * ((dyv0) * (((z0) * (z0) - 2 * ((z1) * (z1))) * (z0) - 2 * (((z0) * (z1) + (z1) * (z0)) * (z1))) - 2 * ((dyv1) * (((z0) * (z0) - 2 * ((z1) * (z1))) * (z1) + ((z0) * (z1) + (z1) * (z0)) * (z0))))) - (((((dxv0) * ((z0) * (z0) - 2 * ((z1) * (z1))) - 2 * ((dxv1) * ((z0) * (z1) + (z1) * (z0)))) * ((dxv0) * ((z0) * (z0) - 2 * ((z1) * (z1))) - 2 * ((dxv1) * ((z0) * (z1) + (z1) * (z0)))) - 2 * (((dxv0) * ((z0) * (z1) + (z1) * (z0)) + (dxv1) * ((z0) * (z0) - 2 * ((z1) * (z1)))) * ((dxv0) * ((z0) * (z1) + (z1) * (z0)) + (dxv1) * ((z0) * (z0) - 2 * ((z1) * (z1)))))) * ((dxv0) * ((z0) * (z0) - 2 * ((z1) * (z1))) - 2 * ((dxv1) * ((z0) * (z1) + (z1) * (z0)))) - 2 * ((((dxv0) * ((z0) * (z0) - 2 * ((z1) * (z1))) - 2 * ((dxv1) * ((z0) * (z1) + (z1) * (z0)))) * ((dxv0) * ((z0) * (z1) + (z1) * (z0)) + (dxv1) * ((z0) * (z0) - 2 * ((z1) * (z1)))) + ((dxv0) * ((z0) * (z1) + (z1) * (z0)) + (dxv1) * ((z0) * (z0) - 2 * ((z1) * (z1)))) * ((dxv0) * ((z0) * (z0) - 2 * ((z1) * (z1))) - 2 * ((dxv1) * ((z0) * (z1) + (z1) * (z0))))) * ((dxv0) * ((z0) * (z1) + (z1) * (z0)) + (dxv1) * ((z0) * (z0) - 2 * ((z1) * (z1)))))) * ((((y10) * (z0) - 2 * ((y11) * (z1))) * (z0) - 2 * (((y10) * (z1) + (y11) * (z0)) * (z1))) * (z1) + (((y10) * (z0) - 2 * ((y11) * (z1))) * (z1) + ((y10) * (z1) + (y11) * (z0)) * (z0)) * (z0)) + ((((dxv0) * ((z0) * (z0) - 2 * ((z1) * (z1))) - 2 * ((dxv1) * ((z0) * (z1) + (z1) * (z0)))) * ((dxv0) * ((z0) * (z0) - 2 * ((z1) * (z1))) - 2 * ((dxv1) * ((z0) * (z1) + (z1) * (z0)))) - 2 * (((dxv0) * ((z0) * (z1) + (z1) * (z0)) + (dxv1) * ((z0) * (z0) - 2 * ((z1) * (z1)))) * ((dxv0) * ((z0) * (z1) + (z1) * (z0)) + (dxv1) * ((z0) * (z0) - 2 * ((z1) * (z1)))))) * ((dxv0) * ((z0) * (z1) + (z1) * (z0)) + (dxv1) * ((z0) * (z0) - 2 * ((z1) * (z1)))) + (((dxv0) * ((z0) * (z0) - 2 * ((z1) * (z1))) - 2 * ((dxv1) * ((z0) * (z1) + (z1) * (z0)))) * ((dxv0) * ((z0) * (z1) + (z1) * (z0)) + (dxv1) * ((z0) * (z0) - 2 * ((z1) * (z1)))) + ((dxv0) * ((z0) * (z1) + (z1) * (z0)) + (dxv1) * ((z0) * (z0) - 2 * ((z1) * (z1)))) * ((dxv0) * ((z0) * (z0) - 2 * ((z1) * (z1))) - 2 * ((dxv1) * ((z0) * (z1) + (z1) * (z0))))) * ((dxv0) * ((z0) * (z0) - 2 * ((z1) * (z1))) - 2 * ((dxv1) * ((z0) * (z1) + (z1) * (z0))))) * ((((y10) * (z0) - 2 * ((y11) * (z1))) * (z0) - 2 * (((y10) * (z1) + (y11) * (z0)) * (z1))) * (z0) - 2 * ((((y10) * (z0) - 2 * ((y11) * (z1))) * (z1) + ((y10) * (z1) + (y11) * (z0)) * (z0)) * (z1))))
        == (((dyv0) * (((x10) * ((dxv0) * (dxv0) - 2 * ((dxv1) * (dxv1))) - 2 * ((x11) * ((dxv0) * (dxv1) + (dxv1) * (dxv0)))) - (x3nv0)) - 2 * ((dyv1) * (((x10) * ((dxv0) * (dxv1) + (dxv1) * (dxv0)) + (x11) * ((dxv0) * (dxv0) - 2 * ((dxv1) * (dxv1)))) - (x3nv1)))) - ((y10) * (((dxv0) * (dxv0) - 2 * ((dxv1) * (dxv1))) * (dxv0) - 2 * (((dxv0) * (dxv1) + (dxv1) * (dxv0)) * (dxv1))) - 2 * ((y11) * (((dxv0) * (dxv0) - 2 * ((dxv1) * (dxv1))) * (dxv1) + ((dxv0) * (dxv1) + (dxv1) * (dxv0)) * (dxv0))))) * (((((z0) * (z0) - 2 * ((z1) * (z1))) * (z0) - 2 * (((z0) * (z1) + (z1) * (z0)) * (z1))) * (((z0) * (z0) - 2 * ((z1) * (z1))) * (z0) - 2 * (((z0) * (z1) + (z1) * (z0)) * (z1))) - 2 * ((((z0) * (z0) - 2 * ((z1) * (z1))) * (z1) + ((z0) * (z1) + (z1) * (z0)) * (z0)) * (((z0) * (z0) - 2 * ((z1) * (z1))) * (z1) + ((z0) * (z1) + (z1) * (z0)) * (z0)))) * (((z0) * (z0) - 2 * ((z1) * (z1))) * (z1) + ((z0) * (z1) + (z1) * (z0)) * (z0)) + ((((z0) * (z0) - 2 * ((z1) * (z1))) * (z0) - 2 * (((z0) * (z1) + (z1) * (z0)) * (z1))) * (((z0) * (z0) - 2 * ((z1) * (z1))) * (z1) + ((z0) * (z1) + (z1) * (z0)) * (z0)) + (((z0) * (z0) - 2 * ((z1) * (z1))) * (z1) + ((z0) * (z1) + (z1) * (z0)) * (z0)) * (((z0) * (z0) - 2 * ((z1) * (z1))) * (z0) - 2 * (((z0) * (z1) + (z1) * (z0)) * (z1)))) * (((z0) * (z0) - 2 * ((z1) * (z1))) * (z0) - 2 * (((z0) * (z1) + (z1) * (z0)) * (z1)))) + (((dyv0) * (((x10) * ((dxv0) * (dxv1) + (dxv1) * (dxv0)) + (x11) * ((dxv0) * (dxv0) - 2 * ((dxv1) * (dxv1)))) - (x3nv1)) + (dyv1) * (((x10) * ((dxv0) * (dxv0) - 2 * ((dxv1) * (dxv1))) - 2 * ((x11) * ((dxv0) * (dxv1) + (dxv1) * (dxv0)))) - (x3nv0))) - ((y10) * (((dxv0) * (dxv0) - 2 * ((dxv1) * (dxv1))) * (dxv1) + ((dxv0) * (dxv1) + (dxv1) * (dxv0)) * (dxv0)) + (y11) * (((dxv0) * (dxv0) - 2 * ((dxv1) * (dxv1))) * (dxv0) - 2 * (((dxv0) * (dxv1) + (dxv1) * (dxv0)) * (dxv1))))) * (((((z0) * (z0) - 2 * ((z1) * (z1))) * (z0) - 2 * (((z0) * (z1) + (z1) * (z0)) * (z1))) * (((z0) * (z0) - 2 * ((z1) * (z1))) * (z0) - 2 * (((z0) * (z1) + (z1) * (z0)) * (z1))) - 2 * ((((z0) * (z0) - 2 * ((z1) * (z1))) * (z1) + ((z0) * (z1) + (z1) * (z0)) * (z0)) * (((z0) * (z0) - 2 * ((z1) * (z1))) * (z1) + ((z0) * (z1) + (z1) * (z0)) * (z0)))) * (((z0) * (z0) - 2 * ((z1) * (z1))) * (z0) - 2 * (((z0) * (z1) + (z1) * (z0)) * (z1))) - 2 * (((((z0) * (z0) - 2 * ((z1) * (z1))) * (z0) - 2 * (((z0) * (z1) + (z1) * (z0)) * (z1))) * (((z0) * (z0) - 2 * ((z1) * (z1))) * (z1) + ((z0) * (z1) + (z1) * (z0)) * (z0)) + (((z0) * (z0) - 2 * ((z1) * (z1))) * (z1) + ((z0) * (z1) + (z1) * (z0)) * (z0)) * (((z0) * (z0) - 2 * ((z1) * (z1))) * (z0) - 2 * (((z0) * (z1) + (z1) * (z0)) * (z1)))) * (((z0) * (z0) - 2 * ((z1) * (z1))) * (z1) + ((z0) * (z1) + (z1) * (z0)) * (z0))))
{ }
// TwistPoint::point_equals: the cross-multiplied coordinates
spec fn eq_rel(X1: F2, Y1: F2, Z1: F2, X2: F2, Y2: F2, Z2: F2, t1: F2, t2: F2, t3: F2, t4: F2, t1c: F2, t2c: F2, t3b: F2, t4b: F2) -> bool {
    t1 == m2_mul(Z1, Z1)
    && t2 == m2_mul(Z2, Z2)
    && t3 == m2_mul(X1, t2)
    && t4 == m2_mul(X2, t1)
    && t1c == m2_mul(t1, Z1)
    && t2c == m2_mul(t2, Z2)
    && t3b == m2_mul(Y1, t2c)
    && t4b == m2_mul(Y2, t1c)
}
proof fn eq_chain(X1: F2, Y1: F2, Z1: F2, X2: F2, Y2: F2, Z2: F2, t1: F2, t2: F2, t3: F2, t4: F2, t1c: F2, t2c: F2, t3b: F2, t4b: F2, X1p: F2, Y1p: F2, Z1p: F2, X2p: F2, Y2p: F2, Z2p: F2)
    requires eq_rel(X1, Y1, Z1, X2, Y2, Z2, t1, t2, t3, t4, t1c, t2c, t3b, t4b),
        qc(X1, X1p),
        qc(Y1, Y1p),
        qc(Z1, Z1p),
        qc(X2, X2p),
        qc(Y2, Y2p),
        qc(Z2, Z2p)
    ensures qc(t3, q_mul(X1p, q_mul(Z2p, Z2p))),
        qc(t4, q_mul(X2p, q_mul(Z1p, Z1p))),
        qc(t3b, q_mul(Y1p, q_mul(q_mul(Z2p, Z2p), Z2p))),
        qc(t4b, q_mul(Y2p, q_mul(q_mul(Z1p, Z1p), Z1p))),
        m2_ok(t3),
        m2_ok(t4),
        m2_ok(t3b),
        m2_ok(t4b)
{
    t2_cm(t1, Z1, Z1, Z1p, Z1p);
    t2_cm(t2, Z2, Z2, Z2p, Z2p);
    t2_cm(t3, X1, t2, X1p, q_mul(Z2p, Z2p));
    t2_cm(t4, X2, t1, X2p, q_mul(Z1p, Z1p));
    t2_cm(t1c, t1, Z1, q_mul(Z1p, Z1p), Z1p);
    t2_cm(t2c, t2, Z2, q_mul(Z2p, Z2p), Z2p);
    t2_cm(t3b, Y1, t2c, Y1p, q_mul(q_mul(Z2p, Z2p), Z2p));
    t2_cm(t4b, Y2, t1c, Y2p, q_mul(q_mul(Z1p, Z1p), Z1p));
}
proof fn qr_eq_s1(y1: F2, z1: F2, z2: F2)
    ensures q_mul(q_mul(q_mul(q_mul(y1, z1), z1), z1), q_mul(q_mul(z2, z2), z2))
        == q_mul(y1, q_mul(q_mul(q_mul(z1, z2), q_mul(z1, z2)), q_mul(z1, z2)))
{
    reveal(q_add); reveal(q_sub); reveal(q_mul); reveal(q_k); reveal(q_c);
    ring_eq_s1_0(y1.c0, y1.c1, z1.c0, z1.c1, z2.c0, z2.c1); ring_eq_s1_1(y1.c0, y1.c1, z1.c0, z1.c1, z2.c0, z2.c1);
}
#[verifier::external_body]
proof fn ring_eq_s1_0(y10: int, y11: int, z10: int, z11: int, z20: int, z21: int)
    ensures ((((y10) * (z10) - 2 * ((y11) * (z11))) * (z10) - 2 * (((y10) * (z11) + (y11) * (z10)) * (z11))) * (z10) - 2 * ((((y10) * (z10) - 2 * ((y11) * (z11))) * (z11) + ((y10) * (z11) + (y11) * (z10)) * (z10)) * (z11))) * (((z20) * (z20) - 2 * ((z21) * (z21))) * (z20) - 2 * (((z20) * (z21) + (z21) * (z20)) * (z21))) - 2 * (((((y10) * (z10) - 2 * ((y11) * (z11))) * (z10) - 2 * (((y10) * (z11) + (y11) * (z10)) * (z11))) * (z11) + (((y10) * (z10) - 2 * ((y11) * (z11))) * (z11) + ((y10) * (z11) + (y11) * (z10)) * (z10)) * (z10)) * (((z20) * (z20) - 2 * ((z21) * (z21))) * (z21) + ((z20) * (z21) + (z21) * (z20)) * (z20)))
        == (y10) * ((((z10) * (z20) - 2 * ((z11) * (z21))) * ((z10) * (z20) - 2 * ((z11) * (z21))) - 2 * (((z10) * (z21) + (z11) * (z20)) * ((z10) * (z21) + (z11) * (z20)))) * ((z10) * (z20) - 2 * ((z11) * (z21))) - 2 * ((((z10) * (z20) - 2 * ((z11) * (z21))) * ((z10) * (z21) + (z11) * (z20)) + ((z10) * (z21) + (z11) * (z20)) * ((z10) * (z20) - 2 * ((z11) * (z21)))) * ((z10) * (z21) + (z11) * (z20)))) - 2 * ((y11) * ((((z10) * (z20) - 2 * ((z11) * (z21))) * ((z10) * (z20) - 2 * ((z11) * (z21))) - 2 * (((z10) * (z21) + (z11) * (z20)) * ((z10) * (z21) + (z11) * (z20)))) * ((z10) * (z21) + (z11) * (z20)) + (((z10) * (z20) - 2 * ((z11) * (z21))) * ((z10) * (z21) + (z11) * (z20)) + ((z10) * (z21) + (z11) * (z20)) * ((z10) * (z20) - 2 * ((z11) * (z21)))) * ((z10) * (z20) - 2 * ((z11) * (z21)))))
{ }
#[verifier::external_body]
proof fn ring_eq_s1_1(y10: int, y11: int, z10: int, z11: int, z20: int, z21: int)
    ensures ((((y10) * (z10) - 2 * ((y11) * (z11))) * (z10) - 2 * (((y10) * (z11) + (y11) * (z10)) * (z11))) * (z10) - 2 * ((((y10) * (z10) - 2 * ((y11) * (z11))) * (z11) + ((y10) * (z11) + (y11) * (z10)) * (z10)) * (z11))) * (((z20) * (z20) - 2 * ((z21) * (z21))) * (z21) + ((z20) * (z21) + (z21) * (z20)) * (z20)) + ((((y10) * (z10) - 2 * ((y11) * (z11))) * (z10) - 2 * (((y10) * (z11) + (y11) * (z10)) * (z11))) * (z11) + (((y10) * (z10) - 2 * ((y11) * (z11))) * (z11) + ((y10) * (z11) + (y11) * (z10)) * (z10)) * (z10)) * (((z20) * (z20) - 2 * ((z21) * (z21))) * (z20) - 2 * (((z20) * (z21) + (z21) * (z20)) * (z21)))
        == (y10) * ((((z10) * (z20) - 2 * ((z11) * (z21))) * ((z10) * (z20) - 2 * ((z11) * (z21))) - 2 * (((z10) * (z21) + (z11) * (z20)) * ((z10) * (z21) + (z11) * (z20)))) * ((z10) * (z21) + (z11) * (z20)) + (((z10) * (z20) - 2 * ((z11) * (z21))) * ((z10) * (z21) + (z11) * (z20)) + ((z10) * (z21) + (z11) * (z20)) * ((z10) * (z20) - 2 * ((z11) * (z21)))) * ((z10) * (z20) - 2 * ((z11) * (z21)))) + (y11) * ((((z10) * (z20) - 2 * ((z11) * (z21))) * ((z10) * (z20) - 2 * ((z11) * (z21))) - 2 * (((z10) * (z21) + (z11) * (z20)) * ((z10) * (z21) + (z11) * (z20)))) * ((z10) * (z20) - 2 * ((z11) * (z21))) - 2 * ((((z10) * (z20) - 2 * ((z11) * (z21))) * ((z10) * (z21) + (z11) * (z20)) + ((z10) * (z21) + (z11) * (z20)) * ((z10) * (z20) - 2 * ((z11) * (z21)))) * ((z10) * (z21) + (z11) * (z20))))
{ }
proof fn qr_eq_s2(y2: F2, z1: F2, z2: F2)
    ensures q_mul(q_mul(q_mul(q_mul(y2, z2), z2), z2), q_mul(q_mul(z1, z1), z1))
        == q_mul(y2, q_mul(q_mul(q_mul(z1, z2), q_mul(z1, z2)), q_mul(z1, z2)))
{
    reveal(q_add); reveal(q_sub); reveal(q_mul); reveal(q_k); reveal(q_c);
    ring_eq_s2_0(y2.c0, y2.c1, z1.c0, z1.c1, z2.c0, z2.c1); ring_eq_s2_1(y2.c0, y2.c1, z1.c0, z1.c1, z2.c0, z2.c1);
}
#[verifier::external_body]
proof fn ring_eq_s2_0(y20: int, y21: int, z10: int, z11: int, z20: int, z21: int)
    ensures ((((y20) * (z20) - 2 * ((y21) * (z21))) * (z20) - 2 * (((y20) * (z21) + (y21) * (z20)) * (z21))) * (z20) - 2 * ((((y20) * (z20) - 2 * ((y21) * (z21))) * (z21) + ((y20) * (z21) + (y21) * (z20)) * (z20)) * (z21))) * (((z10) * (z10) - 2 * ((z11) * (z11))) * (z10) - 2 * (((z10) * (z11) + (z11) * (z10)) * (z11))) - 2 * (((((y20) * (z20) - 2 * ((y21) * (z21))) * (z20) - 2 * (((y20) * (z21) + (y21) * (z20)) * (z21))) * (z21) + (((y20) * (z20) - 2 * ((y21) * (z21))) * (z21) + ((y20) * (z21) + (y21) * (z20)) * (z20)) * (z20)) * (((z10) * (z10) - 2 * ((z11) * (z11))) * (z11) + ((z10) * (z11) + (z11) * (z10)) * (z10)))
        == (y20) * ((((z10) * (z20) - 2 * ((z11) * (z21))) * ((z10) * (z20) - 2 * ((z11) * (z21))) - 2 * (((z10) * (z21) + (z11) * (z20)) * ((z10) * (z21) + (z11) * (z20)))) * ((z10) * (z20) - 2 * ((z11) * (z21))) - 2 * ((((z10) * (z20) - 2 * ((z11) * (z21))) * ((z10) * (z21) + (z11) * (z20)) + ((z10) * (z21) + (z11) * (z20)) * ((z10) * (z20) - 2 * ((z11) * (z21)))) * ((z10) * (z21) + (z11) * (z20)))) - 2 * ((y21) * ((((z10) * (z20) - 2 * ((z11) * (z21))) * ((z10) * (z20) - 2 * ((z11) * (z21))) - 2 * (((z10) * (z21) + (z11) * (z20)) * ((z10) * (z21) + (z11) * (z20)))) * ((z10) * (z21) + (z11) * (z20)) + (((z10) * (z20) - 2 * ((z11) * (z21))) * ((z10) * (z21) + (z11) * (z20)) + ((z10) * (z21) + (z11) * (z20)) * ((z10) * (z20) - 2 * ((z11) * (z21)))) * ((z10) * (z20) - 2 * ((z11) * (z21)))))
{ }
#[verifier::external_body]
proof fn ring_eq_s2_1(y20: int, y21: int, z10: int, z11: int, z20: int, z21: int)
    ensures ((((y20) * (z20) - 2 * ((y21) * (z21))) * (z20) - 2 * (((y20) * (z21) + (y21) * (z20)) * (z21))) * (z20) - 2 * ((((y20) * (z20) - 2 * ((y21) * (z21))) * (z21) + ((y20) * (z21) + (y21) * (z20)) * (z20)) * (z21))) * (((z10) * (z10) - 2 * ((z11) * (z11))) * (z11) + ((z10) * (z11) + (z11) * (z10)) * (z10)) + ((((y20) * (z20) - 2 * ((y21) * (z21))) * (z20) - 2 * (((y20) * (z21) + (y21) * (z20)) * (z21))) * (z21) + (((y20) * (z20) - 2 * ((y21) * (z21))) * (z21) + ((y20) * (z21) + (y21) * (z20)) * (z20)) * (z20)) * (((z10) * (z10) - 2 * ((z11) * (z11))) * (z10) - 2 * (((z10) * (z11) + (z11) * (z10)) * (z11)))
        == (y20) * ((((z10) * (z20) - 2 * ((z11) * (z21))) * ((z10) * (z20) - 2 * ((z11) * (z21))) - 2 * (((z10) * (z21) + (z11) * (z20)) * ((z10) * (z21) + (z11) * (z20)))) * ((z10) * (z21) + (z11) * (z20)) + (((z10) * (z20) - 2 * ((z11) * (z21))) * ((z10) * (z21) + (z11) * (z20)) + ((z10) * (z21) + (z11) * (z20)) * ((z10) * (z20) - 2 * ((z11) * (z21)))) * ((z10) * (z20) - 2 * ((z11) * (z21)))) + (y21) * ((((z10) * (z20) - 2 * ((z11) * (z21))) * ((z10) * (z20) - 2 * ((z11) * (z21))) - 2 * (((z10) * (z21) + (z11) * (z20)) * ((z10) * (z21) + (z11) * (z20)))) * ((z10) * (z20) - 2 * ((z11) * (z21))) - 2 * ((((z10) * (z20) - 2 * ((z11) * (z21))) * ((z10) * (z21) + (z11) * (z20)) + ((z10) * (z21) + (z11) * (z20)) * ((z10) * (z20) - 2 * ((z11) * (z21)))) * ((z10) * (z21) + (z11) * (z20))))
{ }
proof fn qr_neg3(y: F2, zi: F2)
    ensures q_mul(q_mul(q_mul(q_sub(q_c(0), y), zi), zi), zi)
        == q_sub(q_c(0), q_mul(q_mul(q_mul(y, zi), zi), zi))
{
    reveal(q_add); reveal(q_sub); reveal(q_mul); reveal(q_k); reveal(q_c);
    ring_neg3_0(y.c0, y.c1, zi.c0, zi.c1); ring_neg3_1(y.c0, y.c1, zi.c0, zi.c1);
}
#[verifier::external_body]
proof fn ring_neg3_0(y0: int, y1: int, zi0: int, zi1: int)
    ensures ((((0) - (y0)) * (zi0) - 2 * (((0) - (y1)) * (zi1))) * (zi0) - 2 * ((((0) - (y0)) * (zi1) + ((0) - (y1)) * (zi0)) * (zi1))) * (zi0) - 2 * (((((0) - (y0)) * (zi0) - 2 * (((0) - (y1)) * (zi1))) * (zi1) + (((0) - (y0)) * (zi1) + ((0) - (y1)) * (zi0)) * (zi0)) * (zi1))
        == (0) - ((((y0) * (zi0) - 2 * ((y1) * (zi1))) * (zi0) - 2 * (((y0) * (zi1) + (y1) * (zi0)) * (zi1))) * (zi0) - 2 * ((((y0) * (zi0) - 2 * ((y1) * (zi1))) * (zi1) + ((y0) * (zi1) + (y1) * (zi0)) * (zi0)) * (zi1)))
{ }
#[verifier::external_body]
proof fn ring_neg3_1(y0: int, y1: int, zi0: int, zi1: int)
    ensures ((((0) - (y0)) * (zi0) - 2 * (((0) - (y1)) * (zi1))) * (zi0) - 2 * ((((0) - (y0)) * (zi1) + ((0) - (y1)) * (zi0)) * (zi1))) * (zi1) + ((((0) - (y0)) * (zi0) - 2 * (((0) - (y1)) * (zi1))) * (zi1) + (((0) - (y0)) * (zi1) + ((0) - (y1)) * (zi0)) * (zi0)) * (zi0)
        == (0) - ((((y0) * (zi0) - 2 * ((y1) * (zi1))) * (zi0) - 2 * (((y0) * (zi1) + (y1) * (zi0)) * (zi1))) * (zi1) + (((y0) * (zi0) - 2 * ((y1) * (zi1))) * (zi1) + ((y0) * (zi1) + (y1) * (zi0)) * (zi0)) * (zi0))
{ }
proof fn qr_negsq(y: F2)
    ensures q_mul(q_sub(q_c(0), y), q_sub(q_c(0), y))
        == q_mul(y, y)
{
    reveal(q_add); reveal(q_sub); reveal(q_mul); reveal(q_k); reveal(q_c);
    ring_negsq_0(y.c0, y.c1); ring_negsq_1(y.c0, y.c1);
}
#[verifier::external_body]
proof fn ring_negsq_0(y0: int, y1: int)
    ensures ((0) - (y0)) * ((0) - (y0)) - 2 * (((0) - (y1)) * ((0) - (y1)))
        == (y0) * (y0) - 2 * ((y1) * (y1))
{ }
#[verifier::external_body]
proof fn ring_negsq_1(y0: int, y1: int)
    ensures ((0) - (y0)) * ((0) - (y1)) + ((0) - (y1)) * ((0) - (y0))
        == (y0) * (y1) + (y1) * (y0)
{ }
// affine coordinates xa = x / z^2, ya = y / z^3 give back x == xa z^2, y == ya z^3 (mod p)
proof fn cv_param(x: F2, y: F2, z: F2, zi: F2, xa: F2, ya: F2)
    requires qc(q_mul(z, zi), q_c(1)), xa == m2_mul(m2_mul(x, zi), zi), ya == m2_mul(m2_mul(m2_mul(y, zi), zi), zi)
    ensures qc(x, q_mul(q_mul(xa, z), z)), qc(y, q_mul(q_mul(q_mul(ya, z), z), z)), m2_ok(xa), m2_ok(ya)
{
    let a1 = m2_mul(x, zi); t2_cm(a1, x, zi, x, zi); t2_cm(xa, a1, zi, q_mul(x, zi), zi);
    let b1 = m2_mul(y, zi); t2_cm(b1, y, zi, y, zi); let b2 = m2_mul(b1, zi); t2_cm(b2, b1, zi, q_mul(y, zi), zi); t2_cm(ya, b2, zi, q_mul(q_mul(y, zi), zi), zi);
    t2_diff(xa, q_mul(q_mul(x, zi), zi)); t2_diff(ya, q_mul(q_mul(q_mul(y, zi), zi), zi)); t2_diff(q_mul(z, zi), q_c(1));
    qr_par2(xa, x, z, zi);
    t2_lin2(q_sub(xa, q_mul(q_mul(x, zi), zi)), q_mul(z, z), q_sub(q_mul(z, zi), q_c(1)), q_mul(x, q_add(q_mul(z, zi), q_c(1))));
    t2_diff(q_mul(q_mul(xa, z), z), x);
    qr_par3(ya, y, z, zi);
    t2_lin2(q_sub(ya, q_mul(q_mul(q_mul(y, zi), zi), zi)), q_mul(q_mul(z, z), z), q_sub(q_mul(z, zi), q_c(1)), q_mul(y, q_add(q_add(q_mul(q_mul(z, zi), q_mul(z, zi)), q_mul(z, zi)), q_c(1))));
    t2_diff(q_mul(q_mul(q_mul(ya, z), z), z), y);
}
// dividing by z^2 and z^3
proof fn cv_div2(a: F2, b: F2, z: F2, w: F2) requires qc(a, q_mul(b, q_mul(z, z))), qc(q_mul(z, w), q_c(1)) ensures qc(q_mul(q_mul(a, w), w), b)
{
    t2_diff(a, q_mul(b, q_mul(z, z))); t2_diff(q_mul(z, w), q_c(1));
    qr_div2(a, b, z, w);
    t2_lin2(q_sub(a, q_mul(b, q_mul(z, z))), q_mul(w, w), q_sub(q_mul(z, w), q_c(1)), q_mul(b, q_add(q_mul(z, w), q_c(1))));
    t2_diff(q_mul(q_mul(a, w), w), b);
}
proof fn cv_div3(a: F2, b: F2, z: F2, w: F2) requires qc(a, q_mul(b, q_mul(q_mul(z, z), z))), qc(q_mul(z, w), q_c(1)) ensures qc(q_mul(q_mul(q_mul(a, w), w), w), b)
{
    t2_diff(a, q_mul(b, q_mul(q_mul(z, z), z))); t2_diff(q_mul(z, w), q_c(1));
    qr_div3(a, b, z, w);
    t2_lin2(q_sub(a, q_mul(b, q_mul(q_mul(z, z), z))), q_mul(q_mul(w, w), w), q_sub(q_mul(z, w), q_c(1)), q_mul(b, q_add(q_add(q_mul(q_mul(z, w), q_mul(z, w)), q_mul(z, w)), q_c(1))));
    t2_diff(q_mul(q_mul(q_mul(a, w), w), w), b);
}
// lam == n / d (mod p) gives lam d == n
proof fn cv_slope(lam: F2, n: F2, d: F2, dd: F2) requires qc(lam, q_mul(n, dd)), qc(q_mul(d, dd), q_c(1)) ensures qz(q_sub(q_mul(lam, d), n))
{
    t2_diff(lam, q_mul(n, dd)); t2_diff(q_mul(d, dd), q_c(1));
    qr_slope(lam, n, d, dd);
    t2_lin2(q_sub(lam, q_mul(n, dd)), d, q_sub(q_mul(d, dd), q_c(1)), n);
}
// (x3, y3, z3) with x3 == sx zf^2, y3 == sy zf^3, z3 == zf != 0 denotes the affine point (sx, sy)
proof fn cv_affine(x3: F2, y3: F2, z3: F2, sx: F2, sy: F2, zf: F2)
    requires m2_ok(sx), m2_ok(sy), m2_ok(z3), !qz(z3), qc(z3, zf), qc(x3, q_mul(sx, q_mul(zf, zf))), qc(y3, q_mul(sy, q_mul(q_mul(zf, zf), zf)))
    ensures jac2(x3, y3, z3) == (Pt2::Aff { x: sx, y: sy })
{
    let w = m2_inv(z3);
    t2_inv(z3); t2_zero(z3);
    t2_cong_mul(z3, zf, w);
    cv_div2(x3, sx, zf, w);
    let r1 = m2_mul(x3, w); t2_cm(r1, x3, w, x3, w); let r2 = m2_mul(r1, w); t2_cm(r2, r1, w, q_mul(x3, w), w);
    t2_ok_eq(r2, sx);
    cv_div3(y3, sy, zf, w);
    let s1 = m2_mul(y3, w); t2_cm(s1, y3, w, y3, w); let s2 = m2_mul(s1, w); t2_cm(s2, s1, w, q_mul(y3, w), w);
    let s3 = m2_mul(s2, w); t2_cm(s3, s2, w, q_mul(q_mul(y3, w), w), w);
    t2_ok_eq(s3, sy);
}
// the tangent law: (x3n W^2, y3n W^3, 2 ya W) is twice the affine point (xa, ya), ya != 0, for any scale W != 0
proof fn cv_tangent(xa: F2, ya: F2, W: F2, x3: F2, y3: F2, z3: F2)
    requires m2_ok(xa), m2_ok(ya), m2_ok(x3), m2_ok(y3), m2_ok(z3), !qz(W), ya != m2_zero(),
        qc(z3, q_mul(q_add(ya, ya), W)), qc(x3, q_mul(q_sub(q_mul(q_add(q_add(q_mul(xa, xa), q_mul(xa, xa)), q_mul(xa, xa)), q_add(q_add(q_mul(xa, xa), q_mul(xa, xa)), q_mul(xa, xa))), q_add(q_mul(q_mul(q_add(ya, ya), q_add(ya, ya)), xa), q_mul(q_mul(q_add(ya, ya), q_add(ya, ya)), xa))), q_mul(W, W))), qc(y3, q_mul(q_sub(q_mul(q_add(q_add(q_mul(xa, xa), q_mul(xa, xa)), q_mul(xa, xa)), q_sub(q_mul(q_mul(q_add(ya, ya), q_add(ya, ya)), xa), q_sub(q_mul(q_add(q_add(q_mul(xa, xa), q_mul(xa, xa)), q_mul(xa, xa)), q_add(q_add(q_mul(xa, xa), q_mul(xa, xa)), q_mul(xa, xa))), q_add(q_mul(q_mul(q_add(ya, ya), q_add(ya, ya)), xa), q_mul(q_mul(q_add(ya, ya), q_add(ya, ya)), xa))))), q_k(8, q_mul(q_mul(ya, ya), q_mul(ya, ya)))), q_mul(q_mul(W, W), W)))
    ensures z3 != m2_zero(), jac2(x3, y3, z3) == g2_add(Pt2::Aff { x: xa, y: ya }, Pt2::Aff { x: xa, y: ya })
{
    t2_zero(ya); t2_dbl_z(ya);
    let y2r = m2_add(ya, ya); t2_ca(y2r, ya, ya, ya, ya); t2_zero(y2r);
    let dd = m2_inv(y2r); t2_inv(y2r); t2_cong_mul(y2r, q_add(ya, ya), dd);
    let xx = m2_mul(xa, xa); t2_cm(xx, xa, xa, xa, xa); let t1 = m2_add(xx, xx); t2_ca(t1, xx, xx, q_mul(xa, xa), q_mul(xa, xa));
    let tr = m2_add(t1, xx); t2_ca(tr, t1, xx, q_add(q_mul(xa, xa), q_mul(xa, xa)), q_mul(xa, xa));
    let lam = m2_mul(tr, dd); t2_cm(lam, tr, dd, q_add(q_add(q_mul(xa, xa), q_mul(xa, xa)), q_mul(xa, xa)), dd);
    cv_slope(lam, q_add(q_add(q_mul(xa, xa), q_mul(xa, xa)), q_mul(xa, xa)), q_add(ya, ya), dd);
    t2_nz_mul(q_add(ya, ya), W); t2_zero(z3);
    // x
    let l2 = m2_mul(lam, lam); t2_cm(l2, lam, lam, lam, lam); let sa = m2_sub(l2, xa); t2_cs(sa, l2, xa, q_mul(lam, lam), xa);
    let sx = m2_sub(sa, xa); t2_cs(sx, sa, xa, q_sub(q_mul(lam, lam), xa), xa);
    qr_tan_x(xa, ya, lam, W);
    t2_lin1(q_sub(q_mul(lam, q_add(ya, ya)), q_add(q_add(q_mul(xa, xa), q_mul(xa, xa)), q_mul(xa, xa))), q_mul(q_add(q_mul(lam, q_add(ya, ya)), q_add(q_add(q_mul(xa, xa), q_mul(xa, xa)), q_mul(xa, xa))), q_mul(W, W)));
    t2_diff(q_mul(q_sub(q_sub(q_mul(lam, lam), xa), xa), q_mul(q_mul(q_add(ya, ya), W), q_mul(q_add(ya, ya), W))), q_mul(q_sub(q_mul(q_add(q_add(q_mul(xa, xa), q_mul(xa, xa)), q_mul(xa, xa)), q_add(q_add(q_mul(xa, xa), q_mul(xa, xa)), q_mul(xa, xa))), q_add(q_mul(q_mul(q_add(ya, ya), q_add(ya, ya)), xa), q_mul(q_mul(q_add(ya, ya), q_add(ya, ya)), xa))), q_mul(W, W)));
    t2_cong_mul(sx, q_sub(q_sub(q_mul(lam, lam), xa), xa), q_mul(q_mul(q_add(ya, ya), W), q_mul(q_add(ya, ya), W)));
    // y
    let xs = m2_sub(xa, sx); t2_cs(xs, xa, sx, xa, sx); let ly = m2_mul(lam, xs); t2_cm(ly, lam, xs, lam, q_sub(xa, sx));
    let sy = m2_sub(ly, ya); t2_cs(sy, ly, ya, q_mul(lam, q_sub(xa, sx)), ya);
    t2_diff(q_mul(sx, q_mul(q_mul(q_add(ya, ya), W), q_mul(q_add(ya, ya), W))), q_mul(q_sub(q_mul(q_add(q_add(q_mul(xa, xa), q_mul(xa, xa)), q_mul(xa, xa)), q_add(q_add(q_mul(xa, xa), q_mul(xa, xa)), q_mul(xa, xa))), q_add(q_mul(q_mul(q_add(ya, ya), q_add(ya, ya)), xa), q_mul(q_mul(q_add(ya, ya), q_add(ya, ya)), xa))), q_mul(W, W)));
    qr_tan_y(xa, ya, lam, sx, W);
    t2_lin2(q_sub(q_mul(lam, q_add(ya, ya)), q_add(q_add(q_mul(xa, xa), q_mul(xa, xa)), q_mul(xa, xa))), q_mul(q_mul(q_mul(W, W), W), q_sub(q_mul(q_mul(q_add(ya, ya), q_add(ya, ya)), xa), q_sub(q_mul(q_add(q_add(q_mul(xa, xa), q_mul(xa, xa)), q_mul(xa, xa)), q_add(q_add(q_mul(xa, xa), q_mul(xa, xa)), q_mul(xa, xa))), q_add(q_mul(q_mul(q_add(ya, ya), q_add(ya, ya)), xa), q_mul(q_mul(q_add(ya, ya), q_add(ya, ya)), xa))))), q_sub(q_mul(sx, q_mul(q_mul(q_add(ya, ya), W), q_mul(q_add(ya, ya), W))), q_mul(q_sub(q_mul(q_add(q_add(q_mul(xa, xa), q_mul(xa, xa)), q_mul(xa, xa)), q_add(q_add(q_mul(xa, xa), q_mul(xa, xa)), q_mul(xa, xa))), q_add(q_mul(q_mul(q_add(ya, ya), q_add(ya, ya)), xa), q_mul(q_mul(q_add(ya, ya), q_add(ya, ya)), xa))), q_mul(W, W))), q_mul(lam, q_mul(q_add(ya, ya), W)));
    t2_diff(q_mul(q_sub(q_mul(lam, q_sub(xa, sx)), ya), q_mul(q_mul(q_mul(q_add(ya, ya), W), q_mul(q_add(ya, ya), W)), q_mul(q_add(ya, ya), W))), q_mul(q_sub(q_mul(q_add(q_add(q_mul(xa, xa), q_mul(xa, xa)), q_mul(xa, xa)), q_sub(q_mul(q_mul(q_add(ya, ya), q_add(ya, ya)), xa), q_sub(q_mul(q_add(q_add(q_mul(xa, xa), q_mul(xa, xa)), q_mul(xa, xa)), q_add(q_add(q_mul(xa, xa), q_mul(xa, xa)), q_mul(xa, xa))), q_add(q_mul(q_mul(q_add(ya, ya), q_add(ya, ya)), xa), q_mul(q_mul(q_add(ya, ya), q_add(ya, ya)), xa))))), q_k(8, q_mul(q_mul(ya, ya), q_mul(ya, ya)))), q_mul(q_mul(W, W), W)));
    t2_cong_mul(sy, q_sub(q_mul(lam, q_sub(xa, sx)), ya), q_mul(q_mul(q_mul(q_add(ya, ya), W), q_mul(q_add(ya, ya), W)), q_mul(q_add(ya, ya), W)));
    cv_affine(x3, y3, z3, sx, sy, q_mul(q_add(ya, ya), W));
}
// the chord law: (x3n W^2, y3n W^3, (x2 - x1) W) is the sum of the affine points (x1, y1), (x2, y2), x1 != x2, for any scale W != 0
proof fn cv_chord(x1: F2, y1: F2, x2: F2, y2: F2, W: F2, x3: F2, y3: F2, z3: F2)
    requires m2_ok(x1), m2_ok(y1), m2_ok(x2), m2_ok(y2), m2_ok(x3), m2_ok(y3), m2_ok(z3), !qz(W), x1 != x2,
        qc(z3, q_mul(q_sub(x2, x1), W)), qc(x3, q_mul(q_sub(q_mul(q_sub(y2, y1), q_sub(y2, y1)), q_mul(q_add(x1, x2), q_mul(q_sub(x2, x1), q_sub(x2, x1)))), q_mul(W, W))), qc(y3, q_mul(q_sub(q_mul(q_sub(y2, y1), q_sub(q_mul(x1, q_mul(q_sub(x2, x1), q_sub(x2, x1))), q_sub(q_mul(q_sub(y2, y1), q_sub(y2, y1)), q_mul(q_add(x1, x2), q_mul(q_sub(x2, x1), q_sub(x2, x1)))))), q_mul(y1, q_mul(q_mul(q_sub(x2, x1), q_sub(x2, x1)), q_sub(x2, x1)))), q_mul(q_mul(W, W), W)))
    ensures z3 != m2_zero(), jac2(x3, y3, z3) == g2_add(Pt2::Aff { x: x1, y: y1 }, Pt2::Aff { x: x2, y: y2 })
{
    let dxr = m2_sub(x2, x1); t2_cs(dxr, x2, x1, x2, x1); t2_diff(x2, x1);
    if qc(x2, x1) { t2_ok_eq(x2, x1); }
    let dyr = m2_sub(y2, y1); t2_cs(dyr, y2, y1, y2, y1);
    let dd = m2_inv(dxr); t2_inv(dxr); t2_cong_mul(dxr, q_sub(x2, x1), dd);
    let lam = m2_mul(dyr, dd); t2_cm(lam, dyr, dd, q_sub(y2, y1), dd);
    cv_slope(lam, q_sub(y2, y1), q_sub(x2, x1), dd);
    t2_nz_mul(q_sub(x2, x1), W); t2_zero(z3);
    // x
    let l2 = m2_mul(lam, lam); t2_cm(l2, lam, lam, lam, lam); let sa = m2_sub(l2, x1); t2_cs(sa, l2, x1, q_mul(lam, lam), x1);
    let sx = m2_sub(sa, x2); t2_cs(sx, sa, x2, q_sub(q_mul(lam, lam), x1), x2);
    qr_chord_x(x1, y1, x2, y2, lam, W);
    t2_lin1(q_sub(q_mul(lam, q_sub(x2, x1)), q_sub(y2, y1)), q_mul(q_add(q_mul(lam, q_sub(x2, x1)), q_sub(y2, y1)), q_mul(W, W)));
    t2_diff(q_mul(q_sub(q_sub(q_mul(lam, lam), x1), x2), q_mul(q_mul(q_sub(x2, x1), W), q_mul(q_sub(x2, x1), W))), q_mul(q_sub(q_mul(q_sub(y2, y1), q_sub(y2, y1)), q_mul(q_add(x1, x2), q_mul(q_sub(x2, x1), q_sub(x2, x1)))), q_mul(W, W)));
    t2_cong_mul(sx, q_sub(q_sub(q_mul(lam, lam), x1), x2), q_mul(q_mul(q_sub(x2, x1), W), q_mul(q_sub(x2, x1), W)));
    // y
    let xs = m2_sub(x1, sx); t2_cs(xs, x1, sx, x1, sx); let ly = m2_mul(lam, xs); t2_cm(ly, lam, xs, lam, q_sub(x1, sx));
    let sy = m2_sub(ly, y1); t2_cs(sy, ly, y1, q_mul(lam, q_sub(x1, sx)), y1);
    t2_diff(q_mul(sx, q_mul(q_mul(q_sub(x2, x1), W), q_mul(q_sub(x2, x1), W))), q_mul(q_sub(q_mul(q_sub(y2, y1), q_sub(y2, y1)), q_mul(q_add(x1, x2), q_mul(q_sub(x2, x1), q_sub(x2, x1)))), q_mul(W, W)));
    qr_chord_y(x1, y1, x2, y2, lam, sx, W);
    t2_lin2(q_sub(q_mul(lam, q_sub(x2, x1)), q_sub(y2, y1)), q_mul(q_mul(q_mul(W, W), W), q_sub(q_mul(x1, q_mul(q_sub(x2, x1), q_sub(x2, x1))), q_sub(q_mul(q_sub(y2, y1), q_sub(y2, y1)), q_mul(q_add(x1, x2), q_mul(q_sub(x2, x1), q_sub(x2, x1)))))), q_sub(q_mul(sx, q_mul(q_mul(q_sub(x2, x1), W), q_mul(q_sub(x2, x1), W))), q_mul(q_sub(q_mul(q_sub(y2, y1), q_sub(y2, y1)), q_mul(q_add(x1, x2), q_mul(q_sub(x2, x1), q_sub(x2, x1)))), q_mul(W, W))), q_mul(lam, q_mul(q_sub(x2, x1), W)));
    t2_diff(q_mul(q_sub(q_mul(lam, q_sub(x1, sx)), y1), q_mul(q_mul(q_mul(q_sub(x2, x1), W), q_mul(q_sub(x2, x1), W)), q_mul(q_sub(x2, x1), W))), q_mul(q_sub(q_mul(q_sub(y2, y1), q_sub(q_mul(x1, q_mul(q_sub(x2, x1), q_sub(x2, x1))), q_sub(q_mul(q_sub(y2, y1), q_sub(y2, y1)), q_mul(q_add(x1, x2), q_mul(q_sub(x2, x1), q_sub(x2, x1)))))), q_mul(y1, q_mul(q_mul(q_sub(x2, x1), q_sub(x2, x1)), q_sub(x2, x1)))), q_mul(q_mul(W, W), W)));
    t2_cong_mul(sy, q_sub(q_mul(lam, q_sub(x1, sx)), y1), q_mul(q_mul(q_mul(q_sub(x2, x1), W), q_mul(q_sub(x2, x1), W)), q_mul(q_sub(x2, x1), W)));
    cv_affine(x3, y3, z3, sx, sy, q_mul(q_sub(x2, x1), W));
}
// END GENERATED
