//@unit sm2_ecc
//@serves C11
//@source gm-sm2/src/p256_ecc.rs
//@include-spec sm2_math
//@section spec
use core::fmt::Debug;
// well-formed coordinates / representation invariant / abstraction of a Jacobian point in Montgomery form
spec fn wf(p: Point) -> bool { canon(p.x@) && canon(p.y@) && canon(p.z@) }
spec fn coords_le_p(p: Point) -> bool { val4(p.x@) < P() && val4(p.y@) <= P() && val4(p.z@) < P() }
spec fn abs(p: Point) -> Pt { abs_pt(p.x@, p.y@, p.z@) }
spec fn valid(p: Point) -> bool { wf(p) && on_curve(abs(p)) }
spec fn d13_case(a: Point, b: Point) -> bool { abs(a) == abs(b) && abs(a) != Pt::Inf && !(a.x@ == b.x@ && a.y@ == b.y@ && a.z@ == b.z@) }
// SEC1 / GB/T 32918.1 4.2.9 point encodings
pub open spec fn sec1(q: Pt, compress: bool) -> Seq<u8> {
    match q {
        Pt::Inf => Seq::empty(),
        Pt::Aff { x, y } => if compress { seq![if y % 2 == 0 { 2u8 } else { 3u8 }] + be_bytes(x, 32) } else { seq![4u8] + be_bytes(x, 32) + be_bytes(y, 32) },
    }
}
// what a successful decode of `b` guarantees about the decoded point q
pub open spec fn sec1_decodes(b: Seq<u8>, q: Pt) -> bool {
    match q {
        Pt::Inf => false,
        Pt::Aff { x, y } =>
            if b.len() == 33 { (b[0] == 2 || b[0] == 3) && x == be_val(b.subrange(1, 33)) && y % 2 == (b[0] as int - 2) && on_curve(q) }
            else { b.len() == 65 && b[0] != 2 && b[0] != 3 && x == be_val(b.subrange(1, 33)) && y == be_val(b.subrange(33, 65)) },
    }
}
//@section code gm-sm2/src/u256.rs
type U256 = [u64; 4];
const SM2_ZERO: U256 = [0, 0, 0, 0];
//@stub sm2_limbs u256_from_be_bytes
//@stub sm2_limbs u256_to_be_bytes
//@stub-trait sm2_fp FieldModOperation
//@stub sm2_fp fp_sqrt
//@stub sm2_fp fp_from_mont
//@stub sm2_fp fp_to_mont
//@section code gm-sm2/src/fields/fp64.rs
const SM2_P: U256 = [
    0xffffffffffffffff,
    0xffffffff00000000,
    0xffffffffffffffff,
    0xfffffffeffffffff,
];
const SM2_MODP_MONT_ONE: U256 = [1, 0xffffffff, 0, 0x100000000];
const SM2_SQRT_EXP: U256 = [
    0x4000000000000000,
    0xffffffffc0000000,
    0xffffffffffffffff,
    0x3fffffffbfffffff,
];
const SM2_MODP_MONT_B: U256 = [
    0x90d230632bc0dd42,
    0x71cf379ae9b537ab,
    0x527981505ea51c3c,
    0x240fe188ba20e2c8,
];
const SM2_MODP_MONT_A: U256 = [
    0xfffffffffffffffc,
    0xfffffffc00000003,
    0xffffffffffffffff,
    0xfffffffbffffffff,
];
//@section code gm-sm2/src/error.rs
type Sm2Result<T> = Result<T, Sm2Error>;
#[derive(PartialEq)]
enum Sm2Error {
    NotOnCurve,
    FieldSqrtError,
    InvalidDer,
    InvalidPublic,
    InvalidPrivate,
    ZeroDivisor,
    ZeroPoint,
    InvalidPoint,
    CheckPointErr,
    ZeroData,
    HashNotEqual,
    IdTooLong,
    ZeroFiled,
    InvalidFieldLen,
    ZeroSig,
    InvalidDigestLen,
    InvalidDigest,
    InvalidSecretKey,
    KdfHashError,
}
//@extract gm-sm2/src/sm2p256_table.rs SM2P256_PRECOMPUTED
//@section code gm-sm2/src/p256_ecc.rs
#[derive(Debug, Clone, Eq, PartialEq, Copy)]
struct Point {
    x: U256,
    y: U256,
    z: U256,
}

impl Point {
    fn zero() -> (r: Point)
        ensures wf(r), val4(r.z@) == 0, abs(r) == Pt::Inf
    {
        Point {
            x: SM2_MODP_MONT_ONE,
            y: SM2_MODP_MONT_ONE,
            z: SM2_ZERO,
        }
    }

    fn is_zero(&self) -> (r: bool)
        ensures r == (val4(self.z@) == 0)
    {
        self.z == [0; 4]
    }

    #[verifier::external_body]
    fn is_valid(&self) -> (r: bool)
        requires wf(*self)
        ensures r == on_curve(abs(*self))
    {
        if self.is_zero() {
            true
        } else {
            // y^2 = x * (x^2 + a * z^4) + b * z^6
            let yy = self.y.fp_sqr();
            let xx = self.x.fp_sqr();
            let z2 = self.z.fp_sqr();
            let z4 = z2.fp_sqr();
            let z6 = z4.fp_mul(&z2);
            let z6_b = z6.fp_mul(&SM2_MODP_MONT_B);
            let a_z4 = z4.fp_mul(&SM2_MODP_MONT_A);

            let xx_a_4z = xx.fp_add(&a_z4);
            let xxx_a_4z = xx_a_4z.fp_mul(&self.x);
            let exp = xxx_a_4z.fp_add(&z6_b);
            yy.eq(&exp)
        }
    }

    #[verifier::external_body]
    fn is_valid_affine_point(&self) -> (r: bool)
        requires wf(*self)
        ensures r == on_curve(Pt::Aff { x: fe(self.x@), y: fe(self.y@) })
    {
        // y^2 = x * (x^2 + a) + b
        let yy = self.y.fp_sqr();
        let xx = self.x.fp_sqr();
        let xx_a = xx.fp_add(&SM2_MODP_MONT_A);
        let xxx_a = self.x.fp_mul(&xx_a);
        let exp = xxx_a.fp_add(&SM2_MODP_MONT_B);
        yy.eq(&exp)
    }

    #[verifier::external_body]
    fn to_affine_point(&self) -> (r: Point)
        requires wf(*self)
        ensures wf(r), fe(r.z@) == 1, val4(self.z@) != 0 ==> abs(r) == abs(*self),
            val4(self.z@) != 0 ==> abs(*self) == (Pt::Aff { x: fe(r.x@), y: fe(r.y@) }),
            val4(self.z@) == 0 ==> fe(r.x@) == 0 && fe(r.y@) == 0
    {
        let z_inv = self.z.fp_inv();
        let z_inv2 = z_inv.fp_sqr();
        let z_inv3 = z_inv2.fp_mul(&z_inv);
        let x = self.x.fp_mul(&z_inv2);
        let y = self.y.fp_mul(&z_inv3);
        Point {
            x,
            y,
            z: SM2_MODP_MONT_ONE,
        }
    }

    #[verifier::external_body]
    fn to_byte_be(&self, compress: bool) -> (ret: Vec<u8>)
        requires wf(*self), val4(self.z@) != 0
        ensures ret@ == sec1(abs(*self), compress)
    {
        let p_affine = self.to_affine_point();
        let mut x_vec = fp_from_mont(&p_affine.x).to_byte_be();
        let mut y_vec = fp_from_mont(&p_affine.y).to_byte_be();
        let mut ret: Vec<u8> = Vec::new();
        if compress {
            if y_vec[y_vec.len() - 1] & 0x01 == 0 {
                ret.push(0x02);
            } else {
                ret.push(0x03);
            }
            ret.append(&mut x_vec);
        } else {
            ret.push(0x04);
            ret.append(&mut x_vec);
            ret.append(&mut y_vec);
        }
        ret
    }

    #[verifier::external_body]
    fn from_byte(b: &[u8]) -> (res: Sm2Result<Point>)
        ensures res is Ok ==> wf(res->Ok_0) && fe(res->Ok_0.z@) == 1 && sec1_decodes(b@, abs(res->Ok_0)),
            (b@.len() != 33 && b@.len() != 65) ==> res is Err
    {
        if b.is_empty() {
            return Err(Sm2Error::InvalidPublic);
        }
        let flag = b[0];
        // Compressed Point
        if flag == 0x02 || flag == 0x03 {
            if b.len() != 33 {
                return Err(Sm2Error::InvalidPublic);
            }
            let y_q;
            if b[0] == 0x02 {
                y_q = 0;
            } else {
                y_q = 1
            }
            let x = fp_to_mont(&U256::from_byte_be(&b[1..]));
            let xxx = x.fp_mul(&x).fp_mul(&x);
            let ax = x.fp_mul(&SM2_MODP_MONT_A);
            let yy = xxx
                .fp_add(&ax)
                .fp_add(&SM2_MODP_MONT_B);

            let mut y = fp_sqrt(&yy)?;
            let y_vec = fp_from_mont(&y).to_byte_be();
            if y_vec[y_vec.len() - 1] & 0x01 != y_q {
                y = SM2_P.fp_sub(&y);
            }
            Ok(Point {
                x,
                y,
                z: SM2_MODP_MONT_ONE,
            })
        }
        // uncompressed Point
        else {
            if b.len() != 65 {
                return Err(Sm2Error::InvalidPublic);
            }
            let x = fp_to_mont(&u256_from_be_bytes(&b[1..33]));
            let y = fp_to_mont(&u256_from_be_bytes(&b[33..65]));
            Ok(Point {
                x,
                y,
                z: SM2_MODP_MONT_ONE,
            })
        }
    }

    fn neg(&self) -> (r: Point)
        requires wf(*self)
        ensures coords_le_p(r), abs(r) == g_neg(abs(*self))
    {
        Point {
            x: self.x.clone(),
            y: SM2_P.fp_sub(&self.y),
            z: self.z.clone(),
        }
    }

    #[verifier::external_body]
    fn point_add(&self, p: &Point) -> (r: Point)
        requires valid(*self), valid(*p)
        ensures wf(r),
            !d13_case(*self, *p) ==> valid(r) && abs(r) == g_add(abs(*self), abs(*p)),
            // known finding D13: the same point in two different Jacobian representations is not recognised as a doubling;
            // the generic formulas then return (0, 0, 0), i.e. "infinity", instead of 2P
            d13_case(*self, *p) ==> val4(r.z@) == 0
    {
        // 0 + p2 = p2
        if self.is_zero() {
            return p.clone();
        }
        // p1 + 0 = p1
        if p.is_zero() {
            return self.clone();
        }

        let x1 = self.x;
        let y1 = self.y;
        let z1 = self.z;

        let x2 = p.x;
        let y2 = p.y;
        let z2 = p.z;

        // p1 = p2
        if x1 == x2 && y1 == y2 && z1 == z2 {
            return self.point_dbl();
        } else {
            let z1_sqr = z1.fp_sqr();
            let z2_sqr = z2.fp_sqr();
            let u1 = x1.fp_mul(&z2_sqr);
            let u2 = x2.fp_mul(&z1_sqr);
            let y1_z2 = y1.fp_mul(&z2);
            let s1 = y1_z2.fp_mul(&z2_sqr);
            let y2_z1 = y2.fp_mul(&z1);
            let s2 = y2_z1.fp_mul(&z1_sqr);
            let h = u2.fp_sub(&u1);
            let r = s2.fp_sub(&s1);
            let hh = h.fp_sqr();
            let hhh = hh.fp_mul(&h);
            let v = u1.fp_mul(&hh);
            let r_sqr = r.fp_sqr();
            let r_sqr_hhh = r_sqr.fp_sub(&hhh);
            let x3 = r_sqr_hhh.fp_sub(&v.fp_double());
            let v_x3 = v.fp_sub(&x3);
            let r_v_x3 = r.fp_mul(&v_x3);
            let s1_hhh = s1.fp_mul(&hhh);
            let y3 = r_v_x3.fp_sub(&s1_hhh);
            let z3 = z1.fp_mul(&z2).fp_mul(&h);
            Point {
                x: x3,
                y: y3,
                z: z3,
            }
        }
    }

    // P = [k]G
    #[verifier::external_body]
    fn scalar_mul(&self, scalar: &[u64]) -> (r: Point)
        requires valid(*self), scalar@.len() == 4,
            val4(scalar@) < N()   // carve-out for known finding D13 (scalars >= n can hit the equal-point case)
        ensures valid(r), abs(r) == g_smul(val4(scalar@), abs(*self))
    {
        let mut pre_table = vec![];
        for _ in 0..16 {
            pre_table.push(Point::zero());
        }

        let mut r = Point::zero();
        pre_table[1 - 1] = *self;
        pre_table[2 - 1] = pre_table[1 - 1].point_dbl();
        pre_table[4 - 1] = pre_table[2 - 1].point_dbl();
        pre_table[8 - 1] = pre_table[4 - 1].point_dbl();
        pre_table[3 - 1] = pre_table[1 - 1].point_add(&pre_table[2 - 1]);
        pre_table[6 - 1] = pre_table[3 - 1].point_dbl();
        pre_table[7 - 1] = pre_table[1 - 1].point_add(&pre_table[6 - 1]);
        pre_table[12 - 1] = pre_table[6 - 1].point_dbl();
        pre_table[5 - 1] = pre_table[1 - 1].point_add(&pre_table[4 - 1]);
        pre_table[10 - 1] = pre_table[5 - 1].point_dbl();
        pre_table[14 - 1] = pre_table[7 - 1].point_dbl();
        pre_table[9 - 1] = pre_table[1 - 1].point_add(&pre_table[8 - 1]);
        pre_table[11 - 1] = pre_table[1 - 1].point_add(&pre_table[10 - 1]);
        pre_table[13 - 1] = pre_table[1 - 1].point_add(&pre_table[12 - 1]);
        pre_table[15 - 1] = pre_table[1 - 1].point_add(&pre_table[14 - 1]);

        for i in 0..scalar.len() {
            for j in 0..(64 / 4) {
                let index = scalar[4 - 1 - i] >> ((64 / 4 - 1 - j) * 4);
                if index & 0x0f != 0 {
                    r = pre_table[((index - 1) & 0x0f) as usize].point_add(&r)
                }

                if i + 1 == scalar.len() && j + 1 == 64 / 4 {
                    break;
                }
                r = r.point_dbl();
                r = r.point_dbl();
                r = r.point_dbl();
                r = r.point_dbl();
            }
        }
        r
    }

    #[verifier::external_body]
    fn point_dbl(&self) -> (r: Point)
        requires valid(*self)
        ensures valid(r), abs(r) == g_add(abs(*self), abs(*self))
    {
        let x1 = self.x;
        let y1 = self.y;
        let z1 = self.z;

        let z1_sqr = z1.fp_sqr(); // z1^2
        let y1_sqr = y1.fp_sqr(); // y1^2
        let alpha_m3 = x1.fp_sub(&z1_sqr).fp_mul(&x1.fp_add(&z1_sqr)).fp_triple(); // 3(x1-delta)*(x1+delta)
        let lam6_m4 = x1.fp_mul(&y1_sqr).fp_double().fp_double(); // 4(x1*(y1^2))
        let x3 = alpha_m3.fp_sqr().fp_sub(&lam6_m4.fp_double()); // x3=alpha^2 - 8(x1*(y1^2))

        let u1 = alpha_m3.fp_mul(&lam6_m4.fp_sub(&x3)); // alpha * (4(x1*(y1^2)) - x3)
        let u2 = y1_sqr.fp_sqr().fp_double().fp_double().fp_double(); // 8y1^4
        let y3 = u1.fp_sub(&u2);

        let y1_z1 = y1.fp_add(&z1);
        let z3 = y1_z1.fp_sqr().fp_sub(&y1_sqr).fp_sub(&z1_sqr);

        Point {
            x: x3,
            y: y3,
            z: z3,
        }
    }
}

#[verifier::external_body]
    fn g_mul(g: &U256) -> (r: Point)
    requires val4(g@) < N()   // carve-out for known finding D13
    ensures valid(r), abs(r) == g_smul(val4(g@), G())
    {
    let mut r = Point::zero();
    let num = 8;
    for (index, scalar_word) in g.iter().enumerate() {
        for m in 0..num {
            let raw_index = ((scalar_word >> (8 * m)) & 0xff) as usize;
            if raw_index != 0 {
                let a = to_jacobi(
                    &SM2P256_PRECOMPUTED[num * index + m][raw_index * 2 - 2],
                    &SM2P256_PRECOMPUTED[num * index + m][raw_index * 2 - 1],
                );
                r = r.point_add(&a);
            }
        }
    }
    r
}

    fn to_jacobi(x: &U256, y: &U256) -> (r: Point)
    requires canon(x@), canon(y@)
    ensures wf(r), r.x@ == x@, r.y@ == y@, fe(r.z@) == 1
    {
    let mut r = Point::zero();
    r.x.copy_from_slice(x);
    r.y.copy_from_slice(y);
    r.z.copy_from_slice(&SM2_MODP_MONT_ONE);
    r
}

