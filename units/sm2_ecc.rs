//@unit sm2_ecc
//@serves C03 C04 C05 C06 C11 C15 C19 C20
//@source gm-sm2/src/p256_ecc.rs
//@tables sm2
//@lean sm2_point_dbl sm2_point_add sm2_is_valid sm2_is_valid_affine sm2_to_affine
//@assume Point::point_add / point_dbl are verified by Verus against their complete group-law contracts (point_add: `abs(r) == g_add(abs(self), abs(p))` for every pair of valid points - the same point in any two Jacobian representations, opposite points, infinity on either side - with no excluded case; scalar_mul / g_mul for every 256-bit scalar, including 0, n and values above n); the 18 `ring_*` lemmas they rest on (integer-polynomial identities, external_body in Verus) are discharged on every run by Lean `ring` (vf/ringcheck.py; any other shape is refused); what stays assumed about the group is ax_group_closed / ax_inv_p and the associativity/order axioms of sm2_math
//@assume rewrite: `for (i, x) in a.iter().enumerate()` over an array is the indexed loop `for i in 0..a.len() { let x = &a[i]; ...` (declared textual rewrite)
//@assume ax_sm2_table: every entry of SM2P256_PRECOMPUTED is the Montgomery form of the affine point [j*256^i]G - discharged on every run by exhaustive ground evaluation (tools/check_tables.py), not by Verus
//@rewrite-text for (index, scalar_word) in g.iter().enumerate() { ==> for index in 0..g.len() { let scalar_word = &g[index];
//@rewrite-text (scalar_word >> (8 * m)) ==> (*scalar_word >> (8 * m))
//@include-spec sm2_math
//@section spec
use core::fmt::Debug;
// well-formed coordinates / representation invariant / abstraction of a Jacobian point in Montgomery form
spec fn wf(p: Point) -> bool { canon(p.x@) && canon(p.y@) && canon(p.z@) }
spec fn coords_le_p(p: Point) -> bool { val4(p.x@) < P() && val4(p.y@) <= P() && val4(p.z@) < P() }
spec fn abs(p: Point) -> Pt { abs_pt(p.x@, p.y@, p.z@) }
spec fn valid(p: Point) -> bool { wf(p) && on_curve(abs(p)) }
// SEC1 / GB/T 32918.1 4.2.9 point encodings
pub open spec fn sec1(q: Pt, compress: bool) -> Seq<u8> {
    match q {
        Pt::Inf => Seq::empty(),
        Pt::Aff { x, y } => if compress { seq![if y % 2 == 0 { 2u8 } else { 3u8 }] + be_bytes(x, 32) } else { seq![4u8] + be_bytes(x, 32) + be_bytes(y, 32) },
    }
}
// what a successful decode of `b` guarantees about the decoded point q
pub open spec fn sec1_decodes(b: Seq<u8>, q: Pt) -> bool {
    match q {
        Pt::Inf => false,
        Pt::Aff { x, y } =>
            if b.len() == 33 { (b[0] == 2 || b[0] == 3) && x == be_val(b.subrange(1, 33)) && y % 2 == (b[0] as int - 2) && on_curve(q) }
            else { b.len() == 65 && b[0] == 4 && x == be_val(b.subrange(1, 33)) && y == be_val(b.subrange(33, 65)) },
    }
}
// the byte strings a complete decoder accepts: the encodings (in the sense of sec1_decodes) of affine curve points
pub open spec fn sec1_decodable(b: Seq<u8>) -> bool { exists|q: Pt| #[trigger] sec1_decodes(b, q) && on_curve(q) }
//@section code gm-sm2/src/u256.rs
type U256 = [u64; 4];
const SM2_ZERO: U256 = [0, 0, 0, 0];
//@stub sm2_limbs u256_from_be_bytes
//@stub sm2_limbs u256_to_be_bytes
//@stub sm2_limbs u256_cmp
//@stub-trait sm2_fp FieldModOperation
//@stub sm2_fp fp_sqrt
//@stub sm2_fp fp_from_mont
//@stub sm2_fp fp_to_mont
//@section code gm-sm2/src/fields/fp64.rs
const SM2_P: U256 = [
    0xffffffffffffffff,
    0xffffffff00000000,
    0xffffffffffffffff,
    0xfffffffeffffffff,
];
const SM2_MODP_MONT_ONE: U256 = [1, 0xffffffff, 0, 0x100000000];
const SM2_SQRT_EXP: U256 = [
    0x4000000000000000,
    0xffffffffc0000000,
    0xffffffffffffffff,
    0x3fffffffbfffffff,
];
const SM2_MODP_MONT_B: U256 = [
    0x90d230632bc0dd42,
    0x71cf379ae9b537ab,
    0x527981505ea51c3c,
    0x240fe188ba20e2c8,
];
const SM2_MODP_MONT_A: U256 = [
    0xfffffffffffffffc,
    0xfffffffc00000003,
    0xffffffffffffffff,
    0xfffffffbffffffff,
];
//@section code gm-sm2/src/error.rs
type Sm2Result<T> = Result<T, Sm2Error>;
#[derive(PartialEq)]
enum Sm2Error {
    NotOnCurve,
    FieldSqrtError,
    InvalidDer,
    InvalidPublic,
    InvalidPrivate,
    ZeroDivisor,
    ZeroPoint,
    InvalidPoint,
    CheckPointErr,
    ZeroData,
    HashNotEqual,
    IdTooLong,
    ZeroFiled,
    InvalidFieldLen,
    ZeroSig,
    InvalidDigestLen,
    InvalidDigest,
    InvalidSecretKey,
    KdfHashError,
}
//@extract gm-sm2/src/sm2p256_table.rs SM2P256_PRECOMPUTED external_body
//@section code gm-sm2/src/p256_ecc.rs
#[derive(Debug, Clone, Eq, PartialEq, Copy)]
struct Point {
    x: U256,
    y: U256,
    z: U256,
}

impl Point {
    fn zero() -> (r: Point)
        ensures wf(r), val4(r.z@) == 0, abs(r) == Pt::Inf
    {
        Point {
            x: SM2_MODP_MONT_ONE,
            y: SM2_MODP_MONT_ONE,
            z: SM2_ZERO,
        }
    }

    fn is_zero(&self) -> (r: bool)
        ensures r == (val4(self.z@) == 0)
    {
        self.z == [0; 4]
    }

    fn is_valid(&self) -> (r: bool)
        requires wf(*self)
        ensures r == on_curve(abs(*self))
    {
        if self.is_zero() {
            true
        } else {
            // y^2 = x * (x^2 + a * z^4) + b * z^6
            let yy = self.y.fp_sqr();
            let xx = self.x.fp_sqr();
            let z2 = self.z.fp_sqr();
            let z4 = z2.fp_sqr();
            let z6 = z4.fp_mul(&z2);
            let z6_b = z6.fp_mul(&SM2_MODP_MONT_B);
            let a_z4 = z4.fp_mul(&SM2_MODP_MONT_A);

            let xx_a_4z = xx.fp_add(&a_z4);
            let xxx_a_4z = xx_a_4z.fp_mul(&self.x);
            let exp = xxx_a_4z.fp_add(&z6_b);
            proof {
                ecc_consts();
                let (x, y, z) = (fe(self.x@), fe(self.y@), fe(self.z@));
                ecc_fe_range(self.x@); ecc_fe_range(self.y@); ecc_fe_range(self.z@);
                ecc_fe_zero(self.z@);
                ecc_small(z);
                ax_inv_p(z);
                let zi = inv_p(z);
                ecc_jac_rhs(x, z, CA(), CB(), fe(xx@), fe(z2@), fe(z4@), fe(z6@), fe(z6_b@), fe(a_z4@), fe(xx_a_4z@), fe(xxx_a_4z@), fe(exp@));
                ecc_jac_equiv(x, y, z, zi, CA(), CB());
                ecc_range(x * zi * zi); ecc_range(y * zi * zi * zi);
                if fe(yy@) == fe(exp@) { ecc_fe_inj(yy@, exp@); }
            }
            yy.eq(&exp)
        }
    }

    fn is_valid_affine_point(&self) -> (r: bool)
        requires wf(*self)
        ensures r == on_curve(Pt::Aff { x: fe(self.x@), y: fe(self.y@) })
    {
        // y^2 = x * (x^2 + a) + b
        let yy = self.y.fp_sqr();
        let xx = self.x.fp_sqr();
        let xx_a = xx.fp_add(&SM2_MODP_MONT_A);
        let xxx_a = self.x.fp_mul(&xx_a);
        let exp = xxx_a.fp_add(&SM2_MODP_MONT_B);
        proof {
            ecc_consts();
            ecc_affine_rhs(fe(self.x@), fe(xx@), fe(xx_a@), fe(xxx_a@), fe(exp@));
            ecc_fe_range(self.x@); ecc_fe_range(self.y@);
            if fe(yy@) == fe(exp@) { ecc_fe_inj(yy@, exp@); }
        }
        yy.eq(&exp)
    }

    fn to_affine_point(&self) -> (r: Point)
        requires wf(*self)
        ensures wf(r), fe(r.z@) == 1, val4(self.z@) != 0 ==> abs(r) == abs(*self),
            val4(self.z@) != 0 ==> abs(*self) == (Pt::Aff { x: fe(r.x@), y: fe(r.y@) }),
            val4(self.z@) == 0 ==> fe(r.x@) == 0 && fe(r.y@) == 0
    {
        let z_inv = self.z.fp_inv();
        let z_inv2 = z_inv.fp_sqr();
        let z_inv3 = z_inv2.fp_mul(&z_inv);
        let x = self.x.fp_mul(&z_inv2);
        let y = self.y.fp_mul(&z_inv3);
        proof {
            ecc_consts();
            let zi = inv_p(fe(self.z@));
            ecc_affine_xy(fe(self.x@), fe(self.y@), zi, fe(z_inv2@), fe(z_inv3@), fe(x@), fe(y@));
            ecc_abs_z1(x@, y@, SM2_MODP_MONT_ONE@);
            if val4(self.z@) == 0 {
                ecc_fe_zero(self.z@);
                ecc_inv_zero();
                assert(fe(self.x@) * 0 * 0 == 0 && fe(self.y@) * 0 * 0 * 0 == 0);
                ecc_small(0);
            }
        }
        Point {
            x,
            y,
            z: SM2_MODP_MONT_ONE,
        }
    }

    fn to_byte_be(&self, compress: bool) -> (ret: Vec<u8>)
        requires wf(*self), val4(self.z@) != 0
        ensures ret@ == sec1(abs(*self), compress)
    {
        let p_affine = self.to_affine_point();
        let mut x_vec = fp_from_mont(&p_affine.x).to_byte_be();
        let mut y_vec = fp_from_mont(&p_affine.y).to_byte_be();
        let mut ret: Vec<u8> = Vec::new();
        let ghost xs = x_vec@;
        let ghost ys = y_vec@;
        proof {
            ecc_fe_range(p_affine.x@); ecc_fe_range(p_affine.y@);
            lemma_be_bytes_len(fe(p_affine.x@), 32); lemma_be_bytes_len(fe(p_affine.y@), 32);
            ecc_be_last(fe(p_affine.y@));
        }
        if compress {
            if y_vec[y_vec.len() - 1] & 0x01 == 0 {
                ret.push(0x02);
            } else {
                ret.push(0x03);
            }
            ret.append(&mut x_vec);
        } else {
            ret.push(0x04);
            ret.append(&mut x_vec);
            ret.append(&mut y_vec);
        }
        proof {
            if compress {
                assert(ret@ =~= seq![if fe(p_affine.y@) % 2 == 0 { 2u8 } else { 3u8 }] + xs);
            } else {
                assert(ret@ =~= seq![4u8] + xs + ys);
            }
        }
        ret
    }

    fn from_byte(b: &[u8]) -> (res: Sm2Result<Point>)
        ensures res is Ok ==> wf(res->Ok_0) && fe(res->Ok_0.z@) == 1 && sec1_decodes(b@, abs(res->Ok_0)),
            (b@.len() != 33 && b@.len() != 65) ==> res is Err,
            sec1_decodable(b@) ==> res is Ok,
    {
        if b.is_empty() {
            proof { ecc_dec_rej_shape(b@); }
            return Err(Sm2Error::InvalidPublic);
        }
        let flag = b[0];
        // Compressed Point
        if flag == 0x02 || flag == 0x03 {
            if b.len() != 33 {
                proof { ecc_dec_rej_shape(b@); }
                return Err(Sm2Error::InvalidPublic);
            }
            let y_q;
            if b[0] == 0x02 {
                y_q = 0;
            } else {
                y_q = 1
            }
            let x_raw = U256::from_byte_be(&b[1..]);
            proof {
                ecc_consts();
                assert(b@.subrange(1, b@.len() as int).subrange(0, 32) =~= b@.subrange(1, 33));
            }
            if u256_cmp(&x_raw, &SM2_P) >= 0 {
                proof { ecc_dec_rej_x(b@, val4(x_raw@)); }
                return Err(Sm2Error::InvalidPublic);
            }
            let x = fp_to_mont(&x_raw);
            let xxx = x.fp_mul(&x).fp_mul(&x);
            let ax = x.fp_mul(&SM2_MODP_MONT_A);
            let yy = xxx
                .fp_add(&ax)
                .fp_add(&SM2_MODP_MONT_B);
            proof {
                ecc_cubic(fe(x@), fe(yy@));
                if sec1_decodable(b@) { ecc_sqrt_exp(); ecc_dec_sqrt(b@, fe(x@), fe(yy@), val4(SM2_SQRT_EXP@) as nat); }
            }

            let mut y = fp_sqrt(&yy)?;
            let y_vec = fp_from_mont(&y).to_byte_be();
            let ghost y0 = y;
            proof {
                ecc_fe_range(y@); ecc_fe_range(x@);
                ecc_be_last(fe(y@));
                ecc_fe_zero(SM2_P@);
                ecc_fe_zero(y@);
                if fe(y@) == 0 { assert(0 * 0 == 0); ecc_small(0); ecc_no_2torsion(fe(x@)); }
                ecc_flip_y(fe(y@));
            }
            if y_vec[y_vec.len() - 1] & 0x01 != y_q {
                y = SM2_P.fp_sub(&y);
            }
            proof {
                ecc_abs_z1(x@, y@, SM2_MODP_MONT_ONE@);
            }
            Ok(Point {
                x,
                y,
                z: SM2_MODP_MONT_ONE,
            })
        }
        // uncompressed Point
        else {
            if flag != 0x04 || b.len() != 65 {
                proof { ecc_dec_rej_shape(b@); }
                return Err(Sm2Error::InvalidPublic);
            }
            let x_raw = u256_from_be_bytes(&b[1..33]);
            let y_raw = u256_from_be_bytes(&b[33..65]);
            proof {
                ecc_consts();
                assert(b@.subrange(1, 33).subrange(0, 32) =~= b@.subrange(1, 33));
                assert(b@.subrange(33, 65).subrange(0, 32) =~= b@.subrange(33, 65));
            }
            if u256_cmp(&x_raw, &SM2_P) >= 0 || u256_cmp(&y_raw, &SM2_P) >= 0 {
                proof { if val4(x_raw@) >= P() { ecc_dec_rej_x(b@, val4(x_raw@)); } else { ecc_dec_rej_y(b@, val4(y_raw@)); } }
                return Err(Sm2Error::InvalidPublic);
            }
            let x = fp_to_mont(&x_raw);
            let y = fp_to_mont(&y_raw);
            proof {
                ecc_abs_z1(x@, y@, SM2_MODP_MONT_ONE@);
            }
            Ok(Point {
                x,
                y,
                z: SM2_MODP_MONT_ONE,
            })
        }
    }

    fn neg(&self) -> (r: Point)
        requires wf(*self)
        ensures coords_le_p(r), abs(r) == g_neg(abs(*self))
    {
        proof {
            ecc_consts();
            ecc_fe_zero(SM2_P@);
            let zi = inv_p(fe(self.z@));
            ecc_neg_y(fe(self.y@), (0 - fe(self.y@)) % P(), zi);
        }
        Point {
            x: self.x.clone(),
            y: SM2_P.fp_sub(&self.y),
            z: self.z.clone(),
        }
    }

    fn point_add(&self, p: &Point) -> (r: Point)
        requires valid(*self), valid(*p)
        ensures valid(r), abs(r) == g_add(abs(*self), abs(*p))
    {
        // 0 + p2 = p2
        if self.is_zero() {
            return p.clone();
        }
        // p1 + 0 = p1
        if p.is_zero() {
            return self.clone();
        }

        let x1 = self.x;
        let y1 = self.y;
        let z1 = self.z;

        let x2 = p.x;
        let y2 = p.y;
        let z2 = p.z;

        // p1 = p2
        if x1 == x2 && y1 == y2 && z1 == z2 {
            proof { assert(x1@ == x2@ && y1@ == y2@ && z1@ == z2@); }
            return self.point_dbl();
        } else {
            let z1_sqr = z1.fp_sqr();
            let z2_sqr = z2.fp_sqr();
            let u1 = x1.fp_mul(&z2_sqr);
            let u2 = x2.fp_mul(&z1_sqr);
            let y1_z2 = y1.fp_mul(&z2);
            let s1 = y1_z2.fp_mul(&z2_sqr);
            let y2_z1 = y2.fp_mul(&z1);
            let s2 = y2_z1.fp_mul(&z1_sqr);
            let h = u2.fp_sub(&u1);
            let r = s2.fp_sub(&s1);
            proof {
                ecc_add_same_main(x1@, y1@, z1@, x2@, y2@, z2@, h@, r@, fe(z1_sqr@), fe(z2_sqr@), fe(u1@), fe(u2@), fe(y1_z2@), fe(s1@), fe(y2_z1@), fe(s2@));
            }
            // p1 = p2 in another Jacobian representation: the chord formulas would degenerate to (0, 0, 0)
            if h.is_zero() && r.is_zero() {
                return self.point_dbl();
            }
            let hh = h.fp_sqr();
            let hhh = hh.fp_mul(&h);
            let v = u1.fp_mul(&hh);
            let r_sqr = r.fp_sqr();
            let r_sqr_hhh = r_sqr.fp_sub(&hhh);
            let x3 = r_sqr_hhh.fp_sub(&v.fp_double());
            let v_x3 = v.fp_sub(&x3);
            let r_v_x3 = r.fp_mul(&v_x3);
            let s1_hhh = s1.fp_mul(&hhh);
            let y3 = r_v_x3.fp_sub(&s1_hhh);
            let z3 = z1.fp_mul(&z2).fp_mul(&h);
            proof {
                ecc_add_main(x1@, y1@, z1@, x2@, y2@, z2@, x3@, y3@, z3@, fe(z1_sqr@), fe(z2_sqr@), fe(u1@), fe(u2@), fe(y1_z2@), fe(s1@), fe(y2_z1@), fe(s2@),
                    fe(h@), fe(r@), fe(hh@), fe(hhh@), fe(v@), fe(r_sqr@), fe(r_sqr_hhh@), fe(v_x3@), fe(r_v_x3@), fe(s1_hhh@));
            }
            Point {
                x: x3,
                y: y3,
                z: z3,
            }
        }
    }

    // P = [k]G
    fn scalar_mul(&self, scalar: &[u64]) -> (r: Point)
        requires valid(*self), scalar@.len() == 4
        ensures valid(r), abs(r) == g_smul(val4(scalar@), abs(*self))
    {
        let mut pre_table = vec![];
        for _ in it0: 0..16
            invariant pre_table@.len() == it0.index@, forall|k: int| 0 <= k < pre_table@.len() ==> valid(#[trigger] pre_table@[k])
        {
            pre_table.push(Point::zero());
        }

        let mut r = Point::zero();
        let ghost a = abs(*self);
        proof {
            ecc_smul_one(a);
            lemma_smul_add(1, 1, a); lemma_smul_add(2, 2, a); lemma_smul_add(4, 4, a); lemma_smul_add(1, 2, a); lemma_smul_add(3, 3, a);
            lemma_smul_add(1, 6, a); lemma_smul_add(6, 6, a); lemma_smul_add(1, 4, a); lemma_smul_add(5, 5, a); lemma_smul_add(7, 7, a);
            lemma_smul_add(1, 8, a); lemma_smul_add(1, 10, a); lemma_smul_add(1, 12, a); lemma_smul_add(1, 14, a);
        }
        pre_table[1 - 1] = *self;
        pre_table[2 - 1] = pre_table[1 - 1].point_dbl();
        pre_table[4 - 1] = pre_table[2 - 1].point_dbl();
        pre_table[8 - 1] = pre_table[4 - 1].point_dbl();
        pre_table[3 - 1] = pre_table[1 - 1].point_add(&pre_table[2 - 1]);
        pre_table[6 - 1] = pre_table[3 - 1].point_dbl();
        pre_table[7 - 1] = pre_table[1 - 1].point_add(&pre_table[6 - 1]);
        proof { assert(abs(pre_table@[6]) == g_smul(7, a) && valid(pre_table@[6])); }
        pre_table[12 - 1] = pre_table[6 - 1].point_dbl();
        pre_table[5 - 1] = pre_table[1 - 1].point_add(&pre_table[4 - 1]);
        pre_table[10 - 1] = pre_table[5 - 1].point_dbl();
        pre_table[14 - 1] = pre_table[7 - 1].point_dbl();
        proof { assert(abs(pre_table@[13]) == g_smul(14, a) && valid(pre_table@[13])); }
        pre_table[9 - 1] = pre_table[1 - 1].point_add(&pre_table[8 - 1]);
        pre_table[11 - 1] = pre_table[1 - 1].point_add(&pre_table[10 - 1]);
        pre_table[13 - 1] = pre_table[1 - 1].point_add(&pre_table[12 - 1]);
        pre_table[15 - 1] = pre_table[1 - 1].point_add(&pre_table[14 - 1]);
        let ghost mut acc: int = 0;
        proof {
            assert forall|k: int| 0 <= k < 15 implies valid(#[trigger] pre_table@[k]) && abs(pre_table@[k]) == g_smul(k + 1, a) by { }
            ecc_hi_props(scalar@, 0);
        }

        for i in iti: 0..scalar.len()
            invariant
                scalar@.len() == 4, valid(*self), a == abs(*self), valid(r), pre_table@.len() == 16,
                forall|k: int| 0 <= k < 15 ==> valid(#[trigger] pre_table@[k]) && abs(pre_table@[k]) == g_smul(k + 1, a),
                iti.index@ < 4 ==> abs(r) == g_smul(16 * acc, a) && acc == ecc_hi(scalar@, iti.index@ as int),
                iti.index@ == 4 ==> abs(r) == g_smul(val4(scalar@), a),
        {
            proof { ecc_hi_props(scalar@, i as int); ecc_pow16_16(); ecc_tj_16(scalar@[3 - i]); assert(ecc_hi(scalar@, i as int) * 1 == ecc_hi(scalar@, i as int)); }
            for j in itj: 0..(64 / 4)
                invariant_except_break
                    abs(r) == g_smul(16 * acc, a),
                    acc == ecc_hi(scalar@, i as int) * ecc_pow16(itj.index@ as int) + ecc_tj(scalar@[3 - i], itj.index@ as int) as int,
                    i == 3 ==> itj.index@ < 16,
                invariant
                    scalar@.len() == 4, valid(*self), a == abs(*self), valid(r), pre_table@.len() == 16, 0 <= i < 4,
                    ecc_pow16(16) == 0x1_0000_0000_0000_0000int, ecc_tj(scalar@[3 - i], 16) == scalar@[3 - i],
                    ecc_hi(scalar@, i + 1) == 0x1_0000_0000_0000_0000int * ecc_hi(scalar@, i as int) + scalar@[3 - i] as int,
                    forall|k: int| 0 <= k < 15 ==> valid(#[trigger] pre_table@[k]) && abs(pre_table@[k]) == g_smul(k + 1, a),
                ensures
                    i < 3 ==> abs(r) == g_smul(16 * acc, a) && acc == ecc_hi(scalar@, i + 1),
                    i == 3 ==> abs(r) == g_smul(val4(scalar@), a),
            {
                let index = scalar[4 - 1 - i] >> ((64 / 4 - 1 - j) * 4);
                let ghost d = (index & 0x0f) as int;
                let ghost w = scalar@[3 - i];
                let ghost jj = j as int;
                let ghost hi = ecc_hi(scalar@, i as int);
                proof {
                    assert(jj == itj.index@);
                    ecc_nibble(w, jj);
                    assert(index == w >> (((15 - jj) * 4) as u64));
                    ecc_hi_props(scalar@, i as int);
                    ecc_pow16_le(jj + 1, 16); ecc_pow16_16();
                    assert(ecc_pow16(jj + 1) == 16 * ecc_pow16(jj));
                    ecc_acc_step(hi, ecc_pow16(jj), ecc_tj(w, jj) as int, ecc_tj(w, jj + 1) as int, d, acc);
                    ecc_acc_bound(hi, ecc_pow16(jj + 1), ecc_tj(w, jj + 1) as int, w as int);
                    ecc_pow16_le(jj, 16);
                    ecc_acc_bound(hi, ecc_pow16(jj), ecc_tj(w, jj) as int, w as int);
                    assert(0 <= acc && 16 * acc + d <= val4(scalar@));
                    lemma_smul_closed(16 * acc, a);
                    if d != 0 {
                        lemma_smul_add(d, 16 * acc, a);
                    }
                }
                if index & 0x0f != 0 {
                    r = pre_table[((index - 1) & 0x0f) as usize].point_add(&r)
                }
                proof {
                    acc = 16 * acc + d;
                    assert(abs(r) == g_smul(acc, a));
                    assert(acc == hi * ecc_pow16(jj + 1) + ecc_tj(w, jj + 1) as int);
                }

                if i + 1 == scalar.len() && j + 1 == 64 / 4 {
                    proof {
                        ecc_tj_16(w);
                        assert(jj + 1 == 16 && i == 3);
                        assert(acc == hi * 0x1_0000_0000_0000_0000int + w as int);
                        assert(acc == val4(scalar@));
                    }
                    break;
                }
                r = r.point_dbl();
                proof { lemma_smul_add(acc, acc, a); }
                r = r.point_dbl();
                proof { lemma_smul_add(2 * acc, 2 * acc, a); }
                r = r.point_dbl();
                proof { lemma_smul_add(4 * acc, 4 * acc, a); }
                r = r.point_dbl();
                proof { lemma_smul_add(8 * acc, 8 * acc, a); }
            }
            proof { ecc_hi_props(scalar@, i as int); }
        }
        r
    }

    fn point_dbl(&self) -> (r: Point)
        requires valid(*self)
        ensures valid(r), abs(r) == g_add(abs(*self), abs(*self))
    {
        let x1 = self.x;
        let y1 = self.y;
        let z1 = self.z;

        let z1_sqr = z1.fp_sqr(); // z1^2
        let y1_sqr = y1.fp_sqr(); // y1^2
        let alpha_m3 = x1.fp_sub(&z1_sqr).fp_mul(&x1.fp_add(&z1_sqr)).fp_triple(); // 3(x1-delta)*(x1+delta)
        let lam6_m4 = x1.fp_mul(&y1_sqr).fp_double().fp_double(); // 4(x1*(y1^2))
        let x3 = alpha_m3.fp_sqr().fp_sub(&lam6_m4.fp_double()); // x3=alpha^2 - 8(x1*(y1^2))

        let u1 = alpha_m3.fp_mul(&lam6_m4.fp_sub(&x3)); // alpha * (4(x1*(y1^2)) - x3)
        let u2 = y1_sqr.fp_sqr().fp_double().fp_double().fp_double(); // 8y1^4
        let y3 = u1.fp_sub(&u2);

        let y1_z1 = y1.fp_add(&z1);
        let z3 = y1_z1.fp_sqr().fp_sub(&y1_sqr).fp_sub(&z1_sqr);
        proof {
            ecc_dbl_main(self.x@, self.y@, self.z@, x3@, y3@, z3@, fe(z1_sqr@), fe(y1_sqr@), fe(alpha_m3@), fe(lam6_m4@), fe(u1@), fe(u2@), fe(y1_z1@));
        }

        Point {
            x: x3,
            y: y3,
            z: z3,
        }
    }
}

    fn g_mul(g: &U256) -> (r: Point)
    ensures valid(r), abs(r) == g_smul(val4(g@), G())
    {
    let mut r = Point::zero();
    let num = 8;
    proof { ecc_g_on_curve(); }
    for index in ito: 0..g.len()
        invariant
            num == 8, valid(r), on_curve(G()),
            abs(r) == g_smul(ecc_lo(g@, 8 * ito.index@), G()),
    { let scalar_word = &g[index];
        for m in itm: 0..num
            invariant
                num == 8, valid(r), on_curve(G()), 0 <= index < 4, *scalar_word == g@[index as int],
                abs(r) == g_smul(ecc_lo(g@, 8 * index + itm.index@), G()),
        {
            let ghost w = *scalar_word;
            let ghost i = 8 * index as int + m as int;
            let ghost lo = ecc_lo(g@, i);
            proof {
                let k = (8 * m) as u64;
                assert(((w >> k) & 0xff) < 256) by(bit_vector);
                assert(i / 8 == index as int && i % 8 == m as int);
                assert(ecc_lo(g@, i + 1) == lo + ecc_byte(g@, i) * pow256(i));
            }
            let raw_index = ((*scalar_word >> (8 * m)) & 0xff) as usize;
            let ghost t = raw_index as int * pow256(i);
            proof {
                assert(raw_index as int == ecc_byte(g@, i));
                ecc_lo_bound(g@, i); ecc_lo_mono(g@, i + 1, 32); ecc_lo_32(g@);
                if raw_index != 0 {
                    ax_sm2_table(i, raw_index as int);
                    assert(t >= pow256(i)) by(nonlinear_arith) requires t == raw_index as int * pow256(i), raw_index >= 1, pow256(i) > 0;
                    lemma_smul_closed(t, G());
                    lemma_smul_add(lo, t, G());
                } else {
                    assert(t == 0) by(nonlinear_arith) requires t == raw_index as int * pow256(i), raw_index == 0;
                }
            }
            if raw_index != 0 {
                let a = to_jacobi(
                    &SM2P256_PRECOMPUTED[num * index + m][raw_index * 2 - 2],
                    &SM2P256_PRECOMPUTED[num * index + m][raw_index * 2 - 1],
                );
                proof {
                    ecc_abs_z1(a.x@, a.y@, a.z@);
                    assert(abs(a) == g_smul(t, G()));
                }
                r = r.point_add(&a);
            }
        }
    }
    proof { ecc_lo_32(g@); }
    r
}

    fn to_jacobi(x: &U256, y: &U256) -> (r: Point)
    requires canon(x@), canon(y@)
    ensures wf(r), r.x@ == x@, r.y@ == y@, fe(r.z@) == 1
    {
    let mut r = Point::zero();
    r.x.copy_from_slice(x);
    r.y.copy_from_slice(y);
    r.z.copy_from_slice(&SM2_MODP_MONT_ONE);
    proof { ecc_consts(); }
    r
}

//@section spec local
use vstd::arithmetic::mul::*;
// ---------------------------------------------------------------- ground facts about the code constants
proof fn ecc_sqrt_exp() ensures 4 * val4(SM2_SQRT_EXP@) == P() + 1
{ assert(4 * val4(SM2_SQRT_EXP@) == P() + 1) by(compute); }
proof fn ecc_consts()
    ensures val4(SM2_P@) == P(), SM2_P@.len() == 4, canon(SM2_ZERO@), val4(SM2_ZERO@) == 0,
        canon(SM2_MODP_MONT_ONE@), val4(SM2_MODP_MONT_ONE@) != 0, fe(SM2_MODP_MONT_ONE@) == 1,
        canon(SM2_MODP_MONT_A@), fe(SM2_MODP_MONT_A@) == CA(), canon(SM2_MODP_MONT_B@), fe(SM2_MODP_MONT_B@) == CB(),
        P() > 3, 0 < RINV_P() < P(),
{
    assert(val4(SM2_P@) == P() && SM2_P@.len() == 4) by(compute);
    assert(canon(SM2_ZERO@) && val4(SM2_ZERO@) == 0) by(compute);
    assert(canon(SM2_MODP_MONT_ONE@) && val4(SM2_MODP_MONT_ONE@) != 0 && fe(SM2_MODP_MONT_ONE@) == 1) by(compute);
    assert(canon(SM2_MODP_MONT_A@) && fe(SM2_MODP_MONT_A@) == CA()) by(compute);
    assert(canon(SM2_MODP_MONT_B@) && fe(SM2_MODP_MONT_B@) == CB()) by(compute);
    assert(P() > 3 && 0 < RINV_P() < P()) by(compute);
}
// ---------------------------------------------------------------- the fixed-base table (value hidden from the solver)
#[verifier::external_body]
proof fn ax_sm2_table(i: int, j: int)
    requires 0 <= i < 32, 1 <= j <= 255
    ensures canon(SM2P256_PRECOMPUTED[i][2 * j - 2]@), canon(SM2P256_PRECOMPUTED[i][2 * j - 1]@),
        (Pt::Aff { x: fe(SM2P256_PRECOMPUTED[i][2 * j - 2]@), y: fe(SM2P256_PRECOMPUTED[i][2 * j - 1]@) }) == g_smul(j * pow256(i), G())
{ }
//@section spec
// ---------------------------------------------------------------- arithmetic mod P()
pub proof fn ecc_pos() ensures P() > 3, 0 < RINV_P() < P(), (r256() * RINV_P()) % P() == 1
{ lemma_params(); assert(P() > 3) by(compute); }
pub proof fn ecc_range(x: int) ensures 0 <= x % P() < P()
{ ecc_pos(); lemma_mod_bound(x, P()); }
pub proof fn ecc_small(x: int) requires 0 <= x < P() ensures x % P() == x
{ lemma_small_mod(x as nat, P() as nat); }
// (a op b) mod p may be computed on residues
pub proof fn ecc_mul(a: int, b: int)
    ensures ((a % P()) * b) % P() == (a * b) % P(), (a * (b % P())) % P() == (a * b) % P(), ((a % P()) * (b % P())) % P() == (a * b) % P()
{ ecc_pos(); lemma_mul_mod_noop_general(a, b, P()); }
pub proof fn ecc_add(a: int, b: int)
    ensures ((a % P()) + b) % P() == (a + b) % P(), (a + (b % P())) % P() == (a + b) % P(), ((a % P()) + (b % P())) % P() == (a + b) % P()
{ ecc_pos(); lemma_add_mod_noop(a, b, P()); lemma_add_mod_noop_right(a, b, P()); lemma_add_mod_noop_right(b, a, P()); }
pub proof fn ecc_sub(a: int, b: int)
    ensures ((a % P()) - b) % P() == (a - b) % P(), (a - (b % P())) % P() == (a - b) % P(), ((a % P()) - (b % P())) % P() == (a - b) % P()
{ ecc_pos(); lemma_sub_mod_noop(a, b, P()); lemma_sub_mod_noop_right(a, b, P()); lemma_sub_mod_noop_right(a % P(), b, P()); }
pub proof fn ecc_shift(x: int, k: int) ensures (x + k * P()) % P() == x % P()
{
    ecc_pos();
    lemma_mod_multiples_vanish(k, x, P());
    assert(P() * k + x == x + k * P()) by(nonlinear_arith);
}
// congruences: a == b (mod p) is preserved by * and +
pub proof fn ecc_cong_mul(a: int, b: int, c: int) requires a % P() == b % P() ensures (a * c) % P() == (b * c) % P(), (c * a) % P() == (c * b) % P()
{
    ecc_mul(a, c); ecc_mul(b, c);
    assert(a * c == c * a) by(nonlinear_arith);
    assert(b * c == c * b) by(nonlinear_arith);
}
pub proof fn ecc_cong_add(a: int, b: int, c: int, d: int) requires a % P() == b % P(), c % P() == d % P() ensures (a + c) % P() == (b + d) % P(), (a - c) % P() == (b - d) % P()
{ ecc_add(a, c); ecc_add(b, d); ecc_sub(a, c); ecc_sub(b, d); }
// multiplying by something == 1 (mod p)
pub proof fn ecc_unit(x: int, u: int) requires u % P() == 1 ensures (x * u) % P() == x % P(), (u * x) % P() == x % P()
{
    ecc_mul(x, u);
    assert(x * 1 == x);
    assert(x * u == u * x) by(nonlinear_arith);
}
// ---------------------------------------------------------------- Montgomery decoding fe
pub proof fn ecc_fe_range(a: Seq<u64>) ensures 0 <= fe(a) < P()
{ ecc_range(val4(a) * RINV_P()); }
// fe(a) * R == val4(a) (mod p)
pub proof fn ecc_fe_timesR(a: Seq<u64>) ensures (fe(a) * r256()) % P() == val4(a) % P()
{
    ecc_pos();
    let v = val4(a); let u = r256() * RINV_P();
    ecc_mul(v * RINV_P(), r256());
    assert(v * RINV_P() * r256() == v * u) by(nonlinear_arith) requires u == r256() * RINV_P();
    ecc_unit(v, u);
}
pub proof fn ecc_fe_inj(a: Seq<u64>, b: Seq<u64>) requires canon(a), canon(b), fe(a) == fe(b) ensures a =~= b
{
    ecc_fe_timesR(a); ecc_fe_timesR(b);
    lemma_val4_bounds(a); lemma_val4_bounds(b);
    ecc_small(val4(a)); ecc_small(val4(b));
    lemma_val4_inj(a, b);
}
pub proof fn ecc_fe_zero(a: Seq<u64>) requires a.len() == 4, canon(a) || val4(a) == P() ensures (fe(a) == 0) == (val4(a) == 0 || val4(a) == P())
{
    ecc_pos();
    lemma_val4_bounds(a);
    if val4(a) == 0 {
        assert(0 * RINV_P() == 0);
        ecc_small(0);
    } else if val4(a) == P() {
        ecc_shift(0, RINV_P());
        assert(0 + RINV_P() * P() == P() * RINV_P()) by(nonlinear_arith);
        ecc_small(0);
    } else {
        ecc_fe_timesR(a);
        ecc_small(val4(a));
        if fe(a) == 0 { assert(0 * r256() == 0); ecc_small(0); }
    }
}
// ---------------------------------------------------------------- inv_p on 0 and 1
pub proof fn ecc_pow_one(e: nat) ensures pow_mod(1, e, P()) == 1 decreases e
{
    ecc_pos();
    ecc_small(1);
    if e > 0 { ecc_pow_one((e - 1) as nat); assert(1 * 1 == 1); }
}
pub proof fn ecc_inv_one() ensures inv_p(1) == 1
{ ecc_pos(); ecc_pow_one((P() - 2) as nat); }
pub proof fn ecc_inv_zero() ensures inv_p(0) == 0
{
    ecc_pos();
    let e = (P() - 2) as nat;
    assert(e > 0);
    assert(pow_mod(0, e, P()) == (pow_mod(0, (e - 1) as nat, P()) * 0) % P());
    assert(pow_mod(0, (e - 1) as nat, P()) * 0 == 0);
    ecc_small(0);
}
pub proof fn ecc_inv_range(x: int) ensures 0 <= inv_p(x) < P()
{
    ecc_pos();
    let e = (P() - 2) as nat;
    assert(e > 0);
    assert(pow_mod(x, e, P()) == (pow_mod(x, (e - 1) as nat, P()) * x) % P());
    ecc_range(pow_mod(x, (e - 1) as nat, P()) * x);
}
// ---------------------------------------------------------------- square roots: every square passes the test of fp_sqrt
// (completeness of the compressed-point decoder): for p = 3 (mod 4) and f = y^2, (f^((p+1)/4))^2 = y^(p+1) = y^2
pub proof fn ecc_pow_range(x: int, e: nat) ensures 0 <= pow_mod(x, e, P()) < P() decreases e
{ ecc_pos(); if e == 0 { ecc_small(1); } else { ecc_range(pow_mod(x, (e - 1) as nat, P()) * x); } }
pub proof fn ecc_pow_add(x: int, j: nat, k: nat) ensures pow_mod(x, j + k, P()) == (pow_mod(x, j, P()) * pow_mod(x, k, P())) % P() decreases k
{
    ecc_pos();
    let pj = pow_mod(x, j, P());
    ecc_pow_range(x, j);
    if k == 0 {
        ecc_small(1); assert(pj * 1 == pj); ecc_small(pj);
    } else {
        let k1 = (k - 1) as nat;
        ecc_pow_add(x, j, k1);
        let pk1 = pow_mod(x, k1, P());
        assert((j + k - 1) as nat == j + k1);
        // pow(x, j+k) = (pow(x, j+k1) * x) % p = (((pj * pk1) % p) * x) % p = (pj * pk1 * x) % p = (pj * ((pk1 * x) % p)) % p
        ecc_mul(pj * pk1, x);
        ecc_mul(pj, pk1 * x);
        assert((pj * pk1) * x == pj * (pk1 * x)) by(nonlinear_arith);
    }
}
// pow(y^2 mod p, e) == pow(y, 2e)
pub proof fn ecc_pow_sq(y: int, e: nat) ensures pow_mod((y * y) % P(), e, P()) == pow_mod(y, 2 * e, P()) decreases e
{
    ecc_pos();
    if e > 0 {
        let e1 = (e - 1) as nat;
        ecc_pow_sq(y, e1);
        let w = pow_mod(y, 2 * e1, P());
        assert((2 * e - 1) as nat == 2 * e1 + 1 && (2 * e1 + 1 - 1) as nat == 2 * e1);
        assert(pow_mod(y, (2 * e1 + 1) as nat, P()) == (w * y) % P());
        assert(pow_mod(y, 2 * e, P()) == (((w * y) % P()) * y) % P());
        ecc_mul(w * y, y);
        ecc_mul(w, y * y);
        assert((w * y) * y == w * (y * y)) by(nonlinear_arith);
    }
}
// Fermat: y^(p+1) == y^2 for every residue y (from ax_inv_p: y * y^(p-2) == 1 for y != 0)
pub proof fn ecc_pow_p1(y: int) requires 0 <= y < P() ensures pow_mod(y, (P() + 1) as nat, P()) == (y * y) % P()
{
    ecc_pos();
    let e2 = (P() - 2) as nat; let e1 = (P() - 1) as nat; let e0 = P() as nat; let ep = (P() + 1) as nat;
    assert((ep - 1) as nat == e0 && (e0 - 1) as nat == e1 && (e1 - 1) as nat == e2);
    let a2 = pow_mod(y, e2, P()); let a1 = pow_mod(y, e1, P()); let a0 = pow_mod(y, e0, P());
    assert(a1 == (a2 * y) % P());
    assert(a0 == (a1 * y) % P());
    assert(pow_mod(y, ep, P()) == (a0 * y) % P());
    if y == 0 {
        assert(a0 * y == 0); assert(y * y == 0);
    } else {
        ecc_small(y);
        ax_inv_p(y);
        assert(a2 == inv_p(y));
        assert(a2 * y == y * a2) by(nonlinear_arith);
        assert(a1 == 1);
        assert(1 * y == y);
        assert(a0 == y);
    }
}
// the acceptance test of fp_sqrt with exponent e = (p+1)/4 holds for every square
pub proof fn ecc_sqrt_complete(y: int, f: int, e: nat) requires 0 <= y < P(), f == (y * y) % P(), 4 * e == P() + 1
    ensures (pow_mod(f, e, P()) * pow_mod(f, e, P())) % P() == f
{
    ecc_pow_sq(y, e);
    ecc_pow_add(y, 2 * e, 2 * e);
    assert(2 * e + 2 * e == (P() + 1) as nat);
    ecc_pow_p1(y);
}
// ---- rejection sites of Point::from_byte: no affine curve point has these bytes as its encoding
pub proof fn ecc_dec_rej_shape(b: Seq<u8>)
    requires b.len() == 0 || ((b[0] == 2 || b[0] == 3) && b.len() != 33) || (b[0] != 2 && b[0] != 3 && (b[0] != 4 || b.len() != 65))
    ensures !sec1_decodable(b)
{ }
pub proof fn ecc_dec_rej_x(b: Seq<u8>, xv: int) requires xv == be_val(b.subrange(1, 33)), xv >= P() ensures !sec1_decodable(b)
{ }
pub proof fn ecc_dec_rej_y(b: Seq<u8>, yv: int) requires b.len() == 65, yv == be_val(b.subrange(33, 65)), yv >= P() ensures !sec1_decodable(b)
{ }
// compressed form: if some curve point has these bytes, x^3 + ax + b is a square and passes the test of fp_sqrt
pub proof fn ecc_dec_sqrt(b: Seq<u8>, xv: int, f: int, e: nat)
    requires b.len() == 33, xv == be_val(b.subrange(1, 33)), f == (xv * xv * xv + CA() * xv + CB()) % P(), 4 * e == P() + 1, sec1_decodable(b)
    ensures (pow_mod(f, e, P()) * pow_mod(f, e, P())) % P() == f
{
    let q = choose|q: Pt| #[trigger] sec1_decodes(b, q) && on_curve(q);
    match q {
        Pt::Inf => { }
        Pt::Aff { x, y } => { assert(x == xv); ecc_sqrt_complete(y, f, e); }
    }
}
// ---------------------------------------------------------------- abstraction of points
// a point with z == 1 (Montgomery one) denotes (fe x, fe y)
pub proof fn ecc_abs_z1(x: Seq<u64>, y: Seq<u64>, z: Seq<u64>)
    requires canon(z), fe(z) == 1
    ensures val4(z) != 0, abs_pt(x, y, z) == (Pt::Aff { x: fe(x), y: fe(y) })
{
    ecc_pos();
    if val4(z) == 0 { ecc_fe_zero(z); }
    ecc_inv_one();
    ecc_fe_range(x); ecc_fe_range(y);
    ecc_small(fe(x)); ecc_small(fe(y));
    assert(fe(x) * 1 * 1 == fe(x));
    assert(fe(y) * 1 * 1 * 1 == fe(y));
}
// y -> -y
pub proof fn ecc_neg_y(y: int, yn: int, zi: int) requires yn == (0 - y) % P()
    ensures (yn * zi * zi * zi) % P() == (P() - (y * zi * zi * zi) % P()) % P()
{
    ecc_pos();
    let c = zi * zi * zi;
    assert(yn * zi * zi * zi == yn * c) by(nonlinear_arith) requires c == zi * zi * zi;
    assert(y * zi * zi * zi == y * c) by(nonlinear_arith) requires c == zi * zi * zi;
    ecc_mul(0 - y, c);
    assert((0 - y) * c == 0 - y * c) by(nonlinear_arith);
    ecc_sub(P(), y * c);
    ecc_shift(0 - y * c, 1);
    assert(0 - y * c + 1 * P() == P() - y * c);
}
// x * zinv^2, y * zinv^3 as the code computes them
pub proof fn ecc_affine_xy(x: int, y: int, zi: int, zi2: int, zi3: int, rx: int, ry: int)
    requires zi2 == (zi * zi) % P(), zi3 == (zi2 * zi) % P(), rx == (x * zi2) % P(), ry == (y * zi3) % P()
    ensures rx == (x * zi * zi) % P(), ry == (y * zi * zi * zi) % P()
{
    ecc_mul(x, zi * zi);
    assert(x * (zi * zi) == x * zi * zi) by(nonlinear_arith);
    ecc_mul(zi * zi, zi);
    ecc_mul(y, zi2 * zi);
    ecc_cong_mul(zi2 * zi, zi * zi * zi, y);
    assert(y * (zi * zi * zi) == y * zi * zi * zi) by(nonlinear_arith);
}
// affine curve equation as the code evaluates it: ((x * ((x*x)%p + a)%p)%p + b)%p
pub proof fn ecc_affine_rhs(x: int, xx: int, xxa: int, xxxa: int, e: int)
    requires xx == (x * x) % P(), xxa == (xx + CA()) % P(), xxxa == (x * xxa) % P(), e == (xxxa + CB()) % P()
    ensures e == (x * x * x + CA() * x + CB()) % P()
{
    ecc_add(x * x, CA());
    ecc_mul(x, xx + CA());
    ecc_cong_mul(xx + CA(), x * x + CA(), x);
    assert(x * (x * x + CA()) == x * x * x + CA() * x) by(nonlinear_arith);
    ecc_add(x * xxa, CB());
    ecc_add(x * x * x + CA() * x, CB());
}
// parity of the last big-endian byte
pub proof fn ecc_be_last(v: int) requires 0 <= v
    ensures be_bytes(v, 32).len() == 32, (be_bytes(v, 32)[31] & 0x01 == 0) == (v % 2 == 0), (be_bytes(v, 32)[31] & 0x01) as int == v % 2
{
    lemma_be_bytes_len(v, 32);
    lemma_be_bytes_len(v / 256, 31);
    let b = (v % 256) as u8;
    assert(be_bytes(v, 32) == be_bytes(v / 256, 31).push(b));
    assert(be_bytes(v, 32)[31] == b);
    assert((b & 0x01 == 0) == (b % 2 == 0)) by(bit_vector);
    assert(b & 0x01 == b % 2) by(bit_vector);
    assert(b as int == v % 256);
    assert((v % 256) % 2 == v % 2);
}
// the right-hand side of the curve equation as from_byte evaluates it
pub proof fn ecc_cubic(x: int, f: int)
    requires f == ((((x * x) % P() * x) % P() + (x * CA()) % P()) % P() + CB()) % P()
    ensures f == (x * x * x + CA() * x + CB()) % P()
{
    ecc_mul(x * x, x);
    ecc_add(x * x * x, x * CA());
    assert(x * CA() == CA() * x) by(nonlinear_arith);
    ecc_add(x * x * x + CA() * x, CB());
}
// p - y has the other parity and the same square
pub proof fn ecc_flip_y(y: int) requires 0 < y < P()
    ensures (0 - y) % P() == P() - y, (P() - y) % 2 == 1 - y % 2, ((P() - y) * (P() - y)) % P() == (y * y) % P()
{
    ecc_pos();
    ecc_shift(0 - y, 1);
    ecc_small(P() - y);
    assert(P() % 2 == 1) by(compute);
    let k = P() - 2 * y;
    assert((P() - y) * (P() - y) == y * y + k * P()) by(nonlinear_arith) requires k == P() - 2 * y;
    ecc_shift(y * y, k);
}
// the group has odd order n, so there is no point of order two (x, 0)
pub proof fn ecc_smul_even(k: int, q: Pt) requires on_curve(q), g_add(q, q) == Pt::Inf, k >= 0 ensures g_smul(2 * k, q) == Pt::Inf decreases k
{
    if k > 0 {
        ecc_smul_even(k - 1, q);
        lemma_smul_add(2 * (k - 1), 2, q);
        assert(g_smul(0, q) == Pt::Inf);
        assert(g_smul(1, q) == g_add(g_smul(0, q), q));
        assert(g_smul(2, q) == g_add(g_smul(1, q), q));
    }
}
pub proof fn ecc_no_2torsion(x: int) requires 0 <= x < P(), (x * x * x + CA() * x + CB()) % P() == 0 ensures false
{
    ecc_pos();
    let q = Pt::Aff { x: x, y: 0 };
    assert(0 * 0 == 0);
    ecc_small(0);
    assert(on_curve(q));
    assert(g_add(q, q) == Pt::Inf);
    assert(N() % 2 == 1 && N() > 2) by(compute);
    let k = (N() - 1) / 2;
    ecc_smul_even(k, q);
    assert(g_smul(N(), q) == g_add(g_smul(N() - 1, q), q));
    ax_group_order(q);
}
// ---------------------------------------------------------------- Jacobian versus affine curve equation
// the right-hand side x(x^2 + a z^4) + b z^6 as is_valid evaluates it
pub proof fn ecc_jac_rhs(x: int, z: int, a: int, b: int, xx: int, z2: int, z4: int, z6: int, z6b: int, az4: int, s1: int, s2: int, e: int)
    requires xx == (x * x) % P(), z2 == (z * z) % P(), z4 == (z2 * z2) % P(), z6 == (z4 * z2) % P(), z6b == (z6 * b) % P(), az4 == (z4 * a) % P(),
        s1 == (xx + az4) % P(), s2 == (s1 * x) % P(), e == (s2 + z6b) % P()
    ensures e == (x * x * x + a * x * ((z * z) * (z * z)) + b * (((z * z) * (z * z)) * (z * z))) % P()
{
    let zz2 = z * z; let zz4 = zz2 * zz2; let zz6 = zz4 * zz2;
    ecc_mul(zz2, zz2);
    ecc_mul(zz4, zz2);
    ecc_mul(zz6, b);
    ecc_mul(zz4, a);
    ecc_add(x * x, zz4 * a);
    ecc_mul(x * x + zz4 * a, x);
    ecc_add((x * x + zz4 * a) * x, zz6 * b);
    assert((x * x + zz4 * a) * x + zz6 * b == x * x * x + a * x * zz4 + b * zz6) by(nonlinear_arith);
}
// powers of z and of its inverse cancel
pub proof fn ecc_units(z: int, zi: int) requires (z * zi) % P() == 1
    ensures ({ let z2 = z * z; let z4 = z2 * z2; let z6 = z4 * z2; let i2 = zi * zi; let i4 = i2 * i2; let i6 = i4 * i2;
        (z6 * i6) % P() == 1 && (z4 * i6) % P() == i2 % P() && (i2 * z6) % P() == z4 % P() })
{
    let z2 = z * z; let z4 = z2 * z2; let z6 = z4 * z2; let i2 = zi * zi; let i4 = i2 * i2; let i6 = i4 * i2;
    let w = z * zi; let u2 = z2 * i2; let u4 = z4 * i4;
    assert(u2 == w * w) by(nonlinear_arith) requires u2 == (z * z) * (zi * zi), w == z * zi;
    ecc_unit(w, w);
    assert(u4 == u2 * u2) by(nonlinear_arith) requires u4 == (z2 * z2) * (i2 * i2), u2 == z2 * i2;
    ecc_unit(u2, u2);
    assert(z6 * i6 == u4 * u2) by(nonlinear_arith) requires z6 == z4 * z2, i6 == i4 * i2, u4 == z4 * i4, u2 == z2 * i2;
    ecc_unit(u4, u2);
    assert(z4 * i6 == u4 * i2) by(nonlinear_arith) requires i6 == i4 * i2, u4 == z4 * i4;
    ecc_unit(i2, u4);
    assert(i2 * z6 == u2 * z4) by(nonlinear_arith) requires z6 == z4 * z2, u2 == z2 * i2;
    ecc_unit(z4, u2);
}
// affine coordinates (x / z^2, y / z^3): both sides of the affine equation in terms of x, y, 1/z
pub proof fn ecc_aff_sides(x: int, y: int, zi: int, a: int, b: int)
    ensures ({ let xa = (x * zi * zi) % P(); let ya = (y * zi * zi * zi) % P(); let i2 = zi * zi; let i6 = (i2 * i2) * i2;
        (ya * ya) % P() == ((y * y) * i6) % P() && (xa * xa * xa + a * xa + b) % P() == ((x * x * x) * i6 + (a * x) * i2 + b) % P() })
{
    let xa = (x * zi * zi) % P(); let ya = (y * zi * zi * zi) % P(); let i2 = zi * zi; let i6 = (i2 * i2) * i2;
    let c = zi * zi * zi;
    // ya^2
    ecc_mul(y * zi * zi * zi, y * zi * zi * zi);
    assert(y * zi * zi * zi == y * c) by(nonlinear_arith) requires c == zi * zi * zi;
    assert((y * c) * (y * c) == (y * y) * (c * c)) by(nonlinear_arith);
    assert(c * c == i6) by(nonlinear_arith) requires c == zi * zi * zi, i6 == ((zi * zi) * (zi * zi)) * (zi * zi);
    // xa^3
    let t = x * i2;
    assert(x * zi * zi == t) by(nonlinear_arith) requires t == x * (zi * zi);
    ecc_mul(t, t);
    ecc_mul(t * t, t);
    ecc_mul(xa * xa, xa);
    assert(((xa * xa) % P() * xa) % P() == ((t * t) % P() * (t % P())) % P());
    assert((xa * xa * xa) % P() == (t * t * t) % P());
    assert(t * t * t == (x * x * x) * i6) by(nonlinear_arith) requires t == x * i2, i6 == (i2 * i2) * i2;
    // a * xa
    ecc_mul(a, t);
    assert(a * t == (a * x) * i2) by(nonlinear_arith) requires t == x * i2;
    ecc_cong_add(xa * xa * xa, (x * x * x) * i6, a * xa, (a * x) * i2);
    ecc_add(xa * xa * xa + a * xa, b);
    ecc_add((x * x * x) * i6 + (a * x) * i2, b);
}
pub proof fn ecc_jac_equiv(x: int, y: int, z: int, zi: int, a: int, b: int) requires (z * zi) % P() == 1
    ensures ({ let xa = (x * zi * zi) % P(); let ya = (y * zi * zi * zi) % P();
        ((y * y) % P() == (x * x * x + a * x * ((z * z) * (z * z)) + b * (((z * z) * (z * z)) * (z * z))) % P())
        == ((ya * ya) % P() == (xa * xa * xa + a * xa + b) % P()) })
{
    let z2 = z * z; let z4 = z2 * z2; let z6 = z4 * z2; let i2 = zi * zi; let i4 = i2 * i2; let i6 = i4 * i2;
    let xa = (x * zi * zi) % P(); let ya = (y * zi * zi * zi) % P();
    let x3 = x * x * x; let ax = a * x;
    let lj = y * y; let rj = x3 + a * x * z4 + b * z6;
    let t = x3 * i6 + ax * i2 + b;
    ecc_units(z, zi);
    ecc_aff_sides(x, y, zi, a, b);
    // rj * i6 == t (mod p)
    assert(rj * i6 == x3 * i6 + ax * (z4 * i6) + b * (z6 * i6)) by(nonlinear_arith) requires rj == x3 + a * x * z4 + b * z6, ax == a * x;
    ecc_cong_mul(z4 * i6, i2, ax);
    ecc_unit(b, z6 * i6);
    ecc_cong_add(ax * (z4 * i6), ax * i2, b * (z6 * i6), b);
    ecc_cong_add(x3 * i6, x3 * i6, ax * (z4 * i6) + b * (z6 * i6), ax * i2 + b);
    assert((rj * i6) % P() == t % P());
    // t * z6 == rj (mod p)
    assert(t * z6 == x3 * (z6 * i6) + ax * (i2 * z6) + b * z6) by(nonlinear_arith) requires t == x3 * i6 + ax * i2 + b;
    ecc_unit(x3, z6 * i6);
    ecc_cong_mul(i2 * z6, z4, ax);
    ecc_cong_add(x3 * (z6 * i6), x3, ax * (i2 * z6), ax * z4);
    ecc_cong_add(x3 * (z6 * i6) + ax * (i2 * z6), x3 + ax * z4, b * z6, b * z6);
    assert(ax * z4 == a * x * z4);
    assert((t * z6) % P() == rj % P());
    // (lj * i6) * z6 == lj (mod p)
    assert((lj * i6) * z6 == lj * (z6 * i6)) by(nonlinear_arith);
    ecc_unit(lj, z6 * i6);
    if lj % P() == rj % P() {
        ecc_cong_mul(lj, rj, i6);
    }
    if (lj * i6) % P() == t % P() {
        ecc_cong_mul(lj * i6, t, z6);
    }
}
// ---------------------------------------------------------------- group facts for the window method
pub proof fn ecc_smul_one(a: Pt) ensures g_smul(1, a) == a, g_smul(0, a) == Pt::Inf
{
    assert(g_smul(0, a) == Pt::Inf);
    assert(g_smul(1, a) == g_add(g_smul(0, a), a));
}
pub proof fn ecc_smul_inf(k: int) ensures g_smul(k, Pt::Inf) == Pt::Inf decreases k
{ if k > 0 { ecc_smul_inf(k - 1); } }
pub proof fn ecc_smul_mul(j: int, k: int, a: Pt) requires on_curve(a), j >= 0, k >= 0 ensures g_smul(j * k, a) == g_smul(j, g_smul(k, a)) decreases j
{
    if j > 0 {
        ecc_smul_mul(j - 1, k, a);
        assert(j * k == (j - 1) * k + k) by(nonlinear_arith);
        assert((j - 1) * k >= 0) by(nonlinear_arith) requires j >= 1, k >= 0;
        lemma_smul_add((j - 1) * k, k, a);
    } else {
        assert(0 * k == 0);
    }
}
pub proof fn ecc_neg_props(q: Pt) requires on_curve(q) ensures on_curve(g_neg(q)), g_add(q, g_neg(q)) == Pt::Inf
{
    ecc_pos();
    match q {
        Pt::Inf => {},
        Pt::Aff { x, y } => {
            if y == 0 {
                ecc_shift(0, 1); ecc_small(0);
                assert((P() - 0) % P() == 0);
            } else {
                ecc_flip_y(y);
                ecc_small(P() - y);
                ecc_shift(0, 1); ecc_small(0);
                assert((y + (P() - y)) % P() == 0);
            }
        }
    }
}
pub proof fn ecc_cancel(m: Pt, q: Pt) requires on_curve(m), on_curve(q), g_add(m, q) == q ensures m == Pt::Inf
{
    ecc_neg_props(q);
    ax_group_assoc(m, q, g_neg(q));
}
// n is prime (ax_inv_n) and kills every point (ax_group_order): a non-trivial point has no smaller multiple equal to infinity
pub proof fn ecc_order(k: int, a: Pt) requires on_curve(a), 0 < k < N(), g_smul(k, a) == Pt::Inf ensures a == Pt::Inf
{
    lemma_params();
    lemma_small_mod(k as nat, N() as nat);
    ax_inv_n(k);
    let ki = inv_n(k);
    let x = k * ki;
    let t = x / N();
    lemma_fundamental_div_mod(x, N());
    assert(x >= 0) by(nonlinear_arith) requires x == k * ki, k > 0, ki >= 0;
    lemma_div_pos_is_pos(x, N());
    assert(x == t * N() + 1) by(nonlinear_arith) requires x == N() * t + 1;
    // (ki * k) a == ki (k a) == Inf
    assert(x == ki * k) by(nonlinear_arith) requires x == k * ki;
    ecc_smul_mul(ki, k, a);
    ecc_smul_inf(ki);
    // (t n + 1) a == t (n a) + a == a
    ecc_smul_mul(t, N(), a);
    ax_group_order(a);
    ecc_smul_inf(t);
    assert(t * N() >= 0) by(nonlinear_arith) requires t >= 0, N() > 0;
    lemma_smul_add(t * N(), 1, a);
    ecc_smul_one(a);
}
// ---------------------------------------------------------------- scalar digits (4-bit windows, most significant first)
pub open spec fn ecc_pow16(j: int) -> int decreases j { if j <= 0 { 1 } else { 16 * ecc_pow16(j - 1) } }
// the top j nibbles of a limb
pub open spec fn ecc_tj(w: u64, j: int) -> u64 { if j <= 0 { 0u64 } else { w >> ((64 - 4 * j) as u64) } }
// the value of the i most significant limbs
pub open spec fn ecc_hi(s: Seq<u64>, i: int) -> int {
    if i <= 0 { 0 } else if i == 1 { s[3] as int } else if i == 2 { 0x1_0000_0000_0000_0000int * (s[3] as int) + s[2] as int }
    else if i == 3 { 0x1_0000_0000_0000_0000int * (0x1_0000_0000_0000_0000int * (s[3] as int) + s[2] as int) + s[1] as int }
    else { 0x1_0000_0000_0000_0000int * (0x1_0000_0000_0000_0000int * (0x1_0000_0000_0000_0000int * (s[3] as int) + s[2] as int) + s[1] as int) + s[0] as int }
}
pub proof fn ecc_hi_props(s: Seq<u64>, i: int) requires s.len() == 4, 0 <= i < 4
    ensures ecc_hi(s, i + 1) == 0x1_0000_0000_0000_0000int * ecc_hi(s, i) + s[3 - i] as int, 0 <= ecc_hi(s, i), ecc_hi(s, i + 1) <= val4(s), ecc_hi(s, 4) == val4(s), ecc_hi(s, 0) == 0
{ }
pub proof fn ecc_pow16_le(j: int, k: int) requires 0 <= j <= k ensures 0 < ecc_pow16(j) <= ecc_pow16(k) decreases k
{
    if k > 0 {
        if j < k { ecc_pow16_le(j, k - 1); } else { ecc_pow16_le(j - 1, k - 1); }
    }
}
pub proof fn ecc_pow16_16() ensures ecc_pow16(16) == 0x1_0000_0000_0000_0000int, ecc_pow16(0) == 1
{ assert(ecc_pow16(16) == 0x1_0000_0000_0000_0000int) by(compute); }
// one window step inside limb w: nibble number j (0 = most significant), shift k = 4 (15 - j)
pub proof fn ecc_nibble(w: u64, j: int)
    requires 0 <= j < 16
    ensures ({ let k = ((15 - j) * 4) as u64; let index = w >> k; let d = index & 0x0f;
        d < 16 && index == ecc_tj(w, j + 1) && index as int == 16 * (ecc_tj(w, j) as int) + d as int && index <= w
        && (d != 0 ==> index >= 1 && ((index - 1) as u64) & 0x0f == d - 1) })
{
    let k = ((15 - j) * 4) as u64;
    let index = w >> k; let d = index & 0x0f;
    assert(k <= 60 && k % 4 == 0);
    assert((64 - 4 * (j + 1)) as u64 == k);
    assert((w >> k) & 0x0f < 16) by(bit_vector);
    assert((w >> k) <= w) by(bit_vector);
    if j == 0 {
        assert(k == 60);
        assert((w >> 60u64) == (w >> 60u64) & 0x0f) by(bit_vector);
    } else {
        let k4 = (k + 4) as u64;
        assert((64 - 4 * j) as u64 == k4);
        assert((w >> k) == 16 * (w >> k4) + ((w >> k) & 0x0f)) by(bit_vector) requires k <= 56, k4 == k + 4;
    }
    if d != 0 {
        assert(index >= 1 && ((index - 1) as u64) & 0x0f == (index & 0x0f) - 1) by(bit_vector) requires index & 0x0f != 0;
    }
}
pub proof fn ecc_tj_16(w: u64) ensures ecc_tj(w, 16) == w, ecc_tj(w, 0) == 0
{ assert(w >> 0u64 == w) by(bit_vector); }
pub proof fn ecc_acc_step(hi: int, pj: int, tjo: int, tjn: int, d: int, acc: int) requires acc == hi * pj + tjo, tjn == 16 * tjo + d
    ensures 16 * acc + d == hi * (16 * pj) + tjn
{ assert(16 * (hi * pj) == hi * (16 * pj)) by(nonlinear_arith); }
pub proof fn ecc_acc_bound(hi: int, pw: int, t: int, w: int) requires 0 <= hi, 0 < pw <= 0x1_0000_0000_0000_0000int, 0 <= t <= w
    ensures hi * pw + t <= 0x1_0000_0000_0000_0000int * hi + w, 0 <= hi * pw
{
    assert(hi * pw <= hi * 0x1_0000_0000_0000_0000int) by(nonlinear_arith) requires 0 <= hi, 0 < pw <= 0x1_0000_0000_0000_0000int;
    assert(0 <= hi * pw) by(nonlinear_arith) requires 0 <= hi, 0 < pw;
}
// ---------------------------------------------------------------- scalar bytes (8-bit comb, least significant first)
pub open spec fn pow256(i: int) -> int decreases i { if i <= 0 { 1 } else { 256 * pow256(i - 1) } }
// byte number i (0 = least significant) of a 4-limb little-endian scalar
pub open spec fn ecc_byte(s: Seq<u64>, i: int) -> int { ((s[i / 8] >> ((8 * (i % 8)) as u64)) & 0xff) as int }
// the value of the k least significant bytes
pub open spec fn ecc_lo(s: Seq<u64>, k: int) -> int decreases k { if k <= 0 { 0 } else { ecc_lo(s, k - 1) + ecc_byte(s, k - 1) * pow256(k - 1) } }
pub proof fn ecc_g_on_curve() ensures on_curve(G())
{ lemma_params(); }
pub proof fn ecc_pow256_pos(i: int) ensures pow256(i) > 0 decreases i
{ if i > 0 { ecc_pow256_pos(i - 1); } }
pub proof fn ecc_byte_range(s: Seq<u64>, i: int) ensures 0 <= ecc_byte(s, i) <= 255
{
    let w = s[i / 8]; let k = (8 * (i % 8)) as u64;
    assert(((w >> k) & 0xff) <= 255) by(bit_vector);
}
pub proof fn ecc_lo_bound(s: Seq<u64>, k: int) requires 0 <= k ensures 0 <= ecc_lo(s, k) < pow256(k), pow256(k) > 0 decreases k
{
    ecc_pow256_pos(k);
    if k > 0 {
        ecc_lo_bound(s, k - 1);
        ecc_byte_range(s, k - 1);
        let b = ecc_byte(s, k - 1); let p = pow256(k - 1);
        assert(0 <= b * p <= 255 * p) by(nonlinear_arith) requires 0 <= b <= 255, p > 0;
    }
}
pub proof fn ecc_lo_mono(s: Seq<u64>, j: int, k: int) requires 0 <= j <= k ensures ecc_lo(s, j) <= ecc_lo(s, k) decreases k
{
    if j < k {
        ecc_lo_mono(s, j, k - 1);
        ecc_byte_range(s, k - 1); ecc_pow256_pos(k - 1);
        let b = ecc_byte(s, k - 1); let p = pow256(k - 1);
        assert(0 <= b * p) by(nonlinear_arith) requires 0 <= b, p > 0;
    }
}
pub proof fn ecc_lo_step(p: int, v: int, b: int, c: int) ensures p * v + b * (c * p) == p * (v + c * b)
{ assert(p * v + b * (c * p) == p * (v + c * b)) by(nonlinear_arith); }
// the eight bytes of limb q
pub proof fn ecc_lo_word(s: Seq<u64>, q: int) requires s.len() == 4, 0 <= q < 4
    ensures ecc_lo(s, 8 * q + 8) == ecc_lo(s, 8 * q) + pow256(8 * q) * (s[q] as int)
{
    let w = s[q]; let p = pow256(8 * q); let n = 8 * q;
    let b0 = ecc_byte(s, n); let b1 = ecc_byte(s, n + 1); let b2 = ecc_byte(s, n + 2); let b3 = ecc_byte(s, n + 3);
    let b4 = ecc_byte(s, n + 4); let b5 = ecc_byte(s, n + 5); let b6 = ecc_byte(s, n + 6); let b7 = ecc_byte(s, n + 7);
    assert(b0 == ((w >> 0u64) & 0xff) as int && b1 == ((w >> 8u64) & 0xff) as int && b2 == ((w >> 16u64) & 0xff) as int && b3 == ((w >> 24u64) & 0xff) as int);
    assert(b4 == ((w >> 32u64) & 0xff) as int && b5 == ((w >> 40u64) & 0xff) as int && b6 == ((w >> 48u64) & 0xff) as int && b7 == ((w >> 56u64) & 0xff) as int);
    assert(w == ((w >> 0u64) & 0xff) + 0x100 * ((w >> 8u64) & 0xff) + 0x1_0000 * ((w >> 16u64) & 0xff) + 0x100_0000 * ((w >> 24u64) & 0xff)
        + 0x1_0000_0000 * ((w >> 32u64) & 0xff) + 0x100_0000_0000 * ((w >> 40u64) & 0xff) + 0x1_0000_0000_0000 * ((w >> 48u64) & 0xff) + 0x100_0000_0000_0000 * ((w >> 56u64) & 0xff)) by(bit_vector);
    assert(pow256(n + 1) == 256 * p);
    assert(pow256(n + 2) == 256 * pow256(n + 1));
    assert(pow256(n + 3) == 256 * pow256(n + 2));
    assert(pow256(n + 4) == 256 * pow256(n + 3));
    assert(pow256(n + 5) == 256 * pow256(n + 4));
    assert(pow256(n + 6) == 256 * pow256(n + 5));
    assert(pow256(n + 7) == 256 * pow256(n + 6));
    assert(ecc_lo(s, n + 1) == ecc_lo(s, n) + b0 * p);
    assert(ecc_lo(s, n + 2) == ecc_lo(s, n + 1) + b1 * pow256(n + 1));
    assert(ecc_lo(s, n + 3) == ecc_lo(s, n + 2) + b2 * pow256(n + 2));
    assert(ecc_lo(s, n + 4) == ecc_lo(s, n + 3) + b3 * pow256(n + 3));
    assert(ecc_lo(s, n + 5) == ecc_lo(s, n + 4) + b4 * pow256(n + 4));
    assert(ecc_lo(s, n + 6) == ecc_lo(s, n + 5) + b5 * pow256(n + 5));
    assert(ecc_lo(s, n + 7) == ecc_lo(s, n + 6) + b6 * pow256(n + 6));
    assert(ecc_lo(s, n + 8) == ecc_lo(s, n + 7) + b7 * pow256(n + 7));
    // Horner accumulation of the limb: v_t = the low t bytes of w
    ecc_lo_step(p, 0, b0, 1);
    ecc_lo_step(p, b0, b1, 0x100);
    ecc_lo_step(p, b0 + 0x100 * b1, b2, 0x1_0000);
    ecc_lo_step(p, b0 + 0x100 * b1 + 0x1_0000 * b2, b3, 0x100_0000);
    ecc_lo_step(p, b0 + 0x100 * b1 + 0x1_0000 * b2 + 0x100_0000 * b3, b4, 0x1_0000_0000);
    ecc_lo_step(p, b0 + 0x100 * b1 + 0x1_0000 * b2 + 0x100_0000 * b3 + 0x1_0000_0000 * b4, b5, 0x100_0000_0000);
    ecc_lo_step(p, b0 + 0x100 * b1 + 0x1_0000 * b2 + 0x100_0000 * b3 + 0x1_0000_0000 * b4 + 0x100_0000_0000 * b5, b6, 0x1_0000_0000_0000);
    ecc_lo_step(p, b0 + 0x100 * b1 + 0x1_0000 * b2 + 0x100_0000 * b3 + 0x1_0000_0000 * b4 + 0x100_0000_0000 * b5 + 0x1_0000_0000_0000 * b6, b7, 0x100_0000_0000_0000);
    assert(ecc_lo(s, n + 4) == ecc_lo(s, n) + p * (b0 + 0x100 * b1 + 0x1_0000 * b2 + 0x100_0000 * b3));
}
pub proof fn ecc_lo_32(s: Seq<u64>) requires s.len() == 4 ensures ecc_lo(s, 32) == val4(s), ecc_lo(s, 0) == 0
{
    ecc_lo_word(s, 0); ecc_lo_word(s, 1); ecc_lo_word(s, 2); ecc_lo_word(s, 3);
    assert(pow256(0) == 1 && pow256(8) == 0x1_0000_0000_0000_0000int && pow256(16) == 0x1_0000_0000_0000_0000int * 0x1_0000_0000_0000_0000int
        && pow256(24) == 0x1_0000_0000_0000_0000int * 0x1_0000_0000_0000_0000int * 0x1_0000_0000_0000_0000int) by(compute);
}
// ---------------------------------------------------------------- congruence toolkit for the group-law proofs (point_dbl, point_add)
pub proof fn ecc_modmod(a: int) ensures (a % P()) % P() == a % P()
{ ecc_pos(); lemma_mod_twice(a, P()); }
// r is (a op b) % p, the operands are known up to congruence: r == a2 op b2 (mod p)
pub proof fn ecc_cm(r: int, a: int, b: int, a2: int, b2: int) requires r == (a * b) % P(), a % P() == a2 % P(), b % P() == b2 % P() ensures r % P() == (a2 * b2) % P()
{ ecc_modmod(a * b); ecc_cong_mul(a, a2, b); ecc_cong_mul(b, b2, a2); }
pub proof fn ecc_ca(r: int, a: int, b: int, a2: int, b2: int) requires r == (a + b) % P(), a % P() == a2 % P(), b % P() == b2 % P() ensures r % P() == (a2 + b2) % P()
{ ecc_modmod(a + b); ecc_cong_add(a, a2, b, b2); }
pub proof fn ecc_cs(r: int, a: int, b: int, a2: int, b2: int) requires r == (a - b) % P(), a % P() == a2 % P(), b % P() == b2 % P() ensures r % P() == (a2 - b2) % P()
{ ecc_modmod(a - b); ecc_cong_add(a, a2, b, b2); }
pub proof fn ecc_ck(r: int, k: int, a: int, a2: int) requires r == (k * a) % P(), a % P() == a2 % P() ensures r % P() == (k * a2) % P()
{ ecc_modmod(k * a); ecc_cong_mul(a, a2, k); }
// a == b (mod p)  <==>  a - b == 0 (mod p)
pub proof fn ecc_diff(a: int, b: int) ensures ((a - b) % P() == 0) == (a % P() == b % P())
{
    ecc_pos(); ecc_small(0);
    if (a - b) % P() == 0 { ecc_cong_add(a - b, 0, b, b); }
    if a % P() == b % P() { ecc_cong_add(a, b, b, b); }
}
// linear combinations of things that vanish mod p vanish mod p
pub proof fn ecc_lin1(e1: int, k1: int) requires e1 % P() == 0 ensures (e1 * k1) % P() == 0
{ ecc_pos(); ecc_small(0); ecc_cong_mul(e1, 0, k1); assert(0 * k1 == 0); }
pub proof fn ecc_lin2(e1: int, k1: int, e2: int, k2: int) requires e1 % P() == 0, e2 % P() == 0
    ensures (e1 * k1 + e2 * k2) % P() == 0, (e1 * k1 - e2 * k2) % P() == 0
{ ecc_pos(); ecc_small(0); ecc_lin1(e1, k1); ecc_lin1(e2, k2); ecc_cong_add(e1 * k1, 0, e2 * k2, 0); }
pub proof fn ecc_lin3(e1: int, k1: int, e2: int, k2: int, e3: int) requires e1 % P() == 0, e2 % P() == 0, e3 % P() == 0
    ensures (e1 * k1 + e2 * k2 + e3) % P() == 0
{ ecc_pos(); ecc_small(0); ecc_lin2(e1, k1, e2, k2); ecc_cong_add(e1 * k1 + e2 * k2, 0, e3, 0); }
// p is prime (through ax_inv_p): no zero divisors
pub proof fn ecc_nz_mul(a: int, b: int) requires a % P() != 0, b % P() != 0 ensures (a * b) % P() != 0
{
    if (a * b) % P() == 0 {
        ax_inv_p(a);
        let ai = inv_p(a);
        ecc_lin1(a * b, ai);
        assert((a * b) * ai == b * (a * ai)) by(nonlinear_arith);
        ecc_unit(b, a * ai);
    }
}
// ---------------------------------------------------------------- ring axioms: integer polynomial identities, each proved by Lean `ring` (vf.ringcheck)
#[verifier::external_body]
pub proof fn ring_par2(xa: int, x: int, z: int, zi: int)
    ensures xa * z * z - x
        == (xa - x * zi * zi) * (z * z) + (z * zi - 1) * (x * (z * zi + 1))
{ }
#[verifier::external_body]
pub proof fn ring_par3(ya: int, y: int, z: int, zi: int)
    ensures ya * z * z * z - y
        == (ya - y * zi * zi * zi) * (z * z * z) + (z * zi - 1) * (y * (z * zi * (z * zi) + z * zi + 1))
{ }
#[verifier::external_body]
pub proof fn ring_div2(a: int, b: int, z: int, w: int)
    ensures a * w * w - b
        == (a - b * (z * z)) * (w * w) + (z * w - 1) * (b * (z * w + 1))
{ }
#[verifier::external_body]
pub proof fn ring_div3(a: int, b: int, z: int, w: int)
    ensures a * w * w * w - b
        == (a - b * (z * z * z)) * (w * w * w) + (z * w - 1) * (b * (z * w * (z * w) + z * w + 1))
{ }
// ---------------------------------------------------------------- Jacobian <-> affine
// affine coordinates xa = x / z^2, ya = y / z^3 give back x == xa z^2, y == ya z^3 (mod p)
pub proof fn ecc_param(x: int, y: int, z: int, zi: int, xa: int, ya: int)
    requires (z * zi) % P() == 1, xa == (x * zi * zi) % P(), ya == (y * zi * zi * zi) % P()
    ensures x % P() == (xa * z * z) % P(), y % P() == (ya * z * z * z) % P()
{
    ecc_pos(); ecc_small(1);
    ecc_modmod(x * zi * zi); ecc_modmod(y * zi * zi * zi);
    ecc_diff(xa, x * zi * zi); ecc_diff(ya, y * zi * zi * zi); ecc_diff(z * zi, 1);
    ring_par2(xa, x, z, zi);
    ecc_lin2(xa - x * zi * zi, z * z, z * zi - 1, x * (z * zi + 1));
    ecc_diff(xa * z * z, x);
    ring_par3(ya, y, z, zi);
    ecc_lin2(ya - y * zi * zi * zi, z * z * z, z * zi - 1, y * (z * zi * (z * zi) + z * zi + 1));
    ecc_diff(ya * z * z * z, y);
}
// dividing by z^2 and z^3: a == b z^2 (mod p) gives a / z^2 == b
pub proof fn ecc_div2(a: int, b: int, z: int, w: int) requires a % P() == (b * (z * z)) % P(), (z * w) % P() == 1 ensures (a * w * w) % P() == b % P()
{
    ecc_pos(); ecc_small(1);
    ecc_diff(a, b * (z * z)); ecc_diff(z * w, 1);
    ring_div2(a, b, z, w);
    ecc_lin2(a - b * (z * z), w * w, z * w - 1, b * (z * w + 1));
    ecc_diff(a * w * w, b);
}
pub proof fn ecc_div3(a: int, b: int, z: int, w: int) requires a % P() == (b * (z * z * z)) % P(), (z * w) % P() == 1 ensures (a * w * w * w) % P() == b % P()
{
    ecc_pos(); ecc_small(1);
    ecc_diff(a, b * (z * z * z)); ecc_diff(z * w, 1);
    ring_div3(a, b, z, w);
    ecc_lin2(a - b * (z * z * z), w * w * w, z * w - 1, b * (z * w * (z * w) + z * w + 1));
    ecc_diff(a * w * w * w, b);
}
// a non-zero residue has non-zero affine images, and an affine point on the curve has ya != 0 (no 2-torsion)
pub proof fn ecc_aff_nonzero(x: int, y: int, z: int)
    requires 0 <= x < P(), 0 <= y < P(), 0 < z < P(),
        on_curve(Pt::Aff { x: (x * inv_p(z) * inv_p(z)) % P(), y: (y * inv_p(z) * inv_p(z) * inv_p(z)) % P() })
    ensures (z * inv_p(z)) % P() == 1, (y * inv_p(z) * inv_p(z) * inv_p(z)) % P() != 0, y != 0,
        (2 * ((y * inv_p(z) * inv_p(z) * inv_p(z)) % P())) % P() != 0
{
    ecc_pos(); ecc_small(z); ecc_small(0); ecc_small(2);
    ax_inv_p(z);
    let zi = inv_p(z);
    let xa = (x * zi * zi) % P(); let ya = (y * zi * zi * zi) % P();
    ecc_range(x * zi * zi); ecc_range(y * zi * zi * zi);
    if ya == 0 {
        assert(ya * ya == 0) by(nonlinear_arith) requires ya == 0;
        ecc_no_2torsion(xa);
    }
    if y == 0 {
        assert(y * zi * zi * zi == 0) by(nonlinear_arith) requires y == 0;
    }
    ecc_small(ya);
    ecc_nz_mul(2, ya);
}
// ---------------------------------------------------------------- point_dbl
// the values computed by point_dbl (every field operation reduces mod p)
pub open spec fn ecc_dbl_rel(X: int, Y: int, Z: int, zz: int, yy: int, al: int, l6: int, x3: int, u1: int, u2: int, y3: int, yz: int, z3: int) -> bool {
    zz == (Z * Z) % P() && yy == (Y * Y) % P()
    && al == (3 * ((((X - zz) % P()) * ((X + zz) % P())) % P())) % P()
    && l6 == (2 * ((2 * ((X * yy) % P())) % P())) % P()
    && x3 == ((al * al) % P() - (2 * l6) % P()) % P()
    && u1 == (al * ((l6 - x3) % P())) % P()
    && u2 == (2 * ((2 * ((2 * ((yy * yy) % P())) % P())) % P())) % P()
    && y3 == (u1 - u2) % P()
    && yz == (Y + Z) % P()
    && z3 == ((((yz * yz) % P() - yy) % P()) - zz) % P()
}
// ... are congruent to the doubling polynomials, evaluated at anything congruent to the inputs
pub proof fn ecc_dbl_chain(X: int, Y: int, Z: int, zz: int, yy: int, al: int, l6: int, x3: int, u1: int, u2: int, y3: int, yz: int, z3: int, Xp: int, Yp: int, Zp: int)
    requires ecc_dbl_rel(X, Y, Z, zz, yy, al, l6, x3, u1, u2, y3, yz, z3), X % P() == Xp % P(), Y % P() == Yp % P(), Z % P() == Zp % P()
    ensures ({
        let A = 3 * ((Xp - Zp * Zp) * (Xp + Zp * Zp)); let L = 2 * (2 * (Xp * (Yp * Yp))); let X3 = A * A - 2 * L;
        let U2 = 2 * (2 * (2 * ((Yp * Yp) * (Yp * Yp))));
        x3 % P() == X3 % P() && y3 % P() == (A * (L - X3) - U2) % P() && z3 % P() == ((Yp + Zp) * (Yp + Zp) - Yp * Yp - Zp * Zp) % P() })
{
    let p = P();
    let A = 3 * ((Xp - Zp * Zp) * (Xp + Zp * Zp)); let L = 2 * (2 * (Xp * (Yp * Yp))); let X3 = A * A - 2 * L;
    let U2 = 2 * (2 * (2 * ((Yp * Yp) * (Yp * Yp))));
    ecc_cm(zz, Z, Z, Zp, Zp);
    ecc_cm(yy, Y, Y, Yp, Yp);
    let t1 = (X - zz) % p; ecc_cs(t1, X, zz, Xp, Zp * Zp);
    let t2 = (X + zz) % p; ecc_ca(t2, X, zz, Xp, Zp * Zp);
    let t3 = (t1 * t2) % p; ecc_cm(t3, t1, t2, Xp - Zp * Zp, Xp + Zp * Zp);
    ecc_ck(al, 3, t3, (Xp - Zp * Zp) * (Xp + Zp * Zp));
    assert(al % p == A % p);
    let m1 = (X * yy) % p; ecc_cm(m1, X, yy, Xp, Yp * Yp);
    let m2 = (2 * m1) % p; ecc_ck(m2, 2, m1, Xp * (Yp * Yp));
    ecc_ck(l6, 2, m2, 2 * (Xp * (Yp * Yp)));
    assert(l6 % p == L % p);
    let a2 = (al * al) % p; ecc_cm(a2, al, al, A, A);
    let l2 = (2 * l6) % p; ecc_ck(l2, 2, l6, L);
    ecc_cs(x3, a2, l2, A * A, 2 * L);
    assert(x3 % p == X3 % p);
    let d = (l6 - x3) % p; ecc_cs(d, l6, x3, L, X3);
    ecc_cm(u1, al, d, A, L - X3);
    let q = (yy * yy) % p; ecc_cm(q, yy, yy, Yp * Yp, Yp * Yp);
    let q2 = (2 * q) % p; ecc_ck(q2, 2, q, (Yp * Yp) * (Yp * Yp));
    let q4 = (2 * q2) % p; ecc_ck(q4, 2, q2, 2 * ((Yp * Yp) * (Yp * Yp)));
    ecc_ck(u2, 2, q4, 2 * (2 * ((Yp * Yp) * (Yp * Yp))));
    ecc_cs(y3, u1, u2, A * (L - X3), U2);
    ecc_ca(yz, Y, Z, Yp, Zp);
    let s = (yz * yz) % p; ecc_cm(s, yz, yz, Yp + Zp, Yp + Zp);
    let s2 = (s - yy) % p; ecc_cs(s2, s, yy, (Yp + Zp) * (Yp + Zp), Yp * Yp);
    ecc_cs(z3, s2, zz, (Yp + Zp) * (Yp + Zp) - Yp * Yp, Zp * Zp);
}
#[verifier::external_body]
pub proof fn ring_dbl_x(xa: int, ya: int, z: int, lam: int)
    ensures (lam * lam - xa - xa) * ((((ya * z * z * z) + z) * ((ya * z * z * z) + z) - (ya * z * z * z) * (ya * z * z * z) - z * z) * (((ya * z * z * z) + z) * ((ya * z * z * z) + z) - (ya * z * z * z) * (ya * z * z * z) - z * z)) - ((3 * (((xa * z * z) - z * z) * ((xa * z * z) + z * z))) * (3 * (((xa * z * z) - z * z) * ((xa * z * z) + z * z))) - 2 * (2 * (2 * ((xa * z * z) * ((ya * z * z * z) * (ya * z * z * z))))))
        == (2 * ya * lam - (3 * xa * xa - 3)) * (((z * z * z * z) * (z * z * z * z)) * (2 * ya * lam + (3 * xa * xa - 3)))
{ }
#[verifier::external_body]
pub proof fn ring_dbl_y(xa: int, ya: int, z: int, lam: int, s: int)
    ensures (lam * (xa - s) - ya) * ((((ya * z * z * z) + z) * ((ya * z * z * z) + z) - (ya * z * z * z) * (ya * z * z * z) - z * z) * (((ya * z * z * z) + z) * ((ya * z * z * z) + z) - (ya * z * z * z) * (ya * z * z * z) - z * z) * (((ya * z * z * z) + z) * ((ya * z * z * z) + z) - (ya * z * z * z) * (ya * z * z * z) - z * z)) - ((3 * (((xa * z * z) - z * z) * ((xa * z * z) + z * z))) * ((2 * (2 * ((xa * z * z) * ((ya * z * z * z) * (ya * z * z * z))))) - ((3 * (((xa * z * z) - z * z) * ((xa * z * z) + z * z))) * (3 * (((xa * z * z) - z * z) * ((xa * z * z) + z * z))) - 2 * (2 * (2 * ((xa * z * z) * ((ya * z * z * z) * (ya * z * z * z))))))) - (2 * (2 * (2 * (((ya * z * z * z) * (ya * z * z * z)) * ((ya * z * z * z) * (ya * z * z * z)))))))
        == (2 * ya * lam - (3 * xa * xa - 3)) * ((z * z * z * z) * ((2 * (2 * ((xa * z * z) * ((ya * z * z * z) * (ya * z * z * z))))) - s * ((((ya * z * z * z) + z) * ((ya * z * z * z) + z) - (ya * z * z * z) * (ya * z * z * z) - z * z) * (((ya * z * z * z) + z) * ((ya * z * z * z) + z) - (ya * z * z * z) * (ya * z * z * z) - z * z)))) - (s * ((((ya * z * z * z) + z) * ((ya * z * z * z) + z) - (ya * z * z * z) * (ya * z * z * z) - z * z) * (((ya * z * z * z) + z) * ((ya * z * z * z) + z) - (ya * z * z * z) * (ya * z * z * z) - z * z)) - ((3 * (((xa * z * z) - z * z) * ((xa * z * z) + z * z))) * (3 * (((xa * z * z) - z * z) * ((xa * z * z) + z * z))) - 2 * (2 * (2 * ((xa * z * z) * ((ya * z * z * z) * (ya * z * z * z))))))) * (3 * (((xa * z * z) - z * z) * ((xa * z * z) + z * z)))
{ }
#[verifier::external_body]
pub proof fn ring_dbl_slope(xa: int, ya: int, lam: int, d: int, ca: int)
    ensures 2 * ya * lam - (3 * xa * xa - 3)
        == (lam - (3 * xa * xa + ca) * d) * (2 * ya) + (2 * ya * d - 1) * (3 * xa * xa + ca) + (ca + 3)
{ }
#[verifier::external_body]
pub proof fn ring_dbl_z(y: int, z: int)
    ensures (y + z) * (y + z) - y * y - z * z
        == 2 * y * z
{ }
// affine doubling law for Jacobian inputs with Z != 0 (pure integer statement)
pub proof fn ecc_dbl_aff(X: int, Y: int, Z: int, zz: int, yy: int, al: int, l6: int, x3: int, u1: int, u2: int, y3: int, yz: int, z3: int)
    requires 0 <= X < P(), 0 <= Y < P(), 0 < Z < P(), 0 <= x3 < P(), 0 <= y3 < P(), 0 <= z3 < P(),
        ecc_dbl_rel(X, Y, Z, zz, yy, al, l6, x3, u1, u2, y3, yz, z3),
        on_curve(Pt::Aff { x: (X * inv_p(Z) * inv_p(Z)) % P(), y: (Y * inv_p(Z) * inv_p(Z) * inv_p(Z)) % P() })
    ensures z3 != 0, ({ let q = Pt::Aff { x: (X * inv_p(Z) * inv_p(Z)) % P(), y: (Y * inv_p(Z) * inv_p(Z) * inv_p(Z)) % P() }; let w = inv_p(z3);
        g_add(q, q) == Pt::Aff { x: (x3 * w * w) % P(), y: (y3 * w * w * w) % P() } })
{
    ecc_pos(); ecc_small(0); ecc_small(1); ecc_small(2);
    let zi = inv_p(Z); let xa = (X * zi * zi) % P(); let ya = (Y * zi * zi * zi) % P();
    ecc_aff_nonzero(X, Y, Z);
    ecc_param(X, Y, Z, zi, xa, ya);
    let z = Z;
    let Xp = xa * z * z; let Yp = ya * z * z * z;
    let A = 3 * ((Xp - z * z) * (Xp + z * z)); let L = 2 * (2 * (Xp * (Yp * Yp))); let X3 = A * A - 2 * L;
    let U2 = 2 * (2 * (2 * ((Yp * Yp) * (Yp * Yp)))); let Y3 = A * (L - X3) - U2;
    let Z3 = (Yp + z) * (Yp + z) - Yp * Yp - z * z;
    ecc_dbl_chain(X, Y, Z, zz, yy, al, l6, x3, u1, u2, y3, yz, z3, Xp, Yp, z);
    assert(x3 % P() == X3 % P() && y3 % P() == Y3 % P() && z3 % P() == Z3 % P());
    // z3 == 2 Y Z is a unit
    ring_dbl_z(Yp, z);
    ecc_small(Y); ecc_small(Z); ecc_small(z3);
    ecc_nz_mul(2, Yp); ecc_nz_mul(2 * Yp, z);
    assert(z3 != 0);
    ax_inv_p(z3);
    let w = inv_p(z3);
    ecc_cong_mul(z3, Z3, w);
    // the slope: 2 ya lam == 3 xa^2 - 3
    ecc_range(ya); ecc_small(ya);
    ax_inv_p(2 * ya);
    let d = inv_p(2 * ya);
    let lam = ((3 * xa * xa + CA()) * d) % P();
    ecc_modmod((3 * xa * xa + CA()) * d);
    ecc_diff(lam, (3 * xa * xa + CA()) * d);
    ecc_diff(2 * ya * d, 1);
    ecc_shift(0, 1);
    assert((CA() + 3) % P() == 0);
    ring_dbl_slope(xa, ya, lam, d, CA());
    ecc_lin3(lam - (3 * xa * xa + CA()) * d, 2 * ya, 2 * ya * d - 1, 3 * xa * xa + CA(), CA() + 3);
    let e = 2 * ya * lam - (3 * xa * xa - 3);
    assert(e % P() == 0);
    // x3 / z3^2
    let s = (lam * lam - xa - xa) % P();
    let K = ((z * z * z * z) * (z * z * z * z)) * (2 * ya * lam + (3 * xa * xa - 3));
    ring_dbl_x(xa, ya, z, lam);
    assert((lam * lam - xa - xa) * (Z3 * Z3) - X3 == e * K);
    ecc_lin1(e, K);
    ecc_diff((lam * lam - xa - xa) * (Z3 * Z3), X3);
    ecc_modmod(lam * lam - xa - xa);
    ecc_cong_mul(s, lam * lam - xa - xa, Z3 * Z3);
    ecc_div2(x3, s, Z3, w);
    assert((x3 * w * w) % P() == s);
    // y3 / z3^3
    let t = lam * (xa - s) - ya;
    let K2 = (z * z * z * z) * (L - s * (Z3 * Z3));
    let e2 = s * (Z3 * Z3) - X3;
    ring_dbl_y(xa, ya, z, lam, s);
    assert(t * (Z3 * Z3 * Z3) - Y3 == e * K2 - e2 * A);
    ecc_diff(s * (Z3 * Z3), X3);
    ecc_lin2(e, K2, e2, A);
    ecc_diff(t * (Z3 * Z3 * Z3), Y3);
    let yr = t % P();
    ecc_modmod(t);
    ecc_cong_mul(yr, t, Z3 * Z3 * Z3);
    ecc_div3(y3, yr, Z3, w);
    assert((y3 * w * w * w) % P() == yr);
    assert((ya + ya) % P() != 0);
}
// point_dbl against the group law
pub proof fn ecc_dbl_main(x: Seq<u64>, y: Seq<u64>, z: Seq<u64>, x3: Seq<u64>, y3: Seq<u64>, z3: Seq<u64>, zz: int, yy: int, al: int, l6: int, u1: int, u2: int, yz: int)
    requires canon(x), canon(y), canon(z), canon(x3), canon(y3), canon(z3), on_curve(abs_pt(x, y, z)),
        ecc_dbl_rel(fe(x), fe(y), fe(z), zz, yy, al, l6, fe(x3), u1, u2, fe(y3), yz, fe(z3))
    ensures abs_pt(x3, y3, z3) == g_add(abs_pt(x, y, z), abs_pt(x, y, z)), on_curve(abs_pt(x3, y3, z3))
{
    ecc_pos(); ecc_small(0);
    let (X, Y, Z) = (fe(x), fe(y), fe(z));
    ecc_fe_range(x); ecc_fe_range(y); ecc_fe_range(z); ecc_fe_range(x3); ecc_fe_range(y3); ecc_fe_range(z3);
    ecc_fe_zero(z); ecc_fe_zero(z3);
    ax_group_closed(abs_pt(x, y, z), abs_pt(x, y, z));
    if val4(z) == 0 {
        ecc_dbl_chain(X, Y, Z, zz, yy, al, l6, fe(x3), u1, u2, fe(y3), yz, fe(z3), X, Y, Z);
        ring_dbl_z(Y, Z);
        assert(2 * Y * Z == 0) by(nonlinear_arith) requires Z == 0;
        ecc_small(fe(z3));
        assert(val4(z3) == 0);
    } else {
        ecc_dbl_aff(X, Y, Z, zz, yy, al, l6, fe(x3), u1, u2, fe(y3), yz, fe(z3));
    }
}
// ---------------------------------------------------------------- point_add
// two points with the same x on the curve are equal or opposite
pub proof fn ecc_same_x(x: int, y1: int, y2: int)
    requires on_curve(Pt::Aff { x: x, y: y1 }), on_curve(Pt::Aff { x: x, y: y2 }), (y1 + y2) % P() != 0
    ensures y1 == y2
{
    ecc_pos();
    ecc_diff(y1 * y1, y2 * y2);
    ring_sqdiff(y1, y2);
    if (y1 - y2) % P() != 0 { ecc_nz_mul(y1 - y2, y1 + y2); }
    ecc_diff(y1, y2);
    ecc_small(y1); ecc_small(y2);
}
// the values computed by the generic branch of point_add
pub open spec fn ecc_add_rel(X1: int, Y1: int, Z1: int, X2: int, Y2: int, Z2: int, z1s: int, z2s: int, u1: int, u2: int, y1z2: int, s1: int, y2z1: int, s2: int,
    h: int, r: int, hh: int, hhh: int, v: int, rs: int, rsh: int, x3: int, vx: int, rvx: int, s1h: int, y3: int, z3: int) -> bool {
    z1s == (Z1 * Z1) % P() && z2s == (Z2 * Z2) % P() && u1 == (X1 * z2s) % P() && u2 == (X2 * z1s) % P()
    && y1z2 == (Y1 * Z2) % P() && s1 == (y1z2 * z2s) % P() && y2z1 == (Y2 * Z1) % P() && s2 == (y2z1 * z1s) % P()
    && h == (u2 - u1) % P() && r == (s2 - s1) % P() && hh == (h * h) % P() && hhh == (hh * h) % P() && v == (u1 * hh) % P()
    && rs == (r * r) % P() && rsh == (rs - hhh) % P() && x3 == (rsh - (2 * v) % P()) % P() && vx == (v - x3) % P() && rvx == (r * vx) % P()
    && s1h == (s1 * hhh) % P() && y3 == (rvx - s1h) % P() && z3 == (((Z1 * Z2) % P()) * h) % P()
}
// u1, u2, s1, s2 in terms of the affine coordinates and t = z1 z2
pub proof fn ecc_add_pre(X1: int, Y1: int, Z1: int, X2: int, Y2: int, Z2: int, z1s: int, z2s: int, u1: int, u2: int, y1z2: int, s1: int, y2z1: int, s2: int,
    x1a: int, y1a: int, x2a: int, y2a: int)
    requires z1s == (Z1 * Z1) % P(), z2s == (Z2 * Z2) % P(), u1 == (X1 * z2s) % P(), u2 == (X2 * z1s) % P(),
        y1z2 == (Y1 * Z2) % P(), s1 == (y1z2 * z2s) % P(), y2z1 == (Y2 * Z1) % P(), s2 == (y2z1 * z1s) % P(),
        X1 % P() == (x1a * Z1 * Z1) % P(), Y1 % P() == (y1a * Z1 * Z1 * Z1) % P(), X2 % P() == (x2a * Z2 * Z2) % P(), Y2 % P() == (y2a * Z2 * Z2 * Z2) % P()
    ensures ({ let t = Z1 * Z2; u1 % P() == (x1a * t * t) % P() && u2 % P() == (x2a * t * t) % P() && s1 % P() == (y1a * t * t * t) % P() && s2 % P() == (y2a * t * t * t) % P() })
{
    ecc_cm(z1s, Z1, Z1, Z1, Z1); ecc_cm(z2s, Z2, Z2, Z2, Z2);
    ecc_cm(u1, X1, z2s, x1a * Z1 * Z1, Z2 * Z2); ring_add_u1(x1a, Z1, Z2);
    ecc_cm(u2, X2, z1s, x2a * Z2 * Z2, Z1 * Z1); ring_add_u2(x2a, Z1, Z2);
    ecc_cm(y1z2, Y1, Z2, y1a * Z1 * Z1 * Z1, Z2); ecc_cm(s1, y1z2, z2s, (y1a * Z1 * Z1 * Z1) * Z2, Z2 * Z2); ring_add_s1(y1a, Z1, Z2);
    ecc_cm(y2z1, Y2, Z1, y2a * Z2 * Z2 * Z2, Z1); ecc_cm(s2, y2z1, z1s, (y2a * Z2 * Z2 * Z2) * Z1, Z1 * Z1); ring_add_s2(y2a, Z1, Z2);
}
// the rest of the chain, evaluated at anything congruent to u1, u2, s1, s2, z1 z2
pub proof fn ecc_add_chain(u1: int, u2: int, s1: int, s2: int, zz: int, h: int, r: int, hh: int, hhh: int, v: int, rs: int, rsh: int, x3: int, vx: int, rvx: int, s1h: int, y3: int, z3: int,
    U1: int, U2: int, S1: int, S2: int, T: int)
    requires h == (u2 - u1) % P(), r == (s2 - s1) % P(), hh == (h * h) % P(), hhh == (hh * h) % P(), v == (u1 * hh) % P(),
        rs == (r * r) % P(), rsh == (rs - hhh) % P(), x3 == (rsh - (2 * v) % P()) % P(), vx == (v - x3) % P(), rvx == (r * vx) % P(),
        s1h == (s1 * hhh) % P(), y3 == (rvx - s1h) % P(), z3 == (zz * h) % P(),
        u1 % P() == U1 % P(), u2 % P() == U2 % P(), s1 % P() == S1 % P(), s2 % P() == S2 % P(), zz % P() == T % P()
    ensures ({
        let H = U2 - U1; let R = S2 - S1; let HHH = (H * H) * H; let V = U1 * (H * H); let X3 = R * R - HHH - 2 * V;
        h % P() == H % P() && x3 % P() == X3 % P() && y3 % P() == (R * (V - X3) - S1 * HHH) % P() && z3 % P() == (T * H) % P() })
{
    let p = P();
    let H = U2 - U1; let R = S2 - S1; let HHH = (H * H) * H; let V = U1 * (H * H); let X3 = R * R - HHH - 2 * V;
    ecc_cs(h, u2, u1, U2, U1);
    ecc_cs(r, s2, s1, S2, S1);
    ecc_cm(hh, h, h, H, H);
    ecc_cm(hhh, hh, h, H * H, H);
    ecc_cm(v, u1, hh, U1, H * H);
    ecc_cm(rs, r, r, R, R);
    ecc_cs(rsh, rs, hhh, R * R, HHH);
    let v2 = (2 * v) % p; ecc_ck(v2, 2, v, V);
    ecc_cs(x3, rsh, v2, R * R - HHH, 2 * V);
    ecc_cs(vx, v, x3, V, X3);
    ecc_cm(rvx, r, vx, R, V - X3);
    ecc_cm(s1h, s1, hhh, S1, HHH);
    ecc_cs(y3, rvx, s1h, R * (V - X3), S1 * HHH);
    ecc_cm(z3, zz, h, T, H);
}
#[verifier::external_body]
pub proof fn ring_add_u1(x: int, z1: int, z2: int)
    ensures (x * z1 * z1) * (z2 * z2)
        == x * (z1 * z2) * (z1 * z2)
{ }
#[verifier::external_body]
pub proof fn ring_add_u2(x: int, z1: int, z2: int)
    ensures (x * z2 * z2) * (z1 * z1)
        == x * (z1 * z2) * (z1 * z2)
{ }
#[verifier::external_body]
pub proof fn ring_add_s1(y: int, z1: int, z2: int)
    ensures ((y * z1 * z1 * z1) * z2) * (z2 * z2)
        == y * (z1 * z2) * (z1 * z2) * (z1 * z2)
{ }
#[verifier::external_body]
pub proof fn ring_add_s2(y: int, z1: int, z2: int)
    ensures ((y * z2 * z2 * z2) * z1) * (z1 * z1)
        == y * (z1 * z2) * (z1 * z2) * (z1 * z2)
{ }
#[verifier::external_body]
pub proof fn ring_add_h(x1a: int, x2a: int, t: int)
    ensures ((x2a * t * t) - (x1a * t * t))
        == (x2a - x1a) * (t * t)
{ }
#[verifier::external_body]
pub proof fn ring_add_slope(dx: int, dy: int, lam: int, d: int)
    ensures lam * dx - dy
        == (lam - dy * d) * dx + (dx * d - 1) * dy
{ }
#[verifier::external_body]
pub proof fn ring_add_x(x1a: int, y1a: int, x2a: int, y2a: int, t: int, lam: int)
    ensures (lam * lam - x1a - x2a) * ((t * ((x2a * t * t) - (x1a * t * t))) * (t * ((x2a * t * t) - (x1a * t * t)))) - (((y2a * t * t * t) - (y1a * t * t * t)) * ((y2a * t * t * t) - (y1a * t * t * t)) - ((((x2a * t * t) - (x1a * t * t)) * ((x2a * t * t) - (x1a * t * t))) * ((x2a * t * t) - (x1a * t * t))) - 2 * ((x1a * t * t) * (((x2a * t * t) - (x1a * t * t)) * ((x2a * t * t) - (x1a * t * t)))))
        == (lam * (x2a - x1a) - (y2a - y1a)) * (((t * t * t) * (t * t * t)) * (lam * (x2a - x1a) + (y2a - y1a)))
{ }
#[verifier::external_body]
pub proof fn ring_add_y(x1a: int, y1a: int, x2a: int, y2a: int, t: int, lam: int, s: int)
    ensures (lam * (x1a - s) - y1a) * ((t * ((x2a * t * t) - (x1a * t * t))) * (t * ((x2a * t * t) - (x1a * t * t))) * (t * ((x2a * t * t) - (x1a * t * t)))) - (((y2a * t * t * t) - (y1a * t * t * t)) * (((x1a * t * t) * (((x2a * t * t) - (x1a * t * t)) * ((x2a * t * t) - (x1a * t * t)))) - (((y2a * t * t * t) - (y1a * t * t * t)) * ((y2a * t * t * t) - (y1a * t * t * t)) - ((((x2a * t * t) - (x1a * t * t)) * ((x2a * t * t) - (x1a * t * t))) * ((x2a * t * t) - (x1a * t * t))) - 2 * ((x1a * t * t) * (((x2a * t * t) - (x1a * t * t)) * ((x2a * t * t) - (x1a * t * t)))))) - (y1a * t * t * t) * ((((x2a * t * t) - (x1a * t * t)) * ((x2a * t * t) - (x1a * t * t))) * ((x2a * t * t) - (x1a * t * t))))
        == (lam * (x2a - x1a) - (y2a - y1a)) * ((t * t * t) * (((x1a * t * t) * (((x2a * t * t) - (x1a * t * t)) * ((x2a * t * t) - (x1a * t * t)))) - s * ((t * ((x2a * t * t) - (x1a * t * t))) * (t * ((x2a * t * t) - (x1a * t * t)))))) - (s * ((t * ((x2a * t * t) - (x1a * t * t))) * (t * ((x2a * t * t) - (x1a * t * t)))) - (((y2a * t * t * t) - (y1a * t * t * t)) * ((y2a * t * t * t) - (y1a * t * t * t)) - ((((x2a * t * t) - (x1a * t * t)) * ((x2a * t * t) - (x1a * t * t))) * ((x2a * t * t) - (x1a * t * t))) - 2 * ((x1a * t * t) * (((x2a * t * t) - (x1a * t * t)) * ((x2a * t * t) - (x1a * t * t)))))) * ((y2a * t * t * t) - (y1a * t * t * t))
{ }
#[verifier::external_body]
pub proof fn ring_sqdiff(a: int, b: int)
    ensures (a - b) * (a + b)
        == a * a - b * b
{ }
// the chord law for Jacobian inputs with Z1, Z2 != 0 (pure integer statement)
pub proof fn ecc_add_aff(X1: int, Y1: int, Z1: int, X2: int, Y2: int, Z2: int, z1s: int, z2s: int, u1: int, u2: int, y1z2: int, s1: int, y2z1: int, s2: int,
    h: int, r: int, hh: int, hhh: int, v: int, rs: int, rsh: int, x3: int, vx: int, rvx: int, s1h: int, y3: int, z3: int)
    requires 0 <= X1 < P(), 0 <= Y1 < P(), 0 < Z1 < P(), 0 <= X2 < P(), 0 <= Y2 < P(), 0 < Z2 < P(), 0 <= x3 < P(), 0 <= y3 < P(), 0 <= z3 < P(),
        ecc_add_rel(X1, Y1, Z1, X2, Y2, Z2, z1s, z2s, u1, u2, y1z2, s1, y2z1, s2, h, r, hh, hhh, v, rs, rsh, x3, vx, rvx, s1h, y3, z3),
        on_curve(Pt::Aff { x: (X1 * inv_p(Z1) * inv_p(Z1)) % P(), y: (Y1 * inv_p(Z1) * inv_p(Z1) * inv_p(Z1)) % P() }),
        on_curve(Pt::Aff { x: (X2 * inv_p(Z2) * inv_p(Z2)) % P(), y: (Y2 * inv_p(Z2) * inv_p(Z2) * inv_p(Z2)) % P() }),
    ensures ({
        let a = Pt::Aff { x: (X1 * inv_p(Z1) * inv_p(Z1)) % P(), y: (Y1 * inv_p(Z1) * inv_p(Z1) * inv_p(Z1)) % P() };
        let b = Pt::Aff { x: (X2 * inv_p(Z2) * inv_p(Z2)) % P(), y: (Y2 * inv_p(Z2) * inv_p(Z2) * inv_p(Z2)) % P() };
        let w = inv_p(z3);
        (a == b ==> z3 == 0) && (a != b ==> g_add(a, b) == (if z3 == 0 { Pt::Inf } else { Pt::Aff { x: (x3 * w * w) % P(), y: (y3 * w * w * w) % P() } })) })
{
    ecc_pos(); ecc_small(0); ecc_small(1); ecc_small(2);
    let zi1 = inv_p(Z1); let x1a = (X1 * zi1 * zi1) % P(); let y1a = (Y1 * zi1 * zi1 * zi1) % P();
    let zi2 = inv_p(Z2); let x2a = (X2 * zi2 * zi2) % P(); let y2a = (Y2 * zi2 * zi2 * zi2) % P();
    ecc_aff_nonzero(X1, Y1, Z1); ecc_aff_nonzero(X2, Y2, Z2);
    ecc_param(X1, Y1, Z1, zi1, x1a, y1a); ecc_param(X2, Y2, Z2, zi2, x2a, y2a);
    let t = Z1 * Z2;
    ecc_add_pre(X1, Y1, Z1, X2, Y2, Z2, z1s, z2s, u1, u2, y1z2, s1, y2z1, s2, x1a, y1a, x2a, y2a);
    let U1 = x1a * t * t; let U2 = x2a * t * t; let S1 = y1a * t * t * t; let S2 = y2a * t * t * t;
    let H = U2 - U1; let R = S2 - S1; let HHH = (H * H) * H; let V = U1 * (H * H); let X3 = R * R - HHH - 2 * V;
    let Y3 = R * (V - X3) - S1 * HHH; let Z3 = t * H;
    let zz = (Z1 * Z2) % P();
    ecc_modmod(Z1 * Z2);
    ecc_add_chain(u1, u2, s1, s2, zz, h, r, hh, hhh, v, rs, rsh, x3, vx, rvx, s1h, y3, z3, U1, U2, S1, S2, t);
    assert(h % P() == H % P() && x3 % P() == X3 % P() && y3 % P() == Y3 % P() && z3 % P() == Z3 % P());
    ecc_range(u2 - u1); ecc_small(h); ecc_small(z3);
    ecc_range(X1 * zi1 * zi1); ecc_range(X2 * zi2 * zi2); ecc_range(Y1 * zi1 * zi1 * zi1); ecc_range(Y2 * zi2 * zi2 * zi2);
    ecc_small(x1a); ecc_small(x2a); ecc_small(y1a); ecc_small(y2a);
    ring_add_h(x1a, x2a, t);
    let dx = x2a - x1a; let dy = y2a - y1a;
    if x1a == x2a {
        assert(dx * (t * t) == 0) by(nonlinear_arith) requires dx == 0;
        assert(h == 0);
        assert(zz * h == 0) by(nonlinear_arith) requires h == 0;
        assert(z3 == 0);
        if (y1a + y2a) % P() != 0 {
            ecc_same_x(x1a, y1a, y2a);
        }
    } else {
        // h and z3 are units
        ecc_diff(x2a, x1a);
        assert(dx % P() != 0);
        ecc_small(Z1); ecc_small(Z2);
        ecc_nz_mul(Z1, Z2); ecc_nz_mul(t, t); ecc_nz_mul(dx, t * t); ecc_nz_mul(t, H);
        assert(z3 != 0);
        ax_inv_p(z3);
        let w = inv_p(z3);
        ecc_cong_mul(z3, Z3, w);
        // the slope: lam dx == dy
        ax_inv_p(dx);
        let d = inv_p(dx);
        let lam = (dy * d) % P();
        ecc_modmod(dy * d);
        ecc_diff(lam, dy * d);
        ecc_diff(dx * d, 1);
        ring_add_slope(dx, dy, lam, d);
        ecc_lin2(lam - dy * d, dx, dx * d - 1, dy);
        let e = lam * (x2a - x1a) - (y2a - y1a);
        assert(e % P() == 0);
        // x3 / z3^2
        let s = (lam * lam - x1a - x2a) % P();
        let K = ((t * t * t) * (t * t * t)) * (lam * (x2a - x1a) + (y2a - y1a));
        ring_add_x(x1a, y1a, x2a, y2a, t, lam);
        assert((lam * lam - x1a - x2a) * (Z3 * Z3) - X3 == e * K);
        ecc_lin1(e, K);
        ecc_diff((lam * lam - x1a - x2a) * (Z3 * Z3), X3);
        ecc_modmod(lam * lam - x1a - x2a);
        ecc_cong_mul(s, lam * lam - x1a - x2a, Z3 * Z3);
        ecc_div2(x3, s, Z3, w);
        assert((x3 * w * w) % P() == s);
        // y3 / z3^3
        let tt = lam * (x1a - s) - y1a;
        let K2 = (t * t * t) * (V - s * (Z3 * Z3));
        let e2 = s * (Z3 * Z3) - X3;
        ring_add_y(x1a, y1a, x2a, y2a, t, lam, s);
        assert(tt * (Z3 * Z3 * Z3) - Y3 == e * K2 - e2 * R);
        ecc_diff(s * (Z3 * Z3), X3);
        ecc_lin2(e, K2, e2, R);
        ecc_diff(tt * (Z3 * Z3 * Z3), Y3);
        let yr = tt % P();
        ecc_modmod(tt);
        ecc_cong_mul(yr, tt, Z3 * Z3 * Z3);
        ecc_div3(y3, yr, Z3, w);
        assert((y3 * w * w * w) % P() == yr);
    }
}
// u1, u2, s1, s2, h, r as point_add computes them before it tests for "the same point in another representation"
pub open spec fn ecc_add_rel0(X1: int, Y1: int, Z1: int, X2: int, Y2: int, Z2: int, z1s: int, z2s: int, u1: int, u2: int, y1z2: int, s1: int, y2z1: int, s2: int, h: int, r: int) -> bool {
    z1s == (Z1 * Z1) % P() && z2s == (Z2 * Z2) % P() && u1 == (X1 * z2s) % P() && u2 == (X2 * z1s) % P()
    && y1z2 == (Y1 * Z2) % P() && s1 == (y1z2 * z2s) % P() && y2z1 == (Y2 * Z1) % P() && s2 == (y2z1 * z1s) % P()
    && h == (u2 - u1) % P() && r == (s2 - s1) % P()
}
#[verifier::external_body]
pub proof fn ring_add_r(y1a: int, y2a: int, t: int)
    ensures ((y2a * t * t * t) - (y1a * t * t * t))
        == (y2a - y1a) * (t * t * t)
{ }
// h == 0 and r == 0 exactly when the two (finite) points are the same affine point (pure integer statement)
pub proof fn ecc_add_same(X1: int, Y1: int, Z1: int, X2: int, Y2: int, Z2: int, z1s: int, z2s: int, u1: int, u2: int, y1z2: int, s1: int, y2z1: int, s2: int, h: int, r: int)
    requires 0 <= X1 < P(), 0 <= Y1 < P(), 0 < Z1 < P(), 0 <= X2 < P(), 0 <= Y2 < P(), 0 < Z2 < P(),
        ecc_add_rel0(X1, Y1, Z1, X2, Y2, Z2, z1s, z2s, u1, u2, y1z2, s1, y2z1, s2, h, r),
        on_curve(Pt::Aff { x: (X1 * inv_p(Z1) * inv_p(Z1)) % P(), y: (Y1 * inv_p(Z1) * inv_p(Z1) * inv_p(Z1)) % P() }),
        on_curve(Pt::Aff { x: (X2 * inv_p(Z2) * inv_p(Z2)) % P(), y: (Y2 * inv_p(Z2) * inv_p(Z2) * inv_p(Z2)) % P() }),
    ensures ({
        let a = Pt::Aff { x: (X1 * inv_p(Z1) * inv_p(Z1)) % P(), y: (Y1 * inv_p(Z1) * inv_p(Z1) * inv_p(Z1)) % P() };
        let b = Pt::Aff { x: (X2 * inv_p(Z2) * inv_p(Z2)) % P(), y: (Y2 * inv_p(Z2) * inv_p(Z2) * inv_p(Z2)) % P() };
        (h == 0 && r == 0) == (a == b) })
{
    ecc_pos(); ecc_small(0); ecc_small(1);
    let zi1 = inv_p(Z1); let x1a = (X1 * zi1 * zi1) % P(); let y1a = (Y1 * zi1 * zi1 * zi1) % P();
    let zi2 = inv_p(Z2); let x2a = (X2 * zi2 * zi2) % P(); let y2a = (Y2 * zi2 * zi2 * zi2) % P();
    ecc_aff_nonzero(X1, Y1, Z1); ecc_aff_nonzero(X2, Y2, Z2);
    ecc_param(X1, Y1, Z1, zi1, x1a, y1a); ecc_param(X2, Y2, Z2, zi2, x2a, y2a);
    let t = Z1 * Z2;
    ecc_add_pre(X1, Y1, Z1, X2, Y2, Z2, z1s, z2s, u1, u2, y1z2, s1, y2z1, s2, x1a, y1a, x2a, y2a);
    let U1 = x1a * t * t; let U2 = x2a * t * t; let S1 = y1a * t * t * t; let S2 = y2a * t * t * t;
    ecc_cs(h, u2, u1, U2, U1);
    ecc_cs(r, s2, s1, S2, S1);
    ecc_range(u2 - u1); ecc_range(s2 - s1); ecc_small(h); ecc_small(r);
    ecc_range(X1 * zi1 * zi1); ecc_range(X2 * zi2 * zi2); ecc_range(Y1 * zi1 * zi1 * zi1); ecc_range(Y2 * zi2 * zi2 * zi2);
    ecc_small(x1a); ecc_small(x2a); ecc_small(y1a); ecc_small(y2a);
    ring_add_h(x1a, x2a, t);
    ring_add_r(y1a, y2a, t);
    let dx = x2a - x1a; let dy = y2a - y1a;
    assert(h == (dx * (t * t)) % P());
    assert(r == (dy * (t * t * t)) % P());
    // t, t^2, t^3 are units
    ecc_small(Z1); ecc_small(Z2);
    ecc_nz_mul(Z1, Z2); ecc_nz_mul(t, t); ecc_nz_mul(t * t, t);
    if x1a == x2a {
        assert(dx * (t * t) == 0) by(nonlinear_arith) requires dx == 0;
    } else {
        ecc_diff(x2a, x1a);
        ecc_nz_mul(dx, t * t);
    }
    if y1a == y2a {
        assert(dy * (t * t * t) == 0) by(nonlinear_arith) requires dy == 0;
    } else {
        ecc_diff(y2a, y1a);
        ecc_nz_mul(dy, t * t * t);
    }
}
// the same on the representation: both is_zero() tests of point_add succeed exactly for equal points
pub proof fn ecc_add_same_main(x1: Seq<u64>, y1: Seq<u64>, z1: Seq<u64>, x2: Seq<u64>, y2: Seq<u64>, z2: Seq<u64>, h: Seq<u64>, r: Seq<u64>,
    z1s: int, z2s: int, u1: int, u2: int, y1z2: int, s1: int, y2z1: int, s2: int)
    requires canon(x1), canon(y1), canon(z1), canon(x2), canon(y2), canon(z2), canon(h), canon(r),
        val4(z1) != 0, val4(z2) != 0, on_curve(abs_pt(x1, y1, z1)), on_curve(abs_pt(x2, y2, z2)),
        ecc_add_rel0(fe(x1), fe(y1), fe(z1), fe(x2), fe(y2), fe(z2), z1s, z2s, u1, u2, y1z2, s1, y2z1, s2, fe(h), fe(r))
    ensures (val4(h) == 0 && val4(r) == 0) == (abs_pt(x1, y1, z1) == abs_pt(x2, y2, z2))
{
    ecc_pos(); ecc_small(0);
    ecc_fe_range(x1); ecc_fe_range(y1); ecc_fe_range(z1); ecc_fe_range(x2); ecc_fe_range(y2); ecc_fe_range(z2);
    ecc_fe_zero(z1); ecc_fe_zero(z2); ecc_fe_zero(h); ecc_fe_zero(r);
    ecc_add_same(fe(x1), fe(y1), fe(z1), fe(x2), fe(y2), fe(z2), z1s, z2s, u1, u2, y1z2, s1, y2z1, s2, fe(h), fe(r));
}
// the generic branch of point_add against the group law
pub proof fn ecc_add_main(x1: Seq<u64>, y1: Seq<u64>, z1: Seq<u64>, x2: Seq<u64>, y2: Seq<u64>, z2: Seq<u64>, x3: Seq<u64>, y3: Seq<u64>, z3: Seq<u64>,
    z1s: int, z2s: int, u1: int, u2: int, y1z2: int, s1: int, y2z1: int, s2: int, h: int, r: int, hh: int, hhh: int, v: int, rs: int, rsh: int, vx: int, rvx: int, s1h: int)
    requires canon(x1), canon(y1), canon(z1), canon(x2), canon(y2), canon(z2), canon(x3), canon(y3), canon(z3),
        val4(z1) != 0, val4(z2) != 0, on_curve(abs_pt(x1, y1, z1)), on_curve(abs_pt(x2, y2, z2)),
        ecc_add_rel(fe(x1), fe(y1), fe(z1), fe(x2), fe(y2), fe(z2), z1s, z2s, u1, u2, y1z2, s1, y2z1, s2, h, r, hh, hhh, v, rs, rsh, fe(x3), vx, rvx, s1h, fe(y3), fe(z3))
    ensures abs_pt(x1, y1, z1) == abs_pt(x2, y2, z2) ==> val4(z3) == 0,
        abs_pt(x1, y1, z1) != abs_pt(x2, y2, z2) ==> abs_pt(x3, y3, z3) == g_add(abs_pt(x1, y1, z1), abs_pt(x2, y2, z2)) && on_curve(abs_pt(x3, y3, z3))
{
    ecc_pos(); ecc_small(0);
    ecc_fe_range(x1); ecc_fe_range(y1); ecc_fe_range(z1); ecc_fe_range(x2); ecc_fe_range(y2); ecc_fe_range(z2); ecc_fe_range(x3); ecc_fe_range(y3); ecc_fe_range(z3);
    ecc_fe_zero(z1); ecc_fe_zero(z2); ecc_fe_zero(z3);
    ax_group_closed(abs_pt(x1, y1, z1), abs_pt(x2, y2, z2));
    ecc_add_aff(fe(x1), fe(y1), fe(z1), fe(x2), fe(y2), fe(z2), z1s, z2s, u1, u2, y1z2, s1, y2z1, s2, h, r, hh, hhh, v, rs, rsh, fe(x3), vx, rvx, s1h, fe(y3), fe(z3));
}
