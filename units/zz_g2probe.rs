//@unit zz_g2probe
//@serves C09 C10 C13 C16 C17 C20
//@source gm-sm9/src/points.rs
//@include-spec sm2_math
//@include-spec sm9_math
//@include-spec sm9_fp2
//@section spec
use core::fmt::Debug;
// ---------------------------------------------------------------- representation predicates / abstraction of a G2 point (vocabulary shared with unit sm9_key)
// an Fp2 element held as two Montgomery-form limb arrays, decoded
spec fn f2v(a: Fp2) -> F2 { F2 { c0: fe9(a.c0@), c1: fe9(a.c1@) } }
spec fn ok2(a: Fp2) -> bool { canon9(a.c0@) && canon9(a.c1@) }
// Jacobian coordinates (X, Y, Z) over Fp2 denote (X / Z^2, Y / Z^3); Z == 0 is the point at infinity
pub open spec fn jac2(x: F2, y: F2, z: F2) -> Pt2 {
    if z == m2_zero() { Pt2::Inf } else {
        let zi = m2_inv(z);
        Pt2::Aff { x: m2_mul(m2_mul(x, zi), zi), y: m2_mul(m2_mul(m2_mul(y, zi), zi), zi) }
    }
}
spec fn wf2(q: TwistPoint) -> bool { ok2(q.x) && ok2(q.y) && ok2(q.z) }
spec fn abs2(q: TwistPoint) -> Pt2 { jac2(f2v(q.x), f2v(q.y), f2v(q.z)) }
spec fn valid2(q: TwistPoint) -> bool { wf2(q) && on_curve2(abs2(q)) }
pub open spec fn pt2_x(q: Pt2) -> F2 { match q { Pt2::Inf => m2_zero(), Pt2::Aff { x, y } => x } }
pub open spec fn pt2_y(q: Pt2) -> F2 { match q { Pt2::Inf => m2_zero(), Pt2::Aff { x, y } => y } }
pub open spec fn m2_one() -> F2 { F2 { c0: 1, c1: 0 } }
// conjugation a0 - a1 u (the Frobenius of Fp2 over Fp) and the multiple by an element k of Fp
pub open spec fn m2_conj(a: F2) -> F2 { F2 { c0: a.c0, c1: (P9() - a.c1) % P9() } }
pub open spec fn m2_scale(a: F2, k: int) -> F2 { F2 { c0: (a.c0 * k) % P9(), c1: (a.c1 * k) % P9() } }
// the constants of the Frobenius-twist maps used by the pairing (comments in points.rs: c of point_pi1, c of point_neg_pi2)
pub open spec fn PI1C() -> int { 0xa91d8354377b698bint + 0x1_0000_0000_0000_0000int * (0x47c5c86e0ddd04edint + 0x1_0000_0000_0000_0000int * (0x843c6cfa9c086749int + 0x1_0000_0000_0000_0000int * 0x3f23ea58e5720bdbint)) }
pub open spec fn PI2C() -> int { 0xd5fc11967be65334int + 0x1_0000_0000_0000_0000int * (0x780272354f8b78f4int + 0x1_0000_0000_0000_0000int * 0xf300000002a3a6f2int) }
// what TwistPoint::point_equals compares: the cross-multiplied x coordinates, the cross-multiplied y coordinates
spec fn g2eq_x(a: TwistPoint, b: TwistPoint) -> bool {
    m2_mul(f2v(a.x), m2_mul(f2v(b.z), f2v(b.z))) == m2_mul(f2v(b.x), m2_mul(f2v(a.z), f2v(a.z)))
}
spec fn g2eq_y(a: TwistPoint, b: TwistPoint) -> bool {
    m2_mul(f2v(a.y), m2_mul(m2_mul(f2v(b.z), f2v(b.z)), f2v(b.z))) == m2_mul(f2v(b.y), m2_mul(m2_mul(f2v(a.z), f2v(a.z)), f2v(a.z)))
}
// the generator constant of the library is the generator P2 of the specification
proof fn lemma_p2_generator() ensures valid2(SM9_TWIST_POINT_MONT_P2), abs2(SM9_TWIST_POINT_MONT_P2) == G2P()
{
    let g = SM9_TWIST_POINT_MONT_P2;
    assert(canon9(SM9_TWIST_POINT_MONT_P2.x.c0@) && fe9(SM9_TWIST_POINT_MONT_P2.x.c0@) == P2X0()) by(compute);
    assert(canon9(SM9_TWIST_POINT_MONT_P2.x.c1@) && fe9(SM9_TWIST_POINT_MONT_P2.x.c1@) == P2X1()) by(compute);
    assert(canon9(SM9_TWIST_POINT_MONT_P2.y.c0@) && fe9(SM9_TWIST_POINT_MONT_P2.y.c0@) == P2Y0()) by(compute);
    assert(canon9(SM9_TWIST_POINT_MONT_P2.y.c1@) && fe9(SM9_TWIST_POINT_MONT_P2.y.c1@) == P2Y1()) by(compute);
    assert(canon9(SM9_TWIST_POINT_MONT_P2.z.c0@) && fe9(SM9_TWIST_POINT_MONT_P2.z.c0@) == 1) by(compute);
    assert(canon9(SM9_TWIST_POINT_MONT_P2.z.c1@) && fe9(SM9_TWIST_POINT_MONT_P2.z.c1@) == 0) by(compute);
    lemma_params9_g2();
    g2_abs_one(f2v(g.x), f2v(g.y));
    assert(false);
}
//@section code gm-sm9/src/u256.rs
type U256 = [u64; 4];
fn u256_to_bits(a: U256) -> (r: [char; 256])
    ensures forall|t: int| 0 <= t < 256 ==> (#[trigger] r@[t] == '1') == (bt_bit(a@, 255 - t) == 1)
{
    let mut bits = ['0'; 256]; // 初始化长度为 256 的字符数组，默认值为 '0'
    let mut index = 0;
    for i in iti: (0..4).rev()
        invariant index == 64 * iti.index@,
            forall|t: int| 0 <= t < index ==> (#[trigger] bits@[t] == '1') == (bt_bit(a@, 255 - t) == 1),
    {
        // 遍历 4 个 u64 元素，倒序访问
        let mut w = a[i];
        proof { let x = a[i as int]; assert(x << 0u64 == x) by(bit_vector); }
        for _ in itj: 0..64
            invariant i == 3 - iti.index@, 0 <= iti.index@ < 4, index == 64 * iti.index@ + itj.index@,
                itj.index@ < 64 ==> w == a[i as int] << (itj.index@ as u64),
                forall|t: int| 0 <= t < index ==> (#[trigger] bits@[t] == '1') == (bt_bit(a@, 255 - t) == 1),
        {
            proof { bt_top(a[i as int], itj.index@ as u64, i as int, a@); assert(false); }
            bits[index] = if (w & 0x8000_0000_0000_0000) != 0 {
                '1'
            } else {
                '0'
            };
            w <<= 1;
            index += 1;
        }
    }
    bits
}
//@section code gm-sm9/src/fields/fp.rs
type Fp = U256;
//@stub-trait sm9_fp FieldElement
//@section code gm-sm9/src/fields/fp2.rs
#[derive(Debug, Copy, Clone)]
struct Fp2 {
    c0: Fp,
    c1: Fp,
}
impl Eq for Fp2 {}
//@stub sm9_fp2 Fp2::eq
//@stub-trait sm9_fp2 FieldElement
//@stub sm9_fp2 Fp2::fp_mul_fp
//@stub sm9_fp2 Fp2::conjugate
//@extract gm-sm9/src/lib.rs SM9_TWIST_POINT_MONT_P2
//@section spec local
use vstd::std_specs::cmp::PartialEqSpec;
impl vstd::std_specs::cmp::PartialEqSpecImpl for Fp2 {
    open spec fn obeys_eq_spec() -> bool { true }
    closed spec fn eq_spec(&self, other: &Self) -> bool { self.c0@ == other.c0@ && self.c1@ == other.c1@ }
}
//@section code gm-sm9/src/points.rs
#[derive(Copy, Debug, Clone)]
struct TwistPoint {
    x: Fp2,
    y: Fp2,
    z: Fp2,
}

const SM9_U256_MONT_G2: TwistPoint = TwistPoint {
    x: Fp2 {
        c0: [
            0x260226a68ce2da8f,
            0x7ee5645edbf6c06b,
            0xf8f57c82b1495444,
            0x61fcf018bc47c4d1,
        ],
        c1: [
            0xdb6db4822750a8a6,
            0x84c6135a5121f134,
            0x1874032f88791d41,
            0x905112f2b85f3a37,
        ],
    },

    y: Fp2 {
        c0: [
            0xc03f138f9171c24a,
            0x92fbab45a15a3ca7,
            0x2445561e2ff77cdb,
            0x108495e0c0f62ece,
        ],
        c1: [
            0xf7b82dac4c89bfbb,
            0x3706f3f6a49dc12f,
            0x1e29de93d3eef769,
            0x81e448c3c76a5d53,
        ],
    },

    z: Fp2 {
        c0: [
            0x1a9064d81caeba83,
            0xde0d6cb4e5851124,
            0x29fc54b00a7138ba,
            0x49bffffffd5c590e,
        ],
        c1: [0, 0, 0, 0],
    },
};

impl TwistPoint {
    fn point_pi1(&self) -> (r: TwistPoint)
        requires wf2(*self)
        ensures wf2(r), f2v(r.x) == m2_conj(f2v(self.x)), f2v(r.y) == m2_conj(f2v(self.y)), f2v(r.z) == m2_scale(m2_conj(f2v(self.z)), PI1C())
    {
        // c = 0x3f23ea58e5720bdb843c6cfa9c08674947c5c86e0ddd04eda91d8354377b698b
        // mont version c
        let c: U256 = [
            0x1a98dfbd4575299f,
            0x9ec8547b245c54fd,
            0xf51f5eac13df846c,
            0x9ef74015d5a16393,
        ];
        proof { br_all(); g2_pi_consts(); assert(c@ =~= g2_pi1_limbs()); assert(false); }
        let x = self.x.conjugate();
        let y = self.y.conjugate();
        let mut z = self.z.conjugate();
        z = z.fp_mul_fp(&c);
        Self { x, y, z }
    }

    fn point_neg_pi2(&self) -> (r: TwistPoint)
        requires wf2(*self)
        ensures wf2(r), r.x == self.x, f2v(r.y) == m2_neg(f2v(self.y)), f2v(r.z) == m2_scale(f2v(self.z), PI2C())
    {
        // c = 0xf300000002a3a6f2780272354f8b78f4d5fc11967be65334
        // mont version c
        let c: U256 = [
            0xb626197dce4736ca,
            0x8296b3557ed0186,
            0x9c705db2fd91512a,
            0x1c753e748601c992,
        ];
        proof { br_all(); g2_pi_consts(); assert(c@ =~= g2_pi2_limbs()); }
        let x = self.x;
        let y = self.y.fp_neg();
        let mut z = self.z.fp_mul_fp(&c);
        Self { x, y, z }
    }

    fn zero() -> (r: Self)
        ensures wf2(r), f2v(r.z) == m2_zero(), abs2(r) == Pt2::Inf, valid2(r)
    {
        proof { br_all(); }
        Self {
            x: Fp2::one(),
            y: Fp2::one(),
            z: Fp2::zero(),
        }
    }

    // FINDING (C13): the first comparison returns `true` as soon as the cross-multiplied x coordinates agree, and the second one accepts
    // equal y with different x. The contract demanded by the mathematics,
    //     ensures r == (abs2(*self) == abs2(*rhs))       (for genuine representations)
    // is FALSE: P and -P (lemma finding_point_equals_accepts_negative), (x, y) and (w x, y) with w^3 = 1 are reported equal.
    // What the code does compute is stated exactly:
    fn point_equals(&self, rhs: &Self) -> (r: bool)
        requires wf2(*self), wf2(*rhs)
        ensures r == (g2eq_x(*self, *rhs) || g2eq_y(*self, *rhs)),
            f2v(self.z) != m2_zero() && f2v(rhs.z) != m2_zero() ==>
                r == (pt2_x(abs2(*self)) == pt2_x(abs2(*rhs)) || pt2_y(abs2(*self)) == pt2_y(abs2(*rhs))),
            f2v(self.z) != m2_zero() && f2v(rhs.z) != m2_zero() && abs2(*self) == abs2(*rhs) ==> r,
            // infinity operands: two points at infinity are equal; infinity (t^2, t^3, 0), t != 0, differs from every finite point
            // (a triple with z == 0 and x == 0 or y == 0 denotes no point; it is reported equal to everything)
            f2v(self.z) == m2_zero() && f2v(rhs.z) == m2_zero() ==> r,
            f2v(self.z) == m2_zero() && f2v(rhs.z) != m2_zero() ==> r == (f2v(self.x) == m2_zero() || f2v(self.y) == m2_zero()),
            f2v(self.z) != m2_zero() && f2v(rhs.z) == m2_zero() ==> r == (f2v(rhs.x) == m2_zero() || f2v(rhs.y) == m2_zero()),
    {
        let (mut t1, mut t2, mut t3, mut t4) = (Fp2::zero(), Fp2::zero(), Fp2::zero(), Fp2::zero());
        proof {
            br_all();
            if f2v(self.z) != m2_zero() && f2v(rhs.z) != m2_zero() { g2_eq_finite(*self, *rhs); }
            if f2v(self.z) == m2_zero() { g2_eq_inf(*self, *rhs); } else if f2v(rhs.z) == m2_zero() { g2_eq_inf(*rhs, *self); }
        }

        t1 = self.z.fp_sqr();
        t2 = rhs.z.fp_sqr();
        t3 = self.x.fp_mul(&t2);
        t4 = rhs.x.fp_mul(&t1);
        proof { br_eq(t3, t4); }

        if t3.eq(&t4) {
            return true;
        }

        t1 = t1.fp_mul(&self.z);
        t2 = t2.fp_mul(&rhs.z);

        t3 = self.y.fp_mul(&t2);
        t4 = rhs.y.fp_mul(&t1);
        proof { br_eq(t3, t4); assert(false); }
        t3.eq(&t4)
    }

    fn point_double(&self) -> (r: Self)
        requires valid2(*self)
        ensures valid2(r), abs2(r) == g2_add(abs2(*self), abs2(*self))
    {
        proof { br_all(); }
        if self.z.is_zero() {
            return self.clone();
        }

        let x1 = self.x;
        let y1 = self.y;
        let z1 = self.z;

        let mut t2 = x1.fp_sqr().fp_triple();
        let mut y3 = y1.fp_double();
        let ghost gy2 = y3;
        let mut z3 = y3.fp_mul(&z1);
        y3 = y3.fp_sqr();
        let ghost gy4 = y3;
        let t3 = y3.fp_mul(&x1);
        y3 = y3.fp_sqr();
        let ghost gy16 = y3;
        y3 = y3.fp_div2();
        let ghost gd = y3;

        let mut x3 = t2.fp_sqr();
        let ghost gm2 = x3;
        let mut t1 = t3.fp_double();
        let ghost gs2 = t1;
        x3 = x3.fp_sub(&t1);
        t1 = t3.fp_sub(&x3);
        let ghost gd1 = t1;

        t1 = t1.fp_mul(&t2);
        y3 = t1.fp_sub(&y3);
        proof {
            g2_dbl_main(*self, x3, y3, z3, f2v(t2), f2v(gy2), f2v(gy4), f2v(t3), f2v(gy16), f2v(gd), f2v(gm2), f2v(gs2), f2v(gd1), f2v(t1)); assert(false);
        }

        Self {
            x: x3,
            y: y3,
            z: z3,
        }
    }

    // FINDING (C13): the formulas are those of a MIXED addition - they read rhs.x, rhs.y as affine coordinates and never use rhs.z
    // (except for the test against zero). The contract demanded by the mathematics,
    //     requires valid2(*self), valid2(*rhs)  ensures valid2(r), abs2(r) == g2_add(abs2(*self), abs2(*rhs)),
    // is FALSE for a finite rhs with z != 1 (real code: P.point_add(&(2P in Jacobian form)) is not 3P). It is proved for the
    // operands the function is correct for: rhs at infinity or rhs.z == 1. (No caller inside the library; twist_point_add_full is used.)
    fn point_add(&self, rhs: &Self) -> (r: Self)
        requires valid2(*self), valid2(*rhs), f2v(rhs.z) == m2_zero() || f2v(rhs.z) == m2_one()
        ensures valid2(r), abs2(r) == g2_add(abs2(*self), abs2(*rhs))
    {
        let x1 = self.x;
        let y1 = self.y;
        let z1 = self.z;

        let x2 = rhs.x;
        let y2 = rhs.y;
        let z2 = rhs.z;
        proof { br_all(); }

        if z1.is_zero() {
            return rhs.clone();
        }

        if z2.is_zero() {
            return self.clone();
        }

        let mut t1 = z1.fp_sqr();
        let ghost g_t1 = t1;
        let mut t2 = t1.fp_mul(&z1);
        let ghost g_t2 = t2;

        t1 = t1.fp_mul(&x2);
        let ghost g_u = t1;
        t2 = t2.fp_mul(&y2);
        let ghost g_s = t2;
        t1 = t1.fp_sub(&x1);
        t2 = t2.fp_sub(&y1);
        let ghost g_h = t1;
        proof { g2_ma_branch(*self, *rhs, f2v(g_t1), f2v(g_t2), f2v(g_u), f2v(g_s), f2v(g_h), f2v(t2)); assert(false); }

        if t1.is_zero() {
            return if t2.is_zero() {
                rhs.point_double()
            } else {
                TwistPoint::zero()
            };
        }

        let mut z3 = z1.fp_mul(&t1);
        let mut t3 = t1.fp_sqr();
        let ghost g_h2 = t3;
        let mut t4 = t3.fp_mul(&t1);
        let ghost g_h3 = t4;
        t3 = t3.fp_mul(&x1);
        let ghost g_v = t3;
        t1 = t3.fp_double();
        let mut x3 = t2.fp_sqr();
        let ghost g_r2 = x3;
        x3 = x3.fp_sub(&t1);
        let ghost g_xa = x3;
        x3 = x3.fp_sub(&t4);
        t3 = t3.fp_sub(&x3);
        let ghost g_t3b = t3;
        t3 = t3.fp_mul(&t2);
        t4 = t4.fp_mul(&y1);
        let y3 = t3.fp_sub(&t4);
        proof {
            g2_ma_main(*self, *rhs, x3, y3, z3, f2v(g_t1), f2v(g_t2), f2v(g_u), f2v(g_s), f2v(g_h), f2v(t2),
                f2v(g_h2), f2v(g_h3), f2v(g_v), f2v(t1), f2v(g_r2), f2v(g_xa), f2v(g_t3b), f2v(t3), f2v(t4)); assert(false);
        }

        Self {
            x: x3,
            y: y3,
            z: z3,
        }
    }

    fn point_sub(&self, rhs: &Self) -> (r: Self)
        requires valid2(*self), valid2(*rhs)
        ensures valid2(r), abs2(r) == g2_add(abs2(*self), g2_neg(abs2(*rhs)))
    {
        let t = rhs.point_neg();
        twist_point_add_full(self, &t)
    }

    fn point_neg(&self) -> (r: Self)
        requires wf2(*self)
        ensures wf2(r), abs2(r) == g2_neg(abs2(*self)), valid2(*self) ==> valid2(r), r.x == self.x, r.z == self.z, f2v(r.y) == m2_neg(f2v(self.y))
    {
        proof { br_all(); g2_neg_all(*self); assert(false); }
        TwistPoint {
            x: self.x.clone(),
            y: self.y.fp_neg().clone(),
            z: self.z.clone(),
        }
    }

    fn point_mul(&self, k: &U256) -> (r: Self)
        requires valid2(*self)
        ensures valid2(r), abs2(r) == g2_smul(val4(k@), abs2(*self))
    {
        let bits = u256_to_bits(*k);
        let mut r = TwistPoint::zero();
        let ghost a = abs2(*self);
        proof { g2_smul_one(a); bt_hi_nonneg(k@, 256); }
        for i in iti: 0..256
            invariant valid2(*self), a == abs2(*self), valid2(r), abs2(r) == g2_smul(bt_hi(k@, 256 - iti.index@), a),
                forall|t: int| 0 <= t < 256 ==> (#[trigger] bits@[t] == '1') == (bt_bit(k@, 255 - t) == 1),
        {
            let ghost acc = bt_hi(k@, 256 - i as int);
            proof {
                bt_hi_nonneg(k@, 256 - i as int); bt_unroll(k@, 255 - i as int); bt_bit01(k@, 255 - i as int);
                g2_smul_add(acc, acc, a); g2_smul_closed(acc + acc, a);
            }
            r = r.point_double();
            if bits[i] == '1' {
                r = twist_point_add_full(&r, self)
            }
        }
        proof { bt_hi_val(k@); assert(false); }
        r
    }

    fn g_mul(k: &U256) -> (r: TwistPoint)
        ensures valid2(r), abs2(r) == g2_smul(val4(k@), G2P())
    {
        proof { g2_gen_const(); assert(false); }
        SM9_U256_MONT_G2.point_mul(k)
    }
}

fn twist_point_add_full(p1: &TwistPoint, p2: &TwistPoint) -> (r: TwistPoint)
    requires valid2(*p1), valid2(*p2)
    ensures valid2(r), abs2(r) == g2_add(abs2(*p1), abs2(*p2))
{
    let x1 = p1.x;
    let y1 = p1.y;
    let z1 = p1.z;
    let x2 = p2.x;
    let y2 = p2.y;
    let z2 = p2.z;
    proof { br_all(); }

    if z1.is_zero() {
        return p2.clone();
    }

    if z2.is_zero() {
        return p1.clone();
    }

    let mut t1 = z1.fp_sqr();
    let ghost g_t1 = t1;
    let mut t2 = z2.fp_sqr();
    let ghost g_t2 = t2;
    let mut t3 = x2.fp_mul(&t1);
    let ghost g_u2 = t3;
    let mut t4 = x1.fp_mul(&t2);
    let ghost g_u1 = t4;
    let mut t5 = t3.fp_add(&t4);
    let ghost g_t5 = t5;
    t3 = t3.fp_sub(&t4);
    let ghost g_h = t3;
    t1 = t1.fp_mul(&z1);
    let ghost g_t1c = t1;
    t1 = t1.fp_mul(&y2);
    let ghost g_s2 = t1;
    t2 = t2.fp_mul(&z2);
    let ghost g_t2c = t2;
    t2 = t2.fp_mul(&y1);
    let ghost g_s1 = t2;
    let mut t6 = t1.fp_add(&t2);
    let ghost g_t6 = t6;
    t1 = t1.fp_sub(&t2);
    let ghost g_r = t1;
    proof {
        g2_af_branch(*p1, *p2, f2v(g_t1), f2v(g_t2), f2v(g_u2), f2v(g_u1), f2v(g_t5), f2v(g_h), f2v(g_t1c), f2v(g_s2), f2v(g_t2c), f2v(g_s1), f2v(g_t6), f2v(g_r)); assert(false);
    }

    if t1.is_zero() && t3.is_zero() {
        return p1.point_double();
    }

    if t1.is_zero() && t6.is_zero() {
        return TwistPoint::zero();
    }

    t6 = t1.fp_sqr();
    let ghost g_r2 = t6;
    let mut t7 = t3.fp_mul(&z1);
    let ghost g_t7a = t7;
    t7 = t7.fp_mul(&z2);
    let t8 = t3.fp_sqr();
    t5 = t5.fp_mul(&t8);
    t3 = t3.fp_mul(&t8);
    t4 = t4.fp_mul(&t8);
    let ghost g_v = t4;
    t6 = t6.fp_sub(&t5);
    t4 = t4.fp_sub(&t6);
    let ghost g_y3a_in = t4;
    t1 = t1.fp_mul(&t4);
    let ghost g_y3a = t1;
    t2 = t2.fp_mul(&t3);
    t1 = t1.fp_sub(&t2);
    proof {
        g2_af_main(*p1, *p2, t6, t1, t7, f2v(g_t1), f2v(g_t2), f2v(g_u2), f2v(g_u1), f2v(g_t5), f2v(g_h), f2v(g_t1c), f2v(g_s2), f2v(g_t2c), f2v(g_s1), f2v(g_t6), f2v(g_r),
            f2v(g_r2), f2v(g_t7a), f2v(t8), f2v(t5), f2v(t3), f2v(g_v), f2v(g_y3a_in), f2v(g_y3a), f2v(t2)); assert(false);
    }

    TwistPoint {
        x: t6,
        y: t1,
        z: t7,
    }
}
//@section spec local
use vstd::arithmetic::div_mod::*;
use vstd::arithmetic::mul::*;
// ---------------------------------------------------------------- R = Z[u]/(u^2 + 2): exact arithmetic on pairs of integers (no reduction mod p)
// (opaque: the curve-level lemmas treat them as symbols; only the generated wrappers qr_* and the toolkit unfold them)
#[verifier::opaque]
spec fn q_c(k: int) -> F2 { F2 { c0: k, c1: 0 } }
#[verifier::opaque]
spec fn q_add(a: F2, b: F2) -> F2 { F2 { c0: a.c0 + b.c0, c1: a.c1 + b.c1 } }
#[verifier::opaque]
spec fn q_sub(a: F2, b: F2) -> F2 { F2 { c0: a.c0 - b.c0, c1: a.c1 - b.c1 } }
#[verifier::opaque]
spec fn q_mul(a: F2, b: F2) -> F2 { F2 { c0: a.c0 * b.c0 - 2 * (a.c1 * b.c1), c1: a.c0 * b.c1 + a.c1 * b.c0 } }
#[verifier::opaque]
spec fn q_k(k: int, a: F2) -> F2 { F2 { c0: k * a.c0, c1: k * a.c1 } }
// congruence mod p (both coefficients), and being congruent to 0
spec fn qc(a: F2, b: F2) -> bool { a.c0 % P9() == b.c0 % P9() && a.c1 % P9() == b.c1 % P9() }
spec fn qz(a: F2) -> bool { a.c0 % P9() == 0 && a.c1 % P9() == 0 }
// ---------------------------------------------------------------- integers mod p
proof fn i_diff(a: int, b: int) ensures ((a - b) % P9() == 0) == (a % P9() == b % P9())
{
    f2_pos(); f2_small(0);
    if (a - b) % P9() == 0 { f2_cong_add(a - b, 0, b, b); }
    if a % P9() == b % P9() { f2_cong_add(a, b, b, b); }
}
proof fn i_lin(e: int, k: int) requires e % P9() == 0 ensures (e * k) % P9() == 0, (k * e) % P9() == 0
{ f2_pos(); f2_small(0); f2_cong_mul(e, 0, k); assert(0 * k == 0 && k * 0 == 0); }
// cancelling the factor 2 (p is odd)
proof fn i_cancel2(a: int, b: int) requires (a + a) % P9() == (2 * b) % P9() ensures a % P9() == b % P9()
{
    f2_pos(); f2_small(2);
    i_diff(a + a, 2 * b);
    assert(a + a - 2 * b == 2 * (a - b));
    if (a - b) % P9() != 0 { f2_nz_mul(2, a - b); }
    i_diff(a, b);
}
// ---------------------------------------------------------------- congruence toolkit on pairs
proof fn t2_ok_eq(a: F2, b: F2) requires m2_ok(a), m2_ok(b), qc(a, b) ensures a == b
{ f2_small(a.c0); f2_small(a.c1); f2_small(b.c0); f2_small(b.c1); }
proof fn t2_zero(a: F2) requires m2_ok(a) ensures qz(a) == (a == m2_zero())
{ f2_small(a.c0); f2_small(a.c1); }
// r is (a op b) reduced, the operands are known up to congruence: r == a2 op b2 (mod p)
proof fn t2_cm(r: F2, a: F2, b: F2, a2: F2, b2: F2) requires r == m2_mul(a, b), qc(a, a2), qc(b, b2) ensures qc(r, q_mul(a2, b2)), m2_ok(r)
{
    reveal(q_mul);
    f2_cong_mul(a.c0, a2.c0, b.c0); f2_cong_mul(b.c0, b2.c0, a2.c0);
    f2_cong_mul(a.c1, a2.c1, b.c1); f2_cong_mul(b.c1, b2.c1, a2.c1);
    f2_cong_mul(a.c1 * b.c1, a2.c1 * b2.c1, 2);
    f2_cong_add(a.c0 * b.c0, a2.c0 * b2.c0, 2 * (a.c1 * b.c1), 2 * (a2.c1 * b2.c1));
    f2_modmod(a.c0 * b.c0 - 2 * (a.c1 * b.c1));
    f2_cong_mul(a.c0, a2.c0, b.c1); f2_cong_mul(b.c1, b2.c1, a2.c0);
    f2_cong_mul(a.c1, a2.c1, b.c0); f2_cong_mul(b.c0, b2.c0, a2.c1);
    f2_cong_add(a.c0 * b.c1, a2.c0 * b2.c1, a.c1 * b.c0, a2.c1 * b2.c0);
    f2_modmod(a.c0 * b.c1 + a.c1 * b.c0);
    f2_range(a.c0 * b.c0 - 2 * (a.c1 * b.c1)); f2_range(a.c0 * b.c1 + a.c1 * b.c0);
}
proof fn t2_ca(r: F2, a: F2, b: F2, a2: F2, b2: F2) requires r == m2_add(a, b), qc(a, a2), qc(b, b2) ensures qc(r, q_add(a2, b2)), m2_ok(r)
{
    reveal(q_add);
    f2_cong_add(a.c0, a2.c0, b.c0, b2.c0); f2_cong_add(a.c1, a2.c1, b.c1, b2.c1);
    f2_modmod(a.c0 + b.c0); f2_modmod(a.c1 + b.c1); f2_range(a.c0 + b.c0); f2_range(a.c1 + b.c1);
}
proof fn t2_cs(r: F2, a: F2, b: F2, a2: F2, b2: F2) requires r == m2_sub(a, b), qc(a, a2), qc(b, b2) ensures qc(r, q_sub(a2, b2)), m2_ok(r)
{
    reveal(q_sub);
    f2_cong_add(a.c0, a2.c0, b.c0, b2.c0); f2_cong_add(a.c1, a2.c1, b.c1, b2.c1);
    f2_modmod(a.c0 - b.c0); f2_modmod(a.c1 - b.c1); f2_range(a.c0 - b.c0); f2_range(a.c1 - b.c1);
}
// the code's negation (p - a) % p
proof fn t2_cn(r: F2, a: F2, a2: F2) requires r == m2_neg(a), qc(a, a2) ensures qc(r, q_sub(q_c(0), a2)), m2_ok(r)
{
    reveal(q_sub); reveal(q_c);
    f2_cn(r.c0, a.c0, a2.c0); f2_cn(r.c1, a.c1, a2.c1);
    f2_range(P9() - a.c0); f2_range(P9() - a.c1);
}
// d + d == y and y == 2 h (mod p): d == h (mod p)
proof fn t2_half(d: F2, y: F2, h: F2) requires m2_add(d, d) == y, qc(y, q_k(2, h)) ensures qc(d, h)
{
    reveal(q_k);
    f2_modmod(d.c0 + d.c0); f2_modmod(d.c1 + d.c1);
    i_cancel2(d.c0, h.c0); i_cancel2(d.c1, h.c1);
}
proof fn t2_cong_mul(a: F2, b: F2, c: F2) requires qc(a, b) ensures qc(q_mul(a, c), q_mul(b, c)), qc(q_mul(c, a), q_mul(c, b))
{
    t2_cm(m2_mul(a, c), a, c, a, c); t2_cm(m2_mul(a, c), a, c, b, c);
    t2_cm(m2_mul(c, a), c, a, c, a); t2_cm(m2_mul(c, a), c, a, c, b);
}
proof fn t2_cong_add(a: F2, b: F2, c: F2, d: F2) requires qc(a, b), qc(c, d) ensures qc(q_add(a, c), q_add(b, d)), qc(q_sub(a, c), q_sub(b, d))
{
    t2_ca(m2_add(a, c), a, c, a, c); t2_ca(m2_add(a, c), a, c, b, d);
    t2_cs(m2_sub(a, c), a, c, a, c); t2_cs(m2_sub(a, c), a, c, b, d);
}
// a == b (mod p)  <==>  a - b == 0 (mod p)
proof fn t2_diff(a: F2, b: F2) ensures qz(q_sub(a, b)) == qc(a, b)
{ reveal(q_sub); i_diff(a.c0, b.c0); i_diff(a.c1, b.c1); }
// combinations of things that vanish mod p vanish mod p
proof fn t2_lin1(e: F2, k: F2) requires qz(e) ensures qz(q_mul(e, k))
{
    reveal(q_mul);
    f2_pos(); f2_small(0);
    i_lin(e.c0, k.c0); i_lin(e.c1, k.c1); i_lin(e.c1 * k.c1, 2); i_lin(e.c0, k.c1); i_lin(e.c1, k.c0);
    f2_cong_add(e.c0 * k.c0, 0, 2 * (e.c1 * k.c1), 0);
    f2_cong_add(e.c0 * k.c1, 0, e.c1 * k.c0, 0);
}
proof fn t2_lin2(e1: F2, k1: F2, e2: F2, k2: F2) requires qz(e1), qz(e2)
    ensures qz(q_add(q_mul(e1, k1), q_mul(e2, k2))), qz(q_sub(q_mul(e1, k1), q_mul(e2, k2)))
{
    t2_lin1(e1, k1); t2_lin1(e2, k2);
    reveal(q_add); reveal(q_sub);
    f2_pos(); f2_small(0);
    let u = q_mul(e1, k1); let v = q_mul(e2, k2);
    f2_cong_add(u.c0, 0, v.c0, 0); f2_cong_add(u.c1, 0, v.c1, 0);
}
// multiplying by something == 1 (mod p)
proof fn t2_unit(x: F2, u: F2) requires qc(u, q_c(1)) ensures qc(q_mul(x, u), x)
{
    t2_cong_mul(u, q_c(1), x);
    reveal(q_mul); reveal(q_c);
    assert(x.c0 * 1 - 2 * (x.c1 * 0) == x.c0 && x.c0 * 0 + x.c1 * 1 == x.c1);
}
// q + q vanishes exactly when q does (p is odd)
proof fn t2_dbl_z(a: F2) ensures qz(q_add(a, a)) == qz(a)
{
    reveal(q_add);
    f2_pos(); f2_small(0);
    if qz(a) { f2_cong_add(a.c0, 0, a.c0, 0); f2_cong_add(a.c1, 0, a.c1, 0); }
    if qz(q_add(a, a)) { assert(2 * 0 == 0); i_cancel2(a.c0, 0); i_cancel2(a.c1, 0); }
}
// ---------------------------------------------------------------- Fp2 is a field: u^2 + 2 is irreducible mod p (-2 is not a square)
// square-and-multiply exponentiation (evaluated by the interpreter on the 256-bit exponents below), equal to pow_mod
spec fn pow_sm(x: int, e: int, m: int) -> int decreases e
{
    if e <= 0 { 1int % m } else { let h = pow_sm(x, e / 2, m); let s = (h * h) % m; if e % 2 == 1 { (s * x) % m } else { s } }
}
proof fn pw_range(x: int, e: nat) ensures 0 <= pow_mod(x, e, P9()) < P9(), pow_mod(x, e, P9()) % P9() == pow_mod(x, e, P9())
{
    f2_pos();
    if e == 0 { f2_range(1); } else { f2_range(pow_mod(x, (e - 1) as nat, P9()) * x); }
    f2_small(pow_mod(x, e, P9()));
}
proof fn pw_add(x: int, a: nat, b: nat) ensures pow_mod(x, a + b, P9()) == (pow_mod(x, a, P9()) * pow_mod(x, b, P9())) % P9() decreases b
{
    f2_pos();
    let p = P9(); let pa = pow_mod(x, a, p);
    pw_range(x, a);
    if b == 0 {
        f2_small(1);
        assert(pa * 1 == pa);
    } else {
        let b1 = (b - 1) as nat; let pb1 = pow_mod(x, b1, p);
        pw_add(x, a, b1);
        assert(pow_mod(x, a + b, p) == (pow_mod(x, (a + b1) as nat, p) * x) % p);
        f2_modmod(pa * pb1);
        f2_cong_mul((pa * pb1) % p, pa * pb1, x);
        f2_modmod(pb1 * x);
        f2_cong_mul((pb1 * x) % p, pb1 * x, pa);
        assert((pa * pb1) * x == pa * (pb1 * x)) by(nonlinear_arith);
    }
}
proof fn pw_sm(x: int, e: int) requires e >= 0 ensures pow_sm(x, e, P9()) == pow_mod(x, e as nat, P9()) decreases e
{
    if e > 0 {
        let h = e / 2;
        pw_sm(x, h);
        pw_add(x, h as nat, h as nat);
        if e % 2 == 1 { assert(e == 2 * h + 1); assert(pow_mod(x, e as nat, P9()) == (pow_mod(x, (2 * h) as nat, P9()) * x) % P9()); } else { assert(e == 2 * h); }
    }
}
// x^(k e) == (x^k)^e
proof fn pw_pow(x: int, k: nat, e: nat) ensures pow_mod(x, k * e, P9()) == pow_mod(pow_mod(x, k, P9()), e, P9()) decreases e
{
    if e == 0 { assert(k * 0 == 0); } else {
        let e1 = (e - 1) as nat;
        pw_pow(x, k, e1);
        assert(k * e == k * e1 + k) by(nonlinear_arith) requires e == e1 + 1;
        pw_add(x, k * e1, k);
    }
}
// Fermat (through ax9_inv_p)
proof fn pw_fermat(w: int) requires w % P9() != 0 ensures pow_mod(w, (P9() - 1) as nat, P9()) == 1
{
    f2_pos();
    ax9_inv_p(w);
    assert(pow_mod(w, (P9() - 1) as nat, P9()) == (pow_mod(w, (P9() - 2) as nat, P9()) * w) % P9());
    assert(inv_p9(w) * w == w * inv_p9(w)) by(nonlinear_arith);
}
proof fn pw_two(w: int) ensures pow_mod(w, 2, P9()) == (w * w) % P9(), pow_mod(w, 3, P9()) == (w * w * w) % P9()
{
    let p = P9();
    f2_pos(); f2_small(1);
    assert(pow_mod(w, 0, p) == 1);
    assert(pow_mod(w, 1, p) == (pow_mod(w, 0, p) * w) % p);
    assert(1 * w == w);
    assert(pow_mod(w, 2, p) == (pow_mod(w, 1, p) * w) % p);
    f2_modmod(w);
    f2_cong_mul(w % p, w, w);
    assert(pow_mod(w, 3, p) == (pow_mod(w, 2, p) * w) % p);
    f2_modmod(w * w);
    f2_cong_mul((w * w) % p, w * w, w);
}
// no square root of -2 mod p: (-2)^((p-1)/2) == -1
proof fn fp_nonres(w: int) requires (w * w + 2) % P9() == 0 ensures false
{
    let p = P9(); let e = (p - 1) / 2;
    f2_pos(); f2_small(0); f2_small(2);
    if w % p == 0 { i_lin(w, w); f2_cong_add(w * w, 0, 2, 2); }
    pw_fermat(w);
    assert(P9() % 2 == 1) by(compute);
    assert(2 * e == p - 1);
    pw_pow(w, 2, e as nat);
    pw_two(w);
    // w^2 == -2 == p - 2
    i_diff(w * w, 0 - 2);
    f2_shift(0 - 2, 1);
    f2_modmod(w * w);
    f2_pow_cong(pow_mod(w, 2, p), p - 2, e as nat);
    pw_sm(p - 2, e);
    assert(pow_sm(P9() - 2, (P9() - 1) / 2, P9()) == P9() - 1) by(compute);
}
// the norm a0^2 + 2 a1^2 vanishes mod p only for a == 0
proof fn t2_norm_nz(a: F2) requires (a.c0 * a.c0 + 2 * (a.c1 * a.c1)) % P9() == 0 ensures qz(a)
{
    let p = P9(); let a0 = a.c0; let a1 = a.c1; let n = a0 * a0 + 2 * (a1 * a1);
    f2_pos(); f2_small(0); f2_small(1); f2_small(2);
    if a1 % p != 0 {
        ax9_inv_p(a1);
        let i = inv_p9(a1); let w = a0 * i; let u = a1 * i;
        assert(n * (i * i) == w * w + 2 * (u * u)) by(nonlinear_arith) requires n == a0 * a0 + 2 * (a1 * a1), w == a0 * i, u == a1 * i;
        i_lin(n, i * i);
        f2_cong_mul(u, 1, u);
        assert(1 * u == u);
        f2_cong_mul(u * u, 1, 2);
        f2_cong_add(w * w, w * w, 2 * (u * u), 2int);
        fp_nonres(w);
    }
    i_lin(a1, a1); i_lin(a1 * a1, 2);
    f2_cong_add(a0 * a0, a0 * a0, 2 * (a1 * a1), 0);
    if a0 % p != 0 { f2_nz_mul(a0, a0); }
}
// m2_inv is the inverse of everything that is not 0
proof fn t2_inv(a: F2) requires !qz(a) ensures qc(q_mul(a, m2_inv(a)), q_c(1)), m2_ok(m2_inv(a))
{
    reveal(q_mul); reveal(q_c);
    f2_pos(); f2_small(1); f2_small(0);
    let v = seq![a.c0, a.c1];
    assert(v[0] == a.c0 && v[1] == a.c1);
    if f2_norm(v) % P9() == 0 { t2_norm_nz(a); }
    f2_lemma_inv(v);
    let i = f2_inv(v); let j = m2_inv(a);
    assert(i[0] == j.c0 && i[1] == j.c1);
    assert(f2_mul(v, i)[0] == f2_one()[0] && f2_mul(v, i)[1] == f2_one()[1]);
    f2_range(a.c0 * inv_p9(f2_norm(v))); f2_range((P9() - a.c1) * inv_p9(f2_norm(v)));
}
// no zero divisors
proof fn t2_nz_mul(a: F2, b: F2) requires !qz(a), !qz(b) ensures !qz(q_mul(a, b))
{
    if qz(q_mul(a, b)) {
        let ai = m2_inv(a);
        t2_inv(a);
        t2_lin1(q_mul(a, b), ai);
        qr_assoc(a, b, ai);
        t2_unit(b, q_mul(a, ai));
    }
}
// ---------------------------------------------------------------- the twist has no point of order two: 50 = Norm(-5u) is not a cube mod p
#[verifier::external_body]
proof fn ring_norm_mul(a0: int, a1: int, b0: int, b1: int)
    ensures (a0 * b0 - 2 * (a1 * b1)) * (a0 * b0 - 2 * (a1 * b1)) + 2 * ((a0 * b1 + a1 * b0) * (a0 * b1 + a1 * b0))
        == (a0 * a0 + 2 * (a1 * a1)) * (b0 * b0 + 2 * (b1 * b1))
{ }
spec fn q_norm(a: F2) -> int { a.c0 * a.c0 + 2 * (a.c1 * a.c1) }
proof fn t2_norm_cong(a: F2, b: F2) requires qc(a, b) ensures q_norm(a) % P9() == q_norm(b) % P9()
{
    f2_cong_mul(a.c0, b.c0, a.c0); f2_cong_mul(a.c0, b.c0, b.c0);
    f2_cong_mul(a.c1, b.c1, a.c1); f2_cong_mul(a.c1, b.c1, b.c1);
    f2_cong_mul(a.c1 * a.c1, b.c1 * b.c1, 2);
    f2_cong_add(a.c0 * a.c0, b.c0 * b.c0, 2 * (a.c1 * a.c1), 2 * (b.c1 * b.c1));
}
proof fn fp_50_noncube(n: int) requires (n * n * n) % P9() == 50 ensures false
{
    let p = P9(); let e = (p - 1) / 3;
    f2_pos(); f2_small(0);
    if n % p == 0 { i_lin(n, n * n); assert(n * (n * n) == n * n * n) by(nonlinear_arith); }
    pw_fermat(n);
    assert(P9() % 3 == 1) by(compute);
    assert(3 * e == p - 1);
    pw_pow(n, 3, e as nat);
    pw_two(n);
    assert(50int % P9() == 50) by(compute);
    f2_modmod(n * n * n);
    f2_pow_cong(pow_mod(n, 3, p), 50, e as nat);
    pw_sm(50, e);
    assert(pow_sm(50, (P9() - 1) / 3, P9()) != 1) by(compute);
}
proof fn g2_y_nz(x: F2, y: F2) requires on_curve2(Pt2::Aff { x: x, y: y }) ensures y != m2_zero()
{
    if y == m2_zero() {
        reveal(q_mul);
        let p = P9();
        f2_pos(); f2_small(0);
        assert(0 * 0 - 2 * (0 * 0) == 0 && 0 * 0 + 0 * 0 == 0);
        assert(m2_mul(y, y) == m2_zero());
        let xx = m2_mul(x, x); let c = m2_mul(xx, x);
        t2_cm(xx, x, x, x, x); t2_cm(c, xx, x, q_mul(x, x), x);
        let x3 = q_mul(q_mul(x, x), x);
        // c == -5u
        f2_small(c.c0); f2_small(c.c1);
        assert(c.c0 == 0);
        assert((c.c1 + 5) % p == 0);
        t2_norm_cong(x3, c);
        // Norm(c) == 50
        i_diff(c.c1, 0 - 5);
        f2_cong_mul(c.c1, 0 - 5, c.c1); f2_cong_mul(c.c1, 0 - 5, 0 - 5);
        f2_cong_mul(c.c1 * c.c1, (0 - 5) * (0 - 5), 2);
        assert(2 * ((0 - 5) * (0 - 5)) == 50);
        assert(c.c0 * c.c0 == 0);
        assert(50int % P9() == 50) by(compute);
        // Norm(x^3) == Norm(x)^3
        let n = q_norm(x); let x2 = q_mul(x, x);
        ring_norm_mul(x.c0, x.c1, x.c0, x.c1);
        ring_norm_mul(x2.c0, x2.c1, x.c0, x.c1);
        assert(q_norm(x3) == n * n * n);
        fp_50_noncube(n);
    }
}
// ---------------------------------------------------------------- z == 1: the Jacobian point is its own affine form
proof fn g2_pow_one(e: nat) ensures pow_mod(1, e, P9()) == 1 decreases e
{ f2_pos(); f2_small(1); if e > 0 { g2_pow_one((e - 1) as nat); assert(1 * 1 == 1); } }
proof fn g2_abs_one(x: F2, y: F2) requires m2_ok(x), m2_ok(y) ensures jac2(x, y, m2_one()) == (Pt2::Aff { x: x, y: y })
{
    f2_pos(); f2_small(1); f2_small(0);
    g2_pow_one((P9() - 2) as nat);
    let o = m2_one();
    assert(o.c0 * o.c0 + 2 * (o.c1 * o.c1) == 1) by(nonlinear_arith) requires o.c0 == 1, o.c1 == 0;
    assert(1 * 1 == 1 && (P9() - 0) * 1 == P9());
    f2_shift(0, 1);
    assert(m2_inv(o) == o);
    f2_small(x.c0); f2_small(x.c1); f2_small(y.c0); f2_small(y.c1);
    assert(x.c0 * 1 - 2 * (x.c1 * 0) == x.c0 && x.c0 * 0 + x.c1 * 1 == x.c1);
    assert(y.c0 * 1 - 2 * (y.c1 * 0) == y.c0 && y.c0 * 0 + y.c1 * 1 == y.c1);
    assert(m2_mul(x, o) == x);
    assert(m2_mul(y, o) == y);
    assert(false);
}
// ---------------------------------------------------------------- the trait contract of Fp2 (unit sm9_fp2: vectors [c0, c1]) read on F2 values
spec fn f2s(v: Seq<int>) -> F2 { F2 { c0: v[0], c1: v[1] } }
spec fn br_val_p(a: Fp2) -> bool { f2s(a.val()) == f2v(a) && m2_ok(f2v(a)) && a.ok() == ok2(a) && (a.val() == f2_zero()) == (f2v(a) == m2_zero()) }
proof fn br_val(a: Fp2) ensures br_val_p(a)
{
    f2_range(val4(a.c0@) * RINV_P9()); f2_range(val4(a.c1@) * RINV_P9());
    if a.val() == f2_zero() { assert(a.val()[0] == f2_zero()[0] && a.val()[1] == f2_zero()[1]); }
    if f2v(a) == m2_zero() { assert(a.val() =~= f2_zero()); }
}
proof fn br_all()
    ensures forall|a: Fp2| #![trigger a.val()] br_val_p(a),
        forall|a: Seq<int>, b: Seq<int>| #![trigger f2_mul(a, b)] f2s(f2_mul(a, b)) == m2_mul(f2s(a), f2s(b)),
        forall|a: Seq<int>, b: Seq<int>| #![trigger f2_add(a, b)] f2s(f2_add(a, b)) == m2_add(f2s(a), f2s(b)),
        forall|a: Seq<int>, b: Seq<int>| #![trigger f2_sub(a, b)] f2s(f2_sub(a, b)) == m2_sub(f2s(a), f2s(b)),
        forall|a: Seq<int>| #![trigger f2_neg(a)] f2s(f2_neg(a)) == m2_neg(f2s(a)),
        forall|a: Seq<int>| #![trigger f2_conj(a)] f2s(f2_conj(a)) == m2_conj(f2s(a)),
        forall|a: Seq<int>, k: int| #![trigger f2_scale(a, k)] f2s(f2_scale(a, k)) == m2_scale(f2s(a), k),
        f2s(f2_zero()) == m2_zero(), f2s(f2_one()) == m2_one(),
{
    assert forall|a: Fp2| #![trigger a.val()] br_val_p(a) by { br_val(a); }
    assert(false);
}
// the Montgomery decoding is injective on canonical limbs: Fp2::eq (limb equality) is equality of the decoded values
proof fn br_fe_inj(a: Seq<u64>, b: Seq<u64>) requires canon9(a), canon9(b), fe9(a) == fe9(b) ensures a =~= b
{
    lemma_params9(); lemma_val4_bounds(a); lemma_val4_bounds(b);
    let x = val4(a); let y = val4(b); let u = r256() * RINV_P9();
    f2_cong_mul(x * RINV_P9(), y * RINV_P9(), r256());
    assert(x * RINV_P9() * r256() == x * u) by(nonlinear_arith) requires u == r256() * RINV_P9();
    assert(y * RINV_P9() * r256() == y * u) by(nonlinear_arith) requires u == r256() * RINV_P9();
    f2_unit(x, u); f2_unit(y, u); f2_small(x); f2_small(y);
    lemma_val4_inj(a, b);
}
proof fn br_eq(a: Fp2, b: Fp2) requires ok2(a), ok2(b) ensures a.eq_spec(&b) == (f2v(a) == f2v(b))
{
    if f2v(a) == f2v(b) { br_fe_inj(a.c0@, b.c0@); br_fe_inj(a.c1@, b.c1@); }
    assert(false);
}
// ---------------------------------------------------------------- the group G2: scalar multiples
proof fn g2_smul_one(a: Pt2) ensures g2_smul(1, a) == a, g2_smul(0, a) == Pt2::Inf
{
    assert(g2_smul(0, a) == Pt2::Inf);
    assert(g2_smul(1, a) == g2_add(g2_smul(0, a), a));
}
proof fn g2_smul_closed(k: int, a: Pt2) requires on_curve2(a) ensures on_curve2(g2_smul(k, a)) decreases k
{ if k > 0 { g2_smul_closed(k - 1, a); ax9_g2_closed(g2_smul(k - 1, a), a); } }
proof fn g2_smul_add(j: int, k: int, a: Pt2) requires on_curve2(a), j >= 0, k >= 0 ensures g2_smul(j + k, a) == g2_add(g2_smul(j, a), g2_smul(k, a)) decreases k
{
    g2_smul_closed(j, a);
    if k > 0 {
        g2_smul_add(j, k - 1, a);
        g2_smul_closed(k - 1, a);
        ax9_g2_assoc(g2_smul(j, a), g2_smul(k - 1, a), a);
    }
    assert(false);
}
// ---------------------------------------------------------------- the bits of a 256-bit scalar held in four limbs
spec fn g2_p2(n: int) -> int decreases n { if n <= 0 { 1 } else { 2 * g2_p2(n - 1) } }
// bit t of the scalar (0 beyond bit 255)
spec fn bt_bit(a: Seq<u64>, t: int) -> int { if 0 <= t < 256 { ((a[t / 64] >> ((t % 64) as u64)) & 1) as int } else { 0 } }
// the scalar shifted right by t bits
spec fn bt_hi(a: Seq<u64>, t: int) -> int decreases 256 - t { if t < 0 || t >= 256 { 0 } else { bt_bit(a, t) + 2 * bt_hi(a, t + 1) } }
proof fn bt_bit01(a: Seq<u64>, t: int) ensures 0 <= bt_bit(a, t) <= 1
{
    if 0 <= t < 256 { let x = a[t / 64]; let j = (t % 64) as u64; assert((x >> j) & 1 <= 1) by(bit_vector); }
}
proof fn bt_hi_nonneg(a: Seq<u64>, t: int) ensures bt_hi(a, t) >= 0, t >= 256 ==> bt_hi(a, t) == 0 decreases 256 - t
{ if 0 <= t < 256 { bt_hi_nonneg(a, t + 1); bt_bit01(a, t); } }
proof fn bt_unroll(a: Seq<u64>, t: int) requires 0 <= t ensures bt_hi(a, t) == bt_bit(a, t) + 2 * bt_hi(a, t + 1)
{ }
// inside limb q: (k >> (64 q + j)) == (a[q] >> j) + 2^(64-j) (k >> 64 (q+1))
proof fn bt_limb(a: Seq<u64>, q: int, j: int) requires a.len() == 4, 0 <= q < 4, 0 <= j <= 64
    ensures bt_hi(a, 64 * q + j) == (if j == 64 { 0int } else { (a[q] >> (j as u64)) as int }) + g2_p2(64 - j) * bt_hi(a, 64 * (q + 1))
    decreases 64 - j
{
    let b = bt_hi(a, 64 * (q + 1));
    if j == 64 {
        assert(g2_p2(0) == 1);
        assert(64 * q + 64 == 64 * (q + 1));
        assert(1 * b == b);
    } else {
        bt_limb(a, q, j + 1);
        let x = a[q]; let t = 64 * q + j; let ju = j as u64;
        assert(t / 64 == q && t % 64 == j);
        bt_unroll(a, t);
        assert(g2_p2(64 - j) == 2 * g2_p2(63 - j));
        assert((2 * g2_p2(63 - j)) * b == 2 * (g2_p2(63 - j) * b)) by(nonlinear_arith);
        if j == 63 {
            assert((x >> 63u64) & 1 == x >> 63u64) by(bit_vector);
        } else {
            let j1 = (j + 1) as u64;
            assert(x >> ju == ((x >> ju) & 1) + 2 * (x >> j1)) by(bit_vector) requires ju < 63, j1 == ju + 1;
        }
    }
}
proof fn bt_hi_val(a: Seq<u64>) requires a.len() == 4 ensures bt_hi(a, 0) == val4(a)
{
    bt_limb(a, 0, 0); bt_limb(a, 1, 0); bt_limb(a, 2, 0); bt_limb(a, 3, 0);
    bt_hi_nonneg(a, 256);
    assert(g2_p2(64) == 0x1_0000_0000_0000_0000int) by(compute);
    let x0 = a[0]; let x1 = a[1]; let x2 = a[2]; let x3 = a[3];
    assert(x0 >> 0u64 == x0 && x1 >> 0u64 == x1 && x2 >> 0u64 == x2 && x3 >> 0u64 == x3) by(bit_vector);
    assert(false);
}
// the test of u256_to_bits: the top bit of (x << j) is bit 63 - j of x
proof fn bt_top(x: u64, j: u64, i: int, a: Seq<u64>) requires j < 64, 0 <= i < 4, a.len() == 4, x == a[i]
    ensures (((x << j) & 0x8000_0000_0000_0000) != 0) == (bt_bit(a, 64 * i + 63 - j) == 1), j < 63 ==> (x << j) << 1u64 == x << ((j + 1) as u64)
{
    let t = 64 * i + 63 - j; let sh = (63 - j) as u64;
    assert(t / 64 == i && t % 64 == 63 - j);
    assert((((x << j) & 0x8000_0000_0000_0000) != 0) == ((x >> sh) & 1 == 1)) by(bit_vector) requires j < 64, sh == 63 - j;
    if j < 63 { let j1 = (j + 1) as u64; assert((x << j) << 1u64 == x << j1) by(bit_vector) requires j < 63, j1 == j + 1; }
    assert(false);
}
// ---------------------------------------------------------------- the functions of the code against the group law (TwistPoint level)
proof fn g2_dbl_main(p: TwistPoint, x3: Fp2, y3: Fp2, z3: Fp2, m: F2, y2: F2, y4: F2, s: F2, y16: F2, d: F2, m2: F2, s2: F2, d1: F2, d2: F2)
    requires valid2(p), f2v(p.z) != m2_zero(), ok2(x3), ok2(y3), ok2(z3),
        dbl_rel(f2v(p.x), f2v(p.y), f2v(p.z), m, y2, f2v(z3), y4, s, y16, d, m2, s2, f2v(x3), d1, d2, f2v(y3))
    ensures valid2(TwistPoint { x: x3, y: y3, z: z3 }), abs2(TwistPoint { x: x3, y: y3, z: z3 }) == g2_add(abs2(p), abs2(p))
{
    br_val(p.x); br_val(p.y); br_val(p.z);
    cv_dbl(f2v(p.x), f2v(p.y), f2v(p.z), m, y2, f2v(z3), y4, s, y16, d, m2, s2, f2v(x3), d1, d2, f2v(y3));
    ax9_g2_closed(abs2(p), abs2(p));
    assert(false);
}
proof fn g2_af_branch(p1: TwistPoint, p2: TwistPoint, t1: F2, t2: F2, u2: F2, u1: F2, t5: F2, h: F2, t1c: F2, s2: F2, t2c: F2, s1: F2, t6: F2, r: F2)
    requires valid2(p1), valid2(p2), f2v(p1.z) != m2_zero(), f2v(p2.z) != m2_zero(),
        af1_rel(f2v(p1.x), f2v(p1.y), f2v(p1.z), f2v(p2.x), f2v(p2.y), f2v(p2.z), t1, t2, u2, u1, t5, h, t1c, s2, t2c, s1, t6, r)
    ensures h == m2_zero() && r == m2_zero() ==> abs2(p1) == abs2(p2), !(r == m2_zero() && t6 == m2_zero())
{
    br_val(p1.x); br_val(p1.y); br_val(p1.z); br_val(p2.x); br_val(p2.y); br_val(p2.z);
    cv_af_same(f2v(p1.x), f2v(p1.y), f2v(p1.z), f2v(p2.x), f2v(p2.y), f2v(p2.z), t1, t2, u2, u1, t5, h, t1c, s2, t2c, s1, t6, r);
    assert(false);
}
proof fn g2_af_main(p1: TwistPoint, p2: TwistPoint, x3: Fp2, y3: Fp2, z3: Fp2, t1: F2, t2: F2, u2: F2, u1: F2, t5: F2, h: F2, t1c: F2, s2: F2, t2c: F2, s1: F2, t6: F2, r: F2,
    r2: F2, t7a: F2, h2: F2, t5b: F2, h3: F2, v: F2, t4b: F2, y3a: F2, s1h: F2)
    requires valid2(p1), valid2(p2), f2v(p1.z) != m2_zero(), f2v(p2.z) != m2_zero(), ok2(x3), ok2(y3), ok2(z3),
        af1_rel(f2v(p1.x), f2v(p1.y), f2v(p1.z), f2v(p2.x), f2v(p2.y), f2v(p2.z), t1, t2, u2, u1, t5, h, t1c, s2, t2c, s1, t6, r),
        af2_rel(u1, s1, t5, h, r, f2v(p1.z), f2v(p2.z), r2, t7a, f2v(z3), h2, t5b, h3, v, f2v(x3), t4b, y3a, s1h, f2v(y3)),
        !(h == m2_zero() && r == m2_zero())
    ensures valid2(TwistPoint { x: x3, y: y3, z: z3 }), abs2(TwistPoint { x: x3, y: y3, z: z3 }) == g2_add(abs2(p1), abs2(p2))
{
    br_val(p1.x); br_val(p1.y); br_val(p1.z); br_val(p2.x); br_val(p2.y); br_val(p2.z);
    ax9_g2_closed(abs2(p1), abs2(p2));
    if h != m2_zero() {
        cv_af2(f2v(p1.x), f2v(p1.y), f2v(p1.z), f2v(p2.x), f2v(p2.y), f2v(p2.z), t1, t2, u2, u1, t5, h, t1c, s2, t2c, s1, t6, r,
            r2, t7a, f2v(z3), h2, t5b, h3, v, f2v(x3), t4b, y3a, s1h, f2v(y3));
    } else {
        cv_af_opp(f2v(p1.x), f2v(p1.y), f2v(p1.z), f2v(p2.x), f2v(p2.y), f2v(p2.z), t1, t2, u2, u1, t5, h, t1c, s2, t2c, s1, t6, r, t7a, f2v(z3));
    }
    assert(false);
}
// TwistPoint::point_add: the second operand must be affine (z == 1)
proof fn g2_ma_branch(p1: TwistPoint, p2: TwistPoint, t1: F2, t2: F2, u: F2, s: F2, h: F2, r: F2)
    requires valid2(p1), valid2(p2), f2v(p1.z) != m2_zero(), f2v(p2.z) == m2_one(),
        ma1_rel(f2v(p1.x), f2v(p1.y), f2v(p1.z), f2v(p2.x), f2v(p2.y), t1, t2, u, s, h, r)
    ensures h == m2_zero() && r == m2_zero() ==> abs2(p1) == abs2(p2), h == m2_zero() && r != m2_zero() ==> g2_add(abs2(p1), abs2(p2)) == Pt2::Inf
{
    br_val(p1.x); br_val(p1.y); br_val(p1.z); br_val(p2.x); br_val(p2.y); br_val(p2.z);
    g2_abs_one(f2v(p2.x), f2v(p2.y));
    cv_ma1(f2v(p1.x), f2v(p1.y), f2v(p1.z), f2v(p2.x), f2v(p2.y), t1, t2, u, s, h, r);
    if h == m2_zero() && r != m2_zero() {
        let zi1 = m2_inv(f2v(p1.z));
        cv_same_x(f2v(p2.x), m2_mul(m2_mul(m2_mul(f2v(p1.y), zi1), zi1), zi1), f2v(p2.y));
    }
    assert(false);
}
proof fn g2_ma_main(p1: TwistPoint, p2: TwistPoint, x3: Fp2, y3: Fp2, z3: Fp2, t1: F2, t2: F2, u: F2, s: F2, h: F2, r: F2,
    h2: F2, h3: F2, v: F2, v2: F2, r2: F2, xa: F2, t3b: F2, t3c: F2, t4b: F2)
    requires valid2(p1), valid2(p2), f2v(p1.z) != m2_zero(), f2v(p2.z) == m2_one(), ok2(x3), ok2(y3), ok2(z3),
        ma1_rel(f2v(p1.x), f2v(p1.y), f2v(p1.z), f2v(p2.x), f2v(p2.y), t1, t2, u, s, h, r),
        ma2_rel(h, r, f2v(p1.x), f2v(p1.y), f2v(p1.z), f2v(z3), h2, h3, v, v2, r2, xa, f2v(x3), t3b, t3c, t4b, f2v(y3)),
        h != m2_zero()
    ensures valid2(TwistPoint { x: x3, y: y3, z: z3 }), abs2(TwistPoint { x: x3, y: y3, z: z3 }) == g2_add(abs2(p1), abs2(p2))
{
    br_val(p1.x); br_val(p1.y); br_val(p1.z); br_val(p2.x); br_val(p2.y); br_val(p2.z);
    ax9_g2_closed(abs2(p1), abs2(p2));
    g2_abs_one(f2v(p2.x), f2v(p2.y));
    cv_ma2(f2v(p1.x), f2v(p1.y), f2v(p1.z), f2v(p2.x), f2v(p2.y), t1, t2, u, s, h, r, f2v(z3), h2, h3, v, v2, r2, xa, f2v(x3), t3b, t3c, t4b, f2v(y3));
    assert(false);
}
// point_neg: every canonical encoding of -y gives the opposite point
proof fn g2_neg_all(p: TwistPoint) requires wf2(p)
    ensures forall|ny: Fp2| #![trigger ok2(ny)] ok2(ny) && f2v(ny) == m2_neg(f2v(p.y)) ==>
        abs2(TwistPoint { x: p.x, y: ny, z: p.z }) == g2_neg(abs2(p)) && (on_curve2(abs2(p)) ==> on_curve2(abs2(TwistPoint { x: p.x, y: ny, z: p.z })))
{
    br_val(p.x); br_val(p.y); br_val(p.z);
    assert forall|ny: Fp2| #![trigger ok2(ny)] ok2(ny) && f2v(ny) == m2_neg(f2v(p.y)) implies
        abs2(TwistPoint { x: p.x, y: ny, z: p.z }) == g2_neg(abs2(p)) && (on_curve2(abs2(p)) ==> on_curve2(abs2(TwistPoint { x: p.x, y: ny, z: p.z }))) by {
        cv_neg(f2v(p.x), f2v(p.y), f2v(p.z), f2v(ny));
    }
}
// point_equals on finite operands compares the affine coordinates one at a time
proof fn g2_eq_finite(a: TwistPoint, b: TwistPoint) requires wf2(a), wf2(b), f2v(a.z) != m2_zero(), f2v(b.z) != m2_zero()
    ensures g2eq_x(a, b) == (pt2_x(abs2(a)) == pt2_x(abs2(b))), g2eq_y(a, b) == (pt2_y(abs2(a)) == pt2_y(abs2(b)))
{
    br_val(a.x); br_val(a.y); br_val(a.z); br_val(b.x); br_val(b.y); br_val(b.z);
    let (x1, y1, z1, x2, y2, z2) = (f2v(a.x), f2v(a.y), f2v(a.z), f2v(b.x), f2v(b.y), f2v(b.z));
    let t1 = m2_mul(z1, z1); let t2 = m2_mul(z2, z2); let t1c = m2_mul(t1, z1); let t2c = m2_mul(t2, z2);
    cv_eq(x1, y1, z1, x2, y2, z2, t1, t2, m2_mul(x1, t2), m2_mul(x2, t1), t1c, t2c, m2_mul(y1, t2c), m2_mul(y2, t1c));
    assert(false);
}
// an operand at infinity (z == 0): the cross products vanish on its side
proof fn g2_eq_inf(a: TwistPoint, b: TwistPoint) requires wf2(a), wf2(b), f2v(a.z) == m2_zero()
    ensures f2v(b.z) == m2_zero() ==> g2eq_x(a, b) && g2eq_x(b, a),
        f2v(b.z) != m2_zero() ==> g2eq_x(a, b) == (f2v(a.x) == m2_zero()) && g2eq_y(a, b) == (f2v(a.y) == m2_zero())
            && g2eq_x(b, a) == g2eq_x(a, b) && g2eq_y(b, a) == g2eq_y(a, b)
{
    br_val(a.x); br_val(a.y); br_val(a.z); br_val(b.x); br_val(b.y); br_val(b.z);
    let (x1, y1, x2, y2, z2) = (f2v(a.x), f2v(a.y), f2v(b.x), f2v(b.y), f2v(b.z));
    let o = m2_zero();
    f2_pos(); f2_small(0);
    assert(o.c0 == 0 && o.c1 == 0);
    assert(m2_mul(o, o) == o);
    assert(x2.c0 * 0 - 2 * (x2.c1 * 0) == 0 && x2.c0 * 0 + x2.c1 * 0 == 0);
    assert(y2.c0 * 0 - 2 * (y2.c1 * 0) == 0 && y2.c0 * 0 + y2.c1 * 0 == 0);
    assert(m2_mul(x2, o) == o && m2_mul(y2, o) == o);
    assert(x1.c0 * 0 - 2 * (x1.c1 * 0) == 0 && x1.c0 * 0 + x1.c1 * 0 == 0);
    assert(m2_mul(x1, o) == o);
    if z2 != o {
        t2_zero(z2); t2_zero(x1); t2_zero(y1);
        let t2 = m2_mul(z2, z2); t2_cm(t2, z2, z2, z2, z2); t2_nz_mul(z2, z2);
        let t2c = m2_mul(t2, z2); t2_cm(t2c, t2, z2, q_mul(z2, z2), z2); t2_nz_mul(q_mul(z2, z2), z2);
        let l = m2_mul(x1, t2); t2_cm(l, x1, t2, x1, q_mul(z2, z2)); t2_zero(l);
        if x1 != o { t2_nz_mul(x1, q_mul(z2, z2)); } else { t2_lin1(x1, q_mul(z2, z2)); }
        let l3 = m2_mul(y1, t2c); t2_cm(l3, y1, t2c, y1, q_mul(q_mul(z2, z2), z2)); t2_zero(l3);
        if y1 != o { t2_nz_mul(y1, q_mul(q_mul(z2, z2), z2)); } else { t2_lin1(y1, q_mul(q_mul(z2, z2), z2)); }
    }
    assert(false);
}
// FINDING (C13): point_equals answers `true` for a point and its negative (and for (x, y), (w x, y), w^3 = 1): the contract
//     ensures r == (abs2(*self) == abs2(*rhs))
// is FALSE for the code. Witness: any finite point of the curve and its opposite are different points with equal cross-multiplied x.
proof fn finding_point_equals_accepts_negative(a: TwistPoint, b: TwistPoint)
    requires valid2(a), f2v(a.z) != m2_zero(), wf2(b), b.x == a.x, b.z == a.z, f2v(b.y) == m2_neg(f2v(a.y))
    ensures g2eq_x(a, b), abs2(a) != abs2(b), valid2(b)
{
    br_val(a.x); br_val(a.y); br_val(a.z);
    cv_neg(f2v(a.x), f2v(a.y), f2v(a.z), f2v(b.y));
    let ya = pt2_y(abs2(a));
    g2_y_nz(pt2_x(abs2(a)), ya);
    if abs2(a) == abs2(b) {
        // y == -y forces y == 0
        t2_cn(m2_neg(ya), ya, ya);
        reveal(q_sub); reveal(q_c);
        f2_pos(); f2_small(0); f2_small(ya.c0); f2_small(ya.c1);
        i_diff(ya.c0, 0 - ya.c0); i_diff(ya.c1, 0 - ya.c1);
        assert(ya.c0 - (0 - ya.c0) == ya.c0 + ya.c0 && ya.c1 - (0 - ya.c1) == ya.c1 + ya.c1);
        assert(2 * 0 == 0);
        i_cancel2(ya.c0, 0); i_cancel2(ya.c1, 0);
    }
    assert(false);
}
// ---------------------------------------------------------------- ground facts about the constants of this file
spec fn g2_pi1_limbs() -> Seq<u64> { seq![0x1a98dfbd4575299fu64, 0x9ec8547b245c54fdu64, 0xf51f5eac13df846cu64, 0x9ef74015d5a16393u64] }
spec fn g2_pi2_limbs() -> Seq<u64> { seq![0xb626197dce4736cau64, 0x8296b3557ed0186u64, 0x9c705db2fd91512au64, 0x1c753e748601c992u64] }
proof fn g2_pi_consts() ensures canon9(g2_pi1_limbs()), fe9(g2_pi1_limbs()) == PI1C(), canon9(g2_pi2_limbs()), fe9(g2_pi2_limbs()) == PI2C()
{
    assert(canon9(g2_pi1_limbs()) && fe9(g2_pi1_limbs()) == PI1C()) by(compute);
    assert(canon9(g2_pi2_limbs()) && fe9(g2_pi2_limbs()) == PI2C()) by(compute);
    assert(false);
}
// the generator constant of points.rs (the same limbs as SM9_TWIST_POINT_MONT_P2 of lib.rs)
proof fn g2_gen_const() ensures valid2(SM9_U256_MONT_G2), abs2(SM9_U256_MONT_G2) == G2P()
{
    let g = SM9_U256_MONT_G2;
    assert(canon9(SM9_U256_MONT_G2.x.c0@) && fe9(SM9_U256_MONT_G2.x.c0@) == P2X0()) by(compute);
    assert(canon9(SM9_U256_MONT_G2.x.c1@) && fe9(SM9_U256_MONT_G2.x.c1@) == P2X1()) by(compute);
    assert(canon9(SM9_U256_MONT_G2.y.c0@) && fe9(SM9_U256_MONT_G2.y.c0@) == P2Y0()) by(compute);
    assert(canon9(SM9_U256_MONT_G2.y.c1@) && fe9(SM9_U256_MONT_G2.y.c1@) == P2Y1()) by(compute);
    assert(canon9(SM9_U256_MONT_G2.z.c0@) && fe9(SM9_U256_MONT_G2.z.c0@) == 1) by(compute);
    assert(canon9(SM9_U256_MONT_G2.z.c1@) && fe9(SM9_U256_MONT_G2.z.c1@) == 0) by(compute);
    lemma_params9_g2();
    g2_abs_one(f2v(g.x), f2v(g.y));
    assert(false);
}
// BEGIN GENERATED by tools/gen_sm9_g2.py (polynomial identities over Z[u]/(u^2+2): wrappers + ring axioms; programs: rel + chain)
// x / z^2 = xa gives back x = xa z^2
proof fn qr_par2(xa: F2, x: F2, z: F2, zi: F2)
    ensures q_sub(q_mul(q_mul(xa, z), z), x)
        == q_add(q_mul(q_sub(xa, q_mul(q_mul(x, zi), zi)), q_mul(z, z)), q_mul(q_sub(q_mul(z, zi), q_c(1)), q_mul(x, q_add(q_mul(z, zi), q_c(1)))))
{
    reveal(q_add); reveal(q_sub); reveal(q_mul); reveal(q_k); reveal(q_c);
    ring_par2_0(xa.c0, xa.c1, x.c0, x.c1, z.c0, z.c1, zi.c0, zi.c1); ring_par2_1(xa.c0, xa.c1, x.c0, x.c1, z.c0, z.c1, zi.c0, zi.c1);
}
#[verifier::external_body]
proof fn ring_par2_0(xa0: int, xa1: int, x0: int, x1: int, z0: int, z1: int, zi0: int, zi1: int)
    ensures (((xa0) * (z0) - 2 * ((xa1) * (z1))) * (z0) - 2 * (((xa0) * (z1) + (xa1) * (z0)) * (z1))) - (x0)
        == (((xa0) - (((x0) * (zi0) - 2 * ((x1) * (zi1))) * (zi0) - 2 * (((x0) * (zi1) + (x1) * (zi0)) * (zi1)))) * ((z0) * (z0) - 2 * ((z1) * (z1))) - 2 * (((xa1) - (((x0) * (zi0) - 2 * ((x1) * (zi1))) * (zi1) + ((x0) * (zi1) + (x1) * (zi0)) * (zi0))) * ((z0) * (z1) + (z1) * (z0)))) + ((((z0) * (zi0) - 2 * ((z1) * (zi1))) - (1)) * ((x0) * (((z0) * (zi0) - 2 * ((z1) * (zi1))) + (1)) - 2 * ((x1) * (((z0) * (zi1) + (z1) * (zi0)) + (0)))) - 2 * ((((z0) * (zi1) + (z1) * (zi0)) - (0)) * ((x0) * (((z0) * (zi1) + (z1) * (zi0)) + (0)) + (x1) * (((z0) * (zi0) - 2 * ((z1) * (zi1))) + (1)))))
{ }
#[verifier::external_body]
proof fn ring_par2_1(xa0: int, xa1: int, x0: int, x1: int, z0: int, z1: int, zi0: int, zi1: int)
    ensures (((xa0) * (z0) - 2 * ((xa1) * (z1))) * (z1) + ((xa0) * (z1) + (xa1) * (z0)) * (z0)) - (x1)
        == (((xa0) - (((x0) * (zi0) - 2 * ((x1) * (zi1))) * (zi0) - 2 * (((x0) * (zi1) + (x1) * (zi0)) * (zi1)))) * ((z0) * (z1) + (z1) * (z0)) + ((xa1) - (((x0) * (zi0) - 2 * ((x1) * (zi1))) * (zi1) + ((x0) * (zi1) + (x1) * (zi0)) * (zi0))) * ((z0) * (z0) - 2 * ((z1) * (z1)))) + ((((z0) * (zi0) - 2 * ((z1) * (zi1))) - (1)) * ((x0) * (((z0) * (zi1) + (z1) * (zi0)) + (0)) + (x1) * (((z0) * (zi0) - 2 * ((z1) * (zi1))) + (1))) + (((z0) * (zi1) + (z1) * (zi0)) - (0)) * ((x0) * (((z0) * (zi0) - 2 * ((z1) * (zi1))) + (1)) - 2 * ((x1) * (((z0) * (zi1) + (z1) * (zi0)) + (0)))))
{ }
proof fn qr_par3(ya: F2, y: F2, z: F2, zi: F2)
    ensures q_sub(q_mul(q_mul(q_mul(ya, z), z), z), y)
        == q_add(q_mul(q_sub(ya, q_mul(q_mul(q_mul(y, zi), zi), zi)), q_mul(q_mul(z, z), z)), q_mul(q_sub(q_mul(z, zi), q_c(1)), q_mul(y, q_add(q_add(q_mul(q_mul(z, zi), q_mul(z, zi)), q_mul(z, zi)), q_c(1)))))
{
    reveal(q_add); reveal(q_sub); reveal(q_mul); reveal(q_k); reveal(q_c);
    ring_par3_0(ya.c0, ya.c1, y.c0, y.c1, z.c0, z.c1, zi.c0, zi.c1); ring_par3_1(ya.c0, ya.c1, y.c0, y.c1, z.c0, z.c1, zi.c0, zi.c1);
}
#[verifier::external_body]
proof fn ring_par3_0(ya0: int, ya1: int, y0: int, y1: int, z0: int, z1: int, zi0: int, zi1: int)
    ensures ((((ya0) * (z0) - 2 * ((ya1) * (z1))) * (z0) - 2 * (((ya0) * (z1) + (ya1) * (z0)) * (z1))) * (z0) - 2 * ((((ya0) * (z0) - 2 * ((ya1) * (z1))) * (z1) + ((ya0) * (z1) + (ya1) * (z0)) * (z0)) * (z1))) - (y0)
        == (((ya0) - ((((y0) * (zi0) - 2 * ((y1) * (zi1))) * (zi0) - 2 * (((y0) * (zi1) + (y1) * (zi0)) * (zi1))) * (zi0) - 2 * ((((y0) * (zi0) - 2 * ((y1) * (zi1))) * (zi1) + ((y0) * (zi1) + (y1) * (zi0)) * (zi0)) * (zi1)))) * (((z0) * (z0) - 2 * ((z1) * (z1))) * (z0) - 2 * (((z0) * (z1) + (z1) * (z0)) * (z1))) - 2 * (((ya1) - ((((y0) * (zi0) - 2 * ((y1) * (zi1))) * (zi0) - 2 * (((y0) * (zi1) + (y1) * (zi0)) * (zi1))) * (zi1) + (((y0) * (zi0) - 2 * ((y1) * (zi1))) * (zi1) + ((y0) * (zi1) + (y1) * (zi0)) * (zi0)) * (zi0))) * (((z0) * (z0) - 2 * ((z1) * (z1))) * (z1) + ((z0) * (z1) + (z1) * (z0)) * (z0)))) + ((((z0) * (zi0) - 2 * ((z1) * (zi1))) - (1)) * ((y0) * (((((z0) * (zi0) - 2 * ((z1) * (zi1))) * ((z0) * (zi0) - 2 * ((z1) * (zi1))) - 2 * (((z0) * (zi1) + (z1) * (zi0)) * ((z0) * (zi1) + (z1) * (zi0)))) + ((z0) * (zi0) - 2 * ((z1) * (zi1)))) + (1)) - 2 * ((y1) * (((((z0) * (zi0) - 2 * ((z1) * (zi1))) * ((z0) * (zi1) + (z1) * (zi0)) + ((z0) * (zi1) + (z1) * (zi0)) * ((z0) * (zi0) - 2 * ((z1) * (zi1)))) + ((z0) * (zi1) + (z1) * (zi0))) + (0)))) - 2 * ((((z0) * (zi1) + (z1) * (zi0)) - (0)) * ((y0) * (((((z0) * (zi0) - 2 * ((z1) * (zi1))) * ((z0) * (zi1) + (z1) * (zi0)) + ((z0) * (zi1) + (z1) * (zi0)) * ((z0) * (zi0) - 2 * ((z1) * (zi1)))) + ((z0) * (zi1) + (z1) * (zi0))) + (0)) + (y1) * (((((z0) * (zi0) - 2 * ((z1) * (zi1))) * ((z0) * (zi0) - 2 * ((z1) * (zi1))) - 2 * (((z0) * (zi1) + (z1) * (zi0)) * ((z0) * (zi1) + (z1) * (zi0)))) + ((z0) * (zi0) - 2 * ((z1) * (zi1)))) + (1)))))
{ }
#[verifier::external_body]
proof fn ring_par3_1(ya0: int, ya1: int, y0: int, y1: int, z0: int, z1: int, zi0: int, zi1: int)
    ensures ((((ya0) * (z0) - 2 * ((ya1) * (z1))) * (z0) - 2 * (((ya0) * (z1) + (ya1) * (z0)) * (z1))) * (z1) + (((ya0) * (z0) - 2 * ((ya1) * (z1))) * (z1) + ((ya0) * (z1) + (ya1) * (z0)) * (z0)) * (z0)) - (y1)
        == (((ya0) - ((((y0) * (zi0) - 2 * ((y1) * (zi1))) * (zi0) - 2 * (((y0) * (zi1) + (y1) * (zi0)) * (zi1))) * (zi0) - 2 * ((((y0) * (zi0) - 2 * ((y1) * (zi1))) * (zi1) + ((y0) * (zi1) + (y1) * (zi0)) * (zi0)) * (zi1)))) * (((z0) * (z0) - 2 * ((z1) * (z1))) * (z1) + ((z0) * (z1) + (z1) * (z0)) * (z0)) + ((ya1) - ((((y0) * (zi0) - 2 * ((y1) * (zi1))) * (zi0) - 2 * (((y0) * (zi1) + (y1) * (zi0)) * (zi1))) * (zi1) + (((y0) * (zi0) - 2 * ((y1) * (zi1))) * (zi1) + ((y0) * (zi1) + (y1) * (zi0)) * (zi0)) * (zi0))) * (((z0) * (z0) - 2 * ((z1) * (z1))) * (z0) - 2 * (((z0) * (z1) + (z1) * (z0)) * (z1)))) + ((((z0) * (zi0) - 2 * ((z1) * (zi1))) - (1)) * ((y0) * (((((z0) * (zi0) - 2 * ((z1) * (zi1))) * ((z0) * (zi1) + (z1) * (zi0)) + ((z0) * (zi1) + (z1) * (zi0)) * ((z0) * (zi0) - 2 * ((z1) * (zi1)))) + ((z0) * (zi1) + (z1) * (zi0))) + (0)) + (y1) * (((((z0) * (zi0) - 2 * ((z1) * (zi1))) * ((z0) * (zi0) - 2 * ((z1) * (zi1))) - 2 * (((z0) * (zi1) + (z1) * (zi0)) * ((z0) * (zi1) + (z1) * (zi0)))) + ((z0) * (zi0) - 2 * ((z1) * (zi1)))) + (1))) + (((z0) * (zi1) + (z1) * (zi0)) - (0)) * ((y0) * (((((z0) * (zi0) - 2 * ((z1) * (zi1))) * ((z0) * (zi0) - 2 * ((z1) * (zi1))) - 2 * (((z0) * (zi1) + (z1) * (zi0)) * ((z0) * (zi1) + (z1) * (zi0)))) + ((z0) * (zi0) - 2 * ((z1) * (zi1)))) + (1)) - 2 * ((y1) * (((((z0) * (zi0) - 2 * ((z1) * (zi1))) * ((z0) * (zi1) + (z1) * (zi0)) + ((z0) * (zi1) + (z1) * (zi0)) * ((z0) * (zi0) - 2 * ((z1) * (zi1)))) + ((z0) * (zi1) + (z1) * (zi0))) + (0)))))
{ }
// a = b z^2 gives a / z^2 = b
proof fn qr_div2(a: F2, b: F2, z: F2, w: F2)
    ensures q_sub(q_mul(q_mul(a, w), w), b)
        == q_add(q_mul(q_sub(a, q_mul(b, q_mul(z, z))), q_mul(w, w)), q_mul(q_sub(q_mul(z, w), q_c(1)), q_mul(b, q_add(q_mul(z, w), q_c(1)))))
{
    reveal(q_add); reveal(q_sub); reveal(q_mul); reveal(q_k); reveal(q_c);
    ring_div2_0(a.c0, a.c1, b.c0, b.c1, z.c0, z.c1, w.c0, w.c1); ring_div2_1(a.c0, a.c1, b.c0, b.c1, z.c0, z.c1, w.c0, w.c1);
}
#[verifier::external_body]
proof fn ring_div2_0(a0: int, a1: int, b0: int, b1: int, z0: int, z1: int, w0: int, w1: int)
    ensures (((a0) * (w0) - 2 * ((a1) * (w1))) * (w0) - 2 * (((a0) * (w1) + (a1) * (w0)) * (w1))) - (b0)
        == (((a0) - ((b0) * ((z0) * (z0) - 2 * ((z1) * (z1))) - 2 * ((b1) * ((z0) * (z1) + (z1) * (z0))))) * ((w0) * (w0) - 2 * ((w1) * (w1))) - 2 * (((a1) - ((b0) * ((z0) * (z1) + (z1) * (z0)) + (b1) * ((z0) * (z0) - 2 * ((z1) * (z1))))) * ((w0) * (w1) + (w1) * (w0)))) + ((((z0) * (w0) - 2 * ((z1) * (w1))) - (1)) * ((b0) * (((z0) * (w0) - 2 * ((z1) * (w1))) + (1)) - 2 * ((b1) * (((z0) * (w1) + (z1) * (w0)) + (0)))) - 2 * ((((z0) * (w1) + (z1) * (w0)) - (0)) * ((b0) * (((z0) * (w1) + (z1) * (w0)) + (0)) + (b1) * (((z0) * (w0) - 2 * ((z1) * (w1))) + (1)))))
{ }
#[verifier::external_body]
proof fn ring_div2_1(a0: int, a1: int, b0: int, b1: int, z0: int, z1: int, w0: int, w1: int)
    ensures (((a0) * (w0) - 2 * ((a1) * (w1))) * (w1) + ((a0) * (w1) + (a1) * (w0)) * (w0)) - (b1)
        == (((a0) - ((b0) * ((z0) * (z0) - 2 * ((z1) * (z1))) - 2 * ((b1) * ((z0) * (z1) + (z1) * (z0))))) * ((w0) * (w1) + (w1) * (w0)) + ((a1) - ((b0) * ((z0) * (z1) + (z1) * (z0)) + (b1) * ((z0) * (z0) - 2 * ((z1) * (z1))))) * ((w0) * (w0) - 2 * ((w1) * (w1)))) + ((((z0) * (w0) - 2 * ((z1) * (w1))) - (1)) * ((b0) * (((z0) * (w1) + (z1) * (w0)) + (0)) + (b1) * (((z0) * (w0) - 2 * ((z1) * (w1))) + (1))) + (((z0) * (w1) + (z1) * (w0)) - (0)) * ((b0) * (((z0) * (w0) - 2 * ((z1) * (w1))) + (1)) - 2 * ((b1) * (((z0) * (w1) + (z1) * (w0)) + (0)))))
{ }
proof fn qr_div3(a: F2, b: F2, z: F2, w: F2)
    ensures q_sub(q_mul(q_mul(q_mul(a, w), w), w), b)
        == q_add(q_mul(q_sub(a, q_mul(b, q_mul(q_mul(z, z), z))), q_mul(q_mul(w, w), w)), q_mul(q_sub(q_mul(z, w), q_c(1)), q_mul(b, q_add(q_add(q_mul(q_mul(z, w), q_mul(z, w)), q_mul(z, w)), q_c(1)))))
{
    reveal(q_add); reveal(q_sub); reveal(q_mul); reveal(q_k); reveal(q_c);
    ring_div3_0(a.c0, a.c1, b.c0, b.c1, z.c0, z.c1, w.c0, w.c1); ring_div3_1(a.c0, a.c1, b.c0, b.c1, z.c0, z.c1, w.c0, w.c1);
}
#[verifier::external_body]
proof fn ring_div3_0(a0: int, a1: int, b0: int, b1: int, z0: int, z1: int, w0: int, w1: int)
    ensures ((((a0) * (w0) - 2 * ((a1) * (w1))) * (w0) - 2 * (((a0) * (w1) + (a1) * (w0)) * (w1))) * (w0) - 2 * ((((a0) * (w0) - 2 * ((a1) * (w1))) * (w1) + ((a0) * (w1) + (a1) * (w0)) * (w0)) * (w1))) - (b0)
        == (((a0) - ((b0) * (((z0) * (z0) - 2 * ((z1) * (z1))) * (z0) - 2 * (((z0) * (z1) + (z1) * (z0)) * (z1))) - 2 * ((b1) * (((z0) * (z0) - 2 * ((z1) * (z1))) * (z1) + ((z0) * (z1) + (z1) * (z0)) * (z0))))) * (((w0) * (w0) - 2 * ((w1) * (w1))) * (w0) - 2 * (((w0) * (w1) + (w1) * (w0)) * (w1))) - 2 * (((a1) - ((b0) * (((z0) * (z0) - 2 * ((z1) * (z1))) * (z1) + ((z0) * (z1) + (z1) * (z0)) * (z0)) + (b1) * (((z0) * (z0) - 2 * ((z1) * (z1))) * (z0) - 2 * (((z0) * (z1) + (z1) * (z0)) * (z1))))) * (((w0) * (w0) - 2 * ((w1) * (w1))) * (w1) + ((w0) * (w1) + (w1) * (w0)) * (w0)))) + ((((z0) * (w0) - 2 * ((z1) * (w1))) - (1)) * ((b0) * (((((z0) * (w0) - 2 * ((z1) * (w1))) * ((z0) * (w0) - 2 * ((z1) * (w1))) - 2 * (((z0) * (w1) + (z1) * (w0)) * ((z0) * (w1) + (z1) * (w0)))) + ((z0) * (w0) - 2 * ((z1) * (w1)))) + (1)) - 2 * ((b1) * (((((z0) * (w0) - 2 * ((z1) * (w1))) * ((z0) * (w1) + (z1) * (w0)) + ((z0) * (w1) + (z1) * (w0)) * ((z0) * (w0) - 2 * ((z1) * (w1)))) + ((z0) * (w1) + (z1) * (w0))) + (0)))) - 2 * ((((z0) * (w1) + (z1) * (w0)) - (0)) * ((b0) * (((((z0) * (w0) - 2 * ((z1) * (w1))) * ((z0) * (w1) + (z1) * (w0)) + ((z0) * (w1) + (z1) * (w0)) * ((z0) * (w0) - 2 * ((z1) * (w1)))) + ((z0) * (w1) + (z1) * (w0))) + (0)) + (b1) * (((((z0) * (w0) - 2 * ((z1) * (w1))) * ((z0) * (w0) - 2 * ((z1) * (w1))) - 2 * (((z0) * (w1) + (z1) * (w0)) * ((z0) * (w1) + (z1) * (w0)))) + ((z0) * (w0) - 2 * ((z1) * (w1)))) + (1)))))
{ }
#[verifier::external_body]
proof fn ring_div3_1(a0: int, a1: int, b0: int, b1: int, z0: int, z1: int, w0: int, w1: int)
    ensures ((((a0) * (w0) - 2 * ((a1) * (w1))) * (w0) - 2 * (((a0) * (w1) + (a1) * (w0)) * (w1))) * (w1) + (((a0) * (w0) - 2 * ((a1) * (w1))) * (w1) + ((a0) * (w1) + (a1) * (w0)) * (w0)) * (w0)) - (b1)
        == (((a0) - ((b0) * (((z0) * (z0) - 2 * ((z1) * (z1))) * (z0) - 2 * (((z0) * (z1) + (z1) * (z0)) * (z1))) - 2 * ((b1) * (((z0) * (z0) - 2 * ((z1) * (z1))) * (z1) + ((z0) * (z1) + (z1) * (z0)) * (z0))))) * (((w0) * (w0) - 2 * ((w1) * (w1))) * (w1) + ((w0) * (w1) + (w1) * (w0)) * (w0)) + ((a1) - ((b0) * (((z0) * (z0) - 2 * ((z1) * (z1))) * (z1) + ((z0) * (z1) + (z1) * (z0)) * (z0)) + (b1) * (((z0) * (z0) - 2 * ((z1) * (z1))) * (z0) - 2 * (((z0) * (z1) + (z1) * (z0)) * (z1))))) * (((w0) * (w0) - 2 * ((w1) * (w1))) * (w0) - 2 * (((w0) * (w1) + (w1) * (w0)) * (w1)))) + ((((z0) * (w0) - 2 * ((z1) * (w1))) - (1)) * ((b0) * (((((z0) * (w0) - 2 * ((z1) * (w1))) * ((z0) * (w1) + (z1) * (w0)) + ((z0) * (w1) + (z1) * (w0)) * ((z0) * (w0) - 2 * ((z1) * (w1)))) + ((z0) * (w1) + (z1) * (w0))) + (0)) + (b1) * (((((z0) * (w0) - 2 * ((z1) * (w1))) * ((z0) * (w0) - 2 * ((z1) * (w1))) - 2 * (((z0) * (w1) + (z1) * (w0)) * ((z0) * (w1) + (z1) * (w0)))) + ((z0) * (w0) - 2 * ((z1) * (w1)))) + (1))) + (((z0) * (w1) + (z1) * (w0)) - (0)) * ((b0) * (((((z0) * (w0) - 2 * ((z1) * (w1))) * ((z0) * (w0) - 2 * ((z1) * (w1))) - 2 * (((z0) * (w1) + (z1) * (w0)) * ((z0) * (w1) + (z1) * (w0)))) + ((z0) * (w0) - 2 * ((z1) * (w1)))) + (1)) - 2 * ((b1) * (((((z0) * (w0) - 2 * ((z1) * (w1))) * ((z0) * (w1) + (z1) * (w0)) + ((z0) * (w1) + (z1) * (w0)) * ((z0) * (w0) - 2 * ((z1) * (w1)))) + ((z0) * (w1) + (z1) * (w0))) + (0)))))
{ }
proof fn qr_sqdiff(a: F2, b: F2)
    ensures q_mul(q_sub(a, b), q_add(a, b))
        == q_sub(q_mul(a, a), q_mul(b, b))
{
    reveal(q_add); reveal(q_sub); reveal(q_mul); reveal(q_k); reveal(q_c);
    ring_sqdiff_0(a.c0, a.c1, b.c0, b.c1); ring_sqdiff_1(a.c0, a.c1, b.c0, b.c1);
}
#[verifier::external_body]
proof fn ring_sqdiff_0(a0: int, a1: int, b0: int, b1: int)
    ensures ((a0) - (b0)) * ((a0) + (b0)) - 2 * (((a1) - (b1)) * ((a1) + (b1)))
        == ((a0) * (a0) - 2 * ((a1) * (a1))) - ((b0) * (b0) - 2 * ((b1) * (b1)))
{ }
#[verifier::external_body]
proof fn ring_sqdiff_1(a0: int, a1: int, b0: int, b1: int)
    ensures ((a0) - (b0)) * ((a1) + (b1)) + ((a1) - (b1)) * ((a0) + (b0))
        == ((a0) * (a1) + (a1) * (a0)) - ((b0) * (b1) + (b1) * (b0))
{ }
// (a b) c = b (a c)
proof fn qr_assoc(a: F2, b: F2, c: F2)
    ensures q_mul(q_mul(a, b), c)
        == q_mul(b, q_mul(a, c))
{
    reveal(q_add); reveal(q_sub); reveal(q_mul); reveal(q_k); reveal(q_c);
    ring_assoc_0(a.c0, a.c1, b.c0, b.c1, c.c0, c.c1); ring_assoc_1(a.c0, a.c1, b.c0, b.c1, c.c0, c.c1);
}
#[verifier::external_body]
proof fn ring_assoc_0(a0: int, a1: int, b0: int, b1: int, c0: int, c1: int)
    ensures ((a0) * (b0) - 2 * ((a1) * (b1))) * (c0) - 2 * (((a0) * (b1) + (a1) * (b0)) * (c1))
        == (b0) * ((a0) * (c0) - 2 * ((a1) * (c1))) - 2 * ((b1) * ((a0) * (c1) + (a1) * (c0)))
{ }
#[verifier::external_body]
proof fn ring_assoc_1(a0: int, a1: int, b0: int, b1: int, c0: int, c1: int)
    ensures ((a0) * (b0) - 2 * ((a1) * (b1))) * (c1) + ((a0) * (b1) + (a1) * (b0)) * (c0)
        == (b0) * ((a0) * (c1) + (a1) * (c0)) + (b1) * ((a0) * (c0) - 2 * ((a1) * (c1)))
{ }
// a c - b c = (a - b) c
proof fn qr_dist(a: F2, b: F2, c: F2)
    ensures q_sub(q_mul(a, c), q_mul(b, c))
        == q_mul(q_sub(a, b), c)
{
    reveal(q_add); reveal(q_sub); reveal(q_mul); reveal(q_k); reveal(q_c);
    ring_dist_0(a.c0, a.c1, b.c0, b.c1, c.c0, c.c1); ring_dist_1(a.c0, a.c1, b.c0, b.c1, c.c0, c.c1);
}
#[verifier::external_body]
proof fn ring_dist_0(a0: int, a1: int, b0: int, b1: int, c0: int, c1: int)
    ensures ((a0) * (c0) - 2 * ((a1) * (c1))) - ((b0) * (c0) - 2 * ((b1) * (c1)))
        == ((a0) - (b0)) * (c0) - 2 * (((a1) - (b1)) * (c1))
{ }
#[verifier::external_body]
proof fn ring_dist_1(a0: int, a1: int, b0: int, b1: int, c0: int, c1: int)
    ensures ((a0) * (c1) + (a1) * (c0)) - ((b0) * (c1) + (b1) * (c0))
        == ((a0) - (b0)) * (c1) + ((a1) - (b1)) * (c0)
{ }
proof fn qr_dista(a: F2, b: F2, c: F2)
    ensures q_add(q_mul(a, c), q_mul(b, c))
        == q_mul(q_add(a, b), c)
{
    reveal(q_add); reveal(q_sub); reveal(q_mul); reveal(q_k); reveal(q_c);
    ring_dista_0(a.c0, a.c1, b.c0, b.c1, c.c0, c.c1); ring_dista_1(a.c0, a.c1, b.c0, b.c1, c.c0, c.c1);
}
#[verifier::external_body]
proof fn ring_dista_0(a0: int, a1: int, b0: int, b1: int, c0: int, c1: int)
    ensures ((a0) * (c0) - 2 * ((a1) * (c1))) + ((b0) * (c0) - 2 * ((b1) * (c1)))
        == ((a0) + (b0)) * (c0) - 2 * (((a1) + (b1)) * (c1))
{ }
#[verifier::external_body]
proof fn ring_dista_1(a0: int, a1: int, b0: int, b1: int, c0: int, c1: int)
    ensures ((a0) * (c1) + (a1) * (c0)) + ((b0) * (c1) + (b1) * (c0))
        == ((a0) + (b0)) * (c1) + ((a1) + (b1)) * (c0)
{ }
// lam = n / d gives lam d = n
proof fn qr_slope(lam: F2, n: F2, d: F2, dd: F2)
    ensures q_sub(q_mul(lam, d), n)
        == q_add(q_mul(q_sub(lam, q_mul(n, dd)), d), q_mul(q_sub(q_mul(d, dd), q_c(1)), n))
{
    reveal(q_add); reveal(q_sub); reveal(q_mul); reveal(q_k); reveal(q_c);
    ring_slope_0(lam.c0, lam.c1, n.c0, n.c1, d.c0, d.c1, dd.c0, dd.c1); ring_slope_1(lam.c0, lam.c1, n.c0, n.c1, d.c0, d.c1, dd.c0, dd.c1);
}
#[verifier::external_body]
proof fn ring_slope_0(lam0: int, lam1: int, n0: int, n1: int, d0: int, d1: int, dd0: int, dd1: int)
    ensures ((lam0) * (d0) - 2 * ((lam1) * (d1))) - (n0)
        == (((lam0) - ((n0) * (dd0) - 2 * ((n1) * (dd1)))) * (d0) - 2 * (((lam1) - ((n0) * (dd1) + (n1) * (dd0))) * (d1))) + ((((d0) * (dd0) - 2 * ((d1) * (dd1))) - (1)) * (n0) - 2 * ((((d0) * (dd1) + (d1) * (dd0)) - (0)) * (n1)))
{ }
#[verifier::external_body]
proof fn ring_slope_1(lam0: int, lam1: int, n0: int, n1: int, d0: int, d1: int, dd0: int, dd1: int)
    ensures ((lam0) * (d1) + (lam1) * (d0)) - (n1)
        == (((lam0) - ((n0) * (dd0) - 2 * ((n1) * (dd1)))) * (d1) + ((lam1) - ((n0) * (dd1) + (n1) * (dd0))) * (d0)) + ((((d0) * (dd0) - 2 * ((d1) * (dd1))) - (1)) * (n1) + (((d0) * (dd1) + (d1) * (dd0)) - (0)) * (n0))
{ }
proof fn qr_tan_x(xa: F2, ya: F2, lam: F2, W: F2)
    ensures q_sub(q_mul(q_sub(q_sub(q_mul(lam, lam), xa), xa), q_mul(q_mul(q_add(ya, ya), W), q_mul(q_add(ya, ya), W))), q_mul(q_sub(q_mul(q_add(q_add(q_mul(xa, xa), q_mul(xa, xa)), q_mul(xa, xa)), q_add(q_add(q_mul(xa, xa), q_mul(xa, xa)), q_mul(xa, xa))), q_add(q_mul(q_mul(q_add(ya, ya), q_add(ya, ya)), xa), q_mul(q_mul(q_add(ya, ya), q_add(ya, ya)), xa))), q_mul(W, W)))
        == q_mul(q_sub(q_mul(lam, q_add(ya, ya)), q_add(q_add(q_mul(xa, xa), q_mul(xa, xa)), q_mul(xa, xa))), q_mul(q_add(q_mul(lam, q_add(ya, ya)), q_add(q_add(q_mul(xa, xa), q_mul(xa, xa)), q_mul(xa, xa))), q_mul(W, W)))
{
    reveal(q_add); reveal(q_sub); reveal(q_mul); reveal(q_k); reveal(q_c);
    ring_tan_x_0(xa.c0, xa.c1, ya.c0, ya.c1, lam.c0, lam.c1, W.c0, W.c1); ring_tan_x_1(xa.c0, xa.c1, ya.c0, ya.c1, lam.c0, lam.c1, W.c0, W.c1);
}
#[verifier::external_body]
proof fn ring_tan_x_0(xa0: int, xa1: int, ya0: int, ya1: int, lam0: int, lam1: int, W0: int, W1: int)
    ensures (((((lam0) * (lam0) - 2 * ((lam1) * (lam1))) - (xa0)) - (xa0)) * ((((ya0) + (ya0)) * (W0) - 2 * (((ya1) + (ya1)) * (W1))) * (((ya0) + (ya0)) * (W0) - 2 * (((ya1) + (ya1)) * (W1))) - 2 * ((((ya0) + (ya0)) * (W1) + ((ya1) + (ya1)) * (W0)) * (((ya0) + (ya0)) * (W1) + ((ya1) + (ya1)) * (W0)))) - 2 * (((((lam0) * (lam1) + (lam1) * (lam0)) - (xa1)) - (xa1)) * ((((ya0) + (ya0)) * (W0) - 2 * (((ya1) + (ya1)) * (W1))) * (((ya0) + (ya0)) * (W1) + ((ya1) + (ya1)) * (W0)) + (((ya0) + (ya0)) * (W1) + ((ya1) + (ya1)) * (W0)) * (((ya0) + (ya0)) * (W0) - 2 * (((ya1) + (ya1)) * (W1)))))) - (((((((xa0) * (xa0) - 2 * ((xa1) * (xa1))) + ((xa0) * (xa0) - 2 * ((xa1) * (xa1)))) + ((xa0) * (xa0) - 2 * ((xa1) * (xa1)))) * ((((xa0) * (xa0) - 2 * ((xa1) * (xa1))) + ((xa0) * (xa0) - 2 * ((xa1) * (xa1)))) + ((xa0) * (xa0) - 2 * ((xa1) * (xa1)))) - 2 * (((((xa0) * (xa1) + (xa1) * (xa0)) + ((xa0) * (xa1) + (xa1) * (xa0))) + ((xa0) * (xa1) + (xa1) * (xa0))) * ((((xa0) * (xa1) + (xa1) * (xa0)) + ((xa0) * (xa1) + (xa1) * (xa0))) + ((xa0) * (xa1) + (xa1) * (xa0))))) - (((((ya0) + (ya0)) * ((ya0) + (ya0)) - 2 * (((ya1) + (ya1)) * ((ya1) + (ya1)))) * (xa0) - 2 * ((((ya0) + (ya0)) * ((ya1) + (ya1)) + ((ya1) + (ya1)) * ((ya0) + (ya0))) * (xa1))) + ((((ya0) + (ya0)) * ((ya0) + (ya0)) - 2 * (((ya1) + (ya1)) * ((ya1) + (ya1)))) * (xa0) - 2 * ((((ya0) + (ya0)) * ((ya1) + (ya1)) + ((ya1) + (ya1)) * ((ya0) + (ya0))) * (xa1))))) * ((W0) * (W0) - 2 * ((W1) * (W1))) - 2 * (((((((xa0) * (xa0) - 2 * ((xa1) * (xa1))) + ((xa0) * (xa0) - 2 * ((xa1) * (xa1)))) + ((xa0) * (xa0) - 2 * ((xa1) * (xa1)))) * ((((xa0) * (xa1) + (xa1) * (xa0)) + ((xa0) * (xa1) + (xa1) * (xa0))) + ((xa0) * (xa1) + (xa1) * (xa0))) + ((((xa0) * (xa1) + (xa1) * (xa0)) + ((xa0) * (xa1) + (xa1) * (xa0))) + ((xa0) * (xa1) + (xa1) * (xa0))) * ((((xa0) * (xa0) - 2 * ((xa1) * (xa1))) + ((xa0) * (xa0) - 2 * ((xa1) * (xa1)))) + ((xa0) * (xa0) - 2 * ((xa1) * (xa1))))) - (((((ya0) + (ya0)) * ((ya0) + (ya0)) - 2 * (((ya1) + (ya1)) * ((ya1) + (ya1)))) * (xa1) + (((ya0) + (ya0)) * ((ya1) + (ya1)) + ((ya1) + (ya1)) * ((ya0) + (ya0))) * (xa0)) + ((((ya0) + (ya0)) * ((ya0) + (ya0)) - 2 * (((ya1) + (ya1)) * ((ya1) + (ya1)))) * (xa1) + (((ya0) + (ya0)) * ((ya1) + (ya1)) + ((ya1) + (ya1)) * ((ya0) + (ya0))) * (xa0)))) * ((W0) * (W1) + (W1) * (W0))))
        == (((lam0) * ((ya0) + (ya0)) - 2 * ((lam1) * ((ya1) + (ya1)))) - ((((xa0) * (xa0) - 2 * ((xa1) * (xa1))) + ((xa0) * (xa0) - 2 * ((xa1) * (xa1)))) + ((xa0) * (xa0) - 2 * ((xa1) * (xa1))))) * ((((lam0) * ((ya0) + (ya0)) - 2 * ((lam1) * ((ya1) + (ya1)))) + ((((xa0) * (xa0) - 2 * ((xa1) * (xa1))) + ((xa0) * (xa0) - 2 * ((xa1) * (xa1)))) + ((xa0) * (xa0) - 2 * ((xa1) * (xa1))))) * ((W0) * (W0) - 2 * ((W1) * (W1))) - 2 * ((((lam0) * ((ya1) + (ya1)) + (lam1) * ((ya0) + (ya0))) + ((((xa0) * (xa1) + (xa1) * (xa0)) + ((xa0) * (xa1) + (xa1) * (xa0))) + ((xa0) * (xa1) + (xa1) * (xa0)))) * ((W0) * (W1) + (W1) * (W0)))) - 2 * ((((lam0) * ((ya1) + (ya1)) + (lam1) * ((ya0) + (ya0))) - ((((xa0) * (xa1) + (xa1) * (xa0)) + ((xa0) * (xa1) + (xa1) * (xa0))) + ((xa0) * (xa1) + (xa1) * (xa0)))) * ((((lam0) * ((ya0) + (ya0)) - 2 * ((lam1) * ((ya1) + (ya1)))) + ((((xa0) * (xa0) - 2 * ((xa1) * (xa1))) + ((xa0) * (xa0) - 2 * ((xa1) * (xa1)))) + ((xa0) * (xa0) - 2 * ((xa1) * (xa1))))) * ((W0) * (W1) + (W1) * (W0)) + (((lam0) * ((ya1) + (ya1)) + (lam1) * ((ya0) + (ya0))) + ((((xa0) * (xa1) + (xa1) * (xa0)) + ((xa0) * (xa1) + (xa1) * (xa0))) + ((xa0) * (xa1) + (xa1) * (xa0)))) * ((W0) * (W0) - 2 * ((W1) * (W1)))))
{ }
#[verifier::external_body]
proof fn ring_tan_x_1(xa0: int, xa1: int, ya0: int, ya1: int, lam0: int, lam1: int, W0: int, W1: int)
    ensures (((((lam0) * (lam0) - 2 * ((lam1) * (lam1))) - (xa0)) - (xa0)) * ((((ya0) + (ya0)) * (W0) - 2 * (((ya1) + (ya1)) * (W1))) * (((ya0) + (ya0)) * (W1) + ((ya1) + (ya1)) * (W0)) + (((ya0) + (ya0)) * (W1) + ((ya1) + (ya1)) * (W0)) * (((ya0) + (ya0)) * (W0) - 2 * (((ya1) + (ya1)) * (W1)))) + ((((lam0) * (lam1) + (lam1) * (lam0)) - (xa1)) - (xa1)) * ((((ya0) + (ya0)) * (W0) - 2 * (((ya1) + (ya1)) * (W1))) * (((ya0) + (ya0)) * (W0) - 2 * (((ya1) + (ya1)) * (W1))) - 2 * ((((ya0) + (ya0)) * (W1) + ((ya1) + (ya1)) * (W0)) * (((ya0) + (ya0)) * (W1) + ((ya1) + (ya1)) * (W0))))) - (((((((xa0) * (xa0) - 2 * ((xa1) * (xa1))) + ((xa0) * (xa0) - 2 * ((xa1) * (xa1)))) + ((xa0) * (xa0) - 2 * ((xa1) * (xa1)))) * ((((xa0) * (xa0) - 2 * ((xa1) * (xa1))) + ((xa0) * (xa0) - 2 * ((xa1) * (xa1)))) + ((xa0) * (xa0) - 2 * ((xa1) * (xa1)))) - 2 * (((((xa0) * (xa1) + (xa1) * (xa0)) + ((xa0) * (xa1) + (xa1) * (xa0))) + ((xa0) * (xa1) + (xa1) * (xa0))) * ((((xa0) * (xa1) + (xa1) * (xa0)) + ((xa0) * (xa1) + (xa1) * (xa0))) + ((xa0) * (xa1) + (xa1) * (xa0))))) - (((((ya0) + (ya0)) * ((ya0) + (ya0)) - 2 * (((ya1) + (ya1)) * ((ya1) + (ya1)))) * (xa0) - 2 * ((((ya0) + (ya0)) * ((ya1) + (ya1)) + ((ya1) + (ya1)) * ((ya0) + (ya0))) * (xa1))) + ((((ya0) + (ya0)) * ((ya0) + (ya0)) - 2 * (((ya1) + (ya1)) * ((ya1) + (ya1)))) * (xa0) - 2 * ((((ya0) + (ya0)) * ((ya1) + (ya1)) + ((ya1) + (ya1)) * ((ya0) + (ya0))) * (xa1))))) * ((W0) * (W1) + (W1) * (W0)) + ((((((xa0) * (xa0) - 2 * ((xa1) * (xa1))) + ((xa0) * (xa0) - 2 * ((xa1) * (xa1)))) + ((xa0) * (xa0) - 2 * ((xa1) * (xa1)))) * ((((xa0) * (xa1) + (xa1) * (xa0)) + ((xa0) * (xa1) + (xa1) * (xa0))) + ((xa0) * (xa1) + (xa1) * (xa0))) + ((((xa0) * (xa1) + (xa1) * (xa0)) + ((xa0) * (xa1) + (xa1) * (xa0))) + ((xa0) * (xa1) + (xa1) * (xa0))) * ((((xa0) * (xa0) - 2 * ((xa1) * (xa1))) + ((xa0) * (xa0) - 2 * ((xa1) * (xa1)))) + ((xa0) * (xa0) - 2 * ((xa1) * (xa1))))) - (((((ya0) + (ya0)) * ((ya0) + (ya0)) - 2 * (((ya1) + (ya1)) * ((ya1) + (ya1)))) * (xa1) + (((ya0) + (ya0)) * ((ya1) + (ya1)) + ((ya1) + (ya1)) * ((ya0) + (ya0))) * (xa0)) + ((((ya0) + (ya0)) * ((ya0) + (ya0)) - 2 * (((ya1) + (ya1)) * ((ya1) + (ya1)))) * (xa1) + (((ya0) + (ya0)) * ((ya1) + (ya1)) + ((ya1) + (ya1)) * ((ya0) + (ya0))) * (xa0)))) * ((W0) * (W0) - 2 * ((W1) * (W1))))
        == (((lam0) * ((ya0) + (ya0)) - 2 * ((lam1) * ((ya1) + (ya1)))) - ((((xa0) * (xa0) - 2 * ((xa1) * (xa1))) + ((xa0) * (xa0) - 2 * ((xa1) * (xa1)))) + ((xa0) * (xa0) - 2 * ((xa1) * (xa1))))) * ((((lam0) * ((ya0) + (ya0)) - 2 * ((lam1) * ((ya1) + (ya1)))) + ((((xa0) * (xa0) - 2 * ((xa1) * (xa1))) + ((xa0) * (xa0) - 2 * ((xa1) * (xa1)))) + ((xa0) * (xa0) - 2 * ((xa1) * (xa1))))) * ((W0) * (W1) + (W1) * (W0)) + (((lam0) * ((ya1) + (ya1)) + (lam1) * ((ya0) + (ya0))) + ((((xa0) * (xa1) + (xa1) * (xa0)) + ((xa0) * (xa1) + (xa1) * (xa0))) + ((xa0) * (xa1) + (xa1) * (xa0)))) * ((W0) * (W0) - 2 * ((W1) * (W1)))) + (((lam0) * ((ya1) + (ya1)) + (lam1) * ((ya0) + (ya0))) - ((((xa0) * (xa1) + (xa1) * (xa0)) + ((xa0) * (xa1) + (xa1) * (xa0))) + ((xa0) * (xa1) + (xa1) * (xa0)))) * ((((lam0) * ((ya0) + (ya0)) - 2 * ((lam1) * ((ya1) + (ya1)))) + ((((xa0) * (xa0) - 2 * ((xa1) * (xa1))) + ((xa0) * (xa0) - 2 * ((xa1) * (xa1)))) + ((xa0) * (xa0) - 2 * ((xa1) * (xa1))))) * ((W0) * (W0) - 2 * ((W1) * (W1))) - 2 * ((((lam0) * ((ya1) + (ya1)) + (lam1) * ((ya0) + (ya0))) + ((((xa0) * (xa1) + (xa1) * (xa0)) + ((xa0) * (xa1) + (xa1) * (xa0))) + ((xa0) * (xa1) + (xa1) * (xa0)))) * ((W0) * (W1) + (W1) * (W0))))
{ }
proof fn qr_tan_y(xa: F2, ya: F2, lam: F2, s: F2, W: F2)
    ensures q_sub(q_mul(q_sub(q_mul(lam, q_sub(xa, s)), ya), q_mul(q_mul(q_mul(q_add(ya, ya), W), q_mul(q_add(ya, ya), W)), q_mul(q_add(ya, ya), W))), q_mul(q_sub(q_mul(q_add(q_add(q_mul(xa, xa), q_mul(xa, xa)), q_mul(xa, xa)), q_sub(q_mul(q_mul(q_add(ya, ya), q_add(ya, ya)), xa), q_sub(q_mul(q_add(q_add(q_mul(xa, xa), q_mul(xa, xa)), q_mul(xa, xa)), q_add(q_add(q_mul(xa, xa), q_mul(xa, xa)), q_mul(xa, xa))), q_add(q_mul(q_mul(q_add(ya, ya), q_add(ya, ya)), xa), q_mul(q_mul(q_add(ya, ya), q_add(ya, ya)), xa))))), q_k(8, q_mul(q_mul(ya, ya), q_mul(ya, ya)))), q_mul(q_mul(W, W), W)))
        == q_sub(q_mul(q_sub(q_mul(lam, q_add(ya, ya)), q_add(q_add(q_mul(xa, xa), q_mul(xa, xa)), q_mul(xa, xa))), q_mul(q_mul(q_mul(W, W), W), q_sub(q_mul(q_mul(q_add(ya, ya), q_add(ya, ya)), xa), q_sub(q_mul(q_add(q_add(q_mul(xa, xa), q_mul(xa, xa)), q_mul(xa, xa)), q_add(q_add(q_mul(xa, xa), q_mul(xa, xa)), q_mul(xa, xa))), q_add(q_mul(q_mul(q_add(ya, ya), q_add(ya, ya)), xa), q_mul(q_mul(q_add(ya, ya), q_add(ya, ya)), xa)))))), q_mul(q_sub(q_mul(s, q_mul(q_mul(q_add(ya, ya), W), q_mul(q_add(ya, ya), W))), q_mul(q_sub(q_mul(q_add(q_add(q_mul(xa, xa), q_mul(xa, xa)), q_mul(xa, xa)), q_add(q_add(q_mul(xa, xa), q_mul(xa, xa)), q_mul(xa, xa))), q_add(q_mul(q_mul(q_add(ya, ya), q_add(ya, ya)), xa), q_mul(q_mul(q_add(ya, ya), q_add(ya, ya)), xa))), q_mul(W, W))), q_mul(lam, q_mul(q_add(ya, ya), W))))
{
    reveal(q_add); reveal(q_sub); reveal(q_mul); reveal(q_k); reveal(q_c);
    ring_tan_y_0(xa.c0, xa.c1, ya.c0, ya.c1, lam.c0, lam.c1, s.c0, s.c1, W.c0, W.c1); ring_tan_y_1(xa.c0, xa.c1, ya.c0, ya.c1, lam.c0, lam.c1, s.c0, s.c1, W.c0, W.c1);
}
#[verifier::external_body]
proof fn ring_tan_y_0(xa0: int, xa1: int, ya0: int, ya1: int, lam0: int, lam1: int, s0: int, s1: int, W0: int, W1: int)
    ensures ((((lam0) * ((xa0) - (s0)) - 2 * ((lam1) * ((xa1) - (s1)))) - (ya0)) * (((((ya0) + (ya0)) * (W0) - 2 * (((ya1) + (ya1)) * (W1))) * (((ya0) + (ya0)) * (W0) - 2 * (((ya1) + (ya1)) * (W1))) - 2 * ((((ya0) + (ya0)) * (W1) + ((ya1) + (ya1)) * (W0)) * (((ya0) + (ya0)) * (W1) + ((ya1) + (ya1)) * (W0)))) * (((ya0) + (ya0)) * (W0) - 2 * (((ya1) + (ya1)) * (W1))) - 2 * (((((ya0) + (ya0)) * (W0) - 2 * (((ya1) + (ya1)) * (W1))) * (((ya0) + (ya0)) * (W1) + ((ya1) + (ya1)) * (W0)) + (((ya0) + (ya0)) * (W1) + ((ya1) + (ya1)) * (W0)) * (((ya0) + (ya0)) * (W0) - 2 * (((ya1) + (ya1)) * (W1)))) * (((ya0) + (ya0)) * (W1) + ((ya1) + (ya1)) * (W0)))) - 2 * ((((lam0) * ((xa1) - (s1)) + (lam1) * ((xa0) - (s0))) - (ya1)) * (((((ya0) + (ya0)) * (W0) - 2 * (((ya1) + (ya1)) * (W1))) * (((ya0) + (ya0)) * (W0) - 2 * (((ya1) + (ya1)) * (W1))) - 2 * ((((ya0) + (ya0)) * (W1) + ((ya1) + (ya1)) * (W0)) * (((ya0) + (ya0)) * (W1) + ((ya1) + (ya1)) * (W0)))) * (((ya0) + (ya0)) * (W1) + ((ya1) + (ya1)) * (W0)) + ((((ya0) + (ya0)) * (W0) - 2 * (((ya1) + (ya1)) * (W1))) * (((ya0) + (ya0)) * (W1) + ((ya1) + (ya1)) * (W0)) + (((ya0) + (ya0)) * (W1) + ((ya1) + (ya1)) * (W0)) * (((ya0) + (ya0)) * (W0) - 2 * (((ya1) + (ya1)) * (W1)))) * (((ya0) + (ya0)) * (W0) - 2 * (((ya1) + (ya1)) * (W1)))))) - (((((((xa0) * (xa0) - 2 * ((xa1) * (xa1))) + ((xa0) * (xa0) - 2 * ((xa1) * (xa1)))) + ((xa0) * (xa0) - 2 * ((xa1) * (xa1)))) * (((((ya0) + (ya0)) * ((ya0) + (ya0)) - 2 * (((ya1) + (ya1)) * ((ya1) + (ya1)))) * (xa0) - 2 * ((((ya0) + (ya0)) * ((ya1) + (ya1)) + ((ya1) + (ya1)) * ((ya0) + (ya0))) * (xa1))) - ((((((xa0) * (xa0) - 2 * ((xa1) * (xa1))) + ((xa0) * (xa0) - 2 * ((xa1) * (xa1)))) + ((xa0) * (xa0) - 2 * ((xa1) * (xa1)))) * ((((xa0) * (xa0) - 2 * ((xa1) * (xa1))) + ((xa0) * (xa0) - 2 * ((xa1) * (xa1)))) + ((xa0) * (xa0) - 2 * ((xa1) * (xa1)))) - 2 * (((((xa0) * (xa1) + (xa1) * (xa0)) + ((xa0) * (xa1) + (xa1) * (xa0))) + ((xa0) * (xa1) + (xa1) * (xa0))) * ((((xa0) * (xa1) + (xa1) * (xa0)) + ((xa0) * (xa1) + (xa1) * (xa0))) + ((xa0) * (xa1) + (xa1) * (xa0))))) - (((((ya0) + (ya0)) * ((ya0) + (ya0)) - 2 * (((ya1) + (ya1)) * ((ya1) + (ya1)))) * (xa0) - 2 * ((((ya0) + (ya0)) * ((ya1) + (ya1)) + ((ya1) + (ya1)) * ((ya0) + (ya0))) * (xa1))) + ((((ya0) + (ya0)) * ((ya0) + (ya0)) - 2 * (((ya1) + (ya1)) * ((ya1) + (ya1)))) * (xa0) - 2 * ((((ya0) + (ya0)) * ((ya1) + (ya1)) + ((ya1) + (ya1)) * ((ya0) + (ya0))) * (xa1)))))) - 2 * (((((xa0) * (xa1) + (xa1) * (xa0)) + ((xa0) * (xa1) + (xa1) * (xa0))) + ((xa0) * (xa1) + (xa1) * (xa0))) * (((((ya0) + (ya0)) * ((ya0) + (ya0)) - 2 * (((ya1) + (ya1)) * ((ya1) + (ya1)))) * (xa1) + (((ya0) + (ya0)) * ((ya1) + (ya1)) + ((ya1) + (ya1)) * ((ya0) + (ya0))) * (xa0)) - ((((((xa0) * (xa0) - 2 * ((xa1) * (xa1))) + ((xa0) * (xa0) - 2 * ((xa1) * (xa1)))) + ((xa0) * (xa0) - 2 * ((xa1) * (xa1)))) * ((((xa0) * (xa1) + (xa1) * (xa0)) + ((xa0) * (xa1) + (xa1) * (xa0))) + ((xa0) * (xa1) + (xa1) * (xa0))) + ((((xa0) * (xa1) + (xa1) * (xa0)) + ((xa0) * (xa1) + (xa1) * (xa0))) + ((xa0) * (xa1) + (xa1) * (xa0))) * ((((xa0) * (xa0) - 2 * ((xa1) * (xa1))) + ((xa0) * (xa0) - 2 * ((xa1) * (xa1)))) + ((xa0) * (xa0) - 2 * ((xa1) * (xa1))))) - (((((ya0) + (ya0)) * ((ya0) + (ya0)) - 2 * (((ya1) + (ya1)) * ((ya1) + (ya1)))) * (xa1) + (((ya0) + (ya0)) * ((ya1) + (ya1)) + ((ya1) + (ya1)) * ((ya0) + (ya0))) * (xa0)) + ((((ya0) + (ya0)) * ((ya0) + (ya0)) - 2 * (((ya1) + (ya1)) * ((ya1) + (ya1)))) * (xa1) + (((ya0) + (ya0)) * ((ya1) + (ya1)) + ((ya1) + (ya1)) * ((ya0) + (ya0))) * (xa0))))))) - (8 * (((ya0) * (ya0) - 2 * ((ya1) * (ya1))) * ((ya0) * (ya0) - 2 * ((ya1) * (ya1))) - 2 * (((ya0) * (ya1) + (ya1) * (ya0)) * ((ya0) * (ya1) + (ya1) * (ya0)))))) * (((W0) * (W0) - 2 * ((W1) * (W1))) * (W0) - 2 * (((W0) * (W1) + (W1) * (W0)) * (W1))) - 2 * (((((((xa0) * (xa0) - 2 * ((xa1) * (xa1))) + ((xa0) * (xa0) - 2 * ((xa1) * (xa1)))) + ((xa0) * (xa0) - 2 * ((xa1) * (xa1)))) * (((((ya0) + (ya0)) * ((ya0) + (ya0)) - 2 * (((ya1) + (ya1)) * ((ya1) + (ya1)))) * (xa1) + (((ya0) + (ya0)) * ((ya1) + (ya1)) + ((ya1) + (ya1)) * ((ya0) + (ya0))) * (xa0)) - ((((((xa0) * (xa0) - 2 * ((xa1) * (xa1))) + ((xa0) * (xa0) - 2 * ((xa1) * (xa1)))) + ((xa0) * (xa0) - 2 * ((xa1) * (xa1)))) * ((((xa0) * (xa1) + (xa1) * (xa0)) + ((xa0) * (xa1) + (xa1) * (xa0))) + ((xa0) * (xa1) + (xa1) * (xa0))) + ((((xa0) * (xa1) + (xa1) * (xa0)) + ((xa0) * (xa1) + (xa1) * (xa0))) + ((xa0) * (xa1) + (xa1) * (xa0))) * ((((xa0) * (xa0) - 2 * ((xa1) * (xa1))) + ((xa0) * (xa0) - 2 * ((xa1) * (xa1)))) + ((xa0) * (xa0) - 2 * ((xa1) * (xa1))))) - (((((ya0) + (ya0)) * ((ya0) + (ya0)) - 2 * (((ya1) + (ya1)) * ((ya1) + (ya1)))) * (xa1) + (((ya0) + (ya0)) * ((ya1) + (ya1)) + ((ya1) + (ya1)) * ((ya0) + (ya0))) * (xa0)) + ((((ya0) + (ya0)) * ((ya0) + (ya0)) - 2 * (((ya1) + (ya1)) * ((ya1) + (ya1)))) * (xa1) + (((ya0) + (ya0)) * ((ya1) + (ya1)) + ((ya1) + (ya1)) * ((ya0) + (ya0))) * (xa0))))) + ((((xa0) * (xa1) + (xa1) * (xa0)) + ((xa0) * (xa1) + (xa1) * (xa0))) + ((xa0) * (xa1) + (xa1) * (xa0))) * (((((ya0) + (ya0)) * ((ya0) + (ya0)) - 2 * (((ya1) + (ya1)) * ((ya1) + (ya1)))) * (xa0) - 2 * ((((ya0) + (ya0)) * ((ya1) + (ya1)) + ((ya1) + (ya1)) * ((ya0) + (ya0))) * (xa1))) - ((((((xa0) * (xa0) - 2 * ((xa1) * (xa1))) + ((xa0) * (xa0) - 2 * ((xa1) * (xa1)))) + ((xa0) * (xa0) - 2 * ((xa1) * (xa1)))) * ((((xa0) * (xa0) - 2 * ((xa1) * (xa1))) + ((xa0) * (xa0) - 2 * ((xa1) * (xa1)))) + ((xa0) * (xa0) - 2 * ((xa1) * (xa1)))) - 2 * (((((xa0) * (xa1) + (xa1) * (xa0)) + ((xa0) * (xa1) + (xa1) * (xa0))) + ((xa0) * (xa1) + (xa1) * (xa0))) * ((((xa0) * (xa1) + (xa1) * (xa0)) + ((xa0) * (xa1) + (xa1) * (xa0))) + ((xa0) * (xa1) + (xa1) * (xa0))))) - (((((ya0) + (ya0)) * ((ya0) + (ya0)) - 2 * (((ya1) + (ya1)) * ((ya1) + (ya1)))) * (xa0) - 2 * ((((ya0) + (ya0)) * ((ya1) + (ya1)) + ((ya1) + (ya1)) * ((ya0) + (ya0))) * (xa1))) + ((((ya0) + (ya0)) * ((ya0) + (ya0)) - 2 * (((ya1) + (ya1)) * ((ya1) + (ya1)))) * (xa0) - 2 * ((((ya0) + (ya0)) * ((ya1) + (ya1)) + ((ya1) + (ya1)) * ((ya0) + (ya0))) * (xa1))))))) - (8 * (((ya0) * (ya0) - 2 * ((ya1) * (ya1))) * ((ya0) * (ya1) + (ya1) * (ya0)) + ((ya0) * (ya1) + (ya1) * (ya0)) * ((ya0) * (ya0) - 2 * ((ya1) * (ya1)))))) * (((W0) * (W0) - 2 * ((W1) * (W1))) * (W1) + ((W0) * (W1) + (W1) * (W0)) * (W0))))
        == ((((lam0) * ((ya0) + (ya0)) - 2 * ((lam1) * ((ya1) + (ya1)))) - ((((xa0) * (xa0) - 2 * ((xa1) * (xa1))) + ((xa0) * (xa0) - 2 * ((xa1) * (xa1)))) + ((xa0) * (xa0) - 2 * ((xa1) * (xa1))))) * ((((W0) * (W0) - 2 * ((W1) * (W1))) * (W0) - 2 * (((W0) * (W1) + (W1) * (W0)) * (W1))) * (((((ya0) + (ya0)) * ((ya0) + (ya0)) - 2 * (((ya1) + (ya1)) * ((ya1) + (ya1)))) * (xa0) - 2 * ((((ya0) + (ya0)) * ((ya1) + (ya1)) + ((ya1) + (ya1)) * ((ya0) + (ya0))) * (xa1))) - ((((((xa0) * (xa0) - 2 * ((xa1) * (xa1))) + ((xa0) * (xa0) - 2 * ((xa1) * (xa1)))) + ((xa0) * (xa0) - 2 * ((xa1) * (xa1)))) * ((((xa0) * (xa0) - 2 * ((xa1) * (xa1))) + ((xa0) * (xa0) - 2 * ((xa1) * (xa1)))) + ((xa0) * (xa0) - 2 * ((xa1) * (xa1)))) - 2 * (((((xa0) * (xa1) + (xa1) * (xa0)) + ((xa0) * (xa1) + (xa1) * (xa0))) + ((xa0) * (xa1) + (xa1) * (xa0))) * ((((xa0) * (xa1) + (xa1) * (xa0)) + ((xa0) * (xa1) + (xa1) * (xa0))) + ((xa0) * (xa1) + (xa1) * (xa0))))) - (((((ya0) + (ya0)) * ((ya0) + (ya0)) - 2 * (((ya1) + (ya1)) * ((ya1) + (ya1)))) * (xa0) - 2 * ((((ya0) + (ya0)) * ((ya1) + (ya1)) + ((ya1) + (ya1)) * ((ya0) + (ya0))) * (xa1))) + ((((ya0) + (ya0)) * ((ya0) + (ya0)) - 2 * (((ya1) + (ya1)) * ((ya1) + (ya1)))) * (xa0) - 2 * ((((ya0) + (ya0)) * ((ya1) + (ya1)) + ((ya1) + (ya1)) * ((ya0) + (ya0))) * (xa1)))))) - 2 * ((((W0) * (W0) - 2 * ((W1) * (W1))) * (W1) + ((W0) * (W1) + (W1) * (W0)) * (W0)) * (((((ya0) + (ya0)) * ((ya0) + (ya0)) - 2 * (((ya1) + (ya1)) * ((ya1) + (ya1)))) * (xa1) + (((ya0) + (ya0)) * ((ya1) + (ya1)) + ((ya1) + (ya1)) * ((ya0) + (ya0))) * (xa0)) - ((((((xa0) * (xa0) - 2 * ((xa1) * (xa1))) + ((xa0) * (xa0) - 2 * ((xa1) * (xa1)))) + ((xa0) * (xa0) - 2 * ((xa1) * (xa1)))) * ((((xa0) * (xa1) + (xa1) * (xa0)) + ((xa0) * (xa1) + (xa1) * (xa0))) + ((xa0) * (xa1) + (xa1) * (xa0))) + ((((xa0) * (xa1) + (xa1) * (xa0)) + ((xa0) * (xa1) + (xa1) * (xa0))) + ((xa0) * (xa1) + (xa1) * (xa0))) * ((((xa0) * (xa0) - 2 * ((xa1) * (xa1))) + ((xa0) * (xa0) - 2 * ((xa1) * (xa1)))) + ((xa0) * (xa0) - 2 * ((xa1) * (xa1))))) - (((((ya0) + (ya0)) * ((ya0) + (ya0)) - 2 * (((ya1) + (ya1)) * ((ya1) + (ya1)))) * (xa1) + (((ya0) + (ya0)) * ((ya1) + (ya1)) + ((ya1) + (ya1)) * ((ya0) + (ya0))) * (xa0)) + ((((ya0) + (ya0)) * ((ya0) + (ya0)) - 2 * (((ya1) + (ya1)) * ((ya1) + (ya1)))) * (xa1) + (((ya0) + (ya0)) * ((ya1) + (ya1)) + ((ya1) + (ya1)) * ((ya0) + (ya0))) * (xa0))))))) - 2 * ((((lam0) * ((ya1) + (ya1)) + (lam1) * ((ya0) + (ya0))) - ((((xa0) * (xa1) + (xa1) * (xa0)) + ((xa0) * (xa1) + (xa1) * (xa0))) + ((xa0) * (xa1) + (xa1) * (xa0)))) * ((((W0) * (W0) - 2 * ((W1) * (W1))) * (W0) - 2 * (((W0) * (W1) + (W1) * (W0)) * (W1))) * (((((ya0) + (ya0)) * ((ya0) + (ya0)) - 2 * (((ya1) + (ya1)) * ((ya1) + (ya1)))) * (xa1) + (((ya0) + (ya0)) * ((ya1) + (ya1)) + ((ya1) + (ya1)) * ((ya0) + (ya0))) * (xa0)) - ((((((xa0) * (xa0) - 2 * ((xa1) * (xa1))) + ((xa0) * (xa0) - 2 * ((xa1) * (xa1)))) + ((xa0) * (xa0) - 2 * ((xa1) * (xa1)))) * ((((xa0) * (xa1) + (xa1) * (xa0)) + ((xa0) * (xa1) + (xa1) * (xa0))) + ((xa0) * (xa1) + (xa1) * (xa0))) + ((((xa0) * (xa1) + (xa1) * (xa0)) + ((xa0) * (xa1) + (xa1) * (xa0))) + ((xa0) * (xa1) + (xa1) * (xa0))) * ((((xa0) * (xa0) - 2 * ((xa1) * (xa1))) + ((xa0) * (xa0) - 2 * ((xa1) * (xa1)))) + ((xa0) * (xa0) - 2 * ((xa1) * (xa1))))) - (((((ya0) + (ya0)) * ((ya0) + (ya0)) - 2 * (((ya1) + (ya1)) * ((ya1) + (ya1)))) * (xa1) + (((ya0) + (ya0)) * ((ya1) + (ya1)) + ((ya1) + (ya1)) * ((ya0) + (ya0))) * (xa0)) + ((((ya0) + (ya0)) * ((ya0) + (ya0)) - 2 * (((ya1) + (ya1)) * ((ya1) + (ya1)))) * (xa1) + (((ya0) + (ya0)) * ((ya1) + (ya1)) + ((ya1) + (ya1)) * ((ya0) + (ya0))) * (xa0))))) + (((W0) * (W0) - 2 * ((W1) * (W1))) * (W1) + ((W0) * (W1) + (W1) * (W0)) * (W0)) * (((((ya0) + (ya0)) * ((ya0) + (ya0)) - 2 * (((ya1) + (ya1)) * ((ya1) + (ya1)))) * (xa0) - 2 * ((((ya0) + (ya0)) * ((ya1) + (ya1)) + ((ya1) + (ya1)) * ((ya0) + (ya0))) * (xa1))) - ((((((xa0) * (xa0) - 2 * ((xa1) * (xa1))) + ((xa0) * (xa0) - 2 * ((xa1) * (xa1)))) + ((xa0) * (xa0) - 2 * ((xa1) * (xa1)))) * ((((xa0) * (xa0) - 2 * ((xa1) * (xa1))) + ((xa0) * (xa0) - 2 * ((xa1) * (xa1)))) + ((xa0) * (xa0) - 2 * ((xa1) * (xa1)))) - 2 * (((((xa0) * (xa1) + (xa1) * (xa0)) + ((xa0) * (xa1) + (xa1) * (xa0))) + ((xa0) * (xa1) + (xa1) * (xa0))) * ((((xa0) * (xa1) + (xa1) * (xa0)) + ((xa0) * (xa1) + (xa1) * (xa0))) + ((xa0) * (xa1) + (xa1) * (xa0))))) - (((((ya0) + (ya0)) * ((ya0) + (ya0)) - 2 * (((ya1) + (ya1)) * ((ya1) + (ya1)))) * (xa0) - 2 * ((((ya0) + (ya0)) * ((ya1) + (ya1)) + ((ya1) + (ya1)) * ((ya0) + (ya0))) * (xa1))) + ((((ya0) + (ya0)) * ((ya0) + (ya0)) - 2 * (((ya1) + (ya1)) * ((ya1) + (ya1)))) * (xa0) - 2 * ((((ya0) + (ya0)) * ((ya1) + (ya1)) + ((ya1) + (ya1)) * ((ya0) + (ya0))) * (xa1))))))))) - ((((s0) * ((((ya0) + (ya0)) * (W0) - 2 * (((ya1) + (ya1)) * (W1))) * (((ya0) + (ya0)) * (W0) - 2 * (((ya1) + (ya1)) * (W1))) - 2 * ((((ya0) + (ya0)) * (W1) + ((ya1) + (ya1)) * (W0)) * (((ya0) + (ya0)) * (W1) + ((ya1) + (ya1)) * (W0)))) - 2 * ((s1) * ((((ya0) + (ya0)) * (W0) - 2 * (((ya1) + (ya1)) * (W1))) * (((ya0) + (ya0)) * (W1) + ((ya1) + (ya1)) * (W0)) + (((ya0) + (ya0)) * (W1) + ((ya1) + (ya1)) * (W0)) * (((ya0) + (ya0)) * (W0) - 2 * (((ya1) + (ya1)) * (W1)))))) - (((((((xa0) * (xa0) - 2 * ((xa1) * (xa1))) + ((xa0) * (xa0) - 2 * ((xa1) * (xa1)))) + ((xa0) * (xa0) - 2 * ((xa1) * (xa1)))) * ((((xa0) * (xa0) - 2 * ((xa1) * (xa1))) + ((xa0) * (xa0) - 2 * ((xa1) * (xa1)))) + ((xa0) * (xa0) - 2 * ((xa1) * (xa1)))) - 2 * (((((xa0) * (xa1) + (xa1) * (xa0)) + ((xa0) * (xa1) + (xa1) * (xa0))) + ((xa0) * (xa1) + (xa1) * (xa0))) * ((((xa0) * (xa1) + (xa1) * (xa0)) + ((xa0) * (xa1) + (xa1) * (xa0))) + ((xa0) * (xa1) + (xa1) * (xa0))))) - (((((ya0) + (ya0)) * ((ya0) + (ya0)) - 2 * (((ya1) + (ya1)) * ((ya1) + (ya1)))) * (xa0) - 2 * ((((ya0) + (ya0)) * ((ya1) + (ya1)) + ((ya1) + (ya1)) * ((ya0) + (ya0))) * (xa1))) + ((((ya0) + (ya0)) * ((ya0) + (ya0)) - 2 * (((ya1) + (ya1)) * ((ya1) + (ya1)))) * (xa0) - 2 * ((((ya0) + (ya0)) * ((ya1) + (ya1)) + ((ya1) + (ya1)) * ((ya0) + (ya0))) * (xa1))))) * ((W0) * (W0) - 2 * ((W1) * (W1))) - 2 * (((((((xa0) * (xa0) - 2 * ((xa1) * (xa1))) + ((xa0) * (xa0) - 2 * ((xa1) * (xa1)))) + ((xa0) * (xa0) - 2 * ((xa1) * (xa1)))) * ((((xa0) * (xa1) + (xa1) * (xa0)) + ((xa0) * (xa1) + (xa1) * (xa0))) + ((xa0) * (xa1) + (xa1) * (xa0))) + ((((xa0) * (xa1) + (xa1) * (xa0)) + ((xa0) * (xa1) + (xa1) * (xa0))) + ((xa0) * (xa1) + (xa1) * (xa0))) * ((((xa0) * (xa0) - 2 * ((xa1) * (xa1))) + ((xa0) * (xa0) - 2 * ((xa1) * (xa1)))) + ((xa0) * (xa0) - 2 * ((xa1) * (xa1))))) - (((((ya0) + (ya0)) * ((ya0) + (ya0)) - 2 * (((ya1) + (ya1)) * ((ya1) + (ya1)))) * (xa1) + (((ya0) + (ya0)) * ((ya1) + (ya1)) + ((ya1) + (ya1)) * ((ya0) + (ya0))) * (xa0)) + ((((ya0) + (ya0)) * ((ya0) + (ya0)) - 2 * (((ya1) + (ya1)) * ((ya1) + (ya1)))) * (xa1) + (((ya0) + (ya0)) * ((ya1) + (ya1)) + ((ya1) + (ya1)) * ((ya0) + (ya0))) * (xa0)))) * ((W0) * (W1) + (W1) * (W0))))) * ((lam0) * (((ya0) + (ya0)) * (W0) - 2 * (((ya1) + (ya1)) * (W1))) - 2 * ((lam1) * (((ya0) + (ya0)) * (W1) + ((ya1) + (ya1)) * (W0)))) - 2 * ((((s0) * ((((ya0) + (ya0)) * (W0) - 2 * (((ya1) + (ya1)) * (W1))) * (((ya0) + (ya0)) * (W1) + ((ya1) + (ya1)) * (W0)) + (((ya0) + (ya0)) * (W1) + ((ya1) + (ya1)) * (W0)) * (((ya0) + (ya0)) * (W0) - 2 * (((ya1) + (ya1)) * (W1)))) + (s1) * ((((ya0) + (ya0)) * (W0) - 2 * (((ya1) + (ya1)) * (W1))) * (((ya0) + (ya0)) * (W0) - 2 * (((ya1) + (ya1)) * (W1))) - 2 * ((((ya0) + (ya0)) * (W1) + ((ya1) + (ya1)) * (W0)) * (((ya0) + (ya0)) * (W1) + ((ya1) + (ya1)) * (W0))))) - (((((((xa0) * (xa0) - 2 * ((xa1) * (xa1))) + ((xa0) * (xa0) - 2 * ((xa1) * (xa1)))) + ((xa0) * (xa0) - 2 * ((xa1) * (xa1)))) * ((((xa0) * (xa0) - 2 * ((xa1) * (xa1))) + ((xa0) * (xa0) - 2 * ((xa1) * (xa1)))) + ((xa0) * (xa0) - 2 * ((xa1) * (xa1)))) - 2 * (((((xa0) * (xa1) + (xa1) * (xa0)) + ((xa0) * (xa1) + (xa1) * (xa0))) + ((xa0) * (xa1) + (xa1) * (xa0))) * ((((xa0) * (xa1) + (xa1) * (xa0)) + ((xa0) * (xa1) + (xa1) * (xa0))) + ((xa0) * (xa1) + (xa1) * (xa0))))) - (((((ya0) + (ya0)) * ((ya0) + (ya0)) - 2 * (((ya1) + (ya1)) * ((ya1) + (ya1)))) * (xa0) - 2 * ((((ya0) + (ya0)) * ((ya1) + (ya1)) + ((ya1) + (ya1)) * ((ya0) + (ya0))) * (xa1))) + ((((ya0) + (ya0)) * ((ya0) + (ya0)) - 2 * (((ya1) + (ya1)) * ((ya1) + (ya1)))) * (xa0) - 2 * ((((ya0) + (ya0)) * ((ya1) + (ya1)) + ((ya1) + (ya1)) * ((ya0) + (ya0))) * (xa1))))) * ((W0) * (W1) + (W1) * (W0)) + ((((((xa0) * (xa0) - 2 * ((xa1) * (xa1))) + ((xa0) * (xa0) - 2 * ((xa1) * (xa1)))) + ((xa0) * (xa0) - 2 * ((xa1) * (xa1)))) * ((((xa0) * (xa1) + (xa1) * (xa0)) + ((xa0) * (xa1) + (xa1) * (xa0))) + ((xa0) * (xa1) + (xa1) * (xa0))) + ((((xa0) * (xa1) + (xa1) * (xa0)) + ((xa0) * (xa1) + (xa1) * (xa0))) + ((xa0) * (xa1) + (xa1) * (xa0))) * ((((xa0) * (xa0) - 2 * ((xa1) * (xa1))) + ((xa0) * (xa0) - 2 * ((xa1) * (xa1)))) + ((xa0) * (xa0) - 2 * ((xa1) * (xa1))))) - (((((ya0) + (ya0)) * ((ya0) + (ya0)) - 2 * (((ya1) + (ya1)) * ((ya1) + (ya1)))) * (xa1) + (((ya0) + (ya0)) * ((ya1) + (ya1)) + ((ya1) + (ya1)) * ((ya0) + (ya0))) * (xa0)) + ((((ya0) + (ya0)) * ((ya0) + (ya0)) - 2 * (((ya1) + (ya1)) * ((ya1) + (ya1)))) * (xa1) + (((ya0) + (ya0)) * ((ya1) + (ya1)) + ((ya1) + (ya1)) * ((ya0) + (ya0))) * (xa0)))) * ((W0) * (W0) - 2 * ((W1) * (W1))))) * ((lam0) * (((ya0) + (ya0)) * (W1) + ((ya1) + (ya1)) * (W0)) + (lam1) * (((ya0) + (ya0)) * (W0) - 2 * (((ya1) + (ya1)) * (W1))))))
{ }
#[verifier::external_body]
proof fn ring_tan_y_1(xa0: int, xa1: int, ya0: int, ya1: int, lam0: int, lam1: int, s0: int, s1: int, W0: int, W1: int)
    ensures ((((lam0) * ((xa0) - (s0)) - 2 * ((lam1) * ((xa1) - (s1)))) - (ya0)) * (((((ya0) + (ya0)) * (W0) - 2 * (((ya1) + (ya1)) * (W1))) * (((ya0) + (ya0)) * (W0) - 2 * (((ya1) + (ya1)) * (W1))) - 2 * ((((ya0) + (ya0)) * (W1) + ((ya1) + (ya1)) * (W0)) * (((ya0) + (ya0)) * (W1) + ((ya1) + (ya1)) * (W0)))) * (((ya0) + (ya0)) * (W1) + ((ya1) + (ya1)) * (W0)) + ((((ya0) + (ya0)) * (W0) - 2 * (((ya1) + (ya1)) * (W1))) * (((ya0) + (ya0)) * (W1) + ((ya1) + (ya1)) * (W0)) + (((ya0) + (ya0)) * (W1) + ((ya1) + (ya1)) * (W0)) * (((ya0) + (ya0)) * (W0) - 2 * (((ya1) + (ya1)) * (W1)))) * (((ya0) + (ya0)) * (W0) - 2 * (((ya1) + (ya1)) * (W1)))) + (((lam0) * ((xa1) - (s1)) + (lam1) * ((xa0) - (s0))) - (ya1)) * (((((ya0) + (ya0)) * (W0) - 2 * (((ya1) + (ya1)) * (W1))) * (((ya0) + (ya0)) * (W0) - 2 * (((ya1) + (ya1)) * (W1))) - 2 * ((((ya0) + (ya0)) * (W1) + ((ya1) + (ya1)) * (W0)) * (((ya0) + (ya0)) * (W1) + ((ya1) + (ya1)) * (W0)))) * (((ya0) + (ya0)) * (W0) - 2 * (((ya1) + (ya1)) * (W1))) - 2 * (((((ya0) + (ya0)) * (W0) - 2 * (((ya1) + (ya1)) * (W1))) * (((ya0) + (ya0)) * (W1) + ((ya1) + (ya1)) * (W0)) + (((ya0) + (ya0)) * (W1) + ((ya1) + (ya1)) * (W0)) * (((ya0) + (ya0)) * (W0) - 2 * (((ya1) + (ya1)) * (W1)))) * (((ya0) + (ya0)) * (W1) + ((ya1) + (ya1)) * (W0))))) - (((((((xa0) * (xa0) - 2 * ((xa1) * (xa1))) + ((xa0) * (xa0) - 2 * ((xa1) * (xa1)))) + ((xa0) * (xa0) - 2 * ((xa1) * (xa1)))) * (((((ya0) + (ya0)) * ((ya0) + (ya0)) - 2 * (((ya1) + (ya1)) * ((ya1) + (ya1)))) * (xa0) - 2 * ((((ya0) + (ya0)) * ((ya1) + (ya1)) + ((ya1) + (ya1)) * ((ya0) + (ya0))) * (xa1))) - ((((((xa0) * (xa0) - 2 * ((xa1) * (xa1))) + ((xa0) * (xa0) - 2 * ((xa1) * (xa1)))) + ((xa0) * (xa0) - 2 * ((xa1) * (xa1)))) * ((((xa0) * (xa0) - 2 * ((xa1) * (xa1))) + ((xa0) * (xa0) - 2 * ((xa1) * (xa1)))) + ((xa0) * (xa0) - 2 * ((xa1) * (xa1)))) - 2 * (((((xa0) * (xa1) + (xa1) * (xa0)) + ((xa0) * (xa1) + (xa1) * (xa0))) + ((xa0) * (xa1) + (xa1) * (xa0))) * ((((xa0) * (xa1) + (xa1) * (xa0)) + ((xa0) * (xa1) + (xa1) * (xa0))) + ((xa0) * (xa1) + (xa1) * (xa0))))) - (((((ya0) + (ya0)) * ((ya0) + (ya0)) - 2 * (((ya1) + (ya1)) * ((ya1) + (ya1)))) * (xa0) - 2 * ((((ya0) + (ya0)) * ((ya1) + (ya1)) + ((ya1) + (ya1)) * ((ya0) + (ya0))) * (xa1))) + ((((ya0) + (ya0)) * ((ya0) + (ya0)) - 2 * (((ya1) + (ya1)) * ((ya1) + (ya1)))) * (xa0) - 2 * ((((ya0) + (ya0)) * ((ya1) + (ya1)) + ((ya1) + (ya1)) * ((ya0) + (ya0))) * (xa1)))))) - 2 * (((((xa0) * (xa1) + (xa1) * (xa0)) + ((xa0) * (xa1) + (xa1) * (xa0))) + ((xa0) * (xa1) + (xa1) * (xa0))) * (((((ya0) + (ya0)) * ((ya0) + (ya0)) - 2 * (((ya1) + (ya1)) * ((ya1) + (ya1)))) * (xa1) + (((ya0) + (ya0)) * ((ya1) + (ya1)) + ((ya1) + (ya1)) * ((ya0) + (ya0))) * (xa0)) - ((((((xa0) * (xa0) - 2 * ((xa1) * (xa1))) + ((xa0) * (xa0) - 2 * ((xa1) * (xa1)))) + ((xa0) * (xa0) - 2 * ((xa1) * (xa1)))) * ((((xa0) * (xa1) + (xa1) * (xa0)) + ((xa0) * (xa1) + (xa1) * (xa0))) + ((xa0) * (xa1) + (xa1) * (xa0))) + ((((xa0) * (xa1) + (xa1) * (xa0)) + ((xa0) * (xa1) + (xa1) * (xa0))) + ((xa0) * (xa1) + (xa1) * (xa0))) * ((((xa0) * (xa0) - 2 * ((xa1) * (xa1))) + ((xa0) * (xa0) - 2 * ((xa1) * (xa1)))) + ((xa0) * (xa0) - 2 * ((xa1) * (xa1))))) - (((((ya0) + (ya0)) * ((ya0) + (ya0)) - 2 * (((ya1) + (ya1)) * ((ya1) + (ya1)))) * (xa1) + (((ya0) + (ya0)) * ((ya1) + (ya1)) + ((ya1) + (ya1)) * ((ya0) + (ya0))) * (xa0)) + ((((ya0) + (ya0)) * ((ya0) + (ya0)) - 2 * (((ya1) + (ya1)) * ((ya1) + (ya1)))) * (xa1) + (((ya0) + (ya0)) * ((ya1) + (ya1)) + ((ya1) + (ya1)) * ((ya0) + (ya0))) * (xa0))))))) - (8 * (((ya0) * (ya0) - 2 * ((ya1) * (ya1))) * ((ya0) * (ya0) - 2 * ((ya1) * (ya1))) - 2 * (((ya0) * (ya1) + (ya1) * (ya0)) * ((ya0) * (ya1) + (ya1) * (ya0)))))) * (((W0) * (W0) - 2 * ((W1) * (W1))) * (W1) + ((W0) * (W1) + (W1) * (W0)) * (W0)) + ((((((xa0) * (xa0) - 2 * ((xa1) * (xa1))) + ((xa0) * (xa0) - 2 * ((xa1) * (xa1)))) + ((xa0) * (xa0) - 2 * ((xa1) * (xa1)))) * (((((ya0) + (ya0)) * ((ya0) + (ya0)) - 2 * (((ya1) + (ya1)) * ((ya1) + (ya1)))) * (xa1) + (((ya0) + (ya0)) * ((ya1) + (ya1)) + ((ya1) + (ya1)) * ((ya0) + (ya0))) * (xa0)) - ((((((xa0) * (xa0) - 2 * ((xa1) * (xa1))) + ((xa0) * (xa0) - 2 * ((xa1) * (xa1)))) + ((xa0) * (xa0) - 2 * ((xa1) * (xa1)))) * ((((xa0) * (xa1) + (xa1) * (xa0)) + ((xa0) * (xa1) + (xa1) * (xa0))) + ((xa0) * (xa1) + (xa1) * (xa0))) + ((((xa0) * (xa1) + (xa1) * (xa0)) + ((xa0) * (xa1) + (xa1) * (xa0))) + ((xa0) * (xa1) + (xa1) * (xa0))) * ((((xa0) * (xa0) - 2 * ((xa1) * (xa1))) + ((xa0) * (xa0) - 2 * ((xa1) * (xa1)))) + ((xa0) * (xa0) - 2 * ((xa1) * (xa1))))) - (((((ya0) + (ya0)) * ((ya0) + (ya0)) - 2 * (((ya1) + (ya1)) * ((ya1) + (ya1)))) * (xa1) + (((ya0) + (ya0)) * ((ya1) + (ya1)) + ((ya1) + (ya1)) * ((ya0) + (ya0))) * (xa0)) + ((((ya0) + (ya0)) * ((ya0) + (ya0)) - 2 * (((ya1) + (ya1)) * ((ya1) + (ya1)))) * (xa1) + (((ya0) + (ya0)) * ((ya1) + (ya1)) + ((ya1) + (ya1)) * ((ya0) + (ya0))) * (xa0))))) + ((((xa0) * (xa1) + (xa1) * (xa0)) + ((xa0) * (xa1) + (xa1) * (xa0))) + ((xa0) * (xa1) + (xa1) * (xa0))) * (((((ya0) + (ya0)) * ((ya0) + (ya0)) - 2 * (((ya1) + (ya1)) * ((ya1) + (ya1)))) * (xa0) - 2 * ((((ya0) + (ya0)) * ((ya1) + (ya1)) + ((ya1) + (ya1)) * ((ya0) + (ya0))) * (xa1))) - ((((((xa0) * (xa0) - 2 * ((xa1) * (xa1))) + ((xa0) * (xa0) - 2 * ((xa1) * (xa1)))) + ((xa0) * (xa0) - 2 * ((xa1) * (xa1)))) * ((((xa0) * (xa0) - 2 * ((xa1) * (xa1))) + ((xa0) * (xa0) - 2 * ((xa1) * (xa1)))) + ((xa0) * (xa0) - 2 * ((xa1) * (xa1)))) - 2 * (((((xa0) * (xa1) + (xa1) * (xa0)) + ((xa0) * (xa1) + (xa1) * (xa0))) + ((xa0) * (xa1) + (xa1) * (xa0))) * ((((xa0) * (xa1) + (xa1) * (xa0)) + ((xa0) * (xa1) + (xa1) * (xa0))) + ((xa0) * (xa1) + (xa1) * (xa0))))) - (((((ya0) + (ya0)) * ((ya0) + (ya0)) - 2 * (((ya1) + (ya1)) * ((ya1) + (ya1)))) * (xa0) - 2 * ((((ya0) + (ya0)) * ((ya1) + (ya1)) + ((ya1) + (ya1)) * ((ya0) + (ya0))) * (xa1))) + ((((ya0) + (ya0)) * ((ya0) + (ya0)) - 2 * (((ya1) + (ya1)) * ((ya1) + (ya1)))) * (xa0) - 2 * ((((ya0) + (ya0)) * ((ya1) + (ya1)) + ((ya1) + (ya1)) * ((ya0) + (ya0))) * (xa1))))))) - (8 * (((ya0) * (ya0) - 2 * ((ya1) * (ya1))) * ((ya0) * (ya1) + (ya1) * (ya0)) + ((ya0) * (ya1) + (ya1) * (ya0)) * ((ya0) * (ya0) - 2 * ((ya1) * (ya1)))))) * (((W0) * (W0) - 2 * ((W1) * (W1))) * (W0) - 2 * (((W0) * (W1) + (W1) * (W0)) * (W1))))
        == ((((lam0) * ((ya0) + (ya0)) - 2 * ((lam1) * ((ya1) + (ya1)))) - ((((xa0) * (xa0) - 2 * ((xa1) * (xa1))) + ((xa0) * (xa0) - 2 * ((xa1) * (xa1)))) + ((xa0) * (xa0) - 2 * ((xa1) * (xa1))))) * ((((W0) * (W0) - 2 * ((W1) * (W1))) * (W0) - 2 * (((W0) * (W1) + (W1) * (W0)) * (W1))) * (((((ya0) + (ya0)) * ((ya0) + (ya0)) - 2 * (((ya1) + (ya1)) * ((ya1) + (ya1)))) * (xa1) + (((ya0) + (ya0)) * ((ya1) + (ya1)) + ((ya1) + (ya1)) * ((ya0) + (ya0))) * (xa0)) - ((((((xa0) * (xa0) - 2 * ((xa1) * (xa1))) + ((xa0) * (xa0) - 2 * ((xa1) * (xa1)))) + ((xa0) * (xa0) - 2 * ((xa1) * (xa1)))) * ((((xa0) * (xa1) + (xa1) * (xa0)) + ((xa0) * (xa1) + (xa1) * (xa0))) + ((xa0) * (xa1) + (xa1) * (xa0))) + ((((xa0) * (xa1) + (xa1) * (xa0)) + ((xa0) * (xa1) + (xa1) * (xa0))) + ((xa0) * (xa1) + (xa1) * (xa0))) * ((((xa0) * (xa0) - 2 * ((xa1) * (xa1))) + ((xa0) * (xa0) - 2 * ((xa1) * (xa1)))) + ((xa0) * (xa0) - 2 * ((xa1) * (xa1))))) - (((((ya0) + (ya0)) * ((ya0) + (ya0)) - 2 * (((ya1) + (ya1)) * ((ya1) + (ya1)))) * (xa1) + (((ya0) + (ya0)) * ((ya1) + (ya1)) + ((ya1) + (ya1)) * ((ya0) + (ya0))) * (xa0)) + ((((ya0) + (ya0)) * ((ya0) + (ya0)) - 2 * (((ya1) + (ya1)) * ((ya1) + (ya1)))) * (xa1) + (((ya0) + (ya0)) * ((ya1) + (ya1)) + ((ya1) + (ya1)) * ((ya0) + (ya0))) * (xa0))))) + (((W0) * (W0) - 2 * ((W1) * (W1))) * (W1) + ((W0) * (W1) + (W1) * (W0)) * (W0)) * (((((ya0) + (ya0)) * ((ya0) + (ya0)) - 2 * (((ya1) + (ya1)) * ((ya1) + (ya1)))) * (xa0) - 2 * ((((ya0) + (ya0)) * ((ya1) + (ya1)) + ((ya1) + (ya1)) * ((ya0) + (ya0))) * (xa1))) - ((((((xa0) * (xa0) - 2 * ((xa1) * (xa1))) + ((xa0) * (xa0) - 2 * ((xa1) * (xa1)))) + ((xa0) * (xa0) - 2 * ((xa1) * (xa1)))) * ((((xa0) * (xa0) - 2 * ((xa1) * (xa1))) + ((xa0) * (xa0) - 2 * ((xa1) * (xa1)))) + ((xa0) * (xa0) - 2 * ((xa1) * (xa1)))) - 2 * (((((xa0) * (xa1) + (xa1) * (xa0)) + ((xa0) * (xa1) + (xa1) * (xa0))) + ((xa0) * (xa1) + (xa1) * (xa0))) * ((((xa0) * (xa1) + (xa1) * (xa0)) + ((xa0) * (xa1) + (xa1) * (xa0))) + ((xa0) * (xa1) + (xa1) * (xa0))))) - (((((ya0) + (ya0)) * ((ya0) + (ya0)) - 2 * (((ya1) + (ya1)) * ((ya1) + (ya1)))) * (xa0) - 2 * ((((ya0) + (ya0)) * ((ya1) + (ya1)) + ((ya1) + (ya1)) * ((ya0) + (ya0))) * (xa1))) + ((((ya0) + (ya0)) * ((ya0) + (ya0)) - 2 * (((ya1) + (ya1)) * ((ya1) + (ya1)))) * (xa0) - 2 * ((((ya0) + (ya0)) * ((ya1) + (ya1)) + ((ya1) + (ya1)) * ((ya0) + (ya0))) * (xa1))))))) + (((lam0) * ((ya1) + (ya1)) + (lam1) * ((ya0) + (ya0))) - ((((xa0) * (xa1) + (xa1) * (xa0)) + ((xa0) * (xa1) + (xa1) * (xa0))) + ((xa0) * (xa1) + (xa1) * (xa0)))) * ((((W0) * (W0) - 2 * ((W1) * (W1))) * (W0) - 2 * (((W0) * (W1) + (W1) * (W0)) * (W1))) * (((((ya0) + (ya0)) * ((ya0) + (ya0)) - 2 * (((ya1) + (ya1)) * ((ya1) + (ya1)))) * (xa0) - 2 * ((((ya0) + (ya0)) * ((ya1) + (ya1)) + ((ya1) + (ya1)) * ((ya0) + (ya0))) * (xa1))) - ((((((xa0) * (xa0) - 2 * ((xa1) * (xa1))) + ((xa0) * (xa0) - 2 * ((xa1) * (xa1)))) + ((xa0) * (xa0) - 2 * ((xa1) * (xa1)))) * ((((xa0) * (xa0) - 2 * ((xa1) * (xa1))) + ((xa0) * (xa0) - 2 * ((xa1) * (xa1)))) + ((xa0) * (xa0) - 2 * ((xa1) * (xa1)))) - 2 * (((((xa0) * (xa1) + (xa1) * (xa0)) + ((xa0) * (xa1) + (xa1) * (xa0))) + ((xa0) * (xa1) + (xa1) * (xa0))) * ((((xa0) * (xa1) + (xa1) * (xa0)) + ((xa0) * (xa1) + (xa1) * (xa0))) + ((xa0) * (xa1) + (xa1) * (xa0))))) - (((((ya0) + (ya0)) * ((ya0) + (ya0)) - 2 * (((ya1) + (ya1)) * ((ya1) + (ya1)))) * (xa0) - 2 * ((((ya0) + (ya0)) * ((ya1) + (ya1)) + ((ya1) + (ya1)) * ((ya0) + (ya0))) * (xa1))) + ((((ya0) + (ya0)) * ((ya0) + (ya0)) - 2 * (((ya1) + (ya1)) * ((ya1) + (ya1)))) * (xa0) - 2 * ((((ya0) + (ya0)) * ((ya1) + (ya1)) + ((ya1) + (ya1)) * ((ya0) + (ya0))) * (xa1)))))) - 2 * ((((W0) * (W0) - 2 * ((W1) * (W1))) * (W1) + ((W0) * (W1) + (W1) * (W0)) * (W0)) * (((((ya0) + (ya0)) * ((ya0) + (ya0)) - 2 * (((ya1) + (ya1)) * ((ya1) + (ya1)))) * (xa1) + (((ya0) + (ya0)) * ((ya1) + (ya1)) + ((ya1) + (ya1)) * ((ya0) + (ya0))) * (xa0)) - ((((((xa0) * (xa0) - 2 * ((xa1) * (xa1))) + ((xa0) * (xa0) - 2 * ((xa1) * (xa1)))) + ((xa0) * (xa0) - 2 * ((xa1) * (xa1)))) * ((((xa0) * (xa1) + (xa1) * (xa0)) + ((xa0) * (xa1) + (xa1) * (xa0))) + ((xa0) * (xa1) + (xa1) * (xa0))) + ((((xa0) * (xa1) + (xa1) * (xa0)) + ((xa0) * (xa1) + (xa1) * (xa0))) + ((xa0) * (xa1) + (xa1) * (xa0))) * ((((xa0) * (xa0) - 2 * ((xa1) * (xa1))) + ((xa0) * (xa0) - 2 * ((xa1) * (xa1)))) + ((xa0) * (xa0) - 2 * ((xa1) * (xa1))))) - (((((ya0) + (ya0)) * ((ya0) + (ya0)) - 2 * (((ya1) + (ya1)) * ((ya1) + (ya1)))) * (xa1) + (((ya0) + (ya0)) * ((ya1) + (ya1)) + ((ya1) + (ya1)) * ((ya0) + (ya0))) * (xa0)) + ((((ya0) + (ya0)) * ((ya0) + (ya0)) - 2 * (((ya1) + (ya1)) * ((ya1) + (ya1)))) * (xa1) + (((ya0) + (ya0)) * ((ya1) + (ya1)) + ((ya1) + (ya1)) * ((ya0) + (ya0))) * (xa0)))))))) - ((((s0) * ((((ya0) + (ya0)) * (W0) - 2 * (((ya1) + (ya1)) * (W1))) * (((ya0) + (ya0)) * (W0) - 2 * (((ya1) + (ya1)) * (W1))) - 2 * ((((ya0) + (ya0)) * (W1) + ((ya1) + (ya1)) * (W0)) * (((ya0) + (ya0)) * (W1) + ((ya1) + (ya1)) * (W0)))) - 2 * ((s1) * ((((ya0) + (ya0)) * (W0) - 2 * (((ya1) + (ya1)) * (W1))) * (((ya0) + (ya0)) * (W1) + ((ya1) + (ya1)) * (W0)) + (((ya0) + (ya0)) * (W1) + ((ya1) + (ya1)) * (W0)) * (((ya0) + (ya0)) * (W0) - 2 * (((ya1) + (ya1)) * (W1)))))) - (((((((xa0) * (xa0) - 2 * ((xa1) * (xa1))) + ((xa0) * (xa0) - 2 * ((xa1) * (xa1)))) + ((xa0) * (xa0) - 2 * ((xa1) * (xa1)))) * ((((xa0) * (xa0) - 2 * ((xa1) * (xa1))) + ((xa0) * (xa0) - 2 * ((xa1) * (xa1)))) + ((xa0) * (xa0) - 2 * ((xa1) * (xa1)))) - 2 * (((((xa0) * (xa1) + (xa1) * (xa0)) + ((xa0) * (xa1) + (xa1) * (xa0))) + ((xa0) * (xa1) + (xa1) * (xa0))) * ((((xa0) * (xa1) + (xa1) * (xa0)) + ((xa0) * (xa1) + (xa1) * (xa0))) + ((xa0) * (xa1) + (xa1) * (xa0))))) - (((((ya0) + (ya0)) * ((ya0) + (ya0)) - 2 * (((ya1) + (ya1)) * ((ya1) + (ya1)))) * (xa0) - 2 * ((((ya0) + (ya0)) * ((ya1) + (ya1)) + ((ya1) + (ya1)) * ((ya0) + (ya0))) * (xa1))) + ((((ya0) + (ya0)) * ((ya0) + (ya0)) - 2 * (((ya1) + (ya1)) * ((ya1) + (ya1)))) * (xa0) - 2 * ((((ya0) + (ya0)) * ((ya1) + (ya1)) + ((ya1) + (ya1)) * ((ya0) + (ya0))) * (xa1))))) * ((W0) * (W0) - 2 * ((W1) * (W1))) - 2 * (((((((xa0) * (xa0) - 2 * ((xa1) * (xa1))) + ((xa0) * (xa0) - 2 * ((xa1) * (xa1)))) + ((xa0) * (xa0) - 2 * ((xa1) * (xa1)))) * ((((xa0) * (xa1) + (xa1) * (xa0)) + ((xa0) * (xa1) + (xa1) * (xa0))) + ((xa0) * (xa1) + (xa1) * (xa0))) + ((((xa0) * (xa1) + (xa1) * (xa0)) + ((xa0) * (xa1) + (xa1) * (xa0))) + ((xa0) * (xa1) + (xa1) * (xa0))) * ((((xa0) * (xa0) - 2 * ((xa1) * (xa1))) + ((xa0) * (xa0) - 2 * ((xa1) * (xa1)))) + ((xa0) * (xa0) - 2 * ((xa1) * (xa1))))) - (((((ya0) + (ya0)) * ((ya0) + (ya0)) - 2 * (((ya1) + (ya1)) * ((ya1) + (ya1)))) * (xa1) + (((ya0) + (ya0)) * ((ya1) + (ya1)) + ((ya1) + (ya1)) * ((ya0) + (ya0))) * (xa0)) + ((((ya0) + (ya0)) * ((ya0) + (ya0)) - 2 * (((ya1) + (ya1)) * ((ya1) + (ya1)))) * (xa1) + (((ya0) + (ya0)) * ((ya1) + (ya1)) + ((ya1) + (ya1)) * ((ya0) + (ya0))) * (xa0)))) * ((W0) * (W1) + (W1) * (W0))))) * ((lam0) * (((ya0) + (ya0)) * (W1) + ((ya1) + (ya1)) * (W0)) + (lam1) * (((ya0) + (ya0)) * (W0) - 2 * (((ya1) + (ya1)) * (W1)))) + (((s0) * ((((ya0) + (ya0)) * (W0) - 2 * (((ya1) + (ya1)) * (W1))) * (((ya0) + (ya0)) * (W1) + ((ya1) + (ya1)) * (W0)) + (((ya0) + (ya0)) * (W1) + ((ya1) + (ya1)) * (W0)) * (((ya0) + (ya0)) * (W0) - 2 * (((ya1) + (ya1)) * (W1)))) + (s1) * ((((ya0) + (ya0)) * (W0) - 2 * (((ya1) + (ya1)) * (W1))) * (((ya0) + (ya0)) * (W0) - 2 * (((ya1) + (ya1)) * (W1))) - 2 * ((((ya0) + (ya0)) * (W1) + ((ya1) + (ya1)) * (W0)) * (((ya0) + (ya0)) * (W1) + ((ya1) + (ya1)) * (W0))))) - (((((((xa0) * (xa0) - 2 * ((xa1) * (xa1))) + ((xa0) * (xa0) - 2 * ((xa1) * (xa1)))) + ((xa0) * (xa0) - 2 * ((xa1) * (xa1)))) * ((((xa0) * (xa0) - 2 * ((xa1) * (xa1))) + ((xa0) * (xa0) - 2 * ((xa1) * (xa1)))) + ((xa0) * (xa0) - 2 * ((xa1) * (xa1)))) - 2 * (((((xa0) * (xa1) + (xa1) * (xa0)) + ((xa0) * (xa1) + (xa1) * (xa0))) + ((xa0) * (xa1) + (xa1) * (xa0))) * ((((xa0) * (xa1) + (xa1) * (xa0)) + ((xa0) * (xa1) + (xa1) * (xa0))) + ((xa0) * (xa1) + (xa1) * (xa0))))) - (((((ya0) + (ya0)) * ((ya0) + (ya0)) - 2 * (((ya1) + (ya1)) * ((ya1) + (ya1)))) * (xa0) - 2 * ((((ya0) + (ya0)) * ((ya1) + (ya1)) + ((ya1) + (ya1)) * ((ya0) + (ya0))) * (xa1))) + ((((ya0) + (ya0)) * ((ya0) + (ya0)) - 2 * (((ya1) + (ya1)) * ((ya1) + (ya1)))) * (xa0) - 2 * ((((ya0) + (ya0)) * ((ya1) + (ya1)) + ((ya1) + (ya1)) * ((ya0) + (ya0))) * (xa1))))) * ((W0) * (W1) + (W1) * (W0)) + ((((((xa0) * (xa0) - 2 * ((xa1) * (xa1))) + ((xa0) * (xa0) - 2 * ((xa1) * (xa1)))) + ((xa0) * (xa0) - 2 * ((xa1) * (xa1)))) * ((((xa0) * (xa1) + (xa1) * (xa0)) + ((xa0) * (xa1) + (xa1) * (xa0))) + ((xa0) * (xa1) + (xa1) * (xa0))) + ((((xa0) * (xa1) + (xa1) * (xa0)) + ((xa0) * (xa1) + (xa1) * (xa0))) + ((xa0) * (xa1) + (xa1) * (xa0))) * ((((xa0) * (xa0) - 2 * ((xa1) * (xa1))) + ((xa0) * (xa0) - 2 * ((xa1) * (xa1)))) + ((xa0) * (xa0) - 2 * ((xa1) * (xa1))))) - (((((ya0) + (ya0)) * ((ya0) + (ya0)) - 2 * (((ya1) + (ya1)) * ((ya1) + (ya1)))) * (xa1) + (((ya0) + (ya0)) * ((ya1) + (ya1)) + ((ya1) + (ya1)) * ((ya0) + (ya0))) * (xa0)) + ((((ya0) + (ya0)) * ((ya0) + (ya0)) - 2 * (((ya1) + (ya1)) * ((ya1) + (ya1)))) * (xa1) + (((ya0) + (ya0)) * ((ya1) + (ya1)) + ((ya1) + (ya1)) * ((ya0) + (ya0))) * (xa0)))) * ((W0) * (W0) - 2 * ((W1) * (W1))))) * ((lam0) * (((ya0) + (ya0)) * (W0) - 2 * (((ya1) + (ya1)) * (W1))) - 2 * ((lam1) * (((ya0) + (ya0)) * (W1) + ((ya1) + (ya1)) * (W0)))))
{ }
proof fn qr_chord_x(x1: F2, y1: F2, x2: F2, y2: F2, lam: F2, W: F2)
    ensures q_sub(q_mul(q_sub(q_sub(q_mul(lam, lam), x1), x2), q_mul(q_mul(q_sub(x2, x1), W), q_mul(q_sub(x2, x1), W))), q_mul(q_sub(q_mul(q_sub(y2, y1), q_sub(y2, y1)), q_mul(q_add(x1, x2), q_mul(q_sub(x2, x1), q_sub(x2, x1)))), q_mul(W, W)))
        == q_mul(q_sub(q_mul(lam, q_sub(x2, x1)), q_sub(y2, y1)), q_mul(q_add(q_mul(lam, q_sub(x2, x1)), q_sub(y2, y1)), q_mul(W, W)))
{
    reveal(q_add); reveal(q_sub); reveal(q_mul); reveal(q_k); reveal(q_c);
    ring_chord_x_0(x1.c0, x1.c1, y1.c0, y1.c1, x2.c0, x2.c1, y2.c0, y2.c1, lam.c0, lam.c1, W.c0, W.c1); ring_chord_x_1(x1.c0, x1.c1, y1.c0, y1.c1, x2.c0, x2.c1, y2.c0, y2.c1, lam.c0, lam.c1, W.c0, W.c1);
}
#[verifier::external_body]
proof fn ring_chord_x_0(x10: int, x11: int, y10: int, y11: int, x20: int, x21: int, y20: int, y21: int, lam0: int, lam1: int, W0: int, W1: int)
    ensures (((((lam0) * (lam0) - 2 * ((lam1) * (lam1))) - (x10)) - (x20)) * ((((x20) - (x10)) * (W0) - 2 * (((x21) - (x11)) * (W1))) * (((x20) - (x10)) * (W0) - 2 * (((x21) - (x11)) * (W1))) - 2 * ((((x20) - (x10)) * (W1) + ((x21) - (x11)) * (W0)) * (((x20) - (x10)) * (W1) + ((x21) - (x11)) * (W0)))) - 2 * (((((lam0) * (lam1) + (lam1) * (lam0)) - (x11)) - (x21)) * ((((x20) - (x10)) * (W0) - 2 * (((x21) - (x11)) * (W1))) * (((x20) - (x10)) * (W1) + ((x21) - (x11)) * (W0)) + (((x20) - (x10)) * (W1) + ((x21) - (x11)) * (W0)) * (((x20) - (x10)) * (W0) - 2 * (((x21) - (x11)) * (W1)))))) - (((((y20) - (y10)) * ((y20) - (y10)) - 2 * (((y21) - (y11)) * ((y21) - (y11)))) - (((x10) + (x20)) * (((x20) - (x10)) * ((x20) - (x10)) - 2 * (((x21) - (x11)) * ((x21) - (x11)))) - 2 * (((x11) + (x21)) * (((x20) - (x10)) * ((x21) - (x11)) + ((x21) - (x11)) * ((x20) - (x10)))))) * ((W0) * (W0) - 2 * ((W1) * (W1))) - 2 * (((((y20) - (y10)) * ((y21) - (y11)) + ((y21) - (y11)) * ((y20) - (y10))) - (((x10) + (x20)) * (((x20) - (x10)) * ((x21) - (x11)) + ((x21) - (x11)) * ((x20) - (x10))) + ((x11) + (x21)) * (((x20) - (x10)) * ((x20) - (x10)) - 2 * (((x21) - (x11)) * ((x21) - (x11)))))) * ((W0) * (W1) + (W1) * (W0))))
        == (((lam0) * ((x20) - (x10)) - 2 * ((lam1) * ((x21) - (x11)))) - ((y20) - (y10))) * ((((lam0) * ((x20) - (x10)) - 2 * ((lam1) * ((x21) - (x11)))) + ((y20) - (y10))) * ((W0) * (W0) - 2 * ((W1) * (W1))) - 2 * ((((lam0) * ((x21) - (x11)) + (lam1) * ((x20) - (x10))) + ((y21) - (y11))) * ((W0) * (W1) + (W1) * (W0)))) - 2 * ((((lam0) * ((x21) - (x11)) + (lam1) * ((x20) - (x10))) - ((y21) - (y11))) * ((((lam0) * ((x20) - (x10)) - 2 * ((lam1) * ((x21) - (x11)))) + ((y20) - (y10))) * ((W0) * (W1) + (W1) * (W0)) + (((lam0) * ((x21) - (x11)) + (lam1) * ((x20) - (x10))) + ((y21) - (y11))) * ((W0) * (W0) - 2 * ((W1) * (W1)))))
{ }
#[verifier::external_body]
proof fn ring_chord_x_1(x10: int, x11: int, y10: int, y11: int, x20: int, x21: int, y20: int, y21: int, lam0: int, lam1: int, W0: int, W1: int)
    ensures (((((lam0) * (lam0) - 2 * ((lam1) * (lam1))) - (x10)) - (x20)) * ((((x20) - (x10)) * (W0) - 2 * (((x21) - (x11)) * (W1))) * (((x20) - (x10)) * (W1) + ((x21) - (x11)) * (W0)) + (((x20) - (x10)) * (W1) + ((x21) - (x11)) * (W0)) * (((x20) - (x10)) * (W0) - 2 * (((x21) - (x11)) * (W1)))) + ((((lam0) * (lam1) + (lam1) * (lam0)) - (x11)) - (x21)) * ((((x20) - (x10)) * (W0) - 2 * (((x21) - (x11)) * (W1))) * (((x20) - (x10)) * (W0) - 2 * (((x21) - (x11)) * (W1))) - 2 * ((((x20) - (x10)) * (W1) + ((x21) - (x11)) * (W0)) * (((x20) - (x10)) * (W1) + ((x21) - (x11)) * (W0))))) - (((((y20) - (y10)) * ((y20) - (y10)) - 2 * (((y21) - (y11)) * ((y21) - (y11)))) - (((x10) + (x20)) * (((x20) - (x10)) * ((x20) - (x10)) - 2 * (((x21) - (x11)) * ((x21) - (x11)))) - 2 * (((x11) + (x21)) * (((x20) - (x10)) * ((x21) - (x11)) + ((x21) - (x11)) * ((x20) - (x10)))))) * ((W0) * (W1) + (W1) * (W0)) + ((((y20) - (y10)) * ((y21) - (y11)) + ((y21) - (y11)) * ((y20) - (y10))) - (((x10) + (x20)) * (((x20) - (x10)) * ((x21) - (x11)) + ((x21) - (x11)) * ((x20) - (x10))) + ((x11) + (x21)) * (((x20) - (x10)) * ((x20) - (x10)) - 2 * (((x21) - (x11)) * ((x21) - (x11)))))) * ((W0) * (W0) - 2 * ((W1) * (W1))))
        == (((lam0) * ((x20) - (x10)) - 2 * ((lam1) * ((x21) - (x11)))) - ((y20) - (y10))) * ((((lam0) * ((x20) - (x10)) - 2 * ((lam1) * ((x21) - (x11)))) + ((y20) - (y10))) * ((W0) * (W1) + (W1) * (W0)) + (((lam0) * ((x21) - (x11)) + (lam1) * ((x20) - (x10))) + ((y21) - (y11))) * ((W0) * (W0) - 2 * ((W1) * (W1)))) + (((lam0) * ((x21) - (x11)) + (lam1) * ((x20) - (x10))) - ((y21) - (y11))) * ((((lam0) * ((x20) - (x10)) - 2 * ((lam1) * ((x21) - (x11)))) + ((y20) - (y10))) * ((W0) * (W0) - 2 * ((W1) * (W1))) - 2 * ((((lam0) * ((x21) - (x11)) + (lam1) * ((x20) - (x10))) + ((y21) - (y11))) * ((W0) * (W1) + (W1) * (W0))))
{ }
proof fn qr_chord_y(x1: F2, y1: F2, x2: F2, y2: F2, lam: F2, s: F2, W: F2)
    ensures q_sub(q_mul(q_sub(q_mul(lam, q_sub(x1, s)), y1), q_mul(q_mul(q_mul(q_sub(x2, x1), W), q_mul(q_sub(x2, x1), W)), q_mul(q_sub(x2, x1), W))), q_mul(q_sub(q_mul(q_sub(y2, y1), q_sub(q_mul(x1, q_mul(q_sub(x2, x1), q_sub(x2, x1))), q_sub(q_mul(q_sub(y2, y1), q_sub(y2, y1)), q_mul(q_add(x1, x2), q_mul(q_sub(x2, x1), q_sub(x2, x1)))))), q_mul(y1, q_mul(q_mul(q_sub(x2, x1), q_sub(x2, x1)), q_sub(x2, x1)))), q_mul(q_mul(W, W), W)))
        == q_sub(q_mul(q_sub(q_mul(lam, q_sub(x2, x1)), q_sub(y2, y1)), q_mul(q_mul(q_mul(W, W), W), q_sub(q_mul(x1, q_mul(q_sub(x2, x1), q_sub(x2, x1))), q_sub(q_mul(q_sub(y2, y1), q_sub(y2, y1)), q_mul(q_add(x1, x2), q_mul(q_sub(x2, x1), q_sub(x2, x1))))))), q_mul(q_sub(q_mul(s, q_mul(q_mul(q_sub(x2, x1), W), q_mul(q_sub(x2, x1), W))), q_mul(q_sub(q_mul(q_sub(y2, y1), q_sub(y2, y1)), q_mul(q_add(x1, x2), q_mul(q_sub(x2, x1), q_sub(x2, x1)))), q_mul(W, W))), q_mul(lam, q_mul(q_sub(x2, x1), W))))
{
    reveal(q_add); reveal(q_sub); reveal(q_mul); reveal(q_k); reveal(q_c);
    ring_chord_y_0(x1.c0, x1.c1, y1.c0, y1.c1, x2.c0, x2.c1, y2.c0, y2.c1, lam.c0, lam.c1, s.c0, s.c1, W.c0, W.c1); ring_chord_y_1(x1.c0, x1.c1, y1.c0, y1.c1, x2.c0, x2.c1, y2.c0, y2.c1, lam.c0, lam.c1, s.c0, s.c1, W.c0, W.c1);
}
#[verifier::external_body]
proof fn ring_chord_y_0(x10: int, x11: int, y10: int, y11: int, x20: int, x21: int, y20: int, y21: int, lam0: int, lam1: int, s0: int, s1: int, W0: int, W1: int)
    ensures ((((lam0) * ((x10) - (s0)) - 2 * ((lam1) * ((x11) - (s1)))) - (y10)) * (((((x20) - (x10)) * (W0) - 2 * (((x21) - (x11)) * (W1))) * (((x20) - (x10)) * (W0) - 2 * (((x21) - (x11)) * (W1))) - 2 * ((((x20) - (x10)) * (W1) + ((x21) - (x11)) * (W0)) * (((x20) - (x10)) * (W1) + ((x21) - (x11)) * (W0)))) * (((x20) - (x10)) * (W0) - 2 * (((x21) - (x11)) * (W1))) - 2 * (((((x20) - (x10)) * (W0) - 2 * (((x21) - (x11)) * (W1))) * (((x20) - (x10)) * (W1) + ((x21) - (x11)) * (W0)) + (((x20) - (x10)) * (W1) + ((x21) - (x11)) * (W0)) * (((x20) - (x10)) * (W0) - 2 * (((x21) - (x11)) * (W1)))) * (((x20) - (x10)) * (W1) + ((x21) - (x11)) * (W0)))) - 2 * ((((lam0) * ((x11) - (s1)) + (lam1) * ((x10) - (s0))) - (y11)) * (((((x20) - (x10)) * (W0) - 2 * (((x21) - (x11)) * (W1))) * (((x20) - (x10)) * (W0) - 2 * (((x21) - (x11)) * (W1))) - 2 * ((((x20) - (x10)) * (W1) + ((x21) - (x11)) * (W0)) * (((x20) - (x10)) * (W1) + ((x21) - (x11)) * (W0)))) * (((x20) - (x10)) * (W1) + ((x21) - (x11)) * (W0)) + ((((x20) - (x10)) * (W0) - 2 * (((x21) - (x11)) * (W1))) * (((x20) - (x10)) * (W1) + ((x21) - (x11)) * (W0)) + (((x20) - (x10)) * (W1) + ((x21) - (x11)) * (W0)) * (((x20) - (x10)) * (W0) - 2 * (((x21) - (x11)) * (W1)))) * (((x20) - (x10)) * (W0) - 2 * (((x21) - (x11)) * (W1)))))) - (((((y20) - (y10)) * (((x10) * (((x20) - (x10)) * ((x20) - (x10)) - 2 * (((x21) - (x11)) * ((x21) - (x11)))) - 2 * ((x11) * (((x20) - (x10)) * ((x21) - (x11)) + ((x21) - (x11)) * ((x20) - (x10))))) - ((((y20) - (y10)) * ((y20) - (y10)) - 2 * (((y21) - (y11)) * ((y21) - (y11)))) - (((x10) + (x20)) * (((x20) - (x10)) * ((x20) - (x10)) - 2 * (((x21) - (x11)) * ((x21) - (x11)))) - 2 * (((x11) + (x21)) * (((x20) - (x10)) * ((x21) - (x11)) + ((x21) - (x11)) * ((x20) - (x10))))))) - 2 * (((y21) - (y11)) * (((x10) * (((x20) - (x10)) * ((x21) - (x11)) + ((x21) - (x11)) * ((x20) - (x10))) + (x11) * (((x20) - (x10)) * ((x20) - (x10)) - 2 * (((x21) - (x11)) * ((x21) - (x11))))) - ((((y20) - (y10)) * ((y21) - (y11)) + ((y21) - (y11)) * ((y20) - (y10))) - (((x10) + (x20)) * (((x20) - (x10)) * ((x21) - (x11)) + ((x21) - (x11)) * ((x20) - (x10))) + ((x11) + (x21)) * (((x20) - (x10)) * ((x20) - (x10)) - 2 * (((x21) - (x11)) * ((x21) - (x11))))))))) - ((y10) * ((((x20) - (x10)) * ((x20) - (x10)) - 2 * (((x21) - (x11)) * ((x21) - (x11)))) * ((x20) - (x10)) - 2 * ((((x20) - (x10)) * ((x21) - (x11)) + ((x21) - (x11)) * ((x20) - (x10))) * ((x21) - (x11)))) - 2 * ((y11) * ((((x20) - (x10)) * ((x20) - (x10)) - 2 * (((x21) - (x11)) * ((x21) - (x11)))) * ((x21) - (x11)) + (((x20) - (x10)) * ((x21) - (x11)) + ((x21) - (x11)) * ((x20) - (x10))) * ((x20) - (x10)))))) * (((W0) * (W0) - 2 * ((W1) * (W1))) * (W0) - 2 * (((W0) * (W1) + (W1) * (W0)) * (W1))) - 2 * (((((y20) - (y10)) * (((x10) * (((x20) - (x10)) * ((x21) - (x11)) + ((x21) - (x11)) * ((x20) - (x10))) + (x11) * (((x20) - (x10)) * ((x20) - (x10)) - 2 * (((x21) - (x11)) * ((x21) - (x11))))) - ((((y20) - (y10)) * ((y21) - (y11)) + ((y21) - (y11)) * ((y20) - (y10))) - (((x10) + (x20)) * (((x20) - (x10)) * ((x21) - (x11)) + ((x21) - (x11)) * ((x20) - (x10))) + ((x11) + (x21)) * (((x20) - (x10)) * ((x20) - (x10)) - 2 * (((x21) - (x11)) * ((x21) - (x11))))))) + ((y21) - (y11)) * (((x10) * (((x20) - (x10)) * ((x20) - (x10)) - 2 * (((x21) - (x11)) * ((x21) - (x11)))) - 2 * ((x11) * (((x20) - (x10)) * ((x21) - (x11)) + ((x21) - (x11)) * ((x20) - (x10))))) - ((((y20) - (y10)) * ((y20) - (y10)) - 2 * (((y21) - (y11)) * ((y21) - (y11)))) - (((x10) + (x20)) * (((x20) - (x10)) * ((x20) - (x10)) - 2 * (((x21) - (x11)) * ((x21) - (x11)))) - 2 * (((x11) + (x21)) * (((x20) - (x10)) * ((x21) - (x11)) + ((x21) - (x11)) * ((x20) - (x10)))))))) - ((y10) * ((((x20) - (x10)) * ((x20) - (x10)) - 2 * (((x21) - (x11)) * ((x21) - (x11)))) * ((x21) - (x11)) + (((x20) - (x10)) * ((x21) - (x11)) + ((x21) - (x11)) * ((x20) - (x10))) * ((x20) - (x10))) + (y11) * ((((x20) - (x10)) * ((x20) - (x10)) - 2 * (((x21) - (x11)) * ((x21) - (x11)))) * ((x20) - (x10)) - 2 * ((((x20) - (x10)) * ((x21) - (x11)) + ((x21) - (x11)) * ((x20) - (x10))) * ((x21) - (x11)))))) * (((W0) * (W0) - 2 * ((W1) * (W1))) * (W1) + ((W0) * (W1) + (W1) * (W0)) * (W0))))
        == ((((lam0) * ((x20) - (x10)) - 2 * ((lam1) * ((x21) - (x11)))) - ((y20) - (y10))) * ((((W0) * (W0) - 2 * ((W1) * (W1))) * (W0) - 2 * (((W0) * (W1) + (W1) * (W0)) * (W1))) * (((x10) * (((x20) - (x10)) * ((x20) - (x10)) - 2 * (((x21) - (x11)) * ((x21) - (x11)))) - 2 * ((x11) * (((x20) - (x10)) * ((x21) - (x11)) + ((x21) - (x11)) * ((x20) - (x10))))) - ((((y20) - (y10)) * ((y20) - (y10)) - 2 * (((y21) - (y11)) * ((y21) - (y11)))) - (((x10) + (x20)) * (((x20) - (x10)) * ((x20) - (x10)) - 2 * (((x21) - (x11)) * ((x21) - (x11)))) - 2 * (((x11) + (x21)) * (((x20) - (x10)) * ((x21) - (x11)) + ((x21) - (x11)) * ((x20) - (x10))))))) - 2 * ((((W0) * (W0) - 2 * ((W1) * (W1))) * (W1) + ((W0) * (W1) + (W1) * (W0)) * (W0)) * (((x10) * (((x20) - (x10)) * ((x21) - (x11)) + ((x21) - (x11)) * ((x20) - (x10))) + (x11) * (((x20) - (x10)) * ((x20) - (x10)) - 2 * (((x21) - (x11)) * ((x21) - (x11))))) - ((((y20) - (y10)) * ((y21) - (y11)) + ((y21) - (y11)) * ((y20) - (y10))) - (((x10) + (x20)) * (((x20) - (x10)) * ((x21) - (x11)) + ((x21) - (x11)) * ((x20) - (x10))) + ((x11) + (x21)) * (((x20) - (x10)) * ((x20) - (x10)) - 2 * (((x21) - (x11)) * ((x21) - (x11))))))))) - 2 * ((((lam0) * ((x21) - (x11)) + (lam1) * ((x20) - (x10))) - ((y21) - (y11))) * ((((W0) * (W0) - 2 * ((W1) * (W1))) * (W0) - 2 * (((W0) * (W1) + (W1) * (W0)) * (W1))) * (((x10) * (((x20) - (x10)) * ((x21) - (x11)) + ((x21) - (x11)) * ((x20) - (x10))) + (x11) * (((x20) - (x10)) * ((x20) - (x10)) - 2 * (((x21) - (x11)) * ((x21) - (x11))))) - ((((y20) - (y10)) * ((y21) - (y11)) + ((y21) - (y11)) * ((y20) - (y10))) - (((x10) + (x20)) * (((x20) - (x10)) * ((x21) - (x11)) + ((x21) - (x11)) * ((x20) - (x10))) + ((x11) + (x21)) * (((x20) - (x10)) * ((x20) - (x10)) - 2 * (((x21) - (x11)) * ((x21) - (x11))))))) + (((W0) * (W0) - 2 * ((W1) * (W1))) * (W1) + ((W0) * (W1) + (W1) * (W0)) * (W0)) * (((x10) * (((x20) - (x10)) * ((x20) - (x10)) - 2 * (((x21) - (x11)) * ((x21) - (x11)))) - 2 * ((x11) * (((x20) - (x10)) * ((x21) - (x11)) + ((x21) - (x11)) * ((x20) - (x10))))) - ((((y20) - (y10)) * ((y20) - (y10)) - 2 * (((y21) - (y11)) * ((y21) - (y11)))) - (((x10) + (x20)) * (((x20) - (x10)) * ((x20) - (x10)) - 2 * (((x21) - (x11)) * ((x21) - (x11)))) - 2 * (((x11) + (x21)) * (((x20) - (x10)) * ((x21) - (x11)) + ((x21) - (x11)) * ((x20) - (x10)))))))))) - ((((s0) * ((((x20) - (x10)) * (W0) - 2 * (((x21) - (x11)) * (W1))) * (((x20) - (x10)) * (W0) - 2 * (((x21) - (x11)) * (W1))) - 2 * ((((x20) - (x10)) * (W1) + ((x21) - (x11)) * (W0)) * (((x20) - (x10)) * (W1) + ((x21) - (x11)) * (W0)))) - 2 * ((s1) * ((((x20) - (x10)) * (W0) - 2 * (((x21) - (x11)) * (W1))) * (((x20) - (x10)) * (W1) + ((x21) - (x11)) * (W0)) + (((x20) - (x10)) * (W1) + ((x21) - (x11)) * (W0)) * (((x20) - (x10)) * (W0) - 2 * (((x21) - (x11)) * (W1)))))) - (((((y20) - (y10)) * ((y20) - (y10)) - 2 * (((y21) - (y11)) * ((y21) - (y11)))) - (((x10) + (x20)) * (((x20) - (x10)) * ((x20) - (x10)) - 2 * (((x21) - (x11)) * ((x21) - (x11)))) - 2 * (((x11) + (x21)) * (((x20) - (x10)) * ((x21) - (x11)) + ((x21) - (x11)) * ((x20) - (x10)))))) * ((W0) * (W0) - 2 * ((W1) * (W1))) - 2 * (((((y20) - (y10)) * ((y21) - (y11)) + ((y21) - (y11)) * ((y20) - (y10))) - (((x10) + (x20)) * (((x20) - (x10)) * ((x21) - (x11)) + ((x21) - (x11)) * ((x20) - (x10))) + ((x11) + (x21)) * (((x20) - (x10)) * ((x20) - (x10)) - 2 * (((x21) - (x11)) * ((x21) - (x11)))))) * ((W0) * (W1) + (W1) * (W0))))) * ((lam0) * (((x20) - (x10)) * (W0) - 2 * (((x21) - (x11)) * (W1))) - 2 * ((lam1) * (((x20) - (x10)) * (W1) + ((x21) - (x11)) * (W0)))) - 2 * ((((s0) * ((((x20) - (x10)) * (W0) - 2 * (((x21) - (x11)) * (W1))) * (((x20) - (x10)) * (W1) + ((x21) - (x11)) * (W0)) + (((x20) - (x10)) * (W1) + ((x21) - (x11)) * (W0)) * (((x20) - (x10)) * (W0) - 2 * (((x21) - (x11)) * (W1)))) + (s1) * ((((x20) - (x10)) * (W0) - 2 * (((x21) - (x11)) * (W1))) * (((x20) - (x10)) * (W0) - 2 * (((x21) - (x11)) * (W1))) - 2 * ((((x20) - (x10)) * (W1) + ((x21) - (x11)) * (W0)) * (((x20) - (x10)) * (W1) + ((x21) - (x11)) * (W0))))) - (((((y20) - (y10)) * ((y20) - (y10)) - 2 * (((y21) - (y11)) * ((y21) - (y11)))) - (((x10) + (x20)) * (((x20) - (x10)) * ((x20) - (x10)) - 2 * (((x21) - (x11)) * ((x21) - (x11)))) - 2 * (((x11) + (x21)) * (((x20) - (x10)) * ((x21) - (x11)) + ((x21) - (x11)) * ((x20) - (x10)))))) * ((W0) * (W1) + (W1) * (W0)) + ((((y20) - (y10)) * ((y21) - (y11)) + ((y21) - (y11)) * ((y20) - (y10))) - (((x10) + (x20)) * (((x20) - (x10)) * ((x21) - (x11)) + ((x21) - (x11)) * ((x20) - (x10))) + ((x11) + (x21)) * (((x20) - (x10)) * ((x20) - (x10)) - 2 * (((x21) - (x11)) * ((x21) - (x11)))))) * ((W0) * (W0) - 2 * ((W1) * (W1))))) * ((lam0) * (((x20) - (x10)) * (W1) + ((x21) - (x11)) * (W0)) + (lam1) * (((x20) - (x10)) * (W0) - 2 * (((x21) - (x11)) * (W1))))))
{ }
#[verifier::external_body]
proof fn ring_chord_y_1(x10: int, x11: int, y10: int, y11: int, x20: int, x21: int, y20: int, y21: int, lam0: int, lam1: int, s0: int, s1: int, W0: int, W1: int)
    ensures ((((lam0) * ((x10) - (s0)) - 2 * ((lam1) * ((x11) - (s1)))) - (y10)) * (((((x20) - (x10)) * (W0) - 2 * (((x21) - (x11)) * (W1))) * (((x20) - (x10)) * (W0) - 2 * (((x21) - (x11)) * (W1))) - 2 * ((((x20) - (x10)) * (W1) + ((x21) - (x11)) * (W0)) * (((x20) - (x10)) * (W1) + ((x21) - (x11)) * (W0)))) * (((x20) - (x10)) * (W1) + ((x21) - (x11)) * (W0)) + ((((x20) - (x10)) * (W0) - 2 * (((x21) - (x11)) * (W1))) * (((x20) - (x10)) * (W1) + ((x21) - (x11)) * (W0)) + (((x20) - (x10)) * (W1) + ((x21) - (x11)) * (W0)) * (((x20) - (x10)) * (W0) - 2 * (((x21) - (x11)) * (W1)))) * (((x20) - (x10)) * (W0) - 2 * (((x21) - (x11)) * (W1)))) + (((lam0) * ((x11) - (s1)) + (lam1) * ((x10) - (s0))) - (y11)) * (((((x20) - (x10)) * (W0) - 2 * (((x21) - (x11)) * (W1))) * (((x20) - (x10)) * (W0) - 2 * (((x21) - (x11)) * (W1))) - 2 * ((((x20) - (x10)) * (W1) + ((x21) - (x11)) * (W0)) * (((x20) - (x10)) * (W1) + ((x21) - (x11)) * (W0)))) * (((x20) - (x10)) * (W0) - 2 * (((x21) - (x11)) * (W1))) - 2 * (((((x20) - (x10)) * (W0) - 2 * (((x21) - (x11)) * (W1))) * (((x20) - (x10)) * (W1) + ((x21) - (x11)) * (W0)) + (((x20) - (x10)) * (W1) + ((x21) - (x11)) * (W0)) * (((x20) - (x10)) * (W0) - 2 * (((x21) - (x11)) * (W1)))) * (((x20) - (x10)) * (W1) + ((x21) - (x11)) * (W0))))) - (((((y20) - (y10)) * (((x10) * (((x20) - (x10)) * ((x20) - (x10)) - 2 * (((x21) - (x11)) * ((x21) - (x11)))) - 2 * ((x11) * (((x20) - (x10)) * ((x21) - (x11)) + ((x21) - (x11)) * ((x20) - (x10))))) - ((((y20) - (y10)) * ((y20) - (y10)) - 2 * (((y21) - (y11)) * ((y21) - (y11)))) - (((x10) + (x20)) * (((x20) - (x10)) * ((x20) - (x10)) - 2 * (((x21) - (x11)) * ((x21) - (x11)))) - 2 * (((x11) + (x21)) * (((x20) - (x10)) * ((x21) - (x11)) + ((x21) - (x11)) * ((x20) - (x10))))))) - 2 * (((y21) - (y11)) * (((x10) * (((x20) - (x10)) * ((x21) - (x11)) + ((x21) - (x11)) * ((x20) - (x10))) + (x11) * (((x20) - (x10)) * ((x20) - (x10)) - 2 * (((x21) - (x11)) * ((x21) - (x11))))) - ((((y20) - (y10)) * ((y21) - (y11)) + ((y21) - (y11)) * ((y20) - (y10))) - (((x10) + (x20)) * (((x20) - (x10)) * ((x21) - (x11)) + ((x21) - (x11)) * ((x20) - (x10))) + ((x11) + (x21)) * (((x20) - (x10)) * ((x20) - (x10)) - 2 * (((x21) - (x11)) * ((x21) - (x11))))))))) - ((y10) * ((((x20) - (x10)) * ((x20) - (x10)) - 2 * (((x21) - (x11)) * ((x21) - (x11)))) * ((x20) - (x10)) - 2 * ((((x20) - (x10)) * ((x21) - (x11)) + ((x21) - (x11)) * ((x20) - (x10))) * ((x21) - (x11)))) - 2 * ((y11) * ((((x20) - (x10)) * ((x20) - (x10)) - 2 * (((x21) - (x11)) * ((x21) - (x11)))) * ((x21) - (x11)) + (((x20) - (x10)) * ((x21) - (x11)) + ((x21) - (x11)) * ((x20) - (x10))) * ((x20) - (x10)))))) * (((W0) * (W0) - 2 * ((W1) * (W1))) * (W1) + ((W0) * (W1) + (W1) * (W0)) * (W0)) + ((((y20) - (y10)) * (((x10) * (((x20) - (x10)) * ((x21) - (x11)) + ((x21) - (x11)) * ((x20) - (x10))) + (x11) * (((x20) - (x10)) * ((x20) - (x10)) - 2 * (((x21) - (x11)) * ((x21) - (x11))))) - ((((y20) - (y10)) * ((y21) - (y11)) + ((y21) - (y11)) * ((y20) - (y10))) - (((x10) + (x20)) * (((x20) - (x10)) * ((x21) - (x11)) + ((x21) - (x11)) * ((x20) - (x10))) + ((x11) + (x21)) * (((x20) - (x10)) * ((x20) - (x10)) - 2 * (((x21) - (x11)) * ((x21) - (x11))))))) + ((y21) - (y11)) * (((x10) * (((x20) - (x10)) * ((x20) - (x10)) - 2 * (((x21) - (x11)) * ((x21) - (x11)))) - 2 * ((x11) * (((x20) - (x10)) * ((x21) - (x11)) + ((x21) - (x11)) * ((x20) - (x10))))) - ((((y20) - (y10)) * ((y20) - (y10)) - 2 * (((y21) - (y11)) * ((y21) - (y11)))) - (((x10) + (x20)) * (((x20) - (x10)) * ((x20) - (x10)) - 2 * (((x21) - (x11)) * ((x21) - (x11)))) - 2 * (((x11) + (x21)) * (((x20) - (x10)) * ((x21) - (x11)) + ((x21) - (x11)) * ((x20) - (x10)))))))) - ((y10) * ((((x20) - (x10)) * ((x20) - (x10)) - 2 * (((x21) - (x11)) * ((x21) - (x11)))) * ((x21) - (x11)) + (((x20) - (x10)) * ((x21) - (x11)) + ((x21) - (x11)) * ((x20) - (x10))) * ((x20) - (x10))) + (y11) * ((((x20) - (x10)) * ((x20) - (x10)) - 2 * (((x21) - (x11)) * ((x21) - (x11)))) * ((x20) - (x10)) - 2 * ((((x20) - (x10)) * ((x21) - (x11)) + ((x21) - (x11)) * ((x20) - (x10))) * ((x21) - (x11)))))) * (((W0) * (W0) - 2 * ((W1) * (W1))) * (W0) - 2 * (((W0) * (W1) + (W1) * (W0)) * (W1))))
        == ((((lam0) * ((x20) - (x10)) - 2 * ((lam1) * ((x21) - (x11)))) - ((y20) - (y10))) * ((((W0) * (W0) - 2 * ((W1) * (W1))) * (W0) - 2 * (((W0) * (W1) + (W1) * (W0)) * (W1))) * (((x10) * (((x20) - (x10)) * ((x21) - (x11)) + ((x21) - (x11)) * ((x20) - (x10))) + (x11) * (((x20) - (x10)) * ((x20) - (x10)) - 2 * (((x21) - (x11)) * ((x21) - (x11))))) - ((((y20) - (y10)) * ((y21) - (y11)) + ((y21) - (y11)) * ((y20) - (y10))) - (((x10) + (x20)) * (((x20) - (x10)) * ((x21) - (x11)) + ((x21) - (x11)) * ((x20) - (x10))) + ((x11) + (x21)) * (((x20) - (x10)) * ((x20) - (x10)) - 2 * (((x21) - (x11)) * ((x21) - (x11))))))) + (((W0) * (W0) - 2 * ((W1) * (W1))) * (W1) + ((W0) * (W1) + (W1) * (W0)) * (W0)) * (((x10) * (((x20) - (x10)) * ((x20) - (x10)) - 2 * (((x21) - (x11)) * ((x21) - (x11)))) - 2 * ((x11) * (((x20) - (x10)) * ((x21) - (x11)) + ((x21) - (x11)) * ((x20) - (x10))))) - ((((y20) - (y10)) * ((y20) - (y10)) - 2 * (((y21) - (y11)) * ((y21) - (y11)))) - (((x10) + (x20)) * (((x20) - (x10)) * ((x20) - (x10)) - 2 * (((x21) - (x11)) * ((x21) - (x11)))) - 2 * (((x11) + (x21)) * (((x20) - (x10)) * ((x21) - (x11)) + ((x21) - (x11)) * ((x20) - (x10)))))))) + (((lam0) * ((x21) - (x11)) + (lam1) * ((x20) - (x10))) - ((y21) - (y11))) * ((((W0) * (W0) - 2 * ((W1) * (W1))) * (W0) - 2 * (((W0) * (W1) + (W1) * (W0)) * (W1))) * (((x10) * (((x20) - (x10)) * ((x20) - (x10)) - 2 * (((x21) - (x11)) * ((x21) - (x11)))) - 2 * ((x11) * (((x20) - (x10)) * ((x21) - (x11)) + ((x21) - (x11)) * ((x20) - (x10))))) - ((((y20) - (y10)) * ((y20) - (y10)) - 2 * (((y21) - (y11)) * ((y21) - (y11)))) - (((x10) + (x20)) * (((x20) - (x10)) * ((x20) - (x10)) - 2 * (((x21) - (x11)) * ((x21) - (x11)))) - 2 * (((x11) + (x21)) * (((x20) - (x10)) * ((x21) - (x11)) + ((x21) - (x11)) * ((x20) - (x10))))))) - 2 * ((((W0) * (W0) - 2 * ((W1) * (W1))) * (W1) + ((W0) * (W1) + (W1) * (W0)) * (W0)) * (((x10) * (((x20) - (x10)) * ((x21) - (x11)) + ((x21) - (x11)) * ((x20) - (x10))) + (x11) * (((x20) - (x10)) * ((x20) - (x10)) - 2 * (((x21) - (x11)) * ((x21) - (x11))))) - ((((y20) - (y10)) * ((y21) - (y11)) + ((y21) - (y11)) * ((y20) - (y10))) - (((x10) + (x20)) * (((x20) - (x10)) * ((x21) - (x11)) + ((x21) - (x11)) * ((x20) - (x10))) + ((x11) + (x21)) * (((x20) - (x10)) * ((x20) - (x10)) - 2 * (((x21) - (x11)) * ((x21) - (x11)))))))))) - ((((s0) * ((((x20) - (x10)) * (W0) - 2 * (((x21) - (x11)) * (W1))) * (((x20) - (x10)) * (W0) - 2 * (((x21) - (x11)) * (W1))) - 2 * ((((x20) - (x10)) * (W1) + ((x21) - (x11)) * (W0)) * (((x20) - (x10)) * (W1) + ((x21) - (x11)) * (W0)))) - 2 * ((s1) * ((((x20) - (x10)) * (W0) - 2 * (((x21) - (x11)) * (W1))) * (((x20) - (x10)) * (W1) + ((x21) - (x11)) * (W0)) + (((x20) - (x10)) * (W1) + ((x21) - (x11)) * (W0)) * (((x20) - (x10)) * (W0) - 2 * (((x21) - (x11)) * (W1)))))) - (((((y20) - (y10)) * ((y20) - (y10)) - 2 * (((y21) - (y11)) * ((y21) - (y11)))) - (((x10) + (x20)) * (((x20) - (x10)) * ((x20) - (x10)) - 2 * (((x21) - (x11)) * ((x21) - (x11)))) - 2 * (((x11) + (x21)) * (((x20) - (x10)) * ((x21) - (x11)) + ((x21) - (x11)) * ((x20) - (x10)))))) * ((W0) * (W0) - 2 * ((W1) * (W1))) - 2 * (((((y20) - (y10)) * ((y21) - (y11)) + ((y21) - (y11)) * ((y20) - (y10))) - (((x10) + (x20)) * (((x20) - (x10)) * ((x21) - (x11)) + ((x21) - (x11)) * ((x20) - (x10))) + ((x11) + (x21)) * (((x20) - (x10)) * ((x20) - (x10)) - 2 * (((x21) - (x11)) * ((x21) - (x11)))))) * ((W0) * (W1) + (W1) * (W0))))) * ((lam0) * (((x20) - (x10)) * (W1) + ((x21) - (x11)) * (W0)) + (lam1) * (((x20) - (x10)) * (W0) - 2 * (((x21) - (x11)) * (W1)))) + (((s0) * ((((x20) - (x10)) * (W0) - 2 * (((x21) - (x11)) * (W1))) * (((x20) - (x10)) * (W1) + ((x21) - (x11)) * (W0)) + (((x20) - (x10)) * (W1) + ((x21) - (x11)) * (W0)) * (((x20) - (x10)) * (W0) - 2 * (((x21) - (x11)) * (W1)))) + (s1) * ((((x20) - (x10)) * (W0) - 2 * (((x21) - (x11)) * (W1))) * (((x20) - (x10)) * (W0) - 2 * (((x21) - (x11)) * (W1))) - 2 * ((((x20) - (x10)) * (W1) + ((x21) - (x11)) * (W0)) * (((x20) - (x10)) * (W1) + ((x21) - (x11)) * (W0))))) - (((((y20) - (y10)) * ((y20) - (y10)) - 2 * (((y21) - (y11)) * ((y21) - (y11)))) - (((x10) + (x20)) * (((x20) - (x10)) * ((x20) - (x10)) - 2 * (((x21) - (x11)) * ((x21) - (x11)))) - 2 * (((x11) + (x21)) * (((x20) - (x10)) * ((x21) - (x11)) + ((x21) - (x11)) * ((x20) - (x10)))))) * ((W0) * (W1) + (W1) * (W0)) + ((((y20) - (y10)) * ((y21) - (y11)) + ((y21) - (y11)) * ((y20) - (y10))) - (((x10) + (x20)) * (((x20) - (x10)) * ((x21) - (x11)) + ((x21) - (x11)) * ((x20) - (x10))) + ((x11) + (x21)) * (((x20) - (x10)) * ((x20) - (x10)) - 2 * (((x21) - (x11)) * ((x21) - (x11)))))) * ((W0) * (W0) - 2 * ((W1) * (W1))))) * ((lam0) * (((x20) - (x10)) * (W0) - 2 * (((x21) - (x11)) * (W1))) - 2 * ((lam1) * (((x20) - (x10)) * (W1) + ((x21) - (x11)) * (W0)))))
{ }
proof fn qr_dbl_half(Yp: F2)
    ensures q_mul(q_mul(q_add(Yp, Yp), q_add(Yp, Yp)), q_mul(q_add(Yp, Yp), q_add(Yp, Yp)))
        == q_k(2, q_k(8, q_mul(q_mul(Yp, Yp), q_mul(Yp, Yp))))
{
    reveal(q_add); reveal(q_sub); reveal(q_mul); reveal(q_k); reveal(q_c);
    ring_dbl_half_0(Yp.c0, Yp.c1); ring_dbl_half_1(Yp.c0, Yp.c1);
}
#[verifier::external_body]
proof fn ring_dbl_half_0(Yp0: int, Yp1: int)
    ensures (((Yp0) + (Yp0)) * ((Yp0) + (Yp0)) - 2 * (((Yp1) + (Yp1)) * ((Yp1) + (Yp1)))) * (((Yp0) + (Yp0)) * ((Yp0) + (Yp0)) - 2 * (((Yp1) + (Yp1)) * ((Yp1) + (Yp1)))) - 2 * ((((Yp0) + (Yp0)) * ((Yp1) + (Yp1)) + ((Yp1) + (Yp1)) * ((Yp0) + (Yp0))) * (((Yp0) + (Yp0)) * ((Yp1) + (Yp1)) + ((Yp1) + (Yp1)) * ((Yp0) + (Yp0))))
        == 2 * (8 * (((Yp0) * (Yp0) - 2 * ((Yp1) * (Yp1))) * ((Yp0) * (Yp0) - 2 * ((Yp1) * (Yp1))) - 2 * (((Yp0) * (Yp1) + (Yp1) * (Yp0)) * ((Yp0) * (Yp1) + (Yp1) * (Yp0)))))
{ }
#[verifier::external_body]
proof fn ring_dbl_half_1(Yp0: int, Yp1: int)
    ensures (((Yp0) + (Yp0)) * ((Yp0) + (Yp0)) - 2 * (((Yp1) + (Yp1)) * ((Yp1) + (Yp1)))) * (((Yp0) + (Yp0)) * ((Yp1) + (Yp1)) + ((Yp1) + (Yp1)) * ((Yp0) + (Yp0))) + (((Yp0) + (Yp0)) * ((Yp1) + (Yp1)) + ((Yp1) + (Yp1)) * ((Yp0) + (Yp0))) * (((Yp0) + (Yp0)) * ((Yp0) + (Yp0)) - 2 * (((Yp1) + (Yp1)) * ((Yp1) + (Yp1))))
        == 2 * (8 * (((Yp0) * (Yp0) - 2 * ((Yp1) * (Yp1))) * ((Yp0) * (Yp1) + (Yp1) * (Yp0)) + ((Yp0) * (Yp1) + (Yp1) * (Yp0)) * ((Yp0) * (Yp0) - 2 * ((Yp1) * (Yp1)))))
{ }
// TwistPoint::point_double: the field operations of the code (every one reduced mod p; d is the result of fp_div2)
spec fn dbl_rel(X: F2, Y: F2, Z: F2, m: F2, y2: F2, z3: F2, y4: F2, s: F2, y16: F2, d: F2, m2: F2, s2: F2, x3: F2, d1: F2, d2: F2, y3: F2) -> bool {
    m == m2_add(m2_add(m2_mul(X, X), m2_mul(X, X)), m2_mul(X, X))
    && y2 == m2_add(Y, Y)
    && z3 == m2_mul(y2, Z)
    && y4 == m2_mul(y2, y2)
    && s == m2_mul(y4, X)
    && y16 == m2_mul(y4, y4)
    && m2_add(d, d) == y16
    && m2 == m2_mul(m, m)
    && s2 == m2_add(s, s)
    && x3 == m2_sub(m2, s2)
    && d1 == m2_sub(s, x3)
    && d2 == m2_mul(d1, m)
    && y3 == m2_sub(d2, d)
}
proof fn dbl_chain(X: F2, Y: F2, Z: F2, m: F2, y2: F2, z3: F2, y4: F2, s: F2, y16: F2, d: F2, m2: F2, s2: F2, x3: F2, d1: F2, d2: F2, y3: F2, Xp: F2, Yp: F2, Zp: F2)
    requires dbl_rel(X, Y, Z, m, y2, z3, y4, s, y16, d, m2, s2, x3, d1, d2, y3),
        qc(X, Xp),
        qc(Y, Yp),
        qc(Z, Zp)
    ensures qc(x3, q_sub(q_mul(q_add(q_add(q_mul(Xp, Xp), q_mul(Xp, Xp)), q_mul(Xp, Xp)), q_add(q_add(q_mul(Xp, Xp), q_mul(Xp, Xp)), q_mul(Xp, Xp))), q_add(q_mul(q_mul(q_add(Yp, Yp), q_add(Yp, Yp)), Xp), q_mul(q_mul(q_add(Yp, Yp), q_add(Yp, Yp)), Xp)))),
        qc(y3, q_sub(q_mul(q_sub(q_mul(q_mul(q_add(Yp, Yp), q_add(Yp, Yp)), Xp), q_sub(q_mul(q_add(q_add(q_mul(Xp, Xp), q_mul(Xp, Xp)), q_mul(Xp, Xp)), q_add(q_add(q_mul(Xp, Xp), q_mul(Xp, Xp)), q_mul(Xp, Xp))), q_add(q_mul(q_mul(q_add(Yp, Yp), q_add(Yp, Yp)), Xp), q_mul(q_mul(q_add(Yp, Yp), q_add(Yp, Yp)), Xp)))), q_add(q_add(q_mul(Xp, Xp), q_mul(Xp, Xp)), q_mul(Xp, Xp))), q_k(8, q_mul(q_mul(Yp, Yp), q_mul(Yp, Yp))))),
        qc(z3, q_mul(q_add(Yp, Yp), Zp)),
        m2_ok(x3),
        m2_ok(y3),
        m2_ok(z3)
{
    let a1 = m2_mul(X, X);
    t2_cm(a1, X, X, Xp, Xp);
    let m1 = m2_add(m2_mul(X, X), m2_mul(X, X));
    t2_ca(m1, a1, a1, q_mul(Xp, Xp), q_mul(Xp, Xp));
    t2_ca(m, m1, a1, q_add(q_mul(Xp, Xp), q_mul(Xp, Xp)), q_mul(Xp, Xp));
    t2_ca(y2, Y, Y, Yp, Yp);
    t2_cm(z3, y2, Z, q_add(Yp, Yp), Zp);
    t2_cm(y4, y2, y2, q_add(Yp, Yp), q_add(Yp, Yp));
    t2_cm(s, y4, X, q_mul(q_add(Yp, Yp), q_add(Yp, Yp)), Xp);
    t2_cm(y16, y4, y4, q_mul(q_add(Yp, Yp), q_add(Yp, Yp)), q_mul(q_add(Yp, Yp), q_add(Yp, Yp)));
    qr_dbl_half(Yp);
    t2_half(d, y16, q_k(8, q_mul(q_mul(Yp, Yp), q_mul(Yp, Yp))));
    t2_cm(m2, m, m, q_add(q_add(q_mul(Xp, Xp), q_mul(Xp, Xp)), q_mul(Xp, Xp)), q_add(q_add(q_mul(Xp, Xp), q_mul(Xp, Xp)), q_mul(Xp, Xp)));
    t2_ca(s2, s, s, q_mul(q_mul(q_add(Yp, Yp), q_add(Yp, Yp)), Xp), q_mul(q_mul(q_add(Yp, Yp), q_add(Yp, Yp)), Xp));
    t2_cs(x3, m2, s2, q_mul(q_add(q_add(q_mul(Xp, Xp), q_mul(Xp, Xp)), q_mul(Xp, Xp)), q_add(q_add(q_mul(Xp, Xp), q_mul(Xp, Xp)), q_mul(Xp, Xp))), q_add(q_mul(q_mul(q_add(Yp, Yp), q_add(Yp, Yp)), Xp), q_mul(q_mul(q_add(Yp, Yp), q_add(Yp, Yp)), Xp)));
    t2_cs(d1, s, x3, q_mul(q_mul(q_add(Yp, Yp), q_add(Yp, Yp)), Xp), q_sub(q_mul(q_add(q_add(q_mul(Xp, Xp), q_mul(Xp, Xp)), q_mul(Xp, Xp)), q_add(q_add(q_mul(Xp, Xp), q_mul(Xp, Xp)), q_mul(Xp, Xp))), q_add(q_mul(q_mul(q_add(Yp, Yp), q_add(Yp, Yp)), Xp), q_mul(q_mul(q_add(Yp, Yp), q_add(Yp, Yp)), Xp))));
    t2_cm(d2, d1, m, q_sub(q_mul(q_mul(q_add(Yp, Yp), q_add(Yp, Yp)), Xp), q_sub(q_mul(q_add(q_add(q_mul(Xp, Xp), q_mul(Xp, Xp)), q_mul(Xp, Xp)), q_add(q_add(q_mul(Xp, Xp), q_mul(Xp, Xp)), q_mul(Xp, Xp))), q_add(q_mul(q_mul(q_add(Yp, Yp), q_add(Yp, Yp)), Xp), q_mul(q_mul(q_add(Yp, Yp), q_add(Yp, Yp)), Xp)))), q_add(q_add(q_mul(Xp, Xp), q_mul(Xp, Xp)), q_mul(Xp, Xp)));
    t2_cs(y3, d2, d, q_mul(q_sub(q_mul(q_mul(q_add(Yp, Yp), q_add(Yp, Yp)), Xp), q_sub(q_mul(q_add(q_add(q_mul(Xp, Xp), q_mul(Xp, Xp)), q_mul(Xp, Xp)), q_add(q_add(q_mul(Xp, Xp), q_mul(Xp, Xp)), q_mul(Xp, Xp))), q_add(q_mul(q_mul(q_add(Yp, Yp), q_add(Yp, Yp)), Xp), q_mul(q_mul(q_add(Yp, Yp), q_add(Yp, Yp)), Xp)))), q_add(q_add(q_mul(Xp, Xp), q_mul(Xp, Xp)), q_mul(Xp, Xp))), q_k(8, q_mul(q_mul(Yp, Yp), q_mul(Yp, Yp))));
}
proof fn qr_dF_m(xa: F2, z: F2)
    ensures q_add(q_add(q_mul(q_mul(q_mul(xa, z), z), q_mul(q_mul(xa, z), z)), q_mul(q_mul(q_mul(xa, z), z), q_mul(q_mul(xa, z), z))), q_mul(q_mul(q_mul(xa, z), z), q_mul(q_mul(xa, z), z)))
        == q_mul(q_add(q_add(q_mul(xa, xa), q_mul(xa, xa)), q_mul(xa, xa)), q_mul(q_mul(z, z), q_mul(z, z)))
{
    reveal(q_add); reveal(q_sub); reveal(q_mul); reveal(q_k); reveal(q_c);
    ring_dF_m_0(xa.c0, xa.c1, z.c0, z.c1); ring_dF_m_1(xa.c0, xa.c1, z.c0, z.c1);
}
#[verifier::external_body]
proof fn ring_dF_m_0(xa0: int, xa1: int, z0: int, z1: int)
    ensures (((((xa0) * (z0) - 2 * ((xa1) * (z1))) * (z0) - 2 * (((xa0) * (z1) + (xa1) * (z0)) * (z1))) * (((xa0) * (z0) - 2 * ((xa1) * (z1))) * (z0) - 2 * (((xa0) * (z1) + (xa1) * (z0)) * (z1))) - 2 * ((((xa0) * (z0) - 2 * ((xa1) * (z1))) * (z1) + ((xa0) * (z1) + (xa1) * (z0)) * (z0)) * (((xa0) * (z0) - 2 * ((xa1) * (z1))) * (z1) + ((xa0) * (z1) + (xa1) * (z0)) * (z0)))) + ((((xa0) * (z0) - 2 * ((xa1) * (z1))) * (z0) - 2 * (((xa0) * (z1) + (xa1) * (z0)) * (z1))) * (((xa0) * (z0) - 2 * ((xa1) * (z1))) * (z0) - 2 * (((xa0) * (z1) + (xa1) * (z0)) * (z1))) - 2 * ((((xa0) * (z0) - 2 * ((xa1) * (z1))) * (z1) + ((xa0) * (z1) + (xa1) * (z0)) * (z0)) * (((xa0) * (z0) - 2 * ((xa1) * (z1))) * (z1) + ((xa0) * (z1) + (xa1) * (z0)) * (z0))))) + ((((xa0) * (z0) - 2 * ((xa1) * (z1))) * (z0) - 2 * (((xa0) * (z1) + (xa1) * (z0)) * (z1))) * (((xa0) * (z0) - 2 * ((xa1) * (z1))) * (z0) - 2 * (((xa0) * (z1) + (xa1) * (z0)) * (z1))) - 2 * ((((xa0) * (z0) - 2 * ((xa1) * (z1))) * (z1) + ((xa0) * (z1) + (xa1) * (z0)) * (z0)) * (((xa0) * (z0) - 2 * ((xa1) * (z1))) * (z1) + ((xa0) * (z1) + (xa1) * (z0)) * (z0))))
        == ((((xa0) * (xa0) - 2 * ((xa1) * (xa1))) + ((xa0) * (xa0) - 2 * ((xa1) * (xa1)))) + ((xa0) * (xa0) - 2 * ((xa1) * (xa1)))) * (((z0) * (z0) - 2 * ((z1) * (z1))) * ((z0) * (z0) - 2 * ((z1) * (z1))) - 2 * (((z0) * (z1) + (z1) * (z0)) * ((z0) * (z1) + (z1) * (z0)))) - 2 * (((((xa0) * (xa1) + (xa1) * (xa0)) + ((xa0) * (xa1) + (xa1) * (xa0))) + ((xa0) * (xa1) + (xa1) * (xa0))) * (((z0) * (z0) - 2 * ((z1) * (z1))) * ((z0) * (z1) + (z1) * (z0)) + ((z0) * (z1) + (z1) * (z0)) * ((z0) * (z0) - 2 * ((z1) * (z1)))))
{ }
#[verifier::external_body]
proof fn ring_dF_m_1(xa0: int, xa1: int, z0: int, z1: int)
    ensures (((((xa0) * (z0) - 2 * ((xa1) * (z1))) * (z0) - 2 * (((xa0) * (z1) + (xa1) * (z0)) * (z1))) * (((xa0) * (z0) - 2 * ((xa1) * (z1))) * (z1) + ((xa0) * (z1) + (xa1) * (z0)) * (z0)) + (((xa0) * (z0) - 2 * ((xa1) * (z1))) * (z1) + ((xa0) * (z1) + (xa1) * (z0)) * (z0)) * (((xa0) * (z0) - 2 * ((xa1) * (z1))) * (z0) - 2 * (((xa0) * (z1) + (xa1) * (z0)) * (z1)))) + ((((xa0) * (z0) - 2 * ((xa1) * (z1))) * (z0) - 2 * (((xa0) * (z1) + (xa1) * (z0)) * (z1))) * (((xa0) * (z0) - 2 * ((xa1) * (z1))) * (z1) + ((xa0) * (z1) + (xa1) * (z0)) * (z0)) + (((xa0) * (z0) - 2 * ((xa1) * (z1))) * (z1) + ((xa0) * (z1) + (xa1) * (z0)) * (z0)) * (((xa0) * (z0) - 2 * ((xa1) * (z1))) * (z0) - 2 * (((xa0) * (z1) + (xa1) * (z0)) * (z1))))) + ((((xa0) * (z0) - 2 * ((xa1) * (z1))) * (z0) - 2 * (((xa0) * (z1) + (xa1) * (z0)) * (z1))) * (((xa0) * (z0) - 2 * ((xa1) * (z1))) * (z1) + ((xa0) * (z1) + (xa1) * (z0)) * (z0)) + (((xa0) * (z0) - 2 * ((xa1) * (z1))) * (z1) + ((xa0) * (z1) + (xa1) * (z0)) * (z0)) * (((xa0) * (z0) - 2 * ((xa1) * (z1))) * (z0) - 2 * (((xa0) * (z1) + (xa1) * (z0)) * (z1))))
        == ((((xa0) * (xa0) - 2 * ((xa1) * (xa1))) + ((xa0) * (xa0) - 2 * ((xa1) * (xa1)))) + ((xa0) * (xa0) - 2 * ((xa1) * (xa1)))) * (((z0) * (z0) - 2 * ((z1) * (z1))) * ((z0) * (z1) + (z1) * (z0)) + ((z0) * (z1) + (z1) * (z0)) * ((z0) * (z0) - 2 * ((z1) * (z1)))) + ((((xa0) * (xa1) + (xa1) * (xa0)) + ((xa0) * (xa1) + (xa1) * (xa0))) + ((xa0) * (xa1) + (xa1) * (xa0))) * (((z0) * (z0) - 2 * ((z1) * (z1))) * ((z0) * (z0) - 2 * ((z1) * (z1))) - 2 * (((z0) * (z1) + (z1) * (z0)) * ((z0) * (z1) + (z1) * (z0))))
{ }
proof fn qr_dF_s(xa: F2, ya: F2, z: F2)
    ensures q_mul(q_mul(q_add(q_mul(q_mul(q_mul(ya, z), z), z), q_mul(q_mul(q_mul(ya, z), z), z)), q_add(q_mul(q_mul(q_mul(ya, z), z), z), q_mul(q_mul(q_mul(ya, z), z), z))), q_mul(q_mul(xa, z), z))
        == q_mul(q_mul(q_mul(q_add(ya, ya), q_add(ya, ya)), xa), q_mul(q_mul(q_mul(z, z), q_mul(z, z)), q_mul(q_mul(z, z), q_mul(z, z))))
{
    reveal(q_add); reveal(q_sub); reveal(q_mul); reveal(q_k); reveal(q_c);
    ring_dF_s_0(xa.c0, xa.c1, ya.c0, ya.c1, z.c0, z.c1); ring_dF_s_1(xa.c0, xa.c1, ya.c0, ya.c1, z.c0, z.c1);
}
#[verifier::external_body]
proof fn ring_dF_s_0(xa0: int, xa1: int, ya0: int, ya1: int, z0: int, z1: int)
    ensures ((((((ya0) * (z0) - 2 * ((ya1) * (z1))) * (z0) - 2 * (((ya0) * (z1) + (ya1) * (z0)) * (z1))) * (z0) - 2 * ((((ya0) * (z0) - 2 * ((ya1) * (z1))) * (z1) + ((ya0) * (z1) + (ya1) * (z0)) * (z0)) * (z1))) + ((((ya0) * (z0) - 2 * ((ya1) * (z1))) * (z0) - 2 * (((ya0) * (z1) + (ya1) * (z0)) * (z1))) * (z0) - 2 * ((((ya0) * (z0) - 2 * ((ya1) * (z1))) * (z1) + ((ya0) * (z1) + (ya1) * (z0)) * (z0)) * (z1)))) * (((((ya0) * (z0) - 2 * ((ya1) * (z1))) * (z0) - 2 * (((ya0) * (z1) + (ya1) * (z0)) * (z1))) * (z0) - 2 * ((((ya0) * (z0) - 2 * ((ya1) * (z1))) * (z1) + ((ya0) * (z1) + (ya1) * (z0)) * (z0)) * (z1))) + ((((ya0) * (z0) - 2 * ((ya1) * (z1))) * (z0) - 2 * (((ya0) * (z1) + (ya1) * (z0)) * (z1))) * (z0) - 2 * ((((ya0) * (z0) - 2 * ((ya1) * (z1))) * (z1) + ((ya0) * (z1) + (ya1) * (z0)) * (z0)) * (z1)))) - 2 * ((((((ya0) * (z0) - 2 * ((ya1) * (z1))) * (z0) - 2 * (((ya0) * (z1) + (ya1) * (z0)) * (z1))) * (z1) + (((ya0) * (z0) - 2 * ((ya1) * (z1))) * (z1) + ((ya0) * (z1) + (ya1) * (z0)) * (z0)) * (z0)) + ((((ya0) * (z0) - 2 * ((ya1) * (z1))) * (z0) - 2 * (((ya0) * (z1) + (ya1) * (z0)) * (z1))) * (z1) + (((ya0) * (z0) - 2 * ((ya1) * (z1))) * (z1) + ((ya0) * (z1) + (ya1) * (z0)) * (z0)) * (z0))) * (((((ya0) * (z0) - 2 * ((ya1) * (z1))) * (z0) - 2 * (((ya0) * (z1) + (ya1) * (z0)) * (z1))) * (z1) + (((ya0) * (z0) - 2 * ((ya1) * (z1))) * (z1) + ((ya0) * (z1) + (ya1) * (z0)) * (z0)) * (z0)) + ((((ya0) * (z0) - 2 * ((ya1) * (z1))) * (z0) - 2 * (((ya0) * (z1) + (ya1) * (z0)) * (z1))) * (z1) + (((ya0) * (z0) - 2 * ((ya1) * (z1))) * (z1) + ((ya0) * (z1) + (ya1) * (z0)) * (z0)) * (z0))))) * (((xa0) * (z0) - 2 * ((xa1) * (z1))) * (z0) - 2 * (((xa0) * (z1) + (xa1) * (z0)) * (z1))) - 2 * (((((((ya0) * (z0) - 2 * ((ya1) * (z1))) * (z0) - 2 * (((ya0) * (z1) + (ya1) * (z0)) * (z1))) * (z0) - 2 * ((((ya0) * (z0) - 2 * ((ya1) * (z1))) * (z1) + ((ya0) * (z1) + (ya1) * (z0)) * (z0)) * (z1))) + ((((ya0) * (z0) - 2 * ((ya1) * (z1))) * (z0) - 2 * (((ya0) * (z1) + (ya1) * (z0)) * (z1))) * (z0) - 2 * ((((ya0) * (z0) - 2 * ((ya1) * (z1))) * (z1) + ((ya0) * (z1) + (ya1) * (z0)) * (z0)) * (z1)))) * (((((ya0) * (z0) - 2 * ((ya1) * (z1))) * (z0) - 2 * (((ya0) * (z1) + (ya1) * (z0)) * (z1))) * (z1) + (((ya0) * (z0) - 2 * ((ya1) * (z1))) * (z1) + ((ya0) * (z1) + (ya1) * (z0)) * (z0)) * (z0)) + ((((ya0) * (z0) - 2 * ((ya1) * (z1))) * (z0) - 2 * (((ya0) * (z1) + (ya1) * (z0)) * (z1))) * (z1) + (((ya0) * (z0) - 2 * ((ya1) * (z1))) * (z1) + ((ya0) * (z1) + (ya1) * (z0)) * (z0)) * (z0))) + (((((ya0) * (z0) - 2 * ((ya1) * (z1))) * (z0) - 2 * (((ya0) * (z1) + (ya1) * (z0)) * (z1))) * (z1) + (((ya0) * (z0) - 2 * ((ya1) * (z1))) * (z1) + ((ya0) * (z1) + (ya1) * (z0)) * (z0)) * (z0)) + ((((ya0) * (z0) - 2 * ((ya1) * (z1))) * (z0) - 2 * (((ya0) * (z1) + (ya1) * (z0)) * (z1))) * (z1) + (((ya0) * (z0) - 2 * ((ya1) * (z1))) * (z1) + ((ya0) * (z1) + (ya1) * (z0)) * (z0)) * (z0))) * (((((ya0) * (z0) - 2 * ((ya1) * (z1))) * (z0) - 2 * (((ya0) * (z1) + (ya1) * (z0)) * (z1))) * (z0) - 2 * ((((ya0) * (z0) - 2 * ((ya1) * (z1))) * (z1) + ((ya0) * (z1) + (ya1) * (z0)) * (z0)) * (z1))) + ((((ya0) * (z0) - 2 * ((ya1) * (z1))) * (z0) - 2 * (((ya0) * (z1) + (ya1) * (z0)) * (z1))) * (z0) - 2 * ((((ya0) * (z0) - 2 * ((ya1) * (z1))) * (z1) + ((ya0) * (z1) + (ya1) * (z0)) * (z0)) * (z1))))) * (((xa0) * (z0) - 2 * ((xa1) * (z1))) * (z1) + ((xa0) * (z1) + (xa1) * (z0)) * (z0)))
        == ((((ya0) + (ya0)) * ((ya0) + (ya0)) - 2 * (((ya1) + (ya1)) * ((ya1) + (ya1)))) * (xa0) - 2 * ((((ya0) + (ya0)) * ((ya1) + (ya1)) + ((ya1) + (ya1)) * ((ya0) + (ya0))) * (xa1))) * ((((z0) * (z0) - 2 * ((z1) * (z1))) * ((z0) * (z0) - 2 * ((z1) * (z1))) - 2 * (((z0) * (z1) + (z1) * (z0)) * ((z0) * (z1) + (z1) * (z0)))) * (((z0) * (z0) - 2 * ((z1) * (z1))) * ((z0) * (z0) - 2 * ((z1) * (z1))) - 2 * (((z0) * (z1) + (z1) * (z0)) * ((z0) * (z1) + (z1) * (z0)))) - 2 * ((((z0) * (z0) - 2 * ((z1) * (z1))) * ((z0) * (z1) + (z1) * (z0)) + ((z0) * (z1) + (z1) * (z0)) * ((z0) * (z0) - 2 * ((z1) * (z1)))) * (((z0) * (z0) - 2 * ((z1) * (z1))) * ((z0) * (z1) + (z1) * (z0)) + ((z0) * (z1) + (z1) * (z0)) * ((z0) * (z0) - 2 * ((z1) * (z1)))))) - 2 * (((((ya0) + (ya0)) * ((ya0) + (ya0)) - 2 * (((ya1) + (ya1)) * ((ya1) + (ya1)))) * (xa1) + (((ya0) + (ya0)) * ((ya1) + (ya1)) + ((ya1) + (ya1)) * ((ya0) + (ya0))) * (xa0)) * ((((z0) * (z0) - 2 * ((z1) * (z1))) * ((z0) * (z0) - 2 * ((z1) * (z1))) - 2 * (((z0) * (z1) + (z1) * (z0)) * ((z0) * (z1) + (z1) * (z0)))) * (((z0) * (z0) - 2 * ((z1) * (z1))) * ((z0) * (z1) + (z1) * (z0)) + ((z0) * (z1) + (z1) * (z0)) * ((z0) * (z0) - 2 * ((z1) * (z1)))) + (((z0) * (z0) - 2 * ((z1) * (z1))) * ((z0) * (z1) + (z1) * (z0)) + ((z0) * (z1) + (z1) * (z0)) * ((z0) * (z0) - 2 * ((z1) * (z1)))) * (((z0) * (z0) - 2 * ((z1) * (z1))) * ((z0) * (z0) - 2 * ((z1) * (z1))) - 2 * (((z0) * (z1) + (z1) * (z0)) * ((z0) * (z1) + (z1) * (z0))))))
{ }
#[verifier::external_body]
proof fn ring_dF_s_1(xa0: int, xa1: int, ya0: int, ya1: int, z0: int, z1: int)
    ensures ((((((ya0) * (z0) - 2 * ((ya1) * (z1))) * (z0) - 2 * (((ya0) * (z1) + (ya1) * (z0)) * (z1))) * (z0) - 2 * ((((ya0) * (z0) - 2 * ((ya1) * (z1))) * (z1) + ((ya0) * (z1) + (ya1) * (z0)) * (z0)) * (z1))) + ((((ya0) * (z0) - 2 * ((ya1) * (z1))) * (z0) - 2 * (((ya0) * (z1) + (ya1) * (z0)) * (z1))) * (z0) - 2 * ((((ya0) * (z0) - 2 * ((ya1) * (z1))) * (z1) + ((ya0) * (z1) + (ya1) * (z0)) * (z0)) * (z1)))) * (((((ya0) * (z0) - 2 * ((ya1) * (z1))) * (z0) - 2 * (((ya0) * (z1) + (ya1) * (z0)) * (z1))) * (z0) - 2 * ((((ya0) * (z0) - 2 * ((ya1) * (z1))) * (z1) + ((ya0) * (z1) + (ya1) * (z0)) * (z0)) * (z1))) + ((((ya0) * (z0) - 2 * ((ya1) * (z1))) * (z0) - 2 * (((ya0) * (z1) + (ya1) * (z0)) * (z1))) * (z0) - 2 * ((((ya0) * (z0) - 2 * ((ya1) * (z1))) * (z1) + ((ya0) * (z1) + (ya1) * (z0)) * (z0)) * (z1)))) - 2 * ((((((ya0) * (z0) - 2 * ((ya1) * (z1))) * (z0) - 2 * (((ya0) * (z1) + (ya1) * (z0)) * (z1))) * (z1) + (((ya0) * (z0) - 2 * ((ya1) * (z1))) * (z1) + ((ya0) * (z1) + (ya1) * (z0)) * (z0)) * (z0)) + ((((ya0) * (z0) - 2 * ((ya1) * (z1))) * (z0) - 2 * (((ya0) * (z1) + (ya1) * (z0)) * (z1))) * (z1) + (((ya0) * (z0) - 2 * ((ya1) * (z1))) * (z1) + ((ya0) * (z1) + (ya1) * (z0)) * (z0)) * (z0))) * (((((ya0) * (z0) - 2 * ((ya1) * (z1))) * (z0) - 2 * (((ya0) * (z1) + (ya1) * (z0)) * (z1))) * (z1) + (((ya0) * (z0) - 2 * ((ya1) * (z1))) * (z1) + ((ya0) * (z1) + (ya1) * (z0)) * (z0)) * (z0)) + ((((ya0) * (z0) - 2 * ((ya1) * (z1))) * (z0) - 2 * (((ya0) * (z1) + (ya1) * (z0)) * (z1))) * (z1) + (((ya0) * (z0) - 2 * ((ya1) * (z1))) * (z1) + ((ya0) * (z1) + (ya1) * (z0)) * (z0)) * (z0))))) * (((xa0) * (z0) - 2 * ((xa1) * (z1))) * (z1) + ((xa0) * (z1) + (xa1) * (z0)) * (z0)) + ((((((ya0) * (z0) - 2 * ((ya1) * (z1))) * (z0) - 2 * (((ya0) * (z1) + (ya1) * (z0)) * (z1))) * (z0) - 2 * ((((ya0) * (z0) - 2 * ((ya1) * (z1))) * (z1) + ((ya0) * (z1) + (ya1) * (z0)) * (z0)) * (z1))) + ((((ya0) * (z0) - 2 * ((ya1) * (z1))) * (z0) - 2 * (((ya0) * (z1) + (ya1) * (z0)) * (z1))) * (z0) - 2 * ((((ya0) * (z0) - 2 * ((ya1) * (z1))) * (z1) + ((ya0) * (z1) + (ya1) * (z0)) * (z0)) * (z1)))) * (((((ya0) * (z0) - 2 * ((ya1) * (z1))) * (z0) - 2 * (((ya0) * (z1) + (ya1) * (z0)) * (z1))) * (z1) + (((ya0) * (z0) - 2 * ((ya1) * (z1))) * (z1) + ((ya0) * (z1) + (ya1) * (z0)) * (z0)) * (z0)) + ((((ya0) * (z0) - 2 * ((ya1) * (z1))) * (z0) - 2 * (((ya0) * (z1) + (ya1) * (z0)) * (z1))) * (z1) + (((ya0) * (z0) - 2 * ((ya1) * (z1))) * (z1) + ((ya0) * (z1) + (ya1) * (z0)) * (z0)) * (z0))) + (((((ya0) * (z0) - 2 * ((ya1) * (z1))) * (z0) - 2 * (((ya0) * (z1) + (ya1) * (z0)) * (z1))) * (z1) + (((ya0) * (z0) - 2 * ((ya1) * (z1))) * (z1) + ((ya0) * (z1) + (ya1) * (z0)) * (z0)) * (z0)) + ((((ya0) * (z0) - 2 * ((ya1) * (z1))) * (z0) - 2 * (((ya0) * (z1) + (ya1) * (z0)) * (z1))) * (z1) + (((ya0) * (z0) - 2 * ((ya1) * (z1))) * (z1) + ((ya0) * (z1) + (ya1) * (z0)) * (z0)) * (z0))) * (((((ya0) * (z0) - 2 * ((ya1) * (z1))) * (z0) - 2 * (((ya0) * (z1) + (ya1) * (z0)) * (z1))) * (z0) - 2 * ((((ya0) * (z0) - 2 * ((ya1) * (z1))) * (z1) + ((ya0) * (z1) + (ya1) * (z0)) * (z0)) * (z1))) + ((((ya0) * (z0) - 2 * ((ya1) * (z1))) * (z0) - 2 * (((ya0) * (z1) + (ya1) * (z0)) * (z1))) * (z0) - 2 * ((((ya0) * (z0) - 2 * ((ya1) * (z1))) * (z1) + ((ya0) * (z1) + (ya1) * (z0)) * (z0)) * (z1))))) * (((xa0) * (z0) - 2 * ((xa1) * (z1))) * (z0) - 2 * (((xa0) * (z1) + (xa1) * (z0)) * (z1)))
        == ((((ya0) + (ya0)) * ((ya0) + (ya0)) - 2 * (((ya1) + (ya1)) * ((ya1) + (ya1)))) * (xa0) - 2 * ((((ya0) + (ya0)) * ((ya1) + (ya1)) + ((ya1) + (ya1)) * ((ya0) + (ya0))) * (xa1))) * ((((z0) * (z0) - 2 * ((z1) * (z1))) * ((z0) * (z0) - 2 * ((z1) * (z1))) - 2 * (((z0) * (z1) + (z1) * (z0)) * ((z0) * (z1) + (z1) * (z0)))) * (((z0) * (z0) - 2 * ((z1) * (z1))) * ((z0) * (z1) + (z1) * (z0)) + ((z0) * (z1) + (z1) * (z0)) * ((z0) * (z0) - 2 * ((z1) * (z1)))) + (((z0) * (z0) - 2 * ((z1) * (z1))) * ((z0) * (z1) + (z1) * (z0)) + ((z0) * (z1) + (z1) * (z0)) * ((z0) * (z0) - 2 * ((z1) * (z1)))) * (((z0) * (z0) - 2 * ((z1) * (z1))) * ((z0) * (z0) - 2 * ((z1) * (z1))) - 2 * (((z0) * (z1) + (z1) * (z0)) * ((z0) * (z1) + (z1) * (z0))))) + ((((ya0) + (ya0)) * ((ya0) + (ya0)) - 2 * (((ya1) + (ya1)) * ((ya1) + (ya1)))) * (xa1) + (((ya0) + (ya0)) * ((ya1) + (ya1)) + ((ya1) + (ya1)) * ((ya0) + (ya0))) * (xa0)) * ((((z0) * (z0) - 2 * ((z1) * (z1))) * ((z0) * (z0) - 2 * ((z1) * (z1))) - 2 * (((z0) * (z1) + (z1) * (z0)) * ((z0) * (z1) + (z1) * (z0)))) * (((z0) * (z0) - 2 * ((z1) * (z1))) * ((z0) * (z0) - 2 * ((z1) * (z1))) - 2 * (((z0) * (z1) + (z1) * (z0)) * ((z0) * (z1) + (z1) * (z0)))) - 2 * ((((z0) * (z0) - 2 * ((z1) * (z1))) * ((z0) * (z1) + (z1) * (z0)) + ((z0) * (z1) + (z1) * (z0)) * ((z0) * (z0) - 2 * ((z1) * (z1)))) * (((z0) * (z0) - 2 * ((z1) * (z1))) * ((z0) * (z1) + (z1) * (z0)) + ((z0) * (z1) + (z1) * (z0)) * ((z0) * (z0) - 2 * ((z1) * (z1))))))
{ }
proof fn qr_dF_d(ya: F2, z: F2)
    ensures q_k(8, q_mul(q_mul(q_mul(q_mul(q_mul(ya, z), z), z), q_mul(q_mul(q_mul(ya, z), z), z)), q_mul(q_mul(q_mul(q_mul(ya, z), z), z), q_mul(q_mul(q_mul(ya, z), z), z))))
        == q_mul(q_k(8, q_mul(q_mul(ya, ya), q_mul(ya, ya))), q_mul(q_mul(q_mul(q_mul(z, z), q_mul(z, z)), q_mul(q_mul(z, z), q_mul(z, z))), q_mul(q_mul(z, z), q_mul(z, z))))
{
    reveal(q_add); reveal(q_sub); reveal(q_mul); reveal(q_k); reveal(q_c);
    ring_dF_d_0(ya.c0, ya.c1, z.c0, z.c1); ring_dF_d_1(ya.c0, ya.c1, z.c0, z.c1);
}
#[verifier::external_body]
proof fn ring_dF_d_0(ya0: int, ya1: int, z0: int, z1: int)
    ensures 8 * ((((((ya0) * (z0) - 2 * ((ya1) * (z1))) * (z0) - 2 * (((ya0) * (z1) + (ya1) * (z0)) * (z1))) * (z0) - 2 * ((((ya0) * (z0) - 2 * ((ya1) * (z1))) * (z1) + ((ya0) * (z1) + (ya1) * (z0)) * (z0)) * (z1))) * ((((ya0) * (z0) - 2 * ((ya1) * (z1))) * (z0) - 2 * (((ya0) * (z1) + (ya1) * (z0)) * (z1))) * (z0) - 2 * ((((ya0) * (z0) - 2 * ((ya1) * (z1))) * (z1) + ((ya0) * (z1) + (ya1) * (z0)) * (z0)) * (z1))) - 2 * (((((ya0) * (z0) - 2 * ((ya1) * (z1))) * (z0) - 2 * (((ya0) * (z1) + (ya1) * (z0)) * (z1))) * (z1) + (((ya0) * (z0) - 2 * ((ya1) * (z1))) * (z1) + ((ya0) * (z1) + (ya1) * (z0)) * (z0)) * (z0)) * ((((ya0) * (z0) - 2 * ((ya1) * (z1))) * (z0) - 2 * (((ya0) * (z1) + (ya1) * (z0)) * (z1))) * (z1) + (((ya0) * (z0) - 2 * ((ya1) * (z1))) * (z1) + ((ya0) * (z1) + (ya1) * (z0)) * (z0)) * (z0)))) * (((((ya0) * (z0) - 2 * ((ya1) * (z1))) * (z0) - 2 * (((ya0) * (z1) + (ya1) * (z0)) * (z1))) * (z0) - 2 * ((((ya0) * (z0) - 2 * ((ya1) * (z1))) * (z1) + ((ya0) * (z1) + (ya1) * (z0)) * (z0)) * (z1))) * ((((ya0) * (z0) - 2 * ((ya1) * (z1))) * (z0) - 2 * (((ya0) * (z1) + (ya1) * (z0)) * (z1))) * (z0) - 2 * ((((ya0) * (z0) - 2 * ((ya1) * (z1))) * (z1) + ((ya0) * (z1) + (ya1) * (z0)) * (z0)) * (z1))) - 2 * (((((ya0) * (z0) - 2 * ((ya1) * (z1))) * (z0) - 2 * (((ya0) * (z1) + (ya1) * (z0)) * (z1))) * (z1) + (((ya0) * (z0) - 2 * ((ya1) * (z1))) * (z1) + ((ya0) * (z1) + (ya1) * (z0)) * (z0)) * (z0)) * ((((ya0) * (z0) - 2 * ((ya1) * (z1))) * (z0) - 2 * (((ya0) * (z1) + (ya1) * (z0)) * (z1))) * (z1) + (((ya0) * (z0) - 2 * ((ya1) * (z1))) * (z1) + ((ya0) * (z1) + (ya1) * (z0)) * (z0)) * (z0)))) - 2 * ((((((ya0) * (z0) - 2 * ((ya1) * (z1))) * (z0) - 2 * (((ya0) * (z1) + (ya1) * (z0)) * (z1))) * (z0) - 2 * ((((ya0) * (z0) - 2 * ((ya1) * (z1))) * (z1) + ((ya0) * (z1) + (ya1) * (z0)) * (z0)) * (z1))) * ((((ya0) * (z0) - 2 * ((ya1) * (z1))) * (z0) - 2 * (((ya0) * (z1) + (ya1) * (z0)) * (z1))) * (z1) + (((ya0) * (z0) - 2 * ((ya1) * (z1))) * (z1) + ((ya0) * (z1) + (ya1) * (z0)) * (z0)) * (z0)) + ((((ya0) * (z0) - 2 * ((ya1) * (z1))) * (z0) - 2 * (((ya0) * (z1) + (ya1) * (z0)) * (z1))) * (z1) + (((ya0) * (z0) - 2 * ((ya1) * (z1))) * (z1) + ((ya0) * (z1) + (ya1) * (z0)) * (z0)) * (z0)) * ((((ya0) * (z0) - 2 * ((ya1) * (z1))) * (z0) - 2 * (((ya0) * (z1) + (ya1) * (z0)) * (z1))) * (z0) - 2 * ((((ya0) * (z0) - 2 * ((ya1) * (z1))) * (z1) + ((ya0) * (z1) + (ya1) * (z0)) * (z0)) * (z1)))) * (((((ya0) * (z0) - 2 * ((ya1) * (z1))) * (z0) - 2 * (((ya0) * (z1) + (ya1) * (z0)) * (z1))) * (z0) - 2 * ((((ya0) * (z0) - 2 * ((ya1) * (z1))) * (z1) + ((ya0) * (z1) + (ya1) * (z0)) * (z0)) * (z1))) * ((((ya0) * (z0) - 2 * ((ya1) * (z1))) * (z0) - 2 * (((ya0) * (z1) + (ya1) * (z0)) * (z1))) * (z1) + (((ya0) * (z0) - 2 * ((ya1) * (z1))) * (z1) + ((ya0) * (z1) + (ya1) * (z0)) * (z0)) * (z0)) + ((((ya0) * (z0) - 2 * ((ya1) * (z1))) * (z0) - 2 * (((ya0) * (z1) + (ya1) * (z0)) * (z1))) * (z1) + (((ya0) * (z0) - 2 * ((ya1) * (z1))) * (z1) + ((ya0) * (z1) + (ya1) * (z0)) * (z0)) * (z0)) * ((((ya0) * (z0) - 2 * ((ya1) * (z1))) * (z0) - 2 * (((ya0) * (z1) + (ya1) * (z0)) * (z1))) * (z0) - 2 * ((((ya0) * (z0) - 2 * ((ya1) * (z1))) * (z1) + ((ya0) * (z1) + (ya1) * (z0)) * (z0)) * (z1))))))
        == (8 * (((ya0) * (ya0) - 2 * ((ya1) * (ya1))) * ((ya0) * (ya0) - 2 * ((ya1) * (ya1))) - 2 * (((ya0) * (ya1) + (ya1) * (ya0)) * ((ya0) * (ya1) + (ya1) * (ya0))))) * (((((z0) * (z0) - 2 * ((z1) * (z1))) * ((z0) * (z0) - 2 * ((z1) * (z1))) - 2 * (((z0) * (z1) + (z1) * (z0)) * ((z0) * (z1) + (z1) * (z0)))) * (((z0) * (z0) - 2 * ((z1) * (z1))) * ((z0) * (z0) - 2 * ((z1) * (z1))) - 2 * (((z0) * (z1) + (z1) * (z0)) * ((z0) * (z1) + (z1) * (z0)))) - 2 * ((((z0) * (z0) - 2 * ((z1) * (z1))) * ((z0) * (z1) + (z1) * (z0)) + ((z0) * (z1) + (z1) * (z0)) * ((z0) * (z0) - 2 * ((z1) * (z1)))) * (((z0) * (z0) - 2 * ((z1) * (z1))) * ((z0) * (z1) + (z1) * (z0)) + ((z0) * (z1) + (z1) * (z0)) * ((z0) * (z0) - 2 * ((z1) * (z1)))))) * (((z0) * (z0) - 2 * ((z1) * (z1))) * ((z0) * (z0) - 2 * ((z1) * (z1))) - 2 * (((z0) * (z1) + (z1) * (z0)) * ((z0) * (z1) + (z1) * (z0)))) - 2 * (((((z0) * (z0) - 2 * ((z1) * (z1))) * ((z0) * (z0) - 2 * ((z1) * (z1))) - 2 * (((z0) * (z1) + (z1) * (z0)) * ((z0) * (z1) + (z1) * (z0)))) * (((z0) * (z0) - 2 * ((z1) * (z1))) * ((z0) * (z1) + (z1) * (z0)) + ((z0) * (z1) + (z1) * (z0)) * ((z0) * (z0) - 2 * ((z1) * (z1)))) + (((z0) * (z0) - 2 * ((z1) * (z1))) * ((z0) * (z1) + (z1) * (z0)) + ((z0) * (z1) + (z1) * (z0)) * ((z0) * (z0) - 2 * ((z1) * (z1)))) * (((z0) * (z0) - 2 * ((z1) * (z1))) * ((z0) * (z0) - 2 * ((z1) * (z1))) - 2 * (((z0) * (z1) + (z1) * (z0)) * ((z0) * (z1) + (z1) * (z0))))) * (((z0) * (z0) - 2 * ((z1) * (z1))) * ((z0) * (z1) + (z1) * (z0)) + ((z0) * (z1) + (z1) * (z0)) * ((z0) * (z0) - 2 * ((z1) * (z1)))))) - 2 * ((8 * (((ya0) * (ya0) - 2 * ((ya1) * (ya1))) * ((ya0) * (ya1) + (ya1) * (ya0)) + ((ya0) * (ya1) + (ya1) * (ya0)) * ((ya0) * (ya0) - 2 * ((ya1) * (ya1))))) * (((((z0) * (z0) - 2 * ((z1) * (z1))) * ((z0) * (z0) - 2 * ((z1) * (z1))) - 2 * (((z0) * (z1) + (z1) * (z0)) * ((z0) * (z1) + (z1) * (z0)))) * (((z0) * (z0) - 2 * ((z1) * (z1))) * ((z0) * (z0) - 2 * ((z1) * (z1))) - 2 * (((z0) * (z1) + (z1) * (z0)) * ((z0) * (z1) + (z1) * (z0)))) - 2 * ((((z0) * (z0) - 2 * ((z1) * (z1))) * ((z0) * (z1) + (z1) * (z0)) + ((z0) * (z1) + (z1) * (z0)) * ((z0) * (z0) - 2 * ((z1) * (z1)))) * (((z0) * (z0) - 2 * ((z1) * (z1))) * ((z0) * (z1) + (z1) * (z0)) + ((z0) * (z1) + (z1) * (z0)) * ((z0) * (z0) - 2 * ((z1) * (z1)))))) * (((z0) * (z0) - 2 * ((z1) * (z1))) * ((z0) * (z1) + (z1) * (z0)) + ((z0) * (z1) + (z1) * (z0)) * ((z0) * (z0) - 2 * ((z1) * (z1)))) + ((((z0) * (z0) - 2 * ((z1) * (z1))) * ((z0) * (z0) - 2 * ((z1) * (z1))) - 2 * (((z0) * (z1) + (z1) * (z0)) * ((z0) * (z1) + (z1) * (z0)))) * (((z0) * (z0) - 2 * ((z1) * (z1))) * ((z0) * (z1) + (z1) * (z0)) + ((z0) * (z1) + (z1) * (z0)) * ((z0) * (z0) - 2 * ((z1) * (z1)))) + (((z0) * (z0) - 2 * ((z1) * (z1))) * ((z0) * (z1) + (z1) * (z0)) + ((z0) * (z1) + (z1) * (z0)) * ((z0) * (z0) - 2 * ((z1) * (z1)))) * (((z0) * (z0) - 2 * ((z1) * (z1))) * ((z0) * (z0) - 2 * ((z1) * (z1))) - 2 * (((z0) * (z1) + (z1) * (z0)) * ((z0) * (z1) + (z1) * (z0))))) * (((z0) * (z0) - 2 * ((z1) * (z1))) * ((z0) * (z0) - 2 * ((z1) * (z1))) - 2 * (((z0) * (z1) + (z1) * (z0)) * ((z0) * (z1) + (z1) * (z0))))))
{ }
#[verifier::external_body]
proof fn ring_dF_d_1(ya0: int, ya1: int, z0: int, z1: int)
    ensures 8 * ((((((ya0) * (z0) - 2 * ((ya1) * (z1))) * (z0) - 2 * (((ya0) * (z1) + (ya1) * (z0)) * (z1))) * (z0) - 2 * ((((ya0) * (z0) - 2 * ((ya1) * (z1))) * (z1) + ((ya0) * (z1) + (ya1) * (z0)) * (z0)) * (z1))) * ((((ya0) * (z0) - 2 * ((ya1) * (z1))) * (z0) - 2 * (((ya0) * (z1) + (ya1) * (z0)) * (z1))) * (z0) - 2 * ((((ya0) * (z0) - 2 * ((ya1) * (z1))) * (z1) + ((ya0) * (z1) + (ya1) * (z0)) * (z0)) * (z1))) - 2 * (((((ya0) * (z0) - 2 * ((ya1) * (z1))) * (z0) - 2 * (((ya0) * (z1) + (ya1) * (z0)) * (z1))) * (z1) + (((ya0) * (z0) - 2 * ((ya1) * (z1))) * (z1) + ((ya0) * (z1) + (ya1) * (z0)) * (z0)) * (z0)) * ((((ya0) * (z0) - 2 * ((ya1) * (z1))) * (z0) - 2 * (((ya0) * (z1) + (ya1) * (z0)) * (z1))) * (z1) + (((ya0) * (z0) - 2 * ((ya1) * (z1))) * (z1) + ((ya0) * (z1) + (ya1) * (z0)) * (z0)) * (z0)))) * (((((ya0) * (z0) - 2 * ((ya1) * (z1))) * (z0) - 2 * (((ya0) * (z1) + (ya1) * (z0)) * (z1))) * (z0) - 2 * ((((ya0) * (z0) - 2 * ((ya1) * (z1))) * (z1) + ((ya0) * (z1) + (ya1) * (z0)) * (z0)) * (z1))) * ((((ya0) * (z0) - 2 * ((ya1) * (z1))) * (z0) - 2 * (((ya0) * (z1) + (ya1) * (z0)) * (z1))) * (z1) + (((ya0) * (z0) - 2 * ((ya1) * (z1))) * (z1) + ((ya0) * (z1) + (ya1) * (z0)) * (z0)) * (z0)) + ((((ya0) * (z0) - 2 * ((ya1) * (z1))) * (z0) - 2 * (((ya0) * (z1) + (ya1) * (z0)) * (z1))) * (z1) + (((ya0) * (z0) - 2 * ((ya1) * (z1))) * (z1) + ((ya0) * (z1) + (ya1) * (z0)) * (z0)) * (z0)) * ((((ya0) * (z0) - 2 * ((ya1) * (z1))) * (z0) - 2 * (((ya0) * (z1) + (ya1) * (z0)) * (z1))) * (z0) - 2 * ((((ya0) * (z0) - 2 * ((ya1) * (z1))) * (z1) + ((ya0) * (z1) + (ya1) * (z0)) * (z0)) * (z1)))) + (((((ya0) * (z0) - 2 * ((ya1) * (z1))) * (z0) - 2 * (((ya0) * (z1) + (ya1) * (z0)) * (z1))) * (z0) - 2 * ((((ya0) * (z0) - 2 * ((ya1) * (z1))) * (z1) + ((ya0) * (z1) + (ya1) * (z0)) * (z0)) * (z1))) * ((((ya0) * (z0) - 2 * ((ya1) * (z1))) * (z0) - 2 * (((ya0) * (z1) + (ya1) * (z0)) * (z1))) * (z1) + (((ya0) * (z0) - 2 * ((ya1) * (z1))) * (z1) + ((ya0) * (z1) + (ya1) * (z0)) * (z0)) * (z0)) + ((((ya0) * (z0) - 2 * ((ya1) * (z1))) * (z0) - 2 * (((ya0) * (z1) + (ya1) * (z0)) * (z1))) * (z1) + (((ya0) * (z0) - 2 * ((ya1) * (z1))) * (z1) + ((ya0) * (z1) + (ya1) * (z0)) * (z0)) * (z0)) * ((((ya0) * (z0) - 2 * ((ya1) * (z1))) * (z0) - 2 * (((ya0) * (z1) + (ya1) * (z0)) * (z1))) * (z0) - 2 * ((((ya0) * (z0) - 2 * ((ya1) * (z1))) * (z1) + ((ya0) * (z1) + (ya1) * (z0)) * (z0)) * (z1)))) * (((((ya0) * (z0) - 2 * ((ya1) * (z1))) * (z0) - 2 * (((ya0) * (z1) + (ya1) * (z0)) * (z1))) * (z0) - 2 * ((((ya0) * (z0) - 2 * ((ya1) * (z1))) * (z1) + ((ya0) * (z1) + (ya1) * (z0)) * (z0)) * (z1))) * ((((ya0) * (z0) - 2 * ((ya1) * (z1))) * (z0) - 2 * (((ya0) * (z1) + (ya1) * (z0)) * (z1))) * (z0) - 2 * ((((ya0) * (z0) - 2 * ((ya1) * (z1))) * (z1) + ((ya0) * (z1) + (ya1) * (z0)) * (z0)) * (z1))) - 2 * (((((ya0) * (z0) - 2 * ((ya1) * (z1))) * (z0) - 2 * (((ya0) * (z1) + (ya1) * (z0)) * (z1))) * (z1) + (((ya0) * (z0) - 2 * ((ya1) * (z1))) * (z1) + ((ya0) * (z1) + (ya1) * (z0)) * (z0)) * (z0)) * ((((ya0) * (z0) - 2 * ((ya1) * (z1))) * (z0) - 2 * (((ya0) * (z1) + (ya1) * (z0)) * (z1))) * (z1) + (((ya0) * (z0) - 2 * ((ya1) * (z1))) * (z1) + ((ya0) * (z1) + (ya1) * (z0)) * (z0)) * (z0)))))
        == (8 * (((ya0) * (ya0) - 2 * ((ya1) * (ya1))) * ((ya0) * (ya0) - 2 * ((ya1) * (ya1))) - 2 * (((ya0) * (ya1) + (ya1) * (ya0)) * ((ya0) * (ya1) + (ya1) * (ya0))))) * (((((z0) * (z0) - 2 * ((z1) * (z1))) * ((z0) * (z0) - 2 * ((z1) * (z1))) - 2 * (((z0) * (z1) + (z1) * (z0)) * ((z0) * (z1) + (z1) * (z0)))) * (((z0) * (z0) - 2 * ((z1) * (z1))) * ((z0) * (z0) - 2 * ((z1) * (z1))) - 2 * (((z0) * (z1) + (z1) * (z0)) * ((z0) * (z1) + (z1) * (z0)))) - 2 * ((((z0) * (z0) - 2 * ((z1) * (z1))) * ((z0) * (z1) + (z1) * (z0)) + ((z0) * (z1) + (z1) * (z0)) * ((z0) * (z0) - 2 * ((z1) * (z1)))) * (((z0) * (z0) - 2 * ((z1) * (z1))) * ((z0) * (z1) + (z1) * (z0)) + ((z0) * (z1) + (z1) * (z0)) * ((z0) * (z0) - 2 * ((z1) * (z1)))))) * (((z0) * (z0) - 2 * ((z1) * (z1))) * ((z0) * (z1) + (z1) * (z0)) + ((z0) * (z1) + (z1) * (z0)) * ((z0) * (z0) - 2 * ((z1) * (z1)))) + ((((z0) * (z0) - 2 * ((z1) * (z1))) * ((z0) * (z0) - 2 * ((z1) * (z1))) - 2 * (((z0) * (z1) + (z1) * (z0)) * ((z0) * (z1) + (z1) * (z0)))) * (((z0) * (z0) - 2 * ((z1) * (z1))) * ((z0) * (z1) + (z1) * (z0)) + ((z0) * (z1) + (z1) * (z0)) * ((z0) * (z0) - 2 * ((z1) * (z1)))) + (((z0) * (z0) - 2 * ((z1) * (z1))) * ((z0) * (z1) + (z1) * (z0)) + ((z0) * (z1) + (z1) * (z0)) * ((z0) * (z0) - 2 * ((z1) * (z1)))) * (((z0) * (z0) - 2 * ((z1) * (z1))) * ((z0) * (z0) - 2 * ((z1) * (z1))) - 2 * (((z0) * (z1) + (z1) * (z0)) * ((z0) * (z1) + (z1) * (z0))))) * (((z0) * (z0) - 2 * ((z1) * (z1))) * ((z0) * (z0) - 2 * ((z1) * (z1))) - 2 * (((z0) * (z1) + (z1) * (z0)) * ((z0) * (z1) + (z1) * (z0))))) + (8 * (((ya0) * (ya0) - 2 * ((ya1) * (ya1))) * ((ya0) * (ya1) + (ya1) * (ya0)) + ((ya0) * (ya1) + (ya1) * (ya0)) * ((ya0) * (ya0) - 2 * ((ya1) * (ya1))))) * (((((z0) * (z0) - 2 * ((z1) * (z1))) * ((z0) * (z0) - 2 * ((z1) * (z1))) - 2 * (((z0) * (z1) + (z1) * (z0)) * ((z0) * (z1) + (z1) * (z0)))) * (((z0) * (z0) - 2 * ((z1) * (z1))) * ((z0) * (z0) - 2 * ((z1) * (z1))) - 2 * (((z0) * (z1) + (z1) * (z0)) * ((z0) * (z1) + (z1) * (z0)))) - 2 * ((((z0) * (z0) - 2 * ((z1) * (z1))) * ((z0) * (z1) + (z1) * (z0)) + ((z0) * (z1) + (z1) * (z0)) * ((z0) * (z0) - 2 * ((z1) * (z1)))) * (((z0) * (z0) - 2 * ((z1) * (z1))) * ((z0) * (z1) + (z1) * (z0)) + ((z0) * (z1) + (z1) * (z0)) * ((z0) * (z0) - 2 * ((z1) * (z1)))))) * (((z0) * (z0) - 2 * ((z1) * (z1))) * ((z0) * (z0) - 2 * ((z1) * (z1))) - 2 * (((z0) * (z1) + (z1) * (z0)) * ((z0) * (z1) + (z1) * (z0)))) - 2 * (((((z0) * (z0) - 2 * ((z1) * (z1))) * ((z0) * (z0) - 2 * ((z1) * (z1))) - 2 * (((z0) * (z1) + (z1) * (z0)) * ((z0) * (z1) + (z1) * (z0)))) * (((z0) * (z0) - 2 * ((z1) * (z1))) * ((z0) * (z1) + (z1) * (z0)) + ((z0) * (z1) + (z1) * (z0)) * ((z0) * (z0) - 2 * ((z1) * (z1)))) + (((z0) * (z0) - 2 * ((z1) * (z1))) * ((z0) * (z1) + (z1) * (z0)) + ((z0) * (z1) + (z1) * (z0)) * ((z0) * (z0) - 2 * ((z1) * (z1)))) * (((z0) * (z0) - 2 * ((z1) * (z1))) * ((z0) * (z0) - 2 * ((z1) * (z1))) - 2 * (((z0) * (z1) + (z1) * (z0)) * ((z0) * (z1) + (z1) * (z0))))) * (((z0) * (z0) - 2 * ((z1) * (z1))) * ((z0) * (z1) + (z1) * (z0)) + ((z0) * (z1) + (z1) * (z0)) * ((z0) * (z0) - 2 * ((z1) * (z1))))))
{ }
proof fn qr_dF_z(ya: F2, z: F2)
    ensures q_mul(q_add(q_mul(q_mul(q_mul(ya, z), z), z), q_mul(q_mul(q_mul(ya, z), z), z)), z)
        == q_mul(q_add(ya, ya), q_mul(q_mul(z, z), q_mul(z, z)))
{
    reveal(q_add); reveal(q_sub); reveal(q_mul); reveal(q_k); reveal(q_c);
    ring_dF_z_0(ya.c0, ya.c1, z.c0, z.c1); ring_dF_z_1(ya.c0, ya.c1, z.c0, z.c1);
}
#[verifier::external_body]
proof fn ring_dF_z_0(ya0: int, ya1: int, z0: int, z1: int)
    ensures (((((ya0) * (z0) - 2 * ((ya1) * (z1))) * (z0) - 2 * (((ya0) * (z1) + (ya1) * (z0)) * (z1))) * (z0) - 2 * ((((ya0) * (z0) - 2 * ((ya1) * (z1))) * (z1) + ((ya0) * (z1) + (ya1) * (z0)) * (z0)) * (z1))) + ((((ya0) * (z0) - 2 * ((ya1) * (z1))) * (z0) - 2 * (((ya0) * (z1) + (ya1) * (z0)) * (z1))) * (z0) - 2 * ((((ya0) * (z0) - 2 * ((ya1) * (z1))) * (z1) + ((ya0) * (z1) + (ya1) * (z0)) * (z0)) * (z1)))) * (z0) - 2 * ((((((ya0) * (z0) - 2 * ((ya1) * (z1))) * (z0) - 2 * (((ya0) * (z1) + (ya1) * (z0)) * (z1))) * (z1) + (((ya0) * (z0) - 2 * ((ya1) * (z1))) * (z1) + ((ya0) * (z1) + (ya1) * (z0)) * (z0)) * (z0)) + ((((ya0) * (z0) - 2 * ((ya1) * (z1))) * (z0) - 2 * (((ya0) * (z1) + (ya1) * (z0)) * (z1))) * (z1) + (((ya0) * (z0) - 2 * ((ya1) * (z1))) * (z1) + ((ya0) * (z1) + (ya1) * (z0)) * (z0)) * (z0))) * (z1))
        == ((ya0) + (ya0)) * (((z0) * (z0) - 2 * ((z1) * (z1))) * ((z0) * (z0) - 2 * ((z1) * (z1))) - 2 * (((z0) * (z1) + (z1) * (z0)) * ((z0) * (z1) + (z1) * (z0)))) - 2 * (((ya1) + (ya1)) * (((z0) * (z0) - 2 * ((z1) * (z1))) * ((z0) * (z1) + (z1) * (z0)) + ((z0) * (z1) + (z1) * (z0)) * ((z0) * (z0) - 2 * ((z1) * (z1)))))
{ }
#[verifier::external_body]
proof fn ring_dF_z_1(ya0: int, ya1: int, z0: int, z1: int)
    ensures (((((ya0) * (z0) - 2 * ((ya1) * (z1))) * (z0) - 2 * (((ya0) * (z1) + (ya1) * (z0)) * (z1))) * (z0) - 2 * ((((ya0) * (z0) - 2 * ((ya1) * (z1))) * (z1) + ((ya0) * (z1) + (ya1) * (z0)) * (z0)) * (z1))) + ((((ya0) * (z0) - 2 * ((ya1) * (z1))) * (z0) - 2 * (((ya0) * (z1) + (ya1) * (z0)) * (z1))) * (z0) - 2 * ((((ya0) * (z0) - 2 * ((ya1) * (z1))) * (z1) + ((ya0) * (z1) + (ya1) * (z0)) * (z0)) * (z1)))) * (z1) + (((((ya0) * (z0) - 2 * ((ya1) * (z1))) * (z0) - 2 * (((ya0) * (z1) + (ya1) * (z0)) * (z1))) * (z1) + (((ya0) * (z0) - 2 * ((ya1) * (z1))) * (z1) + ((ya0) * (z1) + (ya1) * (z0)) * (z0)) * (z0)) + ((((ya0) * (z0) - 2 * ((ya1) * (z1))) * (z0) - 2 * (((ya0) * (z1) + (ya1) * (z0)) * (z1))) * (z1) + (((ya0) * (z0) - 2 * ((ya1) * (z1))) * (z1) + ((ya0) * (z1) + (ya1) * (z0)) * (z0)) * (z0))) * (z0)
        == ((ya0) + (ya0)) * (((z0) * (z0) - 2 * ((z1) * (z1))) * ((z0) * (z1) + (z1) * (z0)) + ((z0) * (z1) + (z1) * (z0)) * ((z0) * (z0) - 2 * ((z1) * (z1)))) + ((ya1) + (ya1)) * (((z0) * (z0) - 2 * ((z1) * (z1))) * ((z0) * (z0) - 2 * ((z1) * (z1))) - 2 * (((z0) * (z1) + (z1) * (z0)) * ((z0) * (z1) + (z1) * (z0))))
{ }
proof fn qr_dG_x(Tv: F2, S4v: F2, W: F2)
    ensures q_sub(q_mul(q_mul(Tv, W), q_mul(Tv, W)), q_add(q_mul(S4v, q_mul(W, W)), q_mul(S4v, q_mul(W, W))))
        == q_mul(q_sub(q_mul(Tv, Tv), q_add(S4v, S4v)), q_mul(W, W))
{
    reveal(q_add); reveal(q_sub); reveal(q_mul); reveal(q_k); reveal(q_c);
    ring_dG_x_0(Tv.c0, Tv.c1, S4v.c0, S4v.c1, W.c0, W.c1); ring_dG_x_1(Tv.c0, Tv.c1, S4v.c0, S4v.c1, W.c0, W.c1);
}
#[verifier::external_body]
proof fn ring_dG_x_0(Tv0: int, Tv1: int, S4v0: int, S4v1: int, W0: int, W1: int)
    ensures (((Tv0) * (W0) - 2 * ((Tv1) * (W1))) * ((Tv0) * (W0) - 2 * ((Tv1) * (W1))) - 2 * (((Tv0) * (W1) + (Tv1) * (W0)) * ((Tv0) * (W1) + (Tv1) * (W0)))) - (((S4v0) * ((W0) * (W0) - 2 * ((W1) * (W1))) - 2 * ((S4v1) * ((W0) * (W1) + (W1) * (W0)))) + ((S4v0) * ((W0) * (W0) - 2 * ((W1) * (W1))) - 2 * ((S4v1) * ((W0) * (W1) + (W1) * (W0)))))
        == (((Tv0) * (Tv0) - 2 * ((Tv1) * (Tv1))) - ((S4v0) + (S4v0))) * ((W0) * (W0) - 2 * ((W1) * (W1))) - 2 * ((((Tv0) * (Tv1) + (Tv1) * (Tv0)) - ((S4v1) + (S4v1))) * ((W0) * (W1) + (W1) * (W0)))
{ }
#[verifier::external_body]
proof fn ring_dG_x_1(Tv0: int, Tv1: int, S4v0: int, S4v1: int, W0: int, W1: int)
    ensures (((Tv0) * (W0) - 2 * ((Tv1) * (W1))) * ((Tv0) * (W1) + (Tv1) * (W0)) + ((Tv0) * (W1) + (Tv1) * (W0)) * ((Tv0) * (W0) - 2 * ((Tv1) * (W1)))) - (((S4v0) * ((W0) * (W1) + (W1) * (W0)) + (S4v1) * ((W0) * (W0) - 2 * ((W1) * (W1)))) + ((S4v0) * ((W0) * (W1) + (W1) * (W0)) + (S4v1) * ((W0) * (W0) - 2 * ((W1) * (W1)))))
        == (((Tv0) * (Tv0) - 2 * ((Tv1) * (Tv1))) - ((S4v0) + (S4v0))) * ((W0) * (W1) + (W1) * (W0)) + (((Tv0) * (Tv1) + (Tv1) * (Tv0)) - ((S4v1) + (S4v1))) * ((W0) * (W0) - 2 * ((W1) * (W1)))
{ }
proof fn qr_dG_y(Tv: F2, S4v: F2, x3nv: F2, D8v: F2, W: F2)
    ensures q_sub(q_mul(q_sub(q_mul(S4v, q_mul(W, W)), q_mul(x3nv, q_mul(W, W))), q_mul(Tv, W)), q_mul(D8v, q_mul(q_mul(W, W), W)))
        == q_mul(q_sub(q_mul(Tv, q_sub(S4v, x3nv)), D8v), q_mul(q_mul(W, W), W))
{
    reveal(q_add); reveal(q_sub); reveal(q_mul); reveal(q_k); reveal(q_c);
    ring_dG_y_0(Tv.c0, Tv.c1, S4v.c0, S4v.c1, x3nv.c0, x3nv.c1, D8v.c0, D8v.c1, W.c0, W.c1); ring_dG_y_1(Tv.c0, Tv.c1, S4v.c0, S4v.c1, x3nv.c0, x3nv.c1, D8v.c0, D8v.c1, W.c0, W.c1);
}
#[verifier::external_body]
proof fn ring_dG_y_0(Tv0: int, Tv1: int, S4v0: int, S4v1: int, x3nv0: int, x3nv1: int, D8v0: int, D8v1: int, W0: int, W1: int)
    ensures ((((S4v0) * ((W0) * (W0) - 2 * ((W1) * (W1))) - 2 * ((S4v1) * ((W0) * (W1) + (W1) * (W0)))) - ((x3nv0) * ((W0) * (W0) - 2 * ((W1) * (W1))) - 2 * ((x3nv1) * ((W0) * (W1) + (W1) * (W0))))) * ((Tv0) * (W0) - 2 * ((Tv1) * (W1))) - 2 * ((((S4v0) * ((W0) * (W1) + (W1) * (W0)) + (S4v1) * ((W0) * (W0) - 2 * ((W1) * (W1)))) - ((x3nv0) * ((W0) * (W1) + (W1) * (W0)) + (x3nv1) * ((W0) * (W0) - 2 * ((W1) * (W1))))) * ((Tv0) * (W1) + (Tv1) * (W0)))) - ((D8v0) * (((W0) * (W0) - 2 * ((W1) * (W1))) * (W0) - 2 * (((W0) * (W1) + (W1) * (W0)) * (W1))) - 2 * ((D8v1) * (((W0) * (W0) - 2 * ((W1) * (W1))) * (W1) + ((W0) * (W1) + (W1) * (W0)) * (W0))))
        == (((Tv0) * ((S4v0) - (x3nv0)) - 2 * ((Tv1) * ((S4v1) - (x3nv1)))) - (D8v0)) * (((W0) * (W0) - 2 * ((W1) * (W1))) * (W0) - 2 * (((W0) * (W1) + (W1) * (W0)) * (W1))) - 2 * ((((Tv0) * ((S4v1) - (x3nv1)) + (Tv1) * ((S4v0) - (x3nv0))) - (D8v1)) * (((W0) * (W0) - 2 * ((W1) * (W1))) * (W1) + ((W0) * (W1) + (W1) * (W0)) * (W0)))
{ }
#[verifier::external_body]
proof fn ring_dG_y_1(Tv0: int, Tv1: int, S4v0: int, S4v1: int, x3nv0: int, x3nv1: int, D8v0: int, D8v1: int, W0: int, W1: int)
    ensures ((((S4v0) * ((W0) * (W0) - 2 * ((W1) * (W1))) - 2 * ((S4v1) * ((W0) * (W1) + (W1) * (W0)))) - ((x3nv0) * ((W0) * (W0) - 2 * ((W1) * (W1))) - 2 * ((x3nv1) * ((W0) * (W1) + (W1) * (W0))))) * ((Tv0) * (W1) + (Tv1) * (W0)) + (((S4v0) * ((W0) * (W1) + (W1) * (W0)) + (S4v1) * ((W0) * (W0) - 2 * ((W1) * (W1)))) - ((x3nv0) * ((W0) * (W1) + (W1) * (W0)) + (x3nv1) * ((W0) * (W0) - 2 * ((W1) * (W1))))) * ((Tv0) * (W0) - 2 * ((Tv1) * (W1)))) - ((D8v0) * (((W0) * (W0) - 2 * ((W1) * (W1))) * (W1) + ((W0) * (W1) + (W1) * (W0)) * (W0)) + (D8v1) * (((W0) * (W0) - 2 * ((W1) * (W1))) * (W0) - 2 * (((W0) * (W1) + (W1) * (W0)) * (W1))))
        == (((Tv0) * ((S4v0) - (x3nv0)) - 2 * ((Tv1) * ((S4v1) - (x3nv1)))) - (D8v0)) * (((W0) * (W0) - 2 * ((W1) * (W1))) * (W1) + ((W0) * (W1) + (W1) * (W0)) * (W0)) + (((Tv0) * ((S4v1) - (x3nv1)) + (Tv1) * ((S4v0) - (x3nv0))) - (D8v1)) * (((W0) * (W0) - 2 * ((W1) * (W1))) * (W0) - 2 * (((W0) * (W1) + (W1) * (W0)) * (W1)))
{ }
// twist_point_add_full, both operands finite: the cross-multiplied coordinates and their differences
spec fn af1_rel(X1: F2, Y1: F2, Z1: F2, X2: F2, Y2: F2, Z2: F2, t1: F2, t2: F2, u2: F2, u1: F2, t5: F2, h: F2, t1c: F2, s2: F2, t2c: F2, s1: F2, t6: F2, r: F2) -> bool {
    t1 == m2_mul(Z1, Z1)
    && t2 == m2_mul(Z2, Z2)
    && u2 == m2_mul(X2, t1)
    && u1 == m2_mul(X1, t2)
    && t5 == m2_add(u2, u1)
    && h == m2_sub(u2, u1)
    && t1c == m2_mul(t1, Z1)
    && s2 == m2_mul(t1c, Y2)
    && t2c == m2_mul(t2, Z2)
    && s1 == m2_mul(t2c, Y1)
    && t6 == m2_add(s2, s1)
    && r == m2_sub(s2, s1)
}
proof fn af1_chain(X1: F2, Y1: F2, Z1: F2, X2: F2, Y2: F2, Z2: F2, t1: F2, t2: F2, u2: F2, u1: F2, t5: F2, h: F2, t1c: F2, s2: F2, t2c: F2, s1: F2, t6: F2, r: F2, X1p: F2, Y1p: F2, Z1p: F2, X2p: F2, Y2p: F2, Z2p: F2)
    requires af1_rel(X1, Y1, Z1, X2, Y2, Z2, t1, t2, u2, u1, t5, h, t1c, s2, t2c, s1, t6, r),
        qc(X1, X1p),
        qc(Y1, Y1p),
        qc(Z1, Z1p),
        qc(X2, X2p),
        qc(Y2, Y2p),
        qc(Z2, Z2p)
    ensures qc(u1, q_mul(X1p, q_mul(Z2p, Z2p))),
        qc(u2, q_mul(X2p, q_mul(Z1p, Z1p))),
        qc(s1, q_mul(q_mul(q_mul(Z2p, Z2p), Z2p), Y1p)),
        qc(s2, q_mul(q_mul(q_mul(Z1p, Z1p), Z1p), Y2p)),
        qc(t5, q_add(q_mul(X2p, q_mul(Z1p, Z1p)), q_mul(X1p, q_mul(Z2p, Z2p)))),
        qc(h, q_sub(q_mul(X2p, q_mul(Z1p, Z1p)), q_mul(X1p, q_mul(Z2p, Z2p)))),
        qc(t6, q_add(q_mul(q_mul(q_mul(Z1p, Z1p), Z1p), Y2p), q_mul(q_mul(q_mul(Z2p, Z2p), Z2p), Y1p))),
        qc(r, q_sub(q_mul(q_mul(q_mul(Z1p, Z1p), Z1p), Y2p), q_mul(q_mul(q_mul(Z2p, Z2p), Z2p), Y1p))),
        m2_ok(u1),
        m2_ok(u2),
        m2_ok(s1),
        m2_ok(s2),
        m2_ok(t5),
        m2_ok(h),
        m2_ok(t6),
        m2_ok(r)
{
    t2_cm(t1, Z1, Z1, Z1p, Z1p);
    t2_cm(t2, Z2, Z2, Z2p, Z2p);
    t2_cm(u2, X2, t1, X2p, q_mul(Z1p, Z1p));
    t2_cm(u1, X1, t2, X1p, q_mul(Z2p, Z2p));
    t2_ca(t5, u2, u1, q_mul(X2p, q_mul(Z1p, Z1p)), q_mul(X1p, q_mul(Z2p, Z2p)));
    t2_cs(h, u2, u1, q_mul(X2p, q_mul(Z1p, Z1p)), q_mul(X1p, q_mul(Z2p, Z2p)));
    t2_cm(t1c, t1, Z1, q_mul(Z1p, Z1p), Z1p);
    t2_cm(s2, t1c, Y2, q_mul(q_mul(Z1p, Z1p), Z1p), Y2p);
    t2_cm(t2c, t2, Z2, q_mul(Z2p, Z2p), Z2p);
    t2_cm(s1, t2c, Y1, q_mul(q_mul(Z2p, Z2p), Z2p), Y1p);
    t2_ca(t6, s2, s1, q_mul(q_mul(q_mul(Z1p, Z1p), Z1p), Y2p), q_mul(q_mul(q_mul(Z2p, Z2p), Z2p), Y1p));
    t2_cs(r, s2, s1, q_mul(q_mul(q_mul(Z1p, Z1p), Z1p), Y2p), q_mul(q_mul(q_mul(Z2p, Z2p), Z2p), Y1p));
}
proof fn qr_af_u1(x1: F2, z1: F2, z2: F2)
    ensures q_mul(q_mul(q_mul(x1, z1), z1), q_mul(z2, z2))
        == q_mul(x1, q_mul(q_mul(z1, z2), q_mul(z1, z2)))
{
    reveal(q_add); reveal(q_sub); reveal(q_mul); reveal(q_k); reveal(q_c);
    ring_af_u1_0(x1.c0, x1.c1, z1.c0, z1.c1, z2.c0, z2.c1); ring_af_u1_1(x1.c0, x1.c1, z1.c0, z1.c1, z2.c0, z2.c1);
}
#[verifier::external_body]
proof fn ring_af_u1_0(x10: int, x11: int, z10: int, z11: int, z20: int, z21: int)
    ensures (((x10) * (z10) - 2 * ((x11) * (z11))) * (z10) - 2 * (((x10) * (z11) + (x11) * (z10)) * (z11))) * ((z20) * (z20) - 2 * ((z21) * (z21))) - 2 * ((((x10) * (z10) - 2 * ((x11) * (z11))) * (z11) + ((x10) * (z11) + (x11) * (z10)) * (z10)) * ((z20) * (z21) + (z21) * (z20)))
        == (x10) * (((z10) * (z20) - 2 * ((z11) * (z21))) * ((z10) * (z20) - 2 * ((z11) * (z21))) - 2 * (((z10) * (z21) + (z11) * (z20)) * ((z10) * (z21) + (z11) * (z20)))) - 2 * ((x11) * (((z10) * (z20) - 2 * ((z11) * (z21))) * ((z10) * (z21) + (z11) * (z20)) + ((z10) * (z21) + (z11) * (z20)) * ((z10) * (z20) - 2 * ((z11) * (z21)))))
{ }
#[verifier::external_body]
proof fn ring_af_u1_1(x10: int, x11: int, z10: int, z11: int, z20: int, z21: int)
    ensures (((x10) * (z10) - 2 * ((x11) * (z11))) * (z10) - 2 * (((x10) * (z11) + (x11) * (z10)) * (z11))) * ((z20) * (z21) + (z21) * (z20)) + (((x10) * (z10) - 2 * ((x11) * (z11))) * (z11) + ((x10) * (z11) + (x11) * (z10)) * (z10)) * ((z20) * (z20) - 2 * ((z21) * (z21)))
        == (x10) * (((z10) * (z20) - 2 * ((z11) * (z21))) * ((z10) * (z21) + (z11) * (z20)) + ((z10) * (z21) + (z11) * (z20)) * ((z10) * (z20) - 2 * ((z11) * (z21)))) + (x11) * (((z10) * (z20) - 2 * ((z11) * (z21))) * ((z10) * (z20) - 2 * ((z11) * (z21))) - 2 * (((z10) * (z21) + (z11) * (z20)) * ((z10) * (z21) + (z11) * (z20))))
{ }
proof fn qr_af_u2(x2: F2, z1: F2, z2: F2)
    ensures q_mul(q_mul(q_mul(x2, z2), z2), q_mul(z1, z1))
        == q_mul(x2, q_mul(q_mul(z1, z2), q_mul(z1, z2)))
{
    reveal(q_add); reveal(q_sub); reveal(q_mul); reveal(q_k); reveal(q_c);
    ring_af_u2_0(x2.c0, x2.c1, z1.c0, z1.c1, z2.c0, z2.c1); ring_af_u2_1(x2.c0, x2.c1, z1.c0, z1.c1, z2.c0, z2.c1);
}
#[verifier::external_body]
proof fn ring_af_u2_0(x20: int, x21: int, z10: int, z11: int, z20: int, z21: int)
    ensures (((x20) * (z20) - 2 * ((x21) * (z21))) * (z20) - 2 * (((x20) * (z21) + (x21) * (z20)) * (z21))) * ((z10) * (z10) - 2 * ((z11) * (z11))) - 2 * ((((x20) * (z20) - 2 * ((x21) * (z21))) * (z21) + ((x20) * (z21) + (x21) * (z20)) * (z20)) * ((z10) * (z11) + (z11) * (z10)))
        == (x20) * (((z10) * (z20) - 2 * ((z11) * (z21))) * ((z10) * (z20) - 2 * ((z11) * (z21))) - 2 * (((z10) * (z21) + (z11) * (z20)) * ((z10) * (z21) + (z11) * (z20)))) - 2 * ((x21) * (((z10) * (z20) - 2 * ((z11) * (z21))) * ((z10) * (z21) + (z11) * (z20)) + ((z10) * (z21) + (z11) * (z20)) * ((z10) * (z20) - 2 * ((z11) * (z21)))))
{ }
#[verifier::external_body]
proof fn ring_af_u2_1(x20: int, x21: int, z10: int, z11: int, z20: int, z21: int)
    ensures (((x20) * (z20) - 2 * ((x21) * (z21))) * (z20) - 2 * (((x20) * (z21) + (x21) * (z20)) * (z21))) * ((z10) * (z11) + (z11) * (z10)) + (((x20) * (z20) - 2 * ((x21) * (z21))) * (z21) + ((x20) * (z21) + (x21) * (z20)) * (z20)) * ((z10) * (z10) - 2 * ((z11) * (z11)))
        == (x20) * (((z10) * (z20) - 2 * ((z11) * (z21))) * ((z10) * (z21) + (z11) * (z20)) + ((z10) * (z21) + (z11) * (z20)) * ((z10) * (z20) - 2 * ((z11) * (z21)))) + (x21) * (((z10) * (z20) - 2 * ((z11) * (z21))) * ((z10) * (z20) - 2 * ((z11) * (z21))) - 2 * (((z10) * (z21) + (z11) * (z20)) * ((z10) * (z21) + (z11) * (z20))))
{ }
proof fn qr_af_s1(y1: F2, z1: F2, z2: F2)
    ensures q_mul(q_mul(q_mul(z2, z2), z2), q_mul(q_mul(q_mul(y1, z1), z1), z1))
        == q_mul(y1, q_mul(q_mul(q_mul(z1, z2), q_mul(z1, z2)), q_mul(z1, z2)))
{
    reveal(q_add); reveal(q_sub); reveal(q_mul); reveal(q_k); reveal(q_c);
    ring_af_s1_0(y1.c0, y1.c1, z1.c0, z1.c1, z2.c0, z2.c1); ring_af_s1_1(y1.c0, y1.c1, z1.c0, z1.c1, z2.c0, z2.c1);
}
#[verifier::external_body]
proof fn ring_af_s1_0(y10: int, y11: int, z10: int, z11: int, z20: int, z21: int)
    ensures (((z20) * (z20) - 2 * ((z21) * (z21))) * (z20) - 2 * (((z20) * (z21) + (z21) * (z20)) * (z21))) * ((((y10) * (z10) - 2 * ((y11) * (z11))) * (z10) - 2 * (((y10) * (z11) + (y11) * (z10)) * (z11))) * (z10) - 2 * ((((y10) * (z10) - 2 * ((y11) * (z11))) * (z11) + ((y10) * (z11) + (y11) * (z10)) * (z10)) * (z11))) - 2 * ((((z20) * (z20) - 2 * ((z21) * (z21))) * (z21) + ((z20) * (z21) + (z21) * (z20)) * (z20)) * ((((y10) * (z10) - 2 * ((y11) * (z11))) * (z10) - 2 * (((y10) * (z11) + (y11) * (z10)) * (z11))) * (z11) + (((y10) * (z10) - 2 * ((y11) * (z11))) * (z11) + ((y10) * (z11) + (y11) * (z10)) * (z10)) * (z10)))
        == (y10) * ((((z10) * (z20) - 2 * ((z11) * (z21))) * ((z10) * (z20) - 2 * ((z11) * (z21))) - 2 * (((z10) * (z21) + (z11) * (z20)) * ((z10) * (z21) + (z11) * (z20)))) * ((z10) * (z20) - 2 * ((z11) * (z21))) - 2 * ((((z10) * (z20) - 2 * ((z11) * (z21))) * ((z10) * (z21) + (z11) * (z20)) + ((z10) * (z21) + (z11) * (z20)) * ((z10) * (z20) - 2 * ((z11) * (z21)))) * ((z10) * (z21) + (z11) * (z20)))) - 2 * ((y11) * ((((z10) * (z20) - 2 * ((z11) * (z21))) * ((z10) * (z20) - 2 * ((z11) * (z21))) - 2 * (((z10) * (z21) + (z11) * (z20)) * ((z10) * (z21) + (z11) * (z20)))) * ((z10) * (z21) + (z11) * (z20)) + (((z10) * (z20) - 2 * ((z11) * (z21))) * ((z10) * (z21) + (z11) * (z20)) + ((z10) * (z21) + (z11) * (z20)) * ((z10) * (z20) - 2 * ((z11) * (z21)))) * ((z10) * (z20) - 2 * ((z11) * (z21)))))
{ }
#[verifier::external_body]
proof fn ring_af_s1_1(y10: int, y11: int, z10: int, z11: int, z20: int, z21: int)
    ensures (((z20) * (z20) - 2 * ((z21) * (z21))) * (z20) - 2 * (((z20) * (z21) + (z21) * (z20)) * (z21))) * ((((y10) * (z10) - 2 * ((y11) * (z11))) * (z10) - 2 * (((y10) * (z11) + (y11) * (z10)) * (z11))) * (z11) + (((y10) * (z10) - 2 * ((y11) * (z11))) * (z11) + ((y10) * (z11) + (y11) * (z10)) * (z10)) * (z10)) + (((z20) * (z20) - 2 * ((z21) * (z21))) * (z21) + ((z20) * (z21) + (z21) * (z20)) * (z20)) * ((((y10) * (z10) - 2 * ((y11) * (z11))) * (z10) - 2 * (((y10) * (z11) + (y11) * (z10)) * (z11))) * (z10) - 2 * ((((y10) * (z10) - 2 * ((y11) * (z11))) * (z11) + ((y10) * (z11) + (y11) * (z10)) * (z10)) * (z11)))
        == (y10) * ((((z10) * (z20) - 2 * ((z11) * (z21))) * ((z10) * (z20) - 2 * ((z11) * (z21))) - 2 * (((z10) * (z21) + (z11) * (z20)) * ((z10) * (z21) + (z11) * (z20)))) * ((z10) * (z21) + (z11) * (z20)) + (((z10) * (z20) - 2 * ((z11) * (z21))) * ((z10) * (z21) + (z11) * (z20)) + ((z10) * (z21) + (z11) * (z20)) * ((z10) * (z20) - 2 * ((z11) * (z21)))) * ((z10) * (z20) - 2 * ((z11) * (z21)))) + (y11) * ((((z10) * (z20) - 2 * ((z11) * (z21))) * ((z10) * (z20) - 2 * ((z11) * (z21))) - 2 * (((z10) * (z21) + (z11) * (z20)) * ((z10) * (z21) + (z11) * (z20)))) * ((z10) * (z20) - 2 * ((z11) * (z21))) - 2 * ((((z10) * (z20) - 2 * ((z11) * (z21))) * ((z10) * (z21) + (z11) * (z20)) + ((z10) * (z21) + (z11) * (z20)) * ((z10) * (z20) - 2 * ((z11) * (z21)))) * ((z10) * (z21) + (z11) * (z20))))
{ }
proof fn qr_af_s2(y2: F2, z1: F2, z2: F2)
    ensures q_mul(q_mul(q_mul(z1, z1), z1), q_mul(q_mul(q_mul(y2, z2), z2), z2))
        == q_mul(y2, q_mul(q_mul(q_mul(z1, z2), q_mul(z1, z2)), q_mul(z1, z2)))
{
    reveal(q_add); reveal(q_sub); reveal(q_mul); reveal(q_k); reveal(q_c);
    ring_af_s2_0(y2.c0, y2.c1, z1.c0, z1.c1, z2.c0, z2.c1); ring_af_s2_1(y2.c0, y2.c1, z1.c0, z1.c1, z2.c0, z2.c1);
}
#[verifier::external_body]
proof fn ring_af_s2_0(y20: int, y21: int, z10: int, z11: int, z20: int, z21: int)
    ensures (((z10) * (z10) - 2 * ((z11) * (z11))) * (z10) - 2 * (((z10) * (z11) + (z11) * (z10)) * (z11))) * ((((y20) * (z20) - 2 * ((y21) * (z21))) * (z20) - 2 * (((y20) * (z21) + (y21) * (z20)) * (z21))) * (z20) - 2 * ((((y20) * (z20) - 2 * ((y21) * (z21))) * (z21) + ((y20) * (z21) + (y21) * (z20)) * (z20)) * (z21))) - 2 * ((((z10) * (z10) - 2 * ((z11) * (z11))) * (z11) + ((z10) * (z11) + (z11) * (z10)) * (z10)) * ((((y20) * (z20) - 2 * ((y21) * (z21))) * (z20) - 2 * (((y20) * (z21) + (y21) * (z20)) * (z21))) * (z21) + (((y20) * (z20) - 2 * ((y21) * (z21))) * (z21) + ((y20) * (z21) + (y21) * (z20)) * (z20)) * (z20)))
        == (y20) * ((((z10) * (z20) - 2 * ((z11) * (z21))) * ((z10) * (z20) - 2 * ((z11) * (z21))) - 2 * (((z10) * (z21) + (z11) * (z20)) * ((z10) * (z21) + (z11) * (z20)))) * ((z10) * (z20) - 2 * ((z11) * (z21))) - 2 * ((((z10) * (z20) - 2 * ((z11) * (z21))) * ((z10) * (z21) + (z11) * (z20)) + ((z10) * (z21) + (z11) * (z20)) * ((z10) * (z20) - 2 * ((z11) * (z21)))) * ((z10) * (z21) + (z11) * (z20)))) - 2 * ((y21) * ((((z10) * (z20) - 2 * ((z11) * (z21))) * ((z10) * (z20) - 2 * ((z11) * (z21))) - 2 * (((z10) * (z21) + (z11) * (z20)) * ((z10) * (z21) + (z11) * (z20)))) * ((z10) * (z21) + (z11) * (z20)) + (((z10) * (z20) - 2 * ((z11) * (z21))) * ((z10) * (z21) + (z11) * (z20)) + ((z10) * (z21) + (z11) * (z20)) * ((z10) * (z20) - 2 * ((z11) * (z21)))) * ((z10) * (z20) - 2 * ((z11) * (z21)))))
{ }
#[verifier::external_body]
proof fn ring_af_s2_1(y20: int, y21: int, z10: int, z11: int, z20: int, z21: int)
    ensures (((z10) * (z10) - 2 * ((z11) * (z11))) * (z10) - 2 * (((z10) * (z11) + (z11) * (z10)) * (z11))) * ((((y20) * (z20) - 2 * ((y21) * (z21))) * (z20) - 2 * (((y20) * (z21) + (y21) * (z20)) * (z21))) * (z21) + (((y20) * (z20) - 2 * ((y21) * (z21))) * (z21) + ((y20) * (z21) + (y21) * (z20)) * (z20)) * (z20)) + (((z10) * (z10) - 2 * ((z11) * (z11))) * (z11) + ((z10) * (z11) + (z11) * (z10)) * (z10)) * ((((y20) * (z20) - 2 * ((y21) * (z21))) * (z20) - 2 * (((y20) * (z21) + (y21) * (z20)) * (z21))) * (z20) - 2 * ((((y20) * (z20) - 2 * ((y21) * (z21))) * (z21) + ((y20) * (z21) + (y21) * (z20)) * (z20)) * (z21)))
        == (y20) * ((((z10) * (z20) - 2 * ((z11) * (z21))) * ((z10) * (z20) - 2 * ((z11) * (z21))) - 2 * (((z10) * (z21) + (z11) * (z20)) * ((z10) * (z21) + (z11) * (z20)))) * ((z10) * (z21) + (z11) * (z20)) + (((z10) * (z20) - 2 * ((z11) * (z21))) * ((z10) * (z21) + (z11) * (z20)) + ((z10) * (z21) + (z11) * (z20)) * ((z10) * (z20) - 2 * ((z11) * (z21)))) * ((z10) * (z20) - 2 * ((z11) * (z21)))) + (y21) * ((((z10) * (z20) - 2 * ((z11) * (z21))) * ((z10) * (z20) - 2 * ((z11) * (z21))) - 2 * (((z10) * (z21) + (z11) * (z20)) * ((z10) * (z21) + (z11) * (z20)))) * ((z10) * (z20) - 2 * ((z11) * (z21))) - 2 * ((((z10) * (z20) - 2 * ((z11) * (z21))) * ((z10) * (z21) + (z11) * (z20)) + ((z10) * (z21) + (z11) * (z20)) * ((z10) * (z20) - 2 * ((z11) * (z21)))) * ((z10) * (z21) + (z11) * (z20))))
{ }
// twist_point_add_full: the generic branch
spec fn af2_rel(u1: F2, s1: F2, t5: F2, h: F2, r: F2, Z1: F2, Z2: F2, r2: F2, t7a: F2, z3: F2, h2: F2, t5b: F2, h3: F2, v: F2, x3: F2, t4b: F2, y3a: F2, s1h: F2, y3: F2) -> bool {
    r2 == m2_mul(r, r)
    && t7a == m2_mul(h, Z1)
    && z3 == m2_mul(t7a, Z2)
    && h2 == m2_mul(h, h)
    && t5b == m2_mul(t5, h2)
    && h3 == m2_mul(h, h2)
    && v == m2_mul(u1, h2)
    && x3 == m2_sub(r2, t5b)
    && t4b == m2_sub(v, x3)
    && y3a == m2_mul(r, t4b)
    && s1h == m2_mul(s1, h3)
    && y3 == m2_sub(y3a, s1h)
}
proof fn af2_chain(u1: F2, s1: F2, t5: F2, h: F2, r: F2, Z1: F2, Z2: F2, r2: F2, t7a: F2, z3: F2, h2: F2, t5b: F2, h3: F2, v: F2, x3: F2, t4b: F2, y3a: F2, s1h: F2, y3: F2, u1p: F2, s1p: F2, t5p: F2, hp: F2, rp: F2, Z1p: F2, Z2p: F2)
    requires af2_rel(u1, s1, t5, h, r, Z1, Z2, r2, t7a, z3, h2, t5b, h3, v, x3, t4b, y3a, s1h, y3),
        qc(u1, u1p),
        qc(s1, s1p),
        qc(t5, t5p),
        qc(h, hp),
        qc(r, rp),
        qc(Z1, Z1p),
        qc(Z2, Z2p)
    ensures qc(x3, q_sub(q_mul(rp, rp), q_mul(t5p, q_mul(hp, hp)))),
        qc(y3, q_sub(q_mul(rp, q_sub(q_mul(u1p, q_mul(hp, hp)), q_sub(q_mul(rp, rp), q_mul(t5p, q_mul(hp, hp))))), q_mul(s1p, q_mul(hp, q_mul(hp, hp))))),
        qc(z3, q_mul(q_mul(hp, Z1p), Z2p)),
        m2_ok(x3),
        m2_ok(y3),
        m2_ok(z3)
{
    t2_cm(r2, r, r, rp, rp);
    t2_cm(t7a, h, Z1, hp, Z1p);
    t2_cm(z3, t7a, Z2, q_mul(hp, Z1p), Z2p);
    t2_cm(h2, h, h, hp, hp);
    t2_cm(t5b, t5, h2, t5p, q_mul(hp, hp));
    t2_cm(h3, h, h2, hp, q_mul(hp, hp));
    t2_cm(v, u1, h2, u1p, q_mul(hp, hp));
    t2_cs(x3, r2, t5b, q_mul(rp, rp), q_mul(t5p, q_mul(hp, hp)));
    t2_cs(t4b, v, x3, q_mul(u1p, q_mul(hp, hp)), q_sub(q_mul(rp, rp), q_mul(t5p, q_mul(hp, hp))));
    t2_cm(y3a, r, t4b, rp, q_sub(q_mul(u1p, q_mul(hp, hp)), q_sub(q_mul(rp, rp), q_mul(t5p, q_mul(hp, hp)))));
    t2_cm(s1h, s1, h3, s1p, q_mul(hp, q_mul(hp, hp)));
    t2_cs(y3, y3a, s1h, q_mul(rp, q_sub(q_mul(u1p, q_mul(hp, hp)), q_sub(q_mul(rp, rp), q_mul(t5p, q_mul(hp, hp))))), q_mul(s1p, q_mul(hp, q_mul(hp, hp))));
}
proof fn qr_af_z(dxv: F2, z1: F2, z2: F2)
    ensures q_mul(q_mul(q_mul(dxv, q_mul(q_mul(z1, z2), q_mul(z1, z2))), z1), z2)
        == q_mul(dxv, q_mul(q_mul(q_mul(z1, z2), q_mul(z1, z2)), q_mul(z1, z2)))
{
    reveal(q_add); reveal(q_sub); reveal(q_mul); reveal(q_k); reveal(q_c);
    ring_af_z_0(dxv.c0, dxv.c1, z1.c0, z1.c1, z2.c0, z2.c1); ring_af_z_1(dxv.c0, dxv.c1, z1.c0, z1.c1, z2.c0, z2.c1);
}
#[verifier::external_body]
proof fn ring_af_z_0(dxv0: int, dxv1: int, z10: int, z11: int, z20: int, z21: int)
    ensures (((dxv0) * (((z10) * (z20) - 2 * ((z11) * (z21))) * ((z10) * (z20) - 2 * ((z11) * (z21))) - 2 * (((z10) * (z21) + (z11) * (z20)) * ((z10) * (z21) + (z11) * (z20)))) - 2 * ((dxv1) * (((z10) * (z20) - 2 * ((z11) * (z21))) * ((z10) * (z21) + (z11) * (z20)) + ((z10) * (z21) + (z11) * (z20)) * ((z10) * (z20) - 2 * ((z11) * (z21)))))) * (z10) - 2 * (((dxv0) * (((z10) * (z20) - 2 * ((z11) * (z21))) * ((z10) * (z21) + (z11) * (z20)) + ((z10) * (z21) + (z11) * (z20)) * ((z10) * (z20) - 2 * ((z11) * (z21)))) + (dxv1) * (((z10) * (z20) - 2 * ((z11) * (z21))) * ((z10) * (z20) - 2 * ((z11) * (z21))) - 2 * (((z10) * (z21) + (z11) * (z20)) * ((z10) * (z21) + (z11) * (z20))))) * (z11))) * (z20) - 2 * ((((dxv0) * (((z10) * (z20) - 2 * ((z11) * (z21))) * ((z10) * (z20) - 2 * ((z11) * (z21))) - 2 * (((z10) * (z21) + (z11) * (z20)) * ((z10) * (z21) + (z11) * (z20)))) - 2 * ((dxv1) * (((z10) * (z20) - 2 * ((z11) * (z21))) * ((z10) * (z21) + (z11) * (z20)) + ((z10) * (z21) + (z11) * (z20)) * ((z10) * (z20) - 2 * ((z11) * (z21)))))) * (z11) + ((dxv0) * (((z10) * (z20) - 2 * ((z11) * (z21))) * ((z10) * (z21) + (z11) * (z20)) + ((z10) * (z21) + (z11) * (z20)) * ((z10) * (z20) - 2 * ((z11) * (z21)))) + (dxv1) * (((z10) * (z20) - 2 * ((z11) * (z21))) * ((z10) * (z20) - 2 * ((z11) * (z21))) - 2 * (((z10) * (z21) + (z11) * (z20)) * ((z10) * (z21) + (z11) * (z20))))) * (z10)) * (z21))
        == (dxv0) * ((((z10) * (z20) - 2 * ((z11) * (z21))) * ((z10) * (z20) - 2 * ((z11) * (z21))) - 2 * (((z10) * (z21) + (z11) * (z20)) * ((z10) * (z21) + (z11) * (z20)))) * ((z10) * (z20) - 2 * ((z11) * (z21))) - 2 * ((((z10) * (z20) - 2 * ((z11) * (z21))) * ((z10) * (z21) + (z11) * (z20)) + ((z10) * (z21) + (z11) * (z20)) * ((z10) * (z20) - 2 * ((z11) * (z21)))) * ((z10) * (z21) + (z11) * (z20)))) - 2 * ((dxv1) * ((((z10) * (z20) - 2 * ((z11) * (z21))) * ((z10) * (z20) - 2 * ((z11) * (z21))) - 2 * (((z10) * (z21) + (z11) * (z20)) * ((z10) * (z21) + (z11) * (z20)))) * ((z10) * (z21) + (z11) * (z20)) + (((z10) * (z20) - 2 * ((z11) * (z21))) * ((z10) * (z21) + (z11) * (z20)) + ((z10) * (z21) + (z11) * (z20)) * ((z10) * (z20) - 2 * ((z11) * (z21)))) * ((z10) * (z20) - 2 * ((z11) * (z21)))))
{ }
#[verifier::external_body]
proof fn ring_af_z_1(dxv0: int, dxv1: int, z10: int, z11: int, z20: int, z21: int)
    ensures (((dxv0) * (((z10) * (z20) - 2 * ((z11) * (z21))) * ((z10) * (z20) - 2 * ((z11) * (z21))) - 2 * (((z10) * (z21) + (z11) * (z20)) * ((z10) * (z21) + (z11) * (z20)))) - 2 * ((dxv1) * (((z10) * (z20) - 2 * ((z11) * (z21))) * ((z10) * (z21) + (z11) * (z20)) + ((z10) * (z21) + (z11) * (z20)) * ((z10) * (z20) - 2 * ((z11) * (z21)))))) * (z10) - 2 * (((dxv0) * (((z10) * (z20) - 2 * ((z11) * (z21))) * ((z10) * (z21) + (z11) * (z20)) + ((z10) * (z21) + (z11) * (z20)) * ((z10) * (z20) - 2 * ((z11) * (z21)))) + (dxv1) * (((z10) * (z20) - 2 * ((z11) * (z21))) * ((z10) * (z20) - 2 * ((z11) * (z21))) - 2 * (((z10) * (z21) + (z11) * (z20)) * ((z10) * (z21) + (z11) * (z20))))) * (z11))) * (z21) + (((dxv0) * (((z10) * (z20) - 2 * ((z11) * (z21))) * ((z10) * (z20) - 2 * ((z11) * (z21))) - 2 * (((z10) * (z21) + (z11) * (z20)) * ((z10) * (z21) + (z11) * (z20)))) - 2 * ((dxv1) * (((z10) * (z20) - 2 * ((z11) * (z21))) * ((z10) * (z21) + (z11) * (z20)) + ((z10) * (z21) + (z11) * (z20)) * ((z10) * (z20) - 2 * ((z11) * (z21)))))) * (z11) + ((dxv0) * (((z10) * (z20) - 2 * ((z11) * (z21))) * ((z10) * (z21) + (z11) * (z20)) + ((z10) * (z21) + (z11) * (z20)) * ((z10) * (z20) - 2 * ((z11) * (z21)))) + (dxv1) * (((z10) * (z20) - 2 * ((z11) * (z21))) * ((z10) * (z20) - 2 * ((z11) * (z21))) - 2 * (((z10) * (z21) + (z11) * (z20)) * ((z10) * (z21) + (z11) * (z20))))) * (z10)) * (z20)
        == (dxv0) * ((((z10) * (z20) - 2 * ((z11) * (z21))) * ((z10) * (z20) - 2 * ((z11) * (z21))) - 2 * (((z10) * (z21) + (z11) * (z20)) * ((z10) * (z21) + (z11) * (z20)))) * ((z10) * (z21) + (z11) * (z20)) + (((z10) * (z20) - 2 * ((z11) * (z21))) * ((z10) * (z21) + (z11) * (z20)) + ((z10) * (z21) + (z11) * (z20)) * ((z10) * (z20) - 2 * ((z11) * (z21)))) * ((z10) * (z20) - 2 * ((z11) * (z21)))) + (dxv1) * ((((z10) * (z20) - 2 * ((z11) * (z21))) * ((z10) * (z20) - 2 * ((z11) * (z21))) - 2 * (((z10) * (z21) + (z11) * (z20)) * ((z10) * (z21) + (z11) * (z20)))) * ((z10) * (z20) - 2 * ((z11) * (z21))) - 2 * ((((z10) * (z20) - 2 * ((z11) * (z21))) * ((z10) * (z21) + (z11) * (z20)) + ((z10) * (z21) + (z11) * (z20)) * ((z10) * (z20) - 2 * ((z11) * (z21)))) * ((z10) * (z21) + (z11) * (z20))))
{ }
proof fn qr_af_x(x1: F2, x2: F2, dyv: F2, t: F2)
    ensures q_sub(q_mul(q_mul(dyv, q_mul(q_mul(t, t), t)), q_mul(dyv, q_mul(q_mul(t, t), t))), q_mul(q_add(q_mul(x2, q_mul(t, t)), q_mul(x1, q_mul(t, t))), q_mul(q_mul(q_sub(x2, x1), q_mul(t, t)), q_mul(q_sub(x2, x1), q_mul(t, t)))))
        == q_mul(q_sub(q_mul(dyv, dyv), q_mul(q_add(x1, x2), q_mul(q_sub(x2, x1), q_sub(x2, x1)))), q_mul(q_mul(q_mul(t, t), t), q_mul(q_mul(t, t), t)))
{
    reveal(q_add); reveal(q_sub); reveal(q_mul); reveal(q_k); reveal(q_c);
    ring_af_x_0(x1.c0, x1.c1, x2.c0, x2.c1, dyv.c0, dyv.c1, t.c0, t.c1); ring_af_x_1(x1.c0, x1.c1, x2.c0, x2.c1, dyv.c0, dyv.c1, t.c0, t.c1);
}
#[verifier::external_body]
proof fn ring_af_x_0(x10: int, x11: int, x20: int, x21: int, dyv0: int, dyv1: int, t0: int, t1: int)
    ensures (((dyv0) * (((t0) * (t0) - 2 * ((t1) * (t1))) * (t0) - 2 * (((t0) * (t1) + (t1) * (t0)) * (t1))) - 2 * ((dyv1) * (((t0) * (t0) - 2 * ((t1) * (t1))) * (t1) + ((t0) * (t1) + (t1) * (t0)) * (t0)))) * ((dyv0) * (((t0) * (t0) - 2 * ((t1) * (t1))) * (t0) - 2 * (((t0) * (t1) + (t1) * (t0)) * (t1))) - 2 * ((dyv1) * (((t0) * (t0) - 2 * ((t1) * (t1))) * (t1) + ((t0) * (t1) + (t1) * (t0)) * (t0)))) - 2 * (((dyv0) * (((t0) * (t0) - 2 * ((t1) * (t1))) * (t1) + ((t0) * (t1) + (t1) * (t0)) * (t0)) + (dyv1) * (((t0) * (t0) - 2 * ((t1) * (t1))) * (t0) - 2 * (((t0) * (t1) + (t1) * (t0)) * (t1)))) * ((dyv0) * (((t0) * (t0) - 2 * ((t1) * (t1))) * (t1) + ((t0) * (t1) + (t1) * (t0)) * (t0)) + (dyv1) * (((t0) * (t0) - 2 * ((t1) * (t1))) * (t0) - 2 * (((t0) * (t1) + (t1) * (t0)) * (t1)))))) - ((((x20) * ((t0) * (t0) - 2 * ((t1) * (t1))) - 2 * ((x21) * ((t0) * (t1) + (t1) * (t0)))) + ((x10) * ((t0) * (t0) - 2 * ((t1) * (t1))) - 2 * ((x11) * ((t0) * (t1) + (t1) * (t0))))) * ((((x20) - (x10)) * ((t0) * (t0) - 2 * ((t1) * (t1))) - 2 * (((x21) - (x11)) * ((t0) * (t1) + (t1) * (t0)))) * (((x20) - (x10)) * ((t0) * (t0) - 2 * ((t1) * (t1))) - 2 * (((x21) - (x11)) * ((t0) * (t1) + (t1) * (t0)))) - 2 * ((((x20) - (x10)) * ((t0) * (t1) + (t1) * (t0)) + ((x21) - (x11)) * ((t0) * (t0) - 2 * ((t1) * (t1)))) * (((x20) - (x10)) * ((t0) * (t1) + (t1) * (t0)) + ((x21) - (x11)) * ((t0) * (t0) - 2 * ((t1) * (t1)))))) - 2 * ((((x20) * ((t0) * (t1) + (t1) * (t0)) + (x21) * ((t0) * (t0) - 2 * ((t1) * (t1)))) + ((x10) * ((t0) * (t1) + (t1) * (t0)) + (x11) * ((t0) * (t0) - 2 * ((t1) * (t1))))) * ((((x20) - (x10)) * ((t0) * (t0) - 2 * ((t1) * (t1))) - 2 * (((x21) - (x11)) * ((t0) * (t1) + (t1) * (t0)))) * (((x20) - (x10)) * ((t0) * (t1) + (t1) * (t0)) + ((x21) - (x11)) * ((t0) * (t0) - 2 * ((t1) * (t1)))) + (((x20) - (x10)) * ((t0) * (t1) + (t1) * (t0)) + ((x21) - (x11)) * ((t0) * (t0) - 2 * ((t1) * (t1)))) * (((x20) - (x10)) * ((t0) * (t0) - 2 * ((t1) * (t1))) - 2 * (((x21) - (x11)) * ((t0) * (t1) + (t1) * (t0)))))))
        == (((dyv0) * (dyv0) - 2 * ((dyv1) * (dyv1))) - (((x10) + (x20)) * (((x20) - (x10)) * ((x20) - (x10)) - 2 * (((x21) - (x11)) * ((x21) - (x11)))) - 2 * (((x11) + (x21)) * (((x20) - (x10)) * ((x21) - (x11)) + ((x21) - (x11)) * ((x20) - (x10)))))) * ((((t0) * (t0) - 2 * ((t1) * (t1))) * (t0) - 2 * (((t0) * (t1) + (t1) * (t0)) * (t1))) * (((t0) * (t0) - 2 * ((t1) * (t1))) * (t0) - 2 * (((t0) * (t1) + (t1) * (t0)) * (t1))) - 2 * ((((t0) * (t0) - 2 * ((t1) * (t1))) * (t1) + ((t0) * (t1) + (t1) * (t0)) * (t0)) * (((t0) * (t0) - 2 * ((t1) * (t1))) * (t1) + ((t0) * (t1) + (t1) * (t0)) * (t0)))) - 2 * ((((dyv0) * (dyv1) + (dyv1) * (dyv0)) - (((x10) + (x20)) * (((x20) - (x10)) * ((x21) - (x11)) + ((x21) - (x11)) * ((x20) - (x10))) + ((x11) + (x21)) * (((x20) - (x10)) * ((x20) - (x10)) - 2 * (((x21) - (x11)) * ((x21) - (x11)))))) * ((((t0) * (t0) - 2 * ((t1) * (t1))) * (t0) - 2 * (((t0) * (t1) + (t1) * (t0)) * (t1))) * (((t0) * (t0) - 2 * ((t1) * (t1))) * (t1) + ((t0) * (t1) + (t1) * (t0)) * (t0)) + (((t0) * (t0) - 2 * ((t1) * (t1))) * (t1) + ((t0) * (t1) + (t1) * (t0)) * (t0)) * (((t0) * (t0) - 2 * ((t1) * (t1))) * (t0) - 2 * (((t0) * (t1) + (t1) * (t0)) * (t1)))))
{ }
#[verifier::external_body]
proof fn ring_af_x_1(x10: int, x11: int, x20: int, x21: int, dyv0: int, dyv1: int, t0: int, t1: int)
    ensures (((dyv0) * (((t0) * (t0) - 2 * ((t1) * (t1))) * (t0) - 2 * (((t0) * (t1) + (t1) * (t0)) * (t1))) - 2 * ((dyv1) * (((t0) * (t0) - 2 * ((t1) * (t1))) * (t1) + ((t0) * (t1) + (t1) * (t0)) * (t0)))) * ((dyv0) * (((t0) * (t0) - 2 * ((t1) * (t1))) * (t1) + ((t0) * (t1) + (t1) * (t0)) * (t0)) + (dyv1) * (((t0) * (t0) - 2 * ((t1) * (t1))) * (t0) - 2 * (((t0) * (t1) + (t1) * (t0)) * (t1)))) + ((dyv0) * (((t0) * (t0) - 2 * ((t1) * (t1))) * (t1) + ((t0) * (t1) + (t1) * (t0)) * (t0)) + (dyv1) * (((t0) * (t0) - 2 * ((t1) * (t1))) * (t0) - 2 * (((t0) * (t1) + (t1) * (t0)) * (t1)))) * ((dyv0) * (((t0) * (t0) - 2 * ((t1) * (t1))) * (t0) - 2 * (((t0) * (t1) + (t1) * (t0)) * (t1))) - 2 * ((dyv1) * (((t0) * (t0) - 2 * ((t1) * (t1))) * (t1) + ((t0) * (t1) + (t1) * (t0)) * (t0))))) - ((((x20) * ((t0) * (t0) - 2 * ((t1) * (t1))) - 2 * ((x21) * ((t0) * (t1) + (t1) * (t0)))) + ((x10) * ((t0) * (t0) - 2 * ((t1) * (t1))) - 2 * ((x11) * ((t0) * (t1) + (t1) * (t0))))) * ((((x20) - (x10)) * ((t0) * (t0) - 2 * ((t1) * (t1))) - 2 * (((x21) - (x11)) * ((t0) * (t1) + (t1) * (t0)))) * (((x20) - (x10)) * ((t0) * (t1) + (t1) * (t0)) + ((x21) - (x11)) * ((t0) * (t0) - 2 * ((t1) * (t1)))) + (((x20) - (x10)) * ((t0) * (t1) + (t1) * (t0)) + ((x21) - (x11)) * ((t0) * (t0) - 2 * ((t1) * (t1)))) * (((x20) - (x10)) * ((t0) * (t0) - 2 * ((t1) * (t1))) - 2 * (((x21) - (x11)) * ((t0) * (t1) + (t1) * (t0))))) + (((x20) * ((t0) * (t1) + (t1) * (t0)) + (x21) * ((t0) * (t0) - 2 * ((t1) * (t1)))) + ((x10) * ((t0) * (t1) + (t1) * (t0)) + (x11) * ((t0) * (t0) - 2 * ((t1) * (t1))))) * ((((x20) - (x10)) * ((t0) * (t0) - 2 * ((t1) * (t1))) - 2 * (((x21) - (x11)) * ((t0) * (t1) + (t1) * (t0)))) * (((x20) - (x10)) * ((t0) * (t0) - 2 * ((t1) * (t1))) - 2 * (((x21) - (x11)) * ((t0) * (t1) + (t1) * (t0)))) - 2 * ((((x20) - (x10)) * ((t0) * (t1) + (t1) * (t0)) + ((x21) - (x11)) * ((t0) * (t0) - 2 * ((t1) * (t1)))) * (((x20) - (x10)) * ((t0) * (t1) + (t1) * (t0)) + ((x21) - (x11)) * ((t0) * (t0) - 2 * ((t1) * (t1)))))))
        == (((dyv0) * (dyv0) - 2 * ((dyv1) * (dyv1))) - (((x10) + (x20)) * (((x20) - (x10)) * ((x20) - (x10)) - 2 * (((x21) - (x11)) * ((x21) - (x11)))) - 2 * (((x11) + (x21)) * (((x20) - (x10)) * ((x21) - (x11)) + ((x21) - (x11)) * ((x20) - (x10)))))) * ((((t0) * (t0) - 2 * ((t1) * (t1))) * (t0) - 2 * (((t0) * (t1) + (t1) * (t0)) * (t1))) * (((t0) * (t0) - 2 * ((t1) * (t1))) * (t1) + ((t0) * (t1) + (t1) * (t0)) * (t0)) + (((t0) * (t0) - 2 * ((t1) * (t1))) * (t1) + ((t0) * (t1) + (t1) * (t0)) * (t0)) * (((t0) * (t0) - 2 * ((t1) * (t1))) * (t0) - 2 * (((t0) * (t1) + (t1) * (t0)) * (t1)))) + (((dyv0) * (dyv1) + (dyv1) * (dyv0)) - (((x10) + (x20)) * (((x20) - (x10)) * ((x21) - (x11)) + ((x21) - (x11)) * ((x20) - (x10))) + ((x11) + (x21)) * (((x20) - (x10)) * ((x20) - (x10)) - 2 * (((x21) - (x11)) * ((x21) - (x11)))))) * ((((t0) * (t0) - 2 * ((t1) * (t1))) * (t0) - 2 * (((t0) * (t1) + (t1) * (t0)) * (t1))) * (((t0) * (t0) - 2 * ((t1) * (t1))) * (t0) - 2 * (((t0) * (t1) + (t1) * (t0)) * (t1))) - 2 * ((((t0) * (t0) - 2 * ((t1) * (t1))) * (t1) + ((t0) * (t1) + (t1) * (t0)) * (t0)) * (((t0) * (t0) - 2 * ((t1) * (t1))) * (t1) + ((t0) * (t1) + (t1) * (t0)) * (t0))))
{ }
proof fn qr_af_y(x1: F2, y1: F2, dxv: F2, dyv: F2, x3nv: F2, t: F2)
    ensures q_sub(q_mul(q_mul(dyv, q_mul(q_mul(t, t), t)), q_sub(q_mul(q_mul(x1, q_mul(t, t)), q_mul(q_mul(dxv, q_mul(t, t)), q_mul(dxv, q_mul(t, t)))), q_mul(x3nv, q_mul(q_mul(q_mul(t, t), t), q_mul(q_mul(t, t), t))))), q_mul(q_mul(y1, q_mul(q_mul(t, t), t)), q_mul(q_mul(dxv, q_mul(t, t)), q_mul(q_mul(dxv, q_mul(t, t)), q_mul(dxv, q_mul(t, t))))))
        == q_mul(q_sub(q_mul(dyv, q_sub(q_mul(x1, q_mul(dxv, dxv)), x3nv)), q_mul(y1, q_mul(q_mul(dxv, dxv), dxv))), q_mul(q_mul(q_mul(q_mul(t, t), t), q_mul(q_mul(t, t), t)), q_mul(q_mul(t, t), t)))
{
    reveal(q_add); reveal(q_sub); reveal(q_mul); reveal(q_k); reveal(q_c);
    ring_af_y_0(x1.c0, x1.c1, y1.c0, y1.c1, dxv.c0, dxv.c1, dyv.c0, dyv.c1, x3nv.c0, x3nv.c1, t.c0, t.c1); ring_af_y_1(x1.c0, x1.c1, y1.c0, y1.c1, dxv.c0, dxv.c1, dyv.c0, dyv.c1, x3nv.c0, x3nv.c1, t.c0, t.c1);
}
#[verifier::external_body]
proof fn ring_af_y_0(x10: int, x11: int, y10: int, y11: int, dxv0: int, dxv1: int, dyv0: int, dyv1: int, x3nv0: int, x3nv1: int, t0: int, t1: int)
    ensures (((dyv0) * (((t0) * (t0) - 2 * ((t1) * (t1))) * (t0) - 2 * (((t0) * (t1) + (t1) * (t0)) * (t1))) - 2 * ((dyv1) * (((t0) * (t0) - 2 * ((t1) * (t1))) * (t1) + ((t0) * (t1) + (t1) * (t0)) * (t0)))) * ((((x10) * ((t0) * (t0) - 2 * ((t1) * (t1))) - 2 * ((x11) * ((t0) * (t1) + (t1) * (t0)))) * (((dxv0) * ((t0) * (t0) - 2 * ((t1) * (t1))) - 2 * ((dxv1) * ((t0) * (t1) + (t1) * (t0)))) * ((dxv0) * ((t0) * (t0) - 2 * ((t1) * (t1))) - 2 * ((dxv1) * ((t0) * (t1) + (t1) * (t0)))) - 2 * (((dxv0) * ((t0) * (t1) + (t1) * (t0)) + (dxv1) * ((t0) * (t0) - 2 * ((t1) * (t1)))) * ((dxv0) * ((t0) * (t1) + (t1) * (t0)) + (dxv1) * ((t0) * (t0) - 2 * ((t1) * (t1)))))) - 2 * (((x10) * ((t0) * (t1) + (t1) * (t0)) + (x11) * ((t0) * (t0) - 2 * ((t1) * (t1)))) * (((dxv0) * ((t0) * (t0) - 2 * ((t1) * (t1))) - 2 * ((dxv1) * ((t0) * (t1) + (t1) * (t0)))) * ((dxv0) * ((t0) * (t1) + (t1) * (t0)) + (dxv1) * ((t0) * (t0) - 2 * ((t1) * (t1)))) + ((dxv0) * ((t0) * (t1) + (t1) * (t0)) + (dxv1) * ((t0) * (t0) - 2 * ((t1) * (t1)))) * ((dxv0) * ((t0) * (t0) - 2 * ((t1) * (t1))) - 2 * ((dxv1) * ((t0) * (t1) + (t1) * (t0))))))) - ((x3nv0) * ((((t0) * (t0) - 2 * ((t1) * (t1))) * (t0) - 2 * (((t0) * (t1) + (t1) * (t0)) * (t1))) * (((t0) * (t0) - 2 * ((t1) * (t1))) * (t0) - 2 * (((t0) * (t1) + (t1) * (t0)) * (t1))) - 2 * ((((t0) * (t0) - 2 * ((t1) * (t1))) * (t1) + ((t0) * (t1) + (t1) * (t0)) * (t0)) * (((t0) * (t0) - 2 * ((t1) * (t1))) * (t1) + ((t0) * (t1) + (t1) * (t0)) * (t0)))) - 2 * ((x3nv1) * ((((t0) * (t0) - 2 * ((t1) * (t1))) * (t0) - 2 * (((t0) * (t1) + (t1) * (t0)) * (t1))) * (((t0) * (t0) - 2 * ((t1) * (t1))) * (t1) + ((t0) * (t1) + (t1) * (t0)) * (t0)) + (((t0) * (t0) - 2 * ((t1) * (t1))) * (t1) + ((t0) * (t1) + (t1) * (t0)) * (t0)) * (((t0) * (t0) - 2 * ((t1) * (t1))) * (t0) - 2 * (((t0) * (t1) + (t1) * (t0)) * (t1))))))) - 2 * (((dyv0) * (((t0) * (t0) - 2 * ((t1) * (t1))) * (t1) + ((t0) * (t1) + (t1) * (t0)) * (t0)) + (dyv1) * (((t0) * (t0) - 2 * ((t1) * (t1))) * (t0) - 2 * (((t0) * (t1) + (t1) * (t0)) * (t1)))) * ((((x10) * ((t0) * (t0) - 2 * ((t1) * (t1))) - 2 * ((x11) * ((t0) * (t1) + (t1) * (t0)))) * (((dxv0) * ((t0) * (t0) - 2 * ((t1) * (t1))) - 2 * ((dxv1) * ((t0) * (t1) + (t1) * (t0)))) * ((dxv0) * ((t0) * (t1) + (t1) * (t0)) + (dxv1) * ((t0) * (t0) - 2 * ((t1) * (t1)))) + ((dxv0) * ((t0) * (t1) + (t1) * (t0)) + (dxv1) * ((t0) * (t0) - 2 * ((t1) * (t1)))) * ((dxv0) * ((t0) * (t0) - 2 * ((t1) * (t1))) - 2 * ((dxv1) * ((t0) * (t1) + (t1) * (t0))))) + ((x10) * ((t0) * (t1) + (t1) * (t0)) + (x11) * ((t0) * (t0) - 2 * ((t1) * (t1)))) * (((dxv0) * ((t0) * (t0) - 2 * ((t1) * (t1))) - 2 * ((dxv1) * ((t0) * (t1) + (t1) * (t0)))) * ((dxv0) * ((t0) * (t0) - 2 * ((t1) * (t1))) - 2 * ((dxv1) * ((t0) * (t1) + (t1) * (t0)))) - 2 * (((dxv0) * ((t0) * (t1) + (t1) * (t0)) + (dxv1) * ((t0) * (t0) - 2 * ((t1) * (t1)))) * ((dxv0) * ((t0) * (t1) + (t1) * (t0)) + (dxv1) * ((t0) * (t0) - 2 * ((t1) * (t1))))))) - ((x3nv0) * ((((t0) * (t0) - 2 * ((t1) * (t1))) * (t0) - 2 * (((t0) * (t1) + (t1) * (t0)) * (t1))) * (((t0) * (t0) - 2 * ((t1) * (t1))) * (t1) + ((t0) * (t1) + (t1) * (t0)) * (t0)) + (((t0) * (t0) - 2 * ((t1) * (t1))) * (t1) + ((t0) * (t1) + (t1) * (t0)) * (t0)) * (((t0) * (t0) - 2 * ((t1) * (t1))) * (t0) - 2 * (((t0) * (t1) + (t1) * (t0)) * (t1)))) + (x3nv1) * ((((t0) * (t0) - 2 * ((t1) * (t1))) * (t0) - 2 * (((t0) * (t1) + (t1) * (t0)) * (t1))) * (((t0) * (t0) - 2 * ((t1) * (t1))) * (t0) - 2 * (((t0) * (t1) + (t1) * (t0)) * (t1))) - 2 * ((((t0) * (t0) - 2 * ((t1) * (t1))) * (t1) + ((t0) * (t1) + (t1) * (t0)) * (t0)) * (((t0) * (t0) - 2 * ((t1) * (t1))) * (t1) + ((t0) * (t1) + (t1) * (t0)) * (t0)))))))) - (((y10) * (((t0) * (t0) - 2 * ((t1) * (t1))) * (t0) - 2 * (((t0) * (t1) + (t1) * (t0)) * (t1))) - 2 * ((y11) * (((t0) * (t0) - 2 * ((t1) * (t1))) * (t1) + ((t0) * (t1) + (t1) * (t0)) * (t0)))) * (((dxv0) * ((t0) * (t0) - 2 * ((t1) * (t1))) - 2 * ((dxv1) * ((t0) * (t1) + (t1) * (t0)))) * (((dxv0) * ((t0) * (t0) - 2 * ((t1) * (t1))) - 2 * ((dxv1) * ((t0) * (t1) + (t1) * (t0)))) * ((dxv0) * ((t0) * (t0) - 2 * ((t1) * (t1))) - 2 * ((dxv1) * ((t0) * (t1) + (t1) * (t0)))) - 2 * (((dxv0) * ((t0) * (t1) + (t1) * (t0)) + (dxv1) * ((t0) * (t0) - 2 * ((t1) * (t1)))) * ((dxv0) * ((t0) * (t1) + (t1) * (t0)) + (dxv1) * ((t0) * (t0) - 2 * ((t1) * (t1)))))) - 2 * (((dxv0) * ((t0) * (t1) + (t1) * (t0)) + (dxv1) * ((t0) * (t0) - 2 * ((t1) * (t1)))) * (((dxv0) * ((t0) * (t0) - 2 * ((t1) * (t1))) - 2 * ((dxv1) * ((t0) * (t1) + (t1) * (t0)))) * ((dxv0) * ((t0) * (t1) + (t1) * (t0)) + (dxv1) * ((t0) * (t0) - 2 * ((t1) * (t1)))) + ((dxv0) * ((t0) * (t1) + (t1) * (t0)) + (dxv1) * ((t0) * (t0) - 2 * ((t1) * (t1)))) * ((dxv0) * ((t0) * (t0) - 2 * ((t1) * (t1))) - 2 * ((dxv1) * ((t0) * (t1) + (t1) * (t0))))))) - 2 * (((y10) * (((t0) * (t0) - 2 * ((t1) * (t1))) * (t1) + ((t0) * (t1) + (t1) * (t0)) * (t0)) + (y11) * (((t0) * (t0) - 2 * ((t1) * (t1))) * (t0) - 2 * (((t0) * (t1) + (t1) * (t0)) * (t1)))) * (((dxv0) * ((t0) * (t0) - 2 * ((t1) * (t1))) - 2 * ((dxv1) * ((t0) * (t1) + (t1) * (t0)))) * (((dxv0) * ((t0) * (t0) - 2 * ((t1) * (t1))) - 2 * ((dxv1) * ((t0) * (t1) + (t1) * (t0)))) * ((dxv0) * ((t0) * (t1) + (t1) * (t0)) + (dxv1) * ((t0) * (t0) - 2 * ((t1) * (t1)))) + ((dxv0) * ((t0) * (t1) + (t1) * (t0)) + (dxv1) * ((t0) * (t0) - 2 * ((t1) * (t1)))) * ((dxv0) * ((t0) * (t0) - 2 * ((t1) * (t1))) - 2 * ((dxv1) * ((t0) * (t1) + (t1) * (t0))))) + ((dxv0) * ((t0) * (t1) + (t1) * (t0)) + (dxv1) * ((t0) * (t0) - 2 * ((t1) * (t1)))) * (((dxv0) * ((t0) * (t0) - 2 * ((t1) * (t1))) - 2 * ((dxv1) * ((t0) * (t1) + (t1) * (t0)))) * ((dxv0) * ((t0) * (t0) - 2 * ((t1) * (t1))) - 2 * ((dxv1) * ((t0) * (t1) + (t1) * (t0)))) - 2 * (((dxv0) * ((t0) * (t1) + (t1) * (t0)) + (dxv1) * ((t0) * (t0) - 2 * ((t1) * (t1)))) * ((dxv0) * ((t0) * (t1) + (t1) * (t0)) + (dxv1) * ((t0) * (t0) - 2 * ((t1) * (t1)))))))))
        == (((dyv0) * (((x10) * ((dxv0) * (dxv0) - 2 * ((dxv1) * (dxv1))) - 2 * ((x11) * ((dxv0) * (dxv1) + (dxv1) * (dxv0)))) - (x3nv0)) - 2 * ((dyv1) * (((x10) * ((dxv0) * (dxv1) + (dxv1) * (dxv0)) + (x11) * ((dxv0) * (dxv0) - 2 * ((dxv1) * (dxv1)))) - (x3nv1)))) - ((y10) * (((dxv0) * (dxv0) - 2 * ((dxv1) * (dxv1))) * (dxv0) - 2 * (((dxv0) * (dxv1) + (dxv1) * (dxv0)) * (dxv1))) - 2 * ((y11) * (((dxv0) * (dxv0) - 2 * ((dxv1) * (dxv1))) * (dxv1) + ((dxv0) * (dxv1) + (dxv1) * (dxv0)) * (dxv0))))) * (((((t0) * (t0) - 2 * ((t1) * (t1))) * (t0) - 2 * (((t0) * (t1) + (t1) * (t0)) * (t1))) * (((t0) * (t0) - 2 * ((t1) * (t1))) * (t0) - 2 * (((t0) * (t1) + (t1) * (t0)) * (t1))) - 2 * ((((t0) * (t0) - 2 * ((t1) * (t1))) * (t1) + ((t0) * (t1) + (t1) * (t0)) * (t0)) * (((t0) * (t0) - 2 * ((t1) * (t1))) * (t1) + ((t0) * (t1) + (t1) * (t0)) * (t0)))) * (((t0) * (t0) - 2 * ((t1) * (t1))) * (t0) - 2 * (((t0) * (t1) + (t1) * (t0)) * (t1))) - 2 * (((((t0) * (t0) - 2 * ((t1) * (t1))) * (t0) - 2 * (((t0) * (t1) + (t1) * (t0)) * (t1))) * (((t0) * (t0) - 2 * ((t1) * (t1))) * (t1) + ((t0) * (t1) + (t1) * (t0)) * (t0)) + (((t0) * (t0) - 2 * ((t1) * (t1))) * (t1) + ((t0) * (t1) + (t1) * (t0)) * (t0)) * (((t0) * (t0) - 2 * ((t1) * (t1))) * (t0) - 2 * (((t0) * (t1) + (t1) * (t0)) * (t1)))) * (((t0) * (t0) - 2 * ((t1) * (t1))) * (t1) + ((t0) * (t1) + (t1) * (t0)) * (t0)))) - 2 * ((((dyv0) * (((x10) * ((dxv0) * (dxv1) + (dxv1) * (dxv0)) + (x11) * ((dxv0) * (dxv0) - 2 * ((dxv1) * (dxv1)))) - (x3nv1)) + (dyv1) * (((x10) * ((dxv0) * (dxv0) - 2 * ((dxv1) * (dxv1))) - 2 * ((x11) * ((dxv0) * (dxv1) + (dxv1) * (dxv0)))) - (x3nv0))) - ((y10) * (((dxv0) * (dxv0) - 2 * ((dxv1) * (dxv1))) * (dxv1) + ((dxv0) * (dxv1) + (dxv1) * (dxv0)) * (dxv0)) + (y11) * (((dxv0) * (dxv0) - 2 * ((dxv1) * (dxv1))) * (dxv0) - 2 * (((dxv0) * (dxv1) + (dxv1) * (dxv0)) * (dxv1))))) * (((((t0) * (t0) - 2 * ((t1) * (t1))) * (t0) - 2 * (((t0) * (t1) + (t1) * (t0)) * (t1))) * (((t0) * (t0) - 2 * ((t1) * (t1))) * (t0) - 2 * (((t0) * (t1) + (t1) * (t0)) * (t1))) - 2 * ((((t0) * (t0) - 2 * ((t1) * (t1))) * (t1) + ((t0) * (t1) + (t1) * (t0)) * (t0)) * (((t0) * (t0) - 2 * ((t1) * (t1))) * (t1) + ((t0) * (t1) + (t1) * (t0)) * (t0)))) * (((t0) * (t0) - 2 * ((t1) * (t1))) * (t1) + ((t0) * (t1) + (t1) * (t0)) * (t0)) + ((((t0) * (t0) - 2 * ((t1) * (t1))) * (t0) - 2 * (((t0) * (t1) + (t1) * (t0)) * (t1))) * (((t0) * (t0) - 2 * ((t1) * (t1))) * (t1) + ((t0) * (t1) + (t1) * (t0)) * (t0)) + (((t0) * (t0) - 2 * ((t1) * (t1))) * (t1) + ((t0) * (t1) + (t1) * (t0)) * (t0)) * (((t0) * (t0) - 2 * ((t1) * (t1))) * (t0) - 2 * (((t0) * (t1) + (t1) * (t0)) * (t1)))) * (((t0) * (t0) - 2 * ((t1) * (t1))) * (t0) - 2 * (((t0) * (t1) + (t1) * (t0)) * (t1)))))
{ }
#[verifier::external_body]
proof fn ring_af_y_1(x10: int, x11: int, y10: int, y11: int, dxv0: int, dxv1: int, dyv0: int, dyv1: int, x3nv0: int, x3nv1: int, t0: int, t1: int)
    ensures (((dyv0) * (((t0) * (t0) - 2 * ((t1) * (t1))) * (t0) - 2 * (((t0) * (t1) + (t1) * (t0)) * (t1))) - 2 * ((dyv1) * (((t0) * (t0) - 2 * ((t1) * (t1))) * (t1) + ((t0) * (t1) + (t1) * (t0)) * (t0)))) * ((((x10) * ((t0) * (t0) - 2 * ((t1) * (t1))) - 2 * ((x11) * ((t0) * (t1) + (t1) * (t0)))) * (((dxv0) * ((t0) * (t0) - 2 * ((t1) * (t1))) - 2 * ((dxv1) * ((t0) * (t1) + (t1) * (t0)))) * ((dxv0) * ((t0) * (t1) + (t1) * (t0)) + (dxv1) * ((t0) * (t0) - 2 * ((t1) * (t1)))) + ((dxv0) * ((t0) * (t1) + (t1) * (t0)) + (dxv1) * ((t0) * (t0) - 2 * ((t1) * (t1)))) * ((dxv0) * ((t0) * (t0) - 2 * ((t1) * (t1))) - 2 * ((dxv1) * ((t0) * (t1) + (t1) * (t0))))) + ((x10) * ((t0) * (t1) + (t1) * (t0)) + (x11) * ((t0) * (t0) - 2 * ((t1) * (t1)))) * (((dxv0) * ((t0) * (t0) - 2 * ((t1) * (t1))) - 2 * ((dxv1) * ((t0) * (t1) + (t1) * (t0)))) * ((dxv0) * ((t0) * (t0) - 2 * ((t1) * (t1))) - 2 * ((dxv1) * ((t0) * (t1) + (t1) * (t0)))) - 2 * (((dxv0) * ((t0) * (t1) + (t1) * (t0)) + (dxv1) * ((t0) * (t0) - 2 * ((t1) * (t1)))) * ((dxv0) * ((t0) * (t1) + (t1) * (t0)) + (dxv1) * ((t0) * (t0) - 2 * ((t1) * (t1))))))) - ((x3nv0) * ((((t0) * (t0) - 2 * ((t1) * (t1))) * (t0) - 2 * (((t0) * (t1) + (t1) * (t0)) * (t1))) * (((t0) * (t0) - 2 * ((t1) * (t1))) * (t1) + ((t0) * (t1) + (t1) * (t0)) * (t0)) + (((t0) * (t0) - 2 * ((t1) * (t1))) * (t1) + ((t0) * (t1) + (t1) * (t0)) * (t0)) * (((t0) * (t0) - 2 * ((t1) * (t1))) * (t0) - 2 * (((t0) * (t1) + (t1) * (t0)) * (t1)))) + (x3nv1) * ((((t0) * (t0) - 2 * ((t1) * (t1))) * (t0) - 2 * (((t0) * (t1) + (t1) * (t0)) * (t1))) * (((t0) * (t0) - 2 * ((t1) * (t1))) * (t0) - 2 * (((t0) * (t1) + (t1) * (t0)) * (t1))) - 2 * ((((t0) * (t0) - 2 * ((t1) * (t1))) * (t1) + ((t0) * (t1) + (t1) * (t0)) * (t0)) * (((t0) * (t0) - 2 * ((t1) * (t1))) * (t1) + ((t0) * (t1) + (t1) * (t0)) * (t0)))))) + ((dyv0) * (((t0) * (t0) - 2 * ((t1) * (t1))) * (t1) + ((t0) * (t1) + (t1) * (t0)) * (t0)) + (dyv1) * (((t0) * (t0) - 2 * ((t1) * (t1))) * (t0) - 2 * (((t0) * (t1) + (t1) * (t0)) * (t1)))) * ((((x10) * ((t0) * (t0) - 2 * ((t1) * (t1))) - 2 * ((x11) * ((t0) * (t1) + (t1) * (t0)))) * (((dxv0) * ((t0) * (t0) - 2 * ((t1) * (t1))) - 2 * ((dxv1) * ((t0) * (t1) + (t1) * (t0)))) * ((dxv0) * ((t0) * (t0) - 2 * ((t1) * (t1))) - 2 * ((dxv1) * ((t0) * (t1) + (t1) * (t0)))) - 2 * (((dxv0) * ((t0) * (t1) + (t1) * (t0)) + (dxv1) * ((t0) * (t0) - 2 * ((t1) * (t1)))) * ((dxv0) * ((t0) * (t1) + (t1) * (t0)) + (dxv1) * ((t0) * (t0) - 2 * ((t1) * (t1)))))) - 2 * (((x10) * ((t0) * (t1) + (t1) * (t0)) + (x11) * ((t0) * (t0) - 2 * ((t1) * (t1)))) * (((dxv0) * ((t0) * (t0) - 2 * ((t1) * (t1))) - 2 * ((dxv1) * ((t0) * (t1) + (t1) * (t0)))) * ((dxv0) * ((t0) * (t1) + (t1) * (t0)) + (dxv1) * ((t0) * (t0) - 2 * ((t1) * (t1)))) + ((dxv0) * ((t0) * (t1) + (t1) * (t0)) + (dxv1) * ((t0) * (t0) - 2 * ((t1) * (t1)))) * ((dxv0) * ((t0) * (t0) - 2 * ((t1) * (t1))) - 2 * ((dxv1) * ((t0) * (t1) + (t1) * (t0))))))) - ((x3nv0) * ((((t0) * (t0) - 2 * ((t1) * (t1))) * (t0) - 2 * (((t0) * (t1) + (t1) * (t0)) * (t1))) * (((t0) * (t0) - 2 * ((t1) * (t1))) * (t0) - 2 * (((t0) * (t1) + (t1) * (t0)) * (t1))) - 2 * ((((t0) * (t0) - 2 * ((t1) * (t1))) * (t1) + ((t0) * (t1) + (t1) * (t0)) * (t0)) * (((t0) * (t0) - 2 * ((t1) * (t1))) * (t1) + ((t0) * (t1) + (t1) * (t0)) * (t0)))) - 2 * ((x3nv1) * ((((t0) * (t0) - 2 * ((t1) * (t1))) * (t0) - 2 * (((t0) * (t1) + (t1) * (t0)) * (t1))) * (((t0) * (t0) - 2 * ((t1) * (t1))) * (t1) + ((t0) * (t1) + (t1) * (t0)) * (t0)) + (((t0) * (t0) - 2 * ((t1) * (t1))) * (t1) + ((t0) * (t1) + (t1) * (t0)) * (t0)) * (((t0) * (t0) - 2 * ((t1) * (t1))) * (t0) - 2 * (((t0) * (t1) + (t1) * (t0)) * (t1)))))))) - (((y10) * (((t0) * (t0) - 2 * ((t1) * (t1))) * (t0) - 2 * (((t0) * (t1) + (t1) * (t0)) * (t1))) - 2 * ((y11) * (((t0) * (t0) - 2 * ((t1) * (t1))) * (t1) + ((t0) * (t1) + (t1) * (t0)) * (t0)))) * (((dxv0) * ((t0) * (t0) - 2 * ((t1) * (t1))) - 2 * ((dxv1) * ((t0) * (t1) + (t1) * (t0)))) * (((dxv0) * ((t0) * (t0) - 2 * ((t1) * (t1))) - 2 * ((dxv1) * ((t0) * (t1) + (t1) * (t0)))) * ((dxv0) * ((t0) * (t1) + (t1) * (t0)) + (dxv1) * ((t0) * (t0) - 2 * ((t1) * (t1)))) + ((dxv0) * ((t0) * (t1) + (t1) * (t0)) + (dxv1) * ((t0) * (t0) - 2 * ((t1) * (t1)))) * ((dxv0) * ((t0) * (t0) - 2 * ((t1) * (t1))) - 2 * ((dxv1) * ((t0) * (t1) + (t1) * (t0))))) + ((dxv0) * ((t0) * (t1) + (t1) * (t0)) + (dxv1) * ((t0) * (t0) - 2 * ((t1) * (t1)))) * (((dxv0) * ((t0) * (t0) - 2 * ((t1) * (t1))) - 2 * ((dxv1) * ((t0) * (t1) + (t1) * (t0)))) * ((dxv0) * ((t0) * (t0) - 2 * ((t1) * (t1))) - 2 * ((dxv1) * ((t0) * (t1) + (t1) * (t0)))) - 2 * (((dxv0) * ((t0) * (t1) + (t1) * (t0)) + (dxv1) * ((t0) * (t0) - 2 * ((t1) * (t1)))) * ((dxv0) * ((t0) * (t1) + (t1) * (t0)) + (dxv1) * ((t0) * (t0) - 2 * ((t1) * (t1))))))) + ((y10) * (((t0) * (t0) - 2 * ((t1) * (t1))) * (t1) + ((t0) * (t1) + (t1) * (t0)) * (t0)) + (y11) * (((t0) * (t0) - 2 * ((t1) * (t1))) * (t0) - 2 * (((t0) * (t1) + (t1) * (t0)) * (t1)))) * (((dxv0) * ((t0) * (t0) - 2 * ((t1) * (t1))) - 2 * ((dxv1) * ((t0) * (t1) + (t1) * (t0)))) * (((dxv0) * ((t0) * (t0) - 2 * ((t1) * (t1))) - 2 * ((dxv1) * ((t0) * (t1) + (t1) * (t0)))) * ((dxv0) * ((t0) * (t0) - 2 * ((t1) * (t1))) - 2 * ((dxv1) * ((t0) * (t1) + (t1) * (t0)))) - 2 * (((dxv0) * ((t0) * (t1) + (t1) * (t0)) + (dxv1) * ((t0) * (t0) - 2 * ((t1) * (t1)))) * ((dxv0) * ((t0) * (t1) + (t1) * (t0)) + (dxv1) * ((t0) * (t0) - 2 * ((t1) * (t1)))))) - 2 * (((dxv0) * ((t0) * (t1) + (t1) * (t0)) + (dxv1) * ((t0) * (t0) - 2 * ((t1) * (t1)))) * (((dxv0) * ((t0) * (t0) - 2 * ((t1) * (t1))) - 2 * ((dxv1) * ((t0) * (t1) + (t1) * (t0)))) * ((dxv0) * ((t0) * (t1) + (t1) * (t0)) + (dxv1) * ((t0) * (t0) - 2 * ((t1) * (t1)))) + ((dxv0) * ((t0) * (t1) + (t1) * (t0)) + (dxv1) * ((t0) * (t0) - 2 * ((t1) * (t1)))) * ((dxv0) * ((t0) * (t0) - 2 * ((t1) * (t1))) - 2 * ((dxv1) * ((t0) * (t1) + (t1) * (t0))))))))
        == (((dyv0) * (((x10) * ((dxv0) * (dxv0) - 2 * ((dxv1) * (dxv1))) - 2 * ((x11) * ((dxv0) * (dxv1) + (dxv1) * (dxv0)))) - (x3nv0)) - 2 * ((dyv1) * (((x10) * ((dxv0) * (dxv1) + (dxv1) * (dxv0)) + (x11) * ((dxv0) * (dxv0) - 2 * ((dxv1) * (dxv1)))) - (x3nv1)))) - ((y10) * (((dxv0) * (dxv0) - 2 * ((dxv1) * (dxv1))) * (dxv0) - 2 * (((dxv0) * (dxv1) + (dxv1) * (dxv0)) * (dxv1))) - 2 * ((y11) * (((dxv0) * (dxv0) - 2 * ((dxv1) * (dxv1))) * (dxv1) + ((dxv0) * (dxv1) + (dxv1) * (dxv0)) * (dxv0))))) * (((((t0) * (t0) - 2 * ((t1) * (t1))) * (t0) - 2 * (((t0) * (t1) + (t1) * (t0)) * (t1))) * (((t0) * (t0) - 2 * ((t1) * (t1))) * (t0) - 2 * (((t0) * (t1) + (t1) * (t0)) * (t1))) - 2 * ((((t0) * (t0) - 2 * ((t1) * (t1))) * (t1) + ((t0) * (t1) + (t1) * (t0)) * (t0)) * (((t0) * (t0) - 2 * ((t1) * (t1))) * (t1) + ((t0) * (t1) + (t1) * (t0)) * (t0)))) * (((t0) * (t0) - 2 * ((t1) * (t1))) * (t1) + ((t0) * (t1) + (t1) * (t0)) * (t0)) + ((((t0) * (t0) - 2 * ((t1) * (t1))) * (t0) - 2 * (((t0) * (t1) + (t1) * (t0)) * (t1))) * (((t0) * (t0) - 2 * ((t1) * (t1))) * (t1) + ((t0) * (t1) + (t1) * (t0)) * (t0)) + (((t0) * (t0) - 2 * ((t1) * (t1))) * (t1) + ((t0) * (t1) + (t1) * (t0)) * (t0)) * (((t0) * (t0) - 2 * ((t1) * (t1))) * (t0) - 2 * (((t0) * (t1) + (t1) * (t0)) * (t1)))) * (((t0) * (t0) - 2 * ((t1) * (t1))) * (t0) - 2 * (((t0) * (t1) + (t1) * (t0)) * (t1)))) + (((dyv0) * (((x10) * ((dxv0) * (dxv1) + (dxv1) * (dxv0)) + (x11) * ((dxv0) * (dxv0) - 2 * ((dxv1) * (dxv1)))) - (x3nv1)) + (dyv1) * (((x10) * ((dxv0) * (dxv0) - 2 * ((dxv1) * (dxv1))) - 2 * ((x11) * ((dxv0) * (dxv1) + (dxv1) * (dxv0)))) - (x3nv0))) - ((y10) * (((dxv0) * (dxv0) - 2 * ((dxv1) * (dxv1))) * (dxv1) + ((dxv0) * (dxv1) + (dxv1) * (dxv0)) * (dxv0)) + (y11) * (((dxv0) * (dxv0) - 2 * ((dxv1) * (dxv1))) * (dxv0) - 2 * (((dxv0) * (dxv1) + (dxv1) * (dxv0)) * (dxv1))))) * (((((t0) * (t0) - 2 * ((t1) * (t1))) * (t0) - 2 * (((t0) * (t1) + (t1) * (t0)) * (t1))) * (((t0) * (t0) - 2 * ((t1) * (t1))) * (t0) - 2 * (((t0) * (t1) + (t1) * (t0)) * (t1))) - 2 * ((((t0) * (t0) - 2 * ((t1) * (t1))) * (t1) + ((t0) * (t1) + (t1) * (t0)) * (t0)) * (((t0) * (t0) - 2 * ((t1) * (t1))) * (t1) + ((t0) * (t1) + (t1) * (t0)) * (t0)))) * (((t0) * (t0) - 2 * ((t1) * (t1))) * (t0) - 2 * (((t0) * (t1) + (t1) * (t0)) * (t1))) - 2 * (((((t0) * (t0) - 2 * ((t1) * (t1))) * (t0) - 2 * (((t0) * (t1) + (t1) * (t0)) * (t1))) * (((t0) * (t0) - 2 * ((t1) * (t1))) * (t1) + ((t0) * (t1) + (t1) * (t0)) * (t0)) + (((t0) * (t0) - 2 * ((t1) * (t1))) * (t1) + ((t0) * (t1) + (t1) * (t0)) * (t0)) * (((t0) * (t0) - 2 * ((t1) * (t1))) * (t0) - 2 * (((t0) * (t1) + (t1) * (t0)) * (t1)))) * (((t0) * (t0) - 2 * ((t1) * (t1))) * (t1) + ((t0) * (t1) + (t1) * (t0)) * (t0))))
{ }
// TwistPoint::point_add with rhs.z == 1, both operands finite: the differences
spec fn ma1_rel(X1: F2, Y1: F2, Z1: F2, X2: F2, Y2: F2, t1: F2, t2: F2, u: F2, s: F2, h: F2, r: F2) -> bool {
    t1 == m2_mul(Z1, Z1)
    && t2 == m2_mul(t1, Z1)
    && u == m2_mul(t1, X2)
    && s == m2_mul(t2, Y2)
    && h == m2_sub(u, X1)
    && r == m2_sub(s, Y1)
}
proof fn ma1_chain(X1: F2, Y1: F2, Z1: F2, X2: F2, Y2: F2, t1: F2, t2: F2, u: F2, s: F2, h: F2, r: F2, X1p: F2, Y1p: F2, Z1p: F2, X2p: F2, Y2p: F2)
    requires ma1_rel(X1, Y1, Z1, X2, Y2, t1, t2, u, s, h, r),
        qc(X1, X1p),
        qc(Y1, Y1p),
        qc(Z1, Z1p),
        qc(X2, X2p),
        qc(Y2, Y2p)
    ensures qc(h, q_sub(q_mul(q_mul(Z1p, Z1p), X2p), X1p)),
        qc(r, q_sub(q_mul(q_mul(q_mul(Z1p, Z1p), Z1p), Y2p), Y1p)),
        m2_ok(h),
        m2_ok(r)
{
    t2_cm(t1, Z1, Z1, Z1p, Z1p);
    t2_cm(t2, t1, Z1, q_mul(Z1p, Z1p), Z1p);
    t2_cm(u, t1, X2, q_mul(Z1p, Z1p), X2p);
    t2_cm(s, t2, Y2, q_mul(q_mul(Z1p, Z1p), Z1p), Y2p);
    t2_cs(h, u, X1, q_mul(q_mul(Z1p, Z1p), X2p), X1p);
    t2_cs(r, s, Y1, q_mul(q_mul(q_mul(Z1p, Z1p), Z1p), Y2p), Y1p);
}
proof fn qr_ma_h(x1: F2, x2: F2, z: F2)
    ensures q_sub(q_mul(q_mul(z, z), x2), q_mul(q_mul(x1, z), z))
        == q_mul(q_sub(x2, x1), q_mul(z, z))
{
    reveal(q_add); reveal(q_sub); reveal(q_mul); reveal(q_k); reveal(q_c);
    ring_ma_h_0(x1.c0, x1.c1, x2.c0, x2.c1, z.c0, z.c1); ring_ma_h_1(x1.c0, x1.c1, x2.c0, x2.c1, z.c0, z.c1);
}
#[verifier::external_body]
proof fn ring_ma_h_0(x10: int, x11: int, x20: int, x21: int, z0: int, z1: int)
    ensures (((z0) * (z0) - 2 * ((z1) * (z1))) * (x20) - 2 * (((z0) * (z1) + (z1) * (z0)) * (x21))) - (((x10) * (z0) - 2 * ((x11) * (z1))) * (z0) - 2 * (((x10) * (z1) + (x11) * (z0)) * (z1)))
        == ((x20) - (x10)) * ((z0) * (z0) - 2 * ((z1) * (z1))) - 2 * (((x21) - (x11)) * ((z0) * (z1) + (z1) * (z0)))
{ }
#[verifier::external_body]
proof fn ring_ma_h_1(x10: int, x11: int, x20: int, x21: int, z0: int, z1: int)
    ensures (((z0) * (z0) - 2 * ((z1) * (z1))) * (x21) + ((z0) * (z1) + (z1) * (z0)) * (x20)) - (((x10) * (z0) - 2 * ((x11) * (z1))) * (z1) + ((x10) * (z1) + (x11) * (z0)) * (z0))
        == ((x20) - (x10)) * ((z0) * (z1) + (z1) * (z0)) + ((x21) - (x11)) * ((z0) * (z0) - 2 * ((z1) * (z1)))
{ }
proof fn qr_ma_r(y1: F2, y2: F2, z: F2)
    ensures q_sub(q_mul(q_mul(q_mul(z, z), z), y2), q_mul(q_mul(q_mul(y1, z), z), z))
        == q_mul(q_sub(y2, y1), q_mul(q_mul(z, z), z))
{
    reveal(q_add); reveal(q_sub); reveal(q_mul); reveal(q_k); reveal(q_c);
    ring_ma_r_0(y1.c0, y1.c1, y2.c0, y2.c1, z.c0, z.c1); ring_ma_r_1(y1.c0, y1.c1, y2.c0, y2.c1, z.c0, z.c1);
}
#[verifier::external_body]
proof fn ring_ma_r_0(y10: int, y11: int, y20: int, y21: int, z0: int, z1: int)
    ensures ((((z0) * (z0) - 2 * ((z1) * (z1))) * (z0) - 2 * (((z0) * (z1) + (z1) * (z0)) * (z1))) * (y20) - 2 * ((((z0) * (z0) - 2 * ((z1) * (z1))) * (z1) + ((z0) * (z1) + (z1) * (z0)) * (z0)) * (y21))) - ((((y10) * (z0) - 2 * ((y11) * (z1))) * (z0) - 2 * (((y10) * (z1) + (y11) * (z0)) * (z1))) * (z0) - 2 * ((((y10) * (z0) - 2 * ((y11) * (z1))) * (z1) + ((y10) * (z1) + (y11) * (z0)) * (z0)) * (z1)))
        == ((y20) - (y10)) * (((z0) * (z0) - 2 * ((z1) * (z1))) * (z0) - 2 * (((z0) * (z1) + (z1) * (z0)) * (z1))) - 2 * (((y21) - (y11)) * (((z0) * (z0) - 2 * ((z1) * (z1))) * (z1) + ((z0) * (z1) + (z1) * (z0)) * (z0)))
{ }
#[verifier::external_body]
proof fn ring_ma_r_1(y10: int, y11: int, y20: int, y21: int, z0: int, z1: int)
    ensures ((((z0) * (z0) - 2 * ((z1) * (z1))) * (z0) - 2 * (((z0) * (z1) + (z1) * (z0)) * (z1))) * (y21) + (((z0) * (z0) - 2 * ((z1) * (z1))) * (z1) + ((z0) * (z1) + (z1) * (z0)) * (z0)) * (y20)) - ((((y10) * (z0) - 2 * ((y11) * (z1))) * (z0) - 2 * (((y10) * (z1) + (y11) * (z0)) * (z1))) * (z1) + (((y10) * (z0) - 2 * ((y11) * (z1))) * (z1) + ((y10) * (z1) + (y11) * (z0)) * (z0)) * (z0))
        == ((y20) - (y10)) * (((z0) * (z0) - 2 * ((z1) * (z1))) * (z1) + ((z0) * (z1) + (z1) * (z0)) * (z0)) + ((y21) - (y11)) * (((z0) * (z0) - 2 * ((z1) * (z1))) * (z0) - 2 * (((z0) * (z1) + (z1) * (z0)) * (z1)))
{ }
// TwistPoint::point_add: the generic branch
spec fn ma2_rel(h: F2, r: F2, X1: F2, Y1: F2, Z1: F2, z3: F2, h2: F2, h3: F2, v: F2, v2: F2, r2: F2, xa: F2, x3: F2, t3b: F2, t3c: F2, t4b: F2, y3: F2) -> bool {
    z3 == m2_mul(Z1, h)
    && h2 == m2_mul(h, h)
    && h3 == m2_mul(h2, h)
    && v == m2_mul(h2, X1)
    && v2 == m2_add(v, v)
    && r2 == m2_mul(r, r)
    && xa == m2_sub(r2, v2)
    && x3 == m2_sub(xa, h3)
    && t3b == m2_sub(v, x3)
    && t3c == m2_mul(t3b, r)
    && t4b == m2_mul(h3, Y1)
    && y3 == m2_sub(t3c, t4b)
}
proof fn ma2_chain(h: F2, r: F2, X1: F2, Y1: F2, Z1: F2, z3: F2, h2: F2, h3: F2, v: F2, v2: F2, r2: F2, xa: F2, x3: F2, t3b: F2, t3c: F2, t4b: F2, y3: F2, hp: F2, rp: F2, X1p: F2, Y1p: F2, Z1p: F2)
    requires ma2_rel(h, r, X1, Y1, Z1, z3, h2, h3, v, v2, r2, xa, x3, t3b, t3c, t4b, y3),
        qc(h, hp),
        qc(r, rp),
        qc(X1, X1p),
        qc(Y1, Y1p),
        qc(Z1, Z1p)
    ensures qc(x3, q_sub(q_sub(q_mul(rp, rp), q_add(q_mul(q_mul(hp, hp), X1p), q_mul(q_mul(hp, hp), X1p))), q_mul(q_mul(hp, hp), hp))),
        qc(y3, q_sub(q_mul(q_sub(q_mul(q_mul(hp, hp), X1p), q_sub(q_sub(q_mul(rp, rp), q_add(q_mul(q_mul(hp, hp), X1p), q_mul(q_mul(hp, hp), X1p))), q_mul(q_mul(hp, hp), hp))), rp), q_mul(q_mul(q_mul(hp, hp), hp), Y1p))),
        qc(z3, q_mul(Z1p, hp)),
        m2_ok(x3),
        m2_ok(y3),
        m2_ok(z3)
{
    t2_cm(z3, Z1, h, Z1p, hp);
    t2_cm(h2, h, h, hp, hp);
    t2_cm(h3, h2, h, q_mul(hp, hp), hp);
    t2_cm(v, h2, X1, q_mul(hp, hp), X1p);
    t2_ca(v2, v, v, q_mul(q_mul(hp, hp), X1p), q_mul(q_mul(hp, hp), X1p));
    t2_cm(r2, r, r, rp, rp);
    t2_cs(xa, r2, v2, q_mul(rp, rp), q_add(q_mul(q_mul(hp, hp), X1p), q_mul(q_mul(hp, hp), X1p)));
    t2_cs(x3, xa, h3, q_sub(q_mul(rp, rp), q_add(q_mul(q_mul(hp, hp), X1p), q_mul(q_mul(hp, hp), X1p))), q_mul(q_mul(hp, hp), hp));
    t2_cs(t3b, v, x3, q_mul(q_mul(hp, hp), X1p), q_sub(q_sub(q_mul(rp, rp), q_add(q_mul(q_mul(hp, hp), X1p), q_mul(q_mul(hp, hp), X1p))), q_mul(q_mul(hp, hp), hp)));
    t2_cm(t3c, t3b, r, q_sub(q_mul(q_mul(hp, hp), X1p), q_sub(q_sub(q_mul(rp, rp), q_add(q_mul(q_mul(hp, hp), X1p), q_mul(q_mul(hp, hp), X1p))), q_mul(q_mul(hp, hp), hp))), rp);
    t2_cm(t4b, h3, Y1, q_mul(q_mul(hp, hp), hp), Y1p);
    t2_cs(y3, t3c, t4b, q_mul(q_sub(q_mul(q_mul(hp, hp), X1p), q_sub(q_sub(q_mul(rp, rp), q_add(q_mul(q_mul(hp, hp), X1p), q_mul(q_mul(hp, hp), X1p))), q_mul(q_mul(hp, hp), hp))), rp), q_mul(q_mul(q_mul(hp, hp), hp), Y1p));
}
proof fn qr_ma_z(dxv: F2, z: F2)
    ensures q_mul(z, q_mul(dxv, q_mul(z, z)))
        == q_mul(dxv, q_mul(q_mul(z, z), z))
{
    reveal(q_add); reveal(q_sub); reveal(q_mul); reveal(q_k); reveal(q_c);
    ring_ma_z_0(dxv.c0, dxv.c1, z.c0, z.c1); ring_ma_z_1(dxv.c0, dxv.c1, z.c0, z.c1);
}
#[verifier::external_body]
proof fn ring_ma_z_0(dxv0: int, dxv1: int, z0: int, z1: int)
    ensures (z0) * ((dxv0) * ((z0) * (z0) - 2 * ((z1) * (z1))) - 2 * ((dxv1) * ((z0) * (z1) + (z1) * (z0)))) - 2 * ((z1) * ((dxv0) * ((z0) * (z1) + (z1) * (z0)) + (dxv1) * ((z0) * (z0) - 2 * ((z1) * (z1)))))
        == (dxv0) * (((z0) * (z0) - 2 * ((z1) * (z1))) * (z0) - 2 * (((z0) * (z1) + (z1) * (z0)) * (z1))) - 2 * ((dxv1) * (((z0) * (z0) - 2 * ((z1) * (z1))) * (z1) + ((z0) * (z1) + (z1) * (z0)) * (z0)))
{ }
#[verifier::external_body]
proof fn ring_ma_z_1(dxv0: int, dxv1: int, z0: int, z1: int)
    ensures (z0) * ((dxv0) * ((z0) * (z1) + (z1) * (z0)) + (dxv1) * ((z0) * (z0) - 2 * ((z1) * (z1)))) + (z1) * ((dxv0) * ((z0) * (z0) - 2 * ((z1) * (z1))) - 2 * ((dxv1) * ((z0) * (z1) + (z1) * (z0))))
        == (dxv0) * (((z0) * (z0) - 2 * ((z1) * (z1))) * (z1) + ((z0) * (z1) + (z1) * (z0)) * (z0)) + (dxv1) * (((z0) * (z0) - 2 * ((z1) * (z1))) * (z0) - 2 * (((z0) * (z1) + (z1) * (z0)) * (z1)))
{ }
proof fn qr_ma_x(x1: F2, x2: F2, dyv: F2, z: F2)
    ensures q_sub(q_sub(q_mul(q_mul(dyv, q_mul(q_mul(z, z), z)), q_mul(dyv, q_mul(q_mul(z, z), z))), q_add(q_mul(q_mul(q_mul(q_sub(x2, x1), q_mul(z, z)), q_mul(q_sub(x2, x1), q_mul(z, z))), q_mul(q_mul(x1, z), z)), q_mul(q_mul(q_mul(q_sub(x2, x1), q_mul(z, z)), q_mul(q_sub(x2, x1), q_mul(z, z))), q_mul(q_mul(x1, z), z)))), q_mul(q_mul(q_mul(q_sub(x2, x1), q_mul(z, z)), q_mul(q_sub(x2, x1), q_mul(z, z))), q_mul(q_sub(x2, x1), q_mul(z, z))))
        == q_mul(q_sub(q_mul(dyv, dyv), q_mul(q_add(x1, x2), q_mul(q_sub(x2, x1), q_sub(x2, x1)))), q_mul(q_mul(q_mul(z, z), z), q_mul(q_mul(z, z), z)))
{
    reveal(q_add); reveal(q_sub); reveal(q_mul); reveal(q_k); reveal(q_c);
    ring_ma_x_0(x1.c0, x1.c1, x2.c0, x2.c1, dyv.c0, dyv.c1, z.c0, z.c1); ring_ma_x_1(x1.c0, x1.c1, x2.c0, x2.c1, dyv.c0, dyv.c1, z.c0, z.c1);
}
#[verifier::external_body]
proof fn ring_ma_x_0(x10: int, x11: int, x20: int, x21: int, dyv0: int, dyv1: int, z0: int, z1: int)
    ensures ((((dyv0) * (((z0) * (z0) - 2 * ((z1) * (z1))) * (z0) - 2 * (((z0) * (z1) + (z1) * (z0)) * (z1))) - 2 * ((dyv1) * (((z0) * (z0) - 2 * ((z1) * (z1))) * (z1) + ((z0) * (z1) + (z1) * (z0)) * (z0)))) * ((dyv0) * (((z0) * (z0) - 2 * ((z1) * (z1))) * (z0) - 2 * (((z0) * (z1) + (z1) * (z0)) * (z1))) - 2 * ((dyv1) * (((z0) * (z0) - 2 * ((z1) * (z1))) * (z1) + ((z0) * (z1) + (z1) * (z0)) * (z0)))) - 2 * (((dyv0) * (((z0) * (z0) - 2 * ((z1) * (z1))) * (z1) + ((z0) * (z1) + (z1) * (z0)) * (z0)) + (dyv1) * (((z0) * (z0) - 2 * ((z1) * (z1))) * (z0) - 2 * (((z0) * (z1) + (z1) * (z0)) * (z1)))) * ((dyv0) * (((z0) * (z0) - 2 * ((z1) * (z1))) * (z1) + ((z0) * (z1) + (z1) * (z0)) * (z0)) + (dyv1) * (((z0) * (z0) - 2 * ((z1) * (z1))) * (z0) - 2 * (((z0) * (z1) + (z1) * (z0)) * (z1)))))) - ((((((x20) - (x10)) * ((z0) * (z0) - 2 * ((z1) * (z1))) - 2 * (((x21) - (x11)) * ((z0) * (z1) + (z1) * (z0)))) * (((x20) - (x10)) * ((z0) * (z0) - 2 * ((z1) * (z1))) - 2 * (((x21) - (x11)) * ((z0) * (z1) + (z1) * (z0)))) - 2 * ((((x20) - (x10)) * ((z0) * (z1) + (z1) * (z0)) + ((x21) - (x11)) * ((z0) * (z0) - 2 * ((z1) * (z1)))) * (((x20) - (x10)) * ((z0) * (z1) + (z1) * (z0)) + ((x21) - (x11)) * ((z0) * (z0) - 2 * ((z1) * (z1)))))) * (((x10) * (z0) - 2 * ((x11) * (z1))) * (z0) - 2 * (((x10) * (z1) + (x11) * (z0)) * (z1))) - 2 * (((((x20) - (x10)) * ((z0) * (z0) - 2 * ((z1) * (z1))) - 2 * (((x21) - (x11)) * ((z0) * (z1) + (z1) * (z0)))) * (((x20) - (x10)) * ((z0) * (z1) + (z1) * (z0)) + ((x21) - (x11)) * ((z0) * (z0) - 2 * ((z1) * (z1)))) + (((x20) - (x10)) * ((z0) * (z1) + (z1) * (z0)) + ((x21) - (x11)) * ((z0) * (z0) - 2 * ((z1) * (z1)))) * (((x20) - (x10)) * ((z0) * (z0) - 2 * ((z1) * (z1))) - 2 * (((x21) - (x11)) * ((z0) * (z1) + (z1) * (z0))))) * (((x10) * (z0) - 2 * ((x11) * (z1))) * (z1) + ((x10) * (z1) + (x11) * (z0)) * (z0)))) + (((((x20) - (x10)) * ((z0) * (z0) - 2 * ((z1) * (z1))) - 2 * (((x21) - (x11)) * ((z0) * (z1) + (z1) * (z0)))) * (((x20) - (x10)) * ((z0) * (z0) - 2 * ((z1) * (z1))) - 2 * (((x21) - (x11)) * ((z0) * (z1) + (z1) * (z0)))) - 2 * ((((x20) - (x10)) * ((z0) * (z1) + (z1) * (z0)) + ((x21) - (x11)) * ((z0) * (z0) - 2 * ((z1) * (z1)))) * (((x20) - (x10)) * ((z0) * (z1) + (z1) * (z0)) + ((x21) - (x11)) * ((z0) * (z0) - 2 * ((z1) * (z1)))))) * (((x10) * (z0) - 2 * ((x11) * (z1))) * (z0) - 2 * (((x10) * (z1) + (x11) * (z0)) * (z1))) - 2 * (((((x20) - (x10)) * ((z0) * (z0) - 2 * ((z1) * (z1))) - 2 * (((x21) - (x11)) * ((z0) * (z1) + (z1) * (z0)))) * (((x20) - (x10)) * ((z0) * (z1) + (z1) * (z0)) + ((x21) - (x11)) * ((z0) * (z0) - 2 * ((z1) * (z1)))) + (((x20) - (x10)) * ((z0) * (z1) + (z1) * (z0)) + ((x21) - (x11)) * ((z0) * (z0) - 2 * ((z1) * (z1)))) * (((x20) - (x10)) * ((z0) * (z0) - 2 * ((z1) * (z1))) - 2 * (((x21) - (x11)) * ((z0) * (z1) + (z1) * (z0))))) * (((x10) * (z0) - 2 * ((x11) * (z1))) * (z1) + ((x10) * (z1) + (x11) * (z0)) * (z0)))))) - (((((x20) - (x10)) * ((z0) * (z0) - 2 * ((z1) * (z1))) - 2 * (((x21) - (x11)) * ((z0) * (z1) + (z1) * (z0)))) * (((x20) - (x10)) * ((z0) * (z0) - 2 * ((z1) * (z1))) - 2 * (((x21) - (x11)) * ((z0) * (z1) + (z1) * (z0)))) - 2 * ((((x20) - (x10)) * ((z0) * (z1) + (z1) * (z0)) + ((x21) - (x11)) * ((z0) * (z0) - 2 * ((z1) * (z1)))) * (((x20) - (x10)) * ((z0) * (z1) + (z1) * (z0)) + ((x21) - (x11)) * ((z0) * (z0) - 2 * ((z1) * (z1)))))) * (((x20) - (x10)) * ((z0) * (z0) - 2 * ((z1) * (z1))) - 2 * (((x21) - (x11)) * ((z0) * (z1) + (z1) * (z0)))) - 2 * (((((x20) - (x10)) * ((z0) * (z0) - 2 * ((z1) * (z1))) - 2 * (((x21) - (x11)) * ((z0) * (z1) + (z1) * (z0)))) * (((x20) - (x10)) * ((z0) * (z1) + (z1) * (z0)) + ((x21) - (x11)) * ((z0) * (z0) - 2 * ((z1) * (z1)))) + (((x20) - (x10)) * ((z0) * (z1) + (z1) * (z0)) + ((x21) - (x11)) * ((z0) * (z0) - 2 * ((z1) * (z1)))) * (((x20) - (x10)) * ((z0) * (z0) - 2 * ((z1) * (z1))) - 2 * (((x21) - (x11)) * ((z0) * (z1) + (z1) * (z0))))) * (((x20) - (x10)) * ((z0) * (z1) + (z1) * (z0)) + ((x21) - (x11)) * ((z0) * (z0) - 2 * ((z1) * (z1))))))
        == (((dyv0) * (dyv0) - 2 * ((dyv1) * (dyv1))) - (((x10) + (x20)) * (((x20) - (x10)) * ((x20) - (x10)) - 2 * (((x21) - (x11)) * ((x21) - (x11)))) - 2 * (((x11) + (x21)) * (((x20) - (x10)) * ((x21) - (x11)) + ((x21) - (x11)) * ((x20) - (x10)))))) * ((((z0) * (z0) - 2 * ((z1) * (z1))) * (z0) - 2 * (((z0) * (z1) + (z1) * (z0)) * (z1))) * (((z0) * (z0) - 2 * ((z1) * (z1))) * (z0) - 2 * (((z0) * (z1) + (z1) * (z0)) * (z1))) - 2 * ((((z0) * (z0) - 2 * ((z1) * (z1))) * (z1) + ((z0) * (z1) + (z1) * (z0)) * (z0)) * (((z0) * (z0) - 2 * ((z1) * (z1))) * (z1) + ((z0) * (z1) + (z1) * (z0)) * (z0)))) - 2 * ((((dyv0) * (dyv1) + (dyv1) * (dyv0)) - (((x10) + (x20)) * (((x20) - (x10)) * ((x21) - (x11)) + ((x21) - (x11)) * ((x20) - (x10))) + ((x11) + (x21)) * (((x20) - (x10)) * ((x20) - (x10)) - 2 * (((x21) - (x11)) * ((x21) - (x11)))))) * ((((z0) * (z0) - 2 * ((z1) * (z1))) * (z0) - 2 * (((z0) * (z1) + (z1) * (z0)) * (z1))) * (((z0) * (z0) - 2 * ((z1) * (z1))) * (z1) + ((z0) * (z1) + (z1) * (z0)) * (z0)) + (((z0) * (z0) - 2 * ((z1) * (z1))) * (z1) + ((z0) * (z1) + (z1) * (z0)) * (z0)) * (((z0) * (z0) - 2 * ((z1) * (z1))) * (z0) - 2 * (((z0) * (z1) + (z1) * (z0)) * (z1)))))
{ }
#[verifier::external_body]
proof fn ring_ma_x_1(x10: int, x11: int, x20: int, x21: int, dyv0: int, dyv1: int, z0: int, z1: int)
    ensures ((((dyv0) * (((z0) * (z0) - 2 * ((z1) * (z1))) * (z0) - 2 * (((z0) * (z1) + (z1) * (z0)) * (z1))) - 2 * ((dyv1) * (((z0) * (z0) - 2 * ((z1) * (z1))) * (z1) + ((z0) * (z1) + (z1) * (z0)) * (z0)))) * ((dyv0) * (((z0) * (z0) - 2 * ((z1) * (z1))) * (z1) + ((z0) * (z1) + (z1) * (z0)) * (z0)) + (dyv1) * (((z0) * (z0) - 2 * ((z1) * (z1))) * (z0) - 2 * (((z0) * (z1) + (z1) * (z0)) * (z1)))) + ((dyv0) * (((z0) * (z0) - 2 * ((z1) * (z1))) * (z1) + ((z0) * (z1) + (z1) * (z0)) * (z0)) + (dyv1) * (((z0) * (z0) - 2 * ((z1) * (z1))) * (z0) - 2 * (((z0) * (z1) + (z1) * (z0)) * (z1)))) * ((dyv0) * (((z0) * (z0) - 2 * ((z1) * (z1))) * (z0) - 2 * (((z0) * (z1) + (z1) * (z0)) * (z1))) - 2 * ((dyv1) * (((z0) * (z0) - 2 * ((z1) * (z1))) * (z1) + ((z0) * (z1) + (z1) * (z0)) * (z0))))) - ((((((x20) - (x10)) * ((z0) * (z0) - 2 * ((z1) * (z1))) - 2 * (((x21) - (x11)) * ((z0) * (z1) + (z1) * (z0)))) * (((x20) - (x10)) * ((z0) * (z0) - 2 * ((z1) * (z1))) - 2 * (((x21) - (x11)) * ((z0) * (z1) + (z1) * (z0)))) - 2 * ((((x20) - (x10)) * ((z0) * (z1) + (z1) * (z0)) + ((x21) - (x11)) * ((z0) * (z0) - 2 * ((z1) * (z1)))) * (((x20) - (x10)) * ((z0) * (z1) + (z1) * (z0)) + ((x21) - (x11)) * ((z0) * (z0) - 2 * ((z1) * (z1)))))) * (((x10) * (z0) - 2 * ((x11) * (z1))) * (z1) + ((x10) * (z1) + (x11) * (z0)) * (z0)) + ((((x20) - (x10)) * ((z0) * (z0) - 2 * ((z1) * (z1))) - 2 * (((x21) - (x11)) * ((z0) * (z1) + (z1) * (z0)))) * (((x20) - (x10)) * ((z0) * (z1) + (z1) * (z0)) + ((x21) - (x11)) * ((z0) * (z0) - 2 * ((z1) * (z1)))) + (((x20) - (x10)) * ((z0) * (z1) + (z1) * (z0)) + ((x21) - (x11)) * ((z0) * (z0) - 2 * ((z1) * (z1)))) * (((x20) - (x10)) * ((z0) * (z0) - 2 * ((z1) * (z1))) - 2 * (((x21) - (x11)) * ((z0) * (z1) + (z1) * (z0))))) * (((x10) * (z0) - 2 * ((x11) * (z1))) * (z0) - 2 * (((x10) * (z1) + (x11) * (z0)) * (z1)))) + (((((x20) - (x10)) * ((z0) * (z0) - 2 * ((z1) * (z1))) - 2 * (((x21) - (x11)) * ((z0) * (z1) + (z1) * (z0)))) * (((x20) - (x10)) * ((z0) * (z0) - 2 * ((z1) * (z1))) - 2 * (((x21) - (x11)) * ((z0) * (z1) + (z1) * (z0)))) - 2 * ((((x20) - (x10)) * ((z0) * (z1) + (z1) * (z0)) + ((x21) - (x11)) * ((z0) * (z0) - 2 * ((z1) * (z1)))) * (((x20) - (x10)) * ((z0) * (z1) + (z1) * (z0)) + ((x21) - (x11)) * ((z0) * (z0) - 2 * ((z1) * (z1)))))) * (((x10) * (z0) - 2 * ((x11) * (z1))) * (z1) + ((x10) * (z1) + (x11) * (z0)) * (z0)) + ((((x20) - (x10)) * ((z0) * (z0) - 2 * ((z1) * (z1))) - 2 * (((x21) - (x11)) * ((z0) * (z1) + (z1) * (z0)))) * (((x20) - (x10)) * ((z0) * (z1) + (z1) * (z0)) + ((x21) - (x11)) * ((z0) * (z0) - 2 * ((z1) * (z1)))) + (((x20) - (x10)) * ((z0) * (z1) + (z1) * (z0)) + ((x21) - (x11)) * ((z0) * (z0) - 2 * ((z1) * (z1)))) * (((x20) - (x10)) * ((z0) * (z0) - 2 * ((z1) * (z1))) - 2 * (((x21) - (x11)) * ((z0) * (z1) + (z1) * (z0))))) * (((x10) * (z0) - 2 * ((x11) * (z1))) * (z0) - 2 * (((x10) * (z1) + (x11) * (z0)) * (z1)))))) - (((((x20) - (x10)) * ((z0) * (z0) - 2 * ((z1) * (z1))) - 2 * (((x21) - (x11)) * ((z0) * (z1) + (z1) * (z0)))) * (((x20) - (x10)) * ((z0) * (z0) - 2 * ((z1) * (z1))) - 2 * (((x21) - (x11)) * ((z0) * (z1) + (z1) * (z0)))) - 2 * ((((x20) - (x10)) * ((z0) * (z1) + (z1) * (z0)) + ((x21) - (x11)) * ((z0) * (z0) - 2 * ((z1) * (z1)))) * (((x20) - (x10)) * ((z0) * (z1) + (z1) * (z0)) + ((x21) - (x11)) * ((z0) * (z0) - 2 * ((z1) * (z1)))))) * (((x20) - (x10)) * ((z0) * (z1) + (z1) * (z0)) + ((x21) - (x11)) * ((z0) * (z0) - 2 * ((z1) * (z1)))) + ((((x20) - (x10)) * ((z0) * (z0) - 2 * ((z1) * (z1))) - 2 * (((x21) - (x11)) * ((z0) * (z1) + (z1) * (z0)))) * (((x20) - (x10)) * ((z0) * (z1) + (z1) * (z0)) + ((x21) - (x11)) * ((z0) * (z0) - 2 * ((z1) * (z1)))) + (((x20) - (x10)) * ((z0) * (z1) + (z1) * (z0)) + ((x21) - (x11)) * ((z0) * (z0) - 2 * ((z1) * (z1)))) * (((x20) - (x10)) * ((z0) * (z0) - 2 * ((z1) * (z1))) - 2 * (((x21) - (x11)) * ((z0) * (z1) + (z1) * (z0))))) * (((x20) - (x10)) * ((z0) * (z0) - 2 * ((z1) * (z1))) - 2 * (((x21) - (x11)) * ((z0) * (z1) + (z1) * (z0)))))
        == (((dyv0) * (dyv0) - 2 * ((dyv1) * (dyv1))) - (((x10) + (x20)) * (((x20) - (x10)) * ((x20) - (x10)) - 2 * (((x21) - (x11)) * ((x21) - (x11)))) - 2 * (((x11) + (x21)) * (((x20) - (x10)) * ((x21) - (x11)) + ((x21) - (x11)) * ((x20) - (x10)))))) * ((((z0) * (z0) - 2 * ((z1) * (z1))) * (z0) - 2 * (((z0) * (z1) + (z1) * (z0)) * (z1))) * (((z0) * (z0) - 2 * ((z1) * (z1))) * (z1) + ((z0) * (z1) + (z1) * (z0)) * (z0)) + (((z0) * (z0) - 2 * ((z1) * (z1))) * (z1) + ((z0) * (z1) + (z1) * (z0)) * (z0)) * (((z0) * (z0) - 2 * ((z1) * (z1))) * (z0) - 2 * (((z0) * (z1) + (z1) * (z0)) * (z1)))) + (((dyv0) * (dyv1) + (dyv1) * (dyv0)) - (((x10) + (x20)) * (((x20) - (x10)) * ((x21) - (x11)) + ((x21) - (x11)) * ((x20) - (x10))) + ((x11) + (x21)) * (((x20) - (x10)) * ((x20) - (x10)) - 2 * (((x21) - (x11)) * ((x21) - (x11)))))) * ((((z0) * (z0) - 2 * ((z1) * (z1))) * (z0) - 2 * (((z0) * (z1) + (z1) * (z0)) * (z1))) * (((z0) * (z0) - 2 * ((z1) * (z1))) * (z0) - 2 * (((z0) * (z1) + (z1) * (z0)) * (z1))) - 2 * ((((z0) * (z0) - 2 * ((z1) * (z1))) * (z1) + ((z0) * (z1) + (z1) * (z0)) * (z0)) * (((z0) * (z0) - 2 * ((z1) * (z1))) * (z1) + ((z0) * (z1) + (z1) * (z0)) * (z0))))
{ }
proof fn qr_ma_y(x1: F2, y1: F2, dxv: F2, dyv: F2, x3nv: F2, z: F2)
    ensures q_sub(q_mul(q_sub(q_mul(q_mul(q_mul(dxv, q_mul(z, z)), q_mul(dxv, q_mul(z, z))), q_mul(q_mul(x1, z), z)), q_mul(x3nv, q_mul(q_mul(q_mul(z, z), z), q_mul(q_mul(z, z), z)))), q_mul(dyv, q_mul(q_mul(z, z), z))), q_mul(q_mul(q_mul(q_mul(dxv, q_mul(z, z)), q_mul(dxv, q_mul(z, z))), q_mul(dxv, q_mul(z, z))), q_mul(q_mul(q_mul(y1, z), z), z)))
        == q_mul(q_sub(q_mul(dyv, q_sub(q_mul(x1, q_mul(dxv, dxv)), x3nv)), q_mul(y1, q_mul(q_mul(dxv, dxv), dxv))), q_mul(q_mul(q_mul(q_mul(z, z), z), q_mul(q_mul(z, z), z)), q_mul(q_mul(z, z), z)))
{
    reveal(q_add); reveal(q_sub); reveal(q_mul); reveal(q_k); reveal(q_c);
    ring_ma_y_0(x1.c0, x1.c1, y1.c0, y1.c1, dxv.c0, dxv.c1, dyv.c0, dyv.c1, x3nv.c0, x3nv.c1, z.c0, z.c1); ring_ma_y_1(x1.c0, x1.c1, y1.c0, y1.c1, dxv.c0, dxv.c1, dyv.c0, dyv.c1, x3nv.c0, x3nv.c1, z.c0, z.c1);
}
#[verifier::external_body]
proof fn ring_ma_y_0(x10: int, x11: int, y10: int, y11: int, dxv0: int, dxv1: int, dyv0: int, dyv1: int, x3nv0: int, x3nv1: int, z0: int, z1: int)
    ensures ((((((dxv0) * ((z0) * (z0) - 2 * ((z1) * (z1))) - 2 * ((dxv1) * ((z0) * (z1) + (z1) * (z0)))) * ((dxv0) * ((z0) * (z0) - 2 * ((z1) * (z1))) - 2 * ((dxv1) * ((z0) * (z1) + (z1) * (z0)))) - 2 * (((dxv0) * ((z0) * (z1) + (z1) * (z0)) + (dxv1) * ((z0) * (z0) - 2 * ((z1) * (z1)))) * ((dxv0) * ((z0) * (z1) + (z1) * (z0)) + (dxv1) * ((z0) * (z0) - 2 * ((z1) * (z1)))))) * (((x10) * (z0) - 2 * ((x11) * (z1))) * (z0) - 2 * (((x10) * (z1) + (x11) * (z0)) * (z1))) - 2 * ((((dxv0) * ((z0) * (z0) - 2 * ((z1) * (z1))) - 2 * ((dxv1) * ((z0) * (z1) + (z1) * (z0)))) * ((dxv0) * ((z0) * (z1) + (z1) * (z0)) + (dxv1) * ((z0) * (z0) - 2 * ((z1) * (z1)))) + ((dxv0) * ((z0) * (z1) + (z1) * (z0)) + (dxv1) * ((z0) * (z0) - 2 * ((z1) * (z1)))) * ((dxv0) * ((z0) * (z0) - 2 * ((z1) * (z1))) - 2 * ((dxv1) * ((z0) * (z1) + (z1) * (z0))))) * (((x10) * (z0) - 2 * ((x11) * (z1))) * (z1) + ((x10) * (z1) + (x11) * (z0)) * (z0)))) - ((x3nv0) * ((((z0) * (z0) - 2 * ((z1) * (z1))) * (z0) - 2 * (((z0) * (z1) + (z1) * (z0)) * (z1))) * (((z0) * (z0) - 2 * ((z1) * (z1))) * (z0) - 2 * (((z0) * (z1) + (z1) * (z0)) * (z1))) - 2 * ((((z0) * (z0) - 2 * ((z1) * (z1))) * (z1) + ((z0) * (z1) + (z1) * (z0)) * (z0)) * (((z0) * (z0) - 2 * ((z1) * (z1))) * (z1) + ((z0) * (z1) + (z1) * (z0)) * (z0)))) - 2 * ((x3nv1) * ((((z0) * (z0) - 2 * ((z1) * (z1))) * (z0) - 2 * (((z0) * (z1) + (z1) * (z0)) * (z1))) * (((z0) * (z0) - 2 * ((z1) * (z1))) * (z1) + ((z0) * (z1) + (z1) * (z0)) * (z0)) + (((z0) * (z0) - 2 * ((z1) * (z1))) * (z1) + ((z0) * (z1) + (z1) * (z0)) * (z0)) * (((z0) * (z0) - 2 * ((z1) * (z1))) * (z0) - 2 * (((z0) * (z1) + (z1) * (z0)) * (z1))))))) * ((dyv0) * (((z0) * (z0) - 2 * ((z1) * (z1))) * (z0) - 2 * (((z0) * (z1) + (z1) * (z0)) * (z1))) - 2 * ((dyv1) * (((z0) * (z0) - 2 * ((z1) * (z1))) * (z1) + ((z0) * (z1) + (z1) * (z0)) * (z0)))) - 2 * ((((((dxv0) * ((z0) * (z0) - 2 * ((z1) * (z1))) - 2 * ((dxv1) * ((z0) * (z1) + (z1) * (z0)))) * ((dxv0) * ((z0) * (z0) - 2 * ((z1) * (z1))) - 2 * ((dxv1) * ((z0) * (z1) + (z1) * (z0)))) - 2 * (((dxv0) * ((z0) * (z1) + (z1) * (z0)) + (dxv1) * ((z0) * (z0) - 2 * ((z1) * (z1)))) * ((dxv0) * ((z0) * (z1) + (z1) * (z0)) + (dxv1) * ((z0) * (z0) - 2 * ((z1) * (z1)))))) * (((x10) * (z0) - 2 * ((x11) * (z1))) * (z1) + ((x10) * (z1) + (x11) * (z0)) * (z0)) + (((dxv0) * ((z0) * (z0) - 2 * ((z1) * (z1))) - 2 * ((dxv1) * ((z0) * (z1) + (z1) * (z0)))) * ((dxv0) * ((z0) * (z1) + (z1) * (z0)) + (dxv1) * ((z0) * (z0) - 2 * ((z1) * (z1)))) + ((dxv0) * ((z0) * (z1) + (z1) * (z0)) + (dxv1) * ((z0) * (z0) - 2 * ((z1) * (z1)))) * ((dxv0) * ((z0) * (z0) - 2 * ((z1) * (z1))) - 2 * ((dxv1) * ((z0) * (z1) + (z1) * (z0))))) * (((x10) * (z0) - 2 * ((x11) * (z1))) * (z0) - 2 * (((x10) * (z1) + (x11) * (z0)) * (z1)))) - ((x3nv0) * ((((z0) * (z0) - 2 * ((z1) * (z1))) * (z0) - 2 * (((z0) * (z1) + (z1) * (z0)) * (z1))) * (((z0) * (z0) - 2 * ((z1) * (z1))) * (z1) + ((z0) * (z1) + (z1) * (z0)) * (z0)) + (((z0) * (z0) - 2 * ((z1) * (z1))) * (z1) + ((z0) * (z1) + (z1) * (z0)) * (z0)) * (((z0) * (z0) - 2 * ((z1) * (z1))) * (z0) - 2 * (((z0) * (z1) + (z1) * (z0)) * (z1)))) + (x3nv1) * ((((z0) * (z0) - 2 * ((z1) * (z1))) * (z0) - 2 * (((z0) * (z1) + (z1) * (z0)) * (z1))) * (((z0) * (z0) - 2 * ((z1) * (z1))) * (z0) - 2 * (((z0) * (z1) + (z1) * (z0)) * (z1))) - 2 * ((((z0) * (z0) - 2 * ((z1) * (z1))) * (z1) + ((z0) * (z1) + (z1) * (z0)) * (z0)) * (((z0) * (z0) - 2 * ((z1) * (z1))) * (z1) + ((z0) * (z1) + (z1) * (z0)) * (z0)))))) * ((dyv0) * (((z0) * (z0) - 2 * ((z1) * (z1))) * (z1) + ((z0) * (z1) + (z1) * (z0)) * (z0)) + (dyv1) * (((z0) * (z0) - 2 * ((z1) * (z1))) * (z0) - 2 * (((z0) * (z1) + (z1) * (z0)) * (z1)))))) - (((((dxv0) * ((z0) * (z0) - 2 * ((z1) * (z1))) - 2 * ((dxv1) * ((z0) * (z1) + (z1) * (z0)))) * ((dxv0) * ((z0) * (z0) - 2 * ((z1) * (z1))) - 2 * ((dxv1) * ((z0) * (z1) + (z1) * (z0)))) - 2 * (((dxv0) * ((z0) * (z1) + (z1) * (z0)) + (dxv1) * ((z0) * (z0) - 2 * ((z1) * (z1)))) * ((dxv0) * ((z0) * (z1) + (z1) * (z0)) + (dxv1) * ((z0) * (z0) - 2 * ((z1) * (z1)))))) * ((dxv0) * ((z0) * (z0) - 2 * ((z1) * (z1))) - 2 * ((dxv1) * ((z0) * (z1) + (z1) * (z0)))) - 2 * ((((dxv0) * ((z0) * (z0) - 2 * ((z1) * (z1))) - 2 * ((dxv1) * ((z0) * (z1) + (z1) * (z0)))) * ((dxv0) * ((z0) * (z1) + (z1) * (z0)) + (dxv1) * ((z0) * (z0) - 2 * ((z1) * (z1)))) + ((dxv0) * ((z0) * (z1) + (z1) * (z0)) + (dxv1) * ((z0) * (z0) - 2 * ((z1) * (z1)))) * ((dxv0) * ((z0) * (z0) - 2 * ((z1) * (z1))) - 2 * ((dxv1) * ((z0) * (z1) + (z1) * (z0))))) * ((dxv0) * ((z0) * (z1) + (z1) * (z0)) + (dxv1) * ((z0) * (z0) - 2 * ((z1) * (z1)))))) * ((((y10) * (z0) - 2 * ((y11) * (z1))) * (z0) - 2 * (((y10) * (z1) + (y11) * (z0)) * (z1))) * (z0) - 2 * ((((y10) * (z0) - 2 * ((y11) * (z1))) * (z1) + ((y10) * (z1) + (y11) * (z0)) * (z0)) * (z1))) - 2 * (((((dxv0) * ((z0) * (z0) - 2 * ((z1) * (z1))) - 2 * ((dxv1) * ((z0) * (z1) + (z1) * (z0)))) * ((dxv0) * ((z0) * (z0) - 2 * ((z1) * (z1))) - 2 * ((dxv1) * ((z0) * (z1) + (z1) * (z0)))) - 2 * (((dxv0) * ((z0) * (z1) + (z1) * (z0)) + (dxv1) * ((z0) * (z0) - 2 * ((z1) * (z1)))) * ((dxv0) * ((z0) * (z1) + (z1) * (z0)) + (dxv1) * ((z0) * (z0) - 2 * ((z1) * (z1)))))) * ((dxv0) * ((z0) * (z1) + (z1) * (z0)) + (dxv1) * ((z0) * (z0) - 2 * ((z1) * (z1)))) + (((dxv0) * ((z0) * (z0) - 2 * ((z1) * (z1))) - 2 * ((dxv1) * ((z0) * (z1) + (z1) * (z0)))) * ((dxv0) * ((z0) * (z1) + (z1) * (z0)) + (dxv1) * ((z0) * (z0) - 2 * ((z1) * (z1)))) + ((dxv0) * ((z0) * (z1) + (z1) * (z0)) + (dxv1) * ((z0) * (z0) - 2 * ((z1) * (z1)))) * ((dxv0) * ((z0) * (z0) - 2 * ((z1) * (z1))) - 2 * ((dxv1) * ((z0) * (z1) + (z1) * (z0))))) * ((dxv0) * ((z0) * (z0) - 2 * ((z1) * (z1))) - 2 * ((dxv1) * ((z0) * (z1) + (z1) * (z0))))) * ((((y10) * (z0) - 2 * ((y11) * (z1))) * (z0) - 2 * (((y10) * (z1) + (y11) * (z0)) * (z1))) * (z1) + (((y10) * (z0) - 2 * ((y11) * (z1))) * (z1) + ((y10) * (z1) + (y11) * (z0)) * (z0)) * (z0))))
        == (((dyv0) * (((x10) * ((dxv0) * (dxv0) - 2 * ((dxv1) * (dxv1))) - 2 * ((x11) * ((dxv0) * (dxv1) + (dxv1) * (dxv0)))) - (x3nv0)) - 2 * ((dyv1) * (((x10) * ((dxv0) * (dxv1) + (dxv1) * (dxv0)) + (x11) * ((dxv0) * (dxv0) - 2 * ((dxv1) * (dxv1)))) - (x3nv1)))) - ((y10) * (((dxv0) * (dxv0) - 2 * ((dxv1) * (dxv1))) * (dxv0) - 2 * (((dxv0) * (dxv1) + (dxv1) * (dxv0)) * (dxv1))) - 2 * ((y11) * (((dxv0) * (dxv0) - 2 * ((dxv1) * (dxv1))) * (dxv1) + ((dxv0) * (dxv1) + (dxv1) * (dxv0)) * (dxv0))))) * (((((z0) * (z0) - 2 * ((z1) * (z1))) * (z0) - 2 * (((z0) * (z1) + (z1) * (z0)) * (z1))) * (((z0) * (z0) - 2 * ((z1) * (z1))) * (z0) - 2 * (((z0) * (z1) + (z1) * (z0)) * (z1))) - 2 * ((((z0) * (z0) - 2 * ((z1) * (z1))) * (z1) + ((z0) * (z1) + (z1) * (z0)) * (z0)) * (((z0) * (z0) - 2 * ((z1) * (z1))) * (z1) + ((z0) * (z1) + (z1) * (z0)) * (z0)))) * (((z0) * (z0) - 2 * ((z1) * (z1))) * (z0) - 2 * (((z0) * (z1) + (z1) * (z0)) * (z1))) - 2 * (((((z0) * (z0) - 2 * ((z1) * (z1))) * (z0) - 2 * (((z0) * (z1) + (z1) * (z0)) * (z1))) * (((z0) * (z0) - 2 * ((z1) * (z1))) * (z1) + ((z0) * (z1) + (z1) * (z0)) * (z0)) + (((z0) * (z0) - 2 * ((z1) * (z1))) * (z1) + ((z0) * (z1) + (z1) * (z0)) * (z0)) * (((z0) * (z0) - 2 * ((z1) * (z1))) * (z0) - 2 * (((z0) * (z1) + (z1) * (z0)) * (z1)))) * (((z0) * (z0) - 2 * ((z1) * (z1))) * (z1) + ((z0) * (z1) + (z1) * (z0)) * (z0)))) - 2 * ((((dyv0) * (((x10) * ((dxv0) * (dxv1) + (dxv1) * (dxv0)) + (x11) * ((dxv0) * (dxv0) - 2 * ((dxv1) * (dxv1)))) - (x3nv1)) + (dyv1) * (((x10) * ((dxv0) * (dxv0) - 2 * ((dxv1) * (dxv1))) - 2 * ((x11) * ((dxv0) * (dxv1) + (dxv1) * (dxv0)))) - (x3nv0))) - ((y10) * (((dxv0) * (dxv0) - 2 * ((dxv1) * (dxv1))) * (dxv1) + ((dxv0) * (dxv1) + (dxv1) * (dxv0)) * (dxv0)) + (y11) * (((dxv0) * (dxv0) - 2 * ((dxv1) * (dxv1))) * (dxv0) - 2 * (((dxv0) * (dxv1) + (dxv1) * (dxv0)) * (dxv1))))) * (((((z0) * (z0) - 2 * ((z1) * (z1))) * (z0) - 2 * (((z0) * (z1) + (z1) * (z0)) * (z1))) * (((z0) * (z0) - 2 * ((z1) * (z1))) * (z0) - 2 * (((z0) * (z1) + (z1) * (z0)) * (z1))) - 2 * ((((z0) * (z0) - 2 * ((z1) * (z1))) * (z1) + ((z0) * (z1) + (z1) * (z0)) * (z0)) * (((z0) * (z0) - 2 * ((z1) * (z1))) * (z1) + ((z0) * (z1) + (z1) * (z0)) * (z0)))) * (((z0) * (z0) - 2 * ((z1) * (z1))) * (z1) + ((z0) * (z1) + (z1) * (z0)) * (z0)) + ((((z0) * (z0) - 2 * ((z1) * (z1))) * (z0) - 2 * (((z0) * (z1) + (z1) * (z0)) * (z1))) * (((z0) * (z0) - 2 * ((z1) * (z1))) * (z1) + ((z0) * (z1) + (z1) * (z0)) * (z0)) + (((z0) * (z0) - 2 * ((z1) * (z1))) * (z1) + ((z0) * (z1) + (z1) * (z0)) * (z0)) * (((z0) * (z0) - 2 * ((z1) * (z1))) * (z0) - 2 * (((z0) * (z1) + (z1) * (z0)) * (z1)))) * (((z0) * (z0) - 2 * ((z1) * (z1))) * (z0) - 2 * (((z0) * (z1) + (z1) * (z0)) * (z1)))))
{ }
#[verifier::external_body]
proof fn ring_ma_y_1(x10: int, x11: int, y10: int, y11: int, dxv0: int, dxv1: int, dyv0: int, dyv1: int, x3nv0: int, x3nv1: int, z0: int, z1: int)
    ensures ((((((dxv0) * ((z0) * (z0) - 2 * ((z1) * (z1))) - 2 * ((dxv1) * ((z0) * (z1) + (z1) * (z0)))) * ((dxv0) * ((z0) * (z0) - 2 * ((z1) * (z1))) - 2 * ((dxv1) * ((z0) * (z1) + (z1) * (z0)))) - 2 * (((dxv0) * ((z0) * (z1) + (z1) * (z0)) + (dxv1) * ((z0) * (z0) - 2 * ((z1) * (z1)))) * ((dxv0) * ((z0) * (z1) + (z1) * (z0)) + (dxv1) * ((z0) * (z0) - 2 * ((z1) * (z1)))))) * (((x10) * (z0) - 2 * ((x11) * (z1))) * (z0) - 2 * (((x10) * (z1) + (x11) * (z0)) * (z1))) - 2 * ((((dxv0) * ((z0) * (z0) - 2 * ((z1) * (z1))) - 2 * ((dxv1) * ((z0) * (z1) + (z1) * (z0)))) * ((dxv0) * ((z0) * (z1) + (z1) * (z0)) + (dxv1) * ((z0) * (z0) - 2 * ((z1) * (z1)))) + ((dxv0) * ((z0) * (z1) + (z1) * (z0)) + (dxv1) * ((z0) * (z0) - 2 * ((z1) * (z1)))) * ((dxv0) * ((z0) * (z0) - 2 * ((z1) * (z1))) - 2 * ((dxv1) * ((z0) * (z1) + (z1) * (z0))))) * (((x10) * (z0) - 2 * ((x11) * (z1))) * (z1) + ((x10) * (z1) + (x11) * (z0)) * (z0)))) - ((x3nv0) * ((((z0) * (z0) - 2 * ((z1) * (z1))) * (z0) - 2 * (((z0) * (z1) + (z1) * (z0)) * (z1))) * (((z0) * (z0) - 2 * ((z1) * (z1))) * (z0) - 2 * (((z0) * (z1) + (z1) * (z0)) * (z1))) - 2 * ((((z0) * (z0) - 2 * ((z1) * (z1))) * (z1) + ((z0) * (z1) + (z1) * (z0)) * (z0)) * (((z0) * (z0) - 2 * ((z1) * (z1))) * (z1) + ((z0) * (z1) + (z1) * (z0)) * (z0)))) - 2 * ((x3nv1) * ((((z0) * (z0) - 2 * ((z1) * (z1))) * (z0) - 2 * (((z0) * (z1) + (z1) * (z0)) * (z1))) * (((z0) * (z0) - 2 * ((z1) * (z1))) * (z1) + ((z0) * (z1) + (z1) * (z0)) * (z0)) + (((z0) * (z0) - 2 * ((z1) * (z1))) * (z1) + ((z0) * (z1) + (z1) * (z0)) * (z0)) * (((z0) * (z0) - 2 * ((z1) * (z1))) * (z0) - 2 * (((z0) * (z1) + (z1) * (z0)) * (z1))))))) * ((dyv0) * (((z0) * (z0) - 2 * ((z1) * (z1))) * (z1) + ((z0) * (z1) + (z1) * (z0)) * (z0)) + (dyv1) * (((z0) * (z0) - 2 * ((z1) * (z1))) * (z0) - 2 * (((z0) * (z1) + (z1) * (z0)) * (z1)))) + (((((dxv0) * ((z0) * (z0) - 2 * ((z1) * (z1))) - 2 * ((dxv1) * ((z0) * (z1) + (z1) * (z0)))) * ((dxv0) * ((z0) * (z0) - 2 * ((z1) * (z1))) - 2 * ((dxv1) * ((z0) * (z1) + (z1) * (z0)))) - 2 * (((dxv0) * ((z0) * (z1) + (z1) * (z0)) + (dxv1) * ((z0) * (z0) - 2 * ((z1) * (z1)))) * ((dxv0) * ((z0) * (z1) + (z1) * (z0)) + (dxv1) * ((z0) * (z0) - 2 * ((z1) * (z1)))))) * (((x10) * (z0) - 2 * ((x11) * (z1))) * (z1) + ((x10) * (z1) + (x11) * (z0)) * (z0)) + (((dxv0) * ((z0) * (z0) - 2 * ((z1) * (z1))) - 2 * ((dxv1) * ((z0) * (z1) + (z1) * (z0)))) * ((dxv0) * ((z0) * (z1) + (z1) * (z0)) + (dxv1) * ((z0) * (z0) - 2 * ((z1) * (z1)))) + ((dxv0) * ((z0) * (z1) + (z1) * (z0)) + (dxv1) * ((z0) * (z0) - 2 * ((z1) * (z1)))) * ((dxv0) * ((z0) * (z0) - 2 * ((z1) * (z1))) - 2 * ((dxv1) * ((z0) * (z1) + (z1) * (z0))))) * (((x10) * (z0) - 2 * ((x11) * (z1))) * (z0) - 2 * (((x10) * (z1) + (x11) * (z0)) * (z1)))) - ((x3nv0) * ((((z0) * (z0) - 2 * ((z1) * (z1))) * (z0) - 2 * (((z0) * (z1) + (z1) * (z0)) * (z1))) * (((z0) * (z0) - 2 * ((z1) * (z1))) * (z1) + ((z0) * (z1) + (z1) * (z0)) * (z0)) + (((z0) * (z0) - 2 * ((z1) * (z1))) * (z1) + ((z0) * (z1) + (z1) * (z0)) * (z0)) * (((z0) * (z0) - 2 * ((z1) * (z1))) * (z0) - 2 * (((z0) * (z1) + (z1) * (z0)) * (z1)))) + (x3nv1) * ((((z0) * (z0) - 2 * ((z1) * (z1))) * (z0) - 2 * (((z0) * (z1) + (z1) * (z0)) * (z1))) * (((z0) * (z0) - 2 * ((z1) * (z1))) * (z0) - 2 * (((z0) * (z1) + (z1) * (z0)) * (z1))) - 2 * ((((z0) * (z0) - 2 * ((z1) * (z1))) * (z1) + ((z0) * (z1) + (z1) * (z0)) * (z0)) * (((z0) * (z0) - 2 * ((z1) * (z1))) * (z1) + ((z0) * (z1) + (z1) * (z0)) * (z0)))))) * ((dyv0) * (((z0) * (z0) - 2 * ((z1) * (z1))) * (z0) - 2 * (((z0) * (z1) + (z1) * (z0)) * (z1))) - 2 * ((dyv1) * (((z0) * (z0) - 2 * ((z1) * (z1))) * (z1) + ((z0) * (z1) + (z1) * (z0)) * (z0))))) - (((((dxv0) * ((z0) * (z0) - 2 * ((z1) * (z1))) - 2 * ((dxv1) * ((z0) * (z1) + (z1) * (z0)))) * ((dxv0) * ((z0) * (z0) - 2 * ((z1) * (z1))) - 2 * ((dxv1) * ((z0) * (z1) + (z1) * (z0)))) - 2 * (((dxv0) * ((z0) * (z1) + (z1) * (z0)) + (dxv1) * ((z0) * (z0) - 2 * ((z1) * (z1)))) * ((dxv0) * ((z0) * (z1) + (z1) * (z0)) + (dxv1) * ((z0) * (z0) - 2 * ((z1) * (z1)))))) * ((dxv0) * ((z0) * (z0) - 2 * ((z1) * (z1))) - 2 * ((dxv1) * ((z0) * (z1) + (z1) * (z0)))) - 2 * ((((dxv0) * ((z0) * (z0) - 2 * ((z1) * (z1))) - 2 * ((dxv1) * ((z0) * (z1) + (z1) * (z0)))) * ((dxv0) * ((z0) * (z1) + (z1) * (z0)) + (dxv1) * ((z0) * (z0) - 2 * ((z1) * (z1)))) + ((dxv0) * ((z0) * (z1) + (z1) * (z0)) + (dxv1) * ((z0) * (z0) - 2 * ((z1) * (z1)))) * ((dxv0) * ((z0) * (z0) - 2 * ((z1) * (z1))) - 2 * ((dxv1) * ((z0) * (z1) + (z1) * (z0))))) * ((dxv0) * ((z0) * (z1) + (z1) * (z0)) + (dxv1) * ((z0) * (z0) - 2 * ((z1) * (z1)))))) * ((((y10) * (z0) - 2 * ((y11) * (z1))) * (z0) - 2 * (((y10) * (z1) + (y11) * (z0)) * (z1))) * (z1) + (((y10) * (z0) - 2 * ((y11) * (z1))) * (z1) + ((y10) * (z1) + (y11) * (z0)) * (z0)) * (z0)) + ((((dxv0) * ((z0) * (z0) - 2 * ((z1) * (z1))) - 2 * ((dxv1) * ((z0) * (z1) + (z1) * (z0)))) * ((dxv0) * ((z0) * (z0) - 2 * ((z1) * (z1))) - 2 * ((dxv1) * ((z0) * (z1) + (z1) * (z0)))) - 2 * (((dxv0) * ((z0) * (z1) + (z1) * (z0)) + (dxv1) * ((z0) * (z0) - 2 * ((z1) * (z1)))) * ((dxv0) * ((z0) * (z1) + (z1) * (z0)) + (dxv1) * ((z0) * (z0) - 2 * ((z1) * (z1)))))) * ((dxv0) * ((z0) * (z1) + (z1) * (z0)) + (dxv1) * ((z0) * (z0) - 2 * ((z1) * (z1)))) + (((dxv0) * ((z0) * (z0) - 2 * ((z1) * (z1))) - 2 * ((dxv1) * ((z0) * (z1) + (z1) * (z0)))) * ((dxv0) * ((z0) * (z1) + (z1) * (z0)) + (dxv1) * ((z0) * (z0) - 2 * ((z1) * (z1)))) + ((dxv0) * ((z0) * (z1) + (z1) * (z0)) + (dxv1) * ((z0) * (z0) - 2 * ((z1) * (z1)))) * ((dxv0) * ((z0) * (z0) - 2 * ((z1) * (z1))) - 2 * ((dxv1) * ((z0) * (z1) + (z1) * (z0))))) * ((dxv0) * ((z0) * (z0) - 2 * ((z1) * (z1))) - 2 * ((dxv1) * ((z0) * (z1) + (z1) * (z0))))) * ((((y10) * (z0) - 2 * ((y11) * (z1))) * (z0) - 2 * (((y10) * (z1) + (y11) * (z0)) * (z1))) * (z0) - 2 * ((((y10) * (z0) - 2 * ((y11) * (z1))) * (z1) + ((y10) * (z1) + (y11) * (z0)) * (z0)) * (z1))))
        == (((dyv0) * (((x10) * ((dxv0) * (dxv0) - 2 * ((dxv1) * (dxv1))) - 2 * ((x11) * ((dxv0) * (dxv1) + (dxv1) * (dxv0)))) - (x3nv0)) - 2 * ((dyv1) * (((x10) * ((dxv0) * (dxv1) + (dxv1) * (dxv0)) + (x11) * ((dxv0) * (dxv0) - 2 * ((dxv1) * (dxv1)))) - (x3nv1)))) - ((y10) * (((dxv0) * (dxv0) - 2 * ((dxv1) * (dxv1))) * (dxv0) - 2 * (((dxv0) * (dxv1) + (dxv1) * (dxv0)) * (dxv1))) - 2 * ((y11) * (((dxv0) * (dxv0) - 2 * ((dxv1) * (dxv1))) * (dxv1) + ((dxv0) * (dxv1) + (dxv1) * (dxv0)) * (dxv0))))) * (((((z0) * (z0) - 2 * ((z1) * (z1))) * (z0) - 2 * (((z0) * (z1) + (z1) * (z0)) * (z1))) * (((z0) * (z0) - 2 * ((z1) * (z1))) * (z0) - 2 * (((z0) * (z1) + (z1) * (z0)) * (z1))) - 2 * ((((z0) * (z0) - 2 * ((z1) * (z1))) * (z1) + ((z0) * (z1) + (z1) * (z0)) * (z0)) * (((z0) * (z0) - 2 * ((z1) * (z1))) * (z1) + ((z0) * (z1) + (z1) * (z0)) * (z0)))) * (((z0) * (z0) - 2 * ((z1) * (z1))) * (z1) + ((z0) * (z1) + (z1) * (z0)) * (z0)) + ((((z0) * (z0) - 2 * ((z1) * (z1))) * (z0) - 2 * (((z0) * (z1) + (z1) * (z0)) * (z1))) * (((z0) * (z0) - 2 * ((z1) * (z1))) * (z1) + ((z0) * (z1) + (z1) * (z0)) * (z0)) + (((z0) * (z0) - 2 * ((z1) * (z1))) * (z1) + ((z0) * (z1) + (z1) * (z0)) * (z0)) * (((z0) * (z0) - 2 * ((z1) * (z1))) * (z0) - 2 * (((z0) * (z1) + (z1) * (z0)) * (z1)))) * (((z0) * (z0) - 2 * ((z1) * (z1))) * (z0) - 2 * (((z0) * (z1) + (z1) * (z0)) * (z1)))) + (((dyv0) * (((x10) * ((dxv0) * (dxv1) + (dxv1) * (dxv0)) + (x11) * ((dxv0) * (dxv0) - 2 * ((dxv1) * (dxv1)))) - (x3nv1)) + (dyv1) * (((x10) * ((dxv0) * (dxv0) - 2 * ((dxv1) * (dxv1))) - 2 * ((x11) * ((dxv0) * (dxv1) + (dxv1) * (dxv0)))) - (x3nv0))) - ((y10) * (((dxv0) * (dxv0) - 2 * ((dxv1) * (dxv1))) * (dxv1) + ((dxv0) * (dxv1) + (dxv1) * (dxv0)) * (dxv0)) + (y11) * (((dxv0) * (dxv0) - 2 * ((dxv1) * (dxv1))) * (dxv0) - 2 * (((dxv0) * (dxv1) + (dxv1) * (dxv0)) * (dxv1))))) * (((((z0) * (z0) - 2 * ((z1) * (z1))) * (z0) - 2 * (((z0) * (z1) + (z1) * (z0)) * (z1))) * (((z0) * (z0) - 2 * ((z1) * (z1))) * (z0) - 2 * (((z0) * (z1) + (z1) * (z0)) * (z1))) - 2 * ((((z0) * (z0) - 2 * ((z1) * (z1))) * (z1) + ((z0) * (z1) + (z1) * (z0)) * (z0)) * (((z0) * (z0) - 2 * ((z1) * (z1))) * (z1) + ((z0) * (z1) + (z1) * (z0)) * (z0)))) * (((z0) * (z0) - 2 * ((z1) * (z1))) * (z0) - 2 * (((z0) * (z1) + (z1) * (z0)) * (z1))) - 2 * (((((z0) * (z0) - 2 * ((z1) * (z1))) * (z0) - 2 * (((z0) * (z1) + (z1) * (z0)) * (z1))) * (((z0) * (z0) - 2 * ((z1) * (z1))) * (z1) + ((z0) * (z1) + (z1) * (z0)) * (z0)) + (((z0) * (z0) - 2 * ((z1) * (z1))) * (z1) + ((z0) * (z1) + (z1) * (z0)) * (z0)) * (((z0) * (z0) - 2 * ((z1) * (z1))) * (z0) - 2 * (((z0) * (z1) + (z1) * (z0)) * (z1)))) * (((z0) * (z0) - 2 * ((z1) * (z1))) * (z1) + ((z0) * (z1) + (z1) * (z0)) * (z0))))
{ }
// TwistPoint::point_equals: the cross-multiplied coordinates
spec fn eq_rel(X1: F2, Y1: F2, Z1: F2, X2: F2, Y2: F2, Z2: F2, t1: F2, t2: F2, t3: F2, t4: F2, t1c: F2, t2c: F2, t3b: F2, t4b: F2) -> bool {
    t1 == m2_mul(Z1, Z1)
    && t2 == m2_mul(Z2, Z2)
    && t3 == m2_mul(X1, t2)
    && t4 == m2_mul(X2, t1)
    && t1c == m2_mul(t1, Z1)
    && t2c == m2_mul(t2, Z2)
    && t3b == m2_mul(Y1, t2c)
    && t4b == m2_mul(Y2, t1c)
}
proof fn eq_chain(X1: F2, Y1: F2, Z1: F2, X2: F2, Y2: F2, Z2: F2, t1: F2, t2: F2, t3: F2, t4: F2, t1c: F2, t2c: F2, t3b: F2, t4b: F2, X1p: F2, Y1p: F2, Z1p: F2, X2p: F2, Y2p: F2, Z2p: F2)
    requires eq_rel(X1, Y1, Z1, X2, Y2, Z2, t1, t2, t3, t4, t1c, t2c, t3b, t4b),
        qc(X1, X1p),
        qc(Y1, Y1p),
        qc(Z1, Z1p),
        qc(X2, X2p),
        qc(Y2, Y2p),
        qc(Z2, Z2p)
    ensures qc(t3, q_mul(X1p, q_mul(Z2p, Z2p))),
        qc(t4, q_mul(X2p, q_mul(Z1p, Z1p))),
        qc(t3b, q_mul(Y1p, q_mul(q_mul(Z2p, Z2p), Z2p))),
        qc(t4b, q_mul(Y2p, q_mul(q_mul(Z1p, Z1p), Z1p))),
        m2_ok(t3),
        m2_ok(t4),
        m2_ok(t3b),
        m2_ok(t4b)
{
    t2_cm(t1, Z1, Z1, Z1p, Z1p);
    t2_cm(t2, Z2, Z2, Z2p, Z2p);
    t2_cm(t3, X1, t2, X1p, q_mul(Z2p, Z2p));
    t2_cm(t4, X2, t1, X2p, q_mul(Z1p, Z1p));
    t2_cm(t1c, t1, Z1, q_mul(Z1p, Z1p), Z1p);
    t2_cm(t2c, t2, Z2, q_mul(Z2p, Z2p), Z2p);
    t2_cm(t3b, Y1, t2c, Y1p, q_mul(q_mul(Z2p, Z2p), Z2p));
    t2_cm(t4b, Y2, t1c, Y2p, q_mul(q_mul(Z1p, Z1p), Z1p));
}
proof fn qr_eq_s1(y1: F2, z1: F2, z2: F2)
    ensures q_mul(q_mul(q_mul(q_mul(y1, z1), z1), z1), q_mul(q_mul(z2, z2), z2))
        == q_mul(y1, q_mul(q_mul(q_mul(z1, z2), q_mul(z1, z2)), q_mul(z1, z2)))
{
    reveal(q_add); reveal(q_sub); reveal(q_mul); reveal(q_k); reveal(q_c);
    ring_eq_s1_0(y1.c0, y1.c1, z1.c0, z1.c1, z2.c0, z2.c1); ring_eq_s1_1(y1.c0, y1.c1, z1.c0, z1.c1, z2.c0, z2.c1);
}
#[verifier::external_body]
proof fn ring_eq_s1_0(y10: int, y11: int, z10: int, z11: int, z20: int, z21: int)
    ensures ((((y10) * (z10) - 2 * ((y11) * (z11))) * (z10) - 2 * (((y10) * (z11) + (y11) * (z10)) * (z11))) * (z10) - 2 * ((((y10) * (z10) - 2 * ((y11) * (z11))) * (z11) + ((y10) * (z11) + (y11) * (z10)) * (z10)) * (z11))) * (((z20) * (z20) - 2 * ((z21) * (z21))) * (z20) - 2 * (((z20) * (z21) + (z21) * (z20)) * (z21))) - 2 * (((((y10) * (z10) - 2 * ((y11) * (z11))) * (z10) - 2 * (((y10) * (z11) + (y11) * (z10)) * (z11))) * (z11) + (((y10) * (z10) - 2 * ((y11) * (z11))) * (z11) + ((y10) * (z11) + (y11) * (z10)) * (z10)) * (z10)) * (((z20) * (z20) - 2 * ((z21) * (z21))) * (z21) + ((z20) * (z21) + (z21) * (z20)) * (z20)))
        == (y10) * ((((z10) * (z20) - 2 * ((z11) * (z21))) * ((z10) * (z20) - 2 * ((z11) * (z21))) - 2 * (((z10) * (z21) + (z11) * (z20)) * ((z10) * (z21) + (z11) * (z20)))) * ((z10) * (z20) - 2 * ((z11) * (z21))) - 2 * ((((z10) * (z20) - 2 * ((z11) * (z21))) * ((z10) * (z21) + (z11) * (z20)) + ((z10) * (z21) + (z11) * (z20)) * ((z10) * (z20) - 2 * ((z11) * (z21)))) * ((z10) * (z21) + (z11) * (z20)))) - 2 * ((y11) * ((((z10) * (z20) - 2 * ((z11) * (z21))) * ((z10) * (z20) - 2 * ((z11) * (z21))) - 2 * (((z10) * (z21) + (z11) * (z20)) * ((z10) * (z21) + (z11) * (z20)))) * ((z10) * (z21) + (z11) * (z20)) + (((z10) * (z20) - 2 * ((z11) * (z21))) * ((z10) * (z21) + (z11) * (z20)) + ((z10) * (z21) + (z11) * (z20)) * ((z10) * (z20) - 2 * ((z11) * (z21)))) * ((z10) * (z20) - 2 * ((z11) * (z21)))))
{ }
#[verifier::external_body]
proof fn ring_eq_s1_1(y10: int, y11: int, z10: int, z11: int, z20: int, z21: int)
    ensures ((((y10) * (z10) - 2 * ((y11) * (z11))) * (z10) - 2 * (((y10) * (z11) + (y11) * (z10)) * (z11))) * (z10) - 2 * ((((y10) * (z10) - 2 * ((y11) * (z11))) * (z11) + ((y10) * (z11) + (y11) * (z10)) * (z10)) * (z11))) * (((z20) * (z20) - 2 * ((z21) * (z21))) * (z21) + ((z20) * (z21) + (z21) * (z20)) * (z20)) + ((((y10) * (z10) - 2 * ((y11) * (z11))) * (z10) - 2 * (((y10) * (z11) + (y11) * (z10)) * (z11))) * (z11) + (((y10) * (z10) - 2 * ((y11) * (z11))) * (z11) + ((y10) * (z11) + (y11) * (z10)) * (z10)) * (z10)) * (((z20) * (z20) - 2 * ((z21) * (z21))) * (z20) - 2 * (((z20) * (z21) + (z21) * (z20)) * (z21)))
        == (y10) * ((((z10) * (z20) - 2 * ((z11) * (z21))) * ((z10) * (z20) - 2 * ((z11) * (z21))) - 2 * (((z10) * (z21) + (z11) * (z20)) * ((z10) * (z21) + (z11) * (z20)))) * ((z10) * (z21) + (z11) * (z20)) + (((z10) * (z20) - 2 * ((z11) * (z21))) * ((z10) * (z21) + (z11) * (z20)) + ((z10) * (z21) + (z11) * (z20)) * ((z10) * (z20) - 2 * ((z11) * (z21)))) * ((z10) * (z20) - 2 * ((z11) * (z21)))) + (y11) * ((((z10) * (z20) - 2 * ((z11) * (z21))) * ((z10) * (z20) - 2 * ((z11) * (z21))) - 2 * (((z10) * (z21) + (z11) * (z20)) * ((z10) * (z21) + (z11) * (z20)))) * ((z10) * (z20) - 2 * ((z11) * (z21))) - 2 * ((((z10) * (z20) - 2 * ((z11) * (z21))) * ((z10) * (z21) + (z11) * (z20)) + ((z10) * (z21) + (z11) * (z20)) * ((z10) * (z20) - 2 * ((z11) * (z21)))) * ((z10) * (z21) + (z11) * (z20))))
{ }
proof fn qr_eq_s2(y2: F2, z1: F2, z2: F2)
    ensures q_mul(q_mul(q_mul(q_mul(y2, z2), z2), z2), q_mul(q_mul(z1, z1), z1))
        == q_mul(y2, q_mul(q_mul(q_mul(z1, z2), q_mul(z1, z2)), q_mul(z1, z2)))
{
    reveal(q_add); reveal(q_sub); reveal(q_mul); reveal(q_k); reveal(q_c);
    ring_eq_s2_0(y2.c0, y2.c1, z1.c0, z1.c1, z2.c0, z2.c1); ring_eq_s2_1(y2.c0, y2.c1, z1.c0, z1.c1, z2.c0, z2.c1);
}
#[verifier::external_body]
proof fn ring_eq_s2_0(y20: int, y21: int, z10: int, z11: int, z20: int, z21: int)
    ensures ((((y20) * (z20) - 2 * ((y21) * (z21))) * (z20) - 2 * (((y20) * (z21) + (y21) * (z20)) * (z21))) * (z20) - 2 * ((((y20) * (z20) - 2 * ((y21) * (z21))) * (z21) + ((y20) * (z21) + (y21) * (z20)) * (z20)) * (z21))) * (((z10) * (z10) - 2 * ((z11) * (z11))) * (z10) - 2 * (((z10) * (z11) + (z11) * (z10)) * (z11))) - 2 * (((((y20) * (z20) - 2 * ((y21) * (z21))) * (z20) - 2 * (((y20) * (z21) + (y21) * (z20)) * (z21))) * (z21) + (((y20) * (z20) - 2 * ((y21) * (z21))) * (z21) + ((y20) * (z21) + (y21) * (z20)) * (z20)) * (z20)) * (((z10) * (z10) - 2 * ((z11) * (z11))) * (z11) + ((z10) * (z11) + (z11) * (z10)) * (z10)))
        == (y20) * ((((z10) * (z20) - 2 * ((z11) * (z21))) * ((z10) * (z20) - 2 * ((z11) * (z21))) - 2 * (((z10) * (z21) + (z11) * (z20)) * ((z10) * (z21) + (z11) * (z20)))) * ((z10) * (z20) - 2 * ((z11) * (z21))) - 2 * ((((z10) * (z20) - 2 * ((z11) * (z21))) * ((z10) * (z21) + (z11) * (z20)) + ((z10) * (z21) + (z11) * (z20)) * ((z10) * (z20) - 2 * ((z11) * (z21)))) * ((z10) * (z21) + (z11) * (z20)))) - 2 * ((y21) * ((((z10) * (z20) - 2 * ((z11) * (z21))) * ((z10) * (z20) - 2 * ((z11) * (z21))) - 2 * (((z10) * (z21) + (z11) * (z20)) * ((z10) * (z21) + (z11) * (z20)))) * ((z10) * (z21) + (z11) * (z20)) + (((z10) * (z20) - 2 * ((z11) * (z21))) * ((z10) * (z21) + (z11) * (z20)) + ((z10) * (z21) + (z11) * (z20)) * ((z10) * (z20) - 2 * ((z11) * (z21)))) * ((z10) * (z20) - 2 * ((z11) * (z21)))))
{ }
#[verifier::external_body]
proof fn ring_eq_s2_1(y20: int, y21: int, z10: int, z11: int, z20: int, z21: int)
    ensures ((((y20) * (z20) - 2 * ((y21) * (z21))) * (z20) - 2 * (((y20) * (z21) + (y21) * (z20)) * (z21))) * (z20) - 2 * ((((y20) * (z20) - 2 * ((y21) * (z21))) * (z21) + ((y20) * (z21) + (y21) * (z20)) * (z20)) * (z21))) * (((z10) * (z10) - 2 * ((z11) * (z11))) * (z11) + ((z10) * (z11) + (z11) * (z10)) * (z10)) + ((((y20) * (z20) - 2 * ((y21) * (z21))) * (z20) - 2 * (((y20) * (z21) + (y21) * (z20)) * (z21))) * (z21) + (((y20) * (z20) - 2 * ((y21) * (z21))) * (z21) + ((y20) * (z21) + (y21) * (z20)) * (z20)) * (z20)) * (((z10) * (z10) - 2 * ((z11) * (z11))) * (z10) - 2 * (((z10) * (z11) + (z11) * (z10)) * (z11)))
        == (y20) * ((((z10) * (z20) - 2 * ((z11) * (z21))) * ((z10) * (z20) - 2 * ((z11) * (z21))) - 2 * (((z10) * (z21) + (z11) * (z20)) * ((z10) * (z21) + (z11) * (z20)))) * ((z10) * (z21) + (z11) * (z20)) + (((z10) * (z20) - 2 * ((z11) * (z21))) * ((z10) * (z21) + (z11) * (z20)) + ((z10) * (z21) + (z11) * (z20)) * ((z10) * (z20) - 2 * ((z11) * (z21)))) * ((z10) * (z20) - 2 * ((z11) * (z21)))) + (y21) * ((((z10) * (z20) - 2 * ((z11) * (z21))) * ((z10) * (z20) - 2 * ((z11) * (z21))) - 2 * (((z10) * (z21) + (z11) * (z20)) * ((z10) * (z21) + (z11) * (z20)))) * ((z10) * (z20) - 2 * ((z11) * (z21))) - 2 * ((((z10) * (z20) - 2 * ((z11) * (z21))) * ((z10) * (z21) + (z11) * (z20)) + ((z10) * (z21) + (z11) * (z20)) * ((z10) * (z20) - 2 * ((z11) * (z21)))) * ((z10) * (z21) + (z11) * (z20))))
{ }
proof fn qr_neg3(y: F2, zi: F2)
    ensures q_mul(q_mul(q_mul(q_sub(q_c(0), y), zi), zi), zi)
        == q_sub(q_c(0), q_mul(q_mul(q_mul(y, zi), zi), zi))
{
    reveal(q_add); reveal(q_sub); reveal(q_mul); reveal(q_k); reveal(q_c);
    ring_neg3_0(y.c0, y.c1, zi.c0, zi.c1); ring_neg3_1(y.c0, y.c1, zi.c0, zi.c1);
}
#[verifier::external_body]
proof fn ring_neg3_0(y0: int, y1: int, zi0: int, zi1: int)
    ensures ((((0) - (y0)) * (zi0) - 2 * (((0) - (y1)) * (zi1))) * (zi0) - 2 * ((((0) - (y0)) * (zi1) + ((0) - (y1)) * (zi0)) * (zi1))) * (zi0) - 2 * (((((0) - (y0)) * (zi0) - 2 * (((0) - (y1)) * (zi1))) * (zi1) + (((0) - (y0)) * (zi1) + ((0) - (y1)) * (zi0)) * (zi0)) * (zi1))
        == (0) - ((((y0) * (zi0) - 2 * ((y1) * (zi1))) * (zi0) - 2 * (((y0) * (zi1) + (y1) * (zi0)) * (zi1))) * (zi0) - 2 * ((((y0) * (zi0) - 2 * ((y1) * (zi1))) * (zi1) + ((y0) * (zi1) + (y1) * (zi0)) * (zi0)) * (zi1)))
{ }
#[verifier::external_body]
proof fn ring_neg3_1(y0: int, y1: int, zi0: int, zi1: int)
    ensures ((((0) - (y0)) * (zi0) - 2 * (((0) - (y1)) * (zi1))) * (zi0) - 2 * ((((0) - (y0)) * (zi1) + ((0) - (y1)) * (zi0)) * (zi1))) * (zi1) + ((((0) - (y0)) * (zi0) - 2 * (((0) - (y1)) * (zi1))) * (zi1) + (((0) - (y0)) * (zi1) + ((0) - (y1)) * (zi0)) * (zi0)) * (zi0)
        == (0) - ((((y0) * (zi0) - 2 * ((y1) * (zi1))) * (zi0) - 2 * (((y0) * (zi1) + (y1) * (zi0)) * (zi1))) * (zi1) + (((y0) * (zi0) - 2 * ((y1) * (zi1))) * (zi1) + ((y0) * (zi1) + (y1) * (zi0)) * (zi0)) * (zi0))
{ }
proof fn qr_negsq(y: F2)
    ensures q_mul(q_sub(q_c(0), y), q_sub(q_c(0), y))
        == q_mul(y, y)
{
    reveal(q_add); reveal(q_sub); reveal(q_mul); reveal(q_k); reveal(q_c);
    ring_negsq_0(y.c0, y.c1); ring_negsq_1(y.c0, y.c1);
}
#[verifier::external_body]
proof fn ring_negsq_0(y0: int, y1: int)
    ensures ((0) - (y0)) * ((0) - (y0)) - 2 * (((0) - (y1)) * ((0) - (y1)))
        == (y0) * (y0) - 2 * ((y1) * (y1))
{ }
#[verifier::external_body]
proof fn ring_negsq_1(y0: int, y1: int)
    ensures ((0) - (y0)) * ((0) - (y1)) + ((0) - (y1)) * ((0) - (y0))
        == (y0) * (y1) + (y1) * (y0)
{ }
// affine coordinates xa = x / z^2, ya = y / z^3 give back x == xa z^2, y == ya z^3 (mod p)
proof fn cv_param(x: F2, y: F2, z: F2, zi: F2, xa: F2, ya: F2)
    requires qc(q_mul(z, zi), q_c(1)), xa == m2_mul(m2_mul(x, zi), zi), ya == m2_mul(m2_mul(m2_mul(y, zi), zi), zi)
    ensures qc(x, q_mul(q_mul(xa, z), z)), qc(y, q_mul(q_mul(q_mul(ya, z), z), z)), m2_ok(xa), m2_ok(ya)
{
    let a1 = m2_mul(x, zi); t2_cm(a1, x, zi, x, zi); t2_cm(xa, a1, zi, q_mul(x, zi), zi);
    let b1 = m2_mul(y, zi); t2_cm(b1, y, zi, y, zi); let b2 = m2_mul(b1, zi); t2_cm(b2, b1, zi, q_mul(y, zi), zi); t2_cm(ya, b2, zi, q_mul(q_mul(y, zi), zi), zi);
    t2_diff(xa, q_mul(q_mul(x, zi), zi)); t2_diff(ya, q_mul(q_mul(q_mul(y, zi), zi), zi)); t2_diff(q_mul(z, zi), q_c(1));
    qr_par2(xa, x, z, zi);
    t2_lin2(q_sub(xa, q_mul(q_mul(x, zi), zi)), q_mul(z, z), q_sub(q_mul(z, zi), q_c(1)), q_mul(x, q_add(q_mul(z, zi), q_c(1))));
    t2_diff(q_mul(q_mul(xa, z), z), x);
    qr_par3(ya, y, z, zi);
    t2_lin2(q_sub(ya, q_mul(q_mul(q_mul(y, zi), zi), zi)), q_mul(q_mul(z, z), z), q_sub(q_mul(z, zi), q_c(1)), q_mul(y, q_add(q_add(q_mul(q_mul(z, zi), q_mul(z, zi)), q_mul(z, zi)), q_c(1))));
    t2_diff(q_mul(q_mul(q_mul(ya, z), z), z), y);
}
// dividing by z^2 and z^3
proof fn cv_div2(a: F2, b: F2, z: F2, w: F2) requires qc(a, q_mul(b, q_mul(z, z))), qc(q_mul(z, w), q_c(1)) ensures qc(q_mul(q_mul(a, w), w), b)
{
    t2_diff(a, q_mul(b, q_mul(z, z))); t2_diff(q_mul(z, w), q_c(1));
    qr_div2(a, b, z, w);
    t2_lin2(q_sub(a, q_mul(b, q_mul(z, z))), q_mul(w, w), q_sub(q_mul(z, w), q_c(1)), q_mul(b, q_add(q_mul(z, w), q_c(1))));
    t2_diff(q_mul(q_mul(a, w), w), b);
}
proof fn cv_div3(a: F2, b: F2, z: F2, w: F2) requires qc(a, q_mul(b, q_mul(q_mul(z, z), z))), qc(q_mul(z, w), q_c(1)) ensures qc(q_mul(q_mul(q_mul(a, w), w), w), b)
{
    t2_diff(a, q_mul(b, q_mul(q_mul(z, z), z))); t2_diff(q_mul(z, w), q_c(1));
    qr_div3(a, b, z, w);
    t2_lin2(q_sub(a, q_mul(b, q_mul(q_mul(z, z), z))), q_mul(q_mul(w, w), w), q_sub(q_mul(z, w), q_c(1)), q_mul(b, q_add(q_add(q_mul(q_mul(z, w), q_mul(z, w)), q_mul(z, w)), q_c(1))));
    t2_diff(q_mul(q_mul(q_mul(a, w), w), w), b);
}
// lam == n / d (mod p) gives lam d == n
proof fn cv_slope(lam: F2, n: F2, d: F2, dd: F2) requires qc(lam, q_mul(n, dd)), qc(q_mul(d, dd), q_c(1)) ensures qz(q_sub(q_mul(lam, d), n))
{
    t2_diff(lam, q_mul(n, dd)); t2_diff(q_mul(d, dd), q_c(1));
    qr_slope(lam, n, d, dd);
    t2_lin2(q_sub(lam, q_mul(n, dd)), d, q_sub(q_mul(d, dd), q_c(1)), n);
}
// (x3, y3, z3) with x3 == sx zf^2, y3 == sy zf^3, z3 == zf != 0 denotes the affine point (sx, sy)
proof fn cv_affine(x3: F2, y3: F2, z3: F2, sx: F2, sy: F2, zf: F2)
    requires m2_ok(sx), m2_ok(sy), m2_ok(z3), !qz(z3), qc(z3, zf), qc(x3, q_mul(sx, q_mul(zf, zf))), qc(y3, q_mul(sy, q_mul(q_mul(zf, zf), zf)))
    ensures jac2(x3, y3, z3) == (Pt2::Aff { x: sx, y: sy })
{
    let w = m2_inv(z3);
    t2_inv(z3); t2_zero(z3);
    t2_cong_mul(z3, zf, w);
    cv_div2(x3, sx, zf, w);
    let r1 = m2_mul(x3, w); t2_cm(r1, x3, w, x3, w); let r2 = m2_mul(r1, w); t2_cm(r2, r1, w, q_mul(x3, w), w);
    t2_ok_eq(r2, sx);
    cv_div3(y3, sy, zf, w);
    let s1 = m2_mul(y3, w); t2_cm(s1, y3, w, y3, w); let s2 = m2_mul(s1, w); t2_cm(s2, s1, w, q_mul(y3, w), w);
    let s3 = m2_mul(s2, w); t2_cm(s3, s2, w, q_mul(q_mul(y3, w), w), w);
    t2_ok_eq(s3, sy);
}
// the tangent law: (x3n W^2, y3n W^3, 2 ya W) is twice the affine point (xa, ya), ya != 0, for any scale W != 0
proof fn cv_tangent(xa: F2, ya: F2, W: F2, x3: F2, y3: F2, z3: F2)
    requires m2_ok(xa), m2_ok(ya), m2_ok(x3), m2_ok(y3), m2_ok(z3), !qz(W), ya != m2_zero(),
        qc(z3, q_mul(q_add(ya, ya), W)), qc(x3, q_mul(q_sub(q_mul(q_add(q_add(q_mul(xa, xa), q_mul(xa, xa)), q_mul(xa, xa)), q_add(q_add(q_mul(xa, xa), q_mul(xa, xa)), q_mul(xa, xa))), q_add(q_mul(q_mul(q_add(ya, ya), q_add(ya, ya)), xa), q_mul(q_mul(q_add(ya, ya), q_add(ya, ya)), xa))), q_mul(W, W))), qc(y3, q_mul(q_sub(q_mul(q_add(q_add(q_mul(xa, xa), q_mul(xa, xa)), q_mul(xa, xa)), q_sub(q_mul(q_mul(q_add(ya, ya), q_add(ya, ya)), xa), q_sub(q_mul(q_add(q_add(q_mul(xa, xa), q_mul(xa, xa)), q_mul(xa, xa)), q_add(q_add(q_mul(xa, xa), q_mul(xa, xa)), q_mul(xa, xa))), q_add(q_mul(q_mul(q_add(ya, ya), q_add(ya, ya)), xa), q_mul(q_mul(q_add(ya, ya), q_add(ya, ya)), xa))))), q_k(8, q_mul(q_mul(ya, ya), q_mul(ya, ya)))), q_mul(q_mul(W, W), W)))
    ensures z3 != m2_zero(), jac2(x3, y3, z3) == g2_add(Pt2::Aff { x: xa, y: ya }, Pt2::Aff { x: xa, y: ya })
{
    t2_zero(ya); t2_dbl_z(ya);
    let y2r = m2_add(ya, ya); t2_ca(y2r, ya, ya, ya, ya); t2_zero(y2r);
    let dd = m2_inv(y2r); t2_inv(y2r); t2_cong_mul(y2r, q_add(ya, ya), dd);
    let xx = m2_mul(xa, xa); t2_cm(xx, xa, xa, xa, xa); let t1 = m2_add(xx, xx); t2_ca(t1, xx, xx, q_mul(xa, xa), q_mul(xa, xa));
    let tr = m2_add(t1, xx); t2_ca(tr, t1, xx, q_add(q_mul(xa, xa), q_mul(xa, xa)), q_mul(xa, xa));
    let lam = m2_mul(tr, dd); t2_cm(lam, tr, dd, q_add(q_add(q_mul(xa, xa), q_mul(xa, xa)), q_mul(xa, xa)), dd);
    cv_slope(lam, q_add(q_add(q_mul(xa, xa), q_mul(xa, xa)), q_mul(xa, xa)), q_add(ya, ya), dd);
    t2_nz_mul(q_add(ya, ya), W); t2_zero(z3);
    // x
    let l2 = m2_mul(lam, lam); t2_cm(l2, lam, lam, lam, lam); let sa = m2_sub(l2, xa); t2_cs(sa, l2, xa, q_mul(lam, lam), xa);
    let sx = m2_sub(sa, xa); t2_cs(sx, sa, xa, q_sub(q_mul(lam, lam), xa), xa);
    qr_tan_x(xa, ya, lam, W);
    t2_lin1(q_sub(q_mul(lam, q_add(ya, ya)), q_add(q_add(q_mul(xa, xa), q_mul(xa, xa)), q_mul(xa, xa))), q_mul(q_add(q_mul(lam, q_add(ya, ya)), q_add(q_add(q_mul(xa, xa), q_mul(xa, xa)), q_mul(xa, xa))), q_mul(W, W)));
    t2_diff(q_mul(q_sub(q_sub(q_mul(lam, lam), xa), xa), q_mul(q_mul(q_add(ya, ya), W), q_mul(q_add(ya, ya), W))), q_mul(q_sub(q_mul(q_add(q_add(q_mul(xa, xa), q_mul(xa, xa)), q_mul(xa, xa)), q_add(q_add(q_mul(xa, xa), q_mul(xa, xa)), q_mul(xa, xa))), q_add(q_mul(q_mul(q_add(ya, ya), q_add(ya, ya)), xa), q_mul(q_mul(q_add(ya, ya), q_add(ya, ya)), xa))), q_mul(W, W)));
    t2_cong_mul(sx, q_sub(q_sub(q_mul(lam, lam), xa), xa), q_mul(q_mul(q_add(ya, ya), W), q_mul(q_add(ya, ya), W)));
    // y
    let xs = m2_sub(xa, sx); t2_cs(xs, xa, sx, xa, sx); let ly = m2_mul(lam, xs); t2_cm(ly, lam, xs, lam, q_sub(xa, sx));
    let sy = m2_sub(ly, ya); t2_cs(sy, ly, ya, q_mul(lam, q_sub(xa, sx)), ya);
    t2_diff(q_mul(sx, q_mul(q_mul(q_add(ya, ya), W), q_mul(q_add(ya, ya), W))), q_mul(q_sub(q_mul(q_add(q_add(q_mul(xa, xa), q_mul(xa, xa)), q_mul(xa, xa)), q_add(q_add(q_mul(xa, xa), q_mul(xa, xa)), q_mul(xa, xa))), q_add(q_mul(q_mul(q_add(ya, ya), q_add(ya, ya)), xa), q_mul(q_mul(q_add(ya, ya), q_add(ya, ya)), xa))), q_mul(W, W)));
    qr_tan_y(xa, ya, lam, sx, W);
    t2_lin2(q_sub(q_mul(lam, q_add(ya, ya)), q_add(q_add(q_mul(xa, xa), q_mul(xa, xa)), q_mul(xa, xa))), q_mul(q_mul(q_mul(W, W), W), q_sub(q_mul(q_mul(q_add(ya, ya), q_add(ya, ya)), xa), q_sub(q_mul(q_add(q_add(q_mul(xa, xa), q_mul(xa, xa)), q_mul(xa, xa)), q_add(q_add(q_mul(xa, xa), q_mul(xa, xa)), q_mul(xa, xa))), q_add(q_mul(q_mul(q_add(ya, ya), q_add(ya, ya)), xa), q_mul(q_mul(q_add(ya, ya), q_add(ya, ya)), xa))))), q_sub(q_mul(sx, q_mul(q_mul(q_add(ya, ya), W), q_mul(q_add(ya, ya), W))), q_mul(q_sub(q_mul(q_add(q_add(q_mul(xa, xa), q_mul(xa, xa)), q_mul(xa, xa)), q_add(q_add(q_mul(xa, xa), q_mul(xa, xa)), q_mul(xa, xa))), q_add(q_mul(q_mul(q_add(ya, ya), q_add(ya, ya)), xa), q_mul(q_mul(q_add(ya, ya), q_add(ya, ya)), xa))), q_mul(W, W))), q_mul(lam, q_mul(q_add(ya, ya), W)));
    t2_diff(q_mul(q_sub(q_mul(lam, q_sub(xa, sx)), ya), q_mul(q_mul(q_mul(q_add(ya, ya), W), q_mul(q_add(ya, ya), W)), q_mul(q_add(ya, ya), W))), q_mul(q_sub(q_mul(q_add(q_add(q_mul(xa, xa), q_mul(xa, xa)), q_mul(xa, xa)), q_sub(q_mul(q_mul(q_add(ya, ya), q_add(ya, ya)), xa), q_sub(q_mul(q_add(q_add(q_mul(xa, xa), q_mul(xa, xa)), q_mul(xa, xa)), q_add(q_add(q_mul(xa, xa), q_mul(xa, xa)), q_mul(xa, xa))), q_add(q_mul(q_mul(q_add(ya, ya), q_add(ya, ya)), xa), q_mul(q_mul(q_add(ya, ya), q_add(ya, ya)), xa))))), q_k(8, q_mul(q_mul(ya, ya), q_mul(ya, ya)))), q_mul(q_mul(W, W), W)));
    t2_cong_mul(sy, q_sub(q_mul(lam, q_sub(xa, sx)), ya), q_mul(q_mul(q_mul(q_add(ya, ya), W), q_mul(q_add(ya, ya), W)), q_mul(q_add(ya, ya), W)));
    cv_affine(x3, y3, z3, sx, sy, q_mul(q_add(ya, ya), W));
}
// the chord law: (x3n W^2, y3n W^3, (x2 - x1) W) is the sum of the affine points (x1, y1), (x2, y2), x1 != x2, for any scale W != 0
proof fn cv_chord(x1: F2, y1: F2, x2: F2, y2: F2, W: F2, x3: F2, y3: F2, z3: F2)
    requires m2_ok(x1), m2_ok(y1), m2_ok(x2), m2_ok(y2), m2_ok(x3), m2_ok(y3), m2_ok(z3), !qz(W), x1 != x2,
        qc(z3, q_mul(q_sub(x2, x1), W)), qc(x3, q_mul(q_sub(q_mul(q_sub(y2, y1), q_sub(y2, y1)), q_mul(q_add(x1, x2), q_mul(q_sub(x2, x1), q_sub(x2, x1)))), q_mul(W, W))), qc(y3, q_mul(q_sub(q_mul(q_sub(y2, y1), q_sub(q_mul(x1, q_mul(q_sub(x2, x1), q_sub(x2, x1))), q_sub(q_mul(q_sub(y2, y1), q_sub(y2, y1)), q_mul(q_add(x1, x2), q_mul(q_sub(x2, x1), q_sub(x2, x1)))))), q_mul(y1, q_mul(q_mul(q_sub(x2, x1), q_sub(x2, x1)), q_sub(x2, x1)))), q_mul(q_mul(W, W), W)))
    ensures z3 != m2_zero(), jac2(x3, y3, z3) == g2_add(Pt2::Aff { x: x1, y: y1 }, Pt2::Aff { x: x2, y: y2 })
{
    let dxr = m2_sub(x2, x1); t2_cs(dxr, x2, x1, x2, x1); t2_diff(x2, x1);
    if qc(x2, x1) { t2_ok_eq(x2, x1); }
    let dyr = m2_sub(y2, y1); t2_cs(dyr, y2, y1, y2, y1);
    let dd = m2_inv(dxr); t2_inv(dxr); t2_cong_mul(dxr, q_sub(x2, x1), dd);
    let lam = m2_mul(dyr, dd); t2_cm(lam, dyr, dd, q_sub(y2, y1), dd);
    cv_slope(lam, q_sub(y2, y1), q_sub(x2, x1), dd);
    t2_nz_mul(q_sub(x2, x1), W); t2_zero(z3);
    // x
    let l2 = m2_mul(lam, lam); t2_cm(l2, lam, lam, lam, lam); let sa = m2_sub(l2, x1); t2_cs(sa, l2, x1, q_mul(lam, lam), x1);
    let sx = m2_sub(sa, x2); t2_cs(sx, sa, x2, q_sub(q_mul(lam, lam), x1), x2);
    qr_chord_x(x1, y1, x2, y2, lam, W);
    t2_lin1(q_sub(q_mul(lam, q_sub(x2, x1)), q_sub(y2, y1)), q_mul(q_add(q_mul(lam, q_sub(x2, x1)), q_sub(y2, y1)), q_mul(W, W)));
    t2_diff(q_mul(q_sub(q_sub(q_mul(lam, lam), x1), x2), q_mul(q_mul(q_sub(x2, x1), W), q_mul(q_sub(x2, x1), W))), q_mul(q_sub(q_mul(q_sub(y2, y1), q_sub(y2, y1)), q_mul(q_add(x1, x2), q_mul(q_sub(x2, x1), q_sub(x2, x1)))), q_mul(W, W)));
    t2_cong_mul(sx, q_sub(q_sub(q_mul(lam, lam), x1), x2), q_mul(q_mul(q_sub(x2, x1), W), q_mul(q_sub(x2, x1), W)));
    // y
    let xs = m2_sub(x1, sx); t2_cs(xs, x1, sx, x1, sx); let ly = m2_mul(lam, xs); t2_cm(ly, lam, xs, lam, q_sub(x1, sx));
    let sy = m2_sub(ly, y1); t2_cs(sy, ly, y1, q_mul(lam, q_sub(x1, sx)), y1);
    t2_diff(q_mul(sx, q_mul(q_mul(q_sub(x2, x1), W), q_mul(q_sub(x2, x1), W))), q_mul(q_sub(q_mul(q_sub(y2, y1), q_sub(y2, y1)), q_mul(q_add(x1, x2), q_mul(q_sub(x2, x1), q_sub(x2, x1)))), q_mul(W, W)));
    qr_chord_y(x1, y1, x2, y2, lam, sx, W);
    t2_lin2(q_sub(q_mul(lam, q_sub(x2, x1)), q_sub(y2, y1)), q_mul(q_mul(q_mul(W, W), W), q_sub(q_mul(x1, q_mul(q_sub(x2, x1), q_sub(x2, x1))), q_sub(q_mul(q_sub(y2, y1), q_sub(y2, y1)), q_mul(q_add(x1, x2), q_mul(q_sub(x2, x1), q_sub(x2, x1)))))), q_sub(q_mul(sx, q_mul(q_mul(q_sub(x2, x1), W), q_mul(q_sub(x2, x1), W))), q_mul(q_sub(q_mul(q_sub(y2, y1), q_sub(y2, y1)), q_mul(q_add(x1, x2), q_mul(q_sub(x2, x1), q_sub(x2, x1)))), q_mul(W, W))), q_mul(lam, q_mul(q_sub(x2, x1), W)));
    t2_diff(q_mul(q_sub(q_mul(lam, q_sub(x1, sx)), y1), q_mul(q_mul(q_mul(q_sub(x2, x1), W), q_mul(q_sub(x2, x1), W)), q_mul(q_sub(x2, x1), W))), q_mul(q_sub(q_mul(q_sub(y2, y1), q_sub(q_mul(x1, q_mul(q_sub(x2, x1), q_sub(x2, x1))), q_sub(q_mul(q_sub(y2, y1), q_sub(y2, y1)), q_mul(q_add(x1, x2), q_mul(q_sub(x2, x1), q_sub(x2, x1)))))), q_mul(y1, q_mul(q_mul(q_sub(x2, x1), q_sub(x2, x1)), q_sub(x2, x1)))), q_mul(q_mul(W, W), W)));
    t2_cong_mul(sy, q_sub(q_mul(lam, q_sub(x1, sx)), y1), q_mul(q_mul(q_mul(q_sub(x2, x1), W), q_mul(q_sub(x2, x1), W)), q_mul(q_sub(x2, x1), W)));
    cv_affine(x3, y3, z3, sx, sy, q_mul(q_sub(x2, x1), W));
}
// TwistPoint::point_double on a finite Jacobian point is the tangent law (a point of order two doubles to infinity: z3 == 0)
proof fn cv_dbl(X: F2, Y: F2, Z: F2, m: F2, y2: F2, z3: F2, y4: F2, s: F2, y16: F2, d: F2, m2: F2, s2: F2, x3: F2, d1: F2, d2: F2, y3: F2)
    requires m2_ok(X), m2_ok(Y), m2_ok(Z), Z != m2_zero(), dbl_rel(X, Y, Z, m, y2, z3, y4, s, y16, d, m2, s2, x3, d1, d2, y3)
    ensures m2_ok(x3), m2_ok(y3), m2_ok(z3), jac2(x3, y3, z3) == g2_add(jac2(X, Y, Z), jac2(X, Y, Z))
{
    t2_zero(Z);
    let zi = m2_inv(Z); t2_inv(Z);
    let xa = m2_mul(m2_mul(X, zi), zi); let ya = m2_mul(m2_mul(m2_mul(Y, zi), zi), zi);
    cv_param(X, Y, Z, zi, xa, ya);
    dbl_chain(X, Y, Z, m, y2, z3, y4, s, y16, d, m2, s2, x3, d1, d2, y3, q_mul(q_mul(xa, Z), Z), q_mul(q_mul(q_mul(ya, Z), Z), Z), Z);
    qr_dF_m(xa, Z); qr_dF_s(xa, ya, Z); qr_dF_d(ya, Z); qr_dF_z(ya, Z);
    let W = q_mul(q_mul(Z, Z), q_mul(Z, Z));
    qr_dG_x(q_add(q_add(q_mul(xa, xa), q_mul(xa, xa)), q_mul(xa, xa)), q_mul(q_mul(q_add(ya, ya), q_add(ya, ya)), xa), W);
    qr_dG_y(q_add(q_add(q_mul(xa, xa), q_mul(xa, xa)), q_mul(xa, xa)), q_mul(q_mul(q_add(ya, ya), q_add(ya, ya)), xa), q_sub(q_mul(q_add(q_add(q_mul(xa, xa), q_mul(xa, xa)), q_mul(xa, xa)), q_add(q_add(q_mul(xa, xa), q_mul(xa, xa)), q_mul(xa, xa))), q_add(q_mul(q_mul(q_add(ya, ya), q_add(ya, ya)), xa), q_mul(q_mul(q_add(ya, ya), q_add(ya, ya)), xa))), q_k(8, q_mul(q_mul(ya, ya), q_mul(ya, ya))), W);
    t2_nz_mul(Z, Z); t2_nz_mul(q_mul(Z, Z), q_mul(Z, Z));
    if ya == m2_zero() {
        t2_zero(ya); t2_dbl_z(ya); t2_lin1(q_add(ya, ya), W); t2_zero(z3);
        let y2r = m2_add(ya, ya); t2_ca(y2r, ya, ya, ya, ya); t2_zero(y2r);
    } else {
        cv_tangent(xa, ya, W, x3, y3, z3);
    }
}
// ra == a k, rb == b k with k != 0: the reduced values are equal exactly when a and b are
proof fn cv_scaled_eq(a: F2, b: F2, k: F2, ra: F2, rb: F2)
    requires m2_ok(a), m2_ok(b), m2_ok(ra), m2_ok(rb), !qz(k), qc(ra, q_mul(a, k)), qc(rb, q_mul(b, k))
    ensures (ra == rb) == (a == b)
{
    if ra == rb {
        t2_diff(q_mul(a, k), q_mul(b, k));
        qr_dist(a, b, k);
        t2_diff(a, b);
        if !qz(q_sub(a, b)) { t2_nz_mul(q_sub(a, b), k); }
        t2_ok_eq(a, b);
    }
    if a == b { t2_ok_eq(ra, rb); }
}
// r == (a - b) k with k != 0: r vanishes exactly when a == b;   r == (a + b) k: exactly when a + b == 0
proof fn cv_scaled_diff(a: F2, b: F2, k: F2, r: F2)
    requires m2_ok(a), m2_ok(b), m2_ok(r), !qz(k)
    ensures qc(r, q_mul(q_sub(a, b), k)) ==> (r == m2_zero()) == (a == b), qc(r, q_mul(q_add(a, b), k)) ==> (r == m2_zero()) == (m2_add(a, b) == m2_zero())
{
    t2_zero(r);
    if qc(r, q_mul(q_sub(a, b), k)) {
        t2_diff(a, b);
        if qz(q_sub(a, b)) { t2_lin1(q_sub(a, b), k); t2_ok_eq(a, b); } else { t2_nz_mul(q_sub(a, b), k); }
    }
    if qc(r, q_mul(q_add(a, b), k)) {
        let ys = m2_add(a, b); t2_ca(ys, a, b, a, b); t2_zero(ys);
        if qz(q_add(a, b)) { t2_lin1(q_add(a, b), k); } else { t2_nz_mul(q_add(a, b), k); }
    }
}
// two points of the curve with the same x are equal or opposite
proof fn cv_same_x(x: F2, y1: F2, y2: F2)
    requires on_curve2(Pt2::Aff { x: x, y: y1 }), on_curve2(Pt2::Aff { x: x, y: y2 }), y1 != y2
    ensures m2_add(y1, y2) == m2_zero()
{
    let s1 = m2_mul(y1, y1); let s2 = m2_mul(y2, y2);
    t2_cm(s1, y1, y1, y1, y1); t2_cm(s2, y2, y2, y2, y2);
    t2_diff(q_mul(y1, y1), q_mul(y2, y2));
    qr_sqdiff(y1, y2);
    t2_diff(y1, y2);
    if qc(y1, y2) { t2_ok_eq(y1, y2); }
    if !qz(q_add(y1, y2)) { t2_nz_mul(q_sub(y1, y2), q_add(y1, y2)); }
    let ys = m2_add(y1, y2); t2_ca(ys, y1, y2, y1, y2); t2_zero(ys);
}
// (X, -Y, Z) denotes the opposite point
proof fn cv_neg(X: F2, Y: F2, Z: F2, ny: F2)
    requires m2_ok(X), m2_ok(Y), m2_ok(Z), ny == m2_neg(Y)
    ensures m2_ok(ny), jac2(X, ny, Z) == g2_neg(jac2(X, Y, Z)), on_curve2(jac2(X, Y, Z)) ==> on_curve2(jac2(X, ny, Z))
{
    t2_cn(ny, Y, Y);
    if Z != m2_zero() {
        let zi = m2_inv(Z);
        let b1 = m2_mul(Y, zi); t2_cm(b1, Y, zi, Y, zi); let b2 = m2_mul(b1, zi); t2_cm(b2, b1, zi, q_mul(Y, zi), zi);
        let ya = m2_mul(b2, zi); t2_cm(ya, b2, zi, q_mul(q_mul(Y, zi), zi), zi);
        let c1 = m2_mul(ny, zi); t2_cm(c1, ny, zi, q_sub(q_c(0), Y), zi); let c2 = m2_mul(c1, zi); t2_cm(c2, c1, zi, q_mul(q_sub(q_c(0), Y), zi), zi);
        let na = m2_mul(c2, zi); t2_cm(na, c2, zi, q_mul(q_mul(q_sub(q_c(0), Y), zi), zi), zi);
        qr_neg3(Y, zi);
        let nb = m2_neg(ya); t2_cn(nb, ya, ya);
        t2_cong_add(q_c(0), q_c(0), ya, q_mul(q_mul(q_mul(Y, zi), zi), zi));
        t2_ok_eq(na, nb);
        // the square of the y coordinate is unchanged
        let sq = m2_mul(ya, ya); t2_cm(sq, ya, ya, ya, ya);
        let nsq = m2_mul(nb, nb); t2_cm(nsq, nb, nb, q_sub(q_c(0), ya), q_sub(q_c(0), ya));
        qr_negsq(ya);
        t2_ok_eq(sq, nsq);
        let xz = m2_mul(X, zi); t2_cm(xz, X, zi, X, zi); let xq = m2_mul(xz, zi); t2_cm(xq, xz, zi, q_mul(X, zi), zi);
    }
}
// twist_point_add_full, both operands finite: the cross-multiplied coordinates in terms of the affine coordinates and t = z1 z2; the case distinction
proof fn cv_af1(X1: F2, Y1: F2, Z1: F2, X2: F2, Y2: F2, Z2: F2, t1: F2, t2: F2, u2: F2, u1: F2, t5: F2, h: F2, t1c: F2, s2: F2, t2c: F2, s1: F2, t6: F2, r: F2)
    requires m2_ok(X1), m2_ok(Y1), m2_ok(Z1), m2_ok(X2), m2_ok(Y2), m2_ok(Z2), Z1 != m2_zero(), Z2 != m2_zero(), af1_rel(X1, Y1, Z1, X2, Y2, Z2, t1, t2, u2, u1, t5, h, t1c, s2, t2c, s1, t6, r)
    ensures ({
        let zi1 = m2_inv(Z1); let x1 = m2_mul(m2_mul(X1, zi1), zi1); let y1 = m2_mul(m2_mul(m2_mul(Y1, zi1), zi1), zi1);
        let zi2 = m2_inv(Z2); let x2 = m2_mul(m2_mul(X2, zi2), zi2); let y2 = m2_mul(m2_mul(m2_mul(Y2, zi2), zi2), zi2);
        let t = q_mul(Z1, Z2); let tq = q_mul(t, t); let wq = q_mul(tq, t);
        m2_ok(x1) && m2_ok(y1) && m2_ok(x2) && m2_ok(y2) && jac2(X1, Y1, Z1) == (Pt2::Aff { x: x1, y: y1 }) && jac2(X2, Y2, Z2) == (Pt2::Aff { x: x2, y: y2 })
        && !qz(t) && !qz(tq) && !qz(wq)
        && qc(u1, q_mul(x1, tq)) && qc(u2, q_mul(x2, tq)) && qc(s1, q_mul(y1, wq)) && qc(s2, q_mul(y2, wq)) && qc(t5, q_add(q_mul(x2, tq), q_mul(x1, tq)))
        && qc(h, q_mul(q_sub(x2, x1), tq)) && qc(r, q_mul(q_sub(y2, y1), wq))
        && m2_ok(u1) && m2_ok(u2) && m2_ok(s1) && m2_ok(s2) && m2_ok(t5) && m2_ok(h) && m2_ok(r) && m2_ok(t6)
        && (h == m2_zero()) == (x1 == x2) && (r == m2_zero()) == (y1 == y2) && (t6 == m2_zero()) == (m2_add(y1, y2) == m2_zero()) })
{
    let zi1 = m2_inv(Z1); let x1 = m2_mul(m2_mul(X1, zi1), zi1); let y1 = m2_mul(m2_mul(m2_mul(Y1, zi1), zi1), zi1);
        let zi2 = m2_inv(Z2); let x2 = m2_mul(m2_mul(X2, zi2), zi2); let y2 = m2_mul(m2_mul(m2_mul(Y2, zi2), zi2), zi2);
        let t = q_mul(Z1, Z2); let tq = q_mul(t, t); let wq = q_mul(tq, t);
    t2_zero(Z1); t2_zero(Z2); t2_inv(Z1); t2_inv(Z2);
    cv_param(X1, Y1, Z1, zi1, x1, y1); cv_param(X2, Y2, Z2, zi2, x2, y2);
    af1_chain(X1, Y1, Z1, X2, Y2, Z2, t1, t2, u2, u1, t5, h, t1c, s2, t2c, s1, t6, r, q_mul(q_mul(x1, Z1), Z1), q_mul(q_mul(q_mul(y1, Z1), Z1), Z1), Z1, q_mul(q_mul(x2, Z2), Z2), q_mul(q_mul(q_mul(y2, Z2), Z2), Z2), Z2);
    qr_af_u1(x1, Z1, Z2); qr_af_u2(x2, Z1, Z2); qr_af_s1(y1, Z1, Z2); qr_af_s2(y2, Z1, Z2);
    qr_dist(x2, x1, tq); qr_dist(y2, y1, wq); qr_dista(y2, y1, wq);
    t2_nz_mul(Z1, Z2); t2_nz_mul(t, t); t2_nz_mul(tq, t);
    cv_scaled_diff(x2, x1, tq, h); cv_scaled_diff(y2, y1, wq, r); cv_scaled_diff(y2, y1, wq, t6);
}
// the generic branch (the affine x coordinates differ) is the chord law
proof fn cv_af2(X1: F2, Y1: F2, Z1: F2, X2: F2, Y2: F2, Z2: F2, t1: F2, t2: F2, u2: F2, u1: F2, t5: F2, h: F2, t1c: F2, s2: F2, t2c: F2, s1: F2, t6: F2, r: F2, r2: F2, t7a: F2, z3: F2, h2: F2, t5b: F2, h3: F2, v: F2, x3: F2, t4b: F2, y3a: F2, s1h: F2, y3: F2)
    requires m2_ok(X1), m2_ok(Y1), m2_ok(Z1), m2_ok(X2), m2_ok(Y2), m2_ok(Z2), Z1 != m2_zero(), Z2 != m2_zero(), af1_rel(X1, Y1, Z1, X2, Y2, Z2, t1, t2, u2, u1, t5, h, t1c, s2, t2c, s1, t6, r), af2_rel(u1, s1, t5, h, r, Z1, Z2, r2, t7a, z3, h2, t5b, h3, v, x3, t4b, y3a, s1h, y3),
        h != m2_zero()
    ensures m2_ok(x3), m2_ok(y3), m2_ok(z3), z3 != m2_zero(), jac2(x3, y3, z3) == g2_add(jac2(X1, Y1, Z1), jac2(X2, Y2, Z2))
{
    let zi1 = m2_inv(Z1); let x1 = m2_mul(m2_mul(X1, zi1), zi1); let y1 = m2_mul(m2_mul(m2_mul(Y1, zi1), zi1), zi1);
        let zi2 = m2_inv(Z2); let x2 = m2_mul(m2_mul(X2, zi2), zi2); let y2 = m2_mul(m2_mul(m2_mul(Y2, zi2), zi2), zi2);
        let t = q_mul(Z1, Z2); let tq = q_mul(t, t); let wq = q_mul(tq, t);
    cv_af1(X1, Y1, Z1, X2, Y2, Z2, t1, t2, u2, u1, t5, h, t1c, s2, t2c, s1, t6, r);
    let dxq = q_sub(x2, x1); let dyq = q_sub(y2, y1);
    af2_chain(u1, s1, t5, h, r, Z1, Z2, r2, t7a, z3, h2, t5b, h3, v, x3, t4b, y3a, s1h, y3, q_mul(x1, tq), q_mul(y1, wq), q_add(q_mul(x2, tq), q_mul(x1, tq)), q_mul(dxq, tq), q_mul(dyq, wq), Z1, Z2);
    qr_af_z(dxq, Z1, Z2);
    qr_af_x(x1, x2, dyq, t);
    qr_af_y(x1, y1, dxq, dyq, q_sub(q_mul(q_sub(y2, y1), q_sub(y2, y1)), q_mul(q_add(x1, x2), q_mul(q_sub(x2, x1), q_sub(x2, x1)))), t);
    cv_chord(x1, y1, x2, y2, wq, x3, y3, z3);
}
// opposite points (same x, different y): the generic formulas give z3 == 0, and the sum is the point at infinity
proof fn cv_af_opp(X1: F2, Y1: F2, Z1: F2, X2: F2, Y2: F2, Z2: F2, t1: F2, t2: F2, u2: F2, u1: F2, t5: F2, h: F2, t1c: F2, s2: F2, t2c: F2, s1: F2, t6: F2, r: F2, t7a: F2, z3: F2)
    requires m2_ok(X1), m2_ok(Y1), m2_ok(Z1), m2_ok(X2), m2_ok(Y2), m2_ok(Z2), Z1 != m2_zero(), Z2 != m2_zero(), af1_rel(X1, Y1, Z1, X2, Y2, Z2, t1, t2, u2, u1, t5, h, t1c, s2, t2c, s1, t6, r),
        on_curve2(jac2(X1, Y1, Z1)), on_curve2(jac2(X2, Y2, Z2)), h == m2_zero(), r != m2_zero(), t7a == m2_mul(h, Z1), z3 == m2_mul(t7a, Z2)
    ensures z3 == m2_zero(), g2_add(jac2(X1, Y1, Z1), jac2(X2, Y2, Z2)) == Pt2::Inf
{
    let zi1 = m2_inv(Z1); let x1 = m2_mul(m2_mul(X1, zi1), zi1); let y1 = m2_mul(m2_mul(m2_mul(Y1, zi1), zi1), zi1);
        let zi2 = m2_inv(Z2); let x2 = m2_mul(m2_mul(X2, zi2), zi2); let y2 = m2_mul(m2_mul(m2_mul(Y2, zi2), zi2), zi2);
        let t = q_mul(Z1, Z2); let tq = q_mul(t, t); let wq = q_mul(tq, t);
    cv_af1(X1, Y1, Z1, X2, Y2, Z2, t1, t2, u2, u1, t5, h, t1c, s2, t2c, s1, t6, r);
    cv_same_x(x1, y1, y2);
    f2_pos(); f2_small(0);
    assert(0 * Z1.c0 - 2 * (0 * Z1.c1) == 0 && 0 * Z1.c1 + 0 * Z1.c0 == 0);
    assert(0 * Z2.c0 - 2 * (0 * Z2.c1) == 0 && 0 * Z2.c1 + 0 * Z2.c0 == 0);
}
// both differences vanish: the operands denote the same point;  r == 0 and t6 == 0 cannot happen on the curve (it has no point with y == 0)
proof fn cv_af_same(X1: F2, Y1: F2, Z1: F2, X2: F2, Y2: F2, Z2: F2, t1: F2, t2: F2, u2: F2, u1: F2, t5: F2, h: F2, t1c: F2, s2: F2, t2c: F2, s1: F2, t6: F2, r: F2)
    requires m2_ok(X1), m2_ok(Y1), m2_ok(Z1), m2_ok(X2), m2_ok(Y2), m2_ok(Z2), Z1 != m2_zero(), Z2 != m2_zero(), af1_rel(X1, Y1, Z1, X2, Y2, Z2, t1, t2, u2, u1, t5, h, t1c, s2, t2c, s1, t6, r),
        on_curve2(jac2(X1, Y1, Z1)), on_curve2(jac2(X2, Y2, Z2))
    ensures h == m2_zero() && r == m2_zero() ==> jac2(X1, Y1, Z1) == jac2(X2, Y2, Z2), !(r == m2_zero() && t6 == m2_zero())
{
    let zi1 = m2_inv(Z1); let x1 = m2_mul(m2_mul(X1, zi1), zi1); let y1 = m2_mul(m2_mul(m2_mul(Y1, zi1), zi1), zi1);
        let zi2 = m2_inv(Z2); let x2 = m2_mul(m2_mul(X2, zi2), zi2); let y2 = m2_mul(m2_mul(m2_mul(Y2, zi2), zi2), zi2);
        let t = q_mul(Z1, Z2); let tq = q_mul(t, t); let wq = q_mul(tq, t);
    cv_af1(X1, Y1, Z1, X2, Y2, Z2, t1, t2, u2, u1, t5, h, t1c, s2, t2c, s1, t6, r);
    if r == m2_zero() && t6 == m2_zero() {
        g2_y_nz(x1, y1);
        t2_zero(y1); t2_dbl_z(y1);
        let ys = m2_add(y1, y1); t2_ca(ys, y1, y1, y1, y1); t2_zero(ys);
    }
}
// TwistPoint::point_add (the second operand is affine: rhs.z == 1), both operands finite: the differences and the case distinction
proof fn cv_ma1(X1: F2, Y1: F2, Z1: F2, X2: F2, Y2: F2, t1: F2, t2: F2, u: F2, s: F2, h: F2, r: F2)
    requires m2_ok(X1), m2_ok(Y1), m2_ok(Z1), m2_ok(X2), m2_ok(Y2), Z1 != m2_zero(), ma1_rel(X1, Y1, Z1, X2, Y2, t1, t2, u, s, h, r)
    ensures ({
        let zi1 = m2_inv(Z1); let x1 = m2_mul(m2_mul(X1, zi1), zi1); let y1 = m2_mul(m2_mul(m2_mul(Y1, zi1), zi1), zi1);
        let zq = q_mul(Z1, Z1); let wq = q_mul(zq, Z1);
        m2_ok(x1) && m2_ok(y1) && jac2(X1, Y1, Z1) == (Pt2::Aff { x: x1, y: y1 }) && !qz(zq) && !qz(wq)
        && qc(h, q_mul(q_sub(X2, x1), zq)) && qc(r, q_mul(q_sub(Y2, y1), wq)) && m2_ok(h) && m2_ok(r)
        && (h == m2_zero()) == (x1 == X2) && (r == m2_zero()) == (y1 == Y2) })
{
    let zi1 = m2_inv(Z1); let x1 = m2_mul(m2_mul(X1, zi1), zi1); let y1 = m2_mul(m2_mul(m2_mul(Y1, zi1), zi1), zi1);
        let zq = q_mul(Z1, Z1); let wq = q_mul(zq, Z1);
    t2_zero(Z1); t2_inv(Z1);
    cv_param(X1, Y1, Z1, zi1, x1, y1);
    ma1_chain(X1, Y1, Z1, X2, Y2, t1, t2, u, s, h, r, q_mul(q_mul(x1, Z1), Z1), q_mul(q_mul(q_mul(y1, Z1), Z1), Z1), Z1, X2, Y2);
    qr_ma_h(x1, X2, Z1); qr_ma_r(y1, Y2, Z1);
    t2_nz_mul(Z1, Z1); t2_nz_mul(zq, Z1);
    cv_scaled_diff(X2, x1, zq, h); cv_scaled_diff(Y2, y1, wq, r);
}
proof fn cv_ma2(X1: F2, Y1: F2, Z1: F2, X2: F2, Y2: F2, t1: F2, t2: F2, u: F2, s: F2, h: F2, r: F2, z3: F2, h2: F2, h3: F2, v: F2, v2: F2, r2: F2, xa: F2, x3: F2, t3b: F2, t3c: F2, t4b: F2, y3: F2)
    requires m2_ok(X1), m2_ok(Y1), m2_ok(Z1), m2_ok(X2), m2_ok(Y2), Z1 != m2_zero(), ma1_rel(X1, Y1, Z1, X2, Y2, t1, t2, u, s, h, r), ma2_rel(h, r, X1, Y1, Z1, z3, h2, h3, v, v2, r2, xa, x3, t3b, t3c, t4b, y3), h != m2_zero()
    ensures m2_ok(x3), m2_ok(y3), m2_ok(z3), z3 != m2_zero(), jac2(x3, y3, z3) == g2_add(jac2(X1, Y1, Z1), Pt2::Aff { x: X2, y: Y2 })
{
    let zi1 = m2_inv(Z1); let x1 = m2_mul(m2_mul(X1, zi1), zi1); let y1 = m2_mul(m2_mul(m2_mul(Y1, zi1), zi1), zi1);
        let zq = q_mul(Z1, Z1); let wq = q_mul(zq, Z1);
    cv_ma1(X1, Y1, Z1, X2, Y2, t1, t2, u, s, h, r);
    t2_zero(Z1); t2_inv(Z1);
    cv_param(X1, Y1, Z1, zi1, x1, y1);
    let dxq = q_sub(X2, x1); let dyq = q_sub(Y2, y1);
    ma2_chain(h, r, X1, Y1, Z1, z3, h2, h3, v, v2, r2, xa, x3, t3b, t3c, t4b, y3, q_mul(dxq, zq), q_mul(dyq, wq), q_mul(q_mul(x1, Z1), Z1), q_mul(q_mul(q_mul(y1, Z1), Z1), Z1), Z1);
    qr_ma_z(dxq, Z1);
    qr_ma_x(x1, X2, dyq, Z1);
    qr_ma_y(x1, y1, dxq, dyq, q_sub(q_mul(q_sub(Y2, y1), q_sub(Y2, y1)), q_mul(q_add(x1, X2), q_mul(q_sub(X2, x1), q_sub(X2, x1)))), Z1);
    cv_chord(x1, y1, X2, Y2, wq, x3, y3, z3);
}
// TwistPoint::point_equals, both operands finite: each comparison of cross products compares one affine coordinate
proof fn cv_eq(X1: F2, Y1: F2, Z1: F2, X2: F2, Y2: F2, Z2: F2, t1: F2, t2: F2, t3: F2, t4: F2, t1c: F2, t2c: F2, t3b: F2, t4b: F2)
    requires m2_ok(X1), m2_ok(Y1), m2_ok(Z1), m2_ok(X2), m2_ok(Y2), m2_ok(Z2), Z1 != m2_zero(), Z2 != m2_zero(), eq_rel(X1, Y1, Z1, X2, Y2, Z2, t1, t2, t3, t4, t1c, t2c, t3b, t4b)
    ensures (t3 == t4) == (pt2_x(jac2(X1, Y1, Z1)) == pt2_x(jac2(X2, Y2, Z2))), (t3b == t4b) == (pt2_y(jac2(X1, Y1, Z1)) == pt2_y(jac2(X2, Y2, Z2)))
{
    let zi1 = m2_inv(Z1); let x1 = m2_mul(m2_mul(X1, zi1), zi1); let y1 = m2_mul(m2_mul(m2_mul(Y1, zi1), zi1), zi1);
        let zi2 = m2_inv(Z2); let x2 = m2_mul(m2_mul(X2, zi2), zi2); let y2 = m2_mul(m2_mul(m2_mul(Y2, zi2), zi2), zi2);
        let t = q_mul(Z1, Z2); let tq = q_mul(t, t); let wq = q_mul(tq, t);
    t2_zero(Z1); t2_zero(Z2); t2_inv(Z1); t2_inv(Z2);
    cv_param(X1, Y1, Z1, zi1, x1, y1); cv_param(X2, Y2, Z2, zi2, x2, y2);
    eq_chain(X1, Y1, Z1, X2, Y2, Z2, t1, t2, t3, t4, t1c, t2c, t3b, t4b, q_mul(q_mul(x1, Z1), Z1), q_mul(q_mul(q_mul(y1, Z1), Z1), Z1), Z1, q_mul(q_mul(x2, Z2), Z2), q_mul(q_mul(q_mul(y2, Z2), Z2), Z2), Z2);
    qr_af_u1(x1, Z1, Z2); qr_af_u2(x2, Z1, Z2); qr_eq_s1(y1, Z1, Z2); qr_eq_s2(y2, Z1, Z2);
    t2_nz_mul(Z1, Z2); t2_nz_mul(t, t); t2_nz_mul(tq, t);
    cv_scaled_eq(x1, x2, tq, t3, t4); cv_scaled_eq(y1, y2, wq, t3b, t4b);
}
// END GENERATED
