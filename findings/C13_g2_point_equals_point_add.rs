// Findings (C13, G2 point arithmetic, gm-sm9/src/points.rs) - confirmed by running the real code.
//
// 1. TwistPoint::point_equals is not an equality of points: it returns `true` as soon as the cross-multiplied x coordinates
//    agree (`if t3.eq(&t4) { return true; }`), and otherwise when the cross-multiplied y coordinates agree.
//    P and -P are reported equal; (x, y) and (w x, y), w^3 = 1, are reported equal.  The repo's G2 tests compare with this
//    function, so a result with the wrong sign of y passes them.   (Point::point_equals for G1 is correct: x AND y.)
//    Verus: units/sm9_g2.rs proves the exact behaviour (r == (x equal || y equal) on finite operands) and the lemma
//    finding_point_equals_accepts_negative (the required contract `r == (abs2(a) == abs2(b))` is false).
// 2. TwistPoint::point_add is a mixed addition (rhs.z is never read, except for the test against zero): for a finite rhs with
//    z != 1 the result is not the sum.  P.point_add(&(2P in Jacobian form)) != 3P.  The library itself only calls
//    twist_point_add_full (proved complete in units/sm9_g2.rs); point_add is `pub` and used by the test suite with affine rhs.
//
// Correct behaviour observed (tests below pass): twist_point_add_full with P == Q, P == -Q, infinity operands; point_mul with
// k = 0, 1, 2, N, N + 1, 2^256 - 1; g_mul(0); point_add with an affine rhs incl. P + P, P + (-P), infinity.
//
// TwistPoint's helpers live in a crate-private module, so this demonstration is an in-crate test: append this file to
// gm-sm9/src/points.rs (or `include!` it there) and run `cargo test -p gm-sm9 --offline --lib c13_g2 -- --nocapture`.
// Expected on the pinned tree: 3 tests FAIL (point_equals_accepts_the_negative, point_equals_accepts_same_y_other_x,
// point_add_needs_affine_rhs), 4 pass.
#[cfg(test)]
mod c13_g2_findings {
    use crate::fields::fp::fp_to_mont;
    use crate::fields::fp2::Fp2;
    use crate::fields::FieldElement;
    use crate::points::{twist_point_add_full, TwistPoint, SM9_U256_MONT_G2};
    use crate::u256::U256;

    // the mathematically exact equality of two Jacobian representations: both cross-multiplied coordinates agree
    // (and the two are at infinity together)
    fn same(a: &TwistPoint, b: &TwistPoint) -> bool {
        if a.z.is_zero() || b.z.is_zero() {
            return a.z.is_zero() && b.z.is_zero();
        }
        let za2 = a.z.fp_sqr();
        let zb2 = b.z.fp_sqr();
        let za3 = za2.fp_mul(&a.z);
        let zb3 = zb2.fp_mul(&b.z);
        a.x.fp_mul(&zb2) == b.x.fp_mul(&za2) && a.y.fp_mul(&zb3) == b.y.fp_mul(&za3)
    }
    const N: U256 = [0xe56ee19cd69ecf25, 0x49f2934b18ea8bee, 0xd603ab4ff58ec744, 0xb640000002a3a6f1];
    const N_PLUS_1: U256 = [0xe56ee19cd69ecf26, 0x49f2934b18ea8bee, 0xd603ab4ff58ec744, 0xb640000002a3a6f1];
    const OMEGA: U256 = [0xd5fc11967be65333, 0x780272354f8b78f4, 0xf300000002a3a6f2, 0x0]; // a primitive cube root of unity in Fp

    #[test]
    fn point_equals_accepts_the_negative() {
        let p = SM9_U256_MONT_G2;
        let q = p.point_neg();
        assert!(!same(&p, &q));
        println!("point_equals(P, -P) = {}", p.point_equals(&q));
        assert!(!p.point_equals(&q), "point_equals(P, -P) returned true");
    }

    #[test]
    fn point_equals_accepts_same_y_other_x() {
        let p = SM9_U256_MONT_G2;
        // (w x, y) is another point of the curve (w^3 = 1) with the same y
        let q = TwistPoint { x: p.x.fp_mul_fp(&fp_to_mont(&OMEGA)), y: p.y, z: p.z };
        assert!(!same(&p, &q));
        println!("point_equals((x, y), (w x, y)) = {}", p.point_equals(&q));
        assert!(!p.point_equals(&q), "point_equals((x,y),(wx,y)) returned true");
    }

    #[test]
    fn point_equals_rejects_different_points() {
        let p = SM9_U256_MONT_G2;
        let q = p.point_double();
        assert!(!p.point_equals(&q));
        assert!(p.point_equals(&p));
        // same point, different representation
        let three_a = twist_point_add_full(&q, &p);
        let three_b = twist_point_add_full(&p, &q);
        assert!(same(&three_a, &three_b));
        assert!(three_a.point_equals(&three_b));
    }

    #[test]
    fn point_add_needs_affine_rhs() {
        let p = SM9_U256_MONT_G2;
        let q = p.point_double(); // 2P in Jacobian form, z != 1
        let good = twist_point_add_full(&p, &q); // 3P
        let r = p.point_add(&q);
        println!("point_add(P, 2P [z != 1]) == 3P: {}", same(&r, &good));
        assert!(same(&r, &good), "TwistPoint::point_add(P, 2P) is not 3P when 2P is given with z != 1");
    }

    #[test]
    fn point_add_affine_rhs_ok() {
        let p = SM9_U256_MONT_G2;
        let q = p.point_double();
        let good = twist_point_add_full(&q, &p);
        let r = q.point_add(&p); // rhs has z = 1
        assert!(same(&r, &good));
        // P + P, P + (-P), infinity operands with z(rhs) = 1
        assert!(same(&p.point_add(&p), &q));
        assert!(p.point_add(&p.point_neg()).z.is_zero());
        assert!(same(&TwistPoint::zero().point_add(&p), &p));
        assert!(same(&p.point_add(&TwistPoint::zero()), &p));
    }

    #[test]
    fn add_full_special_cases() {
        let p = SM9_U256_MONT_G2;
        let q = p.point_double();
        assert!(same(&twist_point_add_full(&p, &p), &q));
        assert!(same(&twist_point_add_full(&q, &q), &q.point_double()));
        assert!(twist_point_add_full(&p, &p.point_neg()).z.is_zero());
        assert!(twist_point_add_full(&q, &q.point_neg()).z.is_zero());
        assert!(same(&twist_point_add_full(&TwistPoint::zero(), &q), &q));
        assert!(same(&twist_point_add_full(&q, &TwistPoint::zero()), &q));
        assert!(twist_point_add_full(&TwistPoint::zero(), &TwistPoint::zero()).z.is_zero());
    }

    #[test]
    fn point_mul_edge_scalars() {
        let p = SM9_U256_MONT_G2;
        assert!(p.point_mul(&[0, 0, 0, 0]).z.is_zero());
        assert!(same(&p.point_mul(&[1, 0, 0, 0]), &p));
        assert!(same(&p.point_mul(&[2, 0, 0, 0]), &p.point_double()));
        assert!(p.point_mul(&N).z.is_zero());
        assert!(same(&p.point_mul(&N_PLUS_1), &p));
        assert!(TwistPoint::g_mul(&[0, 0, 0, 0]).z.is_zero());
        let max: U256 = [u64::MAX, u64::MAX, u64::MAX, u64::MAX];
        // 2^256 - 1 = (2^256 - 1 - N) mod N
        let r = p.point_mul(&max);
        let k2: U256 = [0x1a911e63296130da, 0xb60d6cb4e7157411, 0x29fc54b00a7138bb, 0x49bffffffd5c590e];
        assert!(same(&r, &p.point_mul(&k2)));
    }
}
