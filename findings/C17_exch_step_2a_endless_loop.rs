// exch_step_2a loops forever when the derived key is all zero (klen = 1: probability 1/256 for a tampered R_B)
use gm_sm9::key::{exch_step_1a, exch_step_2a, Sm9EncMasterKey};
use gm_sm9::points::Point;
use std::sync::mpsc;
use std::time::Duration;
#[test]
fn initiator_terminates_for_every_received_rb() {
    let msk = Sm9EncMasterKey::master_key_generate();
    let key_a = msk.extract_exch_key(b"Alice").unwrap();
    let (ra, ra_) = exch_step_1a(&msk, b"Bob");
    for k in 1u64..=4000 {
        // a "tampered" but on-curve R_B: [k]P1
        let rb = Point::g_mul(&[k, 0, 0, 0]);
        let (tx, rx) = mpsc::channel();
        let (msk2, key2, ra2) = (msk, key_a, ra);
        std::thread::spawn(move || {
            let r = exch_step_2a(&msk2, b"Alice", b"Bob", &key2, ra_, &ra2, &rb, 1);
            let _ = tx.send(r.is_ok());
        });
        match rx.recv_timeout(Duration::from_secs(20)) {
            Ok(_) => {}
            Err(_) => panic!("exch_step_2a did not return within 20 s for R_B = [{}]P1, klen = 1 (all-zero key, endless retry loop)", k),
        }
    }
}
