// encrypt_asn1 must produce the GM/T 0009 SEQUENCE {x, y, hash, ciphertext} that OpenSSL can decrypt; decrypt_asn1 must not panic on garbage
use gm_sm2::key::{Sm2Model, Sm2PrivateKey};
use std::process::Command;
#[test]
fn openssl_decrypts_encrypt_asn1_output() {
    let dir = std::env::temp_dir().join("gm_asn1_demo"); let _ = std::fs::create_dir_all(&dir);
    let pem = dir.join("k.pem");
    assert!(Command::new("openssl").args(["ecparam", "-name", "SM2", "-genkey", "-noout", "-out"]).arg(&pem).status().unwrap().success());
    let txt = Command::new("openssl").args(["ec", "-in"]).arg(&pem).args(["-text", "-noout"]).output().unwrap();
    let t = String::from_utf8_lossy(&txt.stdout).to_string();
    // parse "priv:" hex block
    let mut hexs = String::new(); let mut on = false;
    for l in t.lines() { if l.starts_with("priv:") { on = true; continue; } if l.starts_with("pub:") { break; } if on { hexs.push_str(&l.trim().replace(":", "")); } }
    let mut d = hex::decode(hexs).unwrap(); while d.len() > 32 { d.remove(0); } while d.len() < 32 { d.insert(0, 0); }
    let sk = Sm2PrivateKey::new(&d).unwrap();
    let pk = sk.to_public_key();
    let msg = b"interop check";
    let der = pk.encrypt_asn1(msg, false, Sm2Model::C1C3C2).unwrap();
    let f = dir.join("c.der"); std::fs::write(&f, &der).unwrap();
    let out = Command::new("openssl").args(["pkeyutl", "-decrypt", "-inkey"]).arg(&pem).arg("-in").arg(&f).output().unwrap();
    println!("openssl decrypt status={:?} stdout={:?} stderr={}", out.status.code(), String::from_utf8_lossy(&out.stdout), String::from_utf8_lossy(&out.stderr).lines().next().unwrap_or(""));
    assert!(out.status.success() && out.stdout == msg, "OpenSSL cannot decrypt the library's ASN.1 ciphertext");
    // and the library decrypts its own
    assert_eq!(sk.decrypt_asn1(&der, false, Sm2Model::C1C3C2).unwrap(), msg);
}
#[test]
fn decrypt_asn1_rejects_garbage_without_panic() {
    let sk = Sm2PrivateKey::new(&[7u8; 32]).unwrap();
    let r = std::panic::catch_unwind(|| sk.decrypt_asn1(&[0x30, 0x03, 0x02, 0x01, 0x05], false, Sm2Model::C1C3C2).is_ok());
    println!("decrypt_asn1(garbage): {:?}", r.as_ref().map_err(|_| "PANIC"));
    assert!(r.is_ok());
}
