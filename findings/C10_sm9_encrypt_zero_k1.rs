// Finding (C10): GM/T 0044.4 7.2 A6 requires the encryptor to start over when K1 (the first |M| bytes of the KDF output)
// is all zero; gm-sm9 tests all 287 derived bytes instead, so a zero K1 is used whenever any later byte is non-zero.
// For a 1-byte message K1 is zero for one r in 256: the ciphertext then carries the plaintext in the clear (C2 == M) and a
// conforming decryptor rejects it (B3). decrypt has the mirrored weakness (accepts K1' == 0).
// Integration test through the RNG hook: RUSTFLAGS="--cfg gm_rs_verif" cargo test -p gm-sm9 --offline --test <name>
#![cfg(gm_rs_verif)]
use gm_sm9::key::Sm9EncMasterKey;
use gm_sm9::points::Point;
use gm_sm9::u256::{u256_from_be_bytes, verif_hooks::push_candidate};
#[test]
fn c10_encrypt_never_uses_an_all_zero_k1() {
    let ke = u256_from_be_bytes(&hex::decode("0001EDEE3778F441F8DEA3D9FA0ACC4E07EE36C93F9A08618AF4AD85CEDE1C22").unwrap());
    let msk = Sm9EncMasterKey { ke, ppube: Point::g_mul(&ke) };
    let m = [0x5au8];
    let mut leaked = Vec::new();
    for r in 1u32..=1500 {
        let mut cand = [0u8; 32];
        cand[28..].copy_from_slice(&r.to_be_bytes());
        push_candidate(cand);
        let c = msk.encrypt(b"Bob", &m);
        // C = C1 (65) || C3 (32) || C2 (1); with the offered r accepted, C2 == M means K1 == 0
        if c.len() == 98 && c[97] == m[0] { leaked.push(r); }
    }
    assert!(leaked.is_empty(), "encrypt used an all-zero K1 (C2 == M) for the ephemeral scalars r = {:?}", leaked);
}
