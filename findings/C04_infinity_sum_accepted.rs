use gm_sm2::key::Sm2PrivateKey;
#[test]
fn owner_forged_signatures_must_be_rejected() {
    let sk = Sm2PrivateKey::new(&hex::decode("3945208f7b2144b13f36e38ac6d39f95889393692860b51a42fb81ef4df7c5b8").unwrap()).unwrap();
    let pk = sk.to_public_key();
    let sig1 = hex::decode("0742d0419443b5d20a582ac3467735bf1727d05b3fce65444cd20c223305ccea34e6ea2c6227972613d124699ef65a5ac8677a052e1c35cb6e76e774ef476099").unwrap();
    let sig2 = hex::decode("0742d0419443b5d20a582ac3467735bf1727d05b3fce65444cd20c223305ccea22fb6b286d59ac6f82b2783bce733bfc4b56c1887ff07450bf0feb518bf0424b").unwrap();
    let r1 = pk.verify(None, b"forged by owner", &sig1);
    let r2 = pk.verify(None, b"forged by owner", &sig2);
    println!("sig1 (sum is infinity): accepted={:?}; sig2 (equal points, different Z): accepted={:?}", r1.is_ok(), r2.is_ok());
    assert!(r1.is_err(), "signature with [s]G+[t]P = infinity accepted");
    assert!(r2.is_err(), "signature with [s]G = [t]P accepted");
}
