
use gm_sm2::key::Sm2PublicKey;
#[test]
fn non_canonical_coordinates_must_be_rejected() {
    let canon = Sm2PublicKey::new(&hex::decode("020000000000000000000000000000000000000000000000000000000000000000").unwrap());
    let alias = Sm2PublicKey::new(&hex::decode("02fffffffeffffffffffffffffffffffffffffffff00000000ffffffffffffffff").unwrap());
    let alias_u = Sm2PublicKey::new(&hex::decode("04fffffffeffffffffffffffffffffffffffffffff00000000fffffffffffffffffd4511e81736a60f07e88a83d6cf5a167fae6d1a9c9330e76e232e00f5cdc154").unwrap());
    println!("canonical ok={:?} alias(compressed, x+p) ok={:?} alias(uncompressed, x+p) ok={:?}", canon.is_ok(), alias.is_ok(), alias_u.is_ok());
    if let (Ok(c), Ok(a)) = (&canon, &alias) { println!("same key bytes: {}", c.to_bytes(false) == a.to_bytes(false)); }
    assert!(canon.is_ok());
    assert!(alias.is_err(), "x >= p accepted (compressed)");
    assert!(alias_u.is_err(), "x >= p accepted (uncompressed)");
}
