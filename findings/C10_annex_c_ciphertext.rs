// GM/T 0044.5 Annex C (encryption with KDF stream cipher): fixed master key, r, ID "Bob", M = "Chinese IBE standard"
use gm_sm9::key::Sm9EncMasterKey;
use gm_sm9::points::Point;
use gm_sm9::u256::{u256_from_be_bytes, verif_hooks::push_candidate};
#[test]
fn annex_c_ciphertext() {
    let ke = u256_from_be_bytes(&hex::decode("0001EDEE3778F441F8DEA3D9FA0ACC4E07EE36C93F9A08618AF4AD85CEDE1C22").unwrap());
    let msk = Sm9EncMasterKey { ke, ppube: Point::g_mul(&ke) };
    let mut r = [0u8; 32];
    r.copy_from_slice(&hex::decode("0000AAC0541779C8FC45E3E2CB25C12B5D2576B2129AE8BB5EE2CBE5EC9E785C").unwrap());
    push_candidate(r);
    let c = msk.encrypt(b"Bob", b"Chinese IBE standard");
    let c1 = hex::encode_upper(&c[1..65]);
    let c3 = hex::encode_upper(&c[65..97]);
    let c2 = hex::encode_upper(&c[97..]);
    println!("C1 = {}", c1); println!("C3 = {}", c3); println!("C2 = {}", c2);
    assert_eq!(c1, "2445471164490618E1EE20528FF1D545B0F14C8BCAA44544F03DAB5DAC07D8FF42FFCA97D57CDDC05EA405F2E586FEB3A6930715532B8000759F13059ED59AC0");
    assert_eq!(c2, "1B5F5B0E951489682F3E64E1378CDD5DA9513B1C");
    assert_eq!(c3, "BA672387BCD6DE5016A158A52BB2E7FC429197BCAB70B25AFEE37A2B9DB9F367");
}
