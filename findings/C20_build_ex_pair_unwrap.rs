// Finding (C20): gm_sm2::exchange::build_ex_pair unwraps Exchange::new, which fails for an ID of 8192 bytes or more
// (ENTL does not fit 16 bits): a caller-supplied string makes a function that returns Sm2Result panic.
#[test]
fn c20_build_ex_pair_long_id_is_an_error() {
    let long = "a".repeat(8192);
    let r = std::panic::catch_unwind(|| gm_sm2::exchange::build_ex_pair(16, &long, "bob").is_err());
    assert!(matches!(r, Ok(true)), "build_ex_pair panicked (or succeeded) on an 8192-byte ID");
}
