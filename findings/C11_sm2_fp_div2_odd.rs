// Finding (C11): gm-sm2 fields::fp64 `fp_div2` (halving modulo p) is wrong for every odd operand: it adds p with the
// *reducing* fp_add (so the sum is a again) and shifts that, returning floor(a/2) (+2^255 when a + p overflows) instead of
// (a + p)/2. Example: fp_div2(1) returns 0, and 0 + 0 != 1. The function is crate-internal (unused by the crate itself),
// so this demonstration is an in-crate test: append this file to gm-sm2/src/fields/fp64.rs and run
// `cargo test -p gm-sm2 --offline --lib c11_fp_div2`.
#[cfg(test)]
mod c11_fp_div2_odd {
    use crate::fields::FieldModOperation;
    use crate::u256::U256;

    #[test]
    fn c11_fp_div2_doubles_back() {
        let cases: [U256; 4] = [
            [1, 0, 0, 0],
            [3, 0, 0, 0],
            [0xffff_ffff_ffff_fffd, 0xffff_ffff_0000_0000, 0xffff_ffff_ffff_ffff, 0xffff_fffe_ffff_ffff], // p - 2
            [2, 0, 0, 0],
        ];
        for a in cases {
            let h = a.fp_div2();
            assert_eq!(h.fp_add(&h), a, "fp_div2({:x?}) = {:x?} does not double back", a, h);
        }
    }
}
