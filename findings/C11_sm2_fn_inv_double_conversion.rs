// Finding (C11): gm-sm2 fields::fn64::fn_inv (inversion modulo the group order n) converts its operand to Montgomery form
// and then calls fn_pow, which converts to Montgomery form again (and back) itself; the result is a^(n-2) * R^(n-3), not a^-1:
// fn_inv(1) != 1, a * fn_inv(a) != 1. The function is crate-internal and not called by the crate (sign uses fn_pow directly).
// In-crate test: append to gm-sm2/src/fields/fn64.rs and run `cargo test -p gm-sm2 --offline --lib c11_fn_inv`.
#[cfg(test)]
mod c11_fn_inv {
    use super::{fn_inv, fn_mul};
    #[test]
    fn c11_fn_inv_is_the_inverse() {
        for a in [[1u64, 0, 0, 0], [2, 0, 0, 0], [0x1234_5678_9abc_def0, 7, 0, 1]] {
            let i = fn_inv(&a);
            assert_eq!(fn_mul(&a, &i), [1, 0, 0, 0], "a * fn_inv(a) != 1 for a = {:x?} (fn_inv = {:x?})", a, i);
        }
    }
}
