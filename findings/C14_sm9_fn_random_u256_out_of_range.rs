// Demonstration (place as gm-sm9/tests/fn_random_range.rs; `cargo test -p gm-sm9 --offline --test fn_random_range`).
// gm_sm9::fields::fn_random_u256() is documented by its loop as a rejection sampler for [1, N-2], but the range test
// `ret < SM9_N_MINUS_ONE` is the derived lexicographic order on [u64; 4], which starts at limb 0 - the LEAST significant
// limb. A candidate whose low limb is below the low limb of N-1 is accepted whatever its upper limbs are, so about one
// result in four is >= N (the top limb of N is 0xB640000002A3A6F1).  Before the fix this test fails within a few draws.
use gm_sm9::fields::fn_random_u256;
use gm_sm9::u256::u256_cmp;

const N_MINUS_ONE: [u64; 4] = [0xe56ee19cd69ecf24, 0x49f2934b18ea8bee, 0xd603ab4ff58ec744, 0xb640000002a3a6f1];

#[test]
fn fn_random_u256_stays_below_the_group_order() {
    for _ in 0..400 {
        let k = fn_random_u256();
        assert!(k != [0, 0, 0, 0]);
        assert!(u256_cmp(&k, &N_MINUS_ONE) < 0, "scalar {:016x?} (little-endian limbs) is not below N-1", k);
    }
}
