use gm_sm9::fields::mod_n_from_hash;
// N - 1 = B640000002A3A6F1D603AB4FF58EC74449F2934B18EA8BEEE56EE19CD69ECF24
#[test]
fn hash_to_range_small_residue() {
    // Ha = 1 * (N-1) + 0  -> expected (Ha mod (N-1)) + 1 = 1
    let mut ha = vec![0u8; 8];
    ha.extend_from_slice(&hex::decode("B640000002A3A6F1D603AB4FF58EC74449F2934B18EA8BEEE56EE19CD69ECF24").unwrap());
    let r = mod_n_from_hash(&ha);
    println!("Ha = N-1      -> {:x?} (expected [1,0,0,0])", r);
    // Ha = (N-1) + 2 -> expected 3
    let mut ha2 = vec![0u8; 8];
    ha2.extend_from_slice(&hex::decode("B640000002A3A6F1D603AB4FF58EC74449F2934B18EA8BEEE56EE19CD69ECF26").unwrap());
    let r2 = mod_n_from_hash(&ha2);
    println!("Ha = N-1 + 2  -> {:x?} (expected [3,0,0,0])", r2);
    assert_eq!(r, [1, 0, 0, 0]);
    assert_eq!(r2, [3, 0, 0, 0]);
}
#[test]
fn hash_to_range_all_ones_does_not_overflow() {
    let r = mod_n_from_hash(&[0xffu8; 40]);
    println!("Ha = 2^320-1 -> {:x?}", r);
}
