// Finding (C13): Fp2::fp_inv is wrong for every element a = a1*u with a1 != 0 (c0 == 0): the branch computes
// -(a1^-1) instead of -(2*a1)^-1, so a * a.fp_inv() == 2, not 1.
// Fp2 lives in a pub(crate) module, so this demonstration is an in-crate test: append this file to
// gm-sm9/src/fields/fp2.rs (or `include!` it there) and run `cargo test -p gm-sm9 --offline --lib c13_fp2_inv`.
#[cfg(test)]
mod c13_fp2_inv_c0_zero {
    use crate::fields::fp::fp_to_mont;
    use crate::fields::fp2::Fp2;
    use crate::fields::fp::Fp;
    use crate::fields::FieldElement;

    #[test]
    fn c13_fp2_inv_of_pure_imaginary_element() {
        for k in [1u64, 3, 0xffff_ffff_ffff_fffb] {
            let a = Fp2 { c0: Fp::zero(), c1: fp_to_mont(&[k, 0, 0, 0]) };
            let prod = a.fp_mul(&a.fp_inv());
            assert!(prod == Fp2::one(), "a = {k}*u: a * a^-1 != 1 (got {:x?})", prod);
        }
    }
}
