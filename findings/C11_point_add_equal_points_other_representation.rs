// Finding (C11, D13): gm-sm2 Point::point_add recognises "P + P" only when the two operands have identical Jacobian
// coordinates. The same point in another representation (e.g. after to_affine_point) goes through the chord formulas,
// which degenerate to (0, 0, 0) - the point at infinity - instead of 2P. Reachable through scalar_mul with a scalar >= n
// and through any caller that mixes affine and Jacobian operands.
// Integration test (public API only): copy to gm-sm2/tests/ and run `cargo test -p gm-sm2 --offline --test <name>`.
use gm_sm2::p256_ecc::g_mul;

#[test]
fn c11_point_add_of_one_point_in_two_representations_is_the_double() {
    let g = g_mul(&[1, 0, 0, 0]);
    let p = g.point_dbl().point_dbl();          // 4G with z != 1
    let q = p.to_affine_point();                // the same point with z == 1
    assert!(p.z != q.z, "test needs two different representations");
    let sum = p.point_add(&q);                  // must be 8G
    let dbl = p.point_dbl();
    assert!(!sum.is_zero(), "P + P (two representations of one point) returned the point at infinity");
    assert_eq!(sum.to_affine_point().x, dbl.to_affine_point().x);
    assert_eq!(sum.to_affine_point().y, dbl.to_affine_point().y);
    // and through the scalar path: [n + 4]G == [4]G
    let n_plus_4: [u64; 4] = [0x53BBF40939D54123 + 4, 0x7203DF6B21C6052B, 0xFFFFFFFFFFFFFFFF, 0xFFFFFFFEFFFFFFFF];
    let a = g.scalar_mul(&n_plus_4).to_affine_point();
    let b = p.to_affine_point();
    assert_eq!((a.x, a.y), (b.x, b.y), "[n+4]G != [4]G");
}
