use gm_sm9::key::{Sm9EncMasterKey, Sm9SignMasterKey};
use gm_sm9::u256::u256_from_be_bytes;
#[test]
fn verify_with_h_n_minus_1_and_short_ciphertext_do_not_panic() {
    let msk = Sm9SignMasterKey::master_key_generate();
    let sk = msk.extract_key(b"Alice").unwrap();
    let (_h, s) = sk.sign(b"msg").unwrap();
    let n_minus_1 = u256_from_be_bytes(&hex::decode("B640000002A3A6F1D603AB4FF58EC74449F2934B18EA8BEEE56EE19CD69ECF24").unwrap());
    let r = std::panic::catch_unwind(|| msk.verify_sign(b"Alice", b"msg", &n_minus_1, &s).is_ok());
    println!("verify_sign(h = N-1): {:?}", r.as_ref().map_err(|_| "PANIC"));
    let emsk = Sm9EncMasterKey::master_key_generate();
    let dk = emsk.extract_key(b"Bob").unwrap();
    let r2 = std::panic::catch_unwind(|| dk.decrypt(b"Bob", &[0u8; 40]).is_ok());
    println!("decrypt(40 bytes): {:?}", r2.as_ref().map_err(|_| "PANIC"));
    assert!(r.is_ok() && r2.is_ok());
}
