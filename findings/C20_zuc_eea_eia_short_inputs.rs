// Findings D43 / D44 (C20): the gm-zuc constructors and the 3GPP wrappers index their inputs without a length check and
// return bare values (no error channel):
//   D43  ZUC::new(k, iv), EEA::new(ck, ..), EIA::new(ik, ..) panic when the key (or IV) slice has fewer than 16 bytes;
//   D44  EEA::encrypt(msg, ilen) and EIA::gen_mac(m, ilen) panic when msg has fewer than ceil(ilen / 32) words.
// Integration test (public API): copy to gm-zuc/tests/ and run `cargo test -p gm-zuc --offline --test <name>`.
// Each call is expected NOT to panic; on the pinned tree all four assertions fail.
use std::panic::catch_unwind;

#[test]
fn d43_zuc_new_short_key() {
    assert!(catch_unwind(|| { let _ = gm_zuc::ZUC::new(&[0u8; 15], &[0u8; 16]); }).is_ok(), "ZUC::new panicked on a 15-byte key");
}
#[test]
fn d43_eea_new_short_key() {
    assert!(catch_unwind(|| { let _ = gm_zuc::eea::EEA::new(&[0u8; 15], 0, 0, 0); }).is_ok(), "EEA::new panicked on a 15-byte key");
}
#[test]
fn d44_eea_encrypt_short_message() {
    assert!(catch_unwind(|| { let mut e = gm_zuc::eea::EEA::new(&[0u8; 16], 0, 0, 0); let _ = e.encrypt(&[0u32; 1], 64); }).is_ok(),
        "EEA::encrypt panicked: LENGTH = 64 bits but the message has one word");
}
#[test]
fn d44_eia_gen_mac_short_message() {
    assert!(catch_unwind(|| { let mut e = gm_zuc::eia::EIA::new(&[0u8; 16], 0, 0, 0); let _ = e.gen_mac(&[0u32; 1], 64); }).is_ok(),
        "EIA::gen_mac panicked: LENGTH = 64 bits but the message has one word");
}
