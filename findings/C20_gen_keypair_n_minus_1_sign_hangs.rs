// Finding (C20): gen_keypair takes the private key from random_u256, i.e. from [1, n-1]; GB/T 32918 requires d in [1, n-2].
// For d = n-1 (1 + d) is 0 mod n, every candidate s of sign is 0 and the retry loop of sign_raw never exits:
// a key handed out by the library itself for which signing hangs (probability 2^-256 per key; shown through the RNG hook).
// Integration test; needs RUSTFLAGS="--cfg gm_rs_verif". Copy to gm-sm2/tests/ and run
// RUSTFLAGS="--cfg gm_rs_verif" cargo test -p gm-sm2 --offline --test <name>
#![cfg(gm_rs_verif)]
use std::sync::mpsc;
use std::time::Duration;

#[test]
fn c20_key_from_gen_keypair_can_always_sign() {
    let (tx, rx) = mpsc::channel();
    std::thread::spawn(move || {
        // n - 1, big-endian
        let n_minus_1: [u8; 32] = [
            0xFF, 0xFF, 0xFF, 0xFE, 0xFF, 0xFF, 0xFF, 0xFF, 0xFF, 0xFF, 0xFF, 0xFF, 0xFF, 0xFF, 0xFF, 0xFF,
            0x72, 0x03, 0xDF, 0x6B, 0x21, 0xC6, 0x05, 0x2B, 0x53, 0xBB, 0xF4, 0x09, 0x39, 0xD5, 0x41, 0x22,
        ];
        gm_sm2::verif_hooks::push_candidate(n_minus_1);
        let r = gm_sm2::key::gen_keypair();
        let out = match r {
            Ok((_pk, sk)) => sk.sign(None, b"message").map(|s| s.len()).map_err(|e| format!("{e:?}")),
            Err(e) => Err(format!("{e:?}")),
        };
        let _ = tx.send(out);
    });
    match rx.recv_timeout(Duration::from_secs(10)) {
        Ok(_) => {}
        Err(_) => panic!("sign with the key returned by gen_keypair (candidate n-1) did not terminate within 10 s"),
    }
}
