"""Build the Verus input of one unit: extract the real items from /repo's working tree,
apply the declared rewrite rules, weave the template's annotations on top."""
import os, re, json, hashlib
from .rstok import tokenize, render, Tok, match_close, seq_at
from .items import split_items, impl_members, first_brace_depth0, Item
from . import weave as W
from . import rewrite as RW

VERIF = os.path.dirname(os.path.dirname(os.path.abspath(__file__)))
REPO = os.environ.get("VERIF_REPO", "/repo")

# assumed std specifications available to every unit (widen the accepted subset so that small edits in
# /repo that use these functions stay within the verifier's reach); listed as assumptions in the evidence
STD_PRELUDE = open(os.path.join(VERIF, "units", "_std_prelude.rs")).read()

class LostAnchor(Exception):
    pass

class Section:
    def __init__(self, kind, arg, lines, lineno):
        self.kind = kind; self.arg = arg; self.lines = lines; self.lineno = lineno; self.props = []

class Template:
    def __init__(self, name, path=None, strict=True, pid=None):
        self.name = name; self.pid = pid
        self.path = path or os.path.join(VERIF, "units", name + ".rs")
        self.meta = {"serves": [], "source": None, "rewrite": [], "assume": [], "rlimit": None, "export": [], "lean": [], "tables": [], "safety_pred": [], "weaken_stubs": [], "advisory": None}
        self.sections = []
        cur = None
        for ln, line in enumerate(open(self.path).read().split("\n"), 1):
            s = line.strip()
            if s.startswith("//@"):
                parts = s[3:].split()
                d = parts[0]; args = parts[1:]
                if d == "unit": continue
                if d == "serves": self.meta["serves"] += args; continue
                if d == "source": self.meta["source"] = args[0]; continue
                if d == "rewrite": self.meta["rewrite"] += args; continue
                if d == "export": self.meta["export"] += args; continue
                if d == "lean": self.meta["lean"] += args; continue
                if d == "tables": self.meta["tables"] += args; continue
                if d == "safety-pred": self.meta["safety_pred"] += args; continue
                if d == "weaken-stubs": self.meta["weaken_stubs"] += args; continue
                if d == "advisory": self.meta["advisory"] = " ".join(args) or "advisory unit"; continue
                if d == "rewrite-text":
                    a, b2 = s[len("//@rewrite-text"):].split("==>")
                    self.meta.setdefault("rewrite_text", []).append((a.strip(), b2.strip())); continue
                if d == "rlimit": self.meta["rlimit"] = args[0]; continue
                if d == "assume": self.meta["assume"].append(" ".join(args)); continue
                if d == "section":
                    cur = Section(args[0], args[1] if len(args) > 1 else None, [], ln); self.sections.append(cur); continue
                if d == "props":
                    if cur is not None and cur.kind == "code":
                        cur.props.append((len(cur.lines) + 1, args)); cur.lines.append("")
                    continue
                if d in ("include-spec", "stub", "stub-assumed", "stub-trait", "extract"):
                    self.sections.append(Section(d, args, [], ln)); cur = None; continue
                raise ValueError("%s:%d unknown directive %s" % (self.path, ln, d))
            if cur is None:
                if s and not s.startswith("//"):
                    raise ValueError("%s:%d text outside a section" % (self.path, ln))
                continue
            # per-line carve-out tag:  <clause> //@finding <ID>
            m = re.search(r"//@carveout\s+(\S+)\s*$", line)
            if m:
                if not strict:
                    cur.lines.append(""); continue
                line = line[:m.start()]
            m = re.search(r"//@(only|not)\s+([A-Za-z0-9_ ]+?)\s*$", line)
            if m:
                ids = m.group(2).split()
                keep = (pid in ids) if m.group(1) == "only" else (pid not in ids)
                if not keep:
                    cur.lines.append(""); continue
                line = line[:m.start()]
            cur.lines.append(line)

    def spec_text(self, exported_only=False):
        return "\n".join("\n".join(s.lines) for s in self.sections if s.kind == "spec" and not (exported_only and s.arg == "local"))

    def code_items(self):
        """all template items of code sections: list of (section, Item)"""
        out = []
        for s in self.sections:
            if s.kind != "code": continue
            toks, _ = tokenize("\n".join(s.lines))
            for it in split_items(toks):
                out.append((s, it))
        return out

_src_cache = {}
def source_items(relpath):
    p = os.path.join(REPO, relpath)
    if not os.path.exists(p) and REPO != "/repo":
        p = os.path.join("/repo", relpath)   # canary overlays hold only the mutated file
    key = p
    if key not in _src_cache:
        toks, _ = tokenize(open(p).read().replace('\r', ''))
        _src_cache[key] = split_items(toks)
    return _src_cache[key]

def is_ghost_item(it):
    if it.mode in ("spec", "proof"): return True
    if it.kind in ("other", "use"): return True
    return False

def find_item(items, key, relpath):
    kind, name = key
    c = [x for x in items if x.kind == kind and x.name == name and not _is_cfg_test(x)]
    if kind == "impl" and not c:
        norm = lambda s: s.replace(" ", "")
        c = [x for x in items if x.kind == "impl" and norm(x.name) == norm(name)]
    if not c:
        raise LostAnchor("lost-anchor: %s `%s` not found in %s" % (kind, name, relpath))
    return c

def _is_cfg_test(it):
    txt = " ".join(t.text for t in it.toks[:it.attrs_end])
    return "cfg ( test )" in txt

class Built:
    def __init__(self):
        self.text = ""; self.ranges = []; self.notes = []; self.real_fns = []; self.ghost_fns = []
        self.stubs = []; self.clauses = 0; self.rewrites = {}; self.selfcheck = True; self.loops = 0
        self.dropped = []; self.changed = set(); self.item_props = {}; self.dropped_idx = {}; self.pinned = None

def _emit(b, chunks, text, label, real, extra=None):
    start = sum(c.count("\n") for c in chunks) + 1
    chunks.append(text)
    # last line that holds text of this chunk (a chunk ending in a newline does not own the line the next chunk starts on)
    end = max(start, start + text.count("\n") - (1 if text.endswith("\n") else 0))
    b.ranges.append({"start": start, "end": end, "label": label, "real": real, **(extra or {})})

def _weave_real(b, unit, tmpl_item, src_item, label, rules, degrade=False):
    W.mark_item(tmpl_item)
    cur = RW.apply(src_item.toks, rules, b.rewrites)
    cur = RW.apply_text(cur, b.template.meta.get("rewrite_text", []), b.rewrites)
    # the template skeleton is stored post-rewrite; apply the same (idempotent) rules to be safe
    pinned = getattr(b, "pinned", None) or {}
    dropped = []
    if label in pinned:
        # pinned replay: the template's own (last proved) body with exactly the annotations dropped that could not be
        # placed on the changed source - tells whether those annotations were needed at all
        cur = [Tok(t.text, t.ws, t.kind, t.line) for t in W.skeleton(tmpl_item.toks)]
        out, notes = W.weave(tmpl_item.toks, cur, label, False, force_drop=set(pinned[label]), dropped_out=dropped)
        b.notes += ["PINNED-REPLAY " + n for n in notes]
        b.selfcheck = b.selfcheck      # the strip check is meaningless here: this file is never reported as the code that runs
        ncl = sum(1 for (p, k, r) in W.runs(tmpl_item.toks) if k in ("clause", "lclause"))
        return out, ncl
    out, notes = W.weave(tmpl_item.toks, cur, label, degrade, dropped_out=dropped)
    if dropped: b.dropped_idx[label] = dropped
    if any(n.startswith('DROPPED') or 'differs' in n for n in notes): b.changed.add(label)
    b.notes += notes
    # self-check: stripping the woven text gives back exactly the rewritten current tokens
    chk = [t.text for t in out if t.ann is None]
    if chk != [t.text for t in cur]:
        b.selfcheck = False
    if any(t.ann == "attr" and t.text == "external_body" for t in tmpl_item.toks):
        b.stubs.append({"fn": label, "status": "assumed: real body present but NOT verified (external_body in its home unit)"})
    ncl = sum(1 for (p, k, r) in W.runs(tmpl_item.toks) if k in ("clause", "lclause"))
    b.clauses += ncl
    return out, ncl

def build(unit, strict=True, mutate=None, pid=None, degrade=(), extras=(), pinned=None):
    """returns Built. `mutate` (optional) is a function(text)->text applied to source files (canaries).
    pinned = {fn label: [annotation indices]}: emit these functions from the template's own body with those annotations dropped."""
    t = Template(unit, strict=strict, pid=pid)
    b = Built(); b.template = t; b.pinned = pinned
    chunks = ["// GENERATED by /verif/vf from /repo working tree + units/%s.rs -- do not edit\nuse vstd::prelude::*;\nverus! {\nglobal size_of usize == 8;\n" % unit + STD_PRELUDE]
    b.ranges.append({"start": 1, "end": 5 + STD_PRELUDE.count("\n"), "label": "<header>", "real": False})
    rules = ["cfg", "vis", "static", "attr", "constfold", "cratepath", "asserteq"] + t.meta["rewrite"]
    for s in t.sections:
        if s.kind == "spec":
            _emit(b, chunks, "\n".join(s.lines) + "\n", "<spec:%s@%d>" % (unit, s.lineno), False)
            toks, _ = tokenize("\n".join(s.lines))
            for it in split_items(toks):
                if it.kind == "fn": b.ghost_fns.append(it.name)
                if it.kind == "other" and it.name == "assume_specification":
                    b.stubs.append({"fn": " ".join(x.text for x in it.toks[:24]), "status": "assumed-std"})
                for k in range(it.attrs_end):
                    if it.toks[k].text == "external_body":
                        b.stubs.append({"fn": it.name, "status": "assumed"})
        elif s.kind == "include-spec":
            other = Template(s.arg[0], strict=strict, pid=pid)
            _emit(b, chunks, "// ---- spec of unit %s (its lemmas are proved there; here they are external_body) ----\n" % s.arg[0] + imported_spec(other, b) + "\n", "<spec:%s>" % s.arg[0], False)
        elif s.kind in ("stub", "stub-assumed"):
            txt, info = make_stub(s.arg[0], s.arg[1], strict, pid)
            info["status"] = ("proved-in:" + s.arg[0]) if (s.kind == "stub" and not info.get("home_external")) else "assumed (contract stated in unit %s, body not verified there)" % s.arg[0]
            txt, nd = weaken_ensures(txt, t.meta["weaken_stubs"])
            if nd: info["status"] += "; %d ensures conjunct(s) matching %s not imported (//@weaken-stubs)" % (nd, "|".join(t.meta["weaken_stubs"]))
            b.stubs.append(info)
            _emit(b, chunks, txt + "\n", "<stub:%s %s>" % (s.arg[0], s.arg[1]), False)
        elif s.kind == "assumed":
            # hand-written contracts on functions of /repo whose bodies are NOT brought under contract in any unit:
            # only the signature is compared with the current source (mechanically); the contract is an assumption
            rel = s.arg or t.meta["source"]
            src = source_items(rel)
            toks, _ = tokenize("\n".join(s.lines))
            def _sig(item_toks, kw):
                W.mark_fn(item_toks)
                body = first_brace_depth0(item_toks, kw)
                return [x.text for x in item_toks[:body] if x.ann is None and x.text not in ("pub",)]
            def _check(m, sm, label):
                cur = RW.apply(sm.toks, rules, {})
                cur = [x for x in cur]
                import copy
                a = _sig([W.Tok(x.text, x.ws, x.kind, x.line) for x in m.toks[m.attrs_end:]], m.kw_idx - m.attrs_end)
                bsig = _sig([W.Tok(x.text, x.ws, x.kind, x.line) for x in cur], next(i for i, x in enumerate(cur) if x.text == "fn"))
                if a != bsig:
                    raise LostAnchor("lost-anchor: assumed contract for %s: signature differs from %s (%s vs %s)" % (label, rel, " ".join(a), " ".join(bsig)))
                b.stubs.append({"fn": label, "status": "assumed (hand-written contract; body in %s not verified; signature checked against the source)" % rel})
            for it in split_items(toks):
                if it.kind == "fn" and it.mode is None:
                    c = find_item(src, it.key, rel); _check(it, c[0], it.name)
                    _emit(b, chunks, "#[verifier::external_body]\n" + render(it.toks[it.attrs_end:]).strip() + "\n", "<assumed:%s>" % it.name, False)
                elif it.kind == "impl":
                    cands = find_item(src, it.key, rel)
                    src_members = []
                    for c in cands: src_members += impl_members(c)[2]
                    bo, bc, members = impl_members(it)
                    parts = [render(it.toks[it.kw_idx:bo + 1]).strip()]
                    for m in members:
                        if is_ghost_item(m) or m.kind != "fn":
                            parts.append(render(m.toks).strip()); continue
                        sm = [x for x in src_members if x.key == m.key]
                        if not sm: raise LostAnchor("lost-anchor: assumed %s::%s not found in %s" % (it.name, m.name, rel))
                        _check(m, sm[0], "%s::%s" % (it.name.split(" for ")[-1].strip(), m.name))
                        parts.append("#[verifier::external_body]\n" + render(m.toks[m.attrs_end:]).strip())
                    parts.append("}")
                    _emit(b, chunks, "\n".join(parts) + "\n", "<assumed-impl:%s>" % it.name, False)
                else:
                    _emit(b, chunks, render(it.toks) + "\n", "<assumed-other:%s>" % it.name, False)
        elif s.kind == "extract":
            rel, name = s.arg[0], s.arg[1]
            c = [x for x in source_items(rel) if x.name == name and not _is_cfg_test(x)]
            if not c: raise LostAnchor("lost-anchor: `%s` not found in %s" % (name, rel))
            cur = RW.apply(c[0].toks, rules, b.rewrites)
            pre = ""
            if len(s.arg) > 2 and s.arg[2] == "external_body":
                # the item's value is hidden from the solver (a 16k-entry table as a definitional axiom makes Z3 hang);
                # facts about its entries must then come from elsewhere (ground evaluation), they are not assumed here
                pre = "#[verifier::external_body]\n"
                b.stubs.append({"fn": "const " + name, "status": "value hidden from the solver (external_body const); nothing is assumed about it"})
            _emit(b, chunks, pre + render(cur) + "\n", name, True, {"file": rel, "src_line": c[0].toks[0].line})
        elif s.kind == "stub-trait":
            txt, infos = make_trait_stub(s.arg[0], s.arg[1], strict, pid)
            txt, nd = weaken_ensures(txt, t.meta["weaken_stubs"])
            if nd:
                for inf in infos: inf["status"] += "; ensures conjuncts matching %s not imported (//@weaken-stubs, %d in the trait stub)" % ("|".join(t.meta["weaken_stubs"]), nd)
            b.stubs += infos
            _emit(b, chunks, txt + "\n", "<stub-trait:%s %s>" % (s.arg[0], s.arg[1]), False)
        elif s.kind == "code":
            rel = s.arg or t.meta["source"]
            src = source_items(rel)
            toks, _ = tokenize("\n".join(s.lines))
            def _props_for(item):
                l0 = item.toks[0].line; best = None
                for (ln, pr) in s.props:
                    if ln < l0 and (best is None or ln > best[0]): best = (ln, pr)
                # the directive must directly precede the item (only blank lines between)
                if best and all(x.strip() == "" for x in s.lines[best[0]:l0 - 1]): return best[1]
                return None
            for it in split_items(toks):
                pr = _props_for(it)
                if pr is not None:
                    b.item_props[it.name if it.kind != "impl" else it.name.split(" for ")[-1].strip()] = pr
                if it.kind in ("impl", "trait"):
                    for m in impl_members(it)[2]:
                        pm = _props_for(m)
                        if pm is not None: b.item_props["%s::%s" % (it.name.split(" for ")[-1].strip(), m.name)] = pm
                if is_ghost_item(it):
                    if it.kind == "fn": b.ghost_fns.append(it.name)
                    for k in range(it.attrs_end):
                        if it.toks[k].text == "external_body":
                            b.stubs.append({"fn": it.name, "status": "assumed"})
                    _emit(b, chunks, render(it.toks) + "\n", "<ghost:%s>" % it.name, False)
                    continue
                cands = find_item(src, it.key, rel)
                if it.kind in ("impl", "trait"):
                    bo, bc, members = impl_members(it)
                    W.mark_attrs(it.toks)
                    head = [x for x in RW.apply(cands[0].toks[:first_brace_depth0(cands[0].toks, cands[0].kw_idx) + 1], rules, b.rewrites)]
                    # template-side verifier attrs on the impl header
                    pre = [x for x in it.toks[:it.attrs_end] if x.ann == "attr"]
                    _emit(b, chunks, render(pre) + render(head) + "\n", "<impl %s>" % it.name, False)
                    src_members = []
                    for c in cands:
                        src_members += impl_members(c)[2]
                    for m in members:
                        if is_ghost_item(m):
                            if m.kind == "fn": b.ghost_fns.append(it.name + "::" + m.name)
                            _emit(b, chunks, render(m.toks) + "\n", "<ghost:%s::%s>" % (it.name, m.name), False)
                            continue
                        sm = [x for x in src_members if x.key == m.key]
                        if not sm:
                            raise LostAnchor("lost-anchor: %s `%s` not found in impl %s of %s" % (m.kind, m.name, it.name, rel))
                        label = "%s::%s" % (it.name.split(" for ")[-1].strip(), m.name)
                        out, ncl = _weave_real(b, unit, m, sm[0], label, rules, label in degrade)
                        if m.kind == "fn":
                            b.real_fns.append({"fn": label, "file": rel, "line": sm[0].toks[sm[0].kw_idx].line, "clauses": ncl})
                        _emit(b, chunks, render(out) + "\n", label, True, {"file": rel, "src_line": sm[0].toks[0].line})
                    _emit(b, chunks, "}\n", "<impl-end>", False)
                else:
                    label = it.name
                    out, ncl = _weave_real(b, unit, it, cands[0], label, rules, label in degrade)
                    if it.kind == "fn":
                        b.real_fns.append({"fn": label, "file": rel, "line": cands[0].toks[cands[0].kw_idx].line, "clauses": ncl})
                    _emit(b, chunks, render(out) + "\n", label, True, {"file": rel, "src_line": cands[0].toks[0].line})
        else:
            raise ValueError("unknown section kind " + s.kind)
    # items that the current source calls but the template does not know (helpers introduced by a
    # change in /repo): extracted as they are, without any contract
    rels = [sec.arg or t.meta["source"] for sec in t.sections if sec.kind == "code"]
    for (ty, name) in extras:
        found = False
        # the item may be an existing function of /repo that is under contract in another unit: import that contract
        # (stub, proved in its home unit) instead of extracting the body without one
        home = _contract_home(unit, ty, name, strict, pid)
        if home is not None:
            txt, info = home
            info["status"] = "proved-in:" + info["unit"] if not info.get("home_external") else "assumed (contract stated in unit %s)" % info["unit"]
            b.stubs.append(info)
            _emit(b, chunks, txt + "\n", "<stub:%s %s>" % (info["unit"], info["fn"]), False)
            b.notes.append("AUTO-STUBBED `%s%s` with its contract from unit %s (newly called by the changed source)" % ((ty + "::") if ty else "", name, info["unit"]))
            continue
        for rel in dict.fromkeys(rels):
            src = source_items(rel)
            if ty is None:
                c = [x for x in src if x.name == name and x.kind in ("fn", "val", "struct", "enum", "type") and not _is_cfg_test(x)]
                if c:
                    cur = RW.apply(c[0].toks, rules, b.rewrites)
                    _emit(b, chunks, render(cur) + "\n", name, True, {"file": rel, "src_line": c[0].toks[0].line, "auto": True})
                    if c[0].kind == "fn": b.real_fns.append({"fn": name, "file": rel, "line": c[0].toks[c[0].kw_idx].line, "clauses": 0, "auto_extracted": True})
                    b.notes.append("AUTO-EXTRACTED %s `%s` from %s: not in the template, no contract" % (c[0].kind, name, rel)); b.changed.add(name)
                    found = True; break
            else:
                for imp in [x for x in src if x.kind == "impl" and x.name.split(" for ")[-1].strip().split("<")[0] == ty]:
                    for m in impl_members(imp)[2]:
                        if m.name == name and m.kind in ("fn", "val"):
                            head = RW.apply(imp.toks[:first_brace_depth0(imp.toks, imp.kw_idx) + 1], rules, b.rewrites)
                            cur = RW.apply(m.toks, rules, b.rewrites)
                            _emit(b, chunks, render(head) + "\n", "<impl %s>" % imp.name, False)
                            _emit(b, chunks, render(cur) + "\n", "%s::%s" % (ty, name), True, {"file": rel, "src_line": m.toks[0].line, "auto": True})
                            _emit(b, chunks, "}\n", "<impl-end>", False)
                            b.real_fns.append({"fn": "%s::%s" % (ty, name), "file": rel, "line": m.toks[m.kw_idx].line, "clauses": 0, "auto_extracted": True})
                            b.notes.append("AUTO-EXTRACTED method `%s::%s` from %s: not in the template, no contract" % (ty, name, rel)); b.changed.add("%s::%s" % (ty, name))
                            found = True; break
                    if found: break
                if found: break
        if not found:
            b.notes.append("missing item `%s%s` not found in the unit's source files" % ((ty + "::") if ty else "", name))
    chunks.append("\n} // verus!\nfn main() {}\n")
    b.text = "".join(chunks)
    # identical `use` lines coming from several included specs: keep the first (line numbers preserved)
    seen = set(); lines = b.text.split("\n")
    for k, l in enumerate(lines):
        st = l.strip()
        if st.startswith("use ") and st.endswith(";"):
            if st in seen: lines[k] = ""
            seen.add(st)
    b.text = "\n".join(lines)
    return b

def imported_spec(other, b):
    toks, _ = tokenize(other.spec_text(exported_only=True))
    out = []
    exp = other.meta["export"]
    for it in split_items(toks):
        if exp:
            if it.name not in exp and ("=" + it.name) not in exp: continue
            if it.kind == "fn" and it.mode == "spec" and ("=" + it.name) not in exp:
                # abstract view: the importer sees an uninterpreted symbol, never the definition
                body = first_brace_depth0(it.toks, it.kw_idx)
                sig = it.toks[it.kw_idx:body]
                from .weave import _first_clause_kw
                ck = _first_clause_kw(sig, 0, len(sig))
                if ck >= 0: sig = sig[:ck]
                out.append("pub uninterp spec " + render(sig).strip() + ";")
                continue
        if it.kind == "fn" and it.mode == "proof":
            body = first_brace_depth0(it.toks, it.kw_idx)
            already = any(it.toks[k].text == "external_body" for k in range(it.attrs_end))
            if body >= 0 and it.toks[body].text == "{" and not already:
                sig = render(it.toks[:body]).strip()
                out.append("#[verifier::external_body]\n" + sig + "\n{ }")
                b.stubs.append({"fn": "lemma " + it.name, "status": "proved-in:" + other.name})
                continue
        if it.kind == "use" and it.toks[it.kw_idx].text == "global":
            continue   # `global size_of` may appear once only; the including unit provides it
        out.append(render(it.toks).strip("\n"))
    return "\n".join(out)

def _contract_home(this_unit, ty, name, strict, pid):
    """(stub text, info) of fn `ty::name` from the first other unit whose template holds it with a contract, else None"""
    import glob
    fnpath = ("%s::%s" % (ty, name)) if ty else name
    for p in sorted(glob.glob(os.path.join(VERIF, "units", "*.rs"))):
        u = os.path.basename(p)[:-3]
        if u == this_unit or u.startswith("_"): continue
        try:
            if not re.search(r"\bfn\s+%s\b" % re.escape(name), open(p).read()): continue
            txt, info = make_stub(u, fnpath, strict, pid)
        except Exception:
            continue
        if re.search(r"\b(requires|ensures)\b", txt):
            return txt, info
    return None

def make_stub(unit, fnpath, strict=True, pid=None):
    """external_body stub carrying the contract that `unit`'s template puts on fn `fnpath`
    (`name` or `Type::name`)."""
    t = Template(unit, strict=strict, pid=pid)
    ty = None; name = fnpath
    if "::" in fnpath:
        ty, name = fnpath.rsplit("::", 1)
    for s, it in t.code_items():
        if ty is None and it.kind == "fn" and it.name == name and not is_ghost_item(it):
            return _stub_text(it), {"fn": fnpath, "unit": unit, "home_external": _has_ext(it)}
        if ty is not None and it.kind == "impl" and it.name.split(" for ")[-1].strip() == ty:
            for m in impl_members(it)[2]:
                if m.kind == "fn" and m.name == name:
                    head = render(it.toks[it.kw_idx:first_brace_depth0(it.toks, it.kw_idx) + 1])
                    return head + "\n" + _stub_text(m) + "\n}", {"fn": fnpath, "unit": unit, "home_external": _has_ext(m)}
    raise LostAnchor("lost-anchor: stub %s::%s not found in template" % (unit, fnpath))

def make_trait_stub(unit, trait, strict=True, pid=None):
    """trait declaration (with its contracts) + every impl of it in `unit`'s template, bodies replaced by stubs"""
    t = Template(unit, strict=strict, pid=pid)
    out = []; infos = []
    for s, it in t.code_items():
        if it.kind == "trait" and it.name == trait:
            out.append(render(it.toks[it.attrs_end:]).strip())
        if it.kind == "impl" and it.name.split(" for ")[0].strip() == trait:
            head = render(it.toks[it.kw_idx:first_brace_depth0(it.toks, it.kw_idx) + 1]).strip()
            parts = [head]
            for m in impl_members(it)[2]:
                if is_ghost_item(m):
                    parts.append(render(m.toks).strip())
                elif m.kind == "fn":
                    parts.append(_stub_text(m))
                    ty = it.name.split(" for ")[-1].strip()
                    infos.append({"fn": "%s::%s" % (ty, m.name), "unit": unit,
                                  "status": ("proved-in:" + unit) if not _has_ext(m) else "assumed (contract stated in unit %s, body not verified there)" % unit})
                else:
                    parts.append(render(m.toks).strip())
            parts.append("}")
            out.append("\n".join(parts))
    if not out:
        raise LostAnchor("lost-anchor: trait %s not found in template %s" % (trait, unit))
    return "\n".join(out), infos

def _has_ext(it):
    return any(it.toks[k].text == "external_body" for k in range(it.attrs_end))

def _stub_text(it):
    toks = it.toks
    body = first_brace_depth0(toks, it.kw_idx)
    sig = [x for x in toks[it.attrs_end:body]]
    return "#[verifier::external_body]\n" + render(sig).strip() + "\n{ unimplemented!() }"

def weaken_ensures(text, regexes):
    """//@weaken-stubs RE...: drop from an imported stub every `ensures` conjunct whose text matches one of the regexes.
    The importing unit then assumes LESS about its callees than their home units prove (always sound); used by units that
    decide safety obligations only and want the solver's context free of the callees' value-level postconditions.
    returns (text, number of conjuncts dropped)"""
    if not regexes: return text, 0
    toks, _ = tokenize(text)
    out = []; k = 0; n = len(toks); dropped = 0
    while k < n:
        t = toks[k]
        if t.text != "ensures" or t.kind != "ident":
            out.append(t); k += 1; continue
        # conjuncts: up to the body brace / `;` / next clause keyword at bracket depth 0
        j = k + 1; depth = 0; start = j; conj = []
        while j < n:
            x = toks[j].text
            if depth == 0 and (x in ("{", ";") or (toks[j].kind == "ident" and x in ("requires", "decreases", "recommends", "opens_invariants", "no_unwind"))): break
            if x in ("(", "[", "{"): depth += 1
            elif x in (")", "]", "}"): depth -= 1
            if depth == 0 and x == ",":
                conj.append(toks[start:j]); start = j + 1
            j += 1
        if start < j: conj.append(toks[start:j])
        keep = []
        for c in conj:
            txt = render(c)
            if any(re.search(r, txt) for r in regexes): dropped += 1
            else: keep.append(c)
        if keep:
            out.append(t)
            for i2, c in enumerate(keep):
                out += c
                if i2 + 1 < len(keep): out.append(Tok(",", "", "punct", t.line))
        k = j
    return render(out), dropped

def _has_ext(it):
    return any(it.toks[k].text == "external_body" for k in range(it.attrs_end))

def _stub_text(it):
    toks = it.toks
    body = first_brace_depth0(toks, it.kw_idx)
    sig = [x for x in toks[it.attrs_end:body]]
    return "#[verifier::external_body]\n" + render(sig).strip() + "\n{ unimplemented!() }"
