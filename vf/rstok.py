"""Minimal Rust/Verus tokenizer that keeps leading trivia (whitespace) per token.

Comments (line, block, doc) are dropped: they are replaced by nothing, except that a
newline ending a line comment is kept as whitespace.  Punctuation is one character per
token; `tok.glued` is True when no trivia separates it from the previous token, so
multi-character operators can be recognised with `seq_at`.
"""
import re

class Tok:
    __slots__ = ("text", "ws", "kind", "line", "ann", "loopkw")
    def __init__(self, text, ws, kind, line):
        self.text = text; self.ws = ws; self.kind = kind; self.line = line; self.ann = None; self.loopkw = None
    @property
    def glued(self):
        return self.ws == ""
    def __repr__(self):
        return "Tok(%r)" % self.text

IDENT_RE = re.compile(r"(?:r#)?[A-Za-z_][A-Za-z0-9_]*")
NUM_RE = re.compile(r"0[xX][0-9a-fA-F_]+(?:[iu](?:8|16|32|64|128|size)|int|nat)?|0[bB][01_]+(?:[iu](?:8|16|32|64|128|size))?|0o[0-7_]+|"
                    r"[0-9][0-9_]*(?:\.[0-9][0-9_]*)?(?:[eE][+-]?[0-9_]+)?(?:[iuf](?:8|16|32|64|128|size)|int|nat)?")

class TokError(Exception):
    pass

def tokenize(src):
    toks = []
    i = 0; n = len(src); ws = ""; line = 1
    while i < n:
        c = src[i]
        if c in " \t\r\n":
            j = i
            while j < n and src[j] in " \t\r\n":
                j += 1
            ws += src[i:j]; line += src.count("\n", i, j); i = j; continue
        if src.startswith("//", i):
            j = src.find("\n", i)
            if j < 0: j = n
            i = j; continue
        if src.startswith("/*", i):
            depth = 1; j = i + 2
            while j < n and depth > 0:
                if src.startswith("/*", j): depth += 1; j += 2
                elif src.startswith("*/", j): depth -= 1; j += 2
                else: j += 1
            line += src.count("\n", i, j); i = j
            if not ws: ws = " "
            continue
        # strings
        m = re.match(r'b?r(#*)"', src[i:i+40])
        if m:
            hashes = m.group(1); start = i; j = i + m.end()
            end = src.find('"' + hashes, j)
            if end < 0: raise TokError("unterminated raw string at line %d" % line)
            j = end + 1 + len(hashes)
            toks.append(Tok(src[start:j], ws, "str", line)); ws = ""; line += src.count("\n", start, j); i = j; continue
        if c == '"' or (c == 'b' and i + 1 < n and src[i+1] == '"'):
            start = i; j = i + (2 if c == 'b' else 1)
            while j < n and src[j] != '"':
                if src[j] == '\\': j += 1
                j += 1
            j += 1
            toks.append(Tok(src[start:j], ws, "str", line)); ws = ""; line += src.count("\n", start, j); i = j; continue
        if c == "'" or (c == 'b' and i + 1 < n and src[i+1] == "'"):
            k = i + (1 if c == 'b' else 0)
            # char literal or lifetime
            m = re.match(r"'(?:\\(?:x[0-9a-fA-F]{2}|u\{[0-9a-fA-F_]+\}|.)|[^\\'])'", src[k:k+16])
            if m:
                j = k + m.end()
                toks.append(Tok(src[i:j], ws, "char", line)); ws = ""; i = j; continue
            if c == "'":
                m = IDENT_RE.match(src, i + 1)
                if m:
                    toks.append(Tok(src[i:m.end()], ws, "lifetime", line)); ws = ""; i = m.end(); continue
        m = IDENT_RE.match(src, i)
        if m:
            toks.append(Tok(m.group(0), ws, "ident", line)); ws = ""; i = m.end(); continue
        if c.isdigit():
            m = NUM_RE.match(src, i)
            j = m.end()
            # "1..2" : do not swallow the range dots ; "x.0" handled since we start at digit
            txt = m.group(0)
            if "." in txt and src.startswith("..", i + txt.index(".")):
                j = i + txt.index("."); txt = src[i:j]
            toks.append(Tok(txt, ws, "num", line)); ws = ""; i = j; continue
        toks.append(Tok(c, ws, "punct", line)); ws = ""; i += 1
    return toks, ws

OPEN = {"(": ")", "[": "]", "{": "}"}
CLOSE = {")": "(", "]": "[", "}": "{"}

def match_close(toks, i):
    """toks[i] is an opening bracket; return index of the matching closer."""
    depth = 0
    for j in range(i, len(toks)):
        t = toks[j]
        if t.kind == "punct":
            if t.text in OPEN: depth += 1
            elif t.text in CLOSE:
                depth -= 1
                if depth == 0: return j
    raise TokError("unbalanced bracket starting at line %d" % toks[i].line)

def seq_at(toks, i, s):
    """True if punctuation characters of s start at toks[i], glued together."""
    if i + len(s) > len(toks): return False
    for k, ch in enumerate(s):
        t = toks[i + k]
        if t.kind != "punct" or t.text != ch: return False
        if k > 0 and not t.glued: return False
    return True

def render(toks, tail=""):
    return "".join(t.ws + t.text for t in toks) + tail

def texts(toks):
    return [t.text for t in toks]
