"""ringcheck - discharge the `ring_*` axioms of a unit with Lean's `ring`.

A unit may contain proof functions of the restricted shape

    #[verifier::external_body]
    proof fn ring_<name>(a: int, b: int, ...)
        ensures <polynomial A> == <polynomial B>
    { }

where A and B are INTEGER POLYNOMIAL expressions in the parameters: only `+`, `-` (binary and unary), `*`,
integer literals, parentheses and the parameter names.  No `%`, no `/`, no calls, no `requires`, exactly one
`ensures` conjunct, every parameter of type `int`, empty body.  Such an equality is a statement about the
commutative ring of integers; if it holds it is proved by `ring`, and Verus' `int` arithmetic is exactly that ring.

`python3 -m vf.ringcheck <unit>`

  1. builds the unit (vf.unit.build(unit).text - the very text Verus is run on),
  2. finds every fn whose name starts with `ring_` and that carries `external_body`,
  3. checks the shape (anything else -> status "undecided": the axiom is NOT accepted),
  4. writes ONE file  build/lean/ring_<unit>.lean  with
         theorem ring_<name> (a b ... : ℤ) :
             A
             = B
           := by ring
         #print axioms ring_<name>
     per axiom, runs `lean` on it (same invocation / time limit as vf.leangen),
  5. prints one JSON line per axiom {"name", "status": "proved"|"failed"|"undecided", "seconds", ...}
     and exits 0 (all proved) / 1 (some failed) / 2 (some undecided, none failed) - the leangen convention.

Classification (per theorem, by the line of the Lean message):
  error on the statement lines            -> undecided (the translation does not elaborate: tool problem)
  error on the `:= by ring` line          -> failed    (the two polynomials are different)
     unless it is a resource message      -> undecided
  no error, axiom report within the three standard axioms, no sorry -> proved
A `ring_*` fn that is external_body but not of the shape is reported as undecided with the reason and is not
sent to Lean.  `ring_*` fns WITHOUT external_body are proved by Verus itself and are ignored here.

API: run_unit(unit) -> list[dict];  exit_code(results) -> int;  find_axioms(text) -> list[dict].
"""
import os, sys, re, json, time, subprocess

from .rstok import tokenize, match_close

VERIF = os.path.dirname(os.path.dirname(os.path.abspath(__file__)))
BUILD_DIR = os.environ.get("VERIF_LEAN_BUILD", os.path.join(VERIF, "build", "lean"))
LEAN_TIMEOUT = 600
ALLOWED_AXIOMS = {"propext", "Classical.choice", "Quot.sound"}
LEAN_RESERVED = {"at", "from", "fun", "have", "show", "then", "else", "if", "end", "in", "do", "let", "by", "with", "match",
                 "open", "theorem", "def", "where", "using", "suffices", "obtain", "calc", "forall", "exists", "Type", "Prop", "Sort",
                 "ring", "theorem", "lemma", "example", "import", "set_option", "instance", "structure", "class", "namespace", "section"}
MSG_RE = re.compile(r"^(.*?):(\d+):(\d+): (error|warning)(?:\([^)]*\))?: (.*)$")
INT_RE = re.compile(r"^(0[xX][0-9a-fA-F_]+|[0-9][0-9_]*)(int)?$")


class ShapeError(Exception):
    """the axiom is outside the accepted shape"""


# ----------------------------------------------------------------------------------------------
# 1. find the axioms in the generated Verus text
# ----------------------------------------------------------------------------------------------
def _attr_groups(toks, fn_idx):
    """attribute token groups `#[ ... ]` (and modifiers) directly preceding toks[fn_idx]; returns (texts, start index)"""
    i = fn_idx - 1
    # modifiers between the attributes and `fn`
    while i >= 0 and toks[i].kind == "ident" and toks[i].text in ("proof", "pub", "open", "closed", "spec", "exec", "broadcast", "const", "unsafe", "uninterp"):
        i -= 1
    # pub(crate) style visibility
    if i >= 0 and toks[i].text == ")":
        j = i
        while j >= 0 and toks[j].text != "(": j -= 1
        if j >= 1 and toks[j - 1].text == "pub":
            i = j - 2
            while i >= 0 and toks[i].kind == "ident" and toks[i].text in ("proof", "pub", "open", "closed"): i -= 1
    attrs = []
    while i >= 1 and toks[i].text == "]":
        j = i; depth = 0
        while j >= 0:
            if toks[j].text == "]": depth += 1
            elif toks[j].text == "[":
                depth -= 1
                if depth == 0: break
            j -= 1
        if j < 1 or toks[j - 1].text != "#": break
        attrs.append("".join(t.text for t in toks[j + 1:i]))
        i = j - 2
    return attrs, i + 1


def find_axioms(text):
    """every fn named ring_* with an external_body attribute: [{"name", "line", "toks" (from `fn` to the closing brace), "mods"}]"""
    toks, _ = tokenize(text)
    out = []
    for i, t in enumerate(toks):
        if t.kind == "ident" and t.text == "fn" and i + 1 < len(toks) and toks[i + 1].kind == "ident" and toks[i + 1].text.startswith("ring_"):
            attrs, start = _attr_groups(toks, i)
            if not any("external_body" in a for a in attrs):
                continue
            mods = [x.text for x in toks[start:i] if x.kind == "ident"]
            # end of the item: the body brace at depth 0 after the signature
            j = i + 2
            depth = 0; end = None
            while j < len(toks):
                x = toks[j]
                if x.kind == "punct" and x.text in "([":
                    j = match_close(toks, j)
                elif x.kind == "punct" and x.text == "{":
                    end = match_close(toks, j); break
                elif x.kind == "punct" and x.text == ";":
                    end = j; break
                j += 1
            if end is None: end = len(toks) - 1
            out.append({"name": toks[i + 1].text, "line": t.line, "toks": toks[i:end + 1], "attrs": attrs, "mods": mods,
                        "pre": toks[start:i]})
    return out


# ----------------------------------------------------------------------------------------------
# 2. shape check + translation
# ----------------------------------------------------------------------------------------------
class _Poly:
    """recursive-descent parser for  expr := term (('+'|'-') term)* ; term := unary ('*' unary)* ; unary := '-' unary | atom ;
    atom := INT | IDENT | '(' expr ')'   - emits Lean text and evaluates nothing"""
    def __init__(self, toks, params):
        self.t = toks; self.i = 0; self.params = params; self.used = set()
    def peek(self):
        return self.t[self.i] if self.i < len(self.t) else None
    def expr(self):
        s = self.term()
        while self.peek() is not None and self.peek().kind == "punct" and self.peek().text in "+-":
            op = self.peek().text; self.i += 1
            s = "%s %s %s" % (s, op, self.term())
        return s
    def term(self):
        s = self.unary()
        while self.peek() is not None and self.peek().kind == "punct" and self.peek().text == "*":
            self.i += 1
            s = "%s * %s" % (s, self.unary())
        return s
    def unary(self):
        p = self.peek()
        if p is not None and p.kind == "punct" and p.text == "-":
            self.i += 1
            return "(-%s)" % self.unary()
        return self.atom()
    def atom(self):
        p = self.peek()
        if p is None: raise ShapeError("expression ends unexpectedly")
        if p.kind == "num":
            m = INT_RE.match(p.text)
            if not m: raise ShapeError("literal `%s` is not a plain integer literal" % p.text)
            self.i += 1
            return "(%d : ℤ)" % int(m.group(1).replace("_", ""), 0)
        if p.kind == "ident":
            if p.text not in self.params: raise ShapeError("identifier `%s` is not a parameter" % p.text)
            nxt = self.t[self.i + 1] if self.i + 1 < len(self.t) else None
            if nxt is not None and nxt.kind == "punct" and nxt.text in "([.:!":
                raise ShapeError("`%s%s`: calls, paths, field access are not allowed" % (p.text, nxt.text))
            self.i += 1; self.used.add(p.text)
            return lean_ident(p.text)
        if p.kind == "punct" and p.text == "(":
            self.i += 1
            s = self.expr()
            q = self.peek()
            if q is None or q.text != ")": raise ShapeError("unbalanced parenthesis")
            self.i += 1
            return "(%s)" % s
        raise ShapeError("token `%s` is not allowed in a ring axiom (only + - * integer literals, parentheses, parameters)" % p.text)


def lean_ident(n):
    return n + "_" if (n in LEAN_RESERVED or n.startswith("_")) else n


def translate(ax):
    """-> (lean parameter names, lhs text, rhs text); raises ShapeError"""
    toks = ax["toks"]
    if "proof" not in ax["mods"]: raise ShapeError("not a `proof fn`")
    if any(m in ("broadcast", "spec", "exec", "unsafe") for m in ax["mods"]): raise ShapeError("unexpected modifier")
    for a in ax["attrs"]:
        if a.replace(" ", "") not in ("verifier::external_body",): raise ShapeError("unexpected attribute #[%s]" % a)
    # fn name ( params ) ensures E { }
    if len(toks) < 4 or toks[2].text != "(": raise ShapeError("generic or malformed signature")
    close = match_close(toks, 2)
    ptoks = toks[3:close]
    params = []
    k = 0
    while k < len(ptoks):
        if ptoks[k].kind != "ident": raise ShapeError("malformed parameter list")
        name = ptoks[k].text
        if k + 2 >= len(ptoks) or ptoks[k + 1].text != ":" or ptoks[k + 2].text != "int":
            raise ShapeError("parameter `%s` is not of type int" % name)
        if name in params: raise ShapeError("duplicate parameter `%s`" % name)
        params.append(name)
        k += 3
        if k < len(ptoks):
            if ptoks[k].text != ",": raise ShapeError("malformed parameter list")
            k += 1
    if not params: raise ShapeError("no parameters")
    rest = toks[close + 1:]
    if not rest or rest[0].text != "ensures":
        raise ShapeError("expected `ensures` directly after the parameter list (no requires, no return value, no decreases)")
    # body must be the empty block
    if len(rest) < 3 or rest[-1].text != "}" or rest[-2].text != "{":
        raise ShapeError("body is not the empty block `{ }`")
    etoks = rest[1:-2]
    if etoks and etoks[-1].text == ",": etoks = etoks[:-1]
    # exactly one `==` at parenthesis depth 0, no other comparison / comma / keyword anywhere
    depth = 0; eqs = []
    k = 0
    while k < len(etoks):
        x = etoks[k]
        if x.kind == "punct":
            if x.text == "(": depth += 1
            elif x.text == ")": depth -= 1
            elif x.text == "=":
                if k + 1 < len(etoks) and etoks[k + 1].text == "=" and etoks[k + 1].glued and not (k + 2 < len(etoks) and etoks[k + 2].text in "=>" and etoks[k + 2].glued):
                    if depth != 0: raise ShapeError("`==` inside parentheses")
                    eqs.append(k); k += 2; continue
                raise ShapeError("unexpected `=`")
        k += 1
    if len(eqs) != 1: raise ShapeError("the ensures clause must be exactly one equality A == B (found %d)" % len(eqs))
    e = eqs[0]
    sides = []
    for part in (etoks[:e], etoks[e + 2:]):
        if not part: raise ShapeError("empty side of the equality")
        p = _Poly(part, set(params))
        s = p.expr()
        if p.i != len(part): raise ShapeError("token `%s` is not allowed in a ring axiom (only + - * integer literals, parentheses, parameters)" % part[p.i].text)
        sides.append(s)
    return [lean_ident(p) for p in params], sides[0], sides[1]


# ----------------------------------------------------------------------------------------------
# 3. Lean file, runner, classification
# ----------------------------------------------------------------------------------------------
HEADER = """import Mathlib.Tactic

-- GENERATED by vf.ringcheck - do not edit.  Ring axioms of unit %s (proof fns `ring_*`, external_body in Verus).
set_option autoImplicit false
set_option linter.unusedVariables false
set_option maxHeartbeats 1000000
"""

def generate(unit, axioms):
    """axioms: list of dicts with name/params/lhs/rhs -> (text, {name: (first statement line, proof line)})"""
    lines = (HEADER % unit).split("\n")
    where = {}
    for a in axioms:
        lines.append("")
        s0 = len(lines) + 1
        lines.append("theorem %s (%s : ℤ) :" % (a["name"], " ".join(a["params"])))
        lines.append("    %s" % a["lhs"])
        lines.append("    = %s" % a["rhs"])
        lines.append("  := by ring")
        where[a["name"]] = (s0, len(lines))
        lines.append("#print axioms %s" % a["name"])
    return "\n".join(lines) + "\n", where


def classify(name, s0, pline, errs, output):
    mine = [(ln, msg) for ln, msg in errs if s0 <= ln <= pline]
    if mine:
        if any(ln < pline for ln, _ in mine):
            return "undecided", "the generated statement does not elaborate"
        if any(re.search(r"timeout|heartbeats|recursion depth|out of memory", msg) for _, msg in mine):
            return "undecided", "Lean resource limit in `ring`"
        return "failed", "`ring` does not prove the equality: the two polynomials differ"
    m = re.search(r"'%s' depends on axioms: \[(.*?)\]" % re.escape(name), output, re.S)
    if m:
        ax = set(a.strip() for a in m.group(1).split(",") if a.strip())
        if not ax <= ALLOWED_AXIOMS:
            return "undecided", "proof depends on non-standard axioms %s" % sorted(ax - ALLOWED_AXIOMS)
    elif ("'%s' does not depend on any axioms" % name) not in output:
        return "undecided", "axiom report missing from the Lean output"
    return "proved", ""


def check_text(unit, text, build_dir=None):
    """the work horse: `text` is the generated Verus file of `unit`"""
    build_dir = build_dir or BUILD_DIR
    t0 = time.time()
    results = []; good = []
    seen = set()
    for ax in find_axioms(text):
        r = {"name": ax["name"], "status": "undecided", "seconds": 0.0, "unit": unit, "line": ax["line"], "detail": ""}
        results.append(r)
        if ax["name"] in seen:
            r["detail"] = "duplicate name"; continue
        seen.add(ax["name"])
        try:
            params, lhs, rhs = translate(ax)
        except ShapeError as e:
            r["detail"] = "shape: %s" % e; continue
        except Exception as e:
            r["detail"] = "translator crashed: %s: %s" % (type(e).__name__, e); continue
        r["lean"] = "theorem %s (%s : ℤ) : %s = %s := by ring" % (ax["name"], " ".join(params), lhs, rhs)
        good.append({"name": ax["name"], "params": params, "lhs": lhs, "rhs": rhs, "res": r})
    if good:
        os.makedirs(build_dir, exist_ok=True)
        fname = "ring_%s.lean" % unit
        ltext, where = generate(unit, good)
        with open(os.path.join(build_dir, fname), "w") as f:
            f.write(ltext)
        out = None; why = ""
        try:
            p = subprocess.run(["lean", fname], cwd=build_dir, capture_output=True, text=True, timeout=LEAN_TIMEOUT)
            out = (p.stdout + p.stderr).strip()
            rc = p.returncode
        except subprocess.TimeoutExpired:
            why = "lean timed out after %d s" % LEAN_TIMEOUT
        except FileNotFoundError:
            why = "lean executable not found"
        secs = round(time.time() - t0, 2)
        if out is None:
            for a in good: a["res"]["detail"] = why; a["res"]["seconds"] = secs
        else:
            errs = []; located = set()
            for line in out.split("\n"):
                m = MSG_RE.match(line)
                if m and m.group(4) == "error":
                    errs.append((int(m.group(2)), m.group(5)))
            for a in good:
                s0, pl = where[a["name"]]
                for ln, _ in errs:
                    if s0 <= ln <= pl: located.add(ln)
            stray = [e for e in errs if e[0] not in located]
            for a in good:
                s0, pl = where[a["name"]]
                st, why = classify(a["name"], s0, pl, errs, out)
                if st == "proved" and (stray or (rc != 0 and not errs)):
                    st, why = "undecided", "lean reported a problem outside the theorems (exit code %d): %s" % (rc, "; ".join(m for _, m in stray)[:300])
                a["res"]["status"] = st; a["res"]["detail"] = why; a["res"]["seconds"] = secs
                a["res"]["lean_file"] = os.path.join(build_dir, fname)
                if st != "proved":
                    a["res"]["lean_output"] = "\n".join(l for l in out.split("\n") if re.match(r".*?:(\d+):", l) and s0 <= int(re.match(r".*?:(\d+):", l).group(1)) <= pl)[:2000]
    return results


def run_unit(unit, build_dir=None):
    from . import unit as U
    try:
        text = U.build(unit).text
    except Exception as e:
        return [{"name": "ring_*", "status": "undecided", "seconds": 0.0, "unit": unit, "detail": "unit does not build: %s: %s" % (type(e).__name__, e)}]
    return check_text(unit, text, build_dir)


def exit_code(results):
    if any(r["status"] == "failed" for r in results): return 1
    if any(r["status"] != "proved" for r in results): return 2
    return 0


def main(argv):
    args = [a for a in argv if not a.startswith("--")]
    if not args:
        print("usage: python3 -m vf.ringcheck <unit>... | --file=<verus file> <name>", file=sys.stderr)
        return 2
    ffile = next((a.split("=", 1)[1] for a in argv if a.startswith("--file=")), None)
    res = []
    if ffile:
        with open(ffile) as f:
            res = check_text(args[0], f.read())
    else:
        for u in args:
            res += run_unit(u)
    for r in res:
        print(json.dumps(r, ensure_ascii=False))
    return exit_code(res)


if __name__ == "__main__":
    sys.exit(main(sys.argv[1:]))
