"""Strip Verus annotations from an annotated template item and weave them onto the
current source item by token alignment.

Annotation classes (tok.ann):
  attr       #[verifier::...] attribute on a real item            anchor: next token
  ret_open   `(r:` of a named return value                        anchor: next token
  ret_close  `)` closing it                                       anchor: previous token
  clause     requires/ensures/invariant/decreases ... up to `{`   anchor: next token (the body brace)
  ghost      `proof { .. }` block or `let ghost ..;` statement    anchor: previous token
  iter       `it :` naming the ghost iterator of a for loop       anchor: previous token (`in`)
"""
import difflib, re
from .rstok import Tok, match_close, seq_at, OPEN, CLOSE
from .items import first_brace_depth0, _skip_attrs

CLAUSE_KW = {"requires", "ensures", "invariant", "invariant_except_break", "decreases", "recommends",
             "returns", "no_unwind", "opens_invariants", "default_ensures"}
SIDE = {"attr": "next", "ret_open": "next", "ret_close": "prev", "clause": "next", "lclause": "next", "ghost": "prev", "iter": "prev"}

class WeaveError(Exception):
    pass

def _mark(toks, a, b, kind):
    for k in range(a, b):
        toks[k].ann = kind

def _first_clause_kw(toks, a, b):
    depth = 0
    for k in range(a, b):
        t = toks[k]
        if t.kind == "punct":
            if t.text in "([": depth += 1
            elif t.text in ")]": depth -= 1
        elif depth == 0 and t.kind == "ident" and t.text in CLAUSE_KW:
            return k
    return -1

def mark_attrs(toks, keep_derive=True):
    """mark / classify attributes at the start of toks. returns index after attributes.
    verifier:: attributes become annotations; derive is kept; everything else is flagged 'drop'."""
    i = 0
    while i < len(toks) and toks[i].text == "#":
        j = i + 1
        if toks[j].text == "!": j += 1
        e = match_close(toks, j)
        head = toks[j + 1].text
        if head == "verifier":
            _mark(toks, i, e + 1, "attr")
        elif head == "derive" and keep_derive:
            pass
        else:
            _mark(toks, i, e + 1, "drop")
        i = e + 1
    return i

def mark_fn(toks):
    """toks: tokens of one fn item (attributes included). Marks annotation tokens in place."""
    i = mark_attrs(toks)
    while toks[i].text != "fn":
        i += 1
    # generics
    k = i + 2
    if toks[k].text == "<":
        depth = 0
        while True:
            if toks[k].text == "<": depth += 1
            elif toks[k].text == ">" and not (toks[k - 1].text == "-" and toks[k].glued):
                depth -= 1
                if depth == 0: break
            k += 1
        k += 1
    if toks[k].text != "(":
        raise WeaveError("fn %s: expected ( at line %d" % (toks[i + 1].text, toks[k].line))
    pe = match_close(toks, k)
    body = first_brace_depth0(toks, pe + 1)
    if body < 0 or toks[body].text == ";":
        # trait method declaration without body: clauses run to the `;`
        body = body if body >= 0 else len(toks) - 1
    j = pe + 1
    if seq_at(toks, j, "->"):
        j += 2
        if toks[j].text == "(" and toks[j + 1].kind == "ident" and toks[j + 2].text == ":" and not seq_at(toks, j + 2, "::"):
            c = match_close(toks, j)
            _mark(toks, j, j + 3, "ret_open")
            _mark(toks, c, c + 1, "ret_close")
            j = c + 1
    ck = _first_clause_kw(toks, j, body)
    if ck >= 0:
        _mark(toks, ck, body, "clause")
    if toks[body].text == "{":
        mark_body(toks, body + 1, match_close(toks, body))

def mark_body(toks, a, b):
    k = a
    while k < b:
        t = toks[k]
        if t.ann is not None:
            k += 1; continue
        if t.kind == "ident":
            if t.text == "proof" and toks[k + 1].text == "{":
                e = match_close(toks, k + 1)
                _mark(toks, k, e + 1, "ghost"); k = e + 1; continue
            if t.text in ("hide", "reveal", "reveal_with_fuel") and toks[k + 1].text == "(":
                # fuel directives `hide(f);` / `reveal(f);` (Verus headers, no executable meaning)
                e = match_close(toks, k + 1)
                if toks[e + 1].text == ";":
                    _mark(toks, k, e + 2, "ghost"); k = e + 2; continue
            if t.text == "let" and toks[k + 1].text in ("ghost", "tracked"):
                depth = 0; e = k
                while True:
                    x = toks[e]
                    if x.kind == "punct":
                        if x.text in OPEN: depth += 1
                        elif x.text in CLOSE: depth -= 1
                        elif x.text == ";" and depth == 0: break
                    e += 1
                _mark(toks, k, e + 1, "ghost"); k = e + 1; continue
            if t.text == "fn" and toks[k + 1].kind == "ident" and toks[k + 2].text == "(":
                # nested fn item (no generics): its contract is marked like that of a top-level fn
                pe = match_close(toks, k + 2)
                nbody = first_brace_depth0(toks, pe + 1)
                if nbody >= 0 and toks[nbody].text == "{":
                    j = pe + 1
                    if seq_at(toks, j, "->"):
                        j += 2
                        if toks[j].text == "(" and toks[j + 1].kind == "ident" and toks[j + 2].text == ":" and not seq_at(toks, j + 2, "::"):
                            c = match_close(toks, j)
                            _mark(toks, j, j + 3, "ret_open")
                            _mark(toks, c, c + 1, "ret_close")
                            j = c + 1
                    ck = _first_clause_kw(toks, j, nbody)
                    if ck >= 0:
                        _mark(toks, ck, nbody, "clause")
                k += 1; continue
            if t.text in ("while", "for", "loop") and (k == 0 or toks[k - 1].text not in (".",)):
                if t.text == "loop" and toks[k + 1].text not in ("{",) and not (toks[k + 1].kind == "ident" and toks[k + 1].text in CLAUSE_KW):
                    k += 1; continue
                body = first_brace_depth0(toks, k + 1)
                if body < 0 or toks[body].text != "{":
                    k += 1; continue
                if t.text == "for":
                    # for PAT in [it :] EXPR
                    depth = 0; q = k + 1
                    while q < body:
                        x = toks[q]
                        if x.kind == "punct":
                            if x.text in "([": depth += 1
                            elif x.text in ")]": depth -= 1
                        elif depth == 0 and x.text == "in":
                            break
                        q += 1
                    if q < body and toks[q + 1].kind == "ident" and toks[q + 2].text == ":" and not seq_at(toks, q + 2, "::"):
                        _mark(toks, q + 1, q + 3, "iter")
                ck = _first_clause_kw(toks, k + 1, body)
                if ck >= 0:
                    _mark(toks, ck, body, "lclause")
                    toks[ck].loopkw = k      # index of the loop keyword this clause belongs to
                k += 1; continue
        k += 1

def mark_item(item):
    """mark annotations inside a template item (fn, impl, trait, struct, val...)."""
    toks = item.toks
    if item.kind == "fn":
        mark_fn(toks)
    else:
        mark_attrs(toks)

def skeleton(toks):
    return [t for t in toks if t.ann is None]

def runs(toks):
    """annotation runs: list of (skeleton_pos, kind, [tokens]); 'drop' tokens vanish."""
    out = []; pos = 0; cur = None
    for t in toks:
        if t.ann is None:
            pos += 1; cur = None
        elif t.ann == "drop":
            cur = None
        else:
            if cur is not None and cur[1] == t.ann and cur[0] == pos:
                cur[2].append(t)
            else:
                cur = [pos, t.ann, [t]]; out.append(cur)
    return out

def _loop_headers(T):
    """[(kw_index, brace_index)] of the loops in token list T, in source order"""
    out = []
    for i, t in enumerate(T):
        if t.kind == "ident" and t.text in ("for", "while", "loop") and (i == 0 or T[i - 1].text not in (".", "::", "'")):
            if t.text == "for" and i > 0 and T[i - 1].text in ("<", "impl"): continue     # `for<'a>` / `impl X for Y`
            b = first_brace_depth0(T, i + 1)
            if b is not None and b >= 0 and b < len(T) and T[b].text == "{": out.append((i, b))
    return out

def _tok_diff(S, C, i1, i2, j1, j2, s2c):
    if i2 <= i1 or j2 <= j1: return
    sm = difflib.SequenceMatcher(None, [t.text for t in S[i1:i2]], [t.text for t in C[j1:j2]], autojunk=False)
    for tag, a1, a2, b1, b2 in sm.get_opcodes():
        if tag == "equal":
            for d in range(a2 - a1): s2c[i1 + a1 + d] = j1 + b1 + d

def _chunks(T, i1, i2):
    """statement-like chunks of T[i1:i2]: each ends with a `;`, `{` or `}` (any nesting level; brackets () [] are skipped)"""
    out = []; start = i1; i = i1
    while i < i2:
        x = T[i].text
        if x in ("(", "["):
            j = match_close(T, i)
            i = (j if j is not None and j < i2 else i) + 1
            continue
        if x in (";", "{", "}"):
            out.append((start, i + 1)); start = i + 1
        i += 1
    if start < i2: out.append((start, i2))
    return out

def _align_seg(S, C, i1, i2, j1, j2, s2c):
    """two-level alignment: statement-like chunks first (identical chunks, then - between them - chunks that start with the
    same token and are similar), tokens inside paired chunks second. A plain token diff tends to match stray punctuation of a
    deleted statement and to lose the keyword of the statement that follows it (and with it the anchor of a proof hint)."""
    if i2 <= i1 or j2 <= j1: return
    cs, cc = _chunks(S, i1, i2), _chunks(C, j1, j2)
    if len(cs) < 2 or len(cc) < 2:
        _tok_diff(S, C, i1, i2, j1, j2, s2c); return
    def keys(T, ch):
        # chunk text plus the brace depth at which the chunk ends (a bare `}` is only "the same" closing brace at the same depth)
        out = []; depth = 0
        for a, b in ch:
            for t in T[a:b]:
                if t.text == "{": depth += 1
                elif t.text == "}": depth -= 1
            out.append(" ".join(t.text for t in T[a:b]) + " @%d" % depth)
        return out
    ks, kc = keys(S, cs), keys(C, cc)
    sm = difflib.SequenceMatcher(None, ks, kc, autojunk=False)
    def pair_gap(a1, a2, b1, b2):
        # unmatched chunk runs: pair in order when the first token agrees and the chunks are similar enough
        b = b1
        for a in range(a1, a2):
            best = None
            for q in range(b, b2):
                if S[cs[a][0]].text == C[cc[q][0]].text:
                    r = difflib.SequenceMatcher(None, ks[a].split()[:-1], kc[q].split()[:-1], autojunk=False).ratio()
                    if r >= 0.4 and (best is None or r > best[1]): best = (q, r)
            if best is not None:
                q = best[0]
                _tok_diff(S, C, cs[a][0], cs[a][1], cc[q][0], cc[q][1], s2c)
                # terminators of paired chunks correspond
                if S[cs[a][1] - 1].text == C[cc[q][1] - 1].text: s2c[cs[a][1] - 1] = cc[q][1] - 1
                if S[cs[a][0]].text == C[cc[q][0]].text: s2c[cs[a][0]] = cc[q][0]
                b = q + 1
    for tag, a1, a2, b1, b2 in sm.get_opcodes():
        if tag == "equal":
            for d in range(a2 - a1):
                (sa, sb), (ca, cb) = cs[a1 + d], cc[b1 + d]
                for e in range(sb - sa): s2c[sa + e] = ca + e
        else:
            pair_gap(a1, a2, b1, b2)

def _align(S, C):
    """skeleton index -> current index for tokens considered unchanged. When both versions have the same number of loops, the
    k-th loop header of the skeleton is aligned with the k-th loop header of the source (so statements that merely moved across
    a loop boundary cannot make the matcher lose the loop and, with it, the loop invariants)."""
    s2c = {}
    hs, hc = _loop_headers(S), _loop_headers(C)
    if hs and len(hs) == len(hc) and all(S[a].text == C[b].text for (a, _), (b, _) in zip(hs, hc)):
        ps = pc = 0
        for (ks, bs), (kc, bc) in zip(hs, hc):
            if ks < ps or kc < pc:      # nested header inside the previous header span: give up the segmentation
                s2c.clear(); _align_seg(S, C, 0, len(S), 0, len(C), s2c); return s2c
            _align_seg(S, C, ps, ks, pc, kc, s2c)
            _align_seg(S, C, ks, bs + 1, kc, bc + 1, s2c)
            s2c[ks] = kc; s2c[bs] = bc
            ps, pc = bs + 1, bc + 1
        _align_seg(S, C, ps, len(S), pc, len(C), s2c)
    else:
        _align_seg(S, C, 0, len(S), 0, len(C), s2c)
    return s2c

def _pure_rename(S, C):
    """S, C: token lists of equal length. Returns {old: new} if they differ only by a consistent, capture-free renaming of
    identifiers that are bound locally (each renamed name occurs at least once right after `let`, `let mut`, `for`, `|` or as
    a parameter / pattern binding `name:` / `mut name`), else None."""
    m = {}
    for a, b in zip(S, C):
        if a.text == b.text: continue
        if a.kind != "ident" or b.kind != "ident": return None
        if m.get(a.text, b.text) != b.text: return None
        m[a.text] = b.text
    if not m: return None
    if len(set(m.values())) != len(m): return None
    old_names = set(t.text for t in S if t.kind == "ident")
    for o, n in m.items():
        if n in old_names: return None                     # capture: the new name already meant something else
    for a, b in zip(S, C):
        if a.kind == "ident" and a.text in m and b.text != m[a.text]: return None   # not renamed everywhere
    # every renamed name must be a local binding, never a field / method / path segment
    for i, a in enumerate(S):
        if a.kind == "ident" and a.text in m:
            prev = S[i - 1].text if i > 0 else ""
            nxt = S[i + 1].text if i + 1 < len(S) else ""
            if prev in (".", "::") or nxt == "::": return None
    # every renamed name must be bound LOCALLY in this item: a parameter (`name: T` in the signature), `let [mut] name`,
    # a simple tuple pattern after `let` / `for`, or `for name in`. A constant, a field or a callee that is merely *replaced by
    # another one* in the source is a semantic change, not a renaming (a swapped constant once verified against a contract that
    # had been rewritten along with it).
    for o in m:
        if re.match(r"^[A-Z][A-Z0-9_]*$", o) or re.match(r"^[A-Z][A-Z0-9_]*$", m[o]): return None
    body = first_brace_depth0(S, 0)
    if body is None or body < 0: body = len(S)
    bound = set()
    for i, a in enumerate(S):
        if not (a.kind == "ident" and a.text in m): continue
        prev = S[i - 1].text if i > 0 else ""
        prev2 = S[i - 2].text if i > 1 else ""
        nxt = S[i + 1].text if i + 1 < len(S) else ""
        if i < body:
            if nxt == ":" and prev in ("(", ",", "mut"): bound.add(a.text)
        else:
            if prev in ("let", "for") or (prev == "mut" and prev2 == "let"): bound.add(a.text)
            elif prev in ("(", ",") or (prev == "mut" and prev2 in ("(", ",")):
                # inside a tuple pattern directly after `let` / `for`:  let (a, mut b) = ..   for (i, x) in ..
                k = i
                while k > 0 and S[k].text != "(": k -= 1
                if k > 0 and S[k - 1].text in ("let", "for"):
                    close = match_close(S, k)
                    if close is not None and close > i and S[close + 1].text in ("=", "in", ":"): bound.add(a.text)
    if bound != set(m): return None
    return m

def weave(template_toks, cur_toks, what="", degrade=False, force_drop=None, dropped_out=None):
    """template_toks: marked tokens of the template item; cur_toks: tokens of the current
    source item (already rewritten, 'drop' tokens removed). Returns (out_tokens, notes).
    Annotations whose structural anchor no longer exists in the current source (a loop that was
    removed, a statement boundary that moved) are DROPPED with a note, never placed by guesswork:
    the function is then verified with what remains.  degrade=True drops every ghost / loop
    annotation and keeps only the function contract."""
    S = skeleton(template_toks)
    R = runs(template_toks)
    C = cur_toks
    st = [t.text for t in S]; ct = [t.text for t in C]
    notes = []
    tidx2s = {}
    k = 0
    for ti, t in enumerate(template_toks):
        if t.ann is None:
            tidx2s[ti] = k; k += 1
    ren = None
    if st != ct and len(st) == len(ct):
        ren = _pure_rename(S, C)
    if ren:
        # the only difference is a consistent renaming of local identifiers: carry it over to the annotations (a renamed
        # local must not turn into dropped invariants and then into a spurious failure)
        for t in template_toks:
            if t.ann is not None and t.kind == "ident" and t.text in ren:
                t.text = ren[t.text]
        notes.append("%s: local identifiers renamed in the source, annotations follow: %s" % (what, ", ".join("%s->%s" % kv for kv in sorted(ren.items()))))
        R = runs(template_toks)
        s2c = {i: i for i in range(len(S))}
    elif st == ct:
        s2c = {i: i for i in range(len(S))}
    else:
        s2c = _align(S, C)
        notes.append("%s: source differs from pinned skeleton: %d/%d tokens aligned" % (what, len(s2c), len(S)))
    inserts = {}
    def drop(kind, rt, why):
        notes.append("DROPPED %s: %s annotation `%s` (%s)" % (what, kind, " ".join(x.text for x in rt[:10]), why))
    _order = [None]
    _drop0 = drop
    def drop(kind, rt, why):
        if dropped_out is not None: dropped_out.append(_order[0])
        _drop0(kind, rt, why)
    for order, (pos, kind, rt) in enumerate(R):
        _order[0] = order
        if force_drop is not None and order in force_drop:
            drop(kind, rt, "pinned replay: dropped as on the changed source"); continue
        if degrade and kind in ("ghost", "lclause", "iter"):
            drop(kind, rt, "degraded mode"); continue
        at = None
        if kind == "lclause":
            kw = rt[0].loopkw
            skw = tidx2s.get(kw)
            if skw in s2c and pos in s2c and C[s2c[pos]].text == "{" and s2c[skw] < s2c[pos]:
                at = s2c[pos]
            else:
                drop(kind, rt, "its loop is no longer present in the source"); continue
        elif kind == "clause":
            if pos in s2c and C[s2c[pos]].text in ("{", ";"):
                at = s2c[pos]
            else:
                raise WeaveError("lost-anchor: %s: function body brace not aligned for the contract" % what)
        elif kind == "ghost":
            if pos - 1 in s2c: at = s2c[pos - 1] + 1
            elif pos in s2c: at = s2c[pos]
            if at is None or at == 0 or C[at - 1].text not in (";", "{", "}"):
                drop(kind, rt, "statement boundary it was attached to is gone"); continue
        elif kind == "iter":
            if pos - 1 in s2c and C[s2c[pos - 1]].text == "in": at = s2c[pos - 1] + 1
            else: drop(kind, rt, "for-loop header changed"); continue
        elif kind == "ret_open":
            if pos in s2c: at = s2c[pos]
            else: raise WeaveError("lost-anchor: %s: return type changed" % what)
        elif kind == "ret_close":
            if pos - 1 in s2c: at = s2c[pos - 1] + 1
            else: raise WeaveError("lost-anchor: %s: return type changed" % what)
        else:  # attr
            if pos in s2c: at = s2c[pos]
            else: at = 0
        inserts.setdefault(at, []).append((order, kind, rt))
    out = []
    for q in range(len(C) + 1):
        for order, kind, rt in sorted(inserts.get(q, []), key=lambda x: x[0]):
            for t in rt:
                nt = Tok(t.text, t.ws, t.kind, t.line); nt.ann = kind; out.append(nt)
        if q < len(C):
            c = C[q]
            nt = Tok(c.text, c.ws, c.kind, c.line); nt.ann = None
            if out and out[-1].ann in ("clause", "lclause") and "\n" not in nt.ws:
                nt.ws = "\n"
            out.append(nt)
    # make sure annotation/code boundaries are separated by whitespace where both are word-like
    for a, b in zip(out, out[1:]):
        if b.ws == "" and (a.ann != b.ann) and (a.kind in ("ident", "num") and b.kind in ("ident", "num")):
            b.ws = " "
    return out, notes
