"""leangen - Lean 4 back end for straight-line field-formula functions.

For every obligation `/verif/lean/<name>.json` this module

  1. fetches the CURRENT text of one Rust method from the working tree of /repo
     (vf.unit.source_items -> impl block -> fn item; VERIF_REPO overlays are honoured),
  2. selects one execution path through its top-level `if`s (the spec's explicit `path`),
  3. translates the straight-line statements on that path into a Lean `let`-chain over a
     commutative ring / field (SSA-renaming re-assigned variables),
  4. wraps the chain into `theorem <name> ... : <lets> <conclusion> := by intro ...; <tactic>`
     where only the variables, hypotheses, parametrisation, conclusion and tactic script come
     from the hand-written spec, and
  5. runs `lean` on the generated file and classifies the outcome.

What is translated (everything else raises TranslateError -> status "undecided"):

  Rust                                   Lean
  -------------------------------------  ------------------------------------------
  a.fp_mul(&b)                           (a * b)
  a.fp_sqr()                             (a * a)
  a.fp_add(&b)                           (a + b)
  a.fp_sub(&b)                           (a - b)
  a.fp_double()                          (a + a)
  a.fp_triple()                          (a + a + a)
  a.fp_neg()                             (-a)
  a.fp_div2()                            (a / 2)        only if the structure is a Field
  a.fp_inv()                             (a)⁻¹          only if the structure is a Field
  a.clone()                              a
  T::zero() / T::one()                   0 / 1
  <method listed in the spec's "methods"> the spec's Lean pattern ({0} receiver, {1}.. arguments)
  self.x, p.y, rhs.c0, lw[1], CONST      the Lean variable the spec's "inputs" binds to that place
  let [mut] v [: T] = e;                 let v := e
  let (a, b) = (e1, e2);                 let a := e1; let b := e2
  v = e;   r.c0 = e;                     let v_k := e   (SSA: the LAST version keeps the bare name)
  S { f: e, .. } / Self { x, y, z }      outputs, one per field
  a.eq(&b), a == b, u256_cmp(&a,&b) == 0 outputs `lhs`, `rhs`  (both sides are translated)

What is dropped (no Lean counterpart): `&`/`&mut`/`*` on expressions, `mut`, type annotations,
comments, the blocks of skipped early-return guards (their conditions are printed as comments and must
match the spec literally).

Spec file  /verif/lean/<name>.json  (hand-written; everything NOT listed here is generated from the source):
  name        theorem / file name, equal to the file's base name
  doc         prose statement of the obligation (evidence text)
  source      path of the Rust file relative to the repo root
  function    `Type::method` (must be unique among the `impl .. Type` blocks of the file)
  path        block selector: one entry per `if` met on the path, in source order,
              {"if": <ordinal 0,1,..>, "cond": "<condition text, compared ignoring white space>",
               "take": "skip" | "then" | "else"}
              skip = early-return guard (no else, block ends in `return`), its block is not executed;
              then/else = the block is inlined in place of the `if`.  An `if` without entry, an entry
              without `if`, a changed condition or a guard that no longer returns -> undecided.
  structure   "Field F" | "CommRing R"
  vars        universally quantified elements of the carrier
  hyps        hypothesis binders, Lean text, e.g. "(hZ : Z ≠ 0)"
  params      optional lets emitted BEFORE the generated chain ("X1 := xa*Z1^2"): input parametrisation
  inputs      Rust place or constant path -> Lean name (a var or a params name): "self.x": "X1"
  methods     optional extra method mappings {"a_mul_u": {"lean": "({0} * u)", "doc": "why"}}
  outputs     result component -> Lean name: struct fields, or lhs/rhs of a comparison, or "value".
              If the component already is the let of that name nothing is added, else `let name := comp`.
  post        lets emitted AFTER the generated chain (affine coordinates, slope, expected result)
  conclusion  Lean proposition over vars, params, outputs, post names
  tactic      lines of the proof script; {lets} {gen} {params} {post} expand to the comma separated let names

Generated file = header + `theorem name {C} [structure] (vars : C) hyps :` + params lets + GENERATED lets +
post lets + conclusion + `:= by` + `intro <all let names>` + tactic + `#print axioms name`.

Status: proved = lean accepts, no sorry, only the three standard axioms; failed = Lean error located after
the statement (the formulas no longer satisfy the identity); undecided = translator / structure / statement
elaboration / resource problems.

CLI (cwd /verif):  python3 -m vf.leangen <name>.. | --all   [--jobs=N]   one JSON line per obligation,
                   exit 0 all proved / 1 some failed / 2 some undecided, none failed
                   ... --print     show the generated Lean text only
                   ... --mutants   negative check: every method call on the translated path is replaced by
                                   another one (MUTATE table) in a scratch overlay (VERIF_REPO) and the
                                   normal runner must answer `failed`
"""
import os, sys, re, json, time, hashlib, subprocess, tempfile, shutil

from .rstok import match_close, render
from .items import impl_members, first_brace_depth0
from . import unit as U

VERIF = os.path.dirname(os.path.dirname(os.path.abspath(__file__)))
SPEC_DIR = os.path.join(VERIF, "lean")
BUILD_DIR = os.environ.get("VERIF_LEAN_BUILD", os.path.join(VERIF, "build", "lean"))
LEAN_TIMEOUT = 600
ALLOWED_AXIOMS = {"propext", "Classical.choice", "Quot.sound"}


class TranslateError(Exception):
    """the source is outside the translated subset, or its structure no longer matches the spec"""


# ----------------------------------------------------------------------------------------------
# mapping table
# ----------------------------------------------------------------------------------------------
# method -> (number of arguments, Lean pattern, needs_field)
BUILTIN_METHODS = {
    "fp_mul":    (1, "({0} * {1})", False),
    "fp_sqr":    (0, "({0} * {0})", False),
    "fp_add":    (1, "({0} + {1})", False),
    "fp_sub":    (1, "({0} - {1})", False),
    "fp_double": (0, "({0} + {0})", False),
    "fp_triple": (0, "({0} + {0} + {0})", False),
    "fp_neg":    (0, "(-{0})", False),
    "fp_div2":   (0, "({0} / 2)", True),
    "fp_inv":    (0, "({0})⁻¹", True),
    "clone":     (0, "{0}", False),
}
ASSOC_CONSTS = {"zero": "0", "one": "1"}          # T::zero(), T::one()
BAD_STMT_KW = {"for", "while", "loop", "match", "unsafe", "break", "continue", "async", "fn", "struct", "impl", "use", "const", "static"}
LEAN_RESERVED = {"at", "from", "fun", "have", "show", "then", "else", "if", "end", "in", "do", "let", "by", "with", "match",
                 "open", "theorem", "def", "where", "using", "suffices", "obtain", "calc", "forall", "exists", "Type", "Prop", "Sort"}


# ----------------------------------------------------------------------------------------------
# 1. fetch the function
# ----------------------------------------------------------------------------------------------
def fetch_fn(relpath, qualname):
    """the fn Item for `Type::name` in relpath (current working tree / overlay)"""
    if "::" not in qualname:
        raise TranslateError("function must be given as Type::name, got %r" % qualname)
    ty, fn = qualname.split("::")
    try:
        items = U.source_items(relpath)
    except Exception as e:
        raise TranslateError("cannot read/split %s: %s" % (relpath, e))
    found = []
    for imp in items:
        if imp.kind != "impl" or U._is_cfg_test(imp): continue
        if imp.name.split(" for ")[-1].strip() != ty: continue
        for m in impl_members(imp)[2]:
            if m.kind == "fn" and m.name == fn:
                found.append((imp.name, m))
    if not found:
        raise TranslateError("lost anchor: no method %s in any `impl .. %s` of %s" % (fn, ty, relpath))
    if len(found) > 1:
        raise TranslateError("ambiguous: %d methods named %s (impls: %s)" % (len(found), qualname, ", ".join(n for n, _ in found)))
    return found[0][1]


def fn_body(item):
    b = first_brace_depth0(item.toks, item.kw_idx)
    if b < 0 or item.toks[b].text != "{":
        raise TranslateError("fn %s has no body" % item.name)
    e = match_close(item.toks, b)
    return item.toks[b + 1:e]


# ----------------------------------------------------------------------------------------------
# 2. statements and path selection
# ----------------------------------------------------------------------------------------------
class Stmt:
    def __init__(self, kind, toks, **kw):
        self.kind = kind          # let | assign | if | return | expr
        self.toks = toks          # all tokens of the statement (for messages / comments)
        self.__dict__.update(kw)
    @property
    def line(self):
        return self.toks[0].line if self.toks else 0
    def text(self):
        return " ".join(render(self.toks).split())


def _semi_depth0(toks, i):
    """index of the first `;` at bracket depth 0 at or after i, or len(toks)"""
    depth = 0
    for j in range(i, len(toks)):
        t = toks[j]
        if t.kind == "punct":
            if t.text in "([{": depth += 1
            elif t.text in ")]}": depth -= 1
            elif t.text == ";" and depth == 0: return j
    return len(toks)


def _find_assign(toks):
    """index of a plain `=` at depth 0 (not ==, <=, >=, !=, +=, ...), or -1"""
    depth = 0
    for j, t in enumerate(toks):
        if t.kind != "punct": continue
        if t.text in "([{": depth += 1
        elif t.text in ")]}": depth -= 1
        elif t.text == "=" and depth == 0:
            prev = toks[j - 1] if j > 0 else None
            nxt = toks[j + 1] if j + 1 < len(toks) else None
            if nxt is not None and nxt.kind == "punct" and nxt.text in "=>" and nxt.glued:
                continue                                   # `==` (first char) or `=>`
            if prev is not None and prev.kind == "punct" and prev.text in "=!<>+-*/%^&|" and t.glued:
                if prev.text == "=":
                    continue                               # `==` (second char)
                raise TranslateError("line %d: compound/relational operator `%s=` is not in the translated subset" % (t.line, prev.text))
            return j
    return -1


def _parse_if(toks, i):
    """toks[i] is `if`; returns (Stmt, next index)"""
    if toks[i + 1].text == "let":
        raise TranslateError("line %d: `if let` is not in the translated subset" % toks[i].line)
    b = first_brace_depth0(toks, i)
    if b < 0 or toks[b].text != "{":
        raise TranslateError("line %d: malformed `if`" % toks[i].line)
    e = match_close(toks, b)
    cond = toks[i + 1:b]; then = toks[b + 1:e]
    els = None; j = e + 1
    if j < len(toks) and toks[j].text == "else":
        if toks[j + 1].text == "if":
            inner, j2 = _parse_if(toks, j + 1)
            els = ("elseif", inner); j = j2
        elif toks[j + 1].text == "{":
            e2 = match_close(toks, j + 1)
            els = ("block", toks[j + 2:e2]); j = e2 + 1
        else:
            raise TranslateError("line %d: malformed `else`" % toks[j].line)
    end = j
    if end < len(toks) and toks[end].text == ";": end += 1
    return Stmt("if", toks[i:end], cond=cond, then=then, els=els), end


def split_stmts(toks):
    out = []; i = 0; n = len(toks)
    while i < n:
        t = toks[i]
        if t.text == ";" and t.kind == "punct":
            i += 1; continue
        if t.kind == "ident" and t.text in BAD_STMT_KW:
            raise TranslateError("line %d: `%s` statement is not in the translated subset (straight-line code only)" % (t.line, t.text))
        if t.kind == "ident" and i + 1 < n and toks[i + 1].text == "!" and toks[i + 1].glued:
            raise TranslateError("line %d: macro invocation `%s!` is not in the translated subset" % (t.line, t.text))
        if t.text == "#":
            raise TranslateError("line %d: attributes inside the body are not in the translated subset" % t.line)
        if t.text == "if":
            st, i = _parse_if(toks, i); out.append(st); continue
        e = _semi_depth0(toks, i)
        body = toks[i:e]; has_semi = e < n
        if t.text == "let":
            eq = _find_assign(body)
            if eq < 0:
                raise TranslateError("line %d: `let` without initialiser" % t.line)
            out.append(Stmt("let", toks[i:e + 1], pat=body[1:eq], expr=body[eq + 1:]))
        elif t.text == "return":
            out.append(Stmt("return", toks[i:e + 1], expr=body[1:]))
        else:
            eq = _find_assign(body)
            if eq >= 0:
                if not has_semi:
                    raise TranslateError("line %d: assignment in tail position" % t.line)
                out.append(Stmt("assign", toks[i:e + 1], place=body[:eq], expr=body[eq + 1:]))
            elif has_semi:
                raise TranslateError("line %d: expression statement `%s` (possible side effect) is not in the translated subset"
                                     % (t.line, " ".join(render(body).split())[:60]))
            else:
                out.append(Stmt("return", toks[i:e], expr=body))      # tail expression = result
        i = e + 1
    return out


def _nows(s):
    return "".join(s.split())


def linearise(stmts, path, counter, notes):
    """Follow the spec's explicit path through the `if`s.  Returns (flat statements, has_result)."""
    flat = []
    for k, st in enumerate(stmts):
        if st.kind != "if":
            flat.append(st)
            if st.kind == "return":
                if k != len(stmts) - 1:
                    raise TranslateError("line %d: statements after a `return`" % st.line)
                return flat, True
            continue
        idx = counter[0]; counter[0] += 1
        if idx >= len(path):
            raise TranslateError("structure mismatch: line %d holds `if` number %d but the spec's path has only %d entries"
                                 % (st.line, idx, len(path)))
        step = path[idx]
        if step.get("if") != idx:
            raise TranslateError("spec error: path entry %d must have \"if\": %d" % (idx, idx))
        cond = "".join(t.text for t in st.cond)
        if _nows(step.get("cond", "")) != cond:
            raise TranslateError("structure mismatch: `if` number %d (line %d) has condition `%s`, the spec expects `%s`"
                                 % (idx, st.line, " ".join(render(st.cond).split()), step.get("cond")))
        take = step.get("take")
        ctext = " ".join(render(st.cond).split())
        if take == "skip":
            if st.els is not None:
                raise TranslateError("structure mismatch: guard `if %s` (line %d) has an else branch, cannot be skipped" % (ctext, st.line))
            inner = split_stmts(st.then)
            if not inner or inner[-1].kind != "return" or inner[-1].toks[0].text != "return":
                raise TranslateError("structure mismatch: guard `if %s` (line %d) does not end in `return`, cannot be skipped" % (ctext, st.line))
            notes.append("L%d: early-return guard skipped, path condition: not (%s)" % (st.line, ctext))
            continue
        if take == "then":
            block = st.then
            notes.append("L%d: then-branch taken, path condition: %s" % (st.line, ctext))
        elif take == "else":
            if st.els is None or st.els[0] != "block":
                raise TranslateError("structure mismatch: `if %s` (line %d) has no plain else block" % (ctext, st.line))
            block = st.els[1]
            notes.append("L%d: else-branch taken, path condition: not (%s)" % (st.line, ctext))
        else:
            raise TranslateError("spec error: path entry %d: take must be skip|then|else" % idx)
        sub, done = linearise(split_stmts(block), path, counter, notes)
        flat += sub
        if done:
            if k != len(stmts) - 1:
                raise TranslateError("structure mismatch: the branch taken at line %d yields the result but statements follow the `if`" % st.line)
            return flat, True
    return flat, False


# ----------------------------------------------------------------------------------------------
# 3. expressions
# ----------------------------------------------------------------------------------------------
class ExprParser:
    """recursive descent over the token list of one expression.
    AST: ('var', n) ('field', e, f) ('index', e, k) ('call', recv, m, [args]) ('assoc', 'T::f', [args])
         ('fcall', f, [args]) ('struct', T, [(f, e)]) ('tuple', [e]) ('num', txt) ('eq', l, r)"""
    def __init__(self, toks):
        self.t = toks; self.i = 0
    def peek(self, k=0):
        j = self.i + k
        return self.t[j] if j < len(self.t) else None
    def at(self, s, k=0):
        p = self.peek(k)
        return p is not None and p.text == s and p.kind in ("punct", "ident")
    def fail(self, what):
        p = self.peek()
        where = "line %d near `%s`" % (p.line, " ".join(x.text for x in self.t[self.i:self.i + 6])) if p else "end of `%s`" % " ".join(x.text for x in self.t[-6:])
        raise TranslateError("%s: %s" % (where, what))
    def eat(self, s):
        if not self.at(s): self.fail("expected `%s`" % s)
        self.i += 1
    def parse_all(self):
        if not self.t:
            raise TranslateError("empty expression")
        e = self.expr()
        if self.i != len(self.t):
            self.fail("operator/token not in the translated subset")
        return e
    def expr(self):
        l = self.unary()
        if self.at("=") and self.at("=", 1) and self.peek(1).glued:
            self.i += 2
            r = self.unary()
            return ("eq", l, r)
        return l
    def unary(self):
        if self.at("&"):
            self.i += 1
            if self.at("mut"): self.i += 1
            return self.unary()                       # borrow dropped
        if self.at("*"):
            self.i += 1
            return self.unary()                       # deref dropped
        return self.postfix()
    def args(self):
        self.eat("(")
        out = []
        while not self.at(")"):
            out.append(self.expr())
            if self.at(","): self.i += 1
            elif not self.at(")"): self.fail("expected `,` or `)`")
        self.eat(")")
        return out
    def postfix(self):
        e = self.primary()
        while True:
            if self.at(".") and not (self.at(".", 1)):
                self.i += 1
                p = self.peek()
                if p is None or p.kind != "ident": self.fail("expected a field or method name")
                self.i += 1
                if self.at("("):
                    e = ("call", e, p.text, self.args())
                elif self.at(":"):
                    self.fail("turbofish not in the translated subset")
                else:
                    e = ("field", e, p.text)
            elif self.at("["):
                self.i += 1
                p = self.peek()
                if p is None or p.kind != "num" or not self.at("]", 1): self.fail("only constant indices are translated")
                self.i += 2
                e = ("index", e, p.text)
            else:
                return e
    def primary(self):
        p = self.peek()
        if p is None: self.fail("unexpected end of expression")
        if self.at("("):
            self.i += 1
            items = []; trailing = False
            while not self.at(")"):
                items.append(self.expr()); trailing = False
                if self.at(","): self.i += 1; trailing = True
                elif not self.at(")"): self.fail("expected `,` or `)`")
            self.eat(")")
            if len(items) == 1 and not trailing: return items[0]
            return ("tuple", items)
        if p.kind == "num":
            self.i += 1
            return ("num", p.text)
        if p.kind == "ident":
            if p.text in ("if", "match", "loop", "while", "for", "unsafe", "return", "move", "async"):
                self.fail("`%s` expression not in the translated subset" % p.text)
            segs = [p.text]; self.i += 1
            while self.at(":") and self.at(":", 1) and self.peek(1).glued:
                q = self.peek(2)
                if q is None or q.kind != "ident": self.fail("generic path not in the translated subset")
                segs.append(q.text); self.i += 3
            if self.at("!"):
                self.fail("macro invocation not in the translated subset")
            if self.at("("):
                a = self.args()
                if len(segs) == 1: return ("fcall", segs[0], a)
                return ("assoc", "::".join(segs), a)
            if self.at("{") and len(segs) == 1 and (segs[0][0].isupper()):
                return self.struct_lit(segs[0])
            if len(segs) == 1: return ("var", segs[0])
            return ("var", "::".join(segs))           # path to a constant; must be bound by the spec's inputs
        self.fail("token not in the translated subset")
    def struct_lit(self, name):
        self.eat("{")
        fields = []
        while not self.at("}"):
            f = self.peek()
            if f is None or f.kind != "ident": self.fail("expected a field name (struct update syntax is not translated)")
            self.i += 1
            if self.at(":"):
                self.i += 1
                fields.append((f.text, self.expr()))
            else:
                fields.append((f.text, ("var", f.text)))          # shorthand  Self { x, y, z }
            if self.at(","): self.i += 1
            elif not self.at("}"): self.fail("expected `,` or `}`")
        self.eat("}")
        return ("struct", name, fields)


def place_of(ast):
    """'self.c0.c1', 'lw[1]', 'r.c0' for a chain of field reads / constant indices on a variable, else None"""
    if ast[0] == "var": return ast[1]
    if ast[0] == "field":
        b = place_of(ast[1])
        return None if b is None else b + "." + ast[2]
    if ast[0] == "index":
        b = place_of(ast[1])
        return None if b is None else "%s[%s]" % (b, ast[2])
    return None


# ----------------------------------------------------------------------------------------------
# 4. translation
# ----------------------------------------------------------------------------------------------
class Translation:
    def __init__(self):
        self.lets = []        # (lean name, lean expr, comment)
        self.notes = []       # path notes
        self.outputs = {}     # output key -> lean name
        self.fn_sha = ""; self.fn_lines = (0, 0)
        self.sites = []       # tokens of method names on the translated path (for the mutation sweep)


class Translator:
    def __init__(self, spec):
        self.spec = spec
        st = spec.get("structure", "").split()
        if len(st) != 2 or st[0] not in ("Field", "CommRing"):
            raise TranslateError("spec error: structure must be `Field F` or `CommRing R`")
        self.is_field = st[0] == "Field"; self.carrier = st[1]
        self.inputs = dict(spec.get("inputs", {}))
        self.methods = {}
        for m, (n, pat, fld) in BUILTIN_METHODS.items():
            self.methods[m] = (n, pat, fld)
        for m, d in spec.get("methods", {}).items():
            pat = d["lean"]
            nargs = max([int(x) for x in re.findall(r"\{(\d+)\}", pat)] + [0])
            self.methods[m] = (nargs, pat, False)
        self.env = {}         # rust place -> current lean name
        self.ver = {}         # rust place -> versions emitted so far
        self.total = {}       # rust place -> number of definitions on the path
        self.used_names = set()
        self.tr = Translation()

    # -- names
    def _lean_ident(self, place):
        n = re.sub(r"[^A-Za-z0-9_]", "_", place)
        if n in LEAN_RESERVED or not re.match(r"[A-Za-z_]", n): n = n + "_"
        return n
    def fresh(self, place, line):
        self.ver[place] = self.ver.get(place, 0) + 1
        base = self._lean_ident(place)
        name = base if self.ver[place] == self.total[place] else "%s_%d" % (base, self.ver[place])
        if name in self.used_names:
            raise TranslateError("line %d: generated Lean name `%s` collides with another name of the theorem" % (line, name))
        self.used_names.add(name)
        return name

    # -- expressions
    def lean(self, ast, line):
        k = ast[0]
        if k in ("var", "field", "index"):
            pl = place_of(ast)
            if pl is None:
                raise TranslateError("line %d: field read on a computed value is not in the translated subset" % line)
            if pl in self.env: return self.env[pl]
            if pl in self.inputs: return self.inputs[pl]
            if k == "var" and ast[1] in self.total:
                raise TranslateError("line %d: variable `%s` read before its definition on this path" % (line, pl))
            raise TranslateError("line %d: `%s` is neither a local of the translated path nor bound by the spec's inputs" % (line, pl))
        if k == "call":
            _, recv, m, args = ast
            if m not in self.methods:
                raise TranslateError("line %d: unknown method `.%s(..)` (not in the mapping table)" % (line, m))
            n, pat, needs_field = self.methods[m]
            if needs_field and not self.is_field:
                raise TranslateError("line %d: `.%s()` needs a Field structure (or a spec-level mapping)" % (line, m))
            if len(args) != n:
                raise TranslateError("line %d: `.%s` expects %d argument(s), found %d" % (line, m, n, len(args)))
            vals = [self.lean(recv, line)] + [self.lean(a, line) for a in args]
            return pat.format(*vals)
        if k == "assoc":
            f = ast[1].split("::")[-1]
            if f in ASSOC_CONSTS and not ast[2] and len(ast[1].split("::")) == 2:
                return "(%s : %s)" % (ASSOC_CONSTS[f], self.carrier)
            raise TranslateError("line %d: call `%s(..)` is not in the translated subset" % (line, ast[1]))
        if k == "fcall":
            raise TranslateError("line %d: call `%s(..)` is not in the translated subset" % (line, ast[1]))
        if k == "num":
            raise TranslateError("line %d: numeric literal `%s` in a field expression is not translated" % (line, ast[1]))
        raise TranslateError("line %d: `%s` expression is not in the translated subset here" % (line, k))

    # -- statements
    def _pattern(self, toks, line):
        """`x` | `mut x` | `x: T` | `(mut a, mut b)` [: T]  ->  list of names (tuple) or single name"""
        ts = list(toks)
        def one(ts):
            if ts and ts[0].text == "mut": ts = ts[1:]
            if not ts or ts[0].kind != "ident" or ts[0].text in ("ref", "_"):
                raise TranslateError("line %d: let-pattern `%s` is not in the translated subset" % (line, " ".join(t.text for t in toks)))
            if len(ts) > 1 and ts[1].text != ":":
                raise TranslateError("line %d: let-pattern `%s` is not in the translated subset" % (line, " ".join(t.text for t in toks)))
            return ts[0].text                                  # `: Type` dropped
        if ts and ts[0].text == "(":
            e = match_close(ts, 0)
            inner = ts[1:e]; names = []; cur = []
            for t in inner:
                if t.text == "," and t.kind == "punct":
                    names.append(one(cur)); cur = []
                elif t.text in "([{<":
                    raise TranslateError("line %d: nested let-pattern is not in the translated subset" % line)
                else: cur.append(t)
            if cur: names.append(one(cur))
            return names
        return one(ts)

    def _defs(self, st):
        if st.kind == "let":
            p = self._pattern(st.pat, st.line)
            return p if isinstance(p, list) else [p]
        if st.kind == "assign":
            pl = place_of(ExprParser(st.place).parse_all())
            if pl is None or "[" in pl:
                raise TranslateError("line %d: assignment target `%s` is not in the translated subset" % (st.line, st.text()))
            return [pl]
        return []

    def bind(self, place, val, st):
        name = self.fresh(place, st.line)
        self.tr.lets.append((name, val, "L%d: %s" % (st.line, st.text())))
        return name

    def run(self, flat):
        # pass 1: count definitions (SSA numbering; the last version keeps the bare name)
        for st in flat:
            for pl in self._defs(st):
                self.total[pl] = self.total.get(pl, 0) + 1
        reserved = set(self.spec.get("vars", [])) | set(_let_name(l) for l in self.spec.get("params", [])) \
            | set(_let_name(l) for l in self.spec.get("post", []))
        self.used_names |= reserved
        result = None
        # pass 2
        for st in flat:
            self._collect_sites(st)
            if st.kind == "let":
                pat = self._pattern(st.pat, st.line)
                ast = ExprParser(st.expr).parse_all()
                if isinstance(pat, list):
                    if ast[0] != "tuple" or len(ast[1]) != len(pat):
                        raise TranslateError("line %d: tuple pattern needs a tuple literal of the same length" % st.line)
                    vals = [self.lean(a, st.line) for a in ast[1]]        # evaluate all, then bind
                    for n, v in zip(pat, vals):
                        self.env[n] = self.bind(n, v, st)
                        self._shadow_fields(n)
                else:
                    v = self.lean(ast, st.line)
                    self.env[pat] = self.bind(pat, v, st)
                    self._shadow_fields(pat)
            elif st.kind == "assign":
                pl = self._defs(st)[0]
                root = pl.split(".")[0]
                if root not in self.env:
                    raise TranslateError("line %d: assignment to `%s` which is not a local of the translated path" % (st.line, pl))
                v = self.lean(ExprParser(st.expr).parse_all(), st.line)
                self.env[pl] = self.bind(pl, v, st)
                if "." not in pl: self._shadow_fields(pl)
            elif st.kind == "return":
                result = st
            else:
                raise TranslateError("line %d: unexpected statement" % st.line)
        if result is None:
            raise TranslateError("the selected path has no result expression")
        self._result(result)
        return self.tr

    def _shadow_fields(self, var):
        """a whole-variable (re)definition invalidates component pseudo-variables `var.f`"""
        for k in [k for k in self.env if k.startswith(var + ".")]:
            del self.env[k]

    def _collect_sites(self, st):
        toks = st.expr if st.kind in ("let", "assign", "return") else []
        for j, t in enumerate(toks):
            if t.kind == "ident" and j > 0 and toks[j - 1].text == "." and j + 1 < len(toks) and toks[j + 1].text == "(":
                self.tr.sites.append(t)

    def _result(self, st):
        ast = ExprParser(st.expr).parse_all()
        comps = {}
        line = st.line
        if ast[0] == "struct":
            for f, e in ast[2]:
                if f in comps: raise TranslateError("line %d: duplicate field %s" % (line, f))
                comps[f] = self.lean(e, line)
        elif ast[0] == "eq" or (ast[0] == "call" and ast[2] == "eq" and len(ast[3]) == 1):
            l, r = (ast[1], ast[2]) if ast[0] == "eq" else (ast[1], ast[3][0])
            if ast[0] == "eq" and l[0] == "fcall" and l[1] == "u256_cmp" and len(l[2]) == 2 and r == ("num", "0"):
                l, r = l[2]                                     # u256_cmp(&a, &b) == 0   <=>   a == b
            comps["lhs"] = self.lean(l, line); comps["rhs"] = self.lean(r, line)
        elif ast[0] == "var" and any(k.startswith(ast[1] + ".") for k in self.env):
            pref = ast[1] + "."
            for k, v in self.env.items():
                if k.startswith(pref): comps[k[len(pref):]] = v
        else:
            comps["value"] = self.lean(ast, line)
        want = self.spec.get("outputs", {})
        if set(want) != set(comps):
            raise TranslateError("structure mismatch: the result at line %d has components %s, the spec's outputs name %s"
                                 % (line, sorted(comps), sorted(want)))
        for key in comps:                                        # source order
            name = want[key]; val = comps[key]
            if val == name:
                pass                                             # the result component IS the let of that name
            else:
                if name in self.used_names:
                    raise TranslateError("line %d: output `%s` for component `%s` collides with an existing name (the result component is `%s`)"
                                         % (line, name, key, val))
                self.used_names.add(name)
                self.tr.lets.append((name, val, "L%d: result component %s" % (line, key)))
            self.tr.outputs[key] = name


def _let_name(line):
    m = re.match(r"\s*([A-Za-z_][A-Za-z0-9_']*)\s*:=", line)
    if not m:
        raise TranslateError("spec error: `%s` is not of the form `name := term`" % line)
    return m.group(1)


def translate(spec):
    item = fetch_fn(spec["source"], spec["function"])
    body = fn_body(item)
    notes = []
    counter = [0]
    path = spec.get("path", [])
    flat, done = linearise(split_stmts(body), path, counter, notes)
    if counter[0] != len(path):
        raise TranslateError("structure mismatch: the spec's path has %d entries but only %d `if`s were met on it" % (len(path), counter[0]))
    if not done:
        raise TranslateError("structure mismatch: the selected path does not end in a result expression")
    t = Translator(spec)
    tr = t.run(flat)
    tr.notes = notes
    tr.fn_sha = hashlib.sha256(" ".join(x.text for x in item.toks).encode()).hexdigest()
    tr.fn_lines = (item.toks[0].line, item.toks[-1].line)
    # every input named by the spec must be a theorem variable or a parametrisation let
    known = set(spec.get("vars", [])) | set(_let_name(l) for l in spec.get("params", []))
    for pl, v in spec.get("inputs", {}).items():
        if v not in known:
            raise TranslateError("spec error: input %s -> %s is neither in vars nor defined by params" % (pl, v))
    return tr


# ----------------------------------------------------------------------------------------------
# 5. Lean file
# ----------------------------------------------------------------------------------------------
def generate(spec):
    """returns (lean text, number of the last line of the STATEMENT, Translation)"""
    tr = translate(spec)
    carrier = spec["structure"].split()[1]
    L = []
    L.append("import Mathlib.Tactic")
    L.append("")
    L.append("-- GENERATED by vf.leangen - do not edit.  Spec: lean/%s.json" % spec["name"])
    L.append("-- statement generated from %s  fn %s  (lines %d-%d, token sha256 %s)"
             % (spec["source"], spec["function"], tr.fn_lines[0], tr.fn_lines[1], tr.fn_sha[:16]))
    for n in tr.notes:
        L.append("--   " + n)
    L.append("set_option autoImplicit false")        # a misspelt name in the spec must be an error, not a new variable
    L.append("set_option linter.unusedVariables false")
    L.append("set_option linter.unusedSimpArgs false")
    L.append("")
    binders = "{%s : Type*} [%s]" % (carrier, spec["structure"])
    if spec.get("vars"):
        binders += " (%s : %s)" % (" ".join(spec["vars"]), carrier)
    for h in spec.get("hyps", []):
        binders += " " + h
    L.append("theorem %s %s :" % (spec["name"], binders))
    names = {"params": [], "gen": [], "post": []}
    for l in spec.get("params", []):
        names["params"].append(_let_name(l)); L.append("    let %s   -- spec: input parametrisation" % l.strip())
    for n, v, c in tr.lets:
        names["gen"].append(n); L.append("    let %s := %s   -- %s" % (n, v, c))
    for l in spec.get("post", []):
        names["post"].append(_let_name(l)); L.append("    let %s   -- spec" % l.strip())
    concl = spec["conclusion"]
    concl_lines = concl if isinstance(concl, list) else [concl]
    for c in concl_lines:
        L.append("    " + c)
    stmt_end = len(L)            # errors located up to this line are errors of the STATEMENT, later ones of the PROOF
    L.append("  := by")          # on its own line: Lean reports `unsolved goals` at the `by` token
    allnames = names["params"] + names["gen"] + names["post"]
    if allnames:
        L.append("  intro " + " ".join(allnames))
    subst = {"lets": ", ".join(allnames), "gen": ", ".join(names["gen"]), "params": ", ".join(names["params"]), "post": ", ".join(names["post"])}
    for l in spec["tactic"]:
        for k, v in subst.items():
            l = l.replace("{" + k + "}", v)
        L.append("  " + l)
    L.append("")
    L.append("#print axioms %s" % spec["name"])
    return "\n".join(L) + "\n", stmt_end, tr


def load_spec(name):
    p = os.path.join(SPEC_DIR, name + ".json")
    with open(p) as f:
        spec = json.load(f)
    if spec.get("name") != name:
        raise TranslateError("spec error: %s: name field must be %r" % (p, name))
    for k in ("source", "function", "structure", "conclusion", "tactic", "outputs", "inputs"):
        if k not in spec:
            raise TranslateError("spec error: %s lacks %r" % (p, k))
    txt = " ".join(spec["tactic"])
    for bad in ("sorry", "admit", "native_decide", "axiom", "unsafe", "implemented_by", "csimp"):
        if re.search(r"\b%s\b" % bad, txt):
            raise TranslateError("spec error: tactic script contains `%s`" % bad)
    return spec


def all_names():
    return sorted(f[:-5] for f in os.listdir(SPEC_DIR) if f.endswith(".json"))


# ----------------------------------------------------------------------------------------------
# 6. runner
# ----------------------------------------------------------------------------------------------
MSG_RE = re.compile(r"^(.*?):(\d+):(\d+): (error|warning)(?:\([^)]*\))?: (.*)$")

def classify(output, returncode, stmt_end, name):
    errs = []
    for line in output.split("\n"):
        m = MSG_RE.match(line)
        if m and m.group(4) == "error":
            errs.append((int(m.group(2)), m.group(5)))
    if errs:
        if any(ln <= stmt_end for ln, _ in errs):
            return "undecided", "the generated STATEMENT does not elaborate (names used by the spec changed?)"
        if any(re.search(r"timeout|heartbeats|recursion depth|out of memory", msg) for _, msg in errs):
            return "undecided", "Lean resource limit in the proof"
        return "failed", "Lean rejects the proof of the generated statement"
    if returncode != 0:
        return "undecided", "lean exited with code %d without a located error" % returncode
    if "sorry" in output:
        return "undecided", "proof uses sorry"
    m = re.search(r"'%s' depends on axioms: \[(.*?)\]" % re.escape(name), output, re.S)
    if m:
        ax = set(a.strip() for a in m.group(1).split(",") if a.strip())
        if not ax <= ALLOWED_AXIOMS:
            return "undecided", "proof depends on non-standard axioms %s" % sorted(ax - ALLOWED_AXIOMS)
    elif ("'%s' does not depend on any axioms" % name) not in output:
        return "undecided", "axiom report missing from Lean output"
    return "proved", ""


def run_one(name, build_dir=None):
    build_dir = build_dir or BUILD_DIR
    t0 = time.time()
    res = {"name": name, "function": None, "status": "undecided", "seconds": 0.0, "lean_output": ""}
    try:
        spec = load_spec(name)
        res["function"] = "%s %s" % (spec["source"], spec["function"])
        text, stmt_end, tr = generate(spec)
    except TranslateError as e:
        res["lean_output"] = "translator: %s" % e
        res["seconds"] = round(time.time() - t0, 2)
        return res
    except Exception as e:                                  # anything unexpected is a tool problem, never a violation
        res["lean_output"] = "translator crashed: %s: %s" % (type(e).__name__, e)
        res["seconds"] = round(time.time() - t0, 2)
        return res
    os.makedirs(build_dir, exist_ok=True)
    path = os.path.join(build_dir, name + ".lean")
    with open(path, "w") as f:
        f.write(text)
    res["lean_file"] = path
    res["fn_sha256"] = tr.fn_sha
    res["statement_sha256"] = hashlib.sha256("\n".join(text.split("\n")[:stmt_end]).encode()).hexdigest()
    res["repo"] = U.REPO
    try:
        p = subprocess.run(["lean", name + ".lean"], cwd=build_dir, capture_output=True, text=True, timeout=LEAN_TIMEOUT)
        out = (p.stdout + p.stderr).strip()
        status, why = classify(out, p.returncode, stmt_end, name)
        res["status"] = status
        res["lean_output"] = (why + "\n" if why else "") + out
    except subprocess.TimeoutExpired:
        res["lean_output"] = "lean timed out after %d s" % LEAN_TIMEOUT
    except FileNotFoundError:
        res["lean_output"] = "lean executable not found"
    res["seconds"] = round(time.time() - t0, 2)
    return res


def run_all(names=None, jobs=4, build_dir=None):
    """prove the named obligations (default: all specs); returns the list of result dicts in the order of `names`"""
    from concurrent.futures import ThreadPoolExecutor
    names = list(names) if names else all_names()
    if not names: return []
    # the first Mathlib import is slow when the .olean files are not in the page cache: run the first one alone
    first = run_one(names[0], build_dir)
    with ThreadPoolExecutor(max_workers=max(1, jobs)) as ex:
        rest = list(ex.map(lambda n: run_one(n, build_dir), names[1:]))
    return [first] + rest


def exit_code(results):
    if any(r["status"] == "failed" for r in results): return 1
    if any(r["status"] != "proved" for r in results): return 2
    return 0


# ----------------------------------------------------------------------------------------------
# 7. negative check: single-operator mutants of the translated path, run through the real runner
# ----------------------------------------------------------------------------------------------
MUTATE = {"fp_add": "fp_sub", "fp_sub": "fp_add", "fp_mul": "fp_add", "fp_sqr": "fp_double", "fp_double": "fp_triple",
          "fp_triple": "fp_double", "fp_neg": "fp_double", "fp_div2": "fp_double", "a_mul_u": "fp_double", "a_mul_v": "fp_double",
          "fp_mul_u": "fp_mul", "sqr_u": "fp_sqr", "fp_inv": "fp_neg", "eq": None, "clone": None}

def mutants(name):
    """[(description, relpath, mutated file text)] - one per method-call site on the translated path"""
    spec = load_spec(name)
    tr = translate(spec)
    items = U.source_items(spec["source"])
    alltoks = [t for it in items for t in it.toks]
    out = []
    for site in tr.sites:
        new = MUTATE.get(site.text, None)
        if new is None: continue
        old = site.text
        site.text = new
        try:
            text = render(alltoks) + "\n"
        finally:
            site.text = old
        out.append(("L%d %s->%s" % (site.line, old, new), spec["source"], text))
    return out


def run_mutants(names, jobs=8, limit=None):
    """every mutant is written to a scratch overlay and checked by `python3 -m vf.leangen <name>` with VERIF_REPO=<overlay>"""
    from concurrent.futures import ThreadPoolExecutor
    work = []
    for n in names:
        ms = mutants(n)
        if limit: ms = ms[:limit]
        for k, (desc, rel, text) in enumerate(ms):
            work.append((n, k, desc, rel, text))
    root = tempfile.mkdtemp(prefix="leangen-mut-")
    def one(w):
        n, k, desc, rel, text = w
        d = os.path.join(root, "%s-%d" % (n, k))
        os.makedirs(os.path.join(d, "repo", os.path.dirname(rel)))
        with open(os.path.join(d, "repo", rel), "w") as f: f.write(text)
        env = dict(os.environ, VERIF_REPO=os.path.join(d, "repo"), VERIF_LEAN_BUILD=os.path.join(d, "build"))
        p = subprocess.run([sys.executable, "-m", "vf.leangen", n], cwd=VERIF, env=env, capture_output=True, text=True)
        try:
            r = json.loads(p.stdout.strip().split("\n")[-1])
        except Exception:
            r = {"status": "undecided", "lean_output": p.stdout + p.stderr}
        first_err = next((l for l in r.get("lean_output", "").split("\n") if ": error" in l), r.get("lean_output", "")[:200])
        return {"name": n, "mutant": desc, "status": r["status"], "exit": p.returncode, "detail": first_err[:200]}
    try:
        with ThreadPoolExecutor(max_workers=jobs) as ex:
            return list(ex.map(one, work))
    finally:
        shutil.rmtree(root, ignore_errors=True)


def main(argv):
    args = [a for a in argv if not a.startswith("--")]
    flags = [a for a in argv if a.startswith("--")]
    jobs = 4; limit = None
    for f in flags:
        if f.startswith("--jobs="): jobs = int(f.split("=")[1])
        if f.startswith("--limit="): limit = int(f.split("=")[1])
    names = all_names() if "--all" in flags else args
    if not names:
        print("usage: python3 -m vf.leangen <name>... | --all  [--jobs=N] [--print] [--mutants [--limit=K]]", file=sys.stderr)
        return 2
    if "--print" in flags:                                  # show the generated file only
        for n in names:
            print(generate(load_spec(n))[0])
        return 0
    if "--mutants" in flags:
        res = run_mutants(names, jobs=max(jobs, 8), limit=limit)
        for r in res: print(json.dumps(r, ensure_ascii=False))
        bad = [r for r in res if r["status"] != "failed"]
        print(json.dumps({"mutants": len(res), "killed": len(res) - len(bad), "not_killed": len(bad)}))
        return 0 if not bad else 1
    res = run_all(names, jobs=jobs)
    for r in res:
        print(json.dumps(r, ensure_ascii=False))
    return exit_code(res)


if __name__ == "__main__":
    sys.exit(main(sys.argv[1:]))
