"""Split a token stream into items (top level, or the inside of an impl/trait block)."""
from .rstok import Tok, match_close, seq_at, OPEN, CLOSE

ITEM_KW = {"fn", "const", "static", "struct", "enum", "impl", "trait", "type", "mod", "use", "macro_rules", "union", "extern", "global", "broadcast"}
QUALS = {"pub", "unsafe", "async", "default", "open", "closed", "uninterp", "proof", "spec", "exec", "tracked", "ghost", "axiom"}

class Item:
    def __init__(self, toks, kind, name, attrs_end, kw_idx):
        self.toks = toks          # all tokens incl. attributes
        self.kind = kind          # fn / val / struct / enum / impl / trait / type / mod / use / macro / other
        self.name = name          # identifier, or normalised header for impl
        self.attrs_end = attrs_end  # index in toks where attributes end
        self.kw_idx = kw_idx      # index of the item keyword in toks
        self.mode = None          # 'spec'/'proof' for verus ghost fns
    @property
    def key(self):
        return (self.kind, self.name)
    def __repr__(self):
        return "Item(%s %s)" % (self.kind, self.name)

def _skip_attrs(toks, i):
    while i < len(toks) and toks[i].text == "#":
        j = i + 1
        if j < len(toks) and toks[j].text == "!": j += 1
        if j < len(toks) and toks[j].text == "[":
            i = match_close(toks, j) + 1
        else:
            break
    return i

def first_brace_depth0(toks, i):
    """index of the first `{` at ()/[] depth 0 at or after i, or of the first `;` if it comes first."""
    depth = 0
    j = i
    while j < len(toks):
        t = toks[j]
        if t.kind == "punct":
            if t.text in "([": depth += 1
            elif t.text in ")]": depth -= 1
            elif depth == 0 and t.text in "{;": return j
        j += 1
    return -1

def impl_header(toks, kw, brace):
    return " ".join(t.text for t in toks[kw + 1:brace])

def split_items(toks):
    items = []
    i = 0; n = len(toks)
    while i < n:
        start = i
        i = _skip_attrs(toks, i)
        attrs_end = i - start
        # qualifiers
        j = i
        mode = None
        while j < n:
            t = toks[j]
            if t.text == "pub":
                j += 1
                if j < n and toks[j].text == "(":
                    j = match_close(toks, j) + 1
                continue
            if t.text in ("spec", "proof"):
                mode = t.text
            if t.text == "const" and j + 1 < n and toks[j + 1].text in ("fn", "unsafe", "async"):
                j += 1; continue
            if t.text == "extern" and j + 1 < n and toks[j + 1].kind == "str":
                j += 2; continue
            if t.text in QUALS and t.text not in ITEM_KW:
                j += 1
                if j < n and toks[j].text == "(" and toks[j - 1].text in ("spec", "open", "closed"):
                    j = match_close(toks, j) + 1
                continue
            break
        if j >= n:
            raise ValueError("dangling tokens at end: %r" % toks[start:start + 5])
        kw = toks[j].text
        if kw == "broadcast":
            # broadcast proof fn / broadcast group / broadcast use
            if toks[j + 1].text == "use":
                e = j
                while toks[e].text != ";": e += 1
                it = Item(toks[start:e + 1], "use", "", attrs_end, j - start); items.append(it); i = e + 1; continue
            if toks[j + 1].text == "group":
                b = first_brace_depth0(toks, j); e = match_close(toks, b)
                it = Item(toks[start:e + 1], "other", toks[j + 2].text, attrs_end, j - start); it.mode = "proof"; items.append(it); i = e + 1; continue
            j += 1
            while toks[j].text in QUALS:
                if toks[j].text in ("spec", "proof"): mode = toks[j].text
                j += 1
            kw = toks[j].text
        if kw == "fn":
            name = toks[j + 1].text
            b = first_brace_depth0(toks, j)
            if b < 0: raise ValueError("fn %s without body" % name)
            e = b if toks[b].text == ";" else match_close(toks, b)
            it = Item(toks[start:e + 1], "fn", name, attrs_end, j - start); it.mode = mode
            items.append(it); i = e + 1
        elif kw in ("const", "static"):
            k = j + 1
            if toks[k].text == "mut": k += 1
            name = toks[k].text
            # ends at `;` at depth 0 (all brackets)
            depth = 0; e = k
            while True:
                t = toks[e]
                if t.kind == "punct":
                    if t.text in OPEN: depth += 1
                    elif t.text in CLOSE: depth -= 1
                    elif t.text == ";" and depth == 0: break
                e += 1
            it = Item(toks[start:e + 1], "val", name, attrs_end, j - start); items.append(it); i = e + 1
        elif kw in ("struct", "enum", "union", "trait", "mod"):
            name = toks[j + 1].text
            b = first_brace_depth0(toks, j)
            if toks[b].text == ";":
                e = b
            else:
                e = match_close(toks, b)
                # tuple struct `struct A(u8);` handled by ';' first; struct with where … fine
            it = Item(toks[start:e + 1], "struct" if kw == "union" else kw, name, attrs_end, j - start); items.append(it); i = e + 1
        elif kw == "impl":
            b = first_brace_depth0(toks, j)
            e = match_close(toks, b)
            it = Item(toks[start:e + 1], "impl", impl_header(toks, j, b), attrs_end, j - start)
            it.body_open = b - start; items.append(it); i = e + 1
        elif kw in ("type", "use", "global", "extern"):
            e = j
            depth = 0
            while True:
                t = toks[e]
                if t.kind == "punct":
                    if t.text in OPEN: depth += 1
                    elif t.text in CLOSE: depth -= 1
                    elif t.text == ";" and depth == 0: break
                e += 1
            name = toks[j + 1].text if kw == "type" else ""
            it = Item(toks[start:e + 1], kw if kw == "type" else "use", name, attrs_end, j - start); items.append(it); i = e + 1
        elif kw == "assume_specification":
            e = j
            depth = 0
            while True:
                t = toks[e]
                if t.kind == "punct":
                    if t.text in OPEN: depth += 1
                    elif t.text in CLOSE: depth -= 1
                    elif t.text == ";" and depth == 0: break
                e += 1
            it = Item(toks[start:e + 1], "other", "assume_specification", attrs_end, j - start); it.mode = "proof"; items.append(it); i = e + 1
        elif toks[j].kind == "ident" and j + 1 < n and toks[j + 1].text == "!":
            # macro invocation item: name!{...} or name!(...);
            k = j + 2
            if toks[k].kind == "ident": k += 1
            e = match_close(toks, k)
            if e + 1 < n and toks[e + 1].text == ";": e += 1
            it = Item(toks[start:e + 1], "macro", toks[j].text, attrs_end, j - start); items.append(it); i = e + 1
        else:
            raise ValueError("cannot split item at line %d near %r" % (toks[j].line, " ".join(t.text for t in toks[j:j + 8])))
    return items

def impl_members(item):
    """items inside an impl/trait block; returns (open_idx, close_idx, members) relative to item.toks"""
    b = first_brace_depth0(item.toks, item.kw_idx)
    e = match_close(item.toks, b)
    return b, e, split_items(item.toks[b + 1:e])
