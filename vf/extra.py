"""Evidence writing, thorough-tier canaries, replay, witness search."""
import os, re, json, time, subprocess, concurrent.futures as cf
from . import unit as U, run as R
from .rstok import tokenize, render, match_close
from .items import split_items, first_brace_depth0, impl_members

VERIF = U.VERIF

def scan_assumptions(text):
    pats = {"assume(": r"\bassume\s*\(", "admit(": r"\badmit\s*\(", "external_body": r"external_body",
            "assume_specification": r"\bassume_specification\b", "verifier::external": r"verifier::external\b(?!_)",
            "axiom": r"\baxiom\b", "exec_allows_no_decreases_clause": r"exec_allows_no_decreases_clause",
            "uninterp": r"\buninterp\b"}
    return {k: len(re.findall(p, text)) for k, p in pats.items()}

def write_evidence(pid, tier, seed, units, results, known_hit, violations, undecided, tool, extra, wall):
    obligations = 0; discharged = 0; smt_ms = 0
    per_unit = {}; fns = []; samples = []; assumptions = []; trusted = set()
    for u in units:
        r = results.get(u)
        if r is None: continue
        ok = sum(1 for f in r.funcs if f["success"])
        obligations += len(r.funcs); discharged += ok; smt_ms += r.smt_ms
        b = r.built
        pu = {"status": r.status, "verus_items": len(r.funcs), "verus_items_ok": ok, "verus_verified": r.verified,
              "verus_errors": r.errors, "smt_ms": r.smt_ms, "wall_s": round(r.wall, 2), "checker_cmd": getattr(r, "cmd", ""),
              "retried_with_10x_rlimit": bool(getattr(r, "retried", False))}
        if b is not None:
            scan = scan_assumptions(b.text)
            pu.update({"generated_file": r.gen_path, "rewrite_rule_sites": b.rewrites, "weave_notes": b.notes,
                       "contract_clauses_injected": b.clauses, "assumption_scan": scan,
                       "stubs": b.stubs, "ghost_fns": len(b.ghost_fns),
                       "selfcheck_strip_equals_source": b.selfcheck})
            for f in b.real_fns:
                t = next((x for x in r.funcs if x["function"].split("::")[-1] == f["fn"].split("::")[-1] and x["mode"] == "exec"), None)
                fns.append({"unit": u, "fn": f["fn"], "source": "%s:%d" % (f["file"], f["line"]), "contract_clauses": f["clauses"],
                            "solver_ms": t["ms"] if t else None, "discharged": bool(t and t["success"])})
            for s in b.stubs:
                if s.get("status", "").startswith("assumed"):
                    assumptions.append("unit %s: assumed contract on %s" % (u, s["fn"]))
                else:
                    assumptions.append("unit %s: %s seen through its contract (%s)" % (u, s["fn"], s.get("status")))
            for a in b.template.meta["assume"]:
                assumptions.append("unit %s: %s" % (u, a))
            for k, v in scan.items():
                if v: trusted.add("%s x%d in unit %s" % (k, v, u))
        per_unit[u] = pu
        for f in r.funcs[:3]:
            samples.append({"unit": u, "verus_item": f["function"], "mode": f["mode"], "ms": f["ms"], "success": f["success"]})
    for (u, e) in violations:
        samples.append({"failed_obligation": e["obligation"]})
    obligations += extra.get("obligations", 0); discharged += extra.get("discharged", 0)
    tabs = extra.get("tables", [])
    obligations += sum(t.get("entries", 0) for t in tabs); discharged += sum(t.get("checked", 0) - t.get("nbad", len(t.get("bad", []))) for t in tabs if "checked" in t)
    lean = extra.get("lean", [])
    obligations += len(lean); discharged += sum(1 for l in lean if l["status"] == "proved")
    cov = {"obligations": obligations, "discharged": discharged,
           "checker_cmd": "; ".join(sorted(set(p.get("checker_cmd", "") for p in per_unit.values()))) or "verus <unit>.rs",
           "trusted_base": sorted(trusted) + ["Verus 0.2026.09.13 + bundled Z3", "rustc front end", "vstd specifications", "extractor/weaver in /verif/vf (self-check: strip(generated)==extracted source tokens)"],
           "obligation_definition": "one obligation = one Verus verification item (an exec fn body with all its contract clauses, loop invariants, overflow/index/unwrap side conditions; a proof lemma; a spec fn termination check) as listed in Verus's function-breakdown" + (" + thorough-tier extras" if extra else ""),
           "functions_under_contract": fns, "units": per_unit, "samples": samples[:40],
           "solver_ms_total": smt_ms,
           "known_findings_reported": [k["id"] for k, e in known_hit],
           "undecided": [{"unit": u, "msg": e["msg"], "fn": e["owner"]} for u, e in undecided],
           "tooling_errors": [{"unit": u, "msg": str(m)[:300]} for u, m in tool]}
    if extra.get("report"): cov["thorough"] = extra.get("report", {})
    if lean:
        cov["lean_obligations"] = [{"name": l["name"], "function": l["function"], "status": l["status"], "seconds": l["seconds"], "back_end": "Lean 4 + Mathlib (ring / field_simp)",
                                    "statement_sha256": l.get("statement_sha256")} for l in lean]
        cov["trusted_base"].append("Lean 4.33 kernel + Mathlib; vf/leangen.py translator (straight-line field code -> let-chain); the step from the generated ring identities to the Verus contract of the formula functions is NOT machine-checked")
    if extra.get("carve_runs"): cov["known_finding_rederivation"] = extra["carve_runs"]
    if tabs: cov["table_ground_evaluation"] = [dict(t, back_end="exhaustive ground evaluation (python big integers, tools/check_tables.py); each entry counts as one obligation") for t in tabs]
    ev = {"property_id": pid, "tier": tier, "seed": seed, "level": "proof", "coverage": cov,
          "assumptions": sorted(set(assumptions)), "wall_s": round(wall, 2), "violations": len(violations)}
    # a run against a scratch overlay (VERIF_REPO set: seeded-change evaluation) must not overwrite the evidence of /repo
    evdir = os.path.join(VERIF, "evidence") if os.environ.get("VERIF_REPO", "/repo") == "/repo" else os.path.join(VERIF, "build", "overlay-evidence")
    os.makedirs(evdir, exist_ok=True)
    json.dump(ev, open(os.path.join(evdir, pid + ".json"), "w"), indent=1)

# ---------------------------------------------------------------- canaries

def _insert_false_asserts(built):
    """vacuity canary text: assert(false) at the start of every real fn body and of every loop body."""
    toks, tail = tokenize(built.text)
    # locate the verus! { ... } block
    lines = built.text.split("\n")
    out_sites = []
    # work per real range on text lines: cheap approach — token-level over the whole file
    from . import weave as W
    inserts = []  # token index after which to insert
    real_lines = set()
    for r in built.ranges:
        if r["real"]:
            for l in range(r["start"], r["end"] + 1): real_lines.add(l)
    # recompute token line numbers in generated text
    i = 0
    n = len(toks)
    def in_real(t): return t.line in real_lines
    k = 0
    while k < n:
        t = toks[k]
        if t.kind == "ident" and t.text == "fn" and in_real(t):
            name = toks[k + 1].text
            b = first_brace_depth0(toks, k)
            if b >= 0 and toks[b].text == "{":
                # Verus header statements `hide(f);` / `reveal(f);` must stay first in the body: probe after them
                ins = b
                while ins + 2 < n and toks[ins + 1].kind == "ident" and toks[ins + 1].text in ("hide", "reveal", "reveal_with_fuel") and toks[ins + 2].text == "(":
                    e2 = match_close(toks, ins + 2)
                    if e2 is None or toks[e2 + 1].text != ";": break
                    ins = e2 + 1
                inserts.append((ins, "fn " + name))
                e = match_close(toks, b)
                q = b + 1
                while q < e:
                    x = toks[q]
                    if x.kind == "ident" and x.text == "proof" and toks[q + 1].text == "{":
                        q = match_close(toks, q + 1) + 1; continue
                    if x.kind == "ident" and x.text in ("while", "for", "loop") and toks[q - 1].text != ".":
                        lb = first_brace_depth0(toks, q + 1)
                        if lb >= 0 and toks[lb].text == "{" and lb < e:
                            inserts.append((lb, "loop in " + name))
                    q += 1
                k = b + 1; continue
        k += 1
    pos = {b: what for b, what in inserts}
    out = []
    for idx, t in enumerate(toks):
        out.append(t.ws + t.text)
        if idx in pos:
            out.append(" proof { assert(false); } /*CANARY:%s*/" % pos[idx])
    return "".join(out) + tail, [pos[b] for b in sorted(pos)]     # one probe per brace (a site can be reached twice by the scan)

def vacuity_canary(unit, pid=None):
    sites = []
    def ov(built):
        txt, s = _insert_false_asserts(built)
        sites.extend(s)
        return txt
    r = R.run_unit(unit, True, None, "-vacuity", ov, 8, None, pid)
    if r.built is None:
        return {"unit": unit, "ok": False, "why": "build failed: %s" % r.tool_errors}
    text = r.built.text.split("\n")
    hit = set()
    for e in r.failures:
        if "assertion failed" in e["msg"] and 0 < e["line"] <= len(text) and "CANARY" in text[e["line"] - 1]:
            m = re.search(r"/\*CANARY:(.*?)\*/", text[e["line"] - 1])
            # several canaries may share a line; count by column is overkill: count occurrences
            hit.add((e["line"], e["raw"]))
    n_expected = len(sites)
    n_hit = len(hit)
    # a unit without real functions (pure spec vocabulary: sm2_math, sm9_math, ...) has no site to probe
    no_real = not any(rf for rf in (r.built.real_fns or []))
    return {"unit": unit, "sites": n_expected, "failed_as_expected": n_hit, "ok": (n_hit >= n_expected and n_expected > 0) or (n_expected == 0 and no_real),
            "tool_errors": r.tool_errors[:3]}

def load_canaries(unit):
    p = os.path.join(VERIF, "canaries", unit + ".json")
    if not os.path.exists(p): return []
    return json.load(open(p))

def mutation_canary(unit, c, idx, pid=None):
    """apply one textual mutation to the *source* (in memory) and require the unit to be rejected."""
    rel = c["file"]
    path = os.path.join(U.REPO, rel)
    src = open(path).read().replace("\r\n", "\n")
    c = dict(c); c["find"] = c["find"].replace("\r\n", "\n"); c["replace"] = c["replace"].replace("\r\n", "\n")
    if src.count(c["find"]) < 1:
        return {"name": c["name"], "ok": None, "why": "pattern not found in current source (code changed); skipped"}
    mutated = src.replace(c["find"], c["replace"], 1)
    tmp = os.path.join(R.BUILD, "mut-%s-%d" % (unit, idx))
    os.makedirs(os.path.join(tmp, os.path.dirname(rel)), exist_ok=True)
    # private REPO overlay: only the mutated file differs
    env_repo = tmp
    open(os.path.join(tmp, rel), "w").write(mutated)
    code = ("import sys,json; sys.path.insert(0,%r); import os; os.environ['VERIF_REPO']=%r\n"
            "from vf import unit as U, run as R\n"
            "U.REPO=%r\n"
            "r=R.run_unit(%r, True, None, %r, None, 4, None, %r)\n"
            "print(json.dumps({'status':r.status,'fails':[e['obligation'] for e in r.failures][:5],'tool':[str(x)[:200] for x in r.tool_errors][:3]}))\n"
            % (VERIF, env_repo, env_repo, unit, "-mut%d" % idx, pid))
    # files other than the mutated one are read from the real repo: symlink them
    for other in c.get("also_files", []):
        os.makedirs(os.path.join(tmp, os.path.dirname(other)), exist_ok=True)
        if not os.path.exists(os.path.join(tmp, other)):
            os.symlink(os.path.join(U.REPO, other), os.path.join(tmp, other))
    p = subprocess.run(["python3", "-c", code], capture_output=True, text=True)
    try:
        j = json.loads(p.stdout.strip().split("\n")[-1])
    except Exception:
        return {"name": c["name"], "ok": None, "why": "runner error: " + p.stderr[-300:]}
    ok = j["status"] in ("fail",) or (j["status"] == "undecided" and c.get("undecided_ok"))
    return {"name": c["name"], "ok": ok, "status": j["status"], "fails": j["fails"], "tool": j["tool"]}

def seeded_canaries(pid, units):
    """regression canaries: every kept seeded change of this property that the check is recorded to catch
    (seeded/<pid>-X/meta.json "detected": true) is applied to a scratch overlay of the current sources and must be rejected."""
    import glob, shutil
    out = []
    for d in sorted(glob.glob(os.path.join(VERIF, "seeded", pid + "-*"))):
        name = os.path.basename(d)
        try: meta = json.load(open(os.path.join(d, "meta.json")))
        except Exception: continue
        # only seeds that the final machinery is recorded to catch (tools/seed_status.py writes status_now)
        if meta.get("status_now", "caught" if meta.get("detected") else "") != "caught": continue
        patch = os.path.join(d, "patch.diff")
        files = re.findall(r"^\+\+\+ b/(\S+)", open(patch, errors="replace").read(), re.M)
        ov = os.path.join(R.BUILD, "seedov-" + name)
        shutil.rmtree(ov, ignore_errors=True); os.makedirs(ov)
        ls = subprocess.run("git ls-files | grep -E '\\.rs$'", shell=True, cwd=U.REPO, capture_output=True, text=True).stdout
        subprocess.run(["rsync", "-a", "--files-from=-", U.REPO + "/", ov + "/"], input=ls, text=True, capture_output=True)
        # GIT_CEILING_DIRECTORIES: the overlay sits inside /verif's own repository; without it `git apply` would silently
        # skip every path (they are outside the current subdirectory of that repository)
        ap = subprocess.run(["git", "apply", "--whitespace=nowarn", patch], cwd=ov, capture_output=True, text=True,
                            env=dict(os.environ, GIT_CEILING_DIRECTORIES=os.path.dirname(ov)))
        changed = any(open(os.path.join(ov, f), "rb").read() != open(os.path.join(U.REPO, f), "rb").read() for f in files if os.path.exists(os.path.join(ov, f)) and os.path.exists(os.path.join(U.REPO, f)))
        if ap.returncode != 0 or not changed:
            out.append({"name": name, "ok": None, "why": "patch no longer applies to the current source; skipped"})
            shutil.rmtree(ov, ignore_errors=True); continue
        # decided exactly as a user would see it: the quick check of this property against the overlay
        pr = subprocess.run([os.path.join(VERIF, "check"), pid, "--tier", "quick"], capture_output=True, text=True,
                            env=dict(os.environ, VERIF_REPO=ov, VERIF_TIER="quick"))
        lines = [l for l in pr.stdout.split("\n") if l.startswith(("VIOLATION", "  failed obligation", "UNDECIDED"))]
        res = {"name": name, "ok": pr.returncode == 1, "exit": pr.returncode, "report": [l[:200] for l in lines[:4]]}
        shutil.rmtree(ov, ignore_errors=True)
        out.append(res)
    return out

def thorough(pid, units, results, seed):
    rep = {"vacuity": [], "mutation_canaries": []}
    out = {"violations": [], "tool": [], "obligations": 0, "discharged": 0, "report": rep}
    with cf.ThreadPoolExecutor(max_workers=4) as ex:
        vac = list(ex.map(lambda u: vacuity_canary(u, pid), units))
    for v in vac:
        rep["vacuity"].append(v)
        out["obligations"] += 1
        if v["ok"]: out["discharged"] += 1
        else: out["tool"].append((v["unit"], "vacuity canary: only %s of %s assert(false) sites were refuted — a contract may be contradictory" % (v.get("failed_as_expected"), v.get("sites"))))
    jobs = []
    for u in units:
        for i, c in enumerate(load_canaries(u)):
            if pid in c.get("properties", [pid]):
                jobs.append((u, c, i))
    with cf.ThreadPoolExecutor(max_workers=4) as ex:
        res = list(ex.map(lambda j: (j[0], mutation_canary(*j, pid=pid)), jobs))
    for u, m in res:
        m["unit"] = u
        rep["mutation_canaries"].append(m)
        if m["ok"] is None: continue
        out["obligations"] += 1
        if m["ok"]: out["discharged"] += 1
        else: out["tool"].append((u, "mutation canary `%s` was NOT rejected (status %s)" % (m["name"], m.get("status"))))
    rep["seeded_canaries"] = seeded_canaries(pid, units)
    for m in rep["seeded_canaries"]:
        if m["ok"] is None: continue
        out["obligations"] += 1
        if m["ok"]: out["discharged"] += 1
        else: out["tool"].append(("seeded", "seeded change %s (recorded as detected) was NOT rejected: exit %s %s" % (m["name"], m.get("exit"), m.get("report"))))
    sanity = spec_sanity(pid, seed)
    if sanity is not None:
        rep["spec_sanity"] = sanity
        if sanity.get("disagreements"):
            for d in sanity["disagreements"][:3]:
                out["tool"].append(("spec-sanity", "real code disagrees with independent oracle although real==spec is proved: %s" % json.dumps(d)[:300]))
    return out

def spec_sanity(pid, seed):
    return None

def witness_search(pid, unit, e, seed):
    return {"found": False, "note": "Verus gives no counterexample; no witness search is implemented for this obligation"}

def replay(pid, path, units):
    rec = json.load(open(path))
    u = rec["unit"]
    if not os.path.exists(os.path.join(VERIF, "units", u + ".rs")) or str(rec.get("obligation", "")).startswith(("lean::", "table::")):
        # a Lean / table-evaluation obligation: replay = decide the property again and look for the same obligation
        pr = subprocess.run([os.path.join(VERIF, "check"), pid, "--tier", "quick"], capture_output=True, text=True)
        same = rec.get("obligation", "") in pr.stdout
        if pr.returncode == 1 and same:
            print("VIOLATION property=%s replay=%s%s" % (pid, path, "" if (rec.get("witness") or {}).get("found") else " no-failing-input-found"))
            print("  obligation still fails: %s" % rec["obligation"]); return 1
        if pr.returncode == 2:
            print("UNDECIDED property=%s replay" % pid); return 2
        print("OK replay: obligation %s is discharged on the current tree" % rec["obligation"]); return 0
    r = R.run_unit(u, True, None, "-replay", None, 16, None, pid)
    still = [e for e in r.failures if e["obligation"] == rec["obligation"]]
    if still:
        print("VIOLATION property=%s replay=%s no-failing-input-found" % (pid, path))
        print("  obligation still fails: %s" % rec["obligation"])
        print(still[0]["raw"])
        return 1
    if r.status in ("tool", "undecided"):
        print("UNDECIDED property=%s replay: %s" % (pid, r.tool_errors[:2]))
        return 2
    print("OK replay: obligation %s is discharged on the current tree" % rec["obligation"])
    return 0
