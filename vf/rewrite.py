"""Declared, local rewrite rules applied to the tokens extracted from /repo before they are
handed to Verus.  Every rule counts the sites it touched (reported in the evidence file).

 vis     drop `pub`, `pub(crate)`, `pub(super)`, `pub(in ..)`
 static  `static NAME` -> `const NAME` at item level
 attr    drop attributes other than #[derive(..)]
 be      E.to_be_bytes() -> to_be_bytes_shim(E) is NOT done textually; instead method calls
         `.to_be_bytes()` / `uN::from_be_bytes(` are renamed to shim names that the unit's
         spec section defines as external_body fns whose body is the original call.
 mutfull `&mut V[..]` -> `V.as_mut_slice()`
"""
from .rstok import Tok, match_close, seq_at

def _copy(t):
    n = Tok(t.text, t.ws, t.kind, t.line); n.ann = None; return n

def apply(toks, rules, counts):
    out = [_copy(t) for t in toks]
    for r in rules:
        f = RULES[r]
        out, n = f(out)
        counts[r] = counts.get(r, 0) + n
    return out

def r_vis(toks):
    out = []; n = 0; i = 0
    while i < len(toks):
        t = toks[i]
        if t.kind == "ident" and t.text == "pub":
            n += 1
            j = i + 1
            if j < len(toks) and toks[j].text == "(" and toks[j + 1].text in ("crate", "super", "in", "self"):
                j = match_close(toks, j) + 1
            if j < len(toks) and toks[j].ws == "":
                toks[j].ws = t.ws
            elif j < len(toks):
                toks[j].ws = t.ws
            i = j; continue
        out.append(t); i += 1
    return out, n

def r_static(toks):
    n = 0
    depth = 0
    for i, t in enumerate(toks):
        if t.kind == "punct":
            if t.text in "{([": depth += 1
            elif t.text in "})]": depth -= 1
        elif depth == 0 and t.kind == "ident" and t.text == "static" and toks[i + 1].kind == "ident":
            t.text = "const"; n += 1
    return toks, n

def r_attr(toks):
    out = []; n = 0; i = 0
    while i < len(toks):
        t = toks[i]
        if t.text == "#" and i + 1 < len(toks) and (toks[i + 1].text == "[" or (toks[i + 1].text == "!" and toks[i + 2].text == "[")):
            j = i + 1
            if toks[j].text == "!": j += 1
            e = match_close(toks, j)
            if toks[j + 1].text == "derive":
                out += toks[i:e + 1]
            else:
                n += 1
                if e + 1 < len(toks): toks[e + 1].ws = t.ws
            i = e + 1; continue
        out.append(t); i += 1
    return out, n

def _rename_method(name, new):
    def f(toks):
        n = 0
        for i, t in enumerate(toks):
            if t.kind == "ident" and t.text == name and i > 0 and toks[i - 1].text in (".", ":"):
                pass
        return toks, n
    return f

def r_mutfull(toks):
    # `& mut IDENT [ .. ]`  ->  `IDENT . as_mut_slice ( )`
    out = []; n = 0; i = 0
    while i < len(toks):
        if (toks[i].text == "&" and i + 6 < len(toks) and toks[i + 1].text == "mut" and toks[i + 2].kind == "ident"
                and toks[i + 3].text == "[" and seq_at(toks, i + 4, "..") and toks[i + 6].text == "]"):
            v = toks[i + 2]; v.ws = toks[i].ws
            out.append(v)
            for s in (".", "as_mut_slice", "(", ")"):
                out.append(Tok(s, "", "ident" if s[0].isalpha() else "punct", v.line))
            n += 1; i += 7; continue
        out.append(toks[i]); i += 1
    return out, n

def r_derive_drop(toks):
    """drop #[derive(..)] too (for types whose derives Verus cannot process)"""
    out = []; n = 0; i = 0
    while i < len(toks):
        t = toks[i]
        if t.text == "#" and i + 2 < len(toks) and toks[i + 1].text == "[" and toks[i + 2].text == "derive":
            e = match_close(toks, i + 1); n += 1
            if e + 1 < len(toks): toks[e + 1].ws = t.ws
            i = e + 1; continue
        out.append(t); i += 1
    return out, n

def _recv_start(toks, dot):
    """index of the first token of the postfix-chain receiver that ends right before toks[dot] ('.')"""
    i = dot - 1
    while True:
        t = toks[i]
        if t.text in (")", "]"):
            # find matching opener backwards
            depth = 0; j = i
            while True:
                x = toks[j]
                if x.kind == "punct":
                    if x.text in ")]}": depth += 1
                    elif x.text in "([{":
                        depth -= 1
                        if depth == 0: break
                j -= 1
            i = j
            p = toks[i - 1]
            if p.kind in ("ident",) or p.text in (")", "]"):
                i -= 1; continue
            return i
        if t.kind in ("ident", "num", "str"):
            p = toks[i - 1] if i > 0 else None
            if p is not None and p.text == "." and not (toks[i - 2].text == "." and toks[i - 1].glued):
                i -= 2; continue
            if p is not None and p.text == ":" and toks[i - 2].text == ":":
                i -= 3; continue
            return i
        return i + 1

def _mk(text, ws, like):
    return Tok(text, ws, "ident" if (text[0].isalpha() or text[0] == "_") else "punct", like.line)

def r_be(toks):
    """E.to_be_bytes() -> shim_to_be_u32(E);  uN::from_be_bytes(A[.try_into().unwrap()]) -> shim_from_be_uN(&A)"""
    n = 0
    changed = True
    while changed:
        changed = False
        for i, t in enumerate(toks):
            if t.kind == "ident" and t.text == "to_be_bytes" and toks[i - 1].text == "." and toks[i + 1].text == "(" and toks[i + 2].text == ")":
                s = _recv_start(toks, i - 1)
                recv = toks[s:i - 1]
                ws = recv[0].ws; recv[0].ws = ""
                new = [_mk("shim_to_be_u32", ws, t), _mk("(", "", t)] + recv + [_mk(")", "", t)]
                toks[s:i + 3] = new; n += 1; changed = True; break
            if (t.kind == "ident" and t.text == "from_be_bytes" and i >= 3 and toks[i - 1].text == ":" and toks[i - 2].text == ":"
                    and toks[i - 3].text in ("u32", "u64") and toks[i + 1].text == "("):
                ty = toks[i - 3].text
                e = match_close(toks, i + 1)
                args = toks[i + 2:e]
                tail = [x.text for x in args[-8:]]
                if tail == [".", "try_into", "(", ")", ".", "unwrap", "(", ")"]:
                    args = args[:-8]
                ws = toks[i - 3].ws
                if args: args[0].ws = ""
                new = [_mk("shim_from_be_" + ty, ws, t), _mk("(", "", t), _mk("&", "", t)] + args + [_mk(")", "", t)]
                toks[i - 3:e + 1] = new; n += 1; changed = True; break
    return toks, n

def r_constfold(toks):
    """inside `const NAME: T = ...;` items fold literal-only arithmetic (e.g. `(1 << 32) - 1`) to a literal:
    Verus would otherwise demand an overflow proof inside a const initialiser."""
    if not (len(toks) > 2 and toks[0].text == "const" and toks[1].kind == "ident" and toks[1].text != "fn"):
        return toks, 0
    try:
        eq = next(i for i, t in enumerate(toks) if t.text == "=" and toks[i + 1].text != "=")
    except StopIteration:
        return toks, 0
    out = toks[:eq + 1]; n = 0
    i = eq + 1
    OPS = set("<>+-*|&()")
    while i < len(toks):
        t = toks[i]
        if t.kind == "num" or t.text == "(":
            j = i; depth = 0
            while j < len(toks) and (toks[j].kind == "num" or (toks[j].kind == "punct" and toks[j].text in OPS)):
                if toks[j].text == "(": depth += 1
                if toks[j].text == ")":
                    if depth == 0: break
                    depth -= 1
                j += 1
            seg = toks[i:j]
            if len(seg) > 1 and any(x.kind == "punct" and x.text in "<>+-*|&" for x in seg):
                import re as _re
                expr = "".join(_re.sub(r"(?<=[0-9a-fA-F_])(u8|u16|u32|u64|usize|i32|i64)$", "", x.text).replace("_", "") if x.kind == "num" else x.text for x in seg)
                try:
                    v = eval(expr, {"__builtins__": {}})
                    if isinstance(v, int) and 0 <= v < (1 << 64):
                        out.append(Tok(hex(v), seg[0].ws, "num", seg[0].line)); n += 1; i = j; continue
                except Exception:
                    pass
        out.append(t); i += 1
    return out, n

def r_cratepath(toks):
    """`crate::a::b::NAME` / `self::a::NAME` -> `NAME` (the generated file is one flat module)"""
    out = []; n = 0; i = 0
    while i < len(toks):
        t = toks[i]
        if t.kind == "ident" and t.text in ("crate",) and i + 2 < len(toks) and seq_at(toks, i + 1, "::"):
            j = i
            while j + 3 < len(toks) and toks[j].kind == "ident" and seq_at(toks, j + 1, "::") and toks[j + 3].kind == "ident" and seq_at(toks, j + 4, "::") if j + 5 < len(toks) else False:
                j += 3
            # now toks[j] :: toks[j+3] is the last segment pair; drop everything up to toks[j+3]
            last = toks[j + 3]
            last.ws = t.ws
            out.append(last); n += 1; i = j + 4; continue
        out.append(t); i += 1
    return out, n

def r_asserteq(toks):
    """`assert_eq!(A, B)` -> `assert!((A) == (B))`, `assert_ne!` likewise (Verus has no spec for the panic machinery of assert_eq)"""
    out = []; n = 0; i = 0
    while i < len(toks):
        t = toks[i]
        if t.kind == "ident" and t.text in ("assert_eq", "assert_ne") and i + 2 < len(toks) and toks[i + 1].text == "!" and toks[i + 2].text == "(":
            e = match_close(toks, i + 2)
            args = toks[i + 3:e]
            depth = 0; cut = None
            for k, x in enumerate(args):
                if x.kind == "punct":
                    if x.text in "([{": depth += 1
                    elif x.text in ")]}": depth -= 1
                    elif x.text == "," and depth == 0 and cut is None: cut = k
            if cut is not None:
                a = args[:cut]; b = args[cut + 1:]
                # a trailing message argument is dropped
                depth = 0
                for k, x in enumerate(b):
                    if x.kind == "punct":
                        if x.text in "([{": depth += 1
                        elif x.text in ")]}": depth -= 1
                        elif x.text == "," and depth == 0: b = b[:k]; break
                op = "==" if t.text == "assert_eq" else "!="
                new = [_mk("assert", t.ws, t), _mk("!", "", t), _mk("(", "", t), _mk("(", "", t)] + a + [_mk(")", "", t), _mk(op[0], " ", t), _mk(op[1], "", t), _mk("(", " ", t)] + b + [_mk(")", "", t), _mk(")", "", t)]
                out += new; n += 1; i = e + 1; continue
        out.append(t); i += 1
    return out, n

def r_cfg(toks):
    """`#[cfg(gm_rs_verif)] <statement or item>` and `#[cfg(test)] ...`: the guard is OFF in the build that ships, so the
    guarded statement/item is removed together with its attribute (dropping only the attribute would switch the hook on)."""
    out = []; n = 0; i = 0
    while i < len(toks):
        t = toks[i]
        if (t.text == "#" and i + 6 < len(toks) and toks[i + 1].text == "[" and toks[i + 2].text == "cfg" and toks[i + 3].text == "("
                and toks[i + 4].text in ("gm_rs_verif", "test") and toks[i + 5].text == ")" and toks[i + 6].text == "]"):
            j = i + 7
            # skip further attributes
            while j < len(toks) and toks[j].text == "#" and toks[j + 1].text == "[":
                j = match_close(toks, j + 1) + 1
            depth = 0; k = j
            while k < len(toks):
                x = toks[k]
                if x.kind == "punct":
                    if x.text in "([{": depth += 1
                    elif x.text in ")]}":
                        depth -= 1
                        if depth == 0 and x.text == "}":
                            # block item/statement ends here unless followed by `;`
                            if k + 1 < len(toks) and toks[k + 1].text == ";": k += 1
                            break
                    elif x.text == ";" and depth == 0: break
                k += 1
            if k + 1 < len(toks): toks[k + 1].ws = t.ws
            n += 1; i = k + 1; continue
        out.append(t); i += 1
    return out, n

RULES = {"cfg": r_cfg, "asserteq": r_asserteq, "cratepath": r_cratepath, "constfold": r_constfold, "be": r_be, "vis": r_vis, "static": r_static, "attr": r_attr, "mutfull": r_mutfull, "noderive": r_derive_drop}

def apply_text(toks, pairs, counts):
    """unit-declared token-sequence replacements (//@rewrite-text A ==> B): constructs outside the Verus subset are
    replaced by calls to shims whose body is the replaced expression; every site is counted."""
    from .rstok import tokenize
    for a, b in pairs:
        at, _ = tokenize(a); bt, _ = tokenize(b)
        pat = [t.text for t in at]
        i = 0; out = []; n = 0
        while i < len(toks):
            if [t.text for t in toks[i:i + len(pat)]] == pat:
                ws = toks[i].ws
                for k, t in enumerate(bt):
                    nt = Tok(t.text, ws if k == 0 else t.ws, t.kind, toks[i].line); out.append(nt)
                n += 1; i += len(pat); continue
            out.append(toks[i]); i += 1
        toks = out
        key = "text:" + a
        counts[key] = counts.get(key, 0) + n
    return toks
