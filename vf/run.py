"""Run Verus on a built unit, classify the outcome, map failures to obligation ids."""
import os, re, json, subprocess, time, hashlib
from . import unit as U

VERIF = U.VERIF
BUILD = os.path.join(VERIF, "build")

VERIF_FAIL = [
    r"postcondition not satisfied", r"precondition not satisfied", r"precondition not met", r"requires not satisfied", r"assertion failed", r"assertion failure",
    r"invariant not satisfied", r"possible arithmetic (under|over)flow", r"possible bit shift (under|over)flow",
    r"possible division by zero", r"decreases not satisfied", r"could not prove termination", r"loop invariant",
    r"unreachable", r"panic", r"possible truncation", r"failed to satisfy", r"may fail to meet", r"cannot prove",
    r"cannot show", r"ensures clause not satisfied", r"not satisfied at break", r"recommendation not met",
    r"possible overflow", r"possible underflow", r"index out of bounds", r"possible (negative|out of range)",
    r"assert_by_compute", r"failed proof", r"bit.?vector", r"nonlinear", r"expression simplifies to",
]
TOOLING = [r"not supported", r"unsupported", r"not yet support", r"Verus does not", r"internal error", r"cannot find", r"expected .* found", r"mismatched types"]
UNDECIDED = [r"[Rr]esource limit", r"rlimit", r"timed? ?out", r"solver (gave up|canceled|unknown)", r"incomplete"]

class UnitResult:
    def __init__(self, unit):
        self.unit = unit; self.status = "ok"; self.failures = []; self.undecided = []; self.tool_errors = []
        self.funcs = []; self.verified = 0; self.errors = 0; self.wall = 0.0; self.smt_ms = 0; self.built = None
        self.gen_path = None; self.stderr = ""

def _range_of(built, line):
    best = None
    for r in built.ranges:
        if r["start"] <= line <= r["end"]:
            if best is None or r["start"] >= best["start"]:
                if line < r["end"] or r is built.ranges[-1] or best is None:
                    best = r
    return best

def parse_errors(stderr, built, genname):
    blocks = re.split(r"\n(?=(?:error|warning|note)(?:\[[A-Z0-9]+\])?: )", "\n" + stderr)
    out = []
    lines = built.text.split("\n")
    for b in blocks:
        b = b.strip("\n")
        m = re.match(r"(error|warning|note)(\[[A-Z0-9]+\])?: (.*)", b)
        if not m: continue
        sev, code, msg = m.group(1), m.group(2), m.group(3).strip()
        if sev != "error" and not (sev == "note" and re.search(r"[Rr]esource limit|rlimit", msg)):
            continue
        if msg.startswith("aborting due to"): continue
        spans = [(int(x), int(y)) for x, y in re.findall(r"--> [^\n:]*:(\d+):(\d+)", b)]
        # labelled secondary lines:  "NNN | code"  followed by "| ^^^ label" ; collect all line numbers shown
        shown = [int(x) for x in re.findall(r"\n\s*(\d+)\s*\|", b)]
        line = spans[0][0] if spans else (shown[0] if shown else 0)
        rng = _range_of(built, line) if line else None
        # choose the function: prefer the range of any shown line that is a real item
        owner = rng
        for l in [line] + shown:
            r = _range_of(built, l) if l else None
            if r and r["real"]:
                owner = r; break
        text = lines[line - 1].strip() if 0 < line <= len(lines) else ""
        text = re.sub(r"\s+", " ", text)[:100]
        out.append({"severity": sev, "code": code, "msg": msg, "line": line, "owner": owner["label"] if owner else "?",
                    "owner_real": bool(owner and owner["real"]), "site": text, "raw": b})
    return out

def classify(e):
    msg = e["msg"]
    if e["code"]:
        return "tool"
    for p in TOOLING:
        if re.search(p, msg): return "tool"
    for p in UNDECIDED:
        if re.search(p, msg): return "undecided"
    for p in VERIF_FAIL:
        if re.search(p, msg): return "fail"
    return "tool"

def slug(s):
    return re.sub(r"[^a-z0-9]+", "-", s.lower()).strip("-")

def obligation_id(unit, e):
    return "%s::%s::%s[%s]" % (unit, e["owner"], slug(e["msg"])[:48], e["site"])

def run_unit(unit, strict=True, rlimit=None, tag="", text_override=None, threads=None, extra_args=None, pid=None, pinned=None):
    """Run the unit; if the Verus/rustc front end rejects the woven file and some function's source
    differs from the pinned skeleton, retry once with that function's inner annotations dropped
    (contract only): a changed function whose proof script no longer fits is then decided by its
    contract alone (it verifies or it fails an obligation), instead of ending as a tooling error."""
    r = _run_once(unit, strict, rlimit, tag, text_override, threads, extra_args, pid, (), (), pinned)
    if text_override is not None or pinned is not None:
        return r
    extras = []; degrade = set()
    for attempt in range(5):
        if r.status != "tool" or r.built is None:
            return r
        missing = _missing_items(r.stderr)
        new = [m for m in missing if m not in extras]
        if new:
            extras += new            # items the changed code newly refers to: extract them, keep every annotation
        elif r.built.changed and not (degrade >= r.built.changed):
            degrade |= set(r.built.changed)     # last resort: the proof script of the changed functions no longer compiles
        else:
            return r
        r2 = _run_once(unit, strict, rlimit, tag + "-retry%d" % (attempt + 1), text_override, threads, extra_args, pid, tuple(degrade), tuple(extras))
        r2.degraded = sorted(degrade); r2.auto_extracted = ["%s%s" % ((t + "::") if t else "", n) for t, n in extras]
        r2.first_attempt_errors = r.tool_errors[:5]
        r = r2
    return r

def _missing_items(stderr):
    out = []
    for m in re.finditer(r"cannot find (function|value|type|struct, variant or union type|trait|function, tuple struct or tuple variant) `(\w+)` in this scope", stderr):
        # a lower-case *value* is a local variable that an annotation still mentions, not an item of the crate
        if m.group(1) == "value" and not re.match(r"^[A-Z][A-Z0-9_]*$", m.group(2)): continue
        if (None, m.group(2)) not in out: out.append((None, m.group(2)))
    for m in re.finditer(r"no (?:method|function or associated item) named `(\w+)` found for (?:struct|enum|reference|mutable reference) `&?(?:mut )?(\w+)", stderr):
        if (m.group(2), m.group(1)) not in out: out.append((m.group(2), m.group(1)))
    return out

def _run_once(unit, strict, rlimit, tag, text_override, threads, extra_args, pid, degrade, extras=(), pinned=None):
    t0 = time.time()
    res = UnitResult(unit)
    try:
        built = U.build(unit, strict=strict, pid=pid, degrade=degrade, extras=extras, pinned=pinned)
    except U.LostAnchor as ex:
        res.status = "tool"; res.tool_errors.append(str(ex)); res.wall = time.time() - t0; return res
    except Exception as ex:
        res.status = "tool"; res.tool_errors.append("build: %s: %s" % (type(ex).__name__, ex)); res.wall = time.time() - t0; return res
    if text_override is not None:
        built.text = text_override(built)
    res.built = built
    if not built.selfcheck:
        res.status = "tool"; res.tool_errors.append("self-check failed: stripping the woven file does not give back the extracted code")
        res.wall = time.time() - t0; return res
    d = os.path.join(BUILD, (pid + "-" if pid else "") + unit + tag)
    os.makedirs(d, exist_ok=True)
    gen = os.path.join(d, unit + ".rs")
    open(gen, "w").write(built.text)
    res.gen_path = gen
    rl = rlimit or built.template.meta["rlimit"] or "30"
    cmd = ["verus", unit + ".rs", "--output-json", "--time-expanded", "--multiple-errors", "50", "--rlimit", str(rl)]
    if threads: cmd += ["--num-threads", str(threads)]
    if extra_args: cmd += extra_args
    res.cmd = " ".join(cmd)
    try:
        p = subprocess.run(cmd, cwd=d, capture_output=True, text=True, timeout=float(os.environ.get("VERIF_VERUS_TIMEOUT", "900")))
    except subprocess.TimeoutExpired as ex:
        res.status = "undecided"; res.undecided.append({"msg": "verus timed out after %ss" % ex.timeout, "owner": "?", "obligation": unit + "::<timeout>", "raw": "", "site": "", "line": 0})
        subprocess.run(["pkill", "-f", "rust_verify %s.rs" % unit]); res.wall = time.time() - t0; return res
    res.stderr = p.stderr
    open(os.path.join(d, "stderr.txt"), "w").write(p.stderr)
    open(os.path.join(d, "stdout.json"), "w").write(p.stdout)
    try:
        j = json.loads(p.stdout)
    except Exception:
        j = None
    errs = parse_errors(p.stderr, built, unit + ".rs")
    for e in errs:
        c = classify(e)
        e["class"] = c; e["obligation"] = obligation_id(unit, e)
        if c == "fail": res.failures.append(e)
        elif c == "undecided": res.undecided.append(e)
        else: res.tool_errors.append(e["msg"] + " @ " + e["site"])
    if j is None:
        res.status = "tool"
        if not res.tool_errors: res.tool_errors.append("verus produced no JSON; exit=%s; stderr tail: %s" % (p.returncode, p.stderr[-400:]))
        res.wall = time.time() - t0; return res
    vr = j.get("verification-results", {})
    res.verified = vr.get("verified", 0); res.errors = vr.get("errors", 0)
    try:
        smt = j["times-ms"]["smt"]
        res.smt_ms = smt.get("total", 0)
        for mod in smt.get("smt-run-module-times", []):
            for f in mod.get("function-breakdown", []):
                res.funcs.append({"function": f["function"].split("::", 1)[-1], "mode": f.get("mode:"), "ms": f.get("time"),
                                  "rlimit": f.get("rlimit"), "success": f.get("success")})
    except Exception:
        pass
    if res.tool_errors and not res.failures and not res.undecided:
        res.status = "tool"
    elif res.failures:
        res.status = "fail"
    elif res.undecided:
        res.status = "undecided"
    elif vr.get("encountered-vir-error"):
        res.status = "tool"; res.tool_errors.append("verus front-end (VIR) error; see stderr.txt")
    elif not vr.get("success"):
        res.status = "tool"; res.tool_errors.append("verus reports failure without a classified error; see stderr.txt")
    elif res.verified == 0:
        res.status = "tool"; res.tool_errors.append("vacuous: zero verified items")
    res.wall = time.time() - t0
    return res
